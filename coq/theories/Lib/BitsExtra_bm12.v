(** Lemmas for C12 (bitmap construction and inspection): strictly ascending lists are
    determined by their elements, one bit of a flattened bitmap read through the word
    that holds it ([wbit]), words are determined by their 64 bits, [lor] stays a word. *)
From Coq Require Import ZArith List Lia Bool Sorted.
From Low Require Import Lib.MachInt Lib.Bits Lib.BitSeq Lib.BitsExtra_bm2.
Import ListNotations.
Open Scope Z_scope.

(** * strictly ascending lists *)
Lemma ssorted_cons_inv a l :
  StronglySorted Z.lt (a :: l) -> StronglySorted Z.lt l /\ (forall q, In q l -> a < q).
Proof.
  intros H. inversion H as [|? ? Hs Ha]; subst. split; [exact Hs|].
  intros q Hq. eapply Forall_forall in Ha; eauto.
Qed.

Lemma ssorted_ext l1 : forall l2,
  StronglySorted Z.lt l1 -> StronglySorted Z.lt l2 ->
  (forall p, In p l1 <-> In p l2) -> l1 = l2.
Proof.
  induction l1 as [|a l1 IH]; intros [|b l2] H1 H2 Hin.
  - reflexivity.
  - exfalso. apply (proj2 (Hin b)). now left.
  - exfalso. apply (proj1 (Hin a)). now left.
  - apply ssorted_cons_inv in H1. destruct H1 as [Hs1 Ha].
    apply ssorted_cons_inv in H2. destruct H2 as [Hs2 Hb].
    assert (a = b).
    { destruct (proj1 (Hin a) (or_introl eq_refl)) as [E|Hab]; [congruence|].
      destruct (proj2 (Hin b) (or_introl eq_refl)) as [E|Hba]; [congruence|].
      specialize (Ha _ Hba). specialize (Hb _ Hab). lia. }
    subst b. f_equal. apply IH; auto.
    intros p. split; intros Hp.
    + destruct (proj1 (Hin p) (or_intror Hp)) as [E|H]; [|exact H].
      specialize (Ha _ Hp). lia.
    + destruct (proj2 (Hin p) (or_intror Hp)) as [E|H]; [|exact H].
      specialize (Hb _ Hp). lia.
Qed.

Lemma ssorted_last_max l d : StronglySorted Z.lt l -> forall q, In q l -> q <= last l d.
Proof.
  induction 1 as [|a l Hs IH Ha]; intros q Hq; [destruct Hq|].
  destruct l as [|b l].
  - destruct Hq as [<-|[]]. cbn [last]. lia.
  - rewrite last_cons_ne by discriminate. destruct Hq as [<-|Hq].
    + assert (a < b) by (eapply Forall_forall in Ha; [exact Ha|now left]).
      specialize (IH b (or_introl eq_refl)). lia.
    + now apply IH.
Qed.

Lemma last_In {A} (l : list A) d : l <> [] -> In (last l d) l.
Proof.
  induction l as [|a l IH]; intros H; [congruence|].
  destruct l as [|b l]; [now left|]. right. apply IH. discriminate.
Qed.

(** * a word is its 64 bits *)
Lemma word_ext a b : 0 <= a < 2^64 -> 0 <= b < 2^64 ->
  (forall j, 0 <= j < 64 -> Z.testbit a j = Z.testbit b j) -> a = b.
Proof.
  intros Ha Hb H. apply Z.bits_inj'. intros n Hn.
  destruct (Z.ltb_spec n 64) as [Hlt|Hge]; [apply H; lia|].
  rewrite (Z.bits_above_log2 a n), (Z.bits_above_log2 b n); try lia.
  - destruct (Z.eq_dec b 0) as [->|]; [cbn; lia|].
    assert (Z.log2 b < 64) by (apply Z.log2_lt_pow2; lia). lia.
  - destruct (Z.eq_dec a 0) as [->|]; [cbn; lia|].
    assert (Z.log2 a < 64) by (apply Z.log2_lt_pow2; lia). lia.
Qed.

Lemma testbit_word_high w j : 0 <= w < 2^64 -> 64 <= j -> Z.testbit w j = false.
Proof.
  intros Hw Hj. destruct (Z.eq_dec w 0) as [->|]; [apply Z.bits_0|].
  apply Z.bits_above_log2; [lia|].
  assert (Z.log2 w < 64) by (apply Z.log2_lt_pow2; lia). lia.
Qed.

Lemma lor_word a b : 0 <= a < 2^64 -> 0 <= b < 2^64 -> 0 <= Z.lor a b < 2^64.
Proof.
  intros Ha Hb. split; [apply Z.lor_nonneg; lia|].
  destruct (Z.eq_dec (Z.lor a b) 0) as [->|Hne]; [lia|].
  assert (0 <= Z.lor a b) by (apply Z.lor_nonneg; lia).
  apply Z.log2_lt_pow2; [lia|]. rewrite Z.log2_lor by lia.
  destruct (Z.eq_dec a 0) as [->|]; destruct (Z.eq_dec b 0) as [->|].
  - cbn. lia.
  - assert (Z.log2 b < 64) by (apply Z.log2_lt_pow2; lia). cbn [Z.log2]. lia.
  - assert (Z.log2 a < 64) by (apply Z.log2_lt_pow2; lia). cbn [Z.log2]. lia.
  - assert (Z.log2 a < 64) by (apply Z.log2_lt_pow2; lia).
    assert (Z.log2 b < 64) by (apply Z.log2_lt_pow2; lia). lia.
Qed.

Lemma pow2_word j : 0 <= j < 64 -> 0 <= 2 ^ j < 2 ^ 64.
Proof. intros Hj. split; [apply Z.pow_nonneg; lia|apply Z.pow_lt_mono_r; lia]. Qed.

Lemma shl64_1 j : 0 <= j < 64 -> shl64 1 j = 2 ^ j.
Proof. intros Hj. pose proof (pow2_word j Hj). rewrite shl64_small; lia. Qed.

(** * one bit of a bitmap, through its word *)
Definition wbit (ws : list Z) (p : Z) : bool :=
  Z.testbit (nth (Z.to_nat (p / 64)) ws 0) (p mod 64).

Lemma bitz_wbit ws p : 0 <= p -> bitz (flat ws) p = wbit ws p.
Proof.
  intros Hp. unfold wbit.
  assert (Hk : 0 <= p / 64) by (apply Z.div_pos; lia).
  assert (Hj : 0 <= p mod 64 < 64) by (apply Z.mod_pos_bound; lia).
  assert (Hdm : p = 64 * (p / 64) + p mod 64) by (apply Z.div_mod; lia).
  destruct (nth_error ws (Z.to_nat (p / 64))) as [w|] eqn:E.
  - rewrite (nth_error_nth _ _ 0 E).
    rewrite <- (bitz_flat ws (Z.to_nat (p / 64)) w (p mod 64) E Hj).
    f_equal. lia.
  - apply nth_error_None in E. rewrite (nth_overflow ws 0 E), Z.bits_0.
    unfold bitz. apply nth_overflow. rewrite flat_length. lia.
Qed.

Lemma ones_In_wbit ws p : In p (ones (flat ws)) <-> 0 <= p /\ wbit ws p = true.
Proof.
  rewrite ones_In_bitz. split; intros [Hp H]; (split; [exact Hp|]).
  - now rewrite <- bitz_wbit.
  - now rewrite bitz_wbit.
Qed.

Lemma wbit_lt ws p : 0 <= p -> wbit ws p = true -> p < 64 * zlen ws.
Proof.
  intros Hp H. rewrite <- bitz_wbit in H by lia. apply bitz_true_lt in H; [|lia].
  rewrite flat_length in H. unfold zlen. lia.
Qed.

(** two bitmaps with the same 1-positions have the same [ones] *)
Lemma ones_flat_ext a b :
  (forall p, 0 <= p -> wbit a p = wbit b p) -> ones (flat a) = ones (flat b).
Proof.
  intros H. apply ssorted_ext; try apply ones_sorted.
  intros p. rewrite !ones_In_wbit. split; intros [Hp Hb]; (split; [exact Hp|]).
  - now rewrite <- H.
  - now rewrite H.
Qed.

