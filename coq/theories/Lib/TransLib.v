(** Vocabulary of the generated file coq/gen/Trans.v (harness/trans) that is not already in
    Lib/MachInt.v: the remaining widths of Go's integer wraps and shifts, and the bounds-checked
    read of a package-level table.  Like Lib/MachInt.v this file is a model of Go's integer
    semantics, not of the repo's code.  Lemmas for the equality proofs are in
    Proofs/TransEqLemmas.v. *)
From Coq Require Import ZArith Bool.
From Low Require Import Lib.MachInt.
Open Scope Z_scope.

Definition i8  (x : Z) : Z := (x + 2^7) mod 2^8 - 2^7.
Definition i16 (x : Z) : Z := (x + 2^15) mod 2^16 - 2^15.

(** [x << n], [x >> n] with Go's count rule (count >= width: 0, or the sign fill) *)
Definition shl8  (x n : Z) : Z := if n <? 8  then u8  (x * 2^n) else 0.
Definition shl16 (x n : Z) : Z := if n <? 16 then u16 (x * 2^n) else 0.
Definition shr8  (x n : Z) : Z := if n <? 8  then x / 2^n else 0.
Definition shr16 (x n : Z) : Z := if n <? 16 then x / 2^n else 0.
Definition sshl8  (x n : Z) : Z := if n <? 8  then i8  (x * 2^n) else 0.
Definition sshl16 (x n : Z) : Z := if n <? 16 then i16 (x * 2^n) else 0.
Definition sshl64 (x n : Z) : Z := if n <? 64 then i64 (x * 2^n) else 0.
Definition sar8  (x n : Z) : Z := if n <? 8  then x / 2^n else (if x <? 0 then -1 else 0).
Definition sar16 (x n : Z) : Z := if n <? 16 then x / 2^n else (if x <? 0 then -1 else 0).
Definition not16 (x : Z) : Z := 2^16 - 1 - x.

(** [Tab[i]] for a package-level array [Tab [size]T] whose contents the model writes as the
    function [f]: an index outside the array panics.  (Same shape as Model.BmtreeIndex.tbl.) *)
Definition tblZ (size : Z) (f : Z -> Z) (i : Z) : option Z :=
  if (0 <=? i) && (i <? size) then Some (f i) else None.
