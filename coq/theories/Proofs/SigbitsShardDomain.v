(** C17, widening: ShardByPrefix at and beyond the edges of its domain.
    - all keys fit into one shard (len(keys) <= maxSize): the result is that one shard;
    - maxSize = 1: every key is a shard of its own, with the key as prefix
      (derived from [shard_spec] alone: for maxSize = 1 the relation is a function);
    - keys = []: the call panics (model: [None]);
    - maxSize <= 0 (outside the domain): the recursion never ends -- [dfs] returns
      [None] for every amount of fuel (in Go: a fatal, unrecoverable stack overflow). *)
From Coq Require Import ZArith List Lia Bool.
From Low Require Import Lib.MachInt Lib.Bits Lib.BitSeq Lib.Lex Lib.Bytes
  Model.Sigbits Spec.SigbitsSpec Proofs.SigbitsFirstDiff Proofs.SigbitsShardChecker Proofs.SigbitsShard.
Import ListNotations.
Open Scope Z_scope.

(** * one shard *)
Theorem ShardByPrefix_one_shard keys maxSize :
  keys <> [] -> keys_ok keys -> zlen keys <= maxSize ->
  ShardByPrefix keys maxSize = Some ([zlen (lcp_all keys)], [0; zlen keys]).
Proof.
  intros Hne Hok Hsz. unfold ShardByPrefix. rewrite (FirstDiffBits_exact keys Hne Hok).
  assert (Hlen : (0 < length keys)%nat) by (destruct keys; [congruence|cbn [length]; lia]).
  replace (zlen (spec_FirstDiffBits keys) + 1) with (Z.of_nat (length keys))
    by (unfold zlen; rewrite (fd_length keys); lia).
  cbn [dfs]. change 0 with (Z.of_nat 0) at 1 2 3.
  rewrite (nthZ_keys keys 0 Hlen).
  destruct (Z.leb_spec (Z.of_nat (length keys) - Z.of_nat 0) maxSize) as [_|H]; [|unfold zlen in Hsz; lia].
  rewrite idx_range_nat. unfold zlen at 1. rewrite (shard_min_ok keys Hok) by lia.
  cbn [fst snd app].
  assert (Hsub : sub_keys keys (Z.of_nat 0) (Z.of_nat (length keys)) = keys).
  { unfold sub_keys. replace (Z.to_nat (Z.of_nat (length keys) - Z.of_nat 0)) with (length keys) by lia.
    cbn [Z.of_nat Z.to_nat skipn]. apply firstn_all. }
  pose proof (lcp_all_sub keys 0 (length keys) Hlen (le_n _)) as HM. rewrite Hsub in HM.
  unfold M in HM. unfold zlen. rewrite HM. reflexivity.
Qed.

(** * maxSize = 1 *)
Lemma sub_keys_one (keys : list (list Z)) j : (j < length keys)%nat ->
  sub_keys keys (Z.of_nat j) (Z.of_nat j + 1) = [nth j keys []].
Proof.
  intros Hj. unfold sub_keys. replace (Z.to_nat (Z.of_nat j + 1 - Z.of_nat j)) with 1%nat by lia.
  rewrite Nat2Z.id, (c17_skipn_nth [] keys j Hj). reflexivity.
Qed.

Theorem shard_spec_maxSize_1 keys L B : shard_spec keys 1 L B ->
  B = map Z.of_nat (seq 0 (S (length keys))) /\ L = map zlen keys.
Proof.
  intros (HB & H0 & Hk & Hst & _).
  assert (Hnth : forall j, (j <= length L)%nat -> nth j B 0 = Z.of_nat j).
  { induction j as [|j IH]; intros Hj; [exact H0|].
    specialize (IH ltac:(lia)). destruct (Hst j ltac:(lia)) as (A1 & A2 & _). lia. }
  assert (HkL : length L = length keys).
  { rewrite (Hnth (length L) (le_n _)) in Hk. unfold zlen in Hk. lia. }
  split.
  - apply (nth_ext _ _ 0 0).
    + rewrite map_length, seq_length. lia.
    + intros j Hj. rewrite Hnth by lia.
      rewrite (c17_map_nth _ 0%nat) by (rewrite seq_length; lia).
      rewrite seq_nth by lia. reflexivity.
  - apply (nth_ext _ _ 0 0).
    + now rewrite map_length.
    + intros j Hj. destruct (Hst j Hj) as (_ & _ & A3).
      rewrite A3, (Hnth j), (Hnth (S j)) by lia.
      replace (Z.of_nat (S j)) with (Z.of_nat j + 1) by lia.
      rewrite sub_keys_one by lia. cbn [lcp_all fold_left].
      rewrite (c17_map_nth _ []) by lia. reflexivity.
Qed.

(** * empty key list: [make([]int32, -1)] in FirstDiffBits panics *)
Theorem ShardByPrefix_empty maxSize : ShardByPrefix [] maxSize = None.
Proof. reflexivity. Qed.

(** * maxSize <= 0: unbounded recursion *)
Lemma shard_split_elems fd : forall is lo E lo' E',
  shard_split fd is lo E = Some (lo', E') ->
  forall x, In x E' -> In x E \/ exists i, In i is /\ x = i + 1.
Proof.
  induction is as [|i is IH]; intros lo E lo' E' H x Hx; cbn [shard_split] in H.
  - injection H as <- <-. now left.
  - destruct (nthZ fd i) as [d|]; [|discriminate].
    destruct (sar32 d 3 <? lo).
    + destruct (IH _ _ _ _ H x Hx) as [[<-|[]]|(i' & Hi' & ->)].
      * right. exists i. split; [now left|reflexivity].
      * right. exists i'. split; [now right|reflexivity].
    + destruct (sar32 d 3 =? lo).
      * destruct (IH _ _ _ _ H x Hx) as [Hin|(i' & Hi' & ->)].
        -- apply in_app_or in Hin. destruct Hin as [Hin|[<-|[]]]; [now left|].
           right. exists i. split; [now left|reflexivity].
        -- right. exists i'. split; [now right|reflexivity].
      * destruct (IH _ _ _ _ H x Hx) as [Hin|(i' & Hi' & ->)]; [now left|].
        right. exists i'. split; [now right|reflexivity].
Qed.

Lemma idx_range_ge s e i : In i (idx_range s e) -> s <= i.
Proof. unfold idx_range. intros H. apply in_map_iff in H. destruct H as (k & <- & _). lia. Qed.

Theorem dfs_nonpositive_maxSize keys fd maxSize : maxSize <= 0 ->
  forall fuel s e st, s < e -> dfs keys fd maxSize fuel s e st = None.
Proof.
  intros Hms. induction fuel as [|fuel IH]; intros s e st Hse; [reflexivity|].
  cbn [dfs]. destruct (nthZ keys s) as [ks|]; [|reflexivity].
  destruct (Z.leb_spec (e - s) maxSize) as [H|_]; [lia|].
  destruct (shard_split fd (idx_range s e) (zlen ks) []) as [[lo endsAt]|] eqn:Hsp; [|reflexivity].
  destruct endsAt as [|x r].
  - cbn [app dfs_each]. now rewrite IH.
  - cbn [app dfs_each]. rewrite IH; [reflexivity|].
    destruct (shard_split_elems _ _ _ _ _ _ Hsp x (or_introl eq_refl)) as [[]|(i & Hi & ->)].
    apply idx_range_ge in Hi. lia.
Qed.

Corollary ShardByPrefix_nonpositive_maxSize keys maxSize : maxSize <= 0 ->
  ShardByPrefix keys maxSize = None.
Proof.
  intros Hms. unfold ShardByPrefix. destruct (FirstDiffBits keys) as [fd|]; [|reflexivity].
  apply dfs_nonpositive_maxSize; [exact Hms|]. unfold zlen. lia.
Qed.
