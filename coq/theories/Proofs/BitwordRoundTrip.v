(** C08 widened: the round trip in the other direction.  FromStr (ToStr ws) is
    ws followed by the zero words that fill the last byte. *)
From Coq Require Import ZArith List Bool Lia PeanoNat.
From Low Require Import Lib.MachInt Lib.Bits Lib.BitSeq Lib.Bytes Lib.Lex Lib.Val Lib.Pack_bw Lib.PackLemmas_bw
  Model.Bitword Spec.BitwordSpec Proofs.BitwordProofs Proofs.BitwordToStr.
Import ListNotations.
Open Scope Z_scope.

(** number of zero words that complete the last byte *)
Definition padw (n : nat) (len : nat) : nat := let m := (8 / n)%nat in ((m - len mod m) mod m)%nat.

Lemma chunks_flat_map_to_bits n l : (0 < n)%nat ->
  chunks n (flat_map (to_bits n) l) = map (to_bits n) l.
Proof.
  intros Hn. induction l as [|x l IH].
  - cbn [flat_map map]. apply chunks_short. cbn. lia.
  - cbn [flat_map map]. rewrite chunks_app_block by (try apply to_bits_length; lia). now rewrite IH.
Qed.

Lemma padn_padw n len : widthP n -> padn (n * len) = (n * padw n len)%nat.
Proof.
  intros Hn. unfold padn, padw. cbv zeta.
  destruct Hn as [ -> | [ -> | [ -> | -> ]]].
  - change (8 / 1)%nat with 8%nat. rewrite !Nat.mul_1_l. reflexivity.
  - change (8 / 2)%nat with 4%nat.
    replace 8%nat with (2 * 4)%nat at 2 by reflexivity. rewrite Nat.mul_mod_distr_l by lia.
    pose proof (Nat.mod_upper_bound len 4 ltac:(lia)) as U.
    destruct (Nat.eq_dec (len mod 4) 0) as [E|E].
    + rewrite E. reflexivity.
    + rewrite (Nat.mod_small (4 - len mod 4) 4) by lia. rewrite (Nat.mod_small _ 8) by lia. lia.
  - change (8 / 4)%nat with 2%nat.
    replace 8%nat with (4 * 2)%nat at 2 by reflexivity. rewrite Nat.mul_mod_distr_l by lia.
    pose proof (Nat.mod_upper_bound len 2 ltac:(lia)) as U.
    destruct (Nat.eq_dec (len mod 2) 0) as [E|E].
    + rewrite E. reflexivity.
    + rewrite (Nat.mod_small (2 - len mod 2) 2) by lia. rewrite (Nat.mod_small _ 8) by lia. lia.
  - change (8 / 8)%nat with 1%nat. rewrite Nat.mod_1_r.
    replace (8 * len)%nat with (len * 8)%nat by lia. rewrite Nat.mod_mul by lia. reflexivity.
Qed.

Lemma map_val_msb_to_bits n l : words_in n l -> map val_msb (map (to_bits n) l) = l.
Proof.
  intros H. induction H as [|x l Hx H IH]; [reflexivity|].
  cbn [map]. rewrite IH. f_equal. now apply val_msb_to_bits_in.
Qed.

Lemma words_in_zeros n k : words_in n (repeat 0 k).
Proof.
  unfold words_in. apply Forall_forall. intros x Hx. apply repeat_spec in Hx. subst.
  split; [lia|]. apply Z.pow_pos_nonneg; lia.
Qed.

Lemma FromStr_ToStr n ws : widthP n -> words_in n ws ->
  exists s, ToStr (newBW (Z.of_nat n)) ws = Some s /\
            FromStr (newBW (Z.of_nat n)) s = ws ++ repeat 0 (padw n (length ws)).
Proof.
  intros Hn Hin. eexists. split; [now apply ToStr_exact|].
  assert (Hnp : (0 < n)%nat) by (destruct Hn as [ -> | [ -> | [ -> | -> ]]]; lia).
  rewrite FromStr_exact by (try exact Hn; apply pack_bytes_ok).
  unfold spec_FromStr, spec_ToStr. rewrite msb_bits_pack. unfold pad8.
  rewrite flat_map_to_bits_length, padn_padw by exact Hn.
  rewrite <- flat_map_to_bits_zeros, <- flat_map_app, chunks_flat_map_to_bits by exact Hnp.
  apply map_val_msb_to_bits. apply Forall_app. split; [exact Hin|apply words_in_zeros].
Qed.

(** in particular for a whole number of bytes: FromStr (ToStr ws) = ws *)
Lemma FromStr_ToStr_whole n ws : widthP n -> words_in n ws -> (length ws mod (8 / n) = 0)%nat ->
  exists s, ToStr (newBW (Z.of_nat n)) ws = Some s /\ FromStr (newBW (Z.of_nat n)) s = ws.
Proof.
  intros Hn Hin Hm. destruct (FromStr_ToStr n ws Hn Hin) as (s & E1 & E2). exists s. split; [exact E1|].
  rewrite E2. unfold padw. cbv zeta. rewrite Hm, Nat.sub_0_r, Nat.mod_same, app_nil_r; [reflexivity|].
  destruct Hn as [ -> | [ -> | [ -> | -> ]]]; cbn; lia.
Qed.
