(** Equality of the definition generated from the Go source of bmtree.PathToIndex (coq/gen/Trans.v) and the model. *)
From Coq Require Import ZArith List Lia Bool.
From Low Require Import Lib.MachInt Lib.Bits Lib.BitSeq Lib.TransLib Proofs.TransEqLemmas.
From LowGen Require Trans.
Import ListNotations.
Open Scope Z_scope.

From Low Require Import Model.BmtreePath Model.BmtreeIndex Proofs.TransEq_bmtree_Height Proofs.TransEq_bmtree_PathLen.

(** release build: [must.Be.OK(func(){...})] is a call of the empty method of must/disabled (checked by the
    translator on the SSA form of the callee); shiftMulti (a loop) is the model's function on both sides.
    No hypothesis: the equality holds for all arguments, panics ([None]) included. *)
Lemma TransEq_bmtree_PathToIndex bitmapSize path :
  Trans.bmtree_PathToIndex bitmapSize path = PathToIndex bitmapSize path.
Proof.
  unfold Trans.bmtree_PathToIndex, PathToIndex, fullTreeIndex, tblMaskUpto, tblBit, tblMask. cbv zeta.
  rewrite TransEq_bmtree_Height, TransEq_bmtree_PathLen.
  change tblZ with tbl.
  destruct (tbl 64 MaskUpto (Height bitmapSize)) as [mu|]; [|reflexivity].
  destruct (u64 bitmapSize =? mu); [reflexivity|].
  destruct (tbl 64 Bit (Height bitmapSize)) as [bt|]; [|reflexivity].
  destruct (u64 bitmapSize =? bt); [reflexivity|].
  destruct (shiftMulti (u64 bitmapSize) (shr64 path 32) (u64 (Height bitmapSize))) as [idx|]; [|reflexivity].
  destruct (tbl 65 Mask (PathLen path)) as [m|]; [|reflexivity].
  rewrite u64_add_r. reflexivity.
Qed.
