(** Proofs for C15, widened: the exported [Words] of a TailBitmap read with the plain bitmap
    functions.  For j >= Offset, [bitmap.Get(Words, j-Offset)] / [Get1] are the very same reads as
    [TailBitmap.Get(j)] / [Get1(j)] (in ANY state); [SafeGet]/[SafeGet1] agree below the end and
    return 0 at or past it; hence, in every reachable state, all of them are membership. *)
From Coq Require Import ZArith List Bool Lia.
From Low Require Import Lib.MachInt Lib.Bits Lib.BitSeq Lib.Val Model.TailBitmap
  Spec.TailBitmapSpec Spec.TailBitmapInv Spec.TailBitmapObs
  Proofs.TailBitmapProofs Proofs.TailBitmapHist Proofs.TailBitmapChecker Run.C15.
From Low Require Model.BitmapOf.
Import ListNotations.
Open Scope Z_scope.

Lemma shr64_land63 w i : shr64 w (Z.land i 63) = Z.shiftr w (Z.land i 63).
Proof.
  rewrite land63. unfold shr64.
  pose proof (Z.mod_pos_bound i 64 ltac:(lia)) as Hb.
  destruct (Z.ltb_spec (i mod 64) 64); [|lia].
  rewrite Z.shiftr_div_pow2 by lia. reflexivity.
Qed.

(** bitmap.Get / Get1 on Words are TailBitmap.Get / Get1, in any state, for any j >= Offset
    (both panic together past the end) *)
Lemma words_Get_agree s j : Offset s <= j ->
  BitmapOf.Get (Words s) (j - Offset s) = Get s j /\
  BitmapOf.Get1 (Words s) (j - Offset s) = Get1 s j.
Proof.
  intros Hj. unfold BitmapOf.Get, BitmapOf.Get1, Get, Get1.
  destruct (Z.ltb_spec j (Offset s)); [lia|]. cbv zeta.
  destruct (nthZ (Words s) (Z.shiftr (j - Offset s) 6)) as [w|]; [|split; reflexivity].
  rewrite shr64_land63. split; reflexivity.
Qed.

Lemma words_Safe_in s j : Offset s <= j -> j < end_of s ->
  BitmapOf.SafeGet (Words s) (j - Offset s) = Get s j /\
  BitmapOf.SafeGet1 (Words s) (j - Offset s) = Get1 s j.
Proof.
  intros Hj He. destruct (words_Get_agree s j Hj) as [G G1]. rewrite <- G, <- G1.
  unfold BitmapOf.SafeGet, BitmapOf.SafeGet1, BitmapOf.Get, BitmapOf.Get1. cbv zeta.
  rewrite shiftr6. unfold end_of, tb_end in He.
  assert (R : 0 <= (j - Offset s) / 64 < zlen (Words s)).
  { split; [apply Z.div_pos; lia|]. apply Z.div_lt_upper_bound; lia. }
  destruct (Z.ltb_spec ((j - Offset s) / 64) 0); [lia|].
  destruct (Z.geb_spec ((j - Offset s) / 64) (zlen (Words s))); [lia|].
  cbn [orb]. split; reflexivity.
Qed.

Lemma words_Safe_out s j : Offset s <= j -> end_of s <= j ->
  BitmapOf.SafeGet (Words s) (j - Offset s) = Some 0 /\
  BitmapOf.SafeGet1 (Words s) (j - Offset s) = Some 0.
Proof.
  intros Hj He. unfold BitmapOf.SafeGet, BitmapOf.SafeGet1. cbv zeta.
  rewrite shiftr6. unfold end_of, tb_end in He.
  assert (R : zlen (Words s) <= (j - Offset s) / 64).
  { apply Z.div_le_lower_bound; lia. }
  destruct (Z.geb_spec ((j - Offset s) / 64) (zlen (Words s))); [|lia].
  rewrite orb_true_r. split; reflexivity.
Qed.

(** in a reachable state: all six reads are membership below the end; at or past the end the Safe
    forms return 0 and the position is not a member *)
Lemma reach_words o ops s rs j (m : bool) : o mod 64 = 0 ->
  run (NewTailBitmap o) ops = Some (s, rs) ->
  Offset s <= j < tb_end (Offset s) (Words s) ->
  (m = true <-> j < o \/ was_set ops j) ->
  let i := j - Offset s in
  let g := Some (Z.shiftl (Z.b2z m) (j mod 64)) in
  let b := Some (Z.b2z m) in
  Get s j = g /\ BitmapOf.Get (Words s) i = g /\ BitmapOf.SafeGet (Words s) i = g /\
  Get1 s j = b /\ BitmapOf.Get1 (Words s) i = b /\ BitmapOf.SafeGet1 (Words s) i = b.
Proof.
  intros Ho E [Hj He] Hm. cbv zeta.
  destruct (reach_Get o ops s rs j m Ho E He Hm) as [G1 G].
  destruct (words_Get_agree s j Hj) as [A A1].
  destruct (words_Safe_in s j Hj He) as [B B1].
  rewrite A, A1, B, B1, G, G1. repeat split; reflexivity.
Qed.

Lemma reach_words_past_end o ops s rs j : o mod 64 = 0 ->
  run (NewTailBitmap o) ops = Some (s, rs) ->
  tb_end (Offset s) (Words s) <= j ->
  BitmapOf.SafeGet (Words s) (j - Offset s) = Some 0 /\
  BitmapOf.SafeGet1 (Words s) (j - Offset s) = Some 0 /\
  ~ (j < o \/ was_set ops j).
Proof.
  intros Ho E He. pose proof (reach_TInv o ops s rs Ho E) as T.
  assert (Hj : Offset s <= j) by (unfold tb_end, zlen in He; lia).
  destruct (words_Safe_out s j Hj He) as [A B]. split; [exact A|]. split; [exact B|].
  intros [C|C].
  - pose proof (ti_ge _ _ _ _ T). lia.
  - apply (ti_end _ _ _ _ T) in C. lia.
Qed.

(** ** the checker of the words protocol operation accepts the model *)

Lemma run_proto_state_Inv st o : forall ps H s s', Inv st o (memP H) s ->
  run_proto_state s ps = SOk s' -> Inv st o (memP (hist_after H ps)) s'.
Proof.
  induction ps as [|p t IH]; intros H s s' I E; cbn [run_proto_state hist_after fold_left] in *.
  - inversion E; subst. exact I.
  - destruct (pop_in_domain s p); cbn [negb] in E; [|discriminate].
    destruct (pstep s p) as [[s1 r]|] eqn:E1; [|discriminate].
    destruct (pstep_Inv st o H s p s1 r I E1) as [I1 _].
    apply (IH _ _ _ I1 E).
Qed.

Lemma words_entry_ok st o H s j e : Inv st o (memP H) s -> Offset s <= j ->
  words_entry s j = Some e -> spec_words_entry o H j e = true.
Proof.
  intros I Hj E. unfold words_entry in E. cbv zeta in E.
  destruct (Z.ltb_spec j (Offset s + 64 * zlen (Words s))) as [He|He].
  - assert (He' : j < end_of s) by exact He.
    destruct (Get_spec st o _ s j (member o H j) I He' (member_iff o H j)) as [G1 G].
    destruct (words_Get_agree s j Hj) as [A A1].
    destruct (words_Safe_in s j Hj He') as [B B1].
    rewrite A, A1, B, B1, G, G1 in E. inversion E; subst e.
    unfold spec_words_entry. cbv zeta. rewrite !Z.eqb_refl. reflexivity.
  - assert (He' : end_of s <= j) by exact He.
    destruct (words_Safe_out s j Hj He') as [A B]. rewrite A, B in E. inversion E; subst e.
    unfold spec_words_entry. cbv zeta. cbn [Z.eqb andb]. rewrite !andb_true_r.
    apply negb_true_iff. destruct (member o H j) eqn:M; [|reflexivity]. exfalso.
    apply member_iff in M. destruct M as [M|M].
    + pose proof (inv_ge _ _ _ _ I). pose proof (end_ge_off s). lia.
    + apply (wi_end _ _ _ (inv_w _ _ _ _ I)) in M. unfold end_of, tb_end in He'. lia.
Qed.

Lemma words_entries_ok st o H s : Inv st o (memP H) s -> forall js es,
  forallb (words_in_domain s) js = true ->
  opt_all (map (words_entry s) js) = Some es -> check_words o H js es = true.
Proof.
  intros I. induction js as [|j t IH]; intros es D E; cbn [map opt_all] in E.
  - inversion E; subst. reflexivity.
  - cbn [forallb] in D. apply andb_true_iff in D. destruct D as [D1 D2].
    destruct (words_entry s j) as [e|] eqn:E1; [|discriminate].
    destruct (opt_all (map (words_entry s) t)) as [r|] eqn:E2; [|discriminate].
    inversion E; subst es. cbn [check_words].
    unfold words_in_domain in D1. apply andb_true_iff in D1. destruct D1 as [D1 _]. apply Z.leb_le in D1.
    rewrite (words_entry_ok st o H s j e I D1 E1). cbn [andb]. apply IH; [exact D2|reflexivity].
Qed.

Lemma model_words_accepted o ps js es :
  model_words o ps js = Some (Some es) -> check_words o (hist_after [] ps) js es = true.
Proof.
  unfold model_words, offset_in_domain. intros E.
  destruct ((- BIG <=? o) && (o <=? BIG) && (o mod 64 =? 0)) eqn:D; [|discriminate].
  apply andb_true_iff in D. destruct D as [_ D]. apply Z.eqb_eq in D.
  destruct (run_proto_state (NewTailBitmap o) ps) as [| |s] eqn:R; try discriminate.
  destruct (forallb (words_in_domain s) js) eqn:F; [|discriminate].
  inversion E as [E'].
  assert (I : Inv True o (memP []) (NewTailBitmap o)).
  { eapply Inv_ext; [|exact (Inv_New True o D)]. intros j. rewrite memP_nil. tauto. }
  pose proof (run_proto_state_Inv True o ps [] _ s I R) as I'.
  exact (words_entries_ok True o _ s I' js es F E').
Qed.
