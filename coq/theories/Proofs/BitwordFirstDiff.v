(** C08 (bitword), third part: FirstDiff = the smallest word index in
    [from, lim) at which the two strings differ, or lim. *)
From Coq Require Import ZArith List Bool Lia PeanoNat.
From Low Require Import Lib.MachInt Lib.Bits Lib.BitSeq Lib.Bytes Lib.Lex Lib.Val Lib.Pack_bw Lib.PackLemmas_bw
  Model.Bitword Spec.BitwordSpec Proofs.BitwordProofs Proofs.BitwordToStr.
Import ListNotations.
Open Scope Z_scope.

(** * first hit of a predicate in an index window *)
Definition win (from len : Z) : list Z := map (fun k => from + k) (zrange len).

Lemma win_nonpos from len : len <= 0 -> win from len = [].
Proof. intros H. unfold win. now rewrite zrange_nonpos. Qed.

Lemma win_cons from len : 0 < len -> win from len = from :: win (from + 1) (len - 1).
Proof.
  intros H. unfold win. replace len with (1 + (len - 1)) at 1 by lia.
  rewrite zrange_cons by lia. cbn [map]. rewrite Z.add_0_r. f_equal.
  rewrite map_map. apply map_ext. intros k. lia.
Qed.

Definition first_in (P : Z -> bool) (from len dflt : Z) : Z :=
  match find P (win from len) with Some i => i | None => dflt end.

Lemma first_in_spec P dflt : forall (k : nat) from len, len = Z.of_nat k ->
  let r := first_in P from len dflt in
  (r = dflt /\ (forall i, from <= i < from + len -> P i = false)) \/
  (from <= r < from + len /\ P r = true /\ (forall i, from <= i < r -> P i = false)).
Proof.
  induction k as [|k IH]; intros from len Hlen r.
  - left. subst r. unfold first_in. rewrite win_nonpos by lia. split; [reflexivity|]. intros; lia.
  - subst r. unfold first_in. rewrite win_cons by lia. cbn [find].
    destruct (P from) eqn:EP.
    + right. split; [lia|]. split; [exact EP|]. intros; lia.
    + specialize (IH (from + 1) (len - 1) ltac:(lia)). cbv zeta in IH. unfold first_in in IH.
      destruct IH as [(E & H)|(R & HP & H)].
      * left. split; [exact E|]. intros i Hi.
        destruct (Z.eq_dec i from) as [->|]; [exact EP|apply H; lia].
      * right. split; [lia|]. split; [exact HP|]. intros i Hi.
        destruct (Z.eq_dec i from) as [->|]; [exact EP|apply H; lia].
Qed.

(** * the loop *)
Section FirstDiff.
  Variable n : nat.
  Hypothesis Hn : widthP n.
  Local Notation w := (newBW (Z.of_nat n)).

  Lemma FromStr_zlen s : zlen (FromStr w s) = zlen s * Z.of_nat (capn n).
  Proof. unfold zlen. rewrite (FromStr_length_nat n s Hn). lia. Qed.

  Lemma FirstDiff_loop_spec a b lim :
    lim <= zlen (FromStr w a) -> lim <= zlen (FromStr w b) ->
    forall fuel i, 0 <= i -> fuel = Z.to_nat (lim - i) ->
    FirstDiff_loop w a b i lim fuel =
    Some (first_in (fun i => negb (word_eqb (FromStr w a) (FromStr w b) i)) i (lim - i) lim).
  Proof.
    intros Ha Hb. induction fuel as [|f IH]; intros i Hi Hf.
    - cbn [FirstDiff_loop]. destruct (Z.ltb_spec i lim); [lia|].
      unfold first_in. rewrite win_nonpos by lia. reflexivity.
    - cbn [FirstDiff_loop]. destruct (Z.ltb_spec i lim); [|lia].
      rewrite !Get_FromStr by (try exact Hn; rewrite <- FromStr_zlen; lia).
      destruct (nthZ_in_range (FromStr w a) i ltac:(lia)) as [x Ex].
      destruct (nthZ_in_range (FromStr w b) i ltac:(lia)) as [y Ey].
      rewrite Ex, Ey.
      unfold first_in. rewrite win_cons by lia. cbn [find].
      unfold word_eqb at 1. rewrite Ex, Ey.
      destruct (x =? y); cbn [negb]; [|reflexivity].
      rewrite IH by lia. unfold first_in. replace (lim - (i + 1)) with (lim - i - 1) by lia. reflexivity.
  Qed.

  Definition fd_lim (a b : list Z) (end_ : Z) : Z :=
    let wa := FromStr w a in
    let wb := FromStr w b in
    let end' := if end_ =? -1 then zlen wa else end_ in
    Z.min end' (Z.min (zlen wa) (zlen wb)).

  Lemma FirstDiff_model a b from end_ : 0 <= from ->
    FirstDiff w a b from end_ =
    Some (first_in (fun i => negb (word_eqb (FromStr w a) (FromStr w b) i)) from (fd_lim a b end_ - from) (fd_lim a b end_)).
  Proof.
    intros Hfrom. unfold FirstDiff.
    set (la := zlen a * byteCap w). set (lb := zlen b * byteCap w).
    assert (Ela : zlen (FromStr w a) = la) by (subst la; rewrite FromStr_zlen, (byteCap_capn n Hn); reflexivity).
    assert (Elb : zlen (FromStr w b) = lb) by (subst lb; rewrite FromStr_zlen, (byteCap_capn n Hn); reflexivity).
    set (e1 := if end_ =? -1 then la else end_).
    set (e2 := if e1 >? la then la else e1).
    set (e3 := if e2 >? lb then lb else e2).
    assert (E3 : e3 = fd_lim a b end_).
    { unfold fd_lim. cbv zeta. rewrite Ela, Elb. fold e1. subst e3 e2.
      rewrite !Z.gtb_ltb. destruct (Z.ltb_spec la e1); destruct (Z.ltb_spec lb la);
        destruct (Z.ltb_spec lb e1); lia. }
    rewrite E3. apply FirstDiff_loop_spec; try lia.
    - unfold fd_lim. cbv zeta. lia.
    - unfold fd_lim. cbv zeta. lia.
  Qed.

  Lemma FirstDiff_exact_w a b from end_ : bytes_ok a -> bytes_ok b -> 0 <= from -> -1 <= end_ ->
    FirstDiff w a b from end_ = Some (spec_FirstDiff n a b from end_).
  Proof.
    intros Ha Hb Hfrom _. rewrite FirstDiff_model by exact Hfrom.
    unfold spec_FirstDiff, fd_lim, first_in, win. cbv zeta.
    rewrite !FromStr_exact by assumption. reflexivity.
  Qed.

  (** the result is the minimum of the differing indexes of the window, or lim *)
  Lemma FirstDiff_min_w a b from end_ : 0 <= from ->
    let wa := FromStr w a in
    let wb := FromStr w b in
    let lim := fd_lim a b end_ in
    exists r, FirstDiff w a b from end_ = Some r /\
      (lim <= from -> r = lim) /\
      (from <= lim -> from <= r <= lim /\
         (forall i, from <= i < r -> nthZ wa i = nthZ wb i) /\
         (r < lim -> nthZ wa r <> nthZ wb r)).
  Proof.
    intros Hfrom wa wb lim. eexists. split; [apply FirstDiff_model; exact Hfrom|].
    fold wa wb lim.
    set (P := fun i => negb (word_eqb wa wb i)).
    assert (Hlim : lim <= zlen wa /\ lim <= zlen wb) by (subst lim; unfold fd_lim; cbv zeta; fold wa wb; lia).
    assert (Peq : forall i, 0 <= i < lim -> P i = false -> nthZ wa i = nthZ wb i).
    { intros i Hi HP. subst P. cbv beta in HP. unfold word_eqb in HP.
      destruct (nthZ_in_range wa i ltac:(lia)) as [x Ex]. destruct (nthZ_in_range wb i ltac:(lia)) as [y Ey].
      rewrite Ex, Ey in *. apply negb_false_iff, Z.eqb_eq in HP. now subst. }
    assert (Pne : forall i, 0 <= i < lim -> P i = true -> nthZ wa i <> nthZ wb i).
    { intros i Hi HP. subst P. cbv beta in HP. unfold word_eqb in HP.
      destruct (nthZ_in_range wa i ltac:(lia)) as [x Ex]. destruct (nthZ_in_range wb i ltac:(lia)) as [y Ey].
      rewrite Ex, Ey in *. apply negb_true_iff, Z.eqb_neq in HP. congruence. }
    split.
    - intros Hle. unfold first_in. rewrite win_nonpos by lia. reflexivity.
    - intros Hle.
      destruct (first_in_spec P lim (Z.to_nat (lim - from)) from (lim - from) ltac:(lia)) as [(E & H)|(R & HP & H)].
      + rewrite E. split; [lia|]. split; [|lia]. intros i Hi. apply Peq; [lia|]. apply H. lia.
      + split; [lia|]. split.
        * intros i Hi. apply Peq; [lia|]. apply H. lia.
        * intros _. apply Pne; [lia|exact HP].
  Qed.
End FirstDiff.

Lemma FirstDiff_exact n a b from end_ : widthP n -> bytes_ok a -> bytes_ok b -> 0 <= from -> -1 <= end_ ->
  FirstDiff (newBW (Z.of_nat n)) a b from end_ = Some (spec_FirstDiff n a b from end_).
Proof. intros Hn. now apply FirstDiff_exact_w. Qed.

(** lim in the property's words: min(end', words(a), words(b)), words(s) = 8|s|/n *)
Definition lim_of (n : nat) (a b : list Z) (end_ : Z) : Z :=
  let la := 8 * zlen a / Z.of_nat n in
  let lb := 8 * zlen b / Z.of_nat n in
  Z.min (if end_ =? -1 then la else end_) (Z.min la lb).

Lemma fd_lim_lim_of n a b end_ : widthP n -> fd_lim n a b end_ = lim_of n a b end_.
Proof. intros Hn. unfold fd_lim, lim_of. cbv zeta. now rewrite !FromStr_length by exact Hn. Qed.

Lemma FirstDiff_min n a b from end_ : widthP n -> bytes_ok a -> bytes_ok b -> 0 <= from -> -1 <= end_ ->
  let wa := spec_FromStr n a in
  let wb := spec_FromStr n b in
  let lim := lim_of n a b end_ in
  exists r, FirstDiff (newBW (Z.of_nat n)) a b from end_ = Some r /\
    (lim <= from -> r = lim) /\
    (from <= lim -> from <= r <= lim /\
       (forall i, from <= i < r -> nthZ wa i = nthZ wb i) /\
       (r < lim -> nthZ wa r <> nthZ wb r)).
Proof.
  intros Hn Ha Hb Hfrom _. cbv zeta.
  rewrite <- (fd_lim_lim_of n a b end_ Hn), <- !FromStr_exact by assumption.
  now apply FirstDiff_min_w.
Qed.
