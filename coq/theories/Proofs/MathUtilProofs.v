(** Proofs for the extra check X04 (mathext/util): every Min<K> is the minimum, every Max<K> the
    maximum, every Clap<K> the nearest point of a non-empty interval; lattice laws; type closure. *)
From Coq Require Import ZArith List Bool Lia.
From Low Require Import Model.MathUtil Spec.MathUtilSpec.
Import ListNotations.
Open Scope Z_scope.

(** all kinds share one body *)
Lemma MinK_body k a b : MinK k a b = if a <? b then a else b.
Proof. destruct k; reflexivity. Qed.
Lemma MaxK_body k a b : MaxK k a b = if a >? b then a else b.
Proof. destruct k; reflexivity. Qed.
Lemma ClapK_body k n lo hi :
  ClapK k n lo hi = (let n1 := if n <? lo then lo else n in if n1 >? hi then hi else n1).
Proof. destruct k; reflexivity. Qed.

Lemma MinK_exact k a b : MinK k a b = spec_min a b.
Proof. rewrite MinK_body. unfold spec_min. destruct (Z.ltb_spec a b); lia. Qed.
Lemma MaxK_exact k a b : MaxK k a b = spec_max a b.
Proof. rewrite MaxK_body. unfold spec_max. rewrite Z.gtb_ltb. destruct (Z.ltb_spec b a); lia. Qed.
Lemma ClapK_exact k n lo hi : ClapK k n lo hi = spec_clamp n lo hi.
Proof.
  rewrite ClapK_body. unfold spec_clamp. cbv zeta. rewrite Z.gtb_ltb.
  destruct (Z.ltb_spec n lo), (Z.leb_spec lo hi);
    match goal with |- context [?x <? ?y] => destruct (Z.ltb_spec x y) end; lia.
Qed.

(** the executable specification values are the unique solutions of the relational ones *)
Lemma spec_min_is_min a b : is_min a b (spec_min a b).
Proof. unfold is_min, spec_min. lia. Qed.
Lemma is_min_unique a b r : is_min a b r -> r = spec_min a b.
Proof. unfold is_min, spec_min. lia. Qed.
Lemma spec_max_is_max a b : is_max a b (spec_max a b).
Proof. unfold is_max, spec_max. lia. Qed.
Lemma is_max_unique a b r : is_max a b r -> r = spec_max a b.
Proof. unfold is_max, spec_max. lia. Qed.

Lemma spec_clamp_is_clamp n lo hi : lo <= hi -> is_clamp n lo hi (spec_clamp n lo hi).
Proof.
  intros H. unfold is_clamp, spec_clamp. destruct (Z.leb_spec lo hi); [|lia].
  split; [lia|]. intros m Hm. lia.
Qed.
Lemma is_clamp_unique n lo hi r : lo <= hi -> is_clamp n lo hi r -> r = spec_clamp n lo hi.
Proof.
  intros H [Hr Hn]. unfold spec_clamp. destruct (Z.leb_spec lo hi); [|lia].
  pose proof (Hn (Z.max lo (Z.min n hi)) ltac:(lia)). lia.
Qed.

Lemma MinK_is_min k a b : is_min a b (MinK k a b).
Proof. rewrite MinK_exact. apply spec_min_is_min. Qed.
Lemma MaxK_is_max k a b : is_max a b (MaxK k a b).
Proof. rewrite MaxK_exact. apply spec_max_is_max. Qed.
Lemma ClapK_is_clamp k n lo hi : lo <= hi -> is_clamp n lo hi (ClapK k n lo hi).
Proof. intros. rewrite ClapK_exact. now apply spec_clamp_is_clamp. Qed.

Lemma ClapK_in_range k n lo hi : lo <= hi -> lo <= ClapK k n lo hi <= hi.
Proof. intros H. apply (ClapK_is_clamp k n) in H. apply H. Qed.
Lemma ClapK_fixed k n lo hi : lo <= n <= hi -> ClapK k n lo hi = n.
Proof. intros. rewrite ClapK_exact. unfold spec_clamp. destruct (Z.leb_spec lo hi); lia. Qed.
Lemma ClapK_fixed_iff k n lo hi : lo <= hi -> (ClapK k n lo hi = n <-> lo <= n <= hi).
Proof.
  intros H. split; [|apply ClapK_fixed].
  intros E. pose proof (ClapK_in_range k n lo hi H). lia.
Qed.
Lemma ClapK_below k n lo hi : lo <= hi -> n <= lo -> ClapK k n lo hi = lo.
Proof. intros. rewrite ClapK_exact. unfold spec_clamp. destruct (Z.leb_spec lo hi); lia. Qed.
Lemma ClapK_above k n lo hi : lo <= hi -> hi <= n -> ClapK k n lo hi = hi.
Proof. intros. rewrite ClapK_exact. unfold spec_clamp. destruct (Z.leb_spec lo hi); lia. Qed.
Lemma ClapK_idem k n lo hi : ClapK k (ClapK k n lo hi) lo hi = ClapK k n lo hi.
Proof. rewrite !ClapK_exact. unfold spec_clamp. destruct (Z.leb_spec lo hi); lia. Qed.
Lemma ClapK_mono k n m lo hi : n <= m -> ClapK k n lo hi <= ClapK k m lo hi.
Proof. intros. rewrite !ClapK_exact. unfold spec_clamp. destruct (Z.leb_spec lo hi); lia. Qed.
Lemma ClapK_inverted k n lo hi : hi < lo -> ClapK k n lo hi = hi.
Proof. intros. rewrite ClapK_exact. unfold spec_clamp. destruct (Z.leb_spec lo hi); lia. Qed.
Lemma ClapK_minmax k n lo hi : lo <= hi ->
  ClapK k n lo hi = MaxK k (MinK k n hi) lo /\ ClapK k n lo hi = MinK k (MaxK k n lo) hi.
Proof.
  intros. rewrite ClapK_exact; repeat (rewrite MinK_exact || rewrite MaxK_exact).
  unfold spec_clamp, spec_min, spec_max. destruct (Z.leb_spec lo hi); lia.
Qed.
(** clamping never moves a point further than needed: 1-Lipschitz *)
Lemma ClapK_lipschitz k n m lo hi : Z.abs (ClapK k n lo hi - ClapK k m lo hi) <= Z.abs (n - m).
Proof. rewrite !ClapK_exact. unfold spec_clamp. destruct (Z.leb_spec lo hi); lia. Qed.

(** lattice laws *)
Lemma MinK_comm k a b : MinK k a b = MinK k b a.
Proof. rewrite !MinK_exact. unfold spec_min. lia. Qed.
Lemma MaxK_comm k a b : MaxK k a b = MaxK k b a.
Proof. rewrite !MaxK_exact. unfold spec_max. lia. Qed.
Lemma MinK_assoc k a b c : MinK k a (MinK k b c) = MinK k (MinK k a b) c.
Proof. rewrite !MinK_exact. unfold spec_min. lia. Qed.
Lemma MaxK_assoc k a b c : MaxK k a (MaxK k b c) = MaxK k (MaxK k a b) c.
Proof. rewrite !MaxK_exact. unfold spec_max. lia. Qed.
Lemma MinK_idem k a : MinK k a a = a.
Proof. rewrite MinK_exact. unfold spec_min. lia. Qed.
Lemma MaxK_idem k a : MaxK k a a = a.
Proof. rewrite MaxK_exact. unfold spec_max. lia. Qed.
Lemma MinMax_absorb k a b : MinK k a (MaxK k a b) = a /\ MaxK k a (MinK k a b) = a.
Proof. repeat (rewrite MinK_exact || rewrite MaxK_exact). unfold spec_min, spec_max. lia. Qed.
Lemma MinMax_sum k a b : MinK k a b + MaxK k a b = a + b.
Proof. rewrite MinK_exact, MaxK_exact. unfold spec_min, spec_max. lia. Qed.
Lemma MinMax_le k a b : MinK k a b <= MaxK k a b.
Proof. rewrite MinK_exact, MaxK_exact. unfold spec_min, spec_max. lia. Qed.
Lemma MinK_glb k a b c : c <= a -> c <= b -> c <= MinK k a b.
Proof. rewrite MinK_exact. unfold spec_min. lia. Qed.
Lemma MaxK_lub k a b c : a <= c -> b <= c -> MaxK k a b <= c.
Proof. rewrite MaxK_exact. unfold spec_max. lia. Qed.
Lemma MinK_distr_max k a b c : MinK k a (MaxK k b c) = MaxK k (MinK k a b) (MinK k a c).
Proof. repeat (rewrite MinK_exact || rewrite MaxK_exact). unfold spec_min, spec_max. lia. Qed.

(** the results are always one of the arguments, hence inside the Go type of the arguments:
    the typed Go functions compute the mathematical value, no wrap can occur *)
Lemma MinK_select k a b : MinK k a b = a \/ MinK k a b = b.
Proof. rewrite MinK_body. destruct (a <? b); auto. Qed.
Lemma MaxK_select k a b : MaxK k a b = a \/ MaxK k a b = b.
Proof. rewrite MaxK_body. destruct (a >? b); auto. Qed.
Lemma ClapK_select k n lo hi : ClapK k n lo hi = n \/ ClapK k n lo hi = lo \/ ClapK k n lo hi = hi.
Proof. rewrite ClapK_body. cbv zeta. destruct (n <? lo); [destruct (lo >? hi)|destruct (n >? hi)]; auto. Qed.

Lemma MinK_closed k a b : in_kind k a -> in_kind k b -> in_kind k (MinK k a b).
Proof. intros. destruct (MinK_select k a b) as [->| ->]; assumption. Qed.
Lemma MaxK_closed k a b : in_kind k a -> in_kind k b -> in_kind k (MaxK k a b).
Proof. intros. destruct (MaxK_select k a b) as [->| ->]; assumption. Qed.
Lemma ClapK_closed k n lo hi : in_kind k n -> in_kind k lo -> in_kind k hi -> in_kind k (ClapK k n lo hi).
Proof. intros. destruct (ClapK_select k n lo hi) as [->|[->| ->]]; assumption. Qed.

Lemma in_kindb_ok k x : in_kindb k x = true <-> in_kind k x.
Proof. unfold in_kindb, in_kind. rewrite andb_true_iff, !Z.leb_le. tauto. Qed.
