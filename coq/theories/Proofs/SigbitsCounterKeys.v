(** The key family of the large-set operations (prefix + big-endian counter)
    lies in the domain of C16 for every size: bytes, strictly ascending. *)
From Coq Require Import ZArith List Lia Bool.
From Low Require Import Lib.Bits Lib.BitSeq Lib.Lex Lib.Bytes Lib.LexLemmas_bw
  Spec.SigbitsSpec Spec.SigbitsSpec16x Proofs.SigbitsFirstDiff Proofs.SigbitsCountPrefixes.
Import ListNotations.
Open Scope Z_scope.

Lemma be_bytes_ok w : forall c, bytes_ok (be_bytes w c).
Proof.
  induction w as [|w IH]; intros c; [constructor|].
  cbn [be_bytes]. constructor; [|apply IH].
  unfold byte_ok. apply Z.mod_pos_bound. lia.
Qed.

Lemma be_bytes_length w c : length (be_bytes w c) = w.
Proof. induction w as [|w IH]; cbn [be_bytes length]; [reflexivity|now rewrite IH]. Qed.

Lemma pow256_S w : 256 ^ Z.of_nat (S w) = 256 ^ Z.of_nat w * 256.
Proof. rewrite Nat2Z.inj_succ, Z.pow_succ_r by lia. lia. Qed.

(** the order of the counters modulo 256^w is the order of their w big-endian bytes *)
Lemma be_bytes_lt w : forall c d, 0 <= c -> 0 <= d ->
  c mod 256 ^ Z.of_nat w < d mod 256 ^ Z.of_nat w ->
  bytes_cmp (be_bytes w c) (be_bytes w d) = Lt.
Proof.
  induction w as [|w IH]; intros c d Hc Hd H.
  - change (256 ^ Z.of_nat 0) with 1 in H. rewrite !Z.mod_1_r in H. lia.
  - rewrite pow256_S in H.
    set (P := 256 ^ Z.of_nat w) in *.
    assert (HP : 0 < P) by (apply Z.pow_pos_nonneg; lia).
    rewrite !Z.rem_mul_r in H by lia.
    pose proof (Z.mod_pos_bound c P HP). pose proof (Z.mod_pos_bound d P HP).
    pose proof (Z.mod_pos_bound (c / P) 256 ltac:(lia)). pose proof (Z.mod_pos_bound (d / P) 256 ltac:(lia)).
    cbn [be_bytes]. fold P. unfold bytes_cmp. cbn [lex_cmp]. fold bytes_cmp.
    destruct (Z.compare_spec ((c / P) mod 256) ((d / P) mod 256)) as [E|L|G].
    + apply IH; fold P; lia.
    + reflexivity.
    + exfalso. nia.
Qed.

Lemma counter_keys_from_ok n : forall p w c, bytes_ok p -> keys_ok (counter_keys_from n p w c).
Proof.
  induction n as [|n IH]; intros p w c Hp; [constructor|].
  cbn [counter_keys_from]. constructor; [|now apply IH].
  apply bytes_ok_app. split; [exact Hp|apply be_bytes_ok].
Qed.

Lemma counter_keys_from_length n : forall p w c, length (counter_keys_from n p w c) = n.
Proof. induction n as [|n IH]; intros; cbn [counter_keys_from length]; [reflexivity|now rewrite IH]. Qed.

Lemma counter_keys_from_asc n : forall p w c, 0 <= c -> c + Z.of_nat n <= 256 ^ Z.of_nat w ->
  strict_asc (counter_keys_from n p w c).
Proof.
  induction n as [|n IH]; intros p w c Hc Hn q Hq; [destruct Hq|].
  destruct n as [|n]; [destruct Hq|].
  change (counter_keys_from (S (S n)) p w c) with
    ((p ++ be_bytes w c) :: (p ++ be_bytes w (c + 1)) :: counter_keys_from n p w (c + 1 + 1)) in Hq.
  rewrite adj_pairs_cons2 in Hq. destruct Hq as [<-|Hq].
  - cbn [fst snd]. unfold bytes_cmp. rewrite (lex_cmp_app_same Z.compare Z.compare_refl). fold bytes_cmp.
    apply be_bytes_lt; try lia. rewrite !Z.mod_small by lia. lia.
  - apply (IH p w (c + 1) ltac:(lia) ltac:(lia)). exact Hq.
Qed.

Theorem counter_keys_domain p w c0 n :
  bytes_ok p -> 0 <= w -> 0 <= c0 -> 0 <= n -> c0 + n <= 256 ^ w ->
  keys_ok (counter_keys p w c0 n) /\ strict_asc (counter_keys p w c0 n) /\ zlen (counter_keys p w c0 n) = n.
Proof.
  intros Hp Hw Hc Hn H. unfold counter_keys. split; [|split].
  - now apply counter_keys_from_ok.
  - apply counter_keys_from_asc; [exact Hc|]. rewrite !Z2Nat.id by lia. exact H.
  - unfold zlen. rewrite counter_keys_from_length. lia.
Qed.
