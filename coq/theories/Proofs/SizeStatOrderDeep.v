(** Proofs for Spec/SizeStatOrderSpec.v: the reports of two values that differ only in the
    order of the entries of their maps (at any depth) consist of the same lines. *)
From Coq Require Import ZArith List Bool Lia Permutation.
From Low Require Import Model.Size Model.SizeFmt Model.SizeStat Spec.SizeSpec Spec.SizeStatSpec Spec.SizeStatOrderSpec Proofs.SizeProofs Proofs.SizeStatProofs Proofs.SizeStatOrderProofs.
Import ListNotations.
Open Scope Z_scope.

Lemma sim_ty v v' : sim v v' -> ty_of v = ty_of v'.
Proof. destruct 1; reflexivity. Qed.

(** sizes agree *)
Lemma Forall2_sizes (l l' : list lvalue) :
  Forall2 (fun x x' => spec_size (erase x) = spec_size (erase x')) l l' ->
  sizes (map erase l) = sizes (map erase l').
Proof.
  unfold sizes. induction 1 as [|x x' l l' H _ IH]; [reflexivity|].
  cbn [map]. rewrite !zsum_cons, H, IH. reflexivity.
Qed.

Lemma Forall2_in_Forall {A B} (P : A -> Prop) (R S : A -> B -> Prop) l l' :
  Forall P l -> (forall x y, P x -> R x y -> S x y) -> Forall2 R l l' -> Forall2 S l l'.
Proof.
  intros HP HRS H. induction H as [|x y l l' Hxy _ IH]; [constructor|].
  inversion HP; subst. constructor; auto.
Qed.

Lemma pairs_sim_sizes (kvs mid : list (list Z * value * lvalue)) :
  Forall (fun e => forall v', sim (snd e) v' -> spec_size (erase (snd e)) = spec_size (erase v')) kvs ->
  Forall2 (fun e e' => fst e = fst e' /\ sim (snd e) (snd e')) kvs mid ->
  pair_sizes (map (fun e : list Z * value * lvalue => let '(_, k, x) := e in (k, erase x)) kvs) =
  pair_sizes (map (fun e : list Z * value * lvalue => let '(_, k, x) := e in (k, erase x)) mid).
Proof.
  unfold pair_sizes. intros H HF.
  induction HF as [|[[kt k] x] [[kt' k'] x'] l l' [E Sx] _ IHl]; [reflexivity|].
  inversion H as [|? ? Hx Hl]; subst. cbn [fst snd] in *. injection E as <- <-.
  cbn [map]. rewrite !zsum_cons. cbn [fst snd]. rewrite (Hx x' Sx), (IHl Hl). reflexivity.
Qed.

Lemma fields_sim_sizes (fs fs' : list (list Z * lvalue)) :
  Forall (fun e => forall v', sim (snd e) v' -> spec_size (erase (snd e)) = spec_size (erase v')) fs ->
  Forall2 (fun e e' => fst e = fst e' /\ sim (snd e) (snd e')) fs fs' ->
  sizes (map (fun e : list Z * lvalue => erase (snd e)) fs) = sizes (map (fun e : list Z * lvalue => erase (snd e)) fs').
Proof.
  unfold sizes. intros H HF.
  induction HF as [|[nm x] [nm' x'] l l' [E Sx] _ IHl]; [reflexivity|].
  inversion H as [|? ? Hx Hl]; subst. cbn [fst snd] in *.
  cbn [map]. rewrite !zsum_cons. cbn [snd]. rewrite (Hx x' Sx), (IHl Hl). reflexivity.
Qed.

Lemma sim_size : forall v v', sim v v' -> spec_size (erase v) = spec_size (erase v').
Proof.
  induction v using lvalue_ind'; intros v' S; inversion S; subst; cbn [erase]; try reflexivity.
  - rewrite !spec_size_slice. f_equal. apply Forall2_sizes.
    eapply Forall2_in_Forall; [exact H| |eassumption]. cbv beta. auto.
  - rewrite !spec_size_array. apply Forall2_sizes.
    eapply Forall2_in_Forall; [exact H| |eassumption]. cbv beta. auto.
  - rewrite !spec_size_map. f_equal.
    match goal with HF : Forall2 _ kvs mid |- _ => rewrite (pairs_sim_sizes kvs mid H HF) end.
    unfold pair_sizes. apply zsum_perm. apply Permutation_map. apply Permutation_map. assumption.
  - rewrite !spec_size_ptr. f_equal. auto.
  - rewrite !spec_size_iface. f_equal. auto.
  - rewrite !spec_size_struct.
    match goal with HF : Forall2 _ fs _ |- _ => apply (fields_sim_sizes _ _ H HF) end.
Qed.

Lemma Forall2_len {A B} (R : A -> B -> Prop) l l' : Forall2 R l l' -> length l = length l'.
Proof. induction 1; cbn [length]; congruence. Qed.

(** * The rendered visible listing *)
Section Order.
  Variable o : sopt.
  Variables depth m : Z.

  Definition RL (v : lvalue) (level : nat) (idxs label : list Z) : list (list Z) :=
    map (render o) (filter (visible depth m) (listing v level idxs label)).
  Definition RK (es : list entry) : list (list Z) := map (render o) (filter (visible depth m) es).

  Lemma RK_app a b : RK (a ++ b) = RK a ++ RK b.
  Proof. unfold RK. rewrite filter_app, map_app. reflexivity. Qed.

  Lemma RL_root v v' level idxs label :
    ty_of v = ty_of v' -> spec_size (erase v) = spec_size (erase v') ->
    Permutation (RK (kids v level idxs)) (RK (kids v' level idxs)) ->
    Permutation (RL v level idxs label) (RL v' level idxs label).
  Proof.
    intros Ht Hs Hk. unfold RL. rewrite !listing_eq. cbn [filter].
    assert (V : visible depth m (mk_entry level idxs label (Some v)) = visible depth m (mk_entry level idxs label (Some v')))
      by reflexivity.
    rewrite <- V. destruct (visible depth m (mk_entry level idxs label (Some v))).
    - cbn [map]. replace (render o (mk_entry level idxs label (Some v')))
        with (render o (mk_entry level idxs label (Some v))).
      + apply perm_skip. exact Hk.
      + unfold render. cbn [e_level e_label e_node mk_entry]. rewrite Ht, Hs. reflexivity.
    - exact Hk.
  Qed.

  Definition P (v : lvalue) : Prop :=
    forall v' level idxs label, sim v v' -> maps_le m v = true ->
    Permutation (RL v level idxs label) (RL v' level idxs label).

  Lemma elems_perm level idxs : forall l l',
    Forall P l -> forallb (maps_le m) l = true -> Forall2 sim l l' ->
    forall i, Permutation (RK (kids_elems (fun x i lb => listing x (S level) (i :: idxs) lb) l i))
                          (RK (kids_elems (fun x i lb => listing x (S level) (i :: idxs) lb) l' i)).
  Proof.
    intros l l' HP HM HF. induction HF as [|x x' l l' Sx _ IH]; intros i; [reflexivity|].
    inversion HP as [|? ? Px Pl]; subst. cbn [forallb] in HM. apply andb_prop in HM as [Mx Ml].
    cbn [kids_elems]. rewrite !RK_app. apply Permutation_app.
    - apply (Px x' (S level) (i :: idxs) _ Sx Mx).
    - apply IH; assumption.
  Qed.

  Lemma pairs_perm_pos level idxs : forall (l l' : list (list Z * value * lvalue)),
    Forall (fun e => P (snd e)) l -> forallb (fun e => maps_le m (snd e)) l = true ->
    Forall2 (fun e e' => fst e = fst e' /\ sim (snd e) (snd e')) l l' ->
    forall i, Permutation (RK (kids_pairs (fun x i lb => listing x (S level) (i :: idxs) lb) l i))
                          (RK (kids_pairs (fun x i lb => listing x (S level) (i :: idxs) lb) l' i)).
  Proof.
    intros l l' HP HM HF. induction HF as [|[[kt k] x] [[kt' k'] x'] l l' [E Sx] _ IH]; intros i; [reflexivity|].
    inversion HP as [|? ? Px Pl]; subst. cbn [forallb] in HM. apply andb_prop in HM as [Mx Ml].
    cbn [fst snd] in *. injection E as <- <-.
    cbn [kids_pairs]. rewrite !RK_app. apply Permutation_app.
    - apply (Px x' (S level) (i :: idxs) _ Sx Mx).
    - apply IH; assumption.
  Qed.

  Lemma fields_perm level idxs : forall (l l' : list (list Z * lvalue)),
    Forall (fun e => P (snd e)) l -> forallb (fun e => maps_le m (snd e)) l = true ->
    Forall2 (fun e e' => fst e = fst e' /\ sim (snd e) (snd e')) l l' ->
    Permutation (RK (flat_map (fun e => listing (snd e) (S level) idxs (fst e ++ s_colon)) l))
                (RK (flat_map (fun e => listing (snd e) (S level) idxs (fst e ++ s_colon)) l')).
  Proof.
    intros l l' HP HM HF. induction HF as [|[nm x] [nm' x'] l l' [E Sx] _ IH]; [reflexivity|].
    inversion HP as [|? ? Px Pl]; subst. cbn [forallb] in HM. apply andb_prop in HM as [Mx Ml].
    cbn [fst snd] in *. subst nm'.
    cbn [flat_map fst snd]. rewrite !RK_app. apply Permutation_app.
    - apply (Px x' (S level) idxs _ Sx Mx).
    - apply IH; assumption.
  Qed.

  (** blocks of a completely listed map do not depend on their position *)
  Definition block (level : nat) (e : list Z * value * lvalue) : list (list Z) :=
    RL (snd e) (S level) [] (fst (fst e) ++ s_colon).

  Lemma pairs_blocks_gen level idxs : path_ok m idxs ->
    forall (kvs : list (list Z * value * lvalue)) i,
    i + Z.of_nat (length kvs) <= m ->
    RK (kids_pairs (fun x i lb => listing x (S level) (i :: idxs) lb) kvs i) = flat_map (block level) kvs.
  Proof.
    intros Pk. induction kvs as [|[[kt k] x] t IH]; intros i Hi; cbn [kids_pairs flat_map]; [reflexivity|].
    cbn [length] in Hi. rewrite Nat2Z.inj_succ in Hi.
    rewrite RK_app, IH by lia. f_equal.
    unfold block, RL, RK. cbn [fst snd].
    change (i :: idxs) with ([] ++ i :: idxs). apply rendered_listing_extend.
    unfold path_ok in *. cbn [forallb]. rewrite Pk, andb_true_r. apply Z.ltb_lt. lia.
  Qed.

  Lemma not_path_ok_bad idxs : forallb (fun i => i <? m) idxs = false -> bad m idxs = true.
  Proof.
    unfold bad. induction idxs as [|j t IH]; cbn [forallb existsb]; [discriminate|].
    destruct (j <? m) eqn:E; cbn [andb]; intros H.
    - rewrite IH by exact H. apply orb_true_r.
    - apply orb_true_intro. left. apply Z.leb_le. apply Z.ltb_ge in E. exact E.
  Qed.

  Lemma pairs_bad level idxs : bad m idxs = true ->
    forall (kvs : list (list Z * value * lvalue)) i,
    RK (kids_pairs (fun x i lb => listing x (S level) (i :: idxs) lb) kvs i) = [].
  Proof.
    intros Hb kvs i. unfold RK. rewrite filter_none; [reflexivity|].
    eapply Forall_impl; [intros e He; apply bad_invisible; exact He|].
    apply kids_pairs_Forall. intros e _ j lb. apply listing_bad.
    unfold bad in *. cbn [existsb]. rewrite Hb. apply orb_true_r.
  Qed.

  Lemma pairs_perm_order level idxs (mid kvs' : list (list Z * value * lvalue)) :
    Permutation mid kvs' -> Z.of_nat (length mid) <= m ->
    Permutation (RK (kids_pairs (fun x i lb => listing x (S level) (i :: idxs) lb) mid 0))
                (RK (kids_pairs (fun x i lb => listing x (S level) (i :: idxs) lb) kvs' 0)).
  Proof.
    intros Pm Hl. destruct (forallb (fun i => i <? m) idxs) eqn:Pk.
    - rewrite !(pairs_blocks_gen level idxs Pk) by (try rewrite <- (Permutation_length Pm); lia).
      apply Permutation_flat_map. exact Pm.
    - rewrite !(pairs_bad level idxs (not_path_ok_bad idxs Pk)). reflexivity.
  Qed.

  Theorem order_main : forall v, P v.
  Proof.
    induction v using lvalue_ind'; intros v' level idxs label S M; inversion S; subst;
      try reflexivity; apply RL_root; try (apply sim_ty, S); try (apply sim_size, S); cbn [kids maps_le] in *.
    - apply elems_perm; assumption.
    - apply elems_perm; assumption.
    - apply andb_prop in M as [Ml Mc]. apply Z.leb_le in Ml.
      match goal with HF : Forall2 _ kvs mid |- _ => rename HF into HF2 end.
      match goal with HP : Permutation mid _ |- _ => rename HP into HP2 end.
      eapply Permutation_trans.
      + apply (pairs_perm_pos level idxs kvs mid H Mc HF2).
      + apply (pairs_perm_order level idxs mid _ HP2). rewrite <- (Forall2_len _ _ _ HF2). exact Ml.
    - apply (IHv _ (Datatypes.S level) idxs [] ltac:(eassumption) M).
    - apply (IHv _ (Datatypes.S level) idxs [] ltac:(eassumption) M).
    - apply fields_perm; assumption.
  Qed.
End Order.

(** the report of two values that differ only in the order of the entries of their maps (at any
    depth) consists of the same lines, provided no map has more than maxItem entries *)
Theorem Stat_map_order_deep : forall v v' depth maxItem o,
  sim v v' -> maps_le maxItem v = true ->
  Permutation (spec_lines (Some v) depth maxItem o) (spec_lines (Some v') depth maxItem o).
Proof. intros v v' depth m o S M. exact (order_main o depth m v v' 0%nat [] [] S M). Qed.

Theorem Stat_sorted_map_order_deep : forall v v' depth maxItem o,
  sim v v' -> maps_le maxItem v = true ->
  sort_lines (spec_lines (Some v) depth maxItem o) = sort_lines (spec_lines (Some v') depth maxItem o).
Proof. intros. apply sort_lines_canonical, Stat_map_order_deep; assumption. Qed.
