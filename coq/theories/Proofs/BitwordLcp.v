(** C08 widened: FirstDiff(a, b, 0, -1) is the length of the longest common
    prefix of the two word lists. *)
From Coq Require Import ZArith List Bool Lia PeanoNat.
From Low Require Import Lib.MachInt Lib.Bits Lib.BitSeq Lib.Bytes Lib.Lex Lib.Val Lib.Pack_bw Lib.PackLemmas_bw
  Model.Bitword Spec.BitwordSpec Proofs.BitwordProofs Proofs.BitwordToStr Proofs.BitwordFirstDiff.
Import ListNotations.
Open Scope Z_scope.

(** a number k with: k <= both lengths, the lists agree below k, and differ at k unless k is the
    shorter length - is the length of the longest common prefix *)
Lemma lcp_length_char (x : list Z) : forall (y : list Z) (k : nat),
  (k <= length x)%nat -> (k <= length y)%nat ->
  (forall i, (i < k)%nat -> nth_error x i = nth_error y i) ->
  ((k < length x)%nat -> (k < length y)%nat -> nth_error x k <> nth_error y k) ->
  length (lcp Z.eqb x y) = k.
Proof.
  induction x as [|a x IH]; intros [|b y] k Hx Hy Hall Hk; cbn [length] in *.
  - cbn. lia.
  - cbn. lia.
  - cbn. lia.
  - cbn [lcp]. destruct (Z.eqb_spec a b) as [->|Hne].
    + destruct k as [|k].
      * exfalso. apply Hk; try lia. reflexivity.
      * cbn [length]. f_equal. apply IH; try lia.
        -- intros i Hi. apply (Hall (S i)). lia.
        -- intros H1 H2. apply (Hk ltac:(lia) ltac:(lia)).
    + destruct k as [|k]; [reflexivity|].
      exfalso. specialize (Hall 0%nat ltac:(lia)). cbn in Hall. congruence.
Qed.

Lemma FirstDiff_lcp n a b : widthP n ->
  FirstDiff (newBW (Z.of_nat n)) a b 0 (-1) =
  Some (zlen (lcp Z.eqb (FromStr (newBW (Z.of_nat n)) a) (FromStr (newBW (Z.of_nat n)) b))).
Proof.
  intros Hn.
  destruct (FirstDiff_min_w n Hn a b 0 (-1) ltac:(lia)) as (r & Er & _ & Hr).
  set (wa := FromStr (newBW (Z.of_nat n)) a) in *. set (wb := FromStr (newBW (Z.of_nat n)) b) in *.
  assert (Elim : fd_lim n a b (-1) = Z.min (zlen wa) (zlen wb)).
  { unfold fd_lim. cbv zeta. fold wa wb. change (-1 =? -1) with true. cbv iota. lia. }
  rewrite Elim in Hr.
  destruct (Hr ltac:(unfold zlen; lia)) as (R & Heq & Hne).
  rewrite Er. f_equal. unfold zlen at 1.
  rewrite (lcp_length_char wa wb (Z.to_nat r)); unfold zlen in *; try lia.
  - intros i Hi. specialize (Heq (Z.of_nat i) ltac:(lia)). now rewrite !nthZ_of_nat in Heq.
  - intros H1 H2. specialize (Hne ltac:(lia)). rewrite <- (Z2Nat.id r) in Hne by lia.
    now rewrite !nthZ_of_nat in Hne.
Qed.
