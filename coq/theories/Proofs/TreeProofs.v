(** Proofs for the extra check X02 (tree): over ANY implementation of the interface that presents a finite tree
    [r] ([rep]), String is the pre-order row text [spec_String r] and DepthFirst calls back in post-order
    [spec_visits]; any fuel above the height suffices. *)
From Coq Require Import ZArith List Bool Lia.
From Low Require Import Lib.Decimal_xpk Model.Tree Spec.TreeSpec.
Import ListNotations.
Open Scope Z_scope.

(** * induction over rose trees *)
Section RoseInd.
  Variable P : rose -> Prop.
  Hypothesis Hstep : forall u i f l kids, Forall (fun e => P (snd e)) kids -> P (Rose u i f l kids).
  Fixpoint rose_ind' (r : rose) : P r :=
    match r with
    | Rose u i f l kids =>
        Hstep u i f l kids
          ((fix go (ks : list (option (list Z) * rose)) : Forall (fun e => P (snd e)) ks :=
              match ks with
              | [] => Forall_nil _
              | k :: ks' => Forall_cons k (rose_ind' (snd k)) (go ks')
              end) kids)
    end.
End RoseInd.

(** * list helpers *)
Lemma map_flat_map {A B C} (f : B -> C) (g : A -> list B) l :
  map f (flat_map g l) = flat_map (fun x => map f (g x)) l.
Proof. induction l as [|a l IH]; cbn [flat_map map]; [reflexivity|]. now rewrite map_app, IH. Qed.

Lemma flat_map_ext_in' {A B} (f g : A -> list B) l :
  (forall a, In a l -> f a = g a) -> flat_map f l = flat_map g l.
Proof.
  induction l as [|a l IH]; intros H; cbn [flat_map]; [reflexivity|].
  rewrite (H a (or_introl eq_refl)), IH; [reflexivity|]. intros b Hb. apply H. now right.
Qed.

Lemma height_kid u i f l kids e : In e kids -> (height (snd e) < height (Rose u i f l kids))%nat.
Proof.
  cbn [height]. induction kids as [|k ks IH]; intros H; [destruct H|].
  cbn [fold_right]. destruct H as [->|H]; [lia|]. specialize (IH H). lia.
Qed.

(** * the relation between labels and edges, as a named fixpoint *)
Section Walk.
Context {node label : Type}.
Variable t : TreeI node label.

Fixpoint kids_rep (n : option node) (ks : list (option (list Z) * rose)) (ls : list (option label)) {struct ks} : Prop :=
  match ks, ls with
  | [], [] => True
  | k :: ks', l :: ls' => label_matches t l (fst k) /\ rep t (t_child t n l) (snd k) /\ kids_rep n ks' ls'
  | _, _ => False
  end.

Lemma rep_unfold n u id info leaf kids :
  rep t n (Rose u id info leaf kids) <->
  t_nodeID t n = id /\ t_nodeInfo t n = info /\ leaf_matches (t_leafVal t n) leaf /\ kids_rep n kids (t_labels t n).
Proof.
  assert (E : forall ks ls,
    (fix go (ks : list (option (list Z) * rose)) (ls : list (option label)) {struct ks} : Prop :=
       match ks, ls with
       | [], [] => True
       | k :: ks', l :: ls' => label_matches t l (fst k) /\ rep t (t_child t n l) (snd k) /\ go ks' ls'
       | _, _ => False
       end) ks ls <-> kids_rep n ks ls).
  { induction ks as [|k ks IH]; intros [|l ls]; cbn [kids_rep]; try tauto. rewrite IH. tauto. }
  cbn [rep]. rewrite E. tauto.
Qed.

Lemma kids_rep_length n ks ls : kids_rep n ks ls -> length ls = length ks.
Proof.
  revert ls. induction ks as [|k ks IH]; intros [|l ls] H; cbn [kids_rep] in H; try tauto; try reflexivity.
  cbn [length]. f_equal. apply IH. tauto.
Qed.

(** * nodeStr *)
Lemma nodeStr_rep inbranch n inb r : rep t n r -> label_matches t inbranch inb ->
  nodeStr t inbranch n = (line_of inb r, Z.of_nat (length (prefix_of inb r))).
Proof.
  destruct r as [u id info leaf kids]. intros Hr Hl. apply rep_unfold in Hr as (Hid & Hinfo & Hleaf & Hk).
  apply kids_rep_length in Hk.
  unfold nodeStr, line_of, prefix_of. cbn [r_id r_info r_leaf r_kids]. rewrite Hid, Hinfo, Hk.
  rewrite Z.gtb_ltb.
  assert (Hpre : (match inbranch with Some _ => [] ++ [45] ++ t_labelInfo t inbranch ++ [45; 62] | None => [] end) =
                 (match inb with Some li => [45] ++ li ++ [45; 62] | None => [] end)).
  { destruct inbranch, inb; cbn [label_matches] in Hl; try tauto. now rewrite Hl. }
  rewrite Hpre. clear Hpre.
  set (p0 := match inb with Some li => [45] ++ li ++ [45; 62] | None => [] end).
  destruct (t_leafVal t n) as [v isLeaf] eqn:Elv.
  assert (Hlf : (if isLeaf then true else false) = match leaf with Some _ => true | None => false end /\
                (isLeaf = true -> leaf = Some v)).
  { destruct leaf as [lv|]; cbn [leaf_matches] in Hleaf.
    - inversion Hleaf. subst. auto.
    - cbn [snd] in Hleaf. subst isLeaf. split; [reflexivity|discriminate]. }
  destruct Hlf as [_ Hlf].
  destruct id as [|i0 id'].
  - rewrite app_nil_r.
    destruct (1 <? Z.of_nat (length kids)); destruct isLeaf;
      try (rewrite (Hlf eq_refl)); try (destruct leaf; [cbn [leaf_matches] in Hleaf; inversion Hleaf|]);
      rewrite <- ?app_assoc, ?app_nil_r; reflexivity.
  - destruct (1 <? Z.of_nat (length kids)); destruct isLeaf;
      try (rewrite (Hlf eq_refl)); try (destruct leaf; [cbn [leaf_matches] in Hleaf; inversion Hleaf|]);
      rewrite <- ?app_assoc, ?app_nil_r; reflexivity.
Qed.

(** * toStrings: the lines, computed bottom-up as the code does *)
Fixpoint lines_bu (inb : option (list Z)) (r : rose) : list (list Z) :=
  match r with
  | Rose _ _ _ _ kids =>
      line_of inb r ::
      flat_map (fun e => map (fun s => spaces (Z.of_nat (length (prefix_of inb r))) ++ s) (lines_bu (fst e) (snd e))) kids
  end.

Lemma ts_loop_rep f n indent : forall ks ls rst,
  kids_rep n ks ls ->
  Forall (fun e => forall inbranch m, rep t m (snd e) -> label_matches t inbranch (fst e) ->
                   toStrings t f inbranch m = Some (lines_bu (fst e) (snd e))) ks ->
  ts_loop t (toStrings t f) n indent ls rst =
  Some (rst ++ flat_map (fun e => map (fun s => indent ++ s) (lines_bu (fst e) (snd e))) ks).
Proof.
  induction ks as [|k ks IH]; intros [|l ls] rst Hk HF; cbn [kids_rep] in Hk; try tauto.
  - cbn [ts_loop flat_map]. now rewrite app_nil_r.
  - destruct Hk as (Hl & Hr & Hk). inversion HF as [|? ? Hk0 HF']; subst.
    cbn [ts_loop flat_map]. rewrite (Hk0 l (t_child t n l) Hr Hl).
    rewrite (IH ls _ Hk HF'). now rewrite app_assoc.
Qed.

Lemma toStrings_rep : forall r fuel inbranch n inb,
  (height r <= fuel)%nat -> rep t n r -> label_matches t inbranch inb ->
  toStrings t fuel inbranch n = Some (lines_bu inb r).
Proof.
  induction r as [u id info leaf kids IH] using rose_ind'. intros fuel inbranch n inb Hf Hr Hl.
  destruct fuel as [|f]; [cbn [height] in Hf; lia|].
  cbn [toStrings]. rewrite (nodeStr_rep inbranch n inb _ Hr Hl).
  apply rep_unfold in Hr as (_ & _ & _ & Hk).
  rewrite (ts_loop_rep f n _ kids (t_labels t n) _ Hk).
  - reflexivity.
  - apply Forall_forall. intros e He inbr m Hm Hlm.
    rewrite Forall_forall in IH. apply (IH e He); [|assumption|assumption].
    pose proof (height_kid u id info leaf kids e He). lia.
Qed.

(** * depthFirst *)
Lemma df_loop_rep f n rn : rep t n rn -> forall ks ls acc vacc,
  kids_rep n ks ls ->
  Forall (fun e => forall parent lb m vp, rep t m (snd e) ->
                   call_matches t (parent, lb, m) (vp, fst e, snd e) ->
                   exists calls, depthFirst t f parent lb m = Some calls /\
                                 Forall2 (call_matches t) calls (spec_visits vp (fst e) (snd e))) ks ->
  Forall2 (call_matches t) acc vacc ->
  exists out, df_loop t (depthFirst t f) n ls acc = Some out /\
              Forall2 (call_matches t) out (vacc ++ flat_map (fun e => spec_visits (Some rn) (fst e) (snd e)) ks).
Proof.
  intros Hn. induction ks as [|k ks IH]; intros [|l ls] acc vacc Hk HF Hacc; cbn [kids_rep] in Hk; try tauto.
  - exists acc. cbn [df_loop flat_map]. now rewrite app_nil_r.
  - destruct Hk as (Hl & Hr & Hk). inversion HF as [|? ? Hk0 HF']; subst.
    destruct (Hk0 n l (t_child t n l) (Some rn) Hr) as (calls & Hc & Hm).
    { cbn [call_matches]. auto. }
    cbn [df_loop flat_map]. rewrite Hc.
    destruct (IH ls (acc ++ calls) (vacc ++ spec_visits (Some rn) (fst k) (snd k)) Hk HF') as (out & Ho & Hom).
    { now apply Forall2_app. }
    exists out. split; [assumption|]. now rewrite app_assoc.
Qed.

Lemma depthFirst_rep : forall r fuel parent lb n vp inb,
  (height r <= fuel)%nat -> rep t n r -> call_matches t (parent, lb, n) (vp, inb, r) ->
  exists calls, depthFirst t fuel parent lb n = Some calls /\
                Forall2 (call_matches t) calls (spec_visits vp inb r).
Proof.
  induction r as [u id info leaf kids IH] using rose_ind'. intros fuel parent lb n vp inb Hf Hr Hc.
  destruct fuel as [|f]; [cbn [height] in Hf; lia|].
  cbn [depthFirst].
  pose proof Hr as Hr0. apply rep_unfold in Hr as (_ & _ & _ & Hk).
  destruct (df_loop_rep f n _ Hr0 kids (t_labels t n) [] [] Hk) as (out & Ho & Hom).
  - apply Forall_forall. intros e He par l m vpp Hm Hcm.
    rewrite Forall_forall in IH. apply (IH e He); [|assumption|assumption].
    pose proof (height_kid u id info leaf kids e He). lia.
  - constructor.
  - rewrite Ho. eexists. split; [reflexivity|].
    cbn [spec_visits]. cbn [app] in Hom. apply Forall2_app; [assumption|].
    constructor; [assumption|constructor].
Qed.

End Walk.

(** * bottom-up lines = pre-order rows *)
Lemma spaces_add a b : 0 <= a -> 0 <= b -> repeat 32 (Z.to_nat (a + b)) = spaces b ++ repeat 32 (Z.to_nat a).
Proof.
  intros. unfold spaces. rewrite Z2Nat.inj_add by lia. rewrite Nat.add_comm. apply repeat_app.
Qed.

Lemma rows_shift : forall r c k inb, 0 <= c -> 0 <= k ->
  map row_text (rows (c + k) inb r) = map (fun s => spaces k ++ s) (map row_text (rows c inb r)).
Proof.
  induction r as [u id info leaf kids IH] using rose_ind'. intros c k inb Hc Hk.
  cbn [rows map]. f_equal.
  - cbn [row_text]. rewrite spaces_add by assumption. now rewrite app_assoc.
  - rewrite !map_flat_map. apply flat_map_ext_in'. intros e He.
    rewrite Forall_forall in IH.
    set (w := Z.of_nat (length (prefix_of inb (Rose u id info leaf kids)))).
    replace (c + k + w) with ((c + w) + k) by lia.
    apply (IH e He); lia.
Qed.

Lemma lines_bu_rows : forall r inb, lines_bu inb r = map row_text (rows 0 inb r).
Proof.
  induction r as [u id info leaf kids IH] using rose_ind'. intros inb.
  cbn [lines_bu rows map]. f_equal.
  rewrite map_flat_map. apply flat_map_ext_in'. intros e He.
  rewrite Forall_forall in IH. rewrite (IH e He).
  set (w := Z.of_nat (length (prefix_of inb (Rose u id info leaf kids)))).
  change (0 + w) with (0 + w). rewrite (rows_shift (snd e) 0 w (fst e)); [reflexivity|lia|lia].
Qed.

(** * the two exported functions *)
Section Top.
Context {node label : Type}.
Variable t : TreeI node label.

Lemma String_rep r fuel : (height r <= fuel)%nat -> rep t None r -> String t fuel = Some (spec_String r).
Proof.
  intros Hf Hr. unfold String.
  rewrite (toStrings_rep t r fuel None None None Hf Hr I).
  unfold spec_String, spec_lines. now rewrite lines_bu_rows.
Qed.

Lemma DepthFirst_rep r fuel : (height r <= fuel)%nat -> rep t (t_child t None None) r ->
  exists calls, DepthFirst t fuel = Some calls /\ Forall2 (call_matches t) calls (spec_visits None None r).
Proof.
  intros Hf Hr. unfold DepthFirst.
  apply depthFirst_rep; [assumption|assumption|]. cbn [call_matches label_matches]. auto.
Qed.

End Top.
