(** Proofs for C11: FromStr32 / PathOf / PathStr(PathOf) / PathsOf of
    Model/FromStr32.v meet Spec/FromStr32Spec.v.

    Route (DESIGN section 6, C11): the five nested loads build the 40-bit
    big-endian window of the bytes [from/8, from/8+5) clipped at
    min(|s|, ceil(to/8)); [(b >> (40-span)) & Mask[w]] selects the window bits
    [from mod 8, from mod 8 + w); both sides are compared bit by bit
    ([Z.testbit] extensionality) through [mbit s g], the g-th bit of the
    string, most significant bit of each byte first. *)
From Coq Require Import ZArith List Lia Bool ZifyBool.
From Low Require Import Lib.MachInt Lib.Bits Lib.BitSeq Lib.Bytes Lib.BitsExtra_tree
  Spec.Bmtree Spec.PathSpec Spec.FromStr32Spec
  Model.BmtreePath Model.BmtreePathStr Model.FromStr32 Model.LegacyPathsOf
  Proofs.BmtreePathProofs.
Import ListNotations.
Open Scope Z_scope.

Local Ltac Zify.zify_post_hook ::= Z.div_mod_to_equations.

(** * small list facts (not in the 8.16 library under these names) *)

Lemma dropZ_skipn {A} (l : list A) : forall n, dropZ l n = skipn (Z.to_nat n) l.
Proof.
  induction l as [|x t IH]; intros n.
  - cbn [dropZ]. now rewrite skipn_nil.
  - cbn [dropZ]. destruct (Z.leb_spec n 0).
    + replace (Z.to_nat n) with 0%nat by lia. reflexivity.
    + rewrite IH. replace (Z.to_nat n) with (S (Z.to_nat (n - 1))) by lia. reflexivity.
Qed.

Lemma nth_firstn_lt {A} (d : A) : forall n m (l : list A), (m < n)%nat -> nth m (firstn n l) d = nth m l d.
Proof.
  induction n as [|n IH]; intros m l Hm; [lia|].
  destruct l as [|x l]; [reflexivity|]. cbn [firstn]. destruct m as [|m]; [reflexivity|].
  cbn [nth]. apply IH. lia.
Qed.

Lemma nth_skipn_add {A} (d : A) : forall a m (l : list A), nth m (skipn a l) d = nth (a + m) l d.
Proof.
  induction a as [|a IH]; intros m l; [reflexivity|].
  destruct l as [|x l]; [now destruct m|]. cbn [skipn plus nth]. apply IH.
Qed.

Lemma nth_repeat_same {A} (d : A) : forall n m, nth m (repeat d n) d = d.
Proof.
  induction n as [|n IH]; intros m; [now destruct m|].
  destruct m as [|m]; [reflexivity|]. cbn [repeat nth]. apply IH.
Qed.

(** * the g-th bit of a string, most significant bit of each byte first *)

(** the byte at index i, 0 outside the string *)
Definition getb (s : list Z) (i : Z) : Z := match nthZ s i with Some c => c | None => 0 end.
(** bit g of [msb_bits s], [false] outside *)
Definition mbit (s : list Z) (g : Z) : bool := nth (Z.to_nat g) (msb_bits s) false.

Lemma getb_nil i : getb [] i = 0.
Proof. unfold getb, nthZ. destruct (i <? 0); [reflexivity|]. now destruct (Z.to_nat i). Qed.

Lemma getb_cons_0 c t : getb (c :: t) 0 = c.
Proof. reflexivity. Qed.

Lemma getb_cons_pos c t i : 0 < i -> getb (c :: t) i = getb t (i - 1).
Proof.
  intros Hi. unfold getb, nthZ.
  destruct (Z.ltb_spec i 0); [lia|]. destruct (Z.ltb_spec (i - 1) 0); [lia|].
  replace (Z.to_nat i) with (S (Z.to_nat (i - 1))) by lia. reflexivity.
Qed.

Lemma nthZ_getb s i : 0 <= i < zlen s -> nthZ s i = Some (getb s i).
Proof. intros Hi. destruct (nthZ_in_range s i Hi) as [x Hx]. unfold getb. now rewrite Hx. Qed.

Lemma getb_outside s i : zlen s <= i -> getb s i = 0.
Proof.
  intros Hi. unfold getb, nthZ. destruct (Z.ltb_spec i 0); [reflexivity|].
  destruct (nth_error s (Z.to_nat i)) eqn:E; [|reflexivity].
  assert (nth_error s (Z.to_nat i) <> None) as Hn by congruence.
  apply nth_error_Some in Hn. unfold zlen in Hi. lia.
Qed.

Lemma getb_range s i : bytes_ok s -> 0 <= getb s i < 256.
Proof.
  intros Hs. unfold getb. destruct (nthZ s i) as [c|] eqn:E; [|lia].
  apply nthZ_Some in E. destruct E as [_ E]. apply nth_error_In in E.
  unfold bytes_ok in Hs. rewrite Forall_forall in Hs. apply Hs in E. exact E.
Qed.

Lemma byte_bits_nth c j : (j < 8)%nat -> nth j (byte_bits c) false = Z.testbit c (7 - Z.of_nat j).
Proof.
  intros Hj. unfold byte_bits. rewrite rev_nth by (rewrite bits_length; lia). rewrite bits_length.
  erewrite nth_error_nth by (apply nth_error_bits; lia). f_equal. lia.
Qed.

Lemma mbit_spec s : forall g, 0 <= g -> mbit s g = Z.testbit (getb s (g / 8)) (7 - g mod 8).
Proof.
  induction s as [|c s IH]; intros g Hg.
  - unfold mbit. cbn [msb_bits flat_map]. rewrite getb_nil, Z.bits_0. now destruct (Z.to_nat g).
  - unfold mbit. cbn [msb_bits flat_map]. fold (msb_bits s). destruct (Z.lt_ge_cases g 8).
    + rewrite app_nth1 by (rewrite byte_bits_length; lia). rewrite byte_bits_nth by lia.
      rewrite Z2Nat.id by lia. rewrite Z.div_small, Z.mod_small by lia. now rewrite getb_cons_0.
    + rewrite app_nth2 by (rewrite byte_bits_length; lia). rewrite byte_bits_length.
      replace (Z.to_nat g - 8)%nat with (Z.to_nat (g - 8)) by lia. fold (mbit s (g - 8)).
      rewrite IH by lia. rewrite getb_cons_pos by lia.
      replace ((g - 8) / 8) with (g / 8 - 1) by lia. replace ((g - 8) mod 8) with (g mod 8) by lia.
      reflexivity.
Qed.

Lemma mbit_outside s g : 8 * zlen s <= g -> mbit s g = false.
Proof.
  intros Hg. unfold mbit. apply nth_overflow. rewrite msb_bits_length. unfold zlen in Hg. lia.
Qed.

(** * the specification side, bit by bit *)

Lemma eq_of_low_bits w a b : 0 <= w -> 0 <= a < 2 ^ w -> 0 <= b < 2 ^ w ->
  (forall n, 0 <= n < w -> Z.testbit a n = Z.testbit b n) -> a = b.
Proof.
  intros Hw Ha Hb H. apply Z.bits_inj'. intros n Hn.
  destruct (Z.lt_ge_cases n w); [apply H; lia|].
  rewrite (testbit_small a w n), (testbit_small b w n) by lia. reflexivity.
Qed.

Lemma testbit_val_msb L n : 0 <= n < zlen L ->
  Z.testbit (val_msb L) n = nth (length L - S (Z.to_nat n)) L false.
Proof.
  unfold zlen. intros Hn.
  assert (E : nth_error (bits (length L) (val_msb L)) (Z.to_nat n) = Some (Z.testbit (val_msb L) n)).
  { rewrite nth_error_bits by lia. now rewrite Z2Nat.id by lia. }
  rewrite bits_val_msb in E. apply (nth_error_nth _ _ false) in E.
  rewrite rev_nth in E by lia. now symmetry.
Qed.

Lemma spec_k_range s from w : 0 <= w -> 0 <= spec_k s from w <= w.
Proof. intros. unfold spec_k, clamp. lia. Qed.

Lemma spec_k_min s from w : 0 <= w -> spec_k s from w = Z.max 0 (Z.min (8 * zlen s - from) w).
Proof. reflexivity. Qed.

Lemma sel_bits_naive s from k :
  sel_bits s from k = firstn (Z.to_nat k) (skipn (Z.to_nat from) (msb_bits s)).
Proof. unfold sel_bits. now rewrite dropZ_skipn. Qed.

Lemma sel_bits_length s from w : 0 <= from -> 0 <= w ->
  length (sel_bits s from (spec_k s from w)) = Z.to_nat (spec_k s from w).
Proof.
  intros Hf Hw. rewrite sel_bits_naive, firstn_length, skipn_length, msb_bits_length.
  unfold spec_k, clamp, zlen. lia.
Qed.

(** the w-bit list whose value FromStr32 returns *)
Definition spec_bits (s : list Z) (from w : Z) : list bool :=
  sel_bits s from (spec_k s from w) ++ repeat false (Z.to_nat (w - spec_k s from w)).

Lemma spec_bits_length s from w : 0 <= from -> 0 <= w -> length (spec_bits s from w) = Z.to_nat w.
Proof.
  intros Hf Hw. unfold spec_bits. rewrite app_length, sel_bits_length, repeat_length by lia.
  pose proof (spec_k_range s from w Hw). lia.
Qed.

(** element m of it is bit from+m of the string (which is 0 beyond the end) *)
Lemma spec_bits_nth s from w m : 0 <= from -> 0 <= w -> (m < Z.to_nat w)%nat ->
  nth m (spec_bits s from w) false = mbit s (from + Z.of_nat m).
Proof.
  intros Hf Hw Hm. unfold spec_bits.
  pose proof (sel_bits_length s from w Hf Hw) as Hl. pose proof (spec_k_range s from w Hw) as Hk.
  destruct (Nat.lt_ge_cases m (Z.to_nat (spec_k s from w))) as [Hlt|Hge].
  - rewrite app_nth1 by lia. rewrite sel_bits_naive. rewrite nth_firstn_lt by lia.
    rewrite nth_skipn_add. unfold mbit. f_equal. lia.
  - rewrite app_nth2 by lia. rewrite nth_repeat_same. symmetry. apply mbit_outside.
    unfold spec_k, clamp in *. lia.
Qed.

Lemma spec_value_bound s from w : 0 <= from -> 0 <= w -> 0 <= val_msb (spec_bits s from w) < 2 ^ w.
Proof.
  intros Hf Hw. pose proof (val_msb_bound (spec_bits s from w)) as H.
  rewrite spec_bits_length in H by lia. rewrite Z2Nat.id in H by lia. exact H.
Qed.

(** bit n (least significant = 0) of the specified value is bit from+(w-1-n) of the string *)
Lemma spec_value_testbit s from w n : 0 <= from -> 0 <= n < w ->
  Z.testbit (val_msb (spec_bits s from w)) n = mbit s (from + (w - 1 - n)).
Proof.
  intros Hf Hn. rewrite testbit_val_msb by (unfold zlen; rewrite spec_bits_length; lia).
  rewrite spec_bits_length by lia. rewrite spec_bits_nth by lia. f_equal. lia.
Qed.

(** * the model side: the 40-bit big-endian window *)

(** byte j of the window: s[i+j] if that index is below the clip l, else 0 *)
Definition wbyte (s : list Z) (i l j : Z) : Z := if i + j <? l then getb s (i + j) else 0.

Definition window (s : list Z) (i l : Z) : Z :=
  wbyte s i l 0 * 2 ^ 32 + wbyte s i l 1 * 2 ^ 24 + wbyte s i l 2 * 2 ^ 16 + wbyte s i l 3 * 2 ^ 8
  + wbyte s i l 4.

Lemma wbyte_range s i l j : bytes_ok s -> 0 <= wbyte s i l j < 256.
Proof. intros Hs. unfold wbyte. destruct (i + j <? l); [now apply getb_range|lia]. Qed.

Lemma lor_add_low a b k : 0 <= k -> 0 <= b < 2 ^ k -> a mod 2 ^ k = 0 -> Z.lor a b = a + b.
Proof.
  intros Hk Hb Ha. pose proof (pow2_pos k Hk).
  rewrite (Z.div_mod a (2 ^ k)) at 1 2 by lia. rewrite Ha, Z.add_0_r, (Z.mul_comm (2 ^ k)).
  apply lor_hi_lo; assumption.
Qed.

Lemma shl64_byte c n : 0 <= c < 256 -> 0 <= n <= 32 -> shl64 c n = c * 2 ^ n.
Proof.
  intros Hc Hn. apply shl64_small; [lia|].
  assert (2 ^ n <= 2 ^ 32) by (apply Z.pow_le_mono_r; lia). nia.
Qed.

(** the nested loads compute the window *)
Lemma gather_window s i l : bytes_ok s -> 0 <= i -> l <= zlen s -> gather s i l = Some (window s i l).
Proof.
  intros Hs Hi Hl. unfold gather, window, wbyte.
  replace (i + 0) with i by lia.
  replace (i + 2) with (i + 1 + 1) by lia.
  replace (i + 3) with (i + 1 + 1 + 1) by lia.
  replace (i + 4) with (i + 1 + 1 + 1 + 1) by lia.
  pose proof (getb_range s i Hs) as R0.
  pose proof (getb_range s (i + 1) Hs) as R1.
  pose proof (getb_range s (i + 1 + 1) Hs) as R2.
  pose proof (getb_range s (i + 1 + 1 + 1) Hs) as R3.
  pose proof (getb_range s (i + 1 + 1 + 1 + 1) Hs) as R4.
  destruct (Z.ltb_spec i l) as [H0|H0].
  2:{ repeat match goal with |- context [?a <? ?b] => destruct (Z.ltb_spec a b); [lia|] end. reflexivity. }
  rewrite nthZ_getb by lia. rewrite Z.lor_0_l, shl64_byte by lia.
  destruct (Z.ltb_spec (i + 1) l) as [H1|H1].
  2:{ repeat match goal with |- context [?a <? ?b] => destruct (Z.ltb_spec a b); [lia|] end. f_equal. lia. }
  rewrite nthZ_getb by lia. rewrite shl64_byte by lia.
  rewrite (lor_add_low _ _ 32) by lia.
  destruct (Z.ltb_spec (i + 1 + 1) l) as [H2|H2].
  2:{ repeat match goal with |- context [?a <? ?b] => destruct (Z.ltb_spec a b); [lia|] end. f_equal. lia. }
  rewrite nthZ_getb by lia. rewrite shl64_byte by lia.
  rewrite (lor_add_low _ _ 24) by lia.
  destruct (Z.ltb_spec (i + 1 + 1 + 1) l) as [H3|H3].
  2:{ repeat match goal with |- context [?a <? ?b] => destruct (Z.ltb_spec a b); [lia|] end. f_equal. lia. }
  rewrite nthZ_getb by lia. rewrite shl64_byte by lia.
  rewrite (lor_add_low _ _ 16) by lia.
  destruct (Z.ltb_spec (i + 1 + 1 + 1 + 1) l) as [H4|H4].
  2:{ f_equal. lia. }
  rewrite nthZ_getb by lia.
  rewrite (lor_add_low _ _ 8) by lia. reflexivity.
Qed.

Lemma window_bound s i l : bytes_ok s -> 0 <= window s i l < 2 ^ 40.
Proof.
  intros Hs. unfold window.
  pose proof (wbyte_range s i l 0 Hs). pose proof (wbyte_range s i l 1 Hs).
  pose proof (wbyte_range s i l 2 Hs). pose proof (wbyte_range s i l 3 Hs).
  pose proof (wbyte_range s i l 4 Hs). lia.
Qed.

(** bit p of the window is bit (p mod 8) of its byte number 4 - p/8 *)
Lemma window_testbit s i l p : bytes_ok s -> 0 <= p < 40 ->
  Z.testbit (window s i l) p = Z.testbit (wbyte s i l (4 - p / 8)) (p mod 8).
Proof.
  intros Hs Hp. unfold window.
  pose proof (wbyte_range s i l 0 Hs). pose proof (wbyte_range s i l 1 Hs).
  pose proof (wbyte_range s i l 2 Hs). pose proof (wbyte_range s i l 3 Hs).
  pose proof (wbyte_range s i l 4 Hs).
  set (c0 := wbyte s i l 0) in *. set (c1 := wbyte s i l 1) in *. set (c2 := wbyte s i l 2) in *.
  set (c3 := wbyte s i l 3) in *. set (c4 := wbyte s i l 4) in *.
  replace (c0 * 2 ^ 32 + c1 * 2 ^ 24 + c2 * 2 ^ 16 + c3 * 2 ^ 8 + c4)
    with ((((c0 * 2 ^ 8 + c1) * 2 ^ 8 + c2) * 2 ^ 8 + c3) * 2 ^ 8 + c4) by lia.
  change (2 ^ 8) with 256 in *.
  change 256 with (2 ^ 8) at 4.
  rewrite testbit_hi_lo by lia. destruct (Z.ltb_spec p 8).
  { replace (4 - p / 8) with 4 by lia. replace (p mod 8) with p by lia. reflexivity. }
  change 256 with (2 ^ 8) at 3.
  rewrite testbit_hi_lo by lia. destruct (Z.ltb_spec (p - 8) 8).
  { replace (4 - p / 8) with 3 by lia. replace (p mod 8) with (p - 8) by lia. reflexivity. }
  change 256 with (2 ^ 8) at 2.
  rewrite testbit_hi_lo by lia. destruct (Z.ltb_spec (p - 8 - 8) 8).
  { replace (4 - p / 8) with 2 by lia. replace (p mod 8) with (p - 8 - 8) by lia. reflexivity. }
  change 256 with (2 ^ 8) at 1.
  rewrite testbit_hi_lo by lia. destruct (Z.ltb_spec (p - 8 - 8 - 8) 8).
  { replace (4 - p / 8) with 1 by lia. replace (p mod 8) with (p - 8 - 8 - 8) by lia. reflexivity. }
  replace (4 - p / 8) with 0 by lia. replace (p mod 8) with (p - 8 - 8 - 8 - 8) by lia. reflexivity.
Qed.

(** window bit 39-t (t counted from the most significant end) is bit 8i+t of the
    string, provided its byte lies below the clip or beyond the string *)
Lemma window_mbit s i l t : bytes_ok s -> 0 <= i -> 0 <= t < 40 -> l <= zlen s ->
  (i + t / 8 < l \/ zlen s <= i + t / 8) ->
  Z.testbit (window s i l) (39 - t) = mbit s (8 * i + t).
Proof.
  intros Hs Hi Ht Hl Hc. rewrite window_testbit by (assumption || lia).
  assert (0 <= 8 * i + t) as Hg by (clear Hc; lia). rewrite mbit_spec by exact Hg.
  replace (4 - (39 - t) / 8) with (t / 8) by lia.
  replace ((39 - t) mod 8) with (7 - t mod 8) by lia.
  replace ((8 * i + t) / 8) with (i + t / 8) by lia.
  replace ((8 * i + t) mod 8) with (t mod 8) by lia.
  unfold wbyte. destruct (Z.ltb_spec (i + t / 8) l); [reflexivity|].
  rewrite getb_outside by lia. reflexivity.
Qed.

(** * FromStr32 *)

(** [frombit & ^7] *)
Lemma land_m8 x : Z.land x (-8) = 8 * (x / 8).
Proof.
  change (-8) with (Z.lnot (Z.ones 3)). rewrite <- Z.ldiff_land. rewrite Z.ldiff_ones_r by lia.
  rewrite Z.shiftr_div_pow2, Z.shiftl_mul_pow2 by lia. change (2 ^ 3) with 8. lia.
Qed.

Lemma spec_value_eq s from w v : 0 <= from -> 0 <= w -> 0 <= v < 2 ^ w ->
  (forall n, 0 <= n < w -> Z.testbit v n = mbit s (from + (w - 1 - n))) ->
  v = val_msb (spec_bits s from w).
Proof.
  intros Hf Hw Hv H. apply (eq_of_low_bits w); [lia|exact Hv|now apply spec_value_bound|].
  intros n Hn. rewrite spec_value_testbit by lia. now apply H.
Qed.

Lemma MaskAt_ok i : 0 <= i <= 64 -> MaskAt i = Some (Mask i).
Proof. intros Hi. unfold MaskAt. destruct (Z.leb_spec 0 i); [|lia]. destruct (Z.leb_spec i 64); [reflexivity|lia]. Qed.

Lemma FromStr32_spec s from w :
  bytes_ok s -> 0 <= from -> 0 <= w <= 32 -> from + w + 7 < 2 ^ 31 -> 8 * zlen s < 2 ^ 31 ->
  FromStr32 s from (from + w) = Some (spec_FromStr32 s from w).
Proof.
  intros Hs Hf Hw Hov Hlen. unfold FromStr32, spec_FromStr32. cbv zeta. fold (spec_bits s from w).
  assert (Hz : 0 <= zlen s) by (unfold zlen; lia).
  replace (from + w - from) with w by lia. rewrite land_m8.
  rewrite (i32_id w) by lia.
  rewrite (i32_id (zlen s * 8)) by lia.
  rewrite (i32_id (zlen s * 8 - from)) by lia.
  rewrite (i32_id (from + w - 8 * (from / 8))) by lia.
  rewrite (i32_id (zlen s)) by lia.
  rewrite (i32_id (from + w + 7)) by lia.
  unfold sar32. change (3 <? 32) with true. cbv iota. change (2 ^ 3) with 8.
  set (k := if zlen s * 8 - from >? w then w else zlen s * 8 - from).
  assert (Hk : k = Z.min (8 * zlen s - from) w) by (subst k; destruct (zlen s * 8 - from >? w) eqn:E; lia).
  set (l := if zlen s >? (from + w + 7) / 8 then (from + w + 7) / 8 else zlen s).
  assert (Hl : l = Z.min (zlen s) ((from + w + 7) / 8)) by (subst l; destruct (zlen s >? (from + w + 7) / 8) eqn:E; lia).
  clearbody k l.
  destruct (Z.leb_spec k 0) as [Hk0|Hk0].
  - (* no bit available *)
    f_equal. f_equal.
    + unfold spec_k, clamp. lia.
    + apply spec_value_eq; [lia|lia|pose proof (pow2_pos w); lia|].
      intros n Hn. rewrite Z.bits_0. symmetry. apply mbit_outside. lia.
  - rewrite gather_window by (assumption || lia).
    rewrite MaskAt_ok by lia.
    rewrite (i32_id (40 - (from + w - 8 * (from / 8)))) by lia.
    destruct (Z.ltb_spec (40 - (from + w - 8 * (from / 8))) 0) as [Hneg|_]; [lia|].
    rewrite shr64_div by lia. rewrite land_mask by lia.
    f_equal. f_equal.
    + unfold spec_k, clamp. lia.
    + set (sh := 40 - (from + w - 8 * (from / 8))).
      assert (Hsh : 1 <= sh <= 40) by (subst sh; lia).
      apply spec_value_eq; [lia|lia|apply Z.mod_pos_bound; apply pow2_pos; lia|].
      intros n Hn. rewrite Z.mod_pow2_bits_low by lia. rewrite Z.div_pow2_bits by lia.
      set (t := from mod 8 + (w - 1 - n)).
      assert (Ht : 0 <= t < 40) by (subst t; lia).
      replace (n + sh) with (39 - t) by (subst t sh; lia).
      rewrite window_mbit; [f_equal; subst t; lia|assumption|lia|lia|lia|].
      subst t. lia.
Qed.

(** * PathOf *)

Lemma val_msb_app a b : val_msb (a ++ b) = val_msb a * 2 ^ Z.of_nat (length b) + val_msb b.
Proof.
  induction a as [|x a IH]; [cbn [app]; rewrite val_msb_nil; lia|].
  cbn [app]. rewrite !val_msb_cons, IH, app_length, Nat2Z.inj_add, Z.pow_add_r by lia. lia.
Qed.

Lemma val_msb_zeros r : val_msb (repeat false r) = 0.
Proof. induction r as [|r IH]; [reflexivity|]. cbn [repeat]. rewrite val_msb_cons, IH. cbn [Z.b2z]. lia. Qed.

(** the value returned by FromStr32 is the selected prefix, left-aligned in w bits *)
Lemma spec_value_valL s from w : 0 <= from -> 0 <= w ->
  val_msb (spec_bits s from w) = valL (Z.to_nat w) (sel_bits s from (spec_k s from w)).
Proof.
  intros Hf Hw. unfold spec_bits, valL. rewrite val_msb_app, val_msb_zeros, repeat_length.
  rewrite sel_bits_length by lia. pose proof (spec_k_range s from w Hw).
  rewrite !Z2Nat.id by lia. lia.
Qed.

Lemma NewPathChk_NewPath v k h : 0 <= k <= h -> h <= 64 -> NewPathChk v k h = Some (NewPath v k h).
Proof.
  intros Hk Hh. unfold NewPathChk, NewPath. rewrite MaskAt_ok by lia. rewrite i32_id by lia.
  destruct (Z.ltb_spec (h - k) 0); [lia|reflexivity].
Qed.

Lemma PathOf_spec s from h :
  bytes_ok s -> 0 <= from -> 0 <= h <= 32 -> from + h + 7 < 2 ^ 31 -> 8 * zlen s < 2 ^ 31 ->
  PathOf s from h = Some (spec_PathOf s from h).
Proof.
  intros Hs Hf Hh Hov Hlen. unfold PathOf. rewrite i32_id by lia.
  rewrite FromStr32_spec by assumption. unfold spec_FromStr32. fold (spec_bits s from h).
  pose proof (spec_k_range s from h (proj1 Hh)) as Hk.
  rewrite NewPathChk_NewPath by lia. f_equal.
  rewrite spec_value_valL by lia. unfold spec_PathOf.
  set (q := sel_bits s from (spec_k s from h)).
  assert (Hq : length q = Z.to_nat (spec_k s from h)) by (apply sel_bits_length; lia).
  replace (spec_k s from h) with (Z.of_nat (length q)) by lia.
  replace h with (Z.of_nat (Z.to_nat h)) at 2 by lia.
  apply NewPath_enc; lia.
Qed.

Lemma bit_chars_node_str q : bit_chars q = node_str q.
Proof. reflexivity. Qed.

Lemma PathStr_spec_PathOf s from h : 0 <= from -> 0 <= h <= 32 ->
  PathStr (spec_PathOf s from h) = spec_PathStrOf s from h.
Proof.
  intros Hf Hh. unfold spec_PathOf, spec_PathStrOf. rewrite bit_chars_node_str.
  pose proof (spec_k_range s from h (proj1 Hh)) as Hk.
  apply PathStr_enc; [lia|]. rewrite sel_bits_length by lia. lia.
Qed.

(** * PathsOf *)

Definition key_ok (s : list Z) : Prop := bytes_ok s /\ 8 * zlen s < 2 ^ 31.

Lemma PathsOf_loop_spec from h dd :
  0 <= from -> 0 <= h <= 32 -> from + h + 7 < 2 ^ 31 ->
  forall keys, Forall key_ok keys -> forall i prev, 0 <= i ->
  PathsOf_loop keys from h dd i prev =
  Some (let ps := map (fun s => spec_PathOf s from h) keys in
        if dd then (if i =? 0 then dedup_adjacent ps else dedup_after prev ps) else ps).
Proof.
  intros Hf Hh Hov keys Hkeys. induction Hkeys as [|s t [Hs Hlen] Ht IH]; intros i prev Hi.
  - cbn [PathsOf_loop map]. cbv zeta. destruct dd; [destruct (i =? 0)|]; reflexivity.
  - cbn [PathsOf_loop map]. rewrite PathOf_spec by assumption.
    rewrite IH by lia. cbv zeta. f_equal.
    set (p := spec_PathOf s from h). set (ps := map (fun s0 => spec_PathOf s0 from h) t).
    destruct dd; cbn [negb orb]; [|reflexivity].
    destruct (Z.eqb_spec (i + 1) 0) as [E|_]; [lia|].
    destruct (Z.eqb_spec i 0) as [E|E]; cbn [orb]; [reflexivity|].
    cbn [dedup_after]. destruct (p =? prev); reflexivity.
Qed.

Lemma PathsOf_spec keys from h dd :
  Forall key_ok keys -> 0 <= from -> 0 <= h <= 32 -> from + h + 7 < 2 ^ 31 ->
  PathsOf keys from h dd = Some (spec_PathsOf keys from h dd).
Proof.
  intros Hkeys Hf Hh Hov. unfold PathsOf. rewrite (PathsOf_loop_spec from h dd) by (assumption || lia).
  reflexivity.
Qed.

(** * the statements of Properties/C11.v, in the naive vocabulary only
      ([msb_bits], [firstn], [skipn], [val_msb], [enc], [clamp]) *)

Lemma FromStr32_naive s from w :
  bytes_ok s -> 0 <= from -> 0 <= w <= 32 -> from + w + 7 < 2 ^ 31 -> 8 * zlen s < 2 ^ 31 ->
  let k := clamp (8 * zlen s - from) 0 w in
  FromStr32 s from (from + w) =
  Some (k, val_msb (firstn (Z.to_nat k) (skipn (Z.to_nat from) (msb_bits s)) ++ repeat false (Z.to_nat (w - k)))).
Proof.
  intros Hs Hf Hw Hov Hlen k. rewrite FromStr32_spec by assumption.
  unfold spec_FromStr32. rewrite sel_bits_naive. reflexivity.
Qed.

(** the same, bit by bit: the value has w bits; its bit w-1-m (m-th from the top) is
    bit from+m of the string for m < k and 0 for k <= m < w *)
Lemma FromStr32_bits s from w :
  bytes_ok s -> 0 <= from -> 0 <= w <= 32 -> from + w + 7 < 2 ^ 31 -> 8 * zlen s < 2 ^ 31 ->
  exists v, FromStr32 s from (from + w) = Some (clamp (8 * zlen s - from) 0 w, v) /\
    0 <= v < 2 ^ w /\
    forall m, 0 <= m < w ->
      Z.testbit v (w - 1 - m) =
      if m <? clamp (8 * zlen s - from) 0 w then nth (Z.to_nat (from + m)) (msb_bits s) false else false.
Proof.
  intros Hs Hf Hw Hov Hlen. exists (val_msb (spec_bits s from w)).
  split; [now apply FromStr32_spec|]. split; [apply spec_value_bound; lia|].
  intros m Hm. rewrite spec_value_testbit by lia. replace (w - 1 - (w - 1 - m)) with m by lia.
  destruct (Z.ltb_spec m (clamp (8 * zlen s - from) 0 w)); [reflexivity|].
  apply mbit_outside. unfold clamp in *. lia.
Qed.

Lemma PathOf_naive s from h :
  bytes_ok s -> 0 <= from -> 0 <= h <= 32 -> from + h + 7 < 2 ^ 31 -> 8 * zlen s < 2 ^ 31 ->
  let k := clamp (8 * zlen s - from) 0 h in
  PathOf s from h = Some (enc (Z.to_nat h) (firstn (Z.to_nat k) (skipn (Z.to_nat from) (msb_bits s)))).
Proof.
  intros Hs Hf Hh Hov Hlen k. rewrite PathOf_spec by assumption.
  unfold spec_PathOf. rewrite sel_bits_naive. reflexivity.
Qed.

Lemma PathOf_str_naive s from h :
  bytes_ok s -> 0 <= from -> 0 <= h <= 32 -> from + h + 7 < 2 ^ 31 -> 8 * zlen s < 2 ^ 31 ->
  let k := clamp (8 * zlen s - from) 0 h in
  exists p, PathOf s from h = Some p /\
    PathStr p = node_str (firstn (Z.to_nat k) (skipn (Z.to_nat from) (msb_bits s))) /\
    PathLen p = k.
Proof.
  intros Hs Hf Hh Hov Hlen k. exists (spec_PathOf s from h). split; [now apply PathOf_spec|].
  pose proof (spec_k_range s from h (proj1 Hh)) as Hk.
  split.
  - rewrite PathStr_spec_PathOf by lia. unfold spec_PathStrOf. rewrite sel_bits_naive. reflexivity.
  - unfold spec_PathOf. rewrite PathLen_enc; [|lia|rewrite sel_bits_length by lia; lia].
    rewrite sel_bits_length by lia. subst k. unfold spec_k in *. lia.
Qed.

Lemma PathsOf_naive keys from h dedup :
  Forall (fun s => bytes_ok s /\ 8 * zlen s < 2 ^ 31) keys ->
  0 <= from -> 0 <= h <= 32 -> from + h + 7 < 2 ^ 31 ->
  let path_of s := enc (Z.to_nat h)
      (firstn (Z.to_nat (clamp (8 * zlen s - from) 0 h)) (skipn (Z.to_nat from) (msb_bits s))) in
  PathsOf keys from h dedup = Some ((if dedup then dedup_adjacent else fun l => l) (map path_of keys)).
Proof.
  intros Hkeys Hf Hh Hov path_of. rewrite PathsOf_spec by assumption. unfold spec_PathsOf.
  assert (E : map (fun s => spec_PathOf s from h) keys = map path_of keys).
  { apply map_ext. intros s. unfold spec_PathOf, path_of. now rewrite sel_bits_naive. }
  rewrite E. now destruct dedup.
Qed.

(** PathsOf maps PathOf over the keys (model functions on both sides) *)
Lemma PathsOf_map_PathOf keys from h :
  Forall (fun s => bytes_ok s /\ 8 * zlen s < 2 ^ 31) keys ->
  0 <= from -> 0 <= h <= 32 -> from + h + 7 < 2 ^ 31 ->
  exists ps, PathsOf keys from h false = Some ps /\ map Some ps = map (fun s => PathOf s from h) keys /\
    PathsOf keys from h true = Some (dedup_adjacent ps).
Proof.
  intros Hkeys Hf Hh Hov. exists (map (fun s => spec_PathOf s from h) keys).
  split; [now rewrite PathsOf_spec by assumption|]. split.
  - rewrite map_map. apply map_ext_in. intros s Hin. rewrite Forall_forall in Hkeys.
    destruct (Hkeys s Hin). now rewrite PathOf_spec.
  - now rewrite PathsOf_spec by assumption.
Qed.

(** * what [dedup_adjacent] is: exactly the elements that differ from their predecessor *)

(** keep l[i] iff i = 0 or l[i] <> l[i-1], written with an explicit predecessor *)
Fixpoint keep_changed (prev : option Z) (l : list Z) : list Z :=
  match l with
  | [] => []
  | x :: t =>
    match prev with
    | Some p => if x =? p then keep_changed (Some x) t else x :: keep_changed (Some x) t
    | None => x :: keep_changed (Some x) t
    end
  end.

Lemma dedup_after_keep prev l : dedup_after prev l = keep_changed (Some prev) l.
Proof. revert prev. induction l as [|x t IH]; intros prev; [reflexivity|]. cbn [dedup_after keep_changed]. now rewrite IH. Qed.

Lemma dedup_adjacent_keep l : dedup_adjacent l = keep_changed None l.
Proof. destruct l as [|x t]; [reflexivity|]. cbn [dedup_adjacent keep_changed]. now rewrite dedup_after_keep. Qed.

(** no two neighbours of the result are equal *)
Fixpoint no_adjacent_eq (l : list Z) : Prop :=
  match l with
  | x :: ((y :: _) as t) => x <> y /\ no_adjacent_eq t
  | _ => True
  end.

Lemma dedup_after_head prev l : match dedup_after prev l with [] => True | y :: _ => y <> prev end.
Proof.
  revert prev. induction l as [|x t IH]; intros prev; [exact I|].
  cbn [dedup_after]. destruct (Z.eqb_spec x prev) as [->|Hne]; [apply IH|exact Hne].
Qed.

Lemma dedup_after_no_adjacent prev l : no_adjacent_eq (dedup_after prev l).
Proof.
  revert prev. induction l as [|x t IH]; intros prev; [exact I|].
  cbn [dedup_after]. destruct (x =? prev); [apply IH|].
  pose proof (dedup_after_head x t) as Hh. pose proof (IH x) as Hn.
  destruct (dedup_after x t) as [|y r]; [exact I|]. split; [congruence|exact Hn].
Qed.

Lemma dedup_adjacent_no_adjacent l : no_adjacent_eq (dedup_adjacent l).
Proof.
  destruct l as [|x t]; [exact I|]. cbn [dedup_adjacent].
  pose proof (dedup_after_head x t) as Hh. pose proof (dedup_after_no_adjacent x t) as Hn.
  destruct (dedup_after x t) as [|y r]; [exact I|]. split; [congruence|exact Hn].
Qed.

(** nothing is lost but repetitions: a list without equal neighbours is unchanged *)
Lemma dedup_after_id prev l : no_adjacent_eq (prev :: l) -> dedup_after prev l = l.
Proof.
  revert prev. induction l as [|x t IH]; intros prev H; [reflexivity|].
  cbn [dedup_after]. destruct H as [Hne Ht]. destruct (Z.eqb_spec x prev); [congruence|].
  f_equal. now apply IH.
Qed.

Lemma dedup_adjacent_id l : no_adjacent_eq l -> dedup_adjacent l = l.
Proof. destruct l as [|x t]; [reflexivity|]. intros H. cbn [dedup_adjacent]. f_equal. now apply dedup_after_id. Qed.

(** * the pre-fix PathsOf is refuted *)
Lemma legacy_PathsOf_refuted :
  exists keys from h dedup,
    Forall (fun s => bytes_ok s /\ 8 * zlen s < 2 ^ 31) keys /\ 0 <= from /\ 0 <= h <= 32 /\ from + h + 7 < 2 ^ 31 /\
    legacy_PathsOf keys from h dedup <> Some (spec_PathsOf keys from h dedup) /\
    legacy_PathsOf keys from h dedup = Some [] /\
    spec_PathsOf keys from h dedup = [2 ^ 64 - 1].
Proof.
  exists [[255; 255; 255; 255]], 0, 32, true.
  split.
  { constructor; [|constructor]. split; [repeat constructor; unfold byte_ok; lia|vm_compute; reflexivity]. }
  split; [lia|]. split; [lia|]. split; [vm_compute; reflexivity|].
  split; [vm_compute; discriminate|]. split; vm_compute; reflexivity.
Qed.
