(** C01 widening (b): the 128-bit index of a concatenation whose first piece has an even number of words. *)
From Coq Require Import ZArith List Lia Bool.
From Low Require Import Lib.MachInt Lib.Bits Lib.BitSeq
  Model.Rank Model.RankOps Spec.RankSpec Spec.RankLawsSpec Proofs.RankProofs Proofs.RankIndexLaws Proofs.RankConcat.
Import ListNotations.
Open Scope Z_scope.

Lemma evens_app_even l1 : forall l2, Nat.even (length l1) = true -> evens (l1 ++ l2) = evens l1 ++ evens l2.
Proof.
  induction l1 as [|x|x y t IH] using list_ind2; intros l2 H.
  - reflexivity.
  - discriminate.
  - cbn [length Nat.even] in H. cbn [app evens]. now rewrite IH.
Qed.

Lemma evens_snoc_even l x : Nat.even (length l) = true -> evens (l ++ [x]) = evens l ++ [x].
Proof. intros H. now rewrite evens_app_even. Qed.

Lemma evens_map' (f : Z -> Z) l : evens (map f l) = map f (evens l).
Proof. apply evens_map. Qed.

Lemma IndexRank64_length ws tr : length (IndexRank64 ws tr) = (length ws + if tr then 1 else 0)%nat.
Proof.
  unfold IndexRank64. assert (H : forall n, length (fst (IndexRank64_loop ws n)) = length ws).
  { induction ws as [|w t IH]; intros n; cbn [IndexRank64_loop]; [reflexivity|].
    specialize (IH (n + popcount w)). destruct (IndexRank64_loop t (n + popcount w)). cbn [fst length] in *. lia. }
  specialize (H 0). destruct (IndexRank64_loop ws 0) as [l t]. cbn [fst] in H.
  destruct tr; [rewrite app_length; cbn [length]|]; lia.
Qed.

Theorem IndexRank128_app a b : words_ok a -> words_ok b -> Nat.even (length a) = true ->
  IndexRank128 (a ++ b) = removelast (IndexRank128 a) ++ map (Z.add (total1 a)) (IndexRank128 b).
Proof.
  intros Ha Hb He.
  destruct (index_relations (a ++ b) (words_ok_app a b Ha Hb)) as (_ & E128 & _).
  destruct (index_relations a Ha) as (Ea & E128a & _).
  destruct (index_relations b Hb) as (_ & E128b & _).
  rewrite E128, E128a, E128b, (IndexRank64_app a b true Ha).
  rewrite evens_app_even by (rewrite IndexRank64_length; rewrite Nat.add_0_r; exact He).
  rewrite evens_map'. f_equal.
  assert (Et : IndexRank64 a true = IndexRank64 a false ++ [total1 a]).
  { pose proof (IndexRank64_app a [] true Ha) as H. rewrite app_nil_r in H. rewrite H. f_equal.
    cbn. f_equal. lia. }
  rewrite Et, evens_snoc_even by (rewrite IndexRank64_length; rewrite Nat.add_0_r; exact He).
  now rewrite removelast_last.
Qed.
