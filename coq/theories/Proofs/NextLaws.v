(** C13 widened, part (b): laws of NextOne / PrevOne as callers use them.
    - walking a range with NextOne enumerates exactly its 1-bits, ascending
      (= ToArray for the whole bitmap); with PrevOne: the same list reversed;
    - NextOne / PrevOne duality;
    - how the result moves when [end] shrinks / [i] grows (clipping,
      monotonicity).
    (NextOne/PrevOne of a Slice are Proofs/SliceCompose.v, Select composites
    Proofs/SelectNext.v, SelectPrev.v - not repeated here.) *)
From Coq Require Import ZArith List Lia Bool Sorted.
From Low Require Import Lib.MachInt Lib.Bits Lib.BitSeq Lib.BitsExtra_bm2
  Model.BitmapNext Model.BitmapNextIter Model.BitmapOf
  Spec.NextSpec Proofs.NextProofs Proofs.OfInspect.
Import ListNotations.
Open Scope Z_scope.

(** * sorted lists and filters *)
Lemma Forall_filter {A} (P : A -> Prop) f l : Forall P l -> Forall P (filter f l).
Proof.
  intros H. apply Forall_forall. intros x Hx. apply filter_In in Hx.
  rewrite Forall_forall in H. apply H. tauto.
Qed.

Lemma SS_filter f l : StronglySorted Z.lt l -> StronglySorted Z.lt (filter f l).
Proof.
  induction 1 as [|a l Hs IH Ha]; cbn [filter]; [constructor|].
  destruct (f a); [constructor; [exact IH|now apply Forall_filter]|exact IH].
Qed.

Lemma SS_snoc_lt l q : StronglySorted Z.lt (l ++ [q]) -> Forall (fun x => x < q) l.
Proof.
  induction l as [|a l IH]; cbn [app]; intros H; [constructor|].
  inversion H as [|? ? Hs Ha]; subst. constructor; [|now apply IH].
  rewrite Forall_forall in Ha. apply Ha. apply in_or_app. right. now left.
Qed.

Lemma filter_filter {A} (f g : A -> bool) l : filter f (filter g l) = filter (fun x => g x && f x) l.
Proof.
  induction l as [|a l IH]; [reflexivity|]. cbn [filter]. destruct (g a); cbn [filter andb].
  - now rewrite IH.
  - exact IH.
Qed.

Lemma filter_all {A} (f : A -> bool) l : (forall x, In x l -> f x = true) -> filter f l = l.
Proof.
  induction l as [|a l IH]; intros H; [reflexivity|]. cbn [filter].
  rewrite (H a (or_introl eq_refl)), IH; [reflexivity|]. intros x Hx. apply H. now right.
Qed.

Lemma filter_ext_in2 {A} (f g : A -> bool) l : (forall q, In q l -> f q = g q) -> filter f l = filter g l.
Proof.
  induction l as [|a l IH]; intros H; [reflexivity|]. cbn [filter].
  rewrite (H a (or_introl eq_refl)), IH; [reflexivity|]. intros q Hq. apply H. now right.
Qed.

Lemma ones_in_sorted bm i e : StronglySorted Z.lt (ones_in bm i e).
Proof. apply SS_filter, ones_sorted. Qed.

(** the range [i', e') of a range [i, e) that contains it *)
Lemma ones_in_sub bm i e i' e' : i <= i' -> e' <= e ->
  ones_in bm i' e' = filter (in_rangeb i' e') (ones_in bm i e).
Proof.
  intros Hi He. unfold ones_in. rewrite filter_filter. apply filter_ext_in2. intros q _.
  unfold in_rangeb.
  destruct (Z.leb_spec i q), (Z.ltb_spec q e), (Z.leb_spec i' q), (Z.ltb_spec q e'); try reflexivity; lia.
Qed.

(** cutting the head off: the 1-bits after the first one *)
Lemma ones_in_tail bm i e q l : ones_in bm i e = q :: l -> ones_in bm (q + 1) e = l.
Proof.
  intros E. pose proof (ones_in_sorted bm i e) as Hs. rewrite E in Hs.
  assert (Hq : i <= q).
  { assert (In q (ones_in bm i e)) by (rewrite E; now left). apply in_ones_in in H. lia. }
  rewrite (ones_in_sub bm i e (q + 1) e) by lia. rewrite E. cbn [filter].
  unfold in_rangeb at 1. destruct (Z.leb_spec (q + 1) q); [lia|]. cbn [andb].
  inversion Hs as [|? ? _ Ha]; subst. apply filter_all. intros x Hx.
  rewrite Forall_forall in Ha. specialize (Ha x Hx).
  assert (Hin : In x (ones_in bm i e)) by (rewrite E; now right). apply in_ones_in in Hin.
  unfold in_rangeb. destruct (Z.leb_spec (q + 1) x), (Z.ltb_spec x e); try reflexivity; lia.
Qed.

(** cutting the last off: the 1-bits before the last one *)
Lemma ones_in_init bm i e q l : ones_in bm i e = l ++ [q] -> ones_in bm i q = l.
Proof.
  intros E. pose proof (ones_in_sorted bm i e) as Hs. rewrite E in Hs.
  assert (Hq : q < e).
  { assert (In q (ones_in bm i e)) by (rewrite E; apply in_or_app; right; now left).
    apply in_ones_in in H. lia. }
  rewrite (ones_in_sub bm i e i q) by lia. rewrite E, filter_app. cbn [filter].
  unfold in_rangeb at 2. destruct (Z.ltb_spec q q); [lia|]. rewrite andb_false_r, app_nil_r.
  apply SS_snoc_lt in Hs. apply filter_all. intros x Hx.
  rewrite Forall_forall in Hs. specialize (Hs x Hx).
  assert (Hin : In x (ones_in bm i e)) by (rewrite E; apply in_or_app; now left). apply in_ones_in in Hin.
  unfold in_rangeb. destruct (Z.leb_spec i x), (Z.ltb_spec x q); try reflexivity; lia.
Qed.

Lemma ones_in_whole bm : ones_in bm 0 (64 * zlen bm) = ones (flat bm).
Proof.
  unfold ones_in. apply filter_all. intros q Hq. apply ones_In_bitz in Hq. destruct Hq as [H0 H1].
  pose proof (bitz_true_lt _ _ H0 H1) as Hl. rewrite flat_length in Hl.
  unfold in_rangeb, zlen. destruct (Z.leb_spec 0 q), (Z.ltb_spec q (64 * Z.of_nat (length bm))); try reflexivity; lia.
Qed.

(** * the specification values, by cases *)
Section Cases.
Variable bm : list Z.
Let B (p : Z) : bool := bitz (flat bm) p.

Lemma spec_NextOne_cases i e :
  (ones_in bm i e = [] /\ spec_NextOne bm i e = -1 /\ forall p, i <= p < e -> 0 <= p -> B p = false) \/
  (let r := spec_NextOne bm i e in
   i <= r < e /\ 0 <= r /\ B r = true /\ forall p, i <= p < r -> 0 <= p -> B p = false).
Proof.
  unfold spec_NextOne. destruct (ones_in bm i e) as [|q l] eqn:E.
  - left. split; [reflexivity|]. split; [reflexivity|]. intros p Hp Hp0.
    destruct (B p) eqn:Hb; [|reflexivity]. exfalso.
    assert (Hin : In p (ones_in bm i e)) by (apply in_ones_in; repeat split; try lia; exact Hb).
    rewrite E in Hin. destruct Hin.
  - right. cbn [hd].
    assert (Hq : In q (ones_in bm i e)) by (rewrite E; now left).
    apply in_ones_in in Hq. destruct Hq as (Hr & Hq0 & Hqb).
    split; [exact Hr|]. split; [exact Hq0|]. split; [exact Hqb|]. intros p Hp Hp0.
    destruct (B p) eqn:Hb; [|reflexivity]. exfalso.
    assert (Hin : In p (ones_in bm i e)) by (apply in_ones_in; repeat split; try lia; exact Hb).
    pose proof (ones_in_sorted bm i e) as Hs. rewrite E in Hs, Hin.
    inversion Hs as [|? ? _ Ha]; subst. destruct Hin as [->|Hin]; [lia|].
    rewrite Forall_forall in Ha. specialize (Ha p Hin). lia.
Qed.

Lemma spec_PrevOne_cases i e :
  (ones_in bm i e = [] /\ spec_PrevOne bm i e = -1 /\ forall p, i <= p < e -> 0 <= p -> B p = false) \/
  (let r := spec_PrevOne bm i e in
   i <= r < e /\ 0 <= r /\ B r = true /\ forall p, r < p < e -> B p = false).
Proof.
  unfold spec_PrevOne. destruct (ones_in bm i e) as [|q0 l0] eqn:E.
  - left. split; [reflexivity|]. split; [reflexivity|]. intros p Hp Hp0.
    destruct (B p) eqn:Hb; [|reflexivity]. exfalso.
    assert (Hin : In p (ones_in bm i e)) by (apply in_ones_in; repeat split; try lia; exact Hb).
    rewrite E in Hin. destruct Hin.
  - right. destruct (exists_last (l := q0 :: l0) ltac:(discriminate)) as (l & q & E').
    rewrite E' in *. rewrite last_last. cbv zeta.
    assert (Hq : In q (ones_in bm i e)) by (rewrite E; apply in_or_app; right; now left).
    apply in_ones_in in Hq. destruct Hq as (Hr & Hq0 & Hqb).
    split; [exact Hr|]. split; [exact Hq0|]. split; [exact Hqb|]. intros p Hp.
    destruct (B p) eqn:Hb; [|reflexivity]. exfalso.
    assert (Hin : In p (ones_in bm i e)) by (apply in_ones_in; repeat split; try lia; exact Hb).
    pose proof (ones_in_sorted bm i e) as Hs. rewrite E in Hs, Hin.
    apply SS_snoc_lt in Hs. apply in_app_or in Hin. destruct Hin as [Hin|[->|[]]]; [|lia].
    rewrite Forall_forall in Hs. specialize (Hs p Hin). lia.
Qed.

End Cases.

Section Laws.
Variable bm : list Z.
Hypothesis Hok : words_ok bm.
Let B (p : Z) : bool := bitz (flat bm) p.
Local Notation N := (64 * zlen bm).

(** * walking a range *)
Lemma IterNext_loop_exact e : e <= N ->
  forall fuel i, 0 <= i <= e -> e - i < Z.of_nat fuel ->
  IterNext_loop fuel bm i e = Some (ones_in bm i e).
Proof.
  intros He. induction fuel as [|fuel IH]; intros i Hi Hf; [lia|].
  cbn [IterNext_loop]. destruct (Z.ltb_spec i e) as [Hlt|Hge].
  2:{ unfold ones_in. rewrite filter_none; [reflexivity|]. intros q _. unfold in_rangeb.
      destruct (Z.leb_spec i q), (Z.ltb_spec q e); try reflexivity; lia. }
  rewrite (NextOne_exact bm Hok i e) by lia.
  unfold spec_NextOne. destruct (ones_in bm i e) as [|q l] eqn:E; cbn [hd].
  - reflexivity.
  - assert (Hq : In q (ones_in bm i e)) by (rewrite E; now left).
    apply in_ones_in in Hq. destruct Hq as (Hr & Hq0 & _).
    destruct (Z.ltb_spec q 0); [lia|].
    rewrite IH by lia. now rewrite (ones_in_tail bm i e q l E).
Qed.

Theorem IterNext_exact i e : 0 <= i <= e -> e <= N -> IterNext bm i e = Some (ones_in bm i e).
Proof. intros Hi He. unfold IterNext. apply IterNext_loop_exact; lia. Qed.

Lemma IterPrev_loop_exact i : 0 <= i ->
  forall fuel e, i <= e -> e <= N -> e - i < Z.of_nat fuel ->
  IterPrev_loop fuel bm i e = Some (rev (ones_in bm i e)).
Proof.
  intros Hi0. induction fuel as [|fuel IH]; intros e Hie He Hf; [lia|].
  cbn [IterPrev_loop]. destruct (Z.ltb_spec i e) as [Hlt|Hge].
  2:{ unfold ones_in. rewrite filter_none; [reflexivity|]. intros q _. unfold in_rangeb.
      destruct (Z.leb_spec i q), (Z.ltb_spec q e); try reflexivity; lia. }
  rewrite (PrevOne_exact bm Hok i e) by lia.
  unfold spec_PrevOne. destruct (ones_in bm i e) as [|q0 l0] eqn:E.
  - reflexivity.
  - destruct (exists_last (l := q0 :: l0) ltac:(discriminate)) as (l & q & E').
    rewrite E' in *. rewrite last_last.
    assert (Hq : In q (ones_in bm i e)) by (rewrite E; apply in_or_app; right; now left).
    apply in_ones_in in Hq. destruct Hq as (Hr & Hq0 & _).
    destruct (Z.ltb_spec q 0); [lia|].
    rewrite IH by lia. rewrite (ones_in_init bm i e q l E).
    rewrite rev_app_distr. reflexivity.
Qed.

Theorem IterPrev_exact i e : 0 <= i <= e -> e <= N -> IterPrev bm i e = Some (rev (ones_in bm i e)).
Proof. intros Hi He. unfold IterPrev. apply IterPrev_loop_exact; lia. Qed.

(** the whole bitmap: NextOne from 0 enumerates ToArray, PrevOne from the end its reverse *)
Theorem IterNext_ToArray : IterNext bm 0 N = ToArray bm.
Proof.
  rewrite IterNext_exact by (unfold zlen; lia). now rewrite ones_in_whole, ToArray_exact.
Qed.

Theorem IterPrev_ToArray : IterPrev bm 0 N = option_map (@rev Z) (ToArray bm).
Proof.
  rewrite IterPrev_exact by (unfold zlen; lia). now rewrite ones_in_whole, ToArray_exact.
Qed.

(** * duality *)
Theorem NextPrevDual_exact i e : 0 <= i < e -> e <= N ->
  let sn := spec_NextOne bm i e in
  let sp := spec_PrevOne bm i e in
  NextPrevDual bm i e = Some [sn; sp; sn; sp; -1; -1] /\
  (sn = -1 <-> sp = -1) /\ (sn <> -1 -> i <= sn <= sp /\ sp < e).
Proof.
  intros Hi He sn sp.
  destruct (spec_NextOne_cases bm i e) as [(En & Hn & Hnone)|(Hnr & Hn0 & Hnb & Hnlow)];
  destruct (spec_PrevOne_cases bm i e) as [(Ep & Hp & Hnone')|(Hpr & Hp0 & Hpb & Hphigh)];
  fold sn in Hn || fold sn in Hnr, Hn0, Hnb, Hnlow; fold sp in Hp || fold sp in Hpr, Hp0, Hpb, Hphigh.
  - (* no 1-bit *)
    split; [|split; [tauto|intros; lia]].
    unfold NextPrevDual. rewrite (NextOne_exact bm Hok i e), (PrevOne_exact bm Hok i e) by lia.
    fold sn sp. rewrite Hn, Hp. cbn. destruct (Z.leb_spec (-1) i); [reflexivity|lia].
  - exfalso. rewrite (Hnone sp) in Hpb; [discriminate|lia|lia].
  - exfalso. rewrite (Hnone' sn) in Hnb; [discriminate|lia|lia].
  - assert (Hle : sn <= sp).
    { destruct (Z.le_gt_cases sn sp); [assumption|]. rewrite Hphigh in Hnb by lia. discriminate. }
    split; [|split; [lia|intros _; lia]].
    assert (Hbn : (if sn <=? i then Some (-1) else PrevOne bm i sn) = Some (-1)).
    { destruct (Z.leb_spec sn i); [reflexivity|]. rewrite (PrevOne_exact bm Hok i sn) by lia.
      rewrite spec_PrevOne_none; [reflexivity|lia|]. intros p Hp. apply Hnlow; lia. }
    assert (Hap : (if (sp <? 0) || (e <=? sp + 1) then Some (-1) else NextOne bm (sp + 1) e) = Some (-1)).
    { destruct (Z.ltb_spec sp 0); [lia|]. destruct (Z.leb_spec e (sp + 1)); cbn [orb]; [reflexivity|].
      rewrite (NextOne_exact bm Hok (sp + 1) e) by lia.
      rewrite spec_NextOne_none; [reflexivity|lia|]. intros p Hp. apply Hphigh; lia. }
    unfold NextPrevDual. rewrite (NextOne_exact bm Hok i e), (PrevOne_exact bm Hok i e) by lia.
    fold sn sp. rewrite Hbn, Hap. destruct (Z.ltb_spec sn 0); [lia|]. destruct (Z.ltb_spec sp 0); [lia|].
    rewrite (PrevOne_exact bm Hok i (sn + 1)) by lia.
    rewrite (spec_PrevOne_found bm i (sn + 1) sn) by (try lia; try exact Hnb; intros; lia).
    rewrite (NextOne_exact bm Hok sp e) by lia.
    rewrite (spec_NextOne_found bm sp e sp) by (try lia; try exact Hpb; intros; lia).
    reflexivity.
Qed.

(** * moving the range ends *)
(** a shorter range clips the result of the longer one *)
Lemma spec_NextOne_shrink_end i e e' : 0 <= i -> e <= e' ->
  spec_NextOne bm i e = (let r := spec_NextOne bm i e' in if (0 <=? r) && (r <? e) then r else -1).
Proof.
  intros Hi He. cbv zeta.
  destruct (spec_NextOne_cases bm i e') as [(_ & Hn & Hnone)|(Hnr & Hn0 & Hnb & Hnlow)].
  - rewrite Hn. cbn [Z.leb Z.compare andb]. apply spec_NextOne_none; [lia|]. intros p Hp. apply Hnone; lia.
  - set (r := spec_NextOne bm i e') in *. destruct (Z.leb_spec 0 r); [|lia]. cbn [andb].
    destruct (Z.ltb_spec r e).
    + apply spec_NextOne_found; try lia; try exact Hnb. intros p Hp. apply Hnlow; lia.
    + apply spec_NextOne_none; [lia|]. intros p Hp. apply Hnlow; lia.
Qed.

Lemma spec_PrevOne_grow_start i i' e : 0 <= i <= i' ->
  spec_PrevOne bm i' e = (let r := spec_PrevOne bm i e in if i' <=? r then r else -1).
Proof.
  intros Hi. cbv zeta.
  destruct (spec_PrevOne_cases bm i e) as [(_ & Hn & Hnone)|(Hnr & Hn0 & Hnb & Hhigh)].
  - rewrite Hn. destruct (Z.leb_spec i' (-1)); [lia|]. apply spec_PrevOne_none; [lia|].
    intros p Hp. apply Hnone; lia.
  - set (r := spec_PrevOne bm i e) in *.
    destruct (Z.leb_spec i' r).
    + apply spec_PrevOne_found; try lia; try exact Hnb. intros p Hp. apply Hhigh; lia.
    + apply spec_PrevOne_none; [lia|]. intros p Hp. apply Hhigh; lia.
Qed.

Theorem NextOne_shrink_end i e e' : 0 <= i <= e -> e <= e' -> e' <= N -> i < N ->
  NextOne bm i e = option_map (fun r => if (0 <=? r) && (r <? e) then r else -1) (NextOne bm i e').
Proof.
  intros Hi He He' HiN. rewrite !(NextOne_exact bm Hok) by lia. cbn [option_map].
  now rewrite (spec_NextOne_shrink_end i e e') by lia.
Qed.

Theorem PrevOne_grow_start i i' e : 0 <= i <= i' -> i' <= e -> e <= N -> i' < N -> 1 <= e ->
  PrevOne bm i' e = option_map (fun r => if i' <=? r then r else -1) (PrevOne bm i e).
Proof.
  intros Hi Hi' He HiN He1. rewrite !(PrevOne_exact bm Hok) by lia. cbn [option_map].
  now rewrite (spec_PrevOne_grow_start i i' e) by lia.
Qed.

(** moving the searching end: the result is kept while it stays in range, otherwise it can only move
    in the direction of the search (monotonicity) *)
Theorem NextOne_advance_start i i' e r r' : 0 <= i <= i' -> i' <= e -> e <= N -> i' < N ->
  NextOne bm i e = Some r -> NextOne bm i' e = Some r' ->
  (r = -1 -> r' = -1) /\ (i' <= r -> r' = r) /\ (r' <> -1 -> r <> -1 /\ r <= r').
Proof.
  intros Hi Hi' He HiN. rewrite !(NextOne_exact bm Hok) by lia. intros [= <-] [= <-].
  destruct (spec_NextOne_cases bm i e) as [(_ & Hn & Hnone)|(Hnr & Hn0 & Hnb & Hnlow)].
  - assert (Hn' : spec_NextOne bm i' e = -1).
    { apply spec_NextOne_none; [lia|]. intros p Hp. apply Hnone; lia. }
    rewrite Hn, Hn'. repeat split; try lia.
  - set (r := spec_NextOne bm i e) in *.
    destruct (Z.le_gt_cases i' r) as [Hle|Hgt].
    + assert (Hn' : spec_NextOne bm i' e = r).
      { apply spec_NextOne_found; try lia; try exact Hnb. intros p Hp. apply Hnlow; lia. }
      rewrite Hn'. repeat split; try lia.
    + destruct (spec_NextOne_cases bm i' e) as [(_ & Hn' & _)|(Hnr' & _)].
      * rewrite Hn'. repeat split; try lia.
      * cbv zeta in Hnr'. repeat split; try lia.
Qed.

Theorem PrevOne_retreat_end i e e' r r' : 0 <= i <= e' -> e' <= e -> e <= N -> i < N -> 1 <= e' ->
  PrevOne bm i e = Some r -> PrevOne bm i e' = Some r' ->
  (r = -1 -> r' = -1) /\ (r < e' -> r' = r) /\ (r' <> -1 -> r <> -1 /\ r' <= r).
Proof.
  intros Hi He' He HiN He1. rewrite !(PrevOne_exact bm Hok) by lia. intros [= <-] [= <-].
  destruct (spec_PrevOne_cases bm i e) as [(_ & Hn & Hnone)|(Hnr & Hn0 & Hnb & Hhigh)].
  - assert (Hn' : spec_PrevOne bm i e' = -1).
    { apply spec_PrevOne_none; [lia|]. intros p Hp. apply Hnone; lia. }
    rewrite Hn, Hn'. repeat split; try lia.
  - set (r := spec_PrevOne bm i e) in *.
    destruct (Z.lt_ge_cases r e') as [Hlt|Hge].
    + assert (Hn' : spec_PrevOne bm i e' = r).
      { apply spec_PrevOne_found; try lia; try exact Hnb. intros p Hp. apply Hhigh; lia. }
      rewrite Hn'. repeat split; try lia.
    + destruct (spec_PrevOne_cases bm i e') as [(_ & Hn' & _)|(Hnr' & _)].
      * rewrite Hn'. repeat split; try lia.
      * cbv zeta in Hnr'. repeat split; try lia.
Qed.

End Laws.
