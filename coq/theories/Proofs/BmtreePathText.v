(** C10 widening: the TEXT of a path.  Text order of the rendered paths
    (strings.Compare) = pre-order = numeric order of the words; parsing the text
    back (ParseUint base 2) and calling NewPath returns the word.  Also: the root's
    word forgets the height, and words of different heights do not compare. *)
From Coq Require Import ZArith List Lia Bool.
From Low Require Import Lib.MachInt Lib.Bits Lib.BitSeq Lib.Lex Lib.Bytes Lib.BitsExtra_tree
  Spec.Bmtree Spec.PathSpec Spec.PathWideSpec
  Model.BmtreePath Model.BmtreePathStr Model.BmtreePathWide
  Proofs.BmtreePathProofs Proofs.BmtreeNewPathRaw.
Import ListNotations.
Open Scope Z_scope.

Lemma node_str_cmp : forall q1 q2, bytes_cmp (node_str q1) (node_str q2) = bits_cmp q1 q2.
Proof.
  unfold bytes_cmp, bits_cmp, node_str.
  induction q1 as [|a q1 IH]; intros [|b q2]; cbn [map lex_cmp]; try reflexivity.
  rewrite IH. destruct a, b; reflexivity.
Qed.

Lemma PathStr_order h q1 q2 : (h <= 32)%nat -> (length q1 <= h)%nat -> (length q2 <= h)%nat ->
  bytes_cmp (PathStr (enc h q1)) (PathStr (enc h q2)) = (enc h q1 ?= enc h q2).
Proof.
  intros Hh H1 H2. rewrite !PathStr_enc by assumption. rewrite node_str_cmp.
  symmetry. now apply enc_compare.
Qed.

Lemma node_str_length q : zlen (node_str q) = Z.of_nat (length q).
Proof. unfold zlen, node_str. now rewrite map_length. Qed.

Lemma parse_bin_acc : forall q acc,
  fold_left (fun a c => 2 * a + (c - 48)) (node_str q) acc = val_msb_acc acc q.
Proof.
  induction q as [|b q IH]; intros acc; [reflexivity|].
  cbn [node_str map fold_left val_msb_acc]. fold (node_str q). rewrite IH.
  f_equal. destruct b; cbn [bitchar Z.b2z]; lia.
Qed.

Lemma parse_node_str q : parse_bin (node_str q) = val_msb q.
Proof. apply parse_bin_acc. Qed.

(** word -> text -> word *)
Lemma PathStr_parse h q : (h <= 32)%nat -> (length q <= h)%nat ->
  let s := PathStr (enc h q) in
  NewPath_full (shl64 (parse_bin s) (Z.of_nat h - zlen s)) (zlen s) (Z.of_nat h) = Some (enc h q).
Proof.
  intros Hh Hl s. unfold s. rewrite PathStr_enc by assumption.
  rewrite parse_node_str, node_str_length.
  pose proof (valL_lt h q Hl) as Hv. unfold valL in Hv.
  pose proof (pow2_le (Z.of_nat h) 64 ltac:(lia)).
  rewrite shl64_small by lia.
  now apply NewPath_full_enc.
Qed.

Lemma strorder_ok_model h q1 q2 : (h <= 32)%nat -> (length q1 <= h)%nat -> (length q2 <= h)%nat ->
  strorder_ok q1 q2 (cmp_sign (bytes_cmp (PathStr (enc h q1)) (PathStr (enc h q2))))
    (PathStr (enc h q1)) (PathStr (enc h q2)) = true.
Proof.
  intros Hh H1 H2. unfold strorder_ok. rewrite !PathStr_enc by assumption.
  rewrite node_str_cmp, Z.eqb_refl, !zs_eqb_refl. reflexivity.
Qed.

(** * the root's word forgets the height; different heights do not compare *)
Lemma root_word h : enc h [] = 0 /\ PathHeight (enc h []) = 0 /\ PathStr (enc h []) = [].
Proof. rewrite enc_nil. repeat split. Qed.

Lemma mixed_heights_refuted :
  exists h1 h2 q1 q2, (h1 <= 32)%nat /\ (h2 <= 32)%nat /\ (length q1 <= h1)%nat /\ (length q2 <= h2)%nat /\
    pre_lt q1 q2 /\ enc h2 q2 < enc h1 q1.
Proof.
  exists 3%nat, 1%nat, [false; true], [true]. repeat split; cbn [length]; try lia; vm_compute; reflexivity.
Qed.
