(** C06 / C07, part 5: consequences, on the flat stream, of the specification of
    Unmarshal (a frame followed by anything; a cut frame; a corrupt header; what a
    success implies), transported to the model over every chunking by
    [Unmarshal_spec]; the two concrete body codecs; a stream of frames. *)
From Coq Require Import ZArith List Bool Lia.
From Low Require Import Lib.MachInt Lib.BitSeq Lib.Bytes
  Model.Pbcmpl Spec.PbcmplSpec
  Proofs.PbcmplIO Proofs.PbcmplHeader Proofs.PbcmplProofs Proofs.PbcmplMarshal.
Import ListNotations.
Open Scope Z_scope.

(** when the reader may deliver its terminal error together with the last bytes of
    the stream, io.ReadAll passes a non-EOF error on even though the body is
    complete; that case is outside "the frame is returned" *)
Definition term_ok (t : terminal) (body rest : list Z) : Prop :=
  rest <> [] \/ body = [] \/ t_with_last t = false \/ t_err t = EEOF.

Lemma bytes_ok_app a b : bytes_ok (a ++ b) <-> bytes_ok a /\ bytes_ok b.
Proof. unfold bytes_ok. apply Forall_app. Qed.

Lemma frame_bytes ver body : bytes_ok ver -> bytes_ok body -> bytes_ok (frame ver body).
Proof. intros. unfold frame. apply bytes_ok_app. split; [apply frame_header_bytes|]; assumption. Qed.

Lemma firstn_zlen_app {A} (a b : list A) : firstn (Z.to_nat (zlen a)) (a ++ b) = a.
Proof. apply firstn_app_exact. unfold zlen. lia. Qed.

Lemma skipn_zlen_app {A} (a b : list A) : skipn (Z.to_nat (zlen a)) (a ++ b) = b.
Proof. apply skipn_app_exact. unfold zlen. lia. Qed.

Section Spec.
  Variable Msg : Type.
  Variable dec : list Z -> option Msg.

  (** a frame followed by anything; whatever the version bytes, it is read back
      without its trailing NULs *)
  Lemma spec_Unmarshal_frame_anyver e32 ver body rest t m :
    zlen ver <= 16 -> zlen body < 2 ^ 63 ->
    dec body = Some m -> term_ok t body rest ->
    spec_Unmarshal dec e32 (frame ver body ++ rest) t
      = (32 + zlen body, strip_nul ver, None, Some m, rest).
  Proof.
    intros Hv Hlen Hdec Hterm. pose proof (zlen_nonneg body) as Hb0.
    pose proof (zlen_nonneg rest) as Hr0.
    unfold frame. rewrite <- app_assoc.
    destruct (frame_header_fields ver (zlen body) (body ++ rest) Hv) as (F16 & Fh & Fb & F32); [lia|].
    unfold spec_Unmarshal. rewrite F16, Fh, Fb, F32.
    rewrite (zlen_app (frame_header ver (zlen body))), zlen_frame_header by assumption.
    rewrite zlen_app.
    destruct (Z.ltb_spec (32 + (zlen body + zlen rest)) 32); [lia|].
    change (32 =? 32) with true. cbn [negb].
    destruct (Z.geb_spec (zlen body) (2 ^ 63)); [lia|].
    destruct (Z.ltb_spec (zlen body + zlen rest) (zlen body)); [lia|].
    destruct ((zlen body + zlen rest =? zlen body) && (0 <? zlen body) && t_with_last t
              && negb (is_eofb (t_err t))) eqn:Hlast.
    { exfalso.
      apply andb_prop in Hlast. destruct Hlast as [Hlast Hne].
      apply andb_prop in Hlast. destruct Hlast as [Hlast Hwl].
      apply andb_prop in Hlast. destruct Hlast as [Heq Hpos].
      apply Z.eqb_eq in Heq. apply Z.ltb_lt in Hpos.
      destruct Hterm as [Hr|[Hb|[Hw|He]]].
      - apply Hr. apply zlen_zero_nil. lia.
      - subst body. unfold zlen in Hpos. cbn [length] in Hpos. lia.
      - congruence.
      - rewrite He in Hne. discriminate. }
    rewrite firstn_zlen_app, skipn_zlen_app, Hdec.
    unfold pad16. rewrite strip_nul_pad_gen. reflexivity.
  Qed.

  Lemma spec_Unmarshal_frame e32 ver body rest t m :
    zlen ver <= 16 -> no_trailing_nul ver = true -> zlen body < 2 ^ 63 ->
    dec body = Some m -> term_ok t body rest ->
    spec_Unmarshal dec e32 (frame ver body ++ rest) t = (32 + zlen body, ver, None, Some m, rest).
  Proof.
    intros Hv Hnul Hlen Hdec Hterm.
    rewrite spec_Unmarshal_frame_anyver with (m := m) by assumption.
    rewrite strip_nul_id by assumption. reflexivity.
  Qed.

  (** a strict prefix of a frame *)
  Lemma spec_Unmarshal_cut e32 ver body t k :
    zlen ver <= 16 -> no_trailing_nul ver = true -> zlen body < 2 ^ 63 ->
    0 <= k < 32 + zlen body ->
    spec_Unmarshal dec e32 (firstn (Z.to_nat k) (frame ver body)) t =
      (k, (if k <? 32 then [] else ver),
       Some (if k <? 32 then end_err t k EEOF else end_err t (k - 32) e32), None, []).
  Proof.
    intros Hv Hnul Hlen Hk. pose proof (zlen_nonneg body) as Hb0.
    set (s := firstn (Z.to_nat k) (frame ver body)).
    assert (Hs : zlen s = k).
    { unfold s. rewrite zlen_firstn by lia. rewrite zlen_frame by assumption. lia. }
    unfold spec_Unmarshal. rewrite Hs.
    destruct (Z.ltb_spec k 32) as [Hk32|Hk32]; [reflexivity|].
    assert (Es : s = frame_header ver (zlen body) ++ firstn (Z.to_nat (k - 32)) body).
    { unfold s, frame. rewrite firstn_app_z by (rewrite zlen_frame_header by assumption; lia).
      rewrite zlen_frame_header by assumption. reflexivity. }
    destruct (frame_header_fields ver (zlen body) (firstn (Z.to_nat (k - 32)) body) Hv)
      as (F16 & Fh & Fb & F32); [lia|].
    rewrite <- Es in *. rewrite F16, Fh, Fb, F32.
    change (32 =? 32) with true. cbn [negb].
    destruct (Z.geb_spec (zlen body) (2 ^ 63)); [lia|].
    rewrite zlen_firstn by lia. rewrite Z.min_l by lia.
    destruct (Z.ltb_spec (k - 32) (zlen body)); [|lia].
    unfold pad16. rewrite strip_nul_pad by assumption. reflexivity.
  Qed.

  Lemma spec_Unmarshal_hsize e32 s t :
    32 <= zlen s -> le_val (firstn 8 (skipn 16 s)) <> 32 ->
    spec_Unmarshal dec e32 s t
      = (32, strip_nul (firstn 16 s), Some EInvalidHeaderSize, None, skipn 32 s).
  Proof.
    intros Hs Hh. unfold spec_Unmarshal.
    destruct (Z.ltb_spec (zlen s) 32); [lia|].
    destruct (Z.eqb_spec (le_val (firstn 8 (skipn 16 s))) 32); [contradiction|]. reflexivity.
  Qed.

  Lemma spec_Unmarshal_bsize e32 s t :
    32 <= zlen s -> le_val (firstn 8 (skipn 16 s)) = 32 -> 2 ^ 63 <= le_val (firstn 8 (skipn 24 s)) ->
    spec_Unmarshal dec e32 s t
      = (32, strip_nul (firstn 16 s), Some EInvalidBodySize, None, skipn 32 s).
  Proof.
    intros Hs Hh Hb. unfold spec_Unmarshal.
    destruct (Z.ltb_spec (zlen s) 32); [lia|].
    rewrite Hh. change (32 =? 32) with true. cbn [negb].
    destruct (Z.geb_spec (le_val (firstn 8 (skipn 24 s))) (2 ^ 63)); [reflexivity|lia].
  Qed.

  (** success implies that the stream starts with a complete well-formed frame *)
  Definition starts_with_frame (s : list Z) (ver body left : list Z) : Prop :=
    s = firstn 32 s ++ body ++ left
    /\ zlen (firstn 32 s) = 32
    /\ ver = strip_nul (firstn 16 s)
    /\ le_val (firstn 8 (skipn 16 s)) = 32
    /\ le_val (firstn 8 (skipn 24 s)) = zlen body.

  Lemma spec_Unmarshal_ok_inv e32 s t n ver m left :
    bytes_ok s ->
    spec_Unmarshal dec e32 s t = (n, ver, None, m, left) ->
    exists body msg,
      m = Some msg /\ dec body = Some msg /\ n = 32 + zlen body
      /\ starts_with_frame s ver body left.
  Proof.
    intros Hb. unfold spec_Unmarshal.
    destruct (Z.ltb_spec (zlen s) 32) as [|Hs]; [discriminate|].
    destruct (Z.eqb_spec (le_val (firstn 8 (skipn 16 s))) 32) as [Hh|]; cbn [negb]; [|discriminate].
    destruct (Z.geb_spec (le_val (firstn 8 (skipn 24 s))) (2 ^ 63)); [discriminate|].
    set (bs := le_val (firstn 8 (skipn 24 s))) in *.
    set (rest := skipn 32 s).
    destruct (Z.ltb_spec (zlen rest) bs) as [|Hfull]; [discriminate|].
    destruct (_ && _ && _ && _); [discriminate|].
    assert (Hbs0 : 0 <= bs).
    { unfold bs. apply le_val_range. apply bytes_ok_firstn, bytes_ok_skipn, Hb. }
    destruct (dec (firstn (Z.to_nat bs) rest)) as [msg|] eqn:Hdec; [|discriminate].
    intros HH. inversion HH; subst. clear HH.
    exists (firstn (Z.to_nat bs) rest), msg.
    assert (Hl : zlen (firstn (Z.to_nat bs) rest) = bs) by (rewrite zlen_firstn by lia; lia).
    rewrite Hl. repeat split; auto.
    - rewrite firstn_skipn. unfold rest. rewrite firstn_skipn. reflexivity.
    - apply zlen_firstn32. lia.
  Qed.
  Definition un_n (r : Z * list Z * option perr * option Msg * list Z) : Z :=
    let '(n, _, _, _, _) := r in n.
  Definition un_err (r : Z * list Z * option perr * option Msg * list Z) : option perr :=
    let '(_, _, e, _, _) := r in e.
  Definition un_msg (r : Z * list Z * option perr * option Msg * list Z) : option Msg :=
    let '(_, _, _, m, _) := r in m.

  (** the count never exceeds what was available *)
  Lemma spec_Unmarshal_n_range e32 s t :
    bytes_ok s -> 0 <= un_n (spec_Unmarshal dec e32 s t) <= zlen s.
  Proof.
    intros Hb. pose proof (zlen_nonneg s). unfold spec_Unmarshal.
    destruct (Z.ltb_spec (zlen s) 32); [cbn [un_n]; lia|].
    destruct (negb _); [cbn [un_n]; lia|].
    destruct (_ >=? _); [cbn [un_n]; lia|].
    set (bs := le_val (firstn 8 (skipn 24 s))).
    assert (0 <= bs).
    { unfold bs. apply le_val_range. apply bytes_ok_firstn, bytes_ok_skipn, Hb. }
    destruct (Z.ltb_spec (zlen (skipn 32 s)) bs); [cbn [un_n]; lia|].
    rewrite zlen_skipn32 in * by lia.
    destruct (_ && _ && _ && _); [cbn [un_n]; lia|].
    destruct (dec _); cbn [un_n]; lia.
  Qed.

  (** no message without success *)
  Lemma spec_Unmarshal_err_nomsg e32 s t :
    un_err (spec_Unmarshal dec e32 s t) <> None -> un_msg (spec_Unmarshal dec e32 s t) = None.
  Proof.
    unfold spec_Unmarshal.
    destruct (_ <? 32); [reflexivity|].
    destruct (negb _); [reflexivity|].
    destruct (_ >=? _); [reflexivity|].
    destruct (_ <? _); [reflexivity|].
    destruct (_ && _ && _ && _); [reflexivity|].
    destruct (dec _); cbn [un_err un_msg]; [contradiction|reflexivity].
  Qed.
End Spec.

(** ** the model, over every chunking *)
Section Codec.
  Variable Msg : Type.
  Variable enc : Msg -> list Z.
  Variable dec : list Z -> option Msg.
  Variable grow : Z -> Z.
  Hypothesis Hgrow : forall c, 0 < c -> c < grow c.

  (** C06: one frame, followed by anything, however the reader chunks the bytes *)
  Theorem Unmarshal_frame m ver rest cs t fuel :
    dec (enc m) = Some m ->
    zlen ver <= 16 -> no_trailing_nul ver = true ->
    bytes_ok ver -> bytes_ok (enc m) -> bytes_ok rest ->
    chunks_ok cs -> concat cs = frame ver (enc m) ++ rest -> zlen (concat cs) < 2 ^ 63 ->
    term_ok t (enc m) rest ->
    (length cs + length (concat cs) + 2 <= fuel)%nat ->
    exists cs',
      Unmarshal dec cread grow fuel (cs, t)
        = Some (32 + zlen (enc m), ver, None, Some m, (cs', t))
      /\ concat cs' = rest /\ chunks_ok cs'.
  Proof.
    intros Hdec Hv Hnul Bv Bb Br Hok Hcs Hlen Hterm Hfuel.
    destruct (Unmarshal_spec Msg dec grow Hgrow cs t fuel Hok) as (n & v & e & mm & cs' & HU & Hok' & HS);
      try assumption.
    { rewrite Hcs. apply bytes_ok_app. split; [apply frame_bytes|]; assumption. }
    rewrite Hcs in HS.
    rewrite (spec_Unmarshal_frame Msg dec EEOF ver (enc m) rest t m) in HS; try assumption.
    - inversion HS; subst. exists cs'. rewrite HU. auto.
    - rewrite Hcs, zlen_app, zlen_frame in Hlen by assumption. pose proof (zlen_nonneg rest). lia.
  Qed.

  (** the same for a version that may end in NULs (or be all NULs): what comes back
      is the version without its trailing NULs *)
  Theorem Unmarshal_frame_anyver m ver rest cs t fuel :
    dec (enc m) = Some m ->
    zlen ver <= 16 ->
    bytes_ok ver -> bytes_ok (enc m) -> bytes_ok rest ->
    chunks_ok cs -> concat cs = frame ver (enc m) ++ rest -> zlen (concat cs) < 2 ^ 63 ->
    term_ok t (enc m) rest ->
    (length cs + length (concat cs) + 2 <= fuel)%nat ->
    exists cs',
      Unmarshal dec cread grow fuel (cs, t)
        = Some (32 + zlen (enc m), strip_nul ver, None, Some m, (cs', t))
      /\ concat cs' = rest /\ chunks_ok cs'.
  Proof.
    intros Hdec Hv Bv Bb Br Hok Hcs Hlen Hterm Hfuel.
    destruct (Unmarshal_spec Msg dec grow Hgrow cs t fuel Hok) as (n & v & e & mm & cs' & HU & Hok' & HS);
      try assumption.
    { rewrite Hcs. apply bytes_ok_app. split; [apply frame_bytes|]; assumption. }
    rewrite Hcs in HS.
    rewrite (spec_Unmarshal_frame_anyver Msg dec EEOF ver (enc m) rest t m) in HS; try assumption.
    - inversion HS; subst. exists cs'. rewrite HU. auto.
    - rewrite Hcs, zlen_app, zlen_frame in Hlen by assumption. pose proof (zlen_nonneg rest). lia.
  Qed.

  (** C07: every cut point of a frame, every chunking of the prefix *)
  Theorem Unmarshal_cut m ver k cs t fuel :
    zlen ver <= 16 -> no_trailing_nul ver = true ->
    bytes_ok ver -> bytes_ok (enc m) -> zlen (enc m) < 2 ^ 63 - 32 ->
    0 <= k < 32 + zlen (enc m) ->
    chunks_ok cs -> concat cs = firstn (Z.to_nat k) (frame ver (enc m)) ->
    (length cs + length (concat cs) + 2 <= fuel)%nat ->
    Unmarshal dec cread grow fuel (cs, t)
      = Some (k, (if k <? 32 then [] else ver),
              Some (if k <? 32 then end_err t k EEOF else end_err t (k - 32) EEOF), None, ([], t)).
  Proof.
    intros Hv Hnul Bv Bb Hlen Hk Hok Hcs Hfuel.
    assert (Hzl : zlen (concat cs) = k).
    { rewrite Hcs, zlen_firstn by lia. rewrite zlen_frame by assumption. lia. }
    destruct (Unmarshal_spec Msg dec grow Hgrow cs t fuel Hok) as (n & v & e & mm & cs' & HU & Hok' & HS);
      try assumption.
    { rewrite Hcs. apply bytes_ok_firstn, frame_bytes; assumption. }
    { lia. }
    rewrite Hcs in HS. rewrite spec_Unmarshal_cut in HS; try assumption; try lia.
    inversion HS as [[E1 E2 E3 E4 E5]]. rewrite HU. symmetry in E5.
    apply chunks_ok_concat_nil in E5; [|assumption]. subst cs'. subst. reflexivity.
  Qed.

  (** with a reader that ends in io.EOF: io.EOF exactly for k = 0 and k = 32 *)
  Lemma cut_err_eof t k :
    t_err t = EEOF -> 0 <= k ->
    (if k <? 32 then end_err t k EEOF else end_err t (k - 32) EEOF)
      = if (k =? 0) || (k =? 32) then EEOF else EUnexpectedEOF.
  Proof.
    intros Ht Hk. unfold end_err. rewrite Ht.
    destruct (Z.ltb_spec k 32), (Z.eqb_spec k 0), (Z.eqb_spec k 32), (Z.eqb_spec (k - 32) 0);
      try reflexivity; lia.
  Qed.

  (** ... and with a reader that ends in a read error, that error *)
  Lemma cut_err_injected t k e :
    t_err t = e -> e <> EEOF ->
    (if k <? 32 then end_err t k EEOF else end_err t (k - 32) EEOF) = e.
  Proof.
    intros Ht He. unfold end_err. rewrite Ht.
    destruct (k <? 32); destruct e; try reflexivity; contradiction.
  Qed.

  Theorem Unmarshal_cut_eof m ver k cs t fuel :
    t_err t = EEOF ->
    zlen ver <= 16 -> no_trailing_nul ver = true ->
    bytes_ok ver -> bytes_ok (enc m) -> zlen (enc m) < 2 ^ 63 - 32 ->
    0 <= k < 32 + zlen (enc m) ->
    chunks_ok cs -> concat cs = firstn (Z.to_nat k) (frame ver (enc m)) ->
    (length cs + length (concat cs) + 2 <= fuel)%nat ->
    Unmarshal dec cread grow fuel (cs, t)
      = Some (k, (if k <? 32 then [] else ver),
              Some (if (k =? 0) || (k =? 32) then EEOF else EUnexpectedEOF), None, ([], t)).
  Proof.
    intros Ht Hv Hnul Bv Bb Hlen Hk Hok Hcs Hfuel.
    rewrite (Unmarshal_cut m ver k cs t fuel) by assumption.
    rewrite cut_err_eof by (try assumption; lia). reflexivity.
  Qed.

  (** a read error injected at offset k of the frame *)
  Theorem Unmarshal_cut_readerr m ver k cs t fuel :
    t_err t <> EEOF ->
    zlen ver <= 16 -> no_trailing_nul ver = true ->
    bytes_ok ver -> bytes_ok (enc m) -> zlen (enc m) < 2 ^ 63 - 32 ->
    0 <= k < 32 + zlen (enc m) ->
    chunks_ok cs -> concat cs = firstn (Z.to_nat k) (frame ver (enc m)) ->
    (length cs + length (concat cs) + 2 <= fuel)%nat ->
    Unmarshal dec cread grow fuel (cs, t)
      = Some (k, (if k <? 32 then [] else ver), Some (t_err t), None, ([], t)).
  Proof.
    intros Ht Hv Hnul Bv Bb Hlen Hk Hok Hcs Hfuel.
    rewrite (Unmarshal_cut m ver k cs t fuel) by assumption.
    rewrite (cut_err_injected t k (t_err t)) by auto. reflexivity.
  Qed.

  (** C07: a header whose recorded header size is not 32 *)
  Theorem Unmarshal_hsize cs t fuel :
    chunks_ok cs -> bytes_ok (concat cs) -> zlen (concat cs) < 2 ^ 63 ->
    32 <= zlen (concat cs) -> le_val (firstn 8 (skipn 16 (concat cs))) <> 32 ->
    (length cs + length (concat cs) + 2 <= fuel)%nat ->
    exists cs',
      Unmarshal dec cread grow fuel (cs, t)
        = Some (32, strip_nul (firstn 16 (concat cs)), Some EInvalidHeaderSize, None, (cs', t))
      /\ concat cs' = skipn 32 (concat cs).
  Proof.
    intros Hok Hb Hlen H32 Hh Hfuel.
    destruct (Unmarshal_spec Msg dec grow Hgrow cs t fuel Hok Hb Hlen Hfuel)
      as (n & v & e & mm & cs' & HU & Hok' & HS).
    rewrite spec_Unmarshal_hsize in HS by assumption.
    inversion HS; subst. exists cs'. rewrite HU. auto.
  Qed.

  (** C07 (the repaired defect): a body size that does not fit a non-negative int64 *)
  Theorem Unmarshal_bsize cs t fuel :
    chunks_ok cs -> bytes_ok (concat cs) -> zlen (concat cs) < 2 ^ 63 ->
    32 <= zlen (concat cs) -> le_val (firstn 8 (skipn 16 (concat cs))) = 32 ->
    2 ^ 63 <= le_val (firstn 8 (skipn 24 (concat cs))) ->
    (length cs + length (concat cs) + 2 <= fuel)%nat ->
    exists cs',
      Unmarshal dec cread grow fuel (cs, t)
        = Some (32, strip_nul (firstn 16 (concat cs)), Some EInvalidBodySize, None, (cs', t))
      /\ concat cs' = skipn 32 (concat cs).
  Proof.
    intros Hok Hb Hlen H32 Hh Hbs Hfuel.
    destruct (Unmarshal_spec Msg dec grow Hgrow cs t fuel Hok Hb Hlen Hfuel)
      as (n & v & e & mm & cs' & HU & Hok' & HS).
    rewrite spec_Unmarshal_bsize in HS by assumption.
    inversion HS; subst. exists cs'. rewrite HU. auto.
  Qed.

  (** C07: totality.  For arbitrary bytes, any chunking, any terminal condition (a
      read error injected at any offset is a stream cut there with an error
      terminal): Unmarshal returns, and a success means a complete frame. *)
  Theorem Unmarshal_total cs t fuel :
    chunks_ok cs -> bytes_ok (concat cs) -> zlen (concat cs) < 2 ^ 63 ->
    (length cs + length (concat cs) + 2 <= fuel)%nat ->
    exists n ver err m cs',
      Unmarshal dec cread grow fuel (cs, t) = Some (n, ver, err, m, (cs', t))
      /\ 0 <= n <= zlen (concat cs)
      /\ (err = None ->
          exists body msg, m = Some msg /\ dec body = Some msg /\ n = 32 + zlen body
            /\ starts_with_frame (concat cs) ver body (concat cs'))
      /\ (err <> None -> m = None).
  Proof.
    intros Hok Hb Hlen Hfuel.
    destruct (Unmarshal_spec Msg dec grow Hgrow cs t fuel Hok Hb Hlen Hfuel)
      as (n & v & e & mm & cs' & HU & Hok' & HS).
    exists n, v, e, mm, cs'. split; [exact HU|].
    assert (Hinv : e = None -> exists body msg, mm = Some msg /\ dec body = Some msg /\ n = 32 + zlen body
            /\ starts_with_frame (concat cs) v body (concat cs')).
    { intros ->. eapply spec_Unmarshal_ok_inv; eassumption. }
    split; [|split; [exact Hinv|]].
    - pose proof (spec_Unmarshal_n_range Msg dec EEOF (concat cs) t Hb) as R.
      rewrite HS in R. exact R.
    - intros He. pose proof (spec_Unmarshal_err_nomsg Msg dec EEOF (concat cs) t) as R.
      rewrite HS in R. exact (R He).
  Qed.
End Codec.
