(** Proofs for C12, part 3: the round trips ToArray . Of and Of . ToArray, and OfMany. *)
From Coq Require Import ZArith List Lia Bool Sorted.
From Low Require Import Lib.MachInt Lib.Bits Lib.BitSeq Lib.BitsExtra_bm2 Lib.BitsExtra_bm12
  Model.BitmapUtil Model.BuilderOps Model.BitmapOf Spec.OfSpec Proofs.OfProofs Proofs.OfInspect.
Import ListNotations.
Open Scope Z_scope.

(** * ToArray (Of ps n) *)
Theorem ToArray_Of_sorted ps opt :
  sortedb ps = true -> nonnegb ps = true ->
  exists r, Of ps opt = Some r /\ ToArray r = Some (usort ps).
Proof.
  intros Hs Hnn. destruct (Of_sorted ps opt Hs Hnn) as (r & E & _ & _ & Hones).
  exists r. split; [exact E|]. rewrite ToArray_exact. now f_equal.
Qed.

Theorem ToArray_Of ps opt :
  StronglySorted Z.lt ps -> (forall p, In p ps -> 0 <= p) ->
  exists r, Of ps opt = Some r /\ ToArray r = Some ps.
Proof.
  intros Hs Hnn. destruct (Of_ascending ps opt Hs Hnn) as (r & E & _ & _ & Hones).
  exists r. split; [exact E|]. rewrite ToArray_exact. now f_equal.
Qed.

(** * bitmaps are determined by their length and their 1-positions *)
Lemma wbit_at ws (n : nat) j : 0 <= j < 64 ->
  wbit ws (64 * Z.of_nat n + j) = Z.testbit (nth n ws 0) j.
Proof.
  intros Hj. unfold wbit.
  replace ((64 * Z.of_nat n + j) / 64) with (Z.of_nat n)
    by (apply Z.div_unique with (r := j); lia).
  replace ((64 * Z.of_nat n + j) mod 64) with j
    by (apply Z.mod_unique with (q := Z.of_nat n); lia).
  now rewrite Nat2Z.id.
Qed.

Lemma words_ext a b :
  words_ok a -> words_ok b -> length a = length b ->
  (forall p, 0 <= p -> wbit a p = wbit b p) -> a = b.
Proof.
  intros Ha Hb Hlen H. apply (nth_ext a b 0 0 Hlen). intros n Hn.
  apply word_ext.
  - eapply Forall_forall in Ha; [exact Ha|]. apply nth_In. exact Hn.
  - eapply Forall_forall in Hb; [exact Hb|]. apply nth_In. lia.
  - intros j Hj. rewrite <- !wbit_at by exact Hj. apply H. lia.
Qed.

Lemma ones_flat_bits a b :
  ones (flat a) = ones (flat b) -> forall p, 0 <= p -> wbit a p = wbit b p.
Proof.
  intros H p Hp.
  pose proof (ones_In_wbit a p) as Ia. pose proof (ones_In_wbit b p) as Ib. rewrite H in Ia.
  destruct (wbit a p), (wbit b p); try reflexivity; exfalso.
  - assert (X : 0 <= p /\ false = true) by (apply Ib, Ia; auto). destruct X; discriminate.
  - assert (X : 0 <= p /\ false = true) by (apply Ia, Ib; auto). destruct X; discriminate.
Qed.

Lemma wbit_app_zeros a k q : wbit (a ++ repeat 0 k) q = wbit a q.
Proof.
  unfold wbit. f_equal.
  destruct (Nat.lt_ge_cases (Z.to_nat (q / 64)) (length a)) as [H|H].
  - now rewrite app_nth1.
  - rewrite app_nth2, (nth_overflow a) by lia.
    destruct (Nat.lt_ge_cases (Z.to_nat (q / 64) - length a) k).
    + now apply nth_repeat.
    + apply nth_overflow. rewrite repeat_length. lia.
Qed.

(** * strip0 *)
Lemma strip0_decomp ws : exists k, ws = strip0 ws ++ repeat 0 k.
Proof.
  induction ws as [|w ws [k IH]]; [exists 0%nat; reflexivity|].
  cbn [strip0]. destruct (strip0 ws) as [|x t] eqn:E.
  - destruct (Z.eqb_spec w 0) as [->|Hne].
    + exists (S k). cbn [app repeat]. now rewrite IH at 1.
    + exists k. cbn [app]. now rewrite IH at 1.
  - exists k. rewrite IH at 1. reflexivity.
Qed.

Lemma strip0_last ws : strip0 ws = [] \/ last (strip0 ws) 0 <> 0.
Proof.
  induction ws as [|w ws IH]; [now left|].
  cbn [strip0]. destruct (strip0 ws) as [|x t] eqn:E.
  - destruct (Z.eqb_spec w 0); [now left|right; exact n].
  - right. rewrite last_cons_ne by discriminate. destruct IH as [IH|IH]; [discriminate|exact IH].
Qed.

Lemma strip0_words_ok ws : words_ok ws -> words_ok (strip0 ws).
Proof.
  intros H. destruct (strip0_decomp ws) as [k E]. rewrite E in H.
  unfold words_ok in *. apply Forall_app in H. tauto.
Qed.

Lemma strip0_ones ws : ones (flat (strip0 ws)) = ones (flat ws).
Proof.
  destruct (strip0_decomp ws) as [k E]. apply ones_flat_ext. intros p _.
  rewrite E at 2. now rewrite wbit_app_zeros.
Qed.

Lemma word_nonzero_bit w : 0 < w < 2^64 -> exists j, 0 <= j < 64 /\ Z.testbit w j = true.
Proof.
  intros Hw. exists (Z.log2 w). split.
  - split; [apply Z.log2_nonneg|apply Z.log2_lt_pow2; lia].
  - apply Z.bit_log2. lia.
Qed.

(** the number of words [Of] makes for the 1-positions of a bitmap whose last word is not 0 *)
Lemma stripped_length s :
  words_ok s -> (s = [] \/ last s 0 <> 0) ->
  zlen s = words_for (of_bits (ones (flat s)) None).
Proof.
  intros Hok [->|Hl]; [reflexivity|].
  assert (Hne : s <> []) by (intros ->; apply Hl; reflexivity).
  pose proof (app_removelast_last 0 Hne) as E. set (s' := removelast s) in *. set (w := last s 0) in *.
  assert (Hw : 0 <= w < 2^64).
  { eapply Forall_forall in Hok; [exact Hok|]. rewrite E. apply in_or_app. right. now left. }
  destruct (word_nonzero_bit w ltac:(lia)) as (j & Hj & Hb).
  assert (Hlen : zlen s = Z.of_nat (length s') + 1).
  { unfold zlen. rewrite E at 1. rewrite app_length. cbn [length]. lia. }
  set (p0 := 64 * Z.of_nat (length s') + j).
  assert (Hp0 : In p0 (ones (flat s))).
  { apply ones_In_wbit. split; [subst p0; lia|]. subst p0. rewrite wbit_at by exact Hj.
    rewrite E, app_nth2, Nat.sub_diag by lia. exact Hb. }
  set (l := ones (flat s)) in *.
  assert (Hlne : l <> []) by (intros X; rewrite X in Hp0; destruct Hp0).
  pose proof (ssorted_last_max l 0 (ones_sorted _) p0 Hp0) as Hmax.
  pose proof (last_In l 0 Hlne) as Hin. apply ones_In_wbit in Hin. destruct Hin as [Hl0 Hlb].
  apply wbit_lt in Hlb; [|exact Hl0].
  unfold of_bits. destruct l as [|x l']; [congruence|]. set (L := last (x :: l') 0) in *.
  unfold words_for. rewrite Hlen.
  replace (Z.max 0 (Z.max 0 (L + 1))) with (L + 1) by lia.
  apply Z.div_unique with (r := L + 1 + 63 - 64 * (Z.of_nat (length s') + 1)); subst p0; lia.
Qed.

(** * Of (ToArray ws) *)
Theorem Of_ToArray ws : words_ok ws ->
  exists l, ToArray ws = Some l /\ Of l None = Some (strip0 ws).
Proof.
  intros Hok. exists (ones (flat ws)). split; [apply ToArray_exact|].
  destruct (Of_ascending (ones (flat ws)) None (ones_sorted _)) as (r & E & Hokr & Hlen & Hones).
  { intros p Hp. apply ones_In in Hp. tauto. }
  rewrite E. f_equal. apply words_ext.
  - exact Hokr.
  - now apply strip0_words_ok.
  - rewrite <- strip0_ones in Hlen.
    rewrite <- (stripped_length (strip0 ws) (strip0_words_ok ws Hok) (strip0_last ws)) in Hlen.
    unfold zlen in Hlen. lia.
  - apply ones_flat_bits. rewrite Hones. symmetry. apply strip0_ones.
Qed.

(** ... which is the bitmap itself up to trailing zero words *)
Theorem Of_ToArray_flat ws : words_ok ws ->
  exists l r k, ToArray ws = Some l /\ Of l None = Some r /\
    ws = r ++ repeat 0 k /\ flat ws = flat r ++ repeat false (64 * k) /\ (r = [] \/ last r 0 <> 0).
Proof.
  intros Hok. destruct (Of_ToArray ws Hok) as (l & E1 & E2). destruct (strip0_decomp ws) as [k Ek].
  exists l, (strip0 ws), k. repeat split; auto; [|apply strip0_last].
  rewrite Ek at 1. rewrite flat_app. f_equal.
  clear. induction k as [|k IH]; [reflexivity|].
  cbn [repeat]. rewrite flat_cons, IH.
  replace (64 * S k)%nat with (64 + 64 * k)%nat by lia. rewrite repeat_app. reflexivity.
Qed.

(** * OfMany *)
Lemma total_cons s st : total (s :: st) = s + total st.
Proof. reflexivity. Qed.

Lemma OfMany_loop_spec subs : forall sizes base r,
  length subs = length sizes ->
  OfMany_loop subs sizes base r = Some (r ++ shifted subs sizes base, base + total sizes).
Proof.
  induction subs as [|e subs IH]; intros [|s st] base r Hlen; try discriminate.
  - cbn [OfMany_loop shifted]. rewrite app_nil_r. unfold total. cbn [fold_right]. f_equal. f_equal. lia.
  - cbn [OfMany_loop shifted]. rewrite IH by (cbn [length] in Hlen; lia).
    rewrite <- app_assoc, total_cons. f_equal. f_equal. lia.
Qed.

(** OfMany is literally Of on the positions shifted by the running sum of the preceding sizes, with
    n = the sum of all sizes *)
Theorem OfMany_eq subs sizes :
  length subs = length sizes ->
  OfMany subs sizes = Of (shifted subs sizes 0) (Some (total sizes)).
Proof. intros H. unfold OfMany. rewrite OfMany_loop_spec by exact H. reflexivity. Qed.

Theorem OfMany_sorted subs sizes :
  ofmany_dom subs sizes = true ->
  exists r, OfMany subs sizes = Some r /\ spec_OfMany subs sizes r.
Proof.
  unfold ofmany_dom. rewrite !andb_true_iff. intros [[[Hlen _] Hnn] Hs].
  apply Nat.eqb_eq in Hlen. rewrite OfMany_eq by exact Hlen. unfold spec_OfMany.
  now apply Of_sorted.
Qed.
