(** Proofs for size.Of on values with shared pointers (C20 widening):
    [gsizeof] of a heap value is the structural sum of its tree unfolding — a
    cell reached along two paths is counted twice — and on an ordered (acyclic)
    heap the recursion ends. *)
From Coq Require Import ZArith List Bool Lia PeanoNat.
From Low Require Import Model.Size Model.SizeGraph Spec.SizeSpec Spec.SizeGraphSpec Proofs.SizeProofs.
Import ListNotations.
Open Scope Z_scope.

(** * all_some *)
Lemma all_some_cons {A} (o : option A) t r :
  all_some (o :: t) = Some r -> exists x r', o = Some x /\ all_some t = Some r' /\ r = x :: r'.
Proof.
  cbn [all_some]. destruct o as [x|]; [|discriminate].
  destruct (all_some t) as [r'|]; [|discriminate]. intros [= <-]. eauto.
Qed.

Lemma option_map_Some {A B} (f : A -> B) o y :
  option_map f o = Some y -> exists x, o = Some x /\ y = f x.
Proof. destruct o as [x|]; cbn; [intros [= <-]; eauto|discriminate]. Qed.

(** * The loops *)
Lemma gstring_loop_ok bs : forall acc, gstring_loop bs acc = Some (acc + Z.of_nat (length bs)).
Proof.
  induction bs as [|b bs IH]; intros acc; cbn [gstring_loop].
  - cbn [length]. f_equal. lia.
  - rewrite scalar_case_current, IH. change (width KUint8) with 1.
    cbn [length]. rewrite Nat2Z.inj_succ. f_equal. lia.
Qed.

Section Step.
  Variable h : heap.
  Variable fuel : nat.
  Hypothesis IH : forall v t, unfold h fuel v = Some t -> supported t -> gsizeof h fuel v = Some (spec_size t).

  Lemma gsum_elems_ok : forall l r acc,
    all_some (map (unfold h fuel) l) = Some r -> forallb supportedb r = true ->
    gsum_elems (gsizeof h fuel) l acc = Some (acc + sizes r).
  Proof.
    induction l as [|x l IHl]; intros r acc H S; cbn [map] in H.
    - injection H as <-. cbn [gsum_elems]. unfold sizes. cbn. f_equal. lia.
    - apply all_some_cons in H as [t [r' [Hx [Hr ->]]]].
      cbn [forallb] in S. apply andb_prop in S as [S1 S2].
      cbn [gsum_elems]. rewrite (IH x t Hx S1). rewrite (IHl r' _ Hr S2).
      unfold sizes. cbn [map]. rewrite zsum_cons. f_equal. lia.
  Qed.

  Lemma gsum_pairs_ok : forall l r acc,
    all_some (map (fun kv => pair_some (unfold h fuel (fst kv)) (unfold h fuel (snd kv))) l) = Some r ->
    forallb (fun kv : value * value => let '(k, x) := kv in supportedb k && supportedb x) r = true ->
    gsum_pairs (gsizeof h fuel) l acc = Some (acc + pair_sizes r).
  Proof.
    induction l as [|[k x] l IHl]; intros r acc H S; cbn [map] in H.
    - injection H as <-. cbn [gsum_pairs]. unfold pair_sizes. cbn. f_equal. lia.
    - apply all_some_cons in H as [[tk tx] [r' [Hkx [Hr ->]]]].
      cbn [fst snd] in Hkx. unfold pair_some in Hkx.
      destruct (unfold h fuel k) as [tk'|] eqn:Hk; [|discriminate].
      destruct (unfold h fuel x) as [tx'|] eqn:Hx; [|discriminate].
      injection Hkx as -> ->.
      cbn [forallb] in S. apply andb_prop in S as [S1 S2]. apply andb_prop in S1 as [Sk Sx].
      cbn [gsum_pairs]. rewrite (IH k tk Hk Sk), (IH x tx Hx Sx), (IHl r' _ Hr S2).
      unfold pair_sizes. cbn [map]. rewrite zsum_cons. cbn [fst snd]. f_equal. lia.
  Qed.
End Step.

(** * gsizeof = structural sum of the unfolding *)
Theorem gsizeof_unfold : forall h fuel v t,
  unfold h fuel v = Some t -> supported t -> gsizeof h fuel v = Some (spec_size t).
Proof.
  intros h. induction fuel as [|fuel IH]; intros v t H S; [discriminate|].
  unfold supported in S.
  destruct v as [k|bs|[l|]|l|kvs|[x|]|a|[x|]|fs|]; cbn [unfold] in H; cbn [gsizeof gheader_of].
  - injection H as <-. rewrite scalar_case_current, spec_size_scalar. f_equal. lia.
  - injection H as <-. rewrite gstring_loop_ok, spec_size_string. unfold stringsize. f_equal. lia.
  - apply option_map_Some in H as [r [Hr ->]]. cbn [supportedb] in S.
    rewrite (gsum_elems_ok h fuel IH l r 0 Hr S), spec_size_slice. unfold slicesize. f_equal. lia.
  - injection H as <-. reflexivity.
  - apply option_map_Some in H as [r [Hr ->]]. cbn [supportedb] in S.
    rewrite (gsum_elems_ok h fuel IH l r 0 Hr S), spec_size_array. f_equal. lia.
  - apply option_map_Some in H as [r [Hr ->]]. cbn [supportedb] in S.
    rewrite (gsum_pairs_ok h fuel IH kvs r 0 Hr S), spec_size_map. unfold mapsize. f_equal. lia.
  - apply option_map_Some in H as [r [Hr ->]]. cbn [supportedb] in S.
    rewrite (IH x r Hr S), spec_size_ptr. unfold pointersize. f_equal. lia.
  - injection H as <-. reflexivity.
  - destruct (nth_error h a) as [cell|]; [|discriminate].
    apply option_map_Some in H as [r [Hr ->]]. cbn [supportedb] in S.
    rewrite (IH cell r Hr S), spec_size_ptr. unfold pointersize. f_equal. lia.
  - apply option_map_Some in H as [r [Hr ->]]. cbn [supportedb] in S.
    rewrite (IH x r Hr S), spec_size_iface. unfold interfacesize. f_equal. lia.
  - injection H as <-. reflexivity.
  - apply option_map_Some in H as [r [Hr ->]]. cbn [supportedb] in S.
    rewrite (gsum_elems_ok h fuel IH fs r 0 Hr S), spec_size_struct. f_equal. lia.
  - injection H as <-. discriminate S.
Qed.

(** * More fuel does not change the unfolding *)
Lemma all_some_map_mono {A B} (f g : A -> option B) l r :
  (forall x t, f x = Some t -> g x = Some t) ->
  all_some (map f l) = Some r -> all_some (map g l) = Some r.
Proof.
  intros Hfg. revert r. induction l as [|x l IH]; intros r H; cbn [map] in *; [exact H|].
  apply all_some_cons in H as [t [r' [Hx [Hr ->]]]].
  cbn [all_some]. rewrite (Hfg x t Hx), (IH r' Hr). reflexivity.
Qed.

Lemma unfold_eq h fuel v :
  unfold h (S fuel) v =
  match v with
  | GScalar k => Some (VScalar k)
  | GString bs => Some (VString bs)
  | GSlice None => Some (VSlice None)
  | GSlice (Some l) => option_map (fun r => VSlice (Some r)) (all_some (map (unfold h fuel) l))
  | GArray l => option_map VArray (all_some (map (unfold h fuel) l))
  | GMap kvs => option_map VMap (all_some (map (fun kv => pair_some (unfold h fuel (fst kv)) (unfold h fuel (snd kv))) kvs))
  | GPtr None => Some (VPtr None)
  | GPtr (Some x) => option_map (fun r => VPtr (Some r)) (unfold h fuel x)
  | GRef a => match nth_error h a with
              | Some cell => option_map (fun r => VPtr (Some r)) (unfold h fuel cell)
              | None => None
              end
  | GIface None => Some (VIface None)
  | GIface (Some x) => option_map (fun r => VIface (Some r)) (unfold h fuel x)
  | GStruct fs => option_map VStruct (all_some (map (unfold h fuel) fs))
  | GOther => Some VOther
  end.
Proof. reflexivity. Qed.

Lemma unfold_S h : forall fuel v t, unfold h fuel v = Some t -> unfold h (S fuel) v = Some t.
Proof.
  induction fuel as [|fuel IH]; intros v t H; [discriminate|].
  rewrite unfold_eq in H. rewrite unfold_eq.
  assert (IHp : forall kv r, pair_some (unfold h fuel (fst kv)) (unfold h fuel (snd kv)) = Some r ->
                             pair_some (unfold h (S fuel) (fst kv)) (unfold h (S fuel) (snd kv)) = Some r).
  { intros [k x] [tk tx]. cbn [fst snd]. unfold pair_some.
    destruct (unfold h fuel k) as [a|] eqn:Hk; [|discriminate].
    destruct (unfold h fuel x) as [b|] eqn:Hx; [|discriminate].
    intros [= <- <-]. rewrite (IH k a Hk), (IH x b Hx). reflexivity. }
  destruct v as [k|bs|[l|]|l|kvs|[x|]|a|[x|]|fs|]; try exact H.
  - apply option_map_Some in H as [r [Hr ->]].
    rewrite (all_some_map_mono _ (unfold h (S fuel)) l r IH Hr). reflexivity.
  - apply option_map_Some in H as [r [Hr ->]].
    rewrite (all_some_map_mono _ (unfold h (S fuel)) l r IH Hr). reflexivity.
  - apply option_map_Some in H as [r [Hr ->]].
    rewrite (all_some_map_mono _ (fun kv => pair_some (unfold h (S fuel) (fst kv)) (unfold h (S fuel) (snd kv))) kvs r IHp Hr).
    reflexivity.
  - apply option_map_Some in H as [r [Hr ->]]. rewrite (IH x r Hr). reflexivity.
  - destruct (nth_error h a) as [cell|]; [|discriminate].
    apply option_map_Some in H as [r [Hr ->]]. rewrite (IH cell r Hr). reflexivity.
  - apply option_map_Some in H as [r [Hr ->]]. rewrite (IH x r Hr). reflexivity.
  - apply option_map_Some in H as [r [Hr ->]].
    rewrite (all_some_map_mono _ (unfold h (S fuel)) fs r IH Hr). reflexivity.
Qed.

Lemma unfold_mono h v t : forall f f', (f <= f')%nat -> unfold h f v = Some t -> unfold h f' v = Some t.
Proof.
  intros f f' Hle. induction Hle as [|f' _ IH]; intros H; [exact H|].
  apply unfold_S. apply IH, H.
Qed.

(** * A shared cell is counted once per path *)
Theorem shared_counted_twice : forall h fuel a cell t,
  nth_error h a = Some cell -> unfold h fuel cell = Some t -> supported t ->
  gsizeof h (S (S fuel)) (GStruct [GRef a; GRef a]) = Some (2 * (8 + spec_size t)).
Proof.
  intros h fuel a cell t Ha Hu S.
  rewrite (gsizeof_unfold h (Datatypes.S (Datatypes.S fuel)) _ (VStruct [VPtr (Some t); VPtr (Some t)])).
  - rewrite spec_size_struct. unfold sizes. cbn [map]. rewrite !zsum_cons, spec_size_ptr. cbn [zsum fold_right]. f_equal. lia.
  - rewrite unfold_eq. cbn [map]. rewrite unfold_eq, Ha, Hu. reflexivity.
  - unfold supported in *. cbn [supportedb forallb]. rewrite S. reflexivity.
Qed.

(** * On an ordered heap the unfolding exists (the recursion of sizeof ends) *)
Lemma all_some_exists {A B} (f : A -> option B) l :
  (forall x, In x l -> exists t, f x = Some t) -> exists r, all_some (map f l) = Some r.
Proof.
  induction l as [|x l IH]; intros H; cbn [map all_some]; [eauto|].
  destruct (H x (or_introl eq_refl)) as [t ->].
  destruct IH as [r ->]; [intros y Hy; apply H; right; exact Hy|]. eauto.
Qed.

Lemma gheight_pos v : (1 <= gheight v)%nat.
Proof. destruct v as [| |[?|]| | |[?|]| |[?|]| |]; cbn [gheight]; lia. Qed.

Lemma fold_max_le {A} (g : A -> nat) l x :
  In x l -> (g x <= fold_right (fun y m => Nat.max (g y) m) 0%nat l)%nat.
Proof.
  induction l as [|y l IH]; intros H; [contradiction|]. cbn [fold_right].
  destruct H as [->|H]; [lia|]. specialize (IH H). lia.
Qed.

Lemma ordered_from_nth : forall cells start a c,
  ordered_from start cells = true -> nth_error cells a = Some c -> refs_below (start + a) c = true.
Proof.
  induction cells as [|c0 cells IH]; intros start a c H Hn; [destruct a; discriminate|].
  cbn [ordered_from] in H. apply andb_prop in H as [H0 H1].
  destruct a as [|a]; cbn [nth_error] in Hn.
  - injection Hn as <-. rewrite Nat.add_0_r. exact H0.
  - replace (start + S a)%nat with (S start + a)%nat by lia. apply (IH _ _ _ H1 Hn).
Qed.

Lemma heap_height_nth h a c : nth_error h a = Some c -> (gheight c <= heap_height h)%nat.
Proof.
  intros H. apply nth_error_In in H. unfold heap_height.
  apply (fold_max_le gheight h c H).
Qed.

Lemma unfold_total h D :
  ordered h = true ->
  (forall a c, nth_error h a = Some c -> (gheight c < D)%nat) ->
  forall n, (n <= length h)%nat ->
  forall k x, refs_below n x = true -> (gheight x <= k)%nat ->
  exists t, unfold h (n * D + k) x = Some t.
Proof.
  intros Ho HD. induction n as [n IHn] using lt_wf_ind. intros Hn.
  induction k as [|k IHk]; intros x Hr Hk.
  - pose proof (gheight_pos x). lia.
  - rewrite Nat.add_succ_r, unfold_eq.
    destruct x as [s|bs|[l|]|l|kvs|[y|]|a|[y|]|fs|]; cbn [refs_below gheight] in Hr, Hk; eauto.
    + destruct (all_some_exists (unfold h (n * D + k)) l) as [r ->]; [|cbn; eauto].
      intros y Hy. rewrite forallb_forall in Hr. apply IHk; [apply Hr, Hy|].
      pose proof (fold_max_le gheight l y Hy). lia.
    + destruct (all_some_exists (unfold h (n * D + k)) l) as [r ->]; [|cbn; eauto].
      intros y Hy. rewrite forallb_forall in Hr. apply IHk; [apply Hr, Hy|].
      pose proof (fold_max_le gheight l y Hy). lia.
    + destruct (all_some_exists (fun kv => pair_some (unfold h (n * D + k) (fst kv)) (unfold h (n * D + k) (snd kv))) kvs)
        as [r ->]; [|cbn; eauto].
      intros [ky y] Hy. rewrite forallb_forall in Hr. specialize (Hr _ Hy). cbn [fst snd] in *.
      apply andb_prop in Hr as [R1 R2].
      pose proof (fold_max_le (fun kv : gvalue * gvalue => Nat.max (gheight (fst kv)) (gheight (snd kv))) kvs (ky, y) Hy) as M.
      cbn [fst snd] in M.
      destruct (IHk ky R1) as [t1 ->]; [lia|]. destruct (IHk y R2) as [t2 ->]; [lia|]. cbn. eauto.
    + destruct (IHk y Hr) as [t ->]; [lia|]. cbn. eauto.
    + apply Nat.ltb_lt in Hr.
      destruct (nth_error h a) as [c|] eqn:Ha.
      2:{ apply nth_error_None in Ha. lia. }
      pose proof (ordered_from_nth h 0 a c Ho Ha) as Rc. cbn [Nat.add] in Rc.
      pose proof (HD a c Ha) as Hc.
      destruct (IHn a Hr ltac:(lia) (D - 1)%nat c Rc ltac:(lia)) as [t Ht].
      rewrite (unfold_mono h c t (a * D + (D - 1)) (n * D + k)); [cbn; eauto| |exact Ht].
      assert ((S a) * D <= n * D)%nat by (apply Nat.mul_le_mono_r; lia). lia.
    + destruct (IHk y Hr) as [t ->]; [lia|]. cbn. eauto.
    + destruct (all_some_exists (unfold h (n * D + k)) fs) as [r ->]; [|cbn; eauto].
      intros y Hy. rewrite forallb_forall in Hr. apply IHk; [apply Hr, Hy|].
      pose proof (fold_max_le gheight fs y Hy). lia.
Qed.

(** size.Of of a value of an ordered heap: the recursion ends within [enough_fuel] nested calls
    and returns the structural sum of the tree unfolding *)
Theorem gsizeof_ordered : forall h v,
  ordered h = true -> refs_below (length h) v = true ->
  exists t, unfold h (enough_fuel h v) v = Some t /\
            (supported t -> gsizeof h (enough_fuel h v) v = Some (spec_size t)).
Proof.
  intros h v Ho Hr.
  set (D := S (Nat.max (heap_height h) (gheight v))).
  assert (HD : forall a c, nth_error h a = Some c -> (gheight c < D)%nat).
  { intros a c Ha. pose proof (heap_height_nth h a c Ha). unfold D. lia. }
  destruct (unfold_total h D Ho HD (length h) (le_n _) (gheight v) v Hr (le_n _)) as [t Ht].
  assert (Ht' : unfold h (enough_fuel h v) v = Some t).
  { apply (unfold_mono h v t (length h * D + gheight v)); [|exact Ht].
    unfold enough_fuel. fold D. unfold D. lia. }
  exists t. split; [exact Ht'|]. intros S. apply gsizeof_unfold; assumption.
Qed.

(** * A cyclic value: the recursion never ends (every fuel is exhausted) *)
Theorem self_loop_diverges : forall fuel, gsizeof [GStruct [GRef 0]] fuel (GRef 0) = None.
Proof.
  assert (H : forall fuel, gsizeof [GStruct [GRef 0]] fuel (GRef 0) = None /\
                           gsizeof [GStruct [GRef 0]] fuel (GStruct [GRef 0]) = None).
  { induction fuel as [|fuel [IH1 IH2]]; [split; reflexivity|]. split.
    - cbn [gsizeof nth_error]. rewrite IH2. reflexivity.
    - cbn [gsizeof gsum_elems]. rewrite IH1. reflexivity. }
  intros fuel. apply H.
Qed.

(** * An interior pointer: a pointer to the first element of an array inside the pointee the
    traversal is in has the address of that pointee, and still costs 8 + its own pointee *)
Theorem interior_pointer_counted : forall x l,
  supported x -> Forall supported l ->
  sizeof (VPtr (Some (VStruct [VArray (x :: l); VPtr (Some x)])))
  = Some ((8 + sizes (x :: l)) + (8 + spec_size x)).
Proof.
  intros x l Sx Sl. rewrite sizeof_structural.
  - rewrite spec_size_ptr, spec_size_struct. unfold sizes at 1. cbn [map].
    rewrite !zsum_cons, spec_size_array, spec_size_ptr. cbn [zsum fold_right]. f_equal. lia.
  - unfold supported in *. cbn [supportedb forallb]. rewrite Sx.
    replace (forallb supportedb l) with true; [reflexivity|].
    symmetry. apply forallb_forall. rewrite Forall_forall in Sl. exact Sl.
Qed.
