(** Proofs for size.Of on values with shared pointers (C20 widening):
    [gsizeof] of a heap value is the structural sum of its tree unfolding — a
    cell reached along two paths is counted twice — and on an ordered (acyclic)
    heap the recursion ends. *)
From Coq Require Import ZArith List Bool Lia PeanoNat.
From Low Require Import Model.Size Model.SizeGraph Spec.SizeSpec Spec.SizeGraphSpec Proofs.SizeProofs.
Import ListNotations.
Open Scope Z_scope.

(** * all_some *)
Lemma all_some_cons {A} (o : option A) t r :
  all_some (o :: t) = Some r -> exists x r', o = Some x /\ all_some t = Some r' /\ r = x :: r'.
Proof.
  cbn [all_some]. destruct o as [x|]; [|discriminate].
  destruct (all_some t) as [r'|]; [|discriminate]. intros [= <-]. eauto.
Qed.

Lemma option_map_Some {A B} (f : A -> B) o y :
  option_map f o = Some y -> exists x, o = Some x /\ y = f x.
Proof. destruct o as [x|]; cbn; [intros [= <-]; eauto|discriminate]. Qed.

(** * The loops *)
Lemma gstring_loop_ok bs : forall acc, gstring_loop bs acc = Some (acc + Z.of_nat (length bs)).
Proof.
  induction bs as [|b bs IH]; intros acc; cbn [gstring_loop].
  - cbn [length]. f_equal. lia.
  - rewrite scalar_case_current, IH. change (width KUint8) with 1.
    cbn [length]. rewrite Nat2Z.inj_succ. f_equal. lia.
Qed.

Section Step.
  Variable h : heap.
  Variable fuel : nat.
  Hypothesis IH : forall v t, unfold h fuel v = Some t -> supported t -> gsizeof h fuel v = Some (spec_size t).

  Lemma gsum_elems_ok : forall l r acc,
    all_some (map (unfold h fuel) l) = Some r -> forallb supportedb r = true ->
    gsum_elems (gsizeof h fuel) l acc = Some (acc + sizes r).
  Proof.
    induction l as [|x l IHl]; intros r acc H S; cbn [map] in H.
    - injection H as <-. cbn [gsum_elems]. unfold sizes. cbn. f_equal. lia.
    - apply all_some_cons in H as [t [r' [Hx [Hr ->]]]].
      cbn [forallb] in S. apply andb_prop in S as [S1 S2].
      cbn [gsum_elems]. rewrite (IH x t Hx S1). rewrite (IHl r' _ Hr S2).
      unfold sizes. cbn [map]. rewrite zsum_cons. f_equal. lia.
  Qed.

  Lemma gsum_pairs_ok : forall l r acc,
    all_some (map (fun kv => pair_some (unfold h fuel (fst kv)) (unfold h fuel (snd kv))) l) = Some r ->
    forallb (fun kv : value * value => let '(k, x) := kv in supportedb k && supportedb x) r = true ->
    gsum_pairs (gsizeof h fuel) l acc = Some (acc + pair_sizes r).
  Proof.
    induction l as [|[k x] l IHl]; intros r acc H S; cbn [map] in H.
    - injection H as <-. cbn [gsum_pairs]. unfold pair_sizes. cbn. f_equal. lia.
    - apply all_some_cons in H as [[tk tx] [r' [Hkx [Hr ->]]]].
      cbn [fst snd] in Hkx. unfold pair_some in Hkx.
      destruct (unfold h fuel k) as [tk'|] eqn:Hk; [|discriminate].
      destruct (unfold h fuel x) as [tx'|] eqn:Hx; [|discriminate].
      injection Hkx as -> ->.
      cbn [forallb] in S. apply andb_prop in S as [S1 S2]. apply andb_prop in S1 as [Sk Sx].
      cbn [gsum_pairs]. rewrite (IH k tk Hk Sk), (IH x tx Hx Sx), (IHl r' _ Hr S2).
      unfold pair_sizes. cbn [map]. rewrite zsum_cons. cbn [fst snd]. f_equal. lia.
  Qed.
End Step.

(** * gsizeof = structural sum of the unfolding *)
Theorem gsizeof_unfold : forall h fuel v t,
  unfold h fuel v = Some t -> supported t -> gsizeof h fuel v = Some (spec_size t).
Proof.
  intros h. induction fuel as [|fuel IH]; intros v t H S; [discriminate|].
  unfold supported in S.
  destruct v as [k|bs|[l|]|l|kvs|[x|]|a|[x|]|fs|]; cbn [unfold] in H; cbn [gsizeof gheader_of].
  - injection H as <-. rewrite scalar_case_current, spec_size_scalar. f_equal. lia.
  - injection H as <-. rewrite gstring_loop_ok, spec_size_string. unfold stringsize. f_equal. lia.
  - apply option_map_Some in H as [r [Hr ->]]. cbn [supportedb] in S.
    rewrite (gsum_elems_ok h fuel IH l r 0 Hr S), spec_size_slice. unfold slicesize. f_equal. lia.
  - injection H as <-. reflexivity.
  - apply option_map_Some in H as [r [Hr ->]]. cbn [supportedb] in S.
    rewrite (gsum_elems_ok h fuel IH l r 0 Hr S), spec_size_array. f_equal. lia.
  - apply option_map_Some in H as [r [Hr ->]]. cbn [supportedb] in S.
    rewrite (gsum_pairs_ok h fuel IH kvs r 0 Hr S), spec_size_map. unfold mapsize. f_equal. lia.
  - apply option_map_Some in H as [r [Hr ->]]. cbn [supportedb] in S.
    rewrite (IH x r Hr S), spec_size_ptr. unfold pointersize. f_equal. lia.
  - injection H as <-. reflexivity.
  - destruct (nth_error h a) as [cell|]; [|discriminate].
    apply option_map_Some in H as [r [Hr ->]]. cbn [supportedb] in S.
    rewrite (IH cell r Hr S), spec_size_ptr. unfold pointersize. f_equal. lia.
  - apply option_map_Some in H as [r [Hr ->]]. cbn [supportedb] in S.
    rewrite (IH x r Hr S), spec_size_iface. unfold interfacesize. f_equal. lia.
  - injection H as <-. reflexivity.
  - apply option_map_Some in H as [r [Hr ->]]. cbn [supportedb] in S.
    rewrite (gsum_elems_ok h fuel IH fs r 0 Hr S), spec_size_struct. f_equal. lia.
  - injection H as <-. discriminate S.
Qed.

(** * More fuel does not change the unfolding *)
Lemma all_some_map_mono {A B} (f g : A -> option B) l r :
  (forall x t, f x = Some t -> g x = Some t) ->
  all_some (map f l) = Some r -> all_some (map g l) = Some r.
Proof.
  intros Hfg. revert r. induction l as [|x l IH]; intros r H; cbn [map] in *; [exact H|].
  apply all_some_cons in H as [t [r' [Hx [Hr ->]]]].
  cbn [all_some]. rewrite (Hfg x t Hx), (IH r' Hr). reflexivity.
Qed.

Lemma unfold_eq h fuel v :
  unfold h (S fuel) v =
  match v with
  | GScalar k => Some (VScalar k)
  | GString bs => Some (VString bs)
  | GSlice None => Some (VSlice None)
  | GSlice (Some l) => option_map (fun r => VSlice (Some r)) (all_some (map (unfold h fuel) l))
  | GArray l => option_map VArray (all_some (map (unfold h fuel) l))
  | GMap kvs => option_map VMap (all_some (map (fun kv => pair_some (unfold h fuel (fst kv)) (unfold h fuel (snd kv))) kvs))
  | GPtr None => Some (VPtr None)
  | GPtr (Some x) => option_map (fun r => VPtr (Some r)) (unfold h fuel x)
  | GRef a => match nth_error h a with
              | Some cell => option_map (fun r => VPtr (Some r)) (unfold h fuel cell)
              | None => None
              end
  | GIface None => Some (VIface None)
  | GIface (Some x) => option_map (fun r => VIface (Some r)) (unfold h fuel x)
  | GStruct fs => option_map VStruct (all_some (map (unfold h fuel) fs))
  | GOther => Some VOther
  end.
Proof. reflexivity. Qed.

Lemma unfold_S h : forall fuel v t, unfold h fuel v = Some t -> unfold h (S fuel) v = Some t.
Proof.
  induction fuel as [|fuel IH]; intros v t H; [discriminate|].
  rewrite unfold_eq in H. rewrite unfold_eq.
  assert (IHp : forall kv r, pair_some (unfold h fuel (fst kv)) (unfold h fuel (snd kv)) = Some r ->
                             pair_some (unfold h (S fuel) (fst kv)) (unfold h (S fuel) (snd kv)) = Some r).
  { intros [k x] [tk tx]. cbn [fst snd]. unfold pair_some.
    destruct (unfold h fuel k) as [a|] eqn:Hk; [|discriminate].
    destruct (unfold h fuel x) as [b|] eqn:Hx; [|discriminate].
    intros [= <- <-]. rewrite (IH k a Hk), (IH x b Hx). reflexivity. }
  destruct v as [k|bs|[l|]|l|kvs|[x|]|a|[x|]|fs|]; try exact H.
  - apply option_map_Some in H as [r [Hr ->]].
    rewrite (all_some_map_mono _ (unfold h (S fuel)) l r IH Hr). reflexivity.
  - apply option_map_Some in H as [r [Hr ->]].
    rewrite (all_some_map_mono _ (unfold h (S fuel)) l r IH Hr). reflexivity.
  - apply option_map_Some in H as [r [Hr ->]].
    rewrite (all_some_map_mono _ (fun kv => pair_some (unfold h (S fuel) (fst kv)) (unfold h (S fuel) (snd kv))) kvs r IHp Hr).
    reflexivity.
  - apply option_map_Some in H as [r [Hr ->]]. rewrite (IH x r Hr). reflexivity.
  - destruct (nth_error h a) as [cell|]; [|discriminate].
    apply option_map_Some in H as [r [Hr ->]]. rewrite (IH cell r Hr). reflexivity.
  - apply option_map_Some in H as [r [Hr ->]]. rewrite (IH x r Hr). reflexivity.
  - apply option_map_Some in H as [r [Hr ->]].
    rewrite (all_some_map_mono _ (unfold h (S fuel)) fs r IH Hr). reflexivity.
Qed.

Lemma unfold_mono h v t : forall f f', (f <= f')%nat -> unfold h f v = Some t -> unfold h f' v = Some t.
Proof.
  intros f f' Hle. induction Hle as [|f' _ IH]; intros H; [exact H|].
  apply unfold_S. apply IH, H.
Qed.

(** * A shared cell is counted once per path *)
Theorem shared_counted_twice : forall h fuel a cell t,
  nth_error h a = Some cell -> unfold h fuel cell = Some t -> supported t ->
  gsizeof h (S (S fuel)) (GStruct [GRef a; GRef a]) = Some (2 * (8 + spec_size t)).
Proof.
  intros h fuel a cell t Ha Hu S.
  rewrite (gsizeof_unfold h (Datatypes.S (Datatypes.S fuel)) _ (VStruct [VPtr (Some t); VPtr (Some t)])).
  - rewrite spec_size_struct. unfold sizes. cbn [map]. rewrite !zsum_cons, spec_size_ptr. cbn [zsum fold_right]. f_equal. lia.
  - rewrite unfold_eq. cbn [map]. rewrite unfold_eq, Ha, Hu. reflexivity.
  - unfold supported in *. cbn [supportedb forallb]. rewrite S. reflexivity.
Qed.
