(** Lemmas for the equality proofs Proofs/TransEq_*.v between the definitions generated from the Go
    source (coq/gen/Trans.v, harness/trans) and the hand-written model: removal of wraps, identities
    between Go's shifts and Z.shiftr, ranges of popcount / bitlen / land, table reads. *)
From Coq Require Import ZArith List Lia Bool.
From Low Require Import Lib.MachInt Lib.Bits Lib.BitSeq Lib.TransLib.
Import ListNotations.
Open Scope Z_scope.

(** * ranges *)
Lemma popcount_range (n : nat) z : 0 <= z < 2 ^ Z.of_nat n -> 0 <= popcount z <= Z.of_nat n.
Proof.
  intros H. split; [apply popcount_nonneg|].
  rewrite (popcount_bits n z H).
  pose proof (count_true_le_length (bits n z)). rewrite bits_length in H0. exact H0.
Qed.

Lemma popcount_u32_range z : 0 <= popcount (u32 z) <= 32.
Proof. apply (popcount_range 32). apply u32_range. Qed.

Lemma popcount_u64_range z : 0 <= z < 2^64 -> 0 <= popcount z <= 64.
Proof. intros H. apply (popcount_range 64). exact H. Qed.

Lemma popcount_any_nonneg z : 0 <= popcount z.
Proof. apply popcount_nonneg. Qed.

Lemma bitlen_u32_range z : 0 <= bitlen (u32 z) <= 32.
Proof.
  split; [apply bitlen_nonneg|]. apply bitlen_le; [lia|]. apply u32_range.
Qed.

Lemma land_ones_range i (k : Z) : 0 <= k -> 0 <= Z.land i (Z.ones k) < 2 ^ k.
Proof. intros Hk. rewrite Z.land_ones by lia. apply Z.mod_pos_bound. lia. Qed.

Lemma land_63_range i : 0 <= Z.land i 63 < 64.
Proof. change 63 with (Z.ones 6). change 64 with (2 ^ 6). apply land_ones_range. lia. Qed.

Lemma land_1_range i : 0 <= Z.land i 1 < 2.
Proof. pose proof (land_ones_range i 1 ltac:(lia)) as H. change (Z.ones 1) with 1 in H. change (2 ^ 1) with 2 in H. exact H. Qed.

(** * wraps *)
Lemma i32_eq_mod x : exists k, i32 x = x + k * 2 ^ 32.
Proof.
  exists (- ((x + 2 ^ 31) / 2 ^ 32)). unfold i32.
  pose proof (Z.div_mod (x + 2 ^ 31) (2 ^ 32) ltac:(lia)). lia.
Qed.

Lemma i64_eq_mod x : exists k, i64 x = x + k * 2 ^ 64.
Proof.
  exists (- ((x + 2 ^ 63) / 2 ^ 64)). unfold i64.
  pose proof (Z.div_mod (x + 2 ^ 63) (2 ^ 64) ltac:(lia)). lia.
Qed.

Lemma i32_add_l x y : i32 (i32 x + y) = i32 (x + y).
Proof.
  apply i32_congr. destruct (i32_eq_mod x) as [k ->].
  replace (x + k * 2 ^ 32 + y - (x + y)) with (k * 2 ^ 32) by lia. apply Z_mod_mult.
Qed.
Lemma i32_add_r x y : i32 (x + i32 y) = i32 (x + y).
Proof. rewrite Z.add_comm, i32_add_l, Z.add_comm. reflexivity. Qed.
Lemma i32_sub_l x y : i32 (i32 x - y) = i32 (x - y).
Proof. unfold Z.sub. apply i32_add_l. Qed.
Lemma i32_sub_r x y : i32 (x - i32 y) = i32 (x - y).
Proof.
  apply i32_congr. destruct (i32_eq_mod y) as [k ->].
  replace (x - (y + k * 2 ^ 32) - (x - y)) with ((- k) * 2 ^ 32) by lia. apply Z_mod_mult.
Qed.
Lemma i32_mul_r x y : i32 (x * i32 y) = i32 (x * y).
Proof.
  apply i32_congr. destruct (i32_eq_mod y) as [k ->].
  replace (x * (y + k * 2 ^ 32) - x * y) with ((x * k) * 2 ^ 32) by lia. apply Z_mod_mult.
Qed.
Lemma i32_idem x : i32 (i32 x) = i32 x.
Proof. apply i32_id. apply i32_range. Qed.

Lemma land_i32_1 x : Z.land (i32 x) 1 = Z.land x 1.
Proof.
  change 1 with (Z.ones 1). rewrite !Z.land_ones by lia.
  destruct (i32_eq_mod x) as [k ->].
  replace (x + k * 2 ^ 32) with (x + (k * 2 ^ 31) * 2 ^ 1) by lia.
  apply Z_mod_plus_full.
Qed.

(** * shifts *)
Lemma sar32_shiftr x n : 0 <= n < 32 -> sar32 x n = Z.shiftr x n.
Proof.
  intros H. unfold sar32. destruct (Z.ltb_spec n 32); [|lia].
  rewrite Z.shiftr_div_pow2 by lia. reflexivity.
Qed.

Lemma shr64_shiftr x n : 0 <= n < 64 -> shr64 x n = Z.shiftr x n.
Proof.
  intros H. unfold shr64. destruct (Z.ltb_spec n 64); [|lia].
  rewrite Z.shiftr_div_pow2 by lia. reflexivity.
Qed.

(** a shift count computed in int32 and converted to uint: for a negative difference Go shifts by a
    huge count (result 0); the model's [shl64 x (h - l)] is 0 there as well ([2^negative = 0] in Z) *)
Lemma shl64_count_i32 x d : shl64 x (u64 (i32 d)) = shl64 x (i32 d).
Proof.
  pose proof (i32_range d) as R. unfold shl64.
  destruct (Z_le_gt_dec 0 (i32 d)) as [Hp|Hn].
  - rewrite u64_id by lia. reflexivity.
  - assert (Hu : u64 (i32 d) = i32 d + 2 ^ 64).
    { unfold u64. rewrite <- (Z_mod_plus_full (i32 d) 1 (2 ^ 64)). apply Z.mod_small. lia. }
    rewrite Hu.
    destruct (Z.ltb_spec (i32 d + 2 ^ 64) 64); [lia|].
    destruct (Z.ltb_spec (i32 d) 64); [|lia].
    rewrite Z.pow_neg_r by lia. rewrite Z.mul_0_r. reflexivity.
Qed.

(** * tables and slices *)
Lemma tblZ_in size f i : 0 <= i < size -> tblZ size f i = Some (f i).
Proof.
  intros H. unfold tblZ.
  destruct (Z.leb_spec 0 i); [|lia]. destruct (Z.ltb_spec i size); [|lia]. reflexivity.
Qed.

Lemma tblZ_out size f i : ~ (0 <= i < size) -> tblZ size f i = None.
Proof.
  intros H. unfold tblZ.
  destruct (Z.leb_spec 0 i); destruct (Z.ltb_spec i size); try reflexivity; lia.
Qed.

Lemma nthZ_Some_range {A} (l : list A) i x : nthZ l i = Some x -> 0 <= i < zlen l.
Proof.
  unfold nthZ, zlen. destruct (Z.ltb_spec i 0); [discriminate|]. intros E.
  assert (nth_error l (Z.to_nat i) <> None) by congruence.
  apply nth_error_Some in H0. lia.
Qed.

Lemma nthZ_None_ge {A} (l : list A) i : zlen l <= i -> nthZ l i = None.
Proof.
  intros H. unfold nthZ, zlen in *. destruct (Z.ltb_spec i 0); [reflexivity|].
  apply nth_error_None. lia.
Qed.

Lemma nthZ_None_neg {A} (l : list A) i : i < 0 -> nthZ l i = None.
Proof. intros H. unfold nthZ. destruct (Z.ltb_spec i 0); [reflexivity|lia]. Qed.

Lemma nthZ_Forall {A} (P : A -> Prop) (l : list A) i x : Forall P l -> nthZ l i = Some x -> P x.
Proof.
  unfold nthZ. destruct (Z.ltb_spec i 0); [discriminate|]. intros F E.
  rewrite Forall_forall in F. apply F. eapply nth_error_In. exact E.
Qed.

Lemma u64_add_r x y : u64 (x + u64 y) = u64 (x + y).
Proof. unfold u64. apply Zplus_mod_idemp_r. Qed.
Lemma u64_add_l x y : u64 (u64 x + y) = u64 (x + y).
Proof. unfold u64. apply Zplus_mod_idemp_l. Qed.
Lemma i64_add_l x y : i64 (i64 x + y) = i64 (x + y).
Proof.
  unfold i64 at 1 3. f_equal. destruct (i64_eq_mod x) as [k ->].
  replace (x + k * 2 ^ 64 + y + 2 ^ 63) with (x + y + 2 ^ 63 + k * 2 ^ 64) by lia.
  apply Z_mod_plus_full.
Qed.

Lemma i32_i64 x : i32 (i64 x) = i32 x.
Proof.
  apply i32_congr. destruct (i64_eq_mod x) as [k ->].
  replace (x + k * 2 ^ 64 - x) with ((k * 2 ^ 32) * 2 ^ 32) by lia. apply Z_mod_mult.
Qed.

(** a right-shift count computed in int32 and converted to uint: a negative count shifts everything out *)
Lemma shr64_count_i32 x d : shr64 x (u64 (i32 d)) = if i32 d <? 0 then 0 else shr64 x (i32 d).
Proof.
  pose proof (i32_range d) as R.
  destruct (Z.ltb_spec (i32 d) 0) as [Hn|Hp].
  - assert (Hu : u64 (i32 d) = i32 d + 2 ^ 64).
    { unfold u64. rewrite <- (Z_mod_plus_full (i32 d) 1 (2 ^ 64)). apply Z.mod_small. lia. }
    rewrite Hu. unfold shr64. destruct (Z.ltb_spec (i32 d + 2 ^ 64) 64); [lia|reflexivity].
  - rewrite u64_id by lia. reflexivity.
Qed.

Lemma sar64_shiftr x n : 0 <= n < 64 -> sar64 x n = Z.shiftr x n.
Proof.
  intros H. unfold sar64. destruct (Z.ltb_spec n 64); [|lia].
  rewrite Z.shiftr_div_pow2 by lia. reflexivity.
Qed.

Lemma land_7_range i : 0 <= Z.land i 7 < 8.
Proof. change 7 with (Z.ones 3). change 8 with (2 ^ 3). apply land_ones_range. lia. Qed.

Lemma tz64_range z : 0 <= z < 2 ^ 64 -> 0 <= tz64 z <= 64.
Proof.
  intros H. unfold tz64. destruct (Z.eq_dec z 0) as [->|Hne]; [cbn; lia|].
  pose proof (tz_lt 64 z 64 ltac:(lia) ltac:(lia)) as Hlt. destruct (tz_spec 64 z) as [Hnn _]; lia.
Qed.

Lemma shr64_range x n : 0 <= x < 2 ^ 64 -> 0 <= n -> 0 <= shr64 x n < 2 ^ 64.
Proof.
  intros Hx Hn. unfold shr64. destruct (Z.ltb_spec n 64); [|lia].
  assert (0 < 2 ^ n) by (apply Z.pow_pos_nonneg; lia).
  split; [apply Z.div_pos; lia|].
  apply Z.div_lt_upper_bound; [lia|]. nia.
Qed.

Lemma land_u_range a b n : 0 <= n -> 0 <= a < 2 ^ n -> 0 <= Z.land a b < 2 ^ n.
Proof.
  intros Hn Ha.
  assert (E : a = Z.land a (Z.ones n)) by (rewrite Z.land_ones, Z.mod_small; lia).
  rewrite E. rewrite <- Z.land_assoc, (Z.land_comm (Z.ones n)), Z.land_assoc, Z.land_ones by lia.
  apply Z.mod_pos_bound. apply Z.pow_pos_nonneg; lia.
Qed.

(** [x & ^63] on an int32 ([Z.land x (-64)]) is x rounded down to a multiple of 64 *)
Lemma land_m64 x : Z.land x (-64) = 64 * (x / 64).
Proof.
  change (-64) with (Z.lnot (Z.ones 6)). rewrite <- Z.ldiff_land, Z.ldiff_ones_r by lia.
  rewrite Z.shiftl_mul_pow2, Z.shiftr_div_pow2 by lia. change (2 ^ 6) with 64. lia.
Qed.

Lemma land_m64_range x : x - 63 <= Z.land x (-64) <= x.
Proof. rewrite land_m64. pose proof (Z.div_mod x 64 ltac:(lia)). pose proof (Z.mod_pos_bound x 64 ltac:(lia)). lia. Qed.

Lemma land_m64_lb x : - 2 ^ 31 <= x -> - 2 ^ 31 <= Z.land x (-64).
Proof.
  intros H. rewrite land_m64.
  assert (- 2 ^ 25 <= x / 64) by (apply Z.div_le_lower_bound; lia). lia.
Qed.

Lemma lz64_range z : 0 <= z < 2 ^ 64 -> 0 <= lz64 z <= 64.
Proof. intros H. unfold lz64. pose proof (bitlen_nonneg z). pose proof (bitlen_le z 64 ltac:(lia) H). lia. Qed.

(** a bitmap: every word in the range of uint64 *)
Definition words (bm : list Z) : Prop := Forall (fun w => 0 <= w < 2 ^ 64) bm.

Lemma word_of bm k w : words bm -> nthZ bm k = Some w -> 0 <= w < 2 ^ 64.
Proof. intros Hb E. exact (nthZ_Forall _ _ _ _ Hb E). Qed.
