(** Proofs for C12, part 4: [bitmap.Builder] as a state machine.  After any history of
    Extend/Set calls the builder holds exactly the positions of the abstract machine
    [Spec.OfSpec.astep] and its Offset; the invariant is carried through every call. *)
From Coq Require Import ZArith List Lia Bool Sorted.
From Low Require Import Lib.MachInt Lib.Bits Lib.BitSeq Lib.BitsExtra_bm2 Lib.BitsExtra_bm12
  Model.BitmapUtil Model.BuilderOps Model.BitmapOf Spec.OfSpec Proofs.OfProofs Proofs.OfInspect
  Proofs.OfRoundTrip.
Import ListNotations.
Open Scope Z_scope.

(** * growing Words *)
Lemma words_for_gt e n : 64 * n < e -> n < words_for e.
Proof. intros H. unfold words_for. Z.div_mod_to_equations. lia. Qed.

Lemma words_for_le e n : e <= 64 * n -> words_for e <= n.
Proof. intros H. unfold words_for. Z.div_mod_to_equations. lia. Qed.

Lemma zlen_app {A} (a b : list A) : zlen (a ++ b) = zlen a + zlen b.
Proof. unfold zlen. rewrite app_length. lia. Qed.

Lemma zlen_repeat {A} (x : A) n : zlen (repeat x n) = Z.of_nat n.
Proof. unfold zlen. now rewrite repeat_length. Qed.

Lemma app_repeat_S (ws : list Z) k : (ws ++ [0]) ++ repeat 0 k = ws ++ repeat 0 (S k).
Proof. rewrite <- app_assoc. reflexivity. Qed.

Lemma grow_to_spec e : forall fuel ws,
  (Z.to_nat (words_for e - zlen ws) <= fuel)%nat ->
  exists k, grow_to fuel ws e = Some (ws ++ repeat 0 k) /\
            zlen ws + Z.of_nat k = Z.max (zlen ws) (words_for e) /\ e <= 64 * (zlen ws + Z.of_nat k).
Proof.
  induction fuel as [|fuel IH]; intros ws Hf; cbn [grow_to]; rewrite shiftl6.
  - destruct (Z.gtb_spec e (64 * zlen ws)) as [Hgt|Hle].
    + pose proof (words_for_gt e (zlen ws) ltac:(lia)). lia.
    + exists 0%nat. rewrite app_nil_r. pose proof (words_for_le e (zlen ws) Hle). repeat split; lia.
  - destruct (Z.gtb_spec e (64 * zlen ws)) as [Hgt|Hle].
    + pose proof (words_for_gt e (zlen ws) ltac:(lia)).
      destruct (IH (ws ++ [0])) as (k & E & Hlen & Hcov).
      { rewrite zlen_app. change (zlen [0]) with 1. lia. }
      exists (S k). rewrite E, app_repeat_S. rewrite zlen_app in Hlen, Hcov. change (zlen [0]) with 1 in *.
      repeat split; lia.
    + exists 0%nat. rewrite app_nil_r. pose proof (words_for_le e (zlen ws) Hle). repeat split; lia.
Qed.

Lemma grow_past_spec k : forall fuel ws,
  (Z.to_nat (k + 1 - zlen ws) <= fuel)%nat ->
  exists n, grow_past fuel ws k = Some (ws ++ repeat 0 n) /\
            zlen ws + Z.of_nat n = Z.max (zlen ws) (k + 1).
Proof.
  induction fuel as [|fuel IH]; intros ws Hf; cbn [grow_past].
  - destruct (Z.geb_spec k (zlen ws)) as [Hge|Hlt]; [lia|].
    exists 0%nat. rewrite app_nil_r. split; [reflexivity|lia].
  - destruct (Z.geb_spec k (zlen ws)) as [Hge|Hlt].
    + destruct (IH (ws ++ [0])) as (n & E & Hlen).
      { rewrite zlen_app. change (zlen [0]) with 1. lia. }
      exists (S n). rewrite E, app_repeat_S. rewrite zlen_app in Hlen. change (zlen [0]) with 1 in *.
      split; [reflexivity|lia].
    + exists 0%nat. rewrite app_nil_r. split; [reflexivity|lia].
Qed.

Lemma words_ok_app_zeros ws k : words_ok ws -> words_ok (ws ++ repeat 0 k).
Proof. intros H. apply Forall_app. split; [exact H|apply words_ok_repeat0]. Qed.

(** * the loop of Extend *)
Lemma Extend_loop_spec off ps : forall ws,
  words_ok ws -> (forall p, In p ps -> 0 <= off + p < 64 * zlen ws) ->
  exists ws', Extend_loop ps off ws = Some ws' /\ words_ok ws' /\ length ws' = length ws /\
    forall q, 0 <= q -> (wbit ws' q = true <-> wbit ws q = true \/ In q (map (Z.add off) ps)).
Proof.
  induction ps as [|i ps IH]; intros ws Hok Hin.
  - exists ws. cbn [Extend_loop map In]. repeat split; auto; tauto.
  - cbn [Extend_loop]. cbv zeta.
    assert (Hi : 0 <= off + i < 64 * zlen ws) by (apply Hin; now left).
    rewrite shiftr6, land63, shl64_1 by (apply Z.mod_pos_bound; lia).
    destruct (or_at_pow2 ws (off + i) Hok Hi) as (w1 & -> & Hok1 & Hlen1 & Hb1).
    destruct (IH w1 Hok1) as (ws' & E & Hok' & Hlen' & Hb').
    { intros p Hp. unfold zlen. rewrite Hlen1. apply Hin. now right. }
    exists ws'. split; [exact E|]. split; [exact Hok'|]. split; [congruence|].
    intros q Hq. rewrite Hb', Hb1 by exact Hq. cbn [map In].
    rewrite orb_true_iff, Z.eqb_eq. intuition.
Qed.

(** * the invariant *)
Definition binv (a : abs) (b : builder) : Prop :=
  builder_ok a (Words b) (Offset b) /\ 0 <= Offset b <= 64 * zlen (Words b).

Lemma In_ones_usort ws l q :
  ones (flat ws) = usort l -> 0 <= q -> (wbit ws q = true <-> In q l).
Proof.
  intros H Hq. rewrite <- usort_In, <- H, ones_In_wbit. tauto.
Qed.

Lemma ones_usort_intro ws l :
  (forall q, In q l -> 0 <= q) -> (forall q, 0 <= q -> (wbit ws q = true <-> In q l)) ->
  ones (flat ws) = usort l.
Proof.
  intros Hnn H. apply ssorted_ext; [apply ones_sorted|apply usort_sorted|].
  intros p. rewrite ones_In_wbit, usort_In. split.
  - intros [Hp Hb]. now apply H.
  - intros Hp. split; [now apply Hnn|]. apply H; [now apply Hnn|exact Hp].
Qed.

Lemma abits_nonneg a ws : ones (flat ws) = usort (abits a) -> forall q, In q (abits a) -> 0 <= q.
Proof. intros H q Hq. apply usort_In in Hq. rewrite <- H in Hq. apply ones_In in Hq. tauto. Qed.

(** the end position Extend grows to, as the code computes it *)
Definition extend_end (off : Z) (ps : list Z) (size : Z) : Z :=
  match ps with
  | [] => off + size
  | _ => let bitEnd := last ps 0 in if bitEnd >=? size then off + bitEnd + 1 else off + size
  end.

Lemma extend_end_cover off ps size : sortedb ps = true ->
  off + size <= extend_end off ps size /\ forall p, In p ps -> off + p < extend_end off ps size.
Proof.
  intros Hs. unfold extend_end. destruct ps as [|x t]; [split; [lia|intros p []]|].
  set (L := last (x :: t) 0). cbv zeta.
  assert (HL : forall p, In p (x :: t) -> p <= L) by (apply sortedb_last_max; exact Hs).
  destruct (Z.geb_spec L size); split; try lia; intros p Hp; specialize (HL p Hp); lia.
Qed.

Theorem Extend_step a b ps size :
  binv a b -> sortedb ps = true -> nonnegb ps = true -> 0 <= size ->
  exists b', Extend b ps size = Some b' /\ binv (astep a (BExtend ps size)) b' /\
             zlen (Words b') = Z.max (zlen (Words b)) (words_for (extend_end (Offset b) ps size)).
Proof.
  intros [(Hoff & Hok & Hones) Hrange] Hs Hnn Hsize.
  unfold Extend. cbv zeta.
  change (match ps with
          | [] => Offset b + size
          | _ :: _ => if last ps 0 >=? size then Offset b + last ps 0 + 1 else Offset b + size
          end) with (extend_end (Offset b) ps size).
  set (e := extend_end (Offset b) ps size).
  destruct (extend_end_cover (Offset b) ps size Hs) as [He1 He2]. fold e in He1, He2.
  rewrite words_for_shiftr.
  destruct (grow_to_spec e (S (Z.to_nat (words_for e))) (Words b)) as (k & -> & Hlen & Hcov).
  { unfold zlen. lia. }
  set (w1 := Words b ++ repeat 0 k).
  assert (Hz1 : zlen w1 = zlen (Words b) + Z.of_nat k) by (subst w1; rewrite zlen_app, zlen_repeat; lia).
  destruct (Extend_loop_spec (Offset b) ps w1 (words_ok_app_zeros _ k Hok)) as (w2 & -> & Hok2 & Hlen2 & Hb2).
  { intros p Hp. rewrite Hz1. specialize (He2 p Hp).
    assert (0 <= p) by (now apply nonnegb_In with (l := ps)). lia. }
  assert (Hz2 : zlen w2 = zlen w1) by (unfold zlen; now rewrite Hlen2).
  eexists. split; [reflexivity|]. split; [|cbn [Words]; lia].
  unfold binv, builder_ok. cbn [Words Offset astep abits aoff]. rewrite <- Hoff.
  split; [split; [reflexivity|split; [exact Hok2|]]|lia].
  apply ones_usort_intro.
  - intros q Hq. apply in_app_or in Hq. destruct Hq as [Hq|Hq]; [now apply (abits_nonneg a (Words b))|].
    apply in_map_iff in Hq. destruct Hq as (p & <- & Hp).
    assert (0 <= p) by (now apply nonnegb_In with (l := ps)). lia.
  - intros q Hq. rewrite Hb2 by exact Hq. subst w1. rewrite wbit_app_zeros.
    rewrite (In_ones_usort _ _ q Hones Hq), in_app_iff. tauto.
Qed.

Lemma land_1 v : Z.land v 1 = if Z.odd v then 1 else 0.
Proof.
  change 1 with (Z.ones 1) at 1. rewrite Z.land_ones by lia. change (2 ^ 1) with 2.
  rewrite <- Z.bit0_mod, Z.bit0_odd. now destruct (Z.odd v).
Qed.

Theorem Set_step a b p v :
  binv a b -> 0 <= p ->
  exists b', SetBit b p v = Some b' /\ binv (astep a (BSet p v)) b' /\
             zlen (Words b') = Z.max (zlen (Words b)) (p / 64 + 1).
Proof.
  intros [(Hoff & Hok & Hones) Hrange] Hp.
  unfold SetBit. cbv zeta. rewrite shiftr6, land63.
  assert (Hk : 0 <= p / 64) by (apply Z.div_pos; lia).
  assert (Hj : 0 <= p mod 64 < 64) by (apply Z.mod_pos_bound; lia).
  pose proof (Z.div_mod p 64 ltac:(lia)) as Hdm.
  destruct (grow_past_spec (p / 64) (S (Z.to_nat (p / 64 + 1))) (Words b)) as (n & -> & Hlen).
  { unfold zlen. lia. }
  set (w1 := Words b ++ repeat 0 n).
  assert (Hz1 : zlen w1 = zlen (Words b) + Z.of_nat n) by (subst w1; rewrite zlen_app, zlen_repeat; lia).
  set (val := shl64 (Z.land v 1) (p mod 64)).
  assert (Hval : val = if Z.odd v then 2 ^ (p mod 64) else 0).
  { subst val. rewrite land_1. destruct (Z.odd v); [now apply shl64_1|].
    unfold shl64. destruct (p mod 64 <? 64); reflexivity. }
  assert (Hvr : 0 <= val < 2 ^ 64).
  { rewrite Hval. destruct (Z.odd v); [now apply pow2_word|lia]. }
  destruct (or_at_spec w1 (p / 64) val (words_ok_app_zeros _ n Hok) ltac:(lia) Hvr)
    as (w2 & -> & Hok2 & Hlen2 & Hb2).
  assert (Hz2 : zlen w2 = zlen w1) by (unfold zlen; now rewrite Hlen2).
  eexists. split; [reflexivity|]. split; [|cbn [Words]; lia].
  unfold binv, builder_ok. cbn [Words Offset astep abits aoff]. rewrite <- Hoff.
  split; [split; [|split; [exact Hok2|]]|].
  - destruct (Z.leb_spec (Offset b) p); lia.
  - apply ones_usort_intro.
    + intros q Hq. destruct (Z.odd v).
      * apply in_app_or in Hq. destruct Hq as [Hq|[<-|[]]]; [now apply (abits_nonneg a (Words b))|lia].
      * now apply (abits_nonneg a (Words b)).
    + intros q Hq. rewrite Hb2 by exact Hq. subst w1. rewrite wbit_app_zeros.
      rewrite orb_true_iff, (In_ones_usort _ _ q Hones Hq), andb_true_iff, Z.eqb_eq, Hval.
      pose proof (Z.div_mod q 64 ltac:(lia)) as Hqdm.
      assert (Hqj : 0 <= q mod 64 < 64) by (apply Z.mod_pos_bound; lia).
      destruct (Z.odd v).
      * rewrite Z.pow2_bits_eqb, Z.eqb_eq, in_app_iff by lia. cbn [In].
        split; [intros [H|[H1 H2]]; [now left|right; left; lia]|].
        intros [H|[H|[]]]; [now left|right; subst q; split; reflexivity].
      * rewrite Z.bits_0. split; [intros [H|[_ H]]; [exact H|discriminate]|intros H; now left].
  - destruct (Z.leb_spec (Offset b) p); lia.
Qed.

Theorem bstep_inv a b o :
  binv a b -> bop_dom o = true -> exists b', bstep b o = Some b' /\ binv (astep a o) b'.
Proof.
  intros Hinv Hdom. destruct o as [ps size|p v]; cbn [bop_dom] in Hdom.
  - rewrite !andb_true_iff in Hdom. destruct Hdom as [[Hs Hnn] Hsize].
    destruct (Extend_step a b ps size Hinv Hs Hnn ltac:(lia)) as (b' & E & H & _). eauto.
  - destruct (Set_step a b p v Hinv ltac:(lia)) as (b' & E & H & _). eauto.
Qed.

(** * histories *)
Definition abs0 : abs := {| abits := []; aoff := 0 |}.

Lemma NewBuilder_inv n : 0 <= n -> exists b, NewBuilder n = Some b /\ binv abs0 b.
Proof.
  intros Hn. unfold NewBuilder. rewrite shiftr6.
  destruct (Z.ltb_spec (n / 64) 0) as [H|H].
  - exfalso. assert (0 <= n / 64) by (apply Z.div_pos; lia). lia.
  - eexists. split; [reflexivity|]. unfold binv, builder_ok. cbn [Words Offset abs0 aoff abits].
    repeat split; try constructor; cbn; lia.
Qed.

(** every state of the history satisfies the invariant *)
Theorem brun_inv ops : forall a b,
  binv a b -> forallb bop_dom ops = true ->
  exists bs, brun b ops = Some bs /\ Forall2 binv (arun a ops) bs.
Proof.
  induction ops as [|o ops IH]; intros a b Hinv Hdom.
  - exists [b]. split; [reflexivity|]. constructor; [exact Hinv|constructor].
  - cbn [forallb] in Hdom. apply andb_true_iff in Hdom. destruct Hdom as [Ho Hdom].
    destruct (bstep_inv a b o Hinv Ho) as (b' & E & Hinv').
    destruct (IH (astep a o) b' Hinv' Hdom) as (bs & Ebs & Hall).
    exists (b :: bs). cbn [brun arun]. rewrite E, Ebs. split; [reflexivity|].
    constructor; assumption.
Qed.

(** the final state only *)
Fixpoint bfold (b : builder) (ops : list bop) : option builder :=
  match ops with
  | [] => Some b
  | o :: t => match bstep b o with None => None | Some b' => bfold b' t end
  end.

Lemma last_nonempty_default {A} (l : list A) d d' : l <> [] -> last l d = last l d'.
Proof.
  induction l as [|x l IH]; intros H; [congruence|].
  destruct l as [|y l]; [reflexivity|].
  change (last (x :: y :: l) d) with (last (y :: l) d).
  change (last (x :: y :: l) d') with (last (y :: l) d'). apply IH. discriminate.
Qed.

Lemma brun_head ops b bs : brun b ops = Some bs -> exists r, bs = b :: r.
Proof.
  destruct ops as [|o ops]; cbn [brun]; intros H.
  - injection H as <-. eauto.
  - destruct (bstep b o) as [b'|]; [|discriminate].
    destruct (brun b' ops) as [r|]; [|discriminate]. injection H as <-. eauto.
Qed.

Lemma brun_bfold ops : forall b bs, brun b ops = Some bs -> bfold b ops = Some (last bs b).
Proof.
  induction ops as [|o ops IH]; intros b bs H; cbn [brun bfold] in *.
  - injection H as <-. reflexivity.
  - destruct (bstep b o) as [b'|]; [|discriminate].
    destruct (brun b' ops) as [r|] eqn:E; [|discriminate]. injection H as <-.
    rewrite (IH b' r E). f_equal.
    destruct (brun_head ops b' r E) as [r' ->].
    rewrite (last_cons_ne b (b' :: r') b) by discriminate. apply last_nonempty_default. discriminate.
Qed.

Theorem bfold_inv ops : forall a b,
  binv a b -> forallb bop_dom ops = true ->
  exists b', bfold b ops = Some b' /\ binv (fold_left astep ops a) b'.
Proof.
  induction ops as [|o ops IH]; intros a b Hinv Hdom.
  - exists b. split; [reflexivity|exact Hinv].
  - cbn [forallb] in Hdom. apply andb_true_iff in Hdom. destruct Hdom as [Ho Hdom].
    destruct (bstep_inv a b o Hinv Ho) as (b' & E & Hinv').
    cbn [bfold fold_left]. rewrite E. now apply IH.
Qed.

Lemma Forall2_imp {A B} (P Q : A -> B -> Prop) la lb :
  (forall a b, P a b -> Q a b) -> Forall2 P la lb -> Forall2 Q la lb.
Proof. intros H. induction 1; constructor; auto. Qed.

(** Builder from scratch: no call panics; after every call Offset and the set of 1-bits are those of
    the abstract machine, every position set so far is inside Words, and so is Offset *)
Theorem Builder_history n ops :
  0 <= n -> forallb bop_dom ops = true ->
  exists b0 bs, NewBuilder n = Some b0 /\ brun b0 ops = Some bs /\
    Forall2 (fun a b => builder_ok a (Words b) (Offset b) /\
                        0 <= Offset b <= 64 * zlen (Words b) /\
                        forall p, In p (abits a) -> 0 <= p < 64 * zlen (Words b))
            (arun abs0 ops) bs.
Proof.
  intros Hn Hdom. destruct (NewBuilder_inv n Hn) as (b0 & E0 & Hinv0).
  destruct (brun_inv ops abs0 b0 Hinv0 Hdom) as (bs & Ebs & Hall).
  exists b0, bs. split; [exact E0|]. split; [exact Ebs|].
  eapply Forall2_imp; [|exact Hall]. intros a b [Hok Hr]. split; [exact Hok|]. split; [exact Hr|].
  destruct Hok as (_ & _ & Hones). intros p Hp.
  assert (0 <= p) by (eapply abits_nonneg; eauto).
  split; [assumption|]. apply wbit_lt; [assumption|]. now apply (In_ones_usort _ _ p Hones).
Qed.

Theorem Builder_final n ops :
  0 <= n -> forallb bop_dom ops = true ->
  exists b0 b, NewBuilder n = Some b0 /\ bfold b0 ops = Some b /\
    let a := fold_left astep ops abs0 in
    Offset b = aoff a /\ words_ok (Words b) /\ ones (flat (Words b)) = usort (abits a) /\
    0 <= Offset b <= 64 * zlen (Words b) /\
    forall p, In p (abits a) -> 0 <= p < 64 * zlen (Words b).
Proof.
  intros Hn Hdom. destruct (NewBuilder_inv n Hn) as (b0 & E0 & Hinv0).
  destruct (bfold_inv ops abs0 b0 Hinv0 Hdom) as (b & Eb & [(Hoff & Hok & Hones) Hr]).
  exists b0, b. split; [exact E0|]. split; [exact Eb|]. cbv zeta.
  repeat split; try assumption; try lia.
  - eapply abits_nonneg; eauto.
  - assert (0 <= p) by (eapply abits_nonneg; eauto).
    apply wbit_lt; [assumption|]. now apply (In_ones_usort _ _ p Hones).
Qed.

(** * Extend-only histories build what Of / OfMany build *)
Definition extends (subs : list (list Z)) (sizes : list Z) : list bop :=
  map (fun x => BExtend (fst x) (snd x)) (combine subs sizes).

Lemma astep_extends subs : forall sizes a,
  length subs = length sizes ->
  fold_left astep (extends subs sizes) a =
    {| abits := abits a ++ shifted subs sizes (aoff a); aoff := aoff a + total sizes |}.
Proof.
  induction subs as [|e subs IH]; intros [|s st] a Hlen; try discriminate.
  - cbn. rewrite app_nil_r, Z.add_0_r. now destruct a.
  - unfold extends. cbn [combine map fold_left]. fold (extends subs st).
    rewrite IH by (cbn [length] in Hlen; lia).
    cbn [astep abits aoff fst snd shifted]. rewrite <- app_assoc, total_cons. f_equal. lia.
Qed.

Theorem Builder_Extend_Of n subs sizes :
  0 <= n -> length subs = length sizes ->
  Forall (fun ps => sortedb ps = true /\ nonnegb ps = true) subs -> Forall (fun s => 0 <= s) sizes ->
  exists b0 b r, NewBuilder n = Some b0 /\ bfold b0 (extends subs sizes) = Some b /\
    Offset b = total sizes /\
    Of (usort (shifted subs sizes 0)) (Some (total sizes)) = Some r /\
    ones (flat (Words b)) = ones (flat r) /\
    (sortedb (shifted subs sizes 0) = true ->
       exists r', OfMany subs sizes = Some r' /\ ones (flat (Words b)) = ones (flat r')).
Proof.
  intros Hn Hlen Hsubs Hsizes.
  assert (Hdom : forallb bop_dom (extends subs sizes) = true).
  { clear Hn. revert sizes Hlen Hsizes. induction Hsubs as [|e subs [He1 He2] Hsubs IH]; intros [|s st] Hlen Hsizes;
      try discriminate; [reflexivity|].
    unfold extends. cbn [combine map forallb bop_dom fst snd]. fold (extends subs st).
    inversion Hsizes; subst. rewrite He1, He2, IH; auto. cbn [andb]. lia. }
  destruct (Builder_final n (extends subs sizes) Hn Hdom) as (b0 & b & E0 & Eb & H).
  cbv zeta in H. rewrite astep_extends in H by exact Hlen. cbn [abs0 abits aoff app] in H.
  destruct H as (Hoff & Hok & Hones & Hr & Hin).
  assert (Hnn : nonnegb (usort (shifted subs sizes 0)) = true).
  { apply nonnegb_In. intros p Hp. apply (proj1 (usort_In _ _)) in Hp. apply Hin in Hp. lia. }
  destruct (Of_ascending (usort (shifted subs sizes 0)) (Some (total sizes)) (usort_sorted _)
              (proj1 (nonnegb_In _) Hnn)) as (r & Er & _ & _ & Hr1).
  exists b0, b, r. split; [exact E0|]. split; [exact Eb|]. split; [lia|]. split; [exact Er|].
  split; [congruence|].
  intros Hs. destruct (OfMany_sorted subs sizes) as (r' & Er' & _ & _ & Hr').
  { unfold ofmany_dom. rewrite !andb_true_iff. split; [split; [split|]|exact Hs].
    - now apply Nat.eqb_eq.
    - apply nonnegb_In. intros s Hs'. eapply Forall_forall in Hsizes; eauto.
    - apply nonnegb_In. intros p Hp. apply Hin in Hp. lia. }
  exists r'. split; [exact Er'|]. congruence.
Qed.
