(** Facts about the in-memory file of Model/MemFile.v: what a byte of the file
    is after a store, how long the file is, stores at consecutive positions,
    reading a file as a stream.  Used by Proofs/SectionIOProofs.v (C18 widening). *)
From Coq Require Import ZArith List Bool Lia.
From Low Require Import Lib.BitSeq Model.SectionWriter Model.MemFile Proofs.SectionWriterProofs.
Import ListNotations.
Open Scope Z_scope.

(** * list facts (nat indices) *)
Lemma firstn_app_exact {A} (l1 l2 : list A) : firstn (length l1) (l1 ++ l2) = l1.
Proof.
  rewrite firstn_app, Nat.sub_diag, firstn_O, app_nil_r. apply firstn_all.
Qed.

Lemma skipn_app_exact {A} (l1 l2 : list A) : skipn (length l1) (l1 ++ l2) = l2.
Proof.
  rewrite skipn_app, Nat.sub_diag, skipn_all. reflexivity.
Qed.

Lemma firstn_app_plus {A} (l1 l2 : list A) k : firstn (length l1 + k) (l1 ++ l2) = l1 ++ firstn k l2.
Proof.
  rewrite firstn_app. rewrite firstn_all2 by lia. f_equal. f_equal. lia.
Qed.

Lemma skipn_app_plus {A} (l1 l2 : list A) k : skipn (length l1 + k) (l1 ++ l2) = skipn k l2.
Proof.
  rewrite skipn_app. rewrite skipn_all2 by lia. cbn [app]. f_equal. lia.
Qed.

Lemma skipn_skipn_add {A} (l : list A) a b : skipn b (skipn a l) = skipn (a + b) l.
Proof.
  revert l. induction a as [|a IH]; intros l; [reflexivity|].
  destruct l as [|x l]; [now rewrite !skipn_nil|]. cbn [skipn Nat.add]. apply IH.
Qed.

Lemma firstn_add_split {A} (l : list A) a b : firstn (a + b) l = firstn a l ++ firstn b (skipn a l).
Proof.
  revert l. induction a as [|a IH]; intros l; [reflexivity|].
  destruct l as [|x l]; [now rewrite !firstn_nil|]. cbn [firstn skipn Nat.add app]. f_equal. apply IH.
Qed.

Lemma skipn_length_firstn {A} (l : list A) k : skipn (length (firstn k l)) l = skipn k l.
Proof.
  rewrite firstn_length. destruct (Nat.le_ge_cases k (length l)).
  - now rewrite Nat.min_l.
  - rewrite Nat.min_r by lia. rewrite skipn_all. symmetry. now apply skipn_all2.
Qed.

Lemma nth_skipn_add {A} (l : list A) k i d : nth i (skipn k l) d = nth (k + i) l d.
Proof.
  revert l. induction k as [|k IH]; intros l; [reflexivity|].
  destruct l as [|x l]; [now destruct i|]. cbn [skipn Nat.add nth]. apply IH.
Qed.

Lemma nth_firstn_lt {A} (l : list A) k i d : (i < k)%nat -> nth i (firstn k l) d = nth i l d.
Proof.
  revert l i. induction k as [|k IH]; intros l i H; [lia|].
  destruct l as [|x l]; [reflexivity|]. destruct i as [|i]; [reflexivity|].
  cbn [firstn nth]. apply IH. lia.
Qed.

Lemma nth_repeat_0 k i : nth i (repeat 0 k) 0 = 0.
Proof.
  revert i. induction k as [|k IH]; intros [|i]; cbn; auto.
Qed.

(** * the padded prefix *)
Lemma length_pad f a : 0 <= a -> (Z.to_nat a <= length (pad f a))%nat.
Proof.
  intros Ha. unfold pad, zlen. rewrite app_length, repeat_length. lia.
Qed.

Lemma length_firstn_pad f a : 0 <= a -> length (firstn (Z.to_nat a) (pad f a)) = Z.to_nat a.
Proof.
  intros Ha. rewrite firstn_length. pose proof (length_pad f a Ha). lia.
Qed.

Lemma nth_pad f a i : nth i (pad f a) 0 = nth i f 0.
Proof.
  unfold pad. destruct (Nat.lt_ge_cases i (length f)).
  - now rewrite app_nth1.
  - rewrite app_nth2 by lia. rewrite nth_repeat_0. symmetry. now apply nth_overflow.
Qed.

(** * length of the file after a store *)
Lemma write_at_nil f a : write_at f a [] = f.
Proof. reflexivity. Qed.

Lemma write_at_cons f a b bs :
  write_at f a (b :: bs) =
  firstn (Z.to_nat a) (pad f a) ++ (b :: bs) ++ skipn (Z.to_nat (a + zlen (b :: bs))) f.
Proof. reflexivity. Qed.

Lemma zlen_write_at f a bs : 0 <= a -> bs <> [] ->
  zlen (write_at f a bs) = Z.max (zlen f) (a + zlen bs).
Proof.
  intros Ha Hne. destruct bs as [|b bs]; [contradiction|]. rewrite write_at_cons.
  set (xs := b :: bs). unfold zlen.
  rewrite !app_length, skipn_length, length_firstn_pad by lia.
  fold (zlen xs). unfold zlen. lia.
Qed.

Lemma zlen_write_at_bounds f a bs : 0 <= a ->
  zlen f <= zlen (write_at f a bs) <= Z.max (zlen f) (a + zlen bs).
Proof.
  intros Ha. destruct bs as [|b bs].
  - rewrite write_at_nil. pose proof (zlen_nonneg (@nil Z)). lia.
  - rewrite zlen_write_at by (auto; discriminate). lia.
Qed.

(** * the bytes of the file after a store *)
Lemma byte_at_write_at f a bs i : 0 <= a -> 0 <= i ->
  byte_at (write_at f a bs) i =
  if (a <=? i) && (i <? a + zlen bs) then nth (Z.to_nat (i - a)) bs 0 else byte_at f i.
Proof.
  intros Ha Hi. destruct bs as [|b bs].
  - rewrite write_at_nil. unfold zlen. cbn [length Z.of_nat].
    destruct (Z.leb_spec a i); destruct (Z.ltb_spec i (a + 0)); try reflexivity; lia.
  - rewrite write_at_cons. set (xs := b :: bs). unfold byte_at.
    pose proof (length_firstn_pad f a Ha) as Hlen.
    assert (Hxs : zlen xs = Z.of_nat (length xs)) by reflexivity.
    destruct (Z.leb_spec a i) as [Hai|Hai]; cbn [andb].
    + destruct (Z.ltb_spec i (a + zlen xs)) as [Hlt|Hge].
      * rewrite app_nth2 by lia. rewrite Hlen. rewrite app_nth1 by lia. f_equal. lia.
      * rewrite app_nth2 by lia. rewrite Hlen. rewrite app_nth2 by lia.
        rewrite nth_skipn_add. f_equal. lia.
    + rewrite app_nth1 by lia. rewrite nth_firstn_lt by lia. apply nth_pad.
Qed.

(** a store changes nothing outside [a, a + |bs|) *)
Lemma byte_at_write_at_outside f a bs i : 0 <= a -> 0 <= i -> (i < a \/ a + zlen bs <= i) ->
  byte_at (write_at f a bs) i = byte_at f i.
Proof.
  intros Ha Hi Hout. rewrite byte_at_write_at by lia.
  destruct (Z.leb_spec a i); destruct (Z.ltb_spec i (a + zlen bs)); try reflexivity; lia.
Qed.

(** * stores at consecutive positions *)
Lemma write_at_app f a xs ys : 0 <= a ->
  write_at (write_at f a xs) (a + zlen xs) ys = write_at f a (xs ++ ys).
Proof.
  intros Ha. destruct xs as [|x xs].
  - rewrite write_at_nil. unfold zlen. cbn [length Z.of_nat app]. now rewrite Z.add_0_r.
  - destruct ys as [|y ys]; [now rewrite write_at_nil, app_nil_r|].
    set (X := x :: xs). set (Y := y :: ys).
    assert (HX : zlen X = Z.of_nat (length X)) by reflexivity.
    assert (HY : zlen Y = Z.of_nat (length Y)) by reflexivity.
    change (write_at f a X) with (firstn (Z.to_nat a) (pad f a) ++ X ++ skipn (Z.to_nat (a + zlen X)) f).
    set (P := firstn (Z.to_nat a) (pad f a)).
    assert (HP : length P = Z.to_nat a) by (apply length_firstn_pad; lia).
    set (F1 := P ++ X ++ skipn (Z.to_nat (a + zlen X)) f).
    change (write_at F1 (a + zlen X) Y)
      with (firstn (Z.to_nat (a + zlen X)) (pad F1 (a + zlen X)) ++ Y ++ skipn (Z.to_nat (a + zlen X + zlen Y)) F1).
    assert (HXY : X ++ Y = x :: (xs ++ Y)) by reflexivity.
    rewrite HXY. rewrite write_at_cons. rewrite <- HXY. fold P.
    assert (Hz : zlen (X ++ Y) = zlen X + zlen Y) by (unfold zlen; rewrite app_length; lia).
    rewrite Hz.
    (* the prefix *)
    assert (Hpre : firstn (Z.to_nat (a + zlen X)) (pad F1 (a + zlen X)) = P ++ X).
    { unfold pad, F1. rewrite !app_assoc. rewrite <- (app_assoc (P ++ X)).
      replace (Z.to_nat (a + zlen X)) with (length (P ++ X)) by (rewrite app_length; lia).
      apply firstn_app_exact. }
    rewrite Hpre.
    (* the suffix *)
    assert (Hsuf : skipn (Z.to_nat (a + zlen X + zlen Y)) F1 = skipn (Z.to_nat (a + (zlen X + zlen Y))) f).
    { unfold F1. rewrite app_assoc.
      replace (Z.to_nat (a + zlen X + zlen Y)) with (length (P ++ X) + length Y)%nat
        by (rewrite app_length; lia).
      rewrite skipn_app_plus. rewrite skipn_skipn_add. f_equal. lia. }
    rewrite Hsuf. now rewrite <- !app_assoc.
Qed.

(** reading from the position of a store finds the bytes stored, then the old content *)
Lemma skipn_write_at f a bs : 0 <= a ->
  skipn (Z.to_nat a) (write_at f a bs) = bs ++ skipn (Z.to_nat (a + zlen bs)) f.
Proof.
  intros Ha. destruct bs as [|b bs].
  - rewrite write_at_nil. unfold zlen. cbn [length Z.of_nat app]. now rewrite Z.add_0_r.
  - rewrite write_at_cons.
    rewrite <- (length_firstn_pad f a Ha) at 1. apply skipn_app_exact.
Qed.
