(** Proofs for bitmap.Fmt (C12 widening): the byte loop with Reverse8 and %08b prints the bits
    of every integer, position 0 first, in groups of 8; without the separators the output of a
    []uint64 is the bit sequence [flat ws] itself. *)
From Coq Require Import ZArith List Lia Bool.
From Low Require Import Lib.MachInt Lib.Bits Lib.BitSeq Lib.Bytes Lib.BitsExtra_bm2 Lib.BitsExtra_bm12
  Model.BitmapMask12 Model.BitmapFmt12 Spec.OfSpec Spec.FmtSpec12 Proofs.MaskProofs.
Import ListNotations.
Open Scope Z_scope.

Lemma zs_eqb_eq a : forall b, zs_eqb a b = true -> a = b.
Proof.
  induction a as [|x a IH]; intros [|y b] H; cbn [zs_eqb] in H; try discriminate; [reflexivity|].
  apply andb_true_iff in H. destruct H as [Hx Ht]. apply Z.eqb_eq in Hx. subst. f_equal. now apply IH.
Qed.

Lemma join_sjoin sep parts : join sep parts = sjoin sep parts.
Proof.
  induction parts as [|p rest IH]; [reflexivity|].
  cbn [join sjoin]. destruct rest as [|q rest']; [reflexivity|]. now rewrite IH.
Qed.

Lemma digit_sdigit b : digit b = sdigit b.
Proof. reflexivity. Qed.

(** * one byte: all 256 values, by computation *)
Definition byte_ok (b : Z) : bool := zs_eqb (sprintf_08b (reverse8 b)) (map sdigit (bits 8 b)).

Lemma byte_rows : forallb byte_ok (zrange 256) = true.
Proof. vm_compute. reflexivity. Qed.

Lemma byte_fmt b : 0 <= b < 256 -> sprintf_08b (reverse8 b) = map sdigit (bits 8 b).
Proof.
  intros Hb. apply zs_eqb_eq.
  apply (proj1 (forallb_forall _ _) byte_rows b). apply In_zrange. lia.
Qed.

(** * groups of 8 bits *)
Lemma group_bits n k z : (8 * k + 8 <= n)%nat ->
  firstn 8 (skipn (8 * k) (bits n z)) = bits 8 (z / 2 ^ Z.of_nat (8 * k)).
Proof.
  intros H. rewrite skipn_bits by lia. apply bits_firstn. lia.
Qed.

Lemma bits_u64 n x : (n <= 64)%nat -> bits n (u64 x) = bits n x.
Proof.
  intros H. rewrite <- (bits_firstn 64 n (u64 x)), <- (bits_firstn 64 n x) by exact H.
  f_equal. unfold u64. change (2 ^ 64) with (2 ^ Z.of_nat 64). apply bits_mod.
Qed.

Lemma bits_u8 x : bits 8 (u8 x) = bits 8 x.
Proof. unfold u8. change (2 ^ 8) with (2 ^ Z.of_nat 8). apply bits_mod. Qed.

Lemma model_group x k : (k < 8)%nat ->
  sprintf_08b (reverse8 (u8 (shr64 (u64 x) (Z.of_nat k * 8)))) =
  map sdigit (bits 8 (x / 2 ^ Z.of_nat (8 * k))).
Proof.
  intros Hk. rewrite byte_fmt by (apply u8_range). rewrite bits_u8.
  rewrite shr64_div by lia.
  replace (Z.of_nat k * 8) with (Z.of_nat (8 * k)) by lia.
  rewrite <- (group_bits 64 k (u64 x)) by lia. rewrite bits_u64 by lia.
  now rewrite group_bits by lia.
Qed.

Lemma spec_group_bits sz x k : (k < sz)%nat ->
  spec_group sz x k = map sdigit (bits 8 (x / 2 ^ Z.of_nat (8 * k))).
Proof. intros Hk. unfold spec_group. now rewrite group_bits by lia. Qed.

(** * intFmt, Fmt *)
Lemma int_kind_nat sz : int_kind sz = true -> exists n, (n <= 8)%nat /\ sz = Z.of_nat n.
Proof.
  intros Hok. exists (Z.to_nat sz). unfold int_kind in Hok. rewrite !orb_true_iff, !Z.eqb_eq in Hok. lia.
Qed.

Lemma intFmt_exact sz x : int_kind sz = true -> intFmt sz x = Some (spec_int (Z.to_nat sz) x).
Proof.
  intros Hok. unfold intFmt. change (intSize_ok sz) with (int_kind sz). rewrite Hok.
  destruct (int_kind_nat sz Hok) as (n & Hle & ->). rewrite Nat2Z.id.
  unfold spec_int. cbv zeta. rewrite join_sjoin. f_equal. f_equal.
  apply map_ext_in. intros k Hk. apply in_seq in Hk.
  rewrite model_group by lia. now rewrite spec_group_bits by lia.
Qed.

Lemma intFmt_not_int sz x : int_kind sz = false -> intFmt sz x = None.
Proof. intros H. unfold intFmt. change (intSize_ok sz) with (int_kind sz). now rewrite H. Qed.

Lemma all_some_map_Some {A B} (f : A -> option B) (g : A -> B) l :
  (forall x, f x = Some (g x)) -> all_some (map f l) = Some (map g l).
Proof.
  intros H. induction l as [|x l IH]; [reflexivity|]. cbn [map all_some]. now rewrite H, IH.
Qed.

(** Fmt never panics on an integer or a slice of integers and prints what the specification says; on
    anything else it panics, except for an empty slice *)
Theorem Fmt_exact sz isslice xs : Fmt sz isslice xs = spec_Fmt sz isslice xs.
Proof.
  unfold Fmt, spec_Fmt. destruct (int_kind sz) eqn:Hok.
  - destruct isslice.
    + rewrite (all_some_map_Some _ (spec_int (Z.to_nat sz))) by (intros x; now apply intFmt_exact).
      now rewrite join_sjoin.
    + destruct xs as [|x [|y t]]; try reflexivity. now apply intFmt_exact.
  - destruct isslice.
    + destruct xs as [|x t]; [reflexivity|]. cbn [map all_some]. now rewrite intFmt_not_int.
    + destruct xs as [|x [|y t]]; try reflexivity. now apply intFmt_not_int.
Qed.

(** * without the separators: the bit sequence *)
Lemma digits_of_app a b : digits_of (a ++ b) = digits_of a ++ digits_of b.
Proof. unfold digits_of. apply filter_app. Qed.

Lemma digits_of_digits l : digits_of (map sdigit l) = map sdigit l.
Proof.
  unfold digits_of. induction l as [|b l IH]; [reflexivity|].
  cbn [map filter]. destruct b; cbn; now rewrite IH.
Qed.

Lemma digits_sjoin sep parts :
  digits_of sep = [] -> digits_of (sjoin sep parts) = concat (map digits_of parts).
Proof.
  intros Hsep. induction parts as [|p rest IH]; [reflexivity|].
  destruct rest as [|q rest'].
  - cbn [sjoin map concat]. now rewrite app_nil_r.
  - change (sjoin sep (p :: q :: rest')) with (p ++ sep ++ sjoin sep (q :: rest')).
    rewrite !digits_of_app, Hsep, IH. reflexivity.
Qed.

Lemma bits_groups z : forall sz,
  concat (map (fun k => bits 8 (z / 2 ^ Z.of_nat (8 * k))) (seq 0 sz)) = bits (8 * sz) z.
Proof.
  induction sz as [|sz IH]; [reflexivity|].
  rewrite seq_S, map_app, concat_app, IH. cbn [map concat Nat.add]. rewrite app_nil_r.
  replace (8 * S sz)%nat with (8 * sz + 8)%nat by lia. now rewrite bits_app.
Qed.

Lemma digits_spec_int sz x : digits_of (spec_int sz x) = map sdigit (bits (8 * sz) x).
Proof.
  unfold spec_int. rewrite digits_sjoin by reflexivity. rewrite map_map.
  rewrite <- bits_groups, concat_map, map_map. f_equal.
  apply map_ext_in. intros k Hk. apply in_seq in Hk.
  rewrite spec_group_bits by lia. apply digits_of_digits.
Qed.

(** Fmt of a slice of [sz]-byte integers, separators removed = the concatenated bit sequences *)
Theorem Fmt_digits sz xs :
  digits_of (sjoin [44] (map (spec_int sz) xs)) = map sdigit (flat_map (bits (8 * sz)) xs).
Proof.
  rewrite digits_sjoin by reflexivity. rewrite map_map, flat_map_concat_map, concat_map, map_map.
  f_equal. apply map_ext. intros x. apply digits_spec_int.
Qed.

(** []uint64: the characters of Fmt(ws) other than ' ' and ',' are the bits of the bitmap, position 0
    first; so character p of them is '1' exactly for the positions ToArray lists *)
Theorem Fmt_words ws :
  exists s, Fmt 8 true ws = Some s /\ digits_of s = map sdigit (flat ws).
Proof.
  eexists. split; [rewrite Fmt_exact; reflexivity|].
  change (Z.to_nat 8) with 8%nat. apply (Fmt_digits 8 ws).
Qed.

Lemma Fmt_words_ones ws s p :
  Fmt 8 true ws = Some s -> 0 <= p ->
  (nth_error (digits_of s) (Z.to_nat p) = Some 49 <-> In p (ones (flat ws))).
Proof.
  intros Hs Hp. destruct (Fmt_words ws) as (s' & Hs' & Hd). rewrite Hs in Hs'. injection Hs' as <-.
  rewrite Hd, ones_In, nth_error_map. split.
  - intros H. split; [exact Hp|]. destruct (nth_error (flat ws) (Z.to_nat p)) as [[|]|]; cbn in H; congruence.
  - intros [_ H]. now rewrite H.
Qed.
