(** C12, literal reading of "any sequence of Builder.Extend calls yields the bitmap Of would build":
    for Extend-only histories whose shifted concatenation is ascending, Builder.Words is WORD FOR WORD
    the slice OfMany / Of returns (same number of words, same words), and Offset is the sum of the sizes. *)
From Coq Require Import ZArith List Lia Bool Sorted.
From Low Require Import Lib.MachInt Lib.Bits Lib.BitSeq Lib.BitsExtra_bm2 Lib.BitsExtra_bm12
  Model.BitmapUtil Model.BuilderOps Model.BitmapOf Spec.OfSpec Proofs.OfProofs Proofs.OfInspect
  Proofs.OfRoundTrip Proofs.BuilderProofs Proofs.BuilderLen.
Import ListNotations.
Open Scope Z_scope.

(** the largest element, -1 for the empty list *)
Definition mx (l : list Z) : Z := fold_right Z.max (-1) l.

Lemma mx_ge l : -1 <= mx l.
Proof. unfold mx. induction l as [|x l IH]; cbn [fold_right]; lia. Qed.

Lemma mx_app a b : mx (a ++ b) = Z.max (mx a) (mx b).
Proof.
  induction a as [|x a IH].
  - pose proof (mx_ge b). unfold mx in *. cbn [app fold_right]. lia.
  - unfold mx in *. cbn [app fold_right]. rewrite IH. lia.
Qed.

Lemma mx_sorted_last l : sortedb l = true -> l <> [] -> mx l = Z.max (-1) (last l 0).
Proof.
  intros Hs Hne. unfold mx. induction l as [|a l IH]; [congruence|].
  destruct (sortedb_cons a l Hs) as [Hs' Ha].
  destruct l as [|b l]; [cbn; lia|].
  rewrite (last_cons_ne a (b :: l) 0) by discriminate. cbn [fold_right] in *.
  rewrite (IH Hs' ltac:(discriminate)).
  assert (a <= last (b :: l) 0).
  { pose proof (Ha (last (b :: l) 0) (last_In (b :: l) 0 ltac:(discriminate))). lia. }
  lia.
Qed.

Lemma mx_map_add off l : l <> [] -> (forall p, In p l -> 0 <= p) -> 0 <= off ->
  mx (map (Z.add off) l) = off + mx l.
Proof.
  intros Hne Hnn Hoff. unfold mx. induction l as [|a l IH]; [congruence|].
  destruct l as [|b l].
  - cbn [map fold_right]. specialize (Hnn a (or_introl eq_refl)). lia.
  - cbn [map fold_right] in *. rewrite (IH ltac:(discriminate)); [lia|].
    intros p Hp. apply Hnn. now right.
Qed.

Lemma words_for_mono a b : a <= b -> words_for a <= words_for b.
Proof. intros H. unfold words_for. apply Z.div_le_mono; lia. Qed.

Lemma words_for_max a b : Z.max (words_for a) (words_for b) = words_for (Z.max a b).
Proof.
  destruct (Z.le_ge_cases a b) as [H|H].
  - pose proof (words_for_mono a b H). rewrite !Z.max_r by lia. reflexivity.
  - pose proof (words_for_mono b a ltac:(lia)). rewrite !Z.max_l by lia. reflexivity.
Qed.

Lemma total_nonneg sizes : Forall (fun s => 0 <= s) sizes -> 0 <= total sizes.
Proof. induction 1 as [|x l Hx Hl IH]; [cbn; lia|]. rewrite total_cons. lia. Qed.

(** extend_end through [mx] *)
Lemma extend_end_mx off ps size : sortedb ps = true -> nonnegb ps = true -> 0 <= off -> 0 <= size ->
  forall X, off + size <= X ->
  Z.max (extend_end off ps size) X = Z.max X (mx (map (Z.add off) ps) + 1).
Proof.
  intros Hs Hnn Hoff Hsize X HX. unfold extend_end. destruct ps as [|a t].
  - cbn [map]. unfold mx. cbn [fold_right]. lia.
  - set (l := a :: t) in *. cbv zeta.
    assert (Hne : l <> []) by discriminate.
    assert (Hnn' : forall p, In p l -> 0 <= p) by (now apply nonnegb_In).
    rewrite mx_map_add by assumption. rewrite (mx_sorted_last l Hs Hne).
    assert (0 <= last l 0) by (apply Hnn'; apply last_In; exact Hne).
    destruct (Z.geb_spec (last l 0) size); lia.
Qed.

(** * the word count of an Extend-only history *)
Lemma extends_len subs : forall sizes off len bits0,
  length subs = length sizes ->
  Forall (fun ps => sortedb ps = true /\ nonnegb ps = true) subs -> Forall (fun s => 0 <= s) sizes ->
  0 <= off -> words_for off <= len ->
  fst (fold_left alen_step (extends subs sizes) (len, {| abits := bits0; aoff := off |})) =
  Z.max len (words_for (Z.max (off + total sizes) (mx (shifted subs sizes off) + 1))).
Proof.
  induction subs as [|e subs IH]; intros [|s st] off len bits0 Hlen Hsubs Hsizes Hoff Hl; try discriminate.
  - cbn [extends combine map fold_left fst shifted]. unfold total, mx. cbn [fold_right].
    rewrite Z.add_0_r. replace (Z.max off (-1 + 1)) with off by lia. lia.
  - inversion Hsubs as [|? ? [He1 He2] Hsubs']; subst. inversion Hsizes as [|? ? Hs0 Hst]; subst.
    pose proof (total_nonneg st Hst) as Htot.
    unfold extends. cbn [combine map fold_left]. fold (extends subs st).
    unfold alen_step at 2. cbn [fst snd astep aoff abits].
    destruct (extend_end_cover off e s He1) as [Hc1 _].
    rewrite IH; try assumption; try (cbn [length] in Hlen; lia).
    2:{ pose proof (words_for_mono (off + s) (extend_end off e s) Hc1). lia. }
    cbn [shifted]. rewrite mx_app, total_cons.
    rewrite <- Z.max_assoc, words_for_max. f_equal. f_equal.
    set (X := Z.max (off + s + total st) (mx (shifted subs st (off + s)) + 1)).
    rewrite (extend_end_mx off e s He1 He2 Hoff Hs0 X) by (subst X; lia).
    subst X. lia.
Qed.

Lemma of_bits_mx l n : sortedb l = true -> (forall p, In p l -> 0 <= p) -> 0 <= n ->
  of_bits l (Some n) = Z.max n (mx l + 1).
Proof.
  intros Hs Hnn Hn. unfold of_bits. destruct l as [|a t].
  - unfold mx. cbn [fold_right]. lia.
  - rewrite (mx_sorted_last (a :: t) Hs ltac:(discriminate)).
    assert (0 <= last (a :: t) 0) by (apply Hnn; apply last_In; discriminate).
    lia.
Qed.

(** * Extend-only history = OfMany, word for word *)
Theorem Builder_Extend_eq_OfMany n subs sizes :
  0 <= n -> ofmany_dom subs sizes = true ->
  Forall (fun ps => sortedb ps = true /\ nonnegb ps = true) subs ->
  exists b0 b, NewBuilder n = Some b0 /\ bfold b0 (extends subs sizes) = Some b /\
    OfMany subs sizes = Some (Words b) /\ Offset b = total sizes.
Proof.
  intros Hn Hdom Hsubs.
  destruct (OfMany_sorted subs sizes Hdom) as (r & Er & Hokr & Hlenr & Honesr).
  unfold ofmany_dom in Hdom. rewrite !andb_true_iff in Hdom. destruct Hdom as [[[Hlen Hsz] Hnn] Hs].
  apply Nat.eqb_eq in Hlen.
  assert (Hsizes : Forall (fun s => 0 <= s) sizes) by (apply Forall_forall; now apply nonnegb_In).
  assert (Hbdom : forallb bop_dom (extends subs sizes) = true).
  { clear -Hsubs Hlen Hsizes. revert sizes Hlen Hsizes.
    induction Hsubs as [|e subs [He1 He2] Hsubs IH]; intros [|s st] Hlen Hsizes; try discriminate; [reflexivity|].
    unfold extends. cbn [combine map forallb bop_dom fst snd]. fold (extends subs st).
    inversion Hsizes; subst. rewrite He1, He2, IH; auto. cbn [andb]. lia. }
  destruct (Builder_words_exact n (extends subs sizes) Hn Hbdom) as (b0 & b & E0 & Eb & H).
  cbv zeta in H. destruct H as (Hl & Hoff & Huniq).
  rewrite alen_snd in Hoff, Huniq. cbn [snd] in Hoff, Huniq.
  rewrite astep_extends in Hoff, Huniq by exact Hlen. cbn [abs0 abits aoff app] in Hoff, Huniq.
  exists b0, b. split; [exact E0|]. split; [exact Eb|]. split; [|lia].
  rewrite Er. f_equal. apply Huniq; [exact Hokr| |exact Honesr].
  rewrite Hlenr. unfold abs0. rewrite extends_len; try assumption; try lia; [|cbn; lia].
  rewrite of_bits_mx; [|exact Hs|now apply nonnegb_In|now apply total_nonneg].
  rewrite Z.add_0_l. pose proof (total_nonneg sizes Hsizes). pose proof (mx_ge (shifted subs sizes 0)).
  set (M := Z.max (total sizes) (mx (shifted subs sizes 0) + 1)).
  assert (HM : 0 <= M) by (subst M; lia).
  pose proof (proj2 (words_for_cover M HM)). lia.
Qed.
