(** C16 widening: sequences of queries on one object; the linear oracle. *)
From Coq Require Import ZArith List Lia Bool.
From Low Require Import Lib.MachInt Lib.Bits Lib.BitSeq Lib.Lex Lib.Bytes
  Model.Sigbits Model.SigbitsQueries Spec.SigbitsSpec Spec.SigbitsSpec16x
  Proofs.SigbitsFirstDiff Proofs.SigbitsCountPrefixes.
Import ListNotations.
Open Scope Z_scope.

Definition query_ok (keys : list (list Z)) (q : Z * Z * Z) : Prop :=
  match q with (s, e, m) => 0 <= s /\ s + 2 <= e /\ e <= zlen keys /\ 1 <= m end.

(** any number of queries, in any order, repeated or overlapping: each answer is the specification's *)
Theorem queries_exact keys qs :
  keys <> [] -> keys_ok keys -> strict_asc keys -> keys_i32 keys -> Forall (query_ok keys) qs ->
  exists sb, New keys = Some sb /\ run_queries sb qs = Some (spec_queries keys qs).
Proof.
  intros Hne Hok Hasc H32 Hq.
  exists {| sb_keys := keys; sb_sigbits := spec_FirstDiffBits keys |}.
  unfold New. rewrite (FirstDiffBits_exact keys Hne Hok). split; [reflexivity|].
  induction Hq as [|[[s e] m] qs Hq0 Hqs IH]; [reflexivity|].
  destruct Hq0 as (Hs & He & Hl & Hm).
  cbn [run_queries spec_queries map]. fold (spec_queries keys qs). rewrite IH.
  destruct (CountPrefixes_exact keys s e m Hok Hasc H32 Hs He Hl Hm) as (sb & HN & _ & _ & HC).
  unfold New in HN. rewrite (FirstDiffBits_exact keys Hne Hok) in HN. injection HN as <-.
  rewrite HC. reflexivity.
Qed.

Lemma count_below_count_lt k ds : count_below k ds = count_lt k ds.
Proof.
  unfold count_below, count_lt, zlen. induction ds as [|d t IH]; [reflexivity|].
  cbn [filter count_if]. destruct (d <? k); cbn [length]; lia.
Qed.

(** the linear oracle is the naive one on strictly ascending keys *)
Theorem spec_CountPrefixes_fast_agrees keys s e m :
  keys_ok keys -> strict_asc keys -> 0 <= s -> s + 1 <= e -> e <= zlen keys ->
  spec_CountPrefixes_fast keys s e m = spec_CountPrefixes keys s e m.
Proof.
  intros Hok Hasc Hs He Hl.
  rewrite (spec_CountPrefixes_counts keys s e m Hok Hasc Hs He Hl).
  unfold spec_CountPrefixes_fast. cbv zeta. f_equal. apply map_ext. intros i.
  now rewrite count_below_count_lt.
Qed.
