(** C16 widening: a cross-function session on one key slice and one SigBits object
    (CountPrefixes / ShardByPrefix / FirstDiffBits in any order, any number of steps). *)
From Coq Require Import ZArith List Lia Bool.
From Low Require Import Lib.MachInt Lib.Bits Lib.BitSeq Lib.Lex Lib.Bytes
  Model.Sigbits Model.SigbitsQueries Spec.SigbitsSpec Spec.SigbitsSpec16x
  Proofs.SigbitsFirstDiff Proofs.SigbitsCountPrefixes Proofs.SigbitsShard.
Import ListNotations.
Open Scope Z_scope.

Definition spec_of_step (st : sstep) : spec_step :=
  match st with QCount s e m => SCount s e m | QShard ms => SShard ms | QFdb => SFdb
  | QRepeat n s e m => SRepeat n s e m end.

Definition step_ok (keys : list (list Z)) (st : sstep) : Prop :=
  match st with
  | QCount s e m => 0 <= s /\ s + 2 <= e /\ e <= zlen keys /\ 1 <= m
  | QShard ms => 1 <= ms
  | QFdb => True
  | QRepeat n s e m => 1 <= n /\ 0 <= s /\ s + 2 <= e /\ e <= zlen keys /\ 1 <= m
  end.

(** the model is pure: asking the same question again and again is asking it once *)
Lemma repeat_last_once n sb s e m : repeat_last n sb s e m = CountPrefixes sb s e m.
Proof.
  induction n as [|n IH]; [reflexivity|]. cbn [repeat_last].
  destruct (CountPrefixes sb s e m); [exact IH|reflexivity].
Qed.

Theorem session_exact keys steps :
  keys <> [] -> keys_ok keys -> strict_asc keys -> keys_i32 keys -> Forall (step_ok keys) steps ->
  exists sb, New keys = Some sb /\
             run_session keys sb steps = Some (spec_session keys (map spec_of_step steps)).
Proof.
  intros Hne Hok Hasc H32 Hq.
  exists {| sb_keys := keys; sb_sigbits := spec_FirstDiffBits keys |}.
  unfold New. rewrite (FirstDiffBits_exact keys Hne Hok). split; [reflexivity|].
  induction Hq as [|st steps Hst Hsteps IH]; [reflexivity|].
  cbn [run_session map spec_session]. fold (spec_session keys (map spec_of_step steps)). rewrite IH.
  destruct st as [s e m|ms| |n s e m]; cbn [spec_of_step step_ok] in *.
  - destruct Hst as (Hs & He & Hl & Hm).
    destruct (CountPrefixes_exact keys s e m Hok Hasc H32 Hs He Hl Hm) as (sb & HN & _ & _ & HC).
    unfold New in HN. rewrite (FirstDiffBits_exact keys Hne Hok) in HN. injection HN as <-.
    rewrite HC. reflexivity.
  - destruct (ShardByPrefix_correct keys ms Hne Hok Hasc Hst) as (L & B & E & _). rewrite E. reflexivity.
  - rewrite (FirstDiffBits_exact keys Hne Hok). reflexivity.
  - destruct Hst as (Hn & Hs & He & Hl & Hm).
    destruct (Z.ltb_spec n 1); [lia|].
    destruct (CountPrefixes_exact keys s e m Hok Hasc H32 Hs He Hl Hm) as (sb & HN & _ & _ & HC).
    unfold New in HN. rewrite (FirstDiffBits_exact keys Hne Hok) in HN. injection HN as <-.
    rewrite HC. reflexivity.
Qed.
