(** C17, widening: lemmas on [same_next] and [runs] (Spec/ShardSplitSpec.v). *)
From Coq Require Import ZArith List Lia Bool.
From Low Require Import Lib.BitSeq Lib.Lex Lib.Bytes Lib.LexExtra_sig Spec.SigbitsSpec Spec.ShardSplitSpec.
Import ListNotations.

(** two keys that share [p] bytes go on with the same byte exactly when they share more *)
Lemma same_next_iff : forall p a b, (p <= length (lcp_bytes a b))%nat ->
  (same_next p a b = true <-> (p < length (lcp_bytes a b))%nat).
Proof.
  unfold lcp_bytes. induction p as [|p IH]; intros a b H.
  - destruct a as [|x a], b as [|y b]; unfold same_next; cbn [nth_error lcp length];
      try (split; [discriminate|lia]).
    destruct (Z.eqb x y); cbn [length]; split; try discriminate; try lia; reflexivity.
  - destruct a as [|x a], b as [|y b]; cbn [lcp length] in H; try lia.
    unfold same_next. cbn [nth_error lcp].
    destruct (Z.eqb x y); cbn [length] in *; [|lia].
    specialize (IH a b ltac:(lia)). unfold same_next in IH. rewrite IH. lia.
Qed.

Lemma runs_hd p k t : exists g gs, runs p (k :: t) = (k :: g) :: gs.
Proof.
  cbn [runs]. destruct (runs p t) as [|[|k' g] gs]; try (now exists [], []).
  destruct (same_next p k k'); [now exists (k' :: g), gs|now exists [], ((k' :: g) :: gs)].
Qed.

Lemma runs_join p k k' g gs t : runs p t = (k' :: g) :: gs -> same_next p k k' = true ->
  runs p (k :: t) = (k :: k' :: g) :: gs.
Proof. intros H1 H2. cbn [runs]. now rewrite H1, H2. Qed.

Lemma runs_new p k k' g gs t : runs p t = (k' :: g) :: gs -> same_next p k k' = false ->
  runs p (k :: t) = [k] :: (k' :: g) :: gs.
Proof. intros H1 H2. cbn [runs]. now rewrite H1, H2. Qed.
