(** Proofs for C01: rank is exact. *)
From Coq Require Import ZArith List Lia Bool.
From Low Require Import Lib.MachInt Lib.Bits Lib.BitSeq Model.Rank Spec.RankSpec.
Import ListNotations.
Open Scope Z_scope.

Lemma words_ok_nth ws k w : words_ok ws -> nth_error ws k = Some w -> 0 <= w < 2^64.
Proof. intros H Hn. eapply Forall_forall in H; [exact H|]. eapply nth_error_In; eauto. Qed.

Lemma IndexRank64_loop_spec ws : words_ok ws -> forall n,
  IndexRank64_loop ws n =
  (map (fun k => n + count_true (flat (firstn k ws))) (seq 0 (length ws)),
   n + count_true (flat ws)).
Proof.
  induction 1 as [|w t Hw Ht IH]; intros n.
  - cbn. f_equal. lia.
  - cbn [IndexRank64_loop]. rewrite IH. cbn [length seq map firstn].
    f_equal.
    + f_equal; [cbn; lia|].
      rewrite <- seq_shift, map_map. apply map_ext. intros k.
      rewrite firstn_cons, flat_cons, count_true_app, <- popcount_bits64 by exact Hw. lia.
    + rewrite flat_cons, count_true_app, <- popcount_bits64 by exact Hw. lia.
Qed.

Lemma IndexRank64_exact ws tr : words_ok ws -> IndexRank64 ws tr = spec_IndexRank64 ws tr.
Proof.
  intros H. unfold IndexRank64, spec_IndexRank64.
  rewrite IndexRank64_loop_spec by exact H.
  assert (E : map (fun k => 0 + count_true (flat (firstn k ws))) (seq 0 (length ws))
            = map (fun k => rank1 (flat ws) (64 * k)) (seq 0 (length ws))).
  { apply map_ext. intros k. now rewrite rank1_flat_words. }
  rewrite E. destruct tr; [|now rewrite app_nil_r].
  f_equal. rewrite rank1_flat_words, firstn_all. f_equal; lia.
Qed.

(** the stride-2 loop *)
Lemma IndexRank128_loop_spec : forall m ws, (length ws <= m)%nat -> words_ok ws -> forall n,
  IndexRank128_loop ws n =
  (map (fun k => n + count_true (flat (firstn (2 * k) ws))) (seq 0 ((length ws + 1) / 2)),
   n + count_true (flat ws)).
Proof.
  induction m as [|m IH]; intros ws Hm Hok n.
  - destruct ws; [|cbn in Hm; lia]. cbn. f_equal. lia.
  - destruct ws as [|w0 [|w1 t]].
    + cbn. f_equal. lia.
    + inversion Hok as [|? ? Hw0 _]; subst.
      cbn [IndexRank128_loop length]. change ((1 + 1) / 2)%nat with 1%nat.
      cbn [seq map]. f_equal.
      * f_equal. cbn. lia.
      * unfold flat. cbn [flat_map]. rewrite app_nil_r, <- popcount_bits64 by exact Hw0. reflexivity.
    + inversion Hok as [|? ? Hw0 Hok1]; subst. inversion Hok1 as [|? ? Hw1 Hok2]; subst.
      cbn [IndexRank128_loop]. rewrite IH by (cbn [length] in Hm; (lia || assumption)).
      cbn [length]. replace ((S (S (length t)) + 1) / 2)%nat with (S ((length t + 1) / 2)).
      2:{ replace (S (S (length t)) + 1)%nat with ((length t + 1) + 1 * 2)%nat by lia.
          rewrite Nat.div_add by lia. lia. }
      cbn [seq map]. f_equal.
      * f_equal; [cbn; lia|].
        rewrite <- seq_shift, map_map. apply map_ext. intros k.
        replace (2 * S k)%nat with (S (S (2 * k))) by lia.
        rewrite !firstn_cons, !flat_cons, !count_true_app, <- !popcount_bits64 by assumption. lia.
      * rewrite !flat_cons, !count_true_app, <- !popcount_bits64 by assumption. lia.
Qed.

Lemma zlen_even_odd {A} (ws : list A) :
  (Z.land (zlen ws) 1 =? 0) = Nat.even (length ws).
Proof.
  unfold zlen. change 1 with (Z.ones 1). rewrite Z.land_ones by lia. change (2 ^ 1) with 2.
  destruct (Nat.even (length ws)) eqn:Ev.
  - apply Nat.even_spec in Ev. destruct Ev as [h ->].
    rewrite Nat2Z.inj_mul, Z.mul_comm, Z.mod_mul by lia. reflexivity.
  - assert (Od : Nat.odd (length ws) = true) by (now rewrite <- Nat.negb_even, Ev).
    apply Nat.odd_spec in Od. destruct Od as [h ->].
    rewrite Nat2Z.inj_add, Nat2Z.inj_mul, Z.add_comm, Z.mul_comm, Z.mod_add by lia. reflexivity.
Qed.

Lemma IndexRank128_exact ws : words_ok ws -> IndexRank128 ws = spec_IndexRank128 ws.
Proof.
  intros H. unfold IndexRank128, spec_IndexRank128.
  rewrite (IndexRank128_loop_spec (length ws)) by (lia || assumption).
  rewrite zlen_even_odd.
  assert (E : forall k, 0 + count_true (flat (firstn (2 * k) ws)) = rank1 (flat ws) (128 * k)).
  { intros k. replace (128 * k)%nat with (64 * (2 * k))%nat by lia. now rewrite rank1_flat_words. }
  rewrite (map_ext _ _ E).
  destruct (Nat.even (length ws)) eqn:Ev.
  - apply Nat.even_spec in Ev. destruct Ev as [h Eh].
    replace ((length ws + 1) / 2)%nat with h.
    2:{ rewrite Eh. replace (2 * h + 1)%nat with (1 + h * 2)%nat by lia.
        rewrite Nat.div_add by lia. reflexivity. }
    replace (length ws / 2 + 1)%nat with (S h).
    2:{ rewrite Eh, Nat.mul_comm, Nat.div_mul by lia. lia. }
    rewrite seq_S, map_app. f_equal. cbn [map]. f_equal.
    replace (128 * (0 + h))%nat with (64 * length ws)%nat by lia.
    rewrite rank1_flat_words, firstn_all. lia.
  - assert (Od : Nat.odd (length ws) = true) by (now rewrite <- Nat.negb_even, Ev).
    apply Nat.odd_spec in Od. destruct Od as [h Eh].
    f_equal. f_equal. rewrite Eh.
    replace (2 * h + 1 + 1)%nat with ((h + 1) * 2)%nat by lia. rewrite Nat.div_mul by lia.
    replace (2 * h + 1)%nat with (1 + h * 2)%nat by lia. rewrite Nat.div_add by lia.
    cbn. lia.
Qed.

(** decomposition of a position into word and offset *)
Lemma pos_split i : 0 <= i ->
  Z.shiftr i 6 = i / 64 /\ Z.land i 63 = i mod 64 /\
  Z.to_nat i = (64 * Z.to_nat (i / 64) + Z.to_nat (i mod 64))%nat /\
  0 <= i mod 64 < 64 /\ 0 <= i / 64.
Proof.
  intros Hi. rewrite Z.shiftr_div_pow2 by lia. change 63 with (Z.ones 6).
  rewrite Z.land_ones by lia. change (2 ^ 6) with 64.
  pose proof (Z.div_mod i 64 ltac:(lia)). pose proof (Z.mod_pos_bound i 64 ltac:(lia)).
  assert (0 <= i / 64) by (apply Z.div_pos; lia).
  repeat split; try lia.
Qed.

Lemma spec_index64_nth ws tr k :
  (k < length ws)%nat -> nth_error (spec_IndexRank64 ws tr) k = Some (rank1 (flat ws) (64 * k)).
Proof.
  intros Hk. unfold spec_IndexRank64.
  rewrite nth_error_app1 by (rewrite map_length, seq_length; exact Hk).
  rewrite nth_error_map, seq_nth_error by exact Hk. reflexivity.
Qed.

Lemma spec_rank_at ws k w j :
  words_ok ws -> nth_error ws k = Some w -> (j < 64)%nat ->
  rank1 (flat ws) (64 * k + j) = rank1 (flat ws) (64 * k) + popcount (Z.land w (Mask (Z.of_nat j)))
  /\ nth (64 * k + j) (flat ws) false = Z.testbit w (Z.of_nat j).
Proof.
  intros Hok Hn Hj. pose proof (words_ok_nth _ _ _ Hok Hn) as Hw. split.
  - rewrite (rank1_flat ws k w j Hn) by lia.
    rewrite popcount_land_mask by lia. reflexivity.
  - apply nth_error_nth. now apply nth_error_flat.
Qed.

Theorem Rank64_exact ws tr i :
  words_ok ws -> 0 <= i < 64 * zlen ws ->
  Rank64 ws (IndexRank64 ws tr) i = Some (spec_Rank ws i).
Proof.
  intros Hok Hi. unfold zlen in Hi.
  destruct (pos_split i ltac:(lia)) as (E1 & E2 & E3 & Hj & Hk).
  unfold Rank64. rewrite IndexRank64_exact by exact Hok. rewrite E1, E2.
  set (k := Z.to_nat (i / 64)). set (j := Z.to_nat (i mod 64)).
  assert (Hkl : (k < length ws)%nat).
  { subst k. pose proof (Z.div_lt_upper_bound i 64 (Z.of_nat (length ws))). lia. }
  replace (i / 64) with (Z.of_nat k) by (subst k; lia).
  rewrite !nthZ_of_nat. rewrite spec_index64_nth by exact Hkl.
  destruct (nth_error ws k) as [w|] eqn:Hw; [|apply nth_error_None in Hw; lia].
  destruct (spec_rank_at ws k w j Hok Hw ltac:(subst j; lia)) as [R B].
  unfold spec_Rank, rank1z, bitz. rewrite E3. fold k j. rewrite R, B.
  replace (Z.of_nat j) with (i mod 64) by (subst j; lia).
  rewrite shiftr_land_1 by lia. reflexivity.
Qed.

Lemma spec_index128_nth ws k :
  (k < length ws / 2 + 1)%nat -> nth_error (spec_IndexRank128 ws) k = Some (rank1 (flat ws) (128 * k)).
Proof.
  intros Hk. unfold spec_IndexRank128.
  rewrite nth_error_map, seq_nth_error by exact Hk. reflexivity.
Qed.

Theorem Rank128_exact ws i :
  words_ok ws -> 0 <= i < 64 * zlen ws ->
  Rank128 ws (IndexRank128 ws) i = Some (spec_Rank ws i).
Proof.
  intros Hok Hi. unfold zlen in Hi.
  destruct (pos_split i ltac:(lia)) as (E1 & E2 & E3 & Hj & Hk).
  unfold Rank128. rewrite IndexRank128_exact by exact Hok. rewrite E1, E2.
  set (k := Z.to_nat (i / 64)). set (j := Z.to_nat (i mod 64)).
  assert (Hkl : (k < length ws)%nat).
  { subst k. pose proof (Z.div_lt_upper_bound i 64 (Z.of_nat (length ws))). lia. }
  destruct (nth_error ws k) as [w|] eqn:Hw; [|apply nth_error_None in Hw; lia].
  pose proof (words_ok_nth _ _ _ Hok Hw) as Hwr.
  destruct (spec_rank_at ws k w j Hok Hw ltac:(subst j; lia)) as [R B].
  (* which checkpoint *)
  rewrite Z.shiftr_div_pow2 by lia. change (2 ^ 7) with 128.
  change 1 with (Z.ones 1). rewrite Z.land_ones by lia. change (2 ^ 1) with 2. change (Z.ones 1) with 1.
  pose proof (Z.div_mod i 64 ltac:(lia)) as Hdm.
  pose proof (Z.div_mod (i / 64) 2 ltac:(lia)) as Hdm2.
  pose proof (Z.mod_pos_bound (i / 64) 2 ltac:(lia)) as Hm2.
  set (h := i / 64 / 2) in *.
  assert (Hh : 0 <= h) by (subst h; apply Z.div_pos; lia).
  assert (Hcp : (i + 64) / 128 = h + (i / 64) mod 2).
  { symmetry. apply (Z.div_unique _ _ _ (i + 64 - 128 * (h + (i / 64) mod 2))); lia. }
  rewrite Hcp.
  assert (Ews : nthZ ws (i / 64) = Some w).
  { replace (i / 64) with (Z.of_nat k) by (subst k; lia). now rewrite nthZ_of_nat. }
  rewrite Ews.
  set (c := Z.to_nat (h + (i / 64) mod 2)).
  replace (h + (i / 64) mod 2) with (Z.of_nat c) by (subst c; lia).
  rewrite nthZ_of_nat.
  assert (Hk2 : Z.of_nat k = 2 * h + (i / 64) mod 2) by (subst k; lia).
  assert (Hc : (c < length ws / 2 + 1)%nat).
  { subst c. assert (h + (i / 64) mod 2 <= Z.of_nat (length ws / 2)); [|lia].
    rewrite Nat2Z.inj_div. change (Z.of_nat 2) with 2.
    apply Z.div_le_lower_bound; lia. }
  rewrite spec_index128_nth by exact Hc.
  unfold spec_Rank, rank1z, bitz. rewrite E3. fold k j. rewrite R, B.
  replace (Z.of_nat j) with (i mod 64) by (subst j; lia).
  rewrite shiftr_land_1 by lia. f_equal. f_equal.
  (* the checkpoint value *)
  destruct (Z.eq_dec ((i / 64) mod 2) 0) as [Ez|Enz].
  - rewrite Ez. replace (128 * c)%nat with (64 * k)%nat by (subst c; lia). lia.
  - assert (E1' : (i / 64) mod 2 = 1) by lia. rewrite E1'.
    replace (128 * c)%nat with (64 * k + 64)%nat by (subst c; lia).
    rewrite (rank1_flat ws k w 64 Hw) by lia.
    rewrite (firstn_all2 (n:=64)) by (rewrite bits_length; lia).
    rewrite <- popcount_bits64 by exact Hwr. lia.
Qed.
