(** Proofs for C15 (TailBitmap): the executable checker of Spec/TailBitmapSpec.v
    (the one ./check runs on the implementation's observations) accepts what
    the model does on every protocol history, bulk loops included — i.e. the
    verdict MODELBUG is impossible, and an observation that differs from the
    model's on a clause the checker tests is a violation of the property. *)
From Coq Require Import ZArith List Bool Lia.
From Low Require Import Lib.MachInt Lib.Bits Lib.BitSeq Model.TailBitmap
  Spec.TailBitmapSpec Spec.TailBitmapInv Spec.TailBitmapObs Proofs.TailBitmapProofs Proofs.TailBitmapHist Run.C15.
Import ListNotations.
Open Scope Z_scope.

Lemma memH_cons a b H j : memH ((a, b) :: H) j = ((a <=? j) && (j <? b)) || memH H j.
Proof. reflexivity. Qed.

Lemma memP_cons a b H j : memP ((a, b) :: H) j <-> (memP H j \/ a <= j < b).
Proof.
  unfold memP. rewrite memH_cons, orb_true_iff, andb_true_iff, Z.leb_le, Z.ltb_lt. tauto.
Qed.

Lemma member_iff o H j : member o H j = true <-> j < o \/ memP H j.
Proof. unfold member, memP. rewrite orb_true_iff, Z.ltb_lt. tauto. Qed.

Ltac or_lia := split; (intros [A|A]; [left; exact A|right; lia]).

(** ** one protocol call keeps the invariant *)

Lemma pstep_Inv st o H s p s' r : Inv st o (memP H) s -> pstep s p = Some (s', r) ->
  Inv st o (memP (abs_step H p)) s' /\ Mono (memP (abs_step H p)) s s'.
Proof.
  intros I E. destruct p as [idx| |j|j|f t|f t]; cbn [pstep abs_step] in *.
  - destruct (step_Inv st o _ s _ s' r I E) as [I1 M1]. cbn [op_sets] in *.
    assert (Hiff : forall j, (memP H j \/ j = idx) <-> memP ((idx, idx + 1) :: H) j).
    { intros j. rewrite memP_cons. or_lia. }
    split; [eapply Inv_ext; [exact Hiff|exact I1]|].
    constructor; try apply M1. intros j Hj. apply Hiff. apply (mo_passed _ _ _ M1). exact Hj.
  - destruct (step_Inv st o _ s _ s' r I E) as [I1 M1]. cbn [op_sets] in *.
    assert (Hiff : forall j, (memP H j \/ False) <-> memP H j) by (intros; tauto).
    split; [eapply Inv_ext; [exact Hiff|exact I1]|].
    constructor; try apply M1. intros j Hj. apply Hiff. apply (mo_passed _ _ _ M1). exact Hj.
  - destruct (step_Inv st o _ s _ s' r I E) as [I1 M1]. cbn [op_sets] in *.
    assert (Hiff : forall j, (memP H j \/ False) <-> memP H j) by (intros; tauto).
    split; [eapply Inv_ext; [exact Hiff|exact I1]|].
    constructor; try apply M1. intros k Hk. apply Hiff. apply (mo_passed _ _ _ M1). exact Hk.
  - destruct (step_Inv st o _ s _ s' r I E) as [I1 M1]. cbn [op_sets] in *.
    assert (Hiff : forall j, (memP H j \/ False) <-> memP H j) by (intros; tauto).
    split; [eapply Inv_ext; [exact Hiff|exact I1]|].
    constructor; try apply M1. intros k Hk. apply Hiff. apply (mo_passed _ _ _ M1). exact Hk.
  - destruct (set_up_Inv st o _ (Z.to_nat (t - f)) s f I) as (s1 & E1 & I1 & M1).
    rewrite E1 in E. inversion E; subst s' r.
    assert (Hiff : forall j, (memP H j \/ f <= j < f + Z.of_nat (Z.to_nat (t - f))) <->
                             memP ((f, t) :: H) j).
    { intros j. rewrite memP_cons. or_lia. }
    split; [eapply Inv_ext; [exact Hiff|exact I1]|].
    constructor; try apply M1. intros j Hj. apply Hiff. apply (mo_passed _ _ _ M1). exact Hj.
  - destruct (set_down_Inv st o _ (Z.to_nat (t - f)) s (t - 1) I) as (s1 & E1 & I1 & M1).
    rewrite E1 in E. inversion E; subst s' r.
    assert (Hiff : forall j, (memP H j \/ t - 1 - Z.of_nat (Z.to_nat (t - f)) < j <= t - 1) <->
                             memP ((f, t) :: H) j).
    { intros j. rewrite memP_cons. or_lia. }
    split; [eapply Inv_ext; [exact Hiff|exact I1]|].
    constructor; try apply M1. intros j Hj. apply Hiff. apply (mo_passed _ _ _ M1). exact Hj.
Qed.

(** ** the clauses of [check_step] *)

Lemma zrange_In : forall n a j, In j (zrange a n) <-> a <= j < a + Z.of_nat n.
Proof.
  induction n as [|n IH]; intros a j; cbn [zrange In]; [lia|].
  rewrite IH. lia.
Qed.

Lemma zrange_length : forall n a, length (zrange a n) = n.
Proof. induction n as [|n IH]; intros a; cbn [zrange length]; [reflexivity|]. now rewrite IH. Qed.

Lemma nth_map_zrange {A} (f : Z -> A) d : forall N a n, (n < N)%nat ->
  nth n (map f (zrange a N)) d = f (a + Z.of_nat n).
Proof.
  induction N as [|N IH]; intros a n Hn; [lia|].
  cbn [zrange map]. destruct n as [|n]; cbn [nth].
  - f_equal. lia.
  - rewrite IH by lia. f_equal. lia.
Qed.

Lemma bools_eqb_refl : forall l, bools_eqb l l = true.
Proof.
  induction l as [|x t IH]; cbn [bools_eqb]; [reflexivity|].
  rewrite IH. destruct x; reflexivity.
Qed.

Lemma zs_eqb_refl : forall l, zs_eqb l l = true.
Proof.
  induction l as [|x t IH]; cbn [zs_eqb]; [reflexivity|].
  rewrite IH, Z.eqb_refl. reflexivity.
Qed.

Lemma stored_ok_Inv st o H s : Inv st o (memP H) s -> stored_ok o H (Offset s) (Words s) = true.
Proof.
  intros I. unfold stored_ok.
  assert (E : flat (Words s) =
              map (member o H) (zrange (Offset s) (64 * length (Words s)))).
  { apply nth_ext with (d := false) (d' := false).
    - rewrite map_length, zrange_length, flat_length. reflexivity.
    - intros n Hn. rewrite flat_length in Hn. rewrite nth_map_zrange by exact Hn.
      pose proof (Inv_TInvW _ _ _ _ I) as T.
      assert (R : Offset s <= Offset s + Z.of_nat n < tb_end (Offset s) (Words s)).
      { unfold tb_end, zlen. lia. }
      pose proof (tw_bits _ _ _ _ T _ R) as B.
      replace (Offset s + Z.of_nat n - Offset s) with (Z.of_nat n) in B by lia.
      unfold bitz in B. rewrite Nat2Z.id in B.
      apply eq_true_iff_eq. rewrite B, member_iff.
      pose proof (inv_ge _ _ _ _ I). split; [tauto|]. intros [A|A]; [lia|exact A]. }
  rewrite <- E. apply bools_eqb_refl.
Qed.

Lemma head_okb_iff ws : head_okb ws = true <-> head_ok ws.
Proof.
  unfold head_okb, head_ok, all_ones_word, allOnes. destruct ws as [|w t].
  - split; [intros _ x t E; discriminate|reflexivity].
  - rewrite negb_true_iff, Z.eqb_neq. split.
    + intros Hne x t' E. inversion E; subst. exact Hne.
    + intros Hh. apply (Hh w t eq_refl).
Qed.

Lemma head_check_Inv (b : bool) o P s : Inv (b = true) o P s ->
  negb b || head_okb (Words s) = true.
Proof.
  intros I. destruct b; cbn [negb orb]; [|reflexivity].
  apply head_okb_iff. apply (inv_head _ _ _ _ I eq_refl).
Qed.

Lemma passed_check o H s s' : Mono (memP H) s s' ->
  forallb (member o H) (zrange (Offset s) (Z.to_nat (Offset s' - Offset s))) = true.
Proof.
  intros M. apply forallb_forall. intros x Hx. apply zrange_In in Hx.
  apply member_iff. right. apply (mo_passed _ _ _ M). pose proof (mo_off _ _ _ M). lia.
Qed.

Lemma end_ge_off s : Offset s <= end_of s.
Proof. unfold end_of, tb_end, zlen. lia. Qed.

Lemma probe_in_range s j : (Get s j <> None \/ Get1 s j <> None) -> j < end_of s.
Proof.
  intros Hg. destruct (Z_lt_le_dec j (end_of s)) as [A|A]; [exact A|].
  pose proof (end_ge_off s).
  destruct (Get_out s j ltac:(lia) A) as [G G1]. rewrite G, G1 in Hg. destruct Hg; congruence.
Qed.

Lemma if_same (c : bool) : (if c then true else true) = true.
Proof. destruct c; reflexivity. Qed.

Lemma check_step_gen_ok (st : Prop) (b : bool) o H s p s' r :
  Inv st o (memP H) s -> Inv (b = true) o (memP (abs_step H p)) s' ->
  pstep s p = Some (s', r) ->
  check_step_gen b o (Offset s, Words s) (abs_step H p) p (Offset s', Words s', r) = true.
Proof.
  intros I I' E. destruct (pstep_Inv st o H s p s' r I E) as [_ M].
  pose proof (mo_end _ _ _ M) as Hend. unfold end_of, tb_end in Hend.
  unfold check_step_gen. cbv zeta.
  rewrite (proj2 (Z.eqb_eq _ _) (inv_align _ _ _ _ I')).
  rewrite (proj2 (Z.leb_le _ _) (mo_off _ _ _ M)).
  rewrite (passed_check o _ s s' M).
  rewrite (head_check_Inv b o _ s' I').
  rewrite (proj2 (Z.leb_le _ _) Hend).
  rewrite (stored_ok_Inv (b = true) o _ s' I'), if_same.
  cbn [andb].
  pose proof (wi_end _ _ _ (inv_w _ _ _ _ I')) as We.
  destruct p as [idx| |j|j|f t|f t]; cbn [pstep abs_step step] in *.
  - destruct (Set_ s idx); [|discriminate]. inversion E; subst. rewrite Z.eqb_refl, andb_true_r.
    apply Z.ltb_lt. apply We. apply memP_cons. right. lia.
  - inversion E; subst. rewrite Z.eqb_refl, andb_true_r. apply Z.eqb_eq.
    destruct (Inv_Compact st o _ s I) as (_ & _ & M2 & _). unfold end_of, tb_end in M2. exact M2.
  - destruct (Get s j) as [v|] eqn:G; [|discriminate]. inversion E; subst s' r.
    assert (Hlt : j < end_of s) by (apply probe_in_range; left; congruence).
    destruct (Get_spec st o _ s j (member o H j) I Hlt (member_iff o H j)) as [_ G'].
    rewrite G in G'. inversion G'. unfold spec_Get. apply Z.eqb_refl.
  - destruct (Get1 s j) as [v|] eqn:G; [|discriminate]. inversion E; subst s' r.
    assert (Hlt : j < end_of s) by (apply probe_in_range; right; congruence).
    destruct (Get_spec st o _ s j (member o H j) I Hlt (member_iff o H j)) as [G' _].
    rewrite G in G'. inversion G'. unfold spec_Get1. apply Z.eqb_refl.
  - destruct (set_up (Z.to_nat (t - f)) s f); [|discriminate]. inversion E; subst.
    rewrite Z.eqb_refl, andb_true_r. apply orb_true_iff.
    destruct (Z_le_gt_dec t f) as [A|A]; [left; apply Z.leb_le; exact A|right].
    apply Z.leb_le. assert (t - 1 < Offset s' + 64 * zlen (Words s')); [|lia].
    apply We. apply memP_cons. right. lia.
  - destruct (set_down (Z.to_nat (t - f)) s (t - 1)); [|discriminate]. inversion E; subst.
    rewrite Z.eqb_refl, andb_true_r. apply orb_true_iff.
    destruct (Z_le_gt_dec t f) as [A|A]; [left; apply Z.leb_le; exact A|right].
    apply Z.leb_le. assert (t - 1 < Offset s' + 64 * zlen (Words s')); [|lia].
    apply We. apply memP_cons. right. lia.
Qed.

Lemma check_step_ok o H s p s' r : Inv (true = true) o (memP H) s -> pstep s p = Some (s', r) ->
  check_step o (Offset s, Words s) (abs_step H p) p (Offset s', Words s', r) = true.
Proof.
  intros I E. destruct (pstep_Inv _ o H s p s' r I E) as [I' _].
  apply (check_step_gen_ok _ true o H s p s' r I I' E).
Qed.

(** ** whole protocol histories *)

Lemma run_proto_ok o : forall ps H s l, Inv (true = true) o (memP H) s -> run_proto s ps = OOk l ->
  check_run o (Offset s, Words s) H ps l = true.
Proof.
  induction ps as [|p t IH]; intros H s l I E; cbn [run_proto] in E.
  - inversion E; subst. reflexivity.
  - destruct (pop_in_domain s p); cbn [negb] in E; [|discriminate].
    destruct (pstep s p) as [[s1 r]|] eqn:E1; [|discriminate].
    destruct (run_proto s1 t) as [| |l1] eqn:E2; try discriminate.
    inversion E; subst l. cbn [check_run fst snd].
    rewrite (check_step_ok o H s p s1 r I E1). cbn [andb].
    destruct (pstep_Inv _ o H s p s1 r I E1) as [I1 _].
    apply (IH _ _ _ I1 E2).
Qed.

Lemma memP_nil j : memP [] j <-> False.
Proof. unfold memP. cbn. split; [discriminate|tauto]. Qed.

(** whatever the model answers on a protocol history, the checker accepts it *)
Lemma model_history_accepted o ps l : model_history o ps = OOk l -> check_history o ps l = true.
Proof.
  unfold model_history, check_history, offset_in_domain. intros E.
  destruct ((- BIG <=? o) && (o <=? BIG) && (o mod 64 =? 0)) eqn:D; [|discriminate].
  apply andb_true_iff in D. destruct D as [_ D]. apply Z.eqb_eq in D.
  assert (I : Inv (true = true) o (memP []) (NewTailBitmap o)).
  { eapply Inv_ext; [|exact (Inv_New _ o D)]. intros j. rewrite memP_nil. tauto. }
  exact (run_proto_ok o ps [] _ l I E).
Qed.

(** the same without the protocol's domain restrictions (they only bound sizes) *)
Fixpoint prun (s : tb) (ps : list pop) : option (list (Z * list Z * Z)) :=
  match ps with
  | [] => Some []
  | p :: t =>
      match pstep s p with
      | None => None
      | Some (s', r) =>
          match prun s' t with
          | Some l => Some ((Offset s', Words s', r) :: l)
          | None => None
          end
      end
  end.

Lemma prun_ok o : forall ps H s l, Inv (true = true) o (memP H) s -> prun s ps = Some l ->
  check_run o (Offset s, Words s) H ps l = true.
Proof.
  induction ps as [|p t IH]; intros H s l I E; cbn [prun] in E.
  - inversion E; subst. reflexivity.
  - destruct (pstep s p) as [[s1 r]|] eqn:E1; [|discriminate].
    destruct (prun s1 t) as [l1|] eqn:E2; [|discriminate].
    inversion E; subst l. cbn [check_run fst snd].
    rewrite (check_step_ok o H s p s1 r I E1). cbn [andb].
    destruct (pstep_Inv _ o H s p s1 r I E1) as [I1 _].
    apply (IH _ _ _ I1 E2).
Qed.

Lemma prun_accepted o ps l : o mod 64 = 0 -> prun (NewTailBitmap o) ps = Some l ->
  check_history o ps l = true.
Proof.
  intros D E. unfold check_history.
  assert (I : Inv (true = true) o (memP []) (NewTailBitmap o)).
  { eapply Inv_ext; [|exact (Inv_New _ o D)]. intros j. rewrite memP_nil. tauto. }
  exact (prun_ok o ps [] _ l I E).
Qed.
