(** Proofs for the extra check X01, part 3: the model of semver.ParseRange never panics while parsing: the only
    indexing that could go out of range is parts[1] in incrementMinorVersion, and it is reached only for a
    version string with exactly three dot-separated parts, whose flattened form still has at least one dot. *)
From Coq Require Import ZArith List Bool Lia.
From Low Require Import Model.Semver.
Import ListNotations.
Open Scope Z_scope.

Definition dots (s : str) : nat := count_occ Z.eq_dec s 46.

Lemma dots_app a b : dots (a ++ b) = (dots a + dots b)%nat.
Proof. apply count_occ_app. Qed.

Lemma prefixb_spec p : forall s, prefixb p s = true -> s = p ++ skipn (length p) s.
Proof.
  induction p as [|x p IH]; intros s H; [reflexivity|].
  destruct s as [|y s]; cbn [prefixb] in H; [discriminate|].
  apply andb_true_iff in H as [H1 H2]. apply Z.eqb_eq in H1. subst y.
  cbn [length skipn app]. f_equal. now apply IH.
Qed.

Lemma split_first_spec sep : forall s a b, split_first sep s = Some (a, b) -> s = a ++ sep ++ b.
Proof.
  induction s as [|c s IH]; intros a b H.
  - cbn [split_first] in H. destruct (prefixb sep []) eqn:E; [|discriminate].
    inversion H; subst. apply prefixb_spec in E. exact E.
  - cbn [split_first] in H. destruct (prefixb sep (c :: s)) eqn:E.
    + inversion H; subst. apply prefixb_spec in E. exact E.
    + destruct (split_first sep s) as [[a' b']|] eqn:E2; [|discriminate].
      inversion H; subst. cbn [app]. f_equal. now apply IH.
Qed.

(** cutting at the first dot *)
Lemma split_first_dot : forall s,
  match split_first [46] s with
  | Some (a, b) => s = a ++ 46 :: b /\ dots a = O
  | None => dots s = O
  end.
Proof.
  induction s as [|c s IH]; [reflexivity|].
  cbn [split_first prefixb]. destruct (Z.eqb_spec 46 c) as [<-|Hne].
  - cbn [andb]. destruct s; cbn [prefixb]; split; reflexivity.
  - cbn [andb]. destruct (split_first [46] s) as [[a b]|].
    + destruct IH as [-> Ha]. split; [reflexivity|].
      unfold dots in *. cbn [count_occ]. destruct (Z.eq_dec c 46); [congruence|assumption].
    + unfold dots in *. cbn [count_occ]. destruct (Z.eq_dec c 46); [congruence|assumption].
Qed.

Lemma split_fuel_length : forall fuel s, (length s < fuel)%nat -> length (split_fuel fuel [46] s) = S (dots s).
Proof.
  induction fuel as [|f IH]; intros s Hf; [lia|].
  cbn [split_fuel]. pose proof (split_first_dot s) as H.
  destruct (split_first [46] s) as [[a b]|].
  - destruct H as [-> Ha]. cbn [length]. rewrite IH.
    + rewrite dots_app, Ha. unfold dots at 2. cbn [count_occ]. destruct (Z.eq_dec 46 46); [|congruence]. reflexivity.
    + rewrite app_length in Hf. change (length (46 :: b)) with (S (length b)) in Hf. lia.
  - rewrite H. reflexivity.
Qed.

Lemma split_length s : length (split [46] s) = S (dots s).
Proof. unfold split. apply split_fuel_length. lia. Qed.

Lemma replace_first_dots old new s : (dots new <= dots old)%nat ->
  (dots (replace_first old new s) + dots old >= dots s + dots new)%nat /\
  (dots (replace_first old new s) + dots old <= dots s + dots new + dots old)%nat.
Proof.
  intros Hle. unfold replace_first. destruct (split_first old s) as [[a b]|] eqn:E.
  - apply split_first_spec in E. subst s. rewrite !dots_app. lia.
  - lia.
Qed.

Lemma flat_dots vStr : (dots vStr >= 2)%nat -> (dots (createVersionFromWildcard vStr) >= 1)%nat.
Proof.
  intros H. unfold createVersionFromWildcard.
  pose proof (replace_first_dots [46; 120; 46; 120] [46; 120] vStr ltac:(cbn; lia)) as [H1 _].
  set (v2 := replace_first [46; 120; 46; 120] [46; 120] vStr) in *.
  pose proof (replace_first_dots [46; 120] [46; 48] v2 ltac:(cbn; lia)) as [H2 _].
  set (v3 := replace_first [46; 120] [46; 48] v2) in *.
  assert (D1 : dots [46; 120; 46; 120] = 2%nat) by reflexivity.
  assert (D2 : dots [46; 120] = 1%nat) by reflexivity.
  assert (D3 : dots [46; 48] = 1%nat) by reflexivity.
  rewrite D1, D2 in H1. rewrite D2, D3 in H2.
  destruct (Nat.eqb (length (split [46] v3)) 2); [rewrite dots_app|]; lia.
Qed.

Lemma incrementPart0_no_panic s : incrementPart 0 s <> Panic.
Proof.
  unfold incrementPart. pose proof (split_length s) as H.
  destruct (split [46] s) as [|p ps]; [discriminate|]. cbn [nth_error]. destruct (atoi p); discriminate.
Qed.

Lemma incrementPart1_no_panic s : (dots s >= 1)%nat -> incrementPart 1 s <> Panic.
Proof.
  intros Hd. unfold incrementPart. pose proof (split_length s) as H.
  destruct (split [46] s) as [|p [|q ps]]; cbn [length] in H; try lia.
  cbn [nth_error]. destruct (atoi q); discriminate.
Qed.

Lemma wildcard3_dots vStr : getWildcardType vStr = 3 -> dots vStr = 2%nat.
Proof.
  unfold getWildcardType. rewrite split_length.
  destruct (str_eqb (last (split [46] vStr) []) x_tok); [|discriminate].
  destruct ((1 <=? Z.of_nat (S (dots vStr))) && (Z.of_nat (S (dots vStr)) <=? 3)); [|discriminate].
  lia.
Qed.

Lemma expand_one_no_panic ap : expand_one ap <> Panic.
Proof.
  unfold expand_one. destruct (negb (contains_byte 120 ap)); [discriminate|].
  destruct (splitComparatorVersion ap) as [[opStr vStr]|]; [|discriminate].
  set (wt := getWildcardType vStr). set (flat := createVersionFromWildcard vStr).
  assert (Hinc : (if wt =? 3 then incrementPart 1 flat else if wt =? 2 then incrementPart 0 flat else Ok []) <> Panic).
  { destruct (Z.eqb_spec wt 3) as [E|E].
    - apply incrementPart1_no_panic. apply flat_dots. subst wt. rewrite (wildcard3_dots vStr E). lia.
    - destruct (wt =? 2); [apply incrementPart0_no_panic|discriminate]. }
  repeat match goal with |- context [if ?c then _ else _] => destruct c end;
    unfold bind; try discriminate;
    match goal with |- context [match ?r with Ok _ => _ | Err => _ | Panic => _ end] => destruct r eqn:Er end;
    try discriminate; congruence.
Qed.

Lemma res_map_all_no_panic {A B} (f : A -> res B) l : (forall x, f x <> Panic) -> res_map_all f l <> Panic.
Proof.
  intros Hf. induction l as [|x l IH]; cbn [res_map_all]; [discriminate|].
  unfold bind. specialize (Hf x). destruct (f x); [|discriminate|congruence].
  destruct (res_map_all f l); [discriminate|discriminate|congruence].
Qed.

Lemma or_loop_no_panic : forall rest all i last acc, or_loop rest all i last acc <> Panic.
Proof.
  induction rest as [|p rest IH]; intros all i last acc; cbn [or_loop]; [discriminate|].
  destruct (str_eqb p or_token); [destruct (i =? 0); [discriminate|apply IH]|apply IH].
Qed.

Lemma parse_ap_no_panic ap : parse_ap ap <> Panic.
Proof.
  unfold parse_ap. destruct (splitComparatorVersion ap) as [[o v]|]; [|discriminate].
  destruct (parseComparator o), (Parse v); discriminate.
Qed.

Lemma range_groups_no_panic s : range_groups s <> Panic.
Proof.
  unfold range_groups, bind.
  destruct (splitORParts (splitAndTrim s)) as [orParts| |] eqn:E1; [|discriminate|].
  - destruct (expandWildcardVersion orParts) as [ex| |] eqn:E2; [|discriminate|].
    + apply res_map_all_no_panic. intros g. apply res_map_all_no_panic. apply parse_ap_no_panic.
    + exfalso. revert E2. unfold expandWildcardVersion. apply res_map_all_no_panic. intros p.
      unfold bind. pose proof (res_map_all_no_panic expand_one p expand_one_no_panic) as Hp.
      destruct (res_map_all expand_one p); [discriminate|discriminate|congruence].
  - exfalso. revert E1. unfold splitORParts, bind.
    pose proof (or_loop_no_panic (splitAndTrim s) (splitAndTrim s) 0 0 []) as Hp.
    destruct (or_loop (splitAndTrim s) (splitAndTrim s) 0 0 []) as [[acc last]| |]; try congruence; try discriminate.
    destruct (last =? Z.of_nat (length (splitAndTrim s))); discriminate.
Qed.
