(** C17, checker: the extracted boolean [shard_ok] accepts exactly the outputs
    described by the proposition [shard_spec] (soundness and completeness),
    for every key list, [maxSize], [L] and [B] -- no domain restriction. *)
From Coq Require Import ZArith List Lia Bool.
From Low Require Import Lib.Bits Lib.BitSeq Lib.Lex Lib.Bytes Spec.SigbitsSpec.
Import ListNotations.
Open Scope Z_scope.

(** * positional reading of [forallb], [adj_pairs], [combine] *)
Lemma c17_forallb_nth {A} (f : A -> bool) d l :
  forallb f l = true <-> forall j, (j < length l)%nat -> f (nth j l d) = true.
Proof.
  induction l as [|x l IH]; cbn [forallb length].
  - split; [intros _ j Hj; lia|reflexivity].
  - rewrite andb_true_iff, IH. split.
    + intros [Hx Hl] [|j] Hj; cbn [nth]; [exact Hx|apply Hl; lia].
    + intros H. split; [apply (H 0%nat); lia|intros j Hj; apply (H (S j)); lia].
Qed.

Lemma c17_adj_pairs_cons2 {A} (a b : A) t : adj_pairs (a :: b :: t) = (a, b) :: adj_pairs (b :: t).
Proof. reflexivity. Qed.

Lemma c17_adj_pairs_length {A} (l : list A) : length (adj_pairs l) = (length l - 1)%nat.
Proof.
  induction l as [|a l IH]; [reflexivity|].
  destruct l as [|b t]; [reflexivity|].
  rewrite c17_adj_pairs_cons2. cbn [length] in *. lia.
Qed.

Lemma c17_adj_pairs_nth {A} (d : A) : forall (l : list A) j, (S j < length l)%nat ->
  nth j (adj_pairs l) (d, d) = (nth j l d, nth (S j) l d).
Proof.
  induction l as [|a l IH]; intros j Hj; [cbn in Hj; lia|].
  destruct l as [|b t]; [cbn in Hj; lia|].
  rewrite c17_adj_pairs_cons2. destruct j as [|j]; [reflexivity|].
  change (nth (S j) ((a, b) :: adj_pairs (b :: t)) (d, d)) with (nth j (adj_pairs (b :: t)) (d, d)).
  rewrite IH by (cbn [length] in *; lia). reflexivity.
Qed.

Lemma c17_combine_nth {A B} (da : A) (db : B) : forall (l : list A) (l' : list B) j,
  (j < length l)%nat -> (j < length l')%nat ->
  nth j (combine l l') (da, db) = (nth j l da, nth j l' db).
Proof.
  induction l as [|a l IH]; intros [|b l'] j H1 H2; cbn [length] in *; try lia.
  destruct j as [|j]; [reflexivity|]. cbn [combine nth]. apply IH; lia.
Qed.

Lemma c17_map_nth {A B} (f : A -> B) d d' : forall l j, (j < length l)%nat ->
  nth j (map f l) d' = f (nth j l d).
Proof.
  induction l as [|a l IH]; intros j Hj; cbn [length] in *; [lia|].
  destruct j as [|j]; [reflexivity|]. cbn [map nth]. apply IH. lia.
Qed.

(** * the four parts of the checker *)

(** boundaries *)
Lemma bounds_okb_spec ms hi : forall B lo,
  bounds_okb B lo hi ms = true <->
  (exists k, length B = S k /\ nth 0 B 0 = lo /\ nth k B 0 = hi /\
   forall j, (j < k)%nat -> nth j B 0 < nth (S j) B 0 /\ nth (S j) B 0 - nth j B 0 <= ms).
Proof.
  induction B as [|b B IH]; intros lo.
  - cbn [bounds_okb]. split; [discriminate|]. intros (k & Hk & _). cbn in Hk. lia.
  - destruct B as [|b' t].
    + cbn [bounds_okb]. rewrite andb_true_iff, !Z.eqb_eq. split.
      * intros [-> <-]. exists 0%nat. repeat split; try reflexivity; lia.
      * intros (k & Hk & H0 & Hl & _). cbn [length] in Hk. assert (k = 0%nat) by lia. subst k.
        cbn [nth] in *. now split.
    + change (bounds_okb (b :: b' :: t) lo hi ms)
        with ((b =? lo) && (b <? b') && (b' - b <=? ms) && bounds_okb (b' :: t) b' hi ms).
      rewrite !andb_true_iff, Z.eqb_eq, Z.ltb_lt, Z.leb_le, (IH b'). split.
      * intros [[[-> Hlt] Hms] (k & Hk & H0 & Hl & Hst)].
        exists (S k). split; [cbn [length] in *; lia|]. split; [reflexivity|]. split; [exact Hl|].
        intros [|j] Hj.
        -- cbn [nth]. lia.
        -- change (nth (S j) (lo :: b' :: t) 0) with (nth j (b' :: t) 0).
           change (nth (S (S j)) (lo :: b' :: t) 0) with (nth (S j) (b' :: t) 0).
           apply Hst. lia.
      * intros (k & Hk & H0 & Hl & Hst). cbn [nth] in H0. subst lo.
        destruct k as [|k]; [cbn [length] in Hk; lia|].
        pose proof (Hst 0%nat ltac:(lia)) as H1. cbn [nth] in H1.
        repeat split; try lia.
        exists k. split; [cbn [length] in *; lia|]. split; [reflexivity|]. split; [exact Hl|].
        intros j Hj. apply (Hst (S j)). lia.
Qed.

(** the shards *)
Lemma shards_length keys B : length (shards keys B) = (length B - 1)%nat.
Proof. unfold shards. now rewrite map_length, c17_adj_pairs_length. Qed.

Lemma shards_nth keys B j : (S j < length B)%nat ->
  nth j (shards keys B) [] = sub_keys keys (nth j B 0) (nth (S j) B 0).
Proof.
  intros Hj. unfold shards.
  rewrite (c17_map_nth _ (0, 0)) by (rewrite c17_adj_pairs_length; lia).
  rewrite c17_adj_pairs_nth by exact Hj. reflexivity.
Qed.

Lemma lcp_lengths_spec keys L B : length B = S (length L) ->
  forallb (fun p => fst p =? zlen (lcp_all (snd p))) (combine L (shards keys B)) = true <->
  forall j, (j < length L)%nat ->
    nth j L 0 = zlen (lcp_all (sub_keys keys (nth j B 0) (nth (S j) B 0))).
Proof.
  intros Hlen. rewrite (c17_forallb_nth _ (0, [])).
  rewrite combine_length, shards_length, Hlen.
  replace (Nat.min (length L) (S (length L) - 1)) with (length L) by lia.
  split; intros H j Hj; specialize (H j Hj).
  - rewrite c17_combine_nth in H by (rewrite ?shards_length; lia).
    cbn [fst snd] in H. apply Z.eqb_eq in H. rewrite shards_nth in H by lia. exact H.
  - rewrite c17_combine_nth by (rewrite ?shards_length; lia).
    cbn [fst snd]. apply Z.eqb_eq. rewrite shards_nth by lia. exact H.
Qed.

(** the order of the prefixes *)
Lemma strict_ascb_nth l :
  strict_ascb l = true <->
  forall j, (S j < length l)%nat -> bytes_cmp (nth j l []) (nth (S j) l []) = Lt.
Proof.
  unfold strict_ascb. rewrite (c17_forallb_nth _ ([], [])), c17_adj_pairs_length.
  split; intros H j Hj; specialize (H j ltac:(lia)); rewrite c17_adj_pairs_nth in * by lia; cbn [fst snd] in *.
  - destruct (bytes_cmp (nth j l []) (nth (S j) l [])); congruence.
  - now rewrite H.
Qed.

Lemma shard_prefixes_length keys L B : length (shard_prefixes keys L B) = Nat.min (length L) (length B).
Proof. unfold shard_prefixes. now rewrite map_length, combine_length. Qed.

Lemma shard_prefixes_nth keys L B j : (j < length L)%nat -> (j < length B)%nat ->
  nth j (shard_prefixes keys L B) [] =
  firstn (Z.to_nat (nth j L 0)) (nth (Z.to_nat (nth j B 0)) keys []).
Proof.
  intros H1 H2. unfold shard_prefixes.
  rewrite (c17_map_nth _ (0, 0)) by (rewrite combine_length; lia).
  rewrite c17_combine_nth by assumption. reflexivity.
Qed.

(** * soundness and completeness of the checker *)
Theorem shard_ok_iff_spec keys maxSize L B :
  shard_ok keys maxSize L B = true <-> shard_spec keys maxSize L B.
Proof.
  unfold shard_ok, shard_spec. rewrite !andb_true_iff, Z.eqb_eq, bounds_okb_spec, strict_ascb_nth.
  rewrite shard_prefixes_length.
  split.
  - intros [[[(k & Hk & H0 & Hl & Hst) Hlen] Hlcp] Hasc].
    assert (HB : length B = S (length L)) by (unfold zlen in Hlen; lia).
    assert (k = length L) by lia. subst k.
    rewrite (lcp_lengths_spec keys L B HB) in Hlcp.
    split; [exact HB|]. split; [exact H0|]. split; [exact Hl|]. split.
    + intros j Hj. destruct (Hst j Hj). repeat split; try assumption. now apply Hlcp.
    + intros j Hj. specialize (Hasc j ltac:(lia)).
      rewrite !shard_prefixes_nth in Hasc by lia. exact Hasc.
  - intros (HB & H0 & Hl & Hst & Hasc).
    repeat split.
    + exists (length L). repeat split; try assumption; apply (Hst j H).
    + unfold zlen; lia.
    + rewrite (lcp_lengths_spec keys L B HB). intros j Hj. apply (Hst j Hj).
    + intros j Hj. rewrite !shard_prefixes_nth by lia. apply Hasc. lia.
Qed.

Corollary shard_ok_sound keys maxSize L B :
  shard_ok keys maxSize L B = true -> shard_spec keys maxSize L B.
Proof. apply shard_ok_iff_spec. Qed.

Corollary shard_ok_complete keys maxSize L B :
  shard_spec keys maxSize L B -> shard_ok keys maxSize L B = true.
Proof. apply shard_ok_iff_spec. Qed.
