(** Equality of the definition generated from the Go source of bmtree.Height (coq/gen/Trans.v) and the model. *)
From Coq Require Import ZArith List Lia Bool.
From Low Require Import Lib.MachInt Lib.Bits Lib.BitSeq Lib.TransLib Proofs.TransEqLemmas.
From LowGen Require Trans.
Import ListNotations.
Open Scope Z_scope.

From Low Require Import Model.BmtreePath.

Lemma TransEq_bmtree_Height b : Trans.bmtree_Height b = Height b.
Proof.
  unfold Trans.bmtree_Height, Height, lz32. cbv zeta.
  pose proof (bitlen_u32_range b).
  rewrite i64_id by lia. rewrite i32_id by lia. lia.
Qed.
