(** Widening of C06 / C07: ReadHeader combined with io.ReadFull by a user program that
    walks a stream frame by frame (Model/PbcmplWalk.v) reports exactly what the flat
    specification says (Spec/PbcmplWalkSpec.v), on arbitrary bytes, for every
    chunking; on a stream of frames it lists every frame's header fields and encoded
    body and ends with io.EOF. *)
From Coq Require Import ZArith List Bool Lia.
From Low Require Import Lib.MachInt Lib.BitSeq Lib.Bytes
  Model.Pbcmpl Model.PbcmplWalk Spec.PbcmplSpec Spec.PbcmplWalkSpec
  Proofs.PbcmplIO Proofs.PbcmplHeader Proofs.PbcmplProofs Proofs.PbcmplMarshal
  Proofs.PbcmplFrames Proofs.PbcmplStream Proofs.PbcmplHistory.
Import ListNotations.
Open Scope Z_scope.

Lemma c_ReadHeader_cases cs t :
  chunks_ok cs -> zlen (concat cs) < 2 ^ 63 ->
  let s := concat cs in
  (zlen s < 32 /\
   c_ReadHeader (cs, t) = Some (zlen s, None, Some (end_err t (zlen s) EEOF), ([], t)))
  \/
  (32 <= zlen s /\ exists cs',
   c_ReadHeader (cs, t) = Some (32, Some (header_Unmarshal (firstn 32 s)), None, (cs', t))
   /\ concat cs' = skipn 32 s /\ chunks_ok cs').
Proof.
  intros Hok Hlen s.
  destruct (ReadFull_cread cs t 32 (rd_fuel (cs, t))) as (cs1 & HRF & Hc1 & Hok1 & _); [lia| |].
  { unfold rd_fuel, rd_bytes. cbn [fst]. lia. }
  specialize (Hok1 Hok). fold s in HRF, Hc1. change (Z.to_nat 32) with 32%nat in *.
  unfold c_ReadHeader, ReadHeader, fixedSize. rewrite HRF.
  destruct (Z.ltb_spec (zlen s) 32) as [Hs|Hs]; [left|right]; (split; [assumption|]).
  - rewrite firstn32_short by lia. rewrite i64_zlen by assumption.
    rewrite skipn32_short in Hc1 by lia. apply chunks_ok_concat_nil in Hc1; [|assumption].
    subst cs1. reflexivity.
  - exists cs1. rewrite zlen_firstn32 by lia. change (i64 32) with 32. auto.
Qed.

Lemma walk_refuses_false hs bs :
  walk_refuses hs bs = false -> hs = 32 /\ 0 <= bs <= walk_limit.
Proof.
  unfold walk_refuses. intros H.
  apply orb_false_elim in H. destruct H as [H H3].
  apply orb_false_elim in H. destruct H as [H1 H2].
  apply negb_false_iff, Z.eqb_eq in H1. apply Z.ltb_ge in H2.
  destruct (Z.gtb_spec bs walk_limit); [discriminate|]. lia.
Qed.

Lemma c_walk_spec t : forall fuel cs,
  chunks_ok cs -> bytes_ok (concat cs) -> zlen (concat cs) < 2 ^ 63 ->
  (S (S (length (concat cs) / 32)) <= fuel)%nat ->
  exists steps cs',
    c_walk fuel (cs, t) = Some (steps, (cs', t))
    /\ chunks_ok cs'
    /\ spec_walk fuel (concat cs) t = (steps, concat cs').
Proof.
  induction fuel as [|f IH]; intros cs Hok Hb Hlen Hfuel; [lia|].
  cbn [c_walk spec_walk].
  destruct (c_ReadHeader_cases cs t Hok Hlen) as [[Hs HR]|[Hs (cs1 & HR & Hc1 & Hok1)]]; rewrite HR.
  - destruct (Z.ltb_spec (zlen (concat cs)) 32); [|lia].
    do 2 eexists. split; [reflexivity|]. split; [apply chunks_ok_nil|reflexivity].
  - set (s := concat cs) in *.
    destruct (Z.ltb_spec (zlen s) 32); [lia|].
    destruct (header_of_stream s Hb Hs) as (Hv & Hh & Hbs & _ & _).
    cbv zeta. rewrite Hv, Hh, Hbs.
    set (hs := as_int64 (le_val (firstn 8 (skipn 16 s)))).
    set (bs := as_int64 (le_val (firstn 8 (skipn 24 s)))).
    set (rest := skipn 32 s) in *.
    destruct (walk_refuses hs bs) eqn:Href.
    { do 2 eexists. split; [reflexivity|]. split; [eassumption|]. rewrite Hc1. reflexivity. }
    destruct (walk_refuses_false hs bs Href) as [Hhs Hbsr]. unfold walk_limit in Hbsr.
    assert (Hrl : zlen rest = zlen s - 32) by (apply zlen_skipn32; lia).
    destruct (ReadFull_cread cs1 t bs (rd_fuel (cs1, t))) as (cs2 & HRF & Hc2 & Hok2 & _); [lia| |].
    { unfold rd_fuel, rd_bytes. cbn [fst]. lia. }
    specialize (Hok2 Hok1).
    rewrite HRF. rewrite Hc1 in *.
    destruct (Z.ltb_spec (zlen rest) bs) as [Hshort|Hfull].
    + rewrite firstn_all_z by lia. rewrite skipn_all_z in Hc2 by lia.
      do 2 eexists. split; [reflexivity|]. split; [eassumption|]. rewrite Hc2. reflexivity.
    + assert (Hl : (length (concat cs2) + 32 <= length s)%nat).
      { rewrite Hc2. unfold rest. rewrite !skipn_length. unfold zlen in Hs. lia. }
      assert (Hb2 : bytes_ok (concat cs2)).
      { rewrite Hc2. apply bytes_ok_skipn. unfold rest. apply bytes_ok_skipn, Hb. }
      destruct (IH cs2 Hok2 Hb2) as (steps & cs' & HC & Hok' & HSS).
      { unfold zlen in *. lia. }
      { pose proof (div32_step _ _ Hl). lia. }
      rewrite HC. rewrite Hc2 in HSS. rewrite HSS.
      do 2 eexists. split; [reflexivity|]. split; [eassumption|reflexivity].
Qed.

(** the walk = its specification, on any bytes, for any chunking *)
Theorem c_Walk_spec cs t :
  chunks_ok cs -> bytes_ok (concat cs) -> zlen (concat cs) < 2 ^ 63 ->
  exists steps cs',
    c_Walk (cs, t) = Some (steps, (cs', t))
    /\ chunks_ok cs'
    /\ spec_Walk (concat cs) t = (steps, concat cs').
Proof.
  intros Hok Hb Hlen. unfold c_Walk, spec_Walk, stream_fuel, rd_bytes. cbn [fst].
  apply c_walk_spec; try assumption. lia.
Qed.

(** ** on a stream of frames *)
Section Frames.
  Variable enc : list Z -> list Z.
  Variable t : terminal.
  Hypothesis Ht : t_err t = EEOF.

  Definition walk_wf (m : option (list Z) * list Z) : Prop :=
    zlen (ver_of (fst m)) <= 16 /\ no_trailing_nul (ver_of (fst m)) = true
    /\ zlen (enc (snd m)) <= walk_limit.

  Lemma spec_walk_frames : forall ms fuel,
    Forall walk_wf ms -> (length ms + 1 <= fuel)%nat ->
    spec_walk fuel (wire_of enc ms) t = (frames_walk enc ms, []).
  Proof.
    induction ms as [|m ms IH]; intros fuel Hwf Hfuel.
    - destruct fuel as [|f]; [cbn in Hfuel; lia|].
      cbn [wire_of map concat spec_walk frames_walk]. rewrite zlen_nil.
      change (0 <? 32) with true. cbv iota. unfold end_err. rewrite Ht. reflexivity.
    - destruct fuel as [|f]; [cbn in Hfuel; lia|].
      pose proof (Forall_inv Hwf) as (Hv & Hnul & Hsz). pose proof (Forall_inv_tail Hwf) as Hwf'.
      unfold walk_limit in Hsz.
      change (wire_of enc (m :: ms)) with (frame_of enc m ++ wire_of enc ms).
      unfold frame_of, frame. rewrite <- app_assoc.
      set (body := enc (snd m)) in *. set (tail := wire_of enc ms).
      pose proof (zlen_nonneg body) as Hb0. pose proof (zlen_nonneg tail) as Ht0.
      destruct (frame_header_fields (ver_of (fst m)) (zlen body) (body ++ tail) Hv) as (F16 & Fh & Fb & F32); [lia|].
      cbn [spec_walk]. rewrite F16, Fh, Fb, F32.
      rewrite (zlen_app (frame_header _ _)), zlen_frame_header by assumption.
      destruct (Z.ltb_spec (32 + zlen (body ++ tail)) 32) as [Hlt|_].
      { pose proof (zlen_nonneg (body ++ tail)). lia. }
      rewrite !as_int64_small by lia.
      unfold walk_refuses, walk_limit. change (32 =? 32) with true.
      destruct (Z.ltb_spec (zlen body) 0); [lia|].
      destruct (Z.gtb_spec (zlen body) 65536); [lia|]. cbn [negb orb].
      rewrite zlen_app. destruct (Z.ltb_spec (zlen body + zlen tail) (zlen body)); [lia|].
      rewrite firstn_zlen_app, skipn_zlen_app.
      unfold tail. rewrite IH by (try assumption; cbn [length] in Hfuel; lia).
      unfold pad16. rewrite strip_nul_pad by assumption. reflexivity.
  Qed.

  Lemma wire_length_walk ms : Forall walk_wf ms -> (32 * length ms <= length (wire_of enc ms))%nat.
  Proof.
    induction 1 as [|m ms Hm _ IH]; [cbn; lia|].
    change (wire_of enc (m :: ms)) with (frame_of enc m ++ wire_of enc ms).
    rewrite app_length. cbn [length]. destruct Hm as (Hv & _ & _).
    pose proof (zlen_frame (ver_of (fst m)) (enc (snd m)) Hv) as Hz.
    pose proof (zlen_nonneg (enc (snd m))). unfold frame_of. unfold zlen in *. lia.
  Qed.

  (** ReadHeader + io.ReadFull over any chunking of a stream of frames: every frame's
      version, header size 32, body size and encoded body, then io.EOF *)
  Theorem c_Walk_frames ms cs :
    Forall walk_wf ms -> bytes_ok (wire_of enc ms) ->
    chunks_ok cs -> concat cs = wire_of enc ms -> zlen (wire_of enc ms) < 2 ^ 63 ->
    c_Walk (cs, t) = Some (frames_walk enc ms, ([], t)).
  Proof.
    intros Hwf Hb Hok Hcs Hlen.
    destruct (c_Walk_spec cs t Hok) as (steps & cs' & HC & Hok' & HS).
    { rewrite Hcs. exact Hb. } { rewrite Hcs. exact Hlen. }
    rewrite Hcs in HS. unfold spec_Walk in HS. rewrite spec_walk_frames in HS.
    - inversion HS as [[E1 E2]]. symmetry in E2. apply chunks_ok_concat_nil in E2; [|assumption].
      subst cs'. subst steps. rewrite HC. reflexivity.
    - exact Hwf.
    - pose proof (wire_length_walk ms Hwf).
      assert (length ms <= length (wire_of enc ms) / 32)%nat by (apply Nat.div_le_lower_bound; lia).
      lia.
  Qed.
End Frames.
