(** Equality of the definition generated from the Go source of iohelper.AtToWriter (coq/gen/Trans.v) and the model. *)
From Coq Require Import ZArith List Lia Bool.
From Low Require Import Lib.MachInt Lib.Bits Lib.BitSeq Lib.TransLib Proofs.TransEqLemmas.
From LowGen Require Trans.
Import ListNotations.
Open Scope Z_scope.

From Low Require Model.SectionWriter Proofs.TransEq_iohelper_NewSectionWriter.

(** the io.Writer result is the *SectionWriter it is made from; [maxOffset - offset] and [off + n] wrap in int64
    on both sides (the wrap is the observable behaviour of [AtToWriter(w, 100).Seek(1, io.SeekEnd)]) *)
Lemma TransEq_iohelper_AtToWriter w offset :
  Trans.iohelper_AtToWriter w offset = SectionWriter.AtToWriter offset.
Proof.
  unfold Trans.iohelper_AtToWriter, SectionWriter.AtToWriter. cbv zeta.
  rewrite TransEq_iohelper_NewSectionWriter.TransEq_iohelper_NewSectionWriter. reflexivity.
Qed.
