(** Proofs for C05: IndexToPath inverts the full-tree PathToIndex.

    Route (DESIGN section 6, C05): the intermediate specification is the pure
    descent [node_at] of Spec/IndexToPathSpec.v.
      (a) table rows = pure descent for heights <= 3 (the whole domain, vm_compute);
          code loop + table = pure descent for every height ([loop_result]);
      (b) pure descent is the inverse of the pre-order index [full_rank]
          ([full_rank_node_at], [node_at_full_rank]), and the closed form of
          PathToIndex on a full tree is [full_rank] ([PathToIndex_full]);
      (c) the common-prefix shortcut = exactly [fixed] pure-descent steps
          ([node_at_fixed] at the level of numbers, [shortcut_spec] for the
          machine arithmetic). *)
From Coq Require Import ZArith List Lia Bool.
From Low Require Import Lib.MachInt Lib.Bits Lib.BitSeq Lib.Lex Lib.Bytes Lib.BitsExtra_tree
  Lib.BitsExtra_idx5 Spec.Bmtree Spec.IndexToPathSpec Model.BmtreePath Model.BmtreeIndex
  Model.BmtreeIndexToPath Proofs.BmtreePathProofs.
Import ListNotations.
Open Scope Z_scope.

(** * (b) pure descent and the pre-order index are inverse *)

Lemma node_at_length h : forall idx, (length (node_at h idx) <= h)%nat.
Proof.
  induction h as [|k IH]; intros idx; cbn [node_at]; [cbn; lia|].
  destruct (idx <=? 0); [cbn; lia|].
  destruct (idx <? 2 ^ Z.of_nat (S k)); cbn [length]; specialize (IH (idx - 1)) as H1;
    specialize (IH (idx - 2 ^ Z.of_nat (S k))) as H2; lia.
Qed.

Lemma node_at_0 h : node_at h 0 = [].
Proof. destruct h; reflexivity. Qed.

(** one step of the descent, with the range of the child index *)
Lemma node_at_step k idx : 0 < idx < 2 ^ (Z.of_nat (S k) + 1) - 1 ->
  let b := 2 ^ Z.of_nat (S k) <=? idx in
  let idx' := if b then idx - 2 ^ Z.of_nat (S k) else idx - 1 in
  node_at (S k) idx = b :: node_at k idx' /\ 0 <= idx' < 2 ^ (Z.of_nat k + 1) - 1.
Proof.
  intros H. cbn zeta. cbn [node_at].
  rewrite pow2_succ in H by lia. replace (Z.of_nat k + 1) with (Z.of_nat (S k)) by lia.
  destruct (Z.leb_spec idx 0); [lia|].
  destruct (Z.ltb_spec idx (2 ^ Z.of_nat (S k))), (Z.leb_spec (2 ^ Z.of_nat (S k)) idx); try lia;
    (split; [reflexivity|lia]).
Qed.

Lemma full_rank_node_at h : forall idx, 0 <= idx < 2 ^ (Z.of_nat h + 1) - 1 ->
  full_rank h (node_at h idx) = idx.
Proof.
  induction h as [|k IH]; intros idx H.
  - change (2 ^ (Z.of_nat 0 + 1) - 1) with 1 in H. cbn. lia.
  - destruct (Z.eq_dec idx 0) as [->|]; [reflexivity|].
    destruct (node_at_step k idx) as [E R]; [lia|]. rewrite E. cbn [full_rank].
    replace (S k - 1)%nat with k by lia. rewrite IH by exact R.
    destruct (2 ^ Z.of_nat (S k) <=? idx); lia.
Qed.

Lemma full_rank_bound : forall q h, (length q <= h)%nat -> 0 <= full_rank h q < 2 ^ (Z.of_nat h + 1) - 1.
Proof.
  induction q as [|b q IH]; intros h Hl.
  - cbn [full_rank]. pose proof (pow2_pos (Z.of_nat h)). rewrite pow2_succ by lia. lia.
  - cbn [length] in Hl. destruct h as [|k]; [lia|]. cbn [full_rank].
    replace (S k - 1)%nat with k by lia. specialize (IH k ltac:(lia)).
    rewrite (pow2_succ (Z.of_nat (S k))) by lia. replace (Z.of_nat k + 1) with (Z.of_nat (S k)) in IH by lia.
    destruct b; lia.
Qed.

Lemma node_at_full_rank : forall q h, (length q <= h)%nat -> node_at h (full_rank h q) = q.
Proof.
  induction q as [|b q IH]; intros h Hl; [apply node_at_0|].
  cbn [length] in Hl. destruct h as [|k]; [lia|].
  pose proof (full_rank_bound (b :: q) (S k) ltac:(cbn [length]; lia)) as HB.
  pose proof (full_rank_bound q k ltac:(lia)) as HB'.
  replace (Z.of_nat k + 1) with (Z.of_nat (S k)) in HB' by lia.
  cbn [full_rank] in *. replace (S k - 1)%nat with k in * by lia.
  destruct (node_at_step k (1 + (if b then 2 ^ Z.of_nat (S k) - 1 else 0) + full_rank k q)) as [E _];
    [destruct b; lia|].
  rewrite E. destruct b.
  - destruct (Z.leb_spec (2 ^ Z.of_nat (S k)) (1 + (2 ^ Z.of_nat (S k) - 1) + full_rank k q)); [|lia].
    f_equal. rewrite <- (IH k) at 2 by lia. f_equal. lia.
  - destruct (Z.leb_spec (2 ^ Z.of_nat (S k)) (1 + 0 + full_rank k q)); [lia|].
    f_equal. rewrite <- (IH k) at 2 by lia. f_equal. lia.
Qed.

(** * (b') the closed form of PathToIndex on a full tree is the pre-order index *)

Lemma full_rank_closed : forall q h, (length q <= h)%nat ->
  full_rank h q = 2 * valL h q + Z.of_nat (length q) - count_true q.
Proof.
  induction q as [|b q IH]; intros h Hl.
  - rewrite valL_nil. reflexivity.
  - cbn [length] in Hl. destruct h as [|k]; [lia|].
    rewrite valL_cons by lia. cbn [full_rank count_true length].
    replace (S k - 1)%nat with k by lia. rewrite IH by lia. rewrite pow2_S.
    destruct b; cbn [Z.b2z]; lia.
Qed.

Lemma popcount_valL h q : (length q <= h)%nat -> popcount (valL h q) = count_true q.
Proof.
  intros Hl. unfold valL.
  replace (Z.of_nat h - Z.of_nat (length q)) with (Z.of_nat (h - length q)) by lia.
  pose proof (val_msb_bound q). rewrite popcount_mul_pow2 by lia. apply popcount_val_msb.
Qed.

Lemma popcount_maskL h q : (length q <= h)%nat -> popcount (maskL h q) = Z.of_nat (length q).
Proof.
  intros Hl. unfold maskL, Mask.
  replace (Z.of_nat h - Z.of_nat (length q)) with (Z.of_nat (h - length q)) by lia.
  pose proof (pow2_pos (Z.of_nat (length q))).
  rewrite popcount_mul_pow2 by lia. apply popcount_ones.
Qed.

Lemma fullTreeIndex_enc h q : (h <= 30)%nat -> (length q <= h)%nat ->
  fullTreeIndex (enc h q) = full_rank h q.
Proof.
  intros Hh Hl. unfold fullTreeIndex.
  pose proof (enc_u64 h q ltac:(lia) Hl) as HU.
  pose proof (valL_lt h q Hl) as HV. pose proof (maskL_lt32 h q ltac:(lia) Hl) as HM.
  assert (H30 : 2 ^ Z.of_nat h <= 2 ^ 30) by (apply pow2_le; lia).
  rewrite shr64_div by lia. rewrite enc_div32 by lia.
  assert (Ex : Z.lxor (enc h q) 0xffffffff00000000
               = (2 ^ Z.of_nat 32 - 1 - valL h q) * 2 ^ Z.of_nat 32 + maskL h q).
  { change (2 ^ Z.of_nat 32) with (2 ^ 32).
    rewrite enc_split. change 0xffffffff00000000 with ((2 ^ 32 - 1) * 2 ^ 32 + 0).
    rewrite lxor_halves by lia. rewrite Z.lxor_0_r. rewrite lxor_ones_compl by lia. reflexivity. }
  rewrite Ex.
  assert (H32 : 2 ^ Z.of_nat 32 = 2 ^ 32) by reflexivity.
  rewrite popcount_concat by lia.
  rewrite popcount_compl by lia.
  rewrite popcount_valL, popcount_maskL by exact Hl.
  pose proof (count_true_nonneg q). pose proof (count_true_le_length q).
  rewrite (i32_id (valL h q)) by lia.
  unfold sshl32. change (1 <? 32) with true. cbn iota. change (2 ^ 1) with 2.
  rewrite (i32_id (valL h q * 2)) by lia.
  rewrite (i32_id (Z.of_nat 32 - count_true q + Z.of_nat (length q))) by lia.
  rewrite <- Z.add_opp_r, i32_add_l.
  rewrite full_rank_closed by exact Hl.
  pose proof (full_rank_bound q h Hl) as HB. rewrite full_rank_closed in HB by exact Hl.
  assert (2 ^ (Z.of_nat h + 1) <= 2 ^ 31) by (apply pow2_le; lia).
  rewrite i32_id by lia. lia.
Qed.

Lemma Height_full h : (h <= 30)%nat -> Height (2 ^ (Z.of_nat h + 1) - 1) = Z.of_nat h.
Proof.
  intros Hh.
  assert (F : forallb (fun k => Height (2 ^ (Z.of_nat k + 1) - 1) =? Z.of_nat k) (seq 0 31) = true)
    by (vm_compute; reflexivity).
  rewrite forallb_forall in F. apply Z.eqb_eq, F, in_seq. lia.
Qed.

Lemma PathToIndex_fullT h path : (h <= 30)%nat ->
  PathToIndex (fullT h) path = Some (fullTreeIndex path).
Proof.
  intros Hh. unfold PathToIndex, fullT. rewrite Height_full by exact Hh.
  assert (H31 : 2 ^ (Z.of_nat h + 1) <= 2 ^ 31) by (apply pow2_le; lia).
  pose proof (pow2_pos (Z.of_nat h + 1)).
  unfold tblMaskUpto, tbl.
  destruct (Z.leb_spec 0 (Z.of_nat h)); [|lia]. destruct (Z.ltb_spec (Z.of_nat h) 64); [|lia].
  cbn [andb]. unfold MaskUpto. rewrite u64_id by lia. rewrite Z.eqb_refl. reflexivity.
Qed.

Lemma PathToIndex_full h q : (h <= 30)%nat -> (length q <= h)%nat ->
  PathToIndex (fullT h) (enc h q) = Some (full_rank h q).
Proof. intros Hh Hl. rewrite PathToIndex_fullT by exact Hh. now rewrite fullTreeIndex_enc. Qed.

(** * (a) the descent loop and the table = pure descent *)

(** the machine state at remaining height c of a tree of height h, after the
    path bits of value A have been fixed: [mask] and [p2] (= path word * 2) *)
Definition maskAt (c : nat) : Z := c01 * 2 ^ Z.of_nat c.
Definition p2At (h c : nat) (A : Z) : Z :=
  (A * 2 ^ (Z.of_nat c + 1)) * 2 ^ 32 + (2 ^ Z.of_nat (h - c) - 1) * 2 ^ (Z.of_nat c + 1).

Lemma maskAt_split c : maskAt c = 2 ^ Z.of_nat c * 2 ^ 32 + 2 ^ Z.of_nat c.
Proof. unfold maskAt, c01. change 0x0100000001 with (2 ^ 32 + 1). lia. Qed.

Lemma mask15 c : (c <= 30)%nat -> (Z.land (maskAt c) 15 =? 0) = (4 <=? c)%nat.
Proof.
  intros Hc.
  assert (F : forallb (fun c => Bool.eqb (Z.land (maskAt c) 15 =? 0) (4 <=? c)%nat) (seq 0 31) = true)
    by (vm_compute; reflexivity).
  rewrite forallb_forall in F. apply eqb_prop, F, in_seq. lia.
Qed.

Lemma idxword_eq idx : 0 <= idx < 2 ^ 31 -> idxword idx = idx * 2 ^ 32 + (2 ^ 32 - 1).
Proof.
  intros H. unfold idxword. rewrite u64_id by lia. rewrite shl64_small by lia.
  change 0xffffffff with (2 ^ 32 - 1). apply lor_hi_lo; lia.
Qed.

Lemma pow2_le_30 c : (c <= 30)%nat -> 0 < 2 ^ Z.of_nat c <= 2 ^ 30.
Proof. intros. split; [apply pow2_pos; lia|apply pow2_le; lia]. Qed.

Lemma mb_eq idx c : 0 <= idx < 2 ^ 31 -> (c <= 30)%nat ->
  Z.land (idxword idx) (maskAt c)
  = (if Z.testbit idx (Z.of_nat c) then 2 ^ Z.of_nat c else 0) * 2 ^ 32 + 2 ^ Z.of_nat c.
Proof.
  intros Hi Hc. pose proof (pow2_le_30 c Hc).
  rewrite idxword_eq, maskAt_split by lia. rewrite land_halves by lia.
  rewrite land_bit_testbit by lia. f_equal.
  rewrite Z.land_comm. change (2 ^ 32 - 1) with (Z.ones 32). rewrite Z.land_ones by lia.
  apply Z.mod_small. lia.
Qed.

(** one iteration of the loop = one step of the pure descent *)
Lemma loop_step h c' A idx f : (h <= 30)%nat -> (3 <= c')%nat -> (S c' <= h)%nat ->
  0 < idx < 2 ^ (Z.of_nat (S c') + 1) - 1 ->
  let b := 2 ^ Z.of_nat (S c') <=? idx in
  descent_loop (S f) (p2At h (S c') A) idx (maskAt (S c'))
  = descent_loop f (p2At h c' (2 * A + Z.b2z b))
      (if b then idx - 2 ^ Z.of_nat (S c') else idx - 1) (maskAt c').
Proof.
  intros Hh Hc Hch Hi b.
  pose proof (pow2_le_30 (S c') ltac:(lia)) as HP.
  assert (Hi31 : 0 <= idx < 2 ^ 31).
  { rewrite pow2_succ in Hi by lia. lia. }
  cbn [descent_loop]. rewrite mask15 by lia.
  destruct (Nat.leb_spec 4 (S c')); [|lia]. destruct (Z.ltb_spec 0 idx); [|lia]. cbn [andb].
  rewrite mb_eq by lia. rewrite testbit_top by lia. fold b.
  set (bv := if b then 2 ^ Z.of_nat (S c') else 0).
  assert (Hbv : 0 <= bv < 2 ^ (Z.of_nat (S c') + 1)).
  { rewrite pow2_succ by lia. unfold bv. destruct b; lia. }
  rewrite shr64_div by lia. rewrite div_hi_lo by lia.
  rewrite (i32_id bv) by (unfold bv; destruct b; lia).
  f_equal.
  - (* p2 *)
    unfold p2At.
    replace (h - c')%nat with (S (h - S c')) by lia.
    rewrite (pow2_S (h - S c')).
    replace (Z.of_nat c' + 1) with (Z.of_nat (S c')) by lia.
    set (Q := 2 ^ Z.of_nat (h - S c')).
    set (P := 2 ^ Z.of_nat (S c')) in *.
    set (k := Z.of_nat (S c') + 1) in *.
    assert (HQ : 0 < Q) by (apply pow2_pos; lia).
    assert (Hk : 2 ^ k = 2 * P) by (apply pow2_succ; lia).
    assert (HQP : Q * P = 2 ^ Z.of_nat h).
    { unfold Q, P. rewrite <- Z.pow_add_r by lia. f_equal. lia. }
    pose proof (pow2_le_30 h Hh).
    rewrite lor_halves by nia.
    rewrite (lor_hi_lo A bv k) by lia.
    rewrite (lor_hi_lo (Q - 1) P k) by lia.
    rewrite Hk. unfold bv. destruct b; cbn [Z.b2z]; lia.
  - (* index *)
    unfold bv. destruct b eqn:Eb; unfold b in Eb.
    + apply Z.leb_le in Eb. destruct (Z.eqb_spec (2 ^ Z.of_nat (S c')) 0); [lia|]. apply i32_id. lia.
    + rewrite Z.eqb_refl. apply i32_id. lia.
  - (* mask *)
    unfold maskAt. rewrite shr64_div by lia. rewrite pow2_S.
    replace (c01 * (2 * 2 ^ Z.of_nat c')) with (c01 * 2 ^ Z.of_nat c' * 2 ^ 1) by (change (2 ^ 1) with 2; lia).
    apply Z.div_mul. lia.
Qed.

(** the table rows are the pure descent on the trees of height <= 3: the
    whole domain (1 + 3 + 7 + 15 entries) by computation *)
Definition table_row_ok (c i : nat) : bool :=
  implb (Z.of_nat i <? 2 ^ (Z.of_nat c + 1) - 1)
    (match idxToPath_at (Z.land (maskAt c) 15) (Z.of_nat i) with
     | Some t => t =? enc c (node_at c (Z.of_nat i))
     | None => false
     end).

Lemma table_rows c idx : (c <= 3)%nat -> 0 <= idx < 2 ^ (Z.of_nat c + 1) - 1 ->
  idxToPath_at (Z.land (maskAt c) 15) idx = Some (enc c (node_at c idx)).
Proof.
  intros Hc Hi.
  assert (F : forallb (fun c => forallb (table_row_ok c) (seq 0 15)) (seq 0 4) = true)
    by (vm_compute; reflexivity).
  rewrite forallb_forall in F. specialize (F c ltac:(apply in_seq; lia)).
  rewrite forallb_forall in F.
  assert (2 ^ (Z.of_nat c + 1) <= 2 ^ 4) by (apply pow2_le; lia).
  specialize (F (Z.to_nat idx) ltac:(apply in_seq; lia)).
  unfold table_row_ok in F. rewrite Z2Nat.id in F by lia.
  destruct (Z.ltb_spec idx (2 ^ (Z.of_nat c + 1) - 1)); [|lia]. cbn [implb] in F.
  destruct (idxToPath_at (Z.land (maskAt c) 15) idx); [|discriminate].
  apply Z.eqb_eq in F. now subst.
Qed.

(** the last statement: [(p2 >> 1) | table] is the word of the whole node *)
Lemma combine_words h c q0 q1 : (h <= 30)%nat -> (c <= h)%nat -> length q0 = (h - c)%nat ->
  (length q1 <= c)%nat ->
  Z.lor (shr64 (p2At h c (val_msb q0)) 1) (enc c q1) = enc h (q0 ++ q1).
Proof.
  intros Hh Hc H0 H1.
  pose proof (pow2_le_30 h Hh) as HPh. pose proof (pow2_le_30 c ltac:(lia)) as HPc.
  pose proof (val_msb_bound q0) as HA. rewrite H0 in HA.
  set (A := val_msb q0) in *.
  set (P := 2 ^ Z.of_nat c) in *. set (Q := 2 ^ Z.of_nat (h - c)) in *.
  assert (HQP : Q * P = 2 ^ Z.of_nat h).
  { unfold Q, P. rewrite <- Z.pow_add_r by lia. f_equal. lia. }
  assert (HQ : 0 < Q) by (apply pow2_pos; lia).
  assert (E : shr64 (p2At h c A) 1 = (A * P) * 2 ^ 32 + (Q - 1) * P).
  { rewrite shr64_div by lia. unfold p2At. rewrite pow2_succ by lia. fold P Q.
    replace (A * (2 * P) * 2 ^ 32 + (Q - 1) * (2 * P)) with ((A * P * 2 ^ 32 + (Q - 1) * P) * 2 ^ 1)
      by (change (2 ^ 1) with 2; lia).
    apply Z.div_mul. lia. }
  rewrite E, (enc_split c q1).
  pose proof (valL_lt c q1 H1) as HV. pose proof (maskL_bound c q1 H1) as HM. fold P in HV, HM.
  rewrite lor_halves by nia. unfold P.
  rewrite (lor_hi_lo A (valL c q1) (Z.of_nat c)) by (fold P; lia).
  rewrite (lor_hi_lo (Q - 1) (maskL c q1) (Z.of_nat c)) by (fold P; lia).
  fold P.
  rewrite enc_split.
  assert (Hl : (length (q0 ++ q1) <= h)%nat) by (rewrite app_length; lia).
  rewrite (maskL_eq h _ Hl), (maskL_eq c q1 H1). fold P.
  unfold valL. rewrite val_msb_app. fold A. rewrite app_length, H0.
  replace (Z.of_nat h - Z.of_nat (h - c + length q1)) with (Z.of_nat c - Z.of_nat (length q1)) by lia.
  assert (HP : P = 2 ^ (Z.of_nat c - Z.of_nat (length q1)) * 2 ^ Z.of_nat (length q1))
    by (apply pow2_split; lia).
  rewrite <- HQP. rewrite HP. ring.
Qed.

Lemma loop_exit fuel p2 idx mask : (Z.land mask 15 =? 0) && (0 <? idx) = false ->
  descent_loop fuel p2 idx mask = Some (p2, idx, mask).
Proof. intros H. destruct fuel; cbn [descent_loop]; rewrite H; reflexivity. Qed.

(** loop + table from any reachable state = pure descent from that state *)
Lemma loop_result h : (h <= 30)%nat -> forall c q0 idx fuel,
  (c <= h)%nat -> length q0 = (h - c)%nat -> 0 <= idx < 2 ^ (Z.of_nat c + 1) - 1 -> (c <= fuel)%nat ->
  exists p2' idx' mask' t,
    descent_loop fuel (p2At h c (val_msb q0)) idx (maskAt c) = Some (p2', idx', mask') /\
    idxToPath_at (Z.land mask' 15) idx' = Some t /\
    Z.lor (shr64 p2' 1) t = enc h (q0 ++ node_at c idx).
Proof.
  intros Hh. induction c as [|c' IH]; intros q0 idx fuel Hc H0 Hi Hf.
  - (* height 0: the table *)
    exists (p2At h 0 (val_msb q0)), idx, (maskAt 0), (enc 0 (node_at 0 idx)). split; [|split].
    + apply loop_exit. rewrite mask15 by lia. reflexivity.
    + apply table_rows; [lia|exact Hi].
    + apply combine_words; try lia. apply node_at_length.
  - destruct (Nat.leb_spec 4 (S c')) as [H4|H4]; [destruct (Z.ltb_spec 0 idx) as [Hp|Hp]|].
    + (* one iteration *)
      destruct fuel as [|f]; [lia|].
      rewrite loop_step by lia.
      destruct (node_at_step c' idx ltac:(lia)) as [E R]. cbn zeta in E, R.
      set (b := 2 ^ Z.of_nat (S c') <=? idx) in *.
      set (idx1 := if b then idx - 2 ^ Z.of_nat (S c') else idx - 1) in *.
      destruct (IH (q0 ++ [b]) idx1 f ltac:(lia) ltac:(rewrite app_length; cbn [length]; lia) R ltac:(lia))
        as (p2' & idx' & mask' & t & L1 & L2 & L3).
      rewrite val_msb_snoc in L1.
      exists p2', idx', mask', t. split; [exact L1|split; [exact L2|]].
      rewrite L3, E, <- app_assoc. reflexivity.
    + (* index 0 above the table: row 0 *)
      assert (idx = 0) by lia. subst idx.
      exists (p2At h (S c') (val_msb q0)), 0, (maskAt (S c')), 0. split; [|split].
      * apply loop_exit. apply andb_false_r.
      * assert (M := mask15 (S c') ltac:(lia)). destruct (Nat.leb_spec 4 (S c')); [|lia].
        apply Z.eqb_eq in M. rewrite M. reflexivity.
      * rewrite <- (enc_nil (S c')). rewrite node_at_0. apply combine_words; try lia. cbn; lia.
    + (* height <= 3: the table *)
      exists (p2At h (S c') (val_msb q0)), idx, (maskAt (S c')), (enc (S c') (node_at (S c') idx)).
      split; [|split].
      * apply loop_exit. rewrite mask15 by lia. destruct (Nat.leb_spec 4 (S c')); [lia|reflexivity].
      * apply table_rows; [lia|exact Hi].
      * apply combine_words; try lia. apply node_at_length.
Qed.

(** * (c) the common-prefix shortcut = [fixed] pure-descent steps *)

(** at the level of numbers: if the index is [val_msb q0 * 2^d + low] with
    [low >= |q0|] (so that the at most |q0| decrements of the left turns never
    borrow from the copied bits), the pure descent walks exactly along q0 *)
Lemma node_at_fixed : forall (q0 : list bool) (c : nat) (low : Z),
  Z.of_nat (length q0) <= low < 2 ^ (Z.of_nat c + 1) ->
  val_msb q0 * 2 ^ (Z.of_nat c + 1) + low < 2 ^ (Z.of_nat (c + length q0) + 1) - 1 ->
  node_at (c + length q0) (val_msb q0 * 2 ^ (Z.of_nat c + 1) + low)
    = q0 ++ node_at c (low - (Z.of_nat (length q0) - count_true q0)) /\
  0 <= low - (Z.of_nat (length q0) - count_true q0) < 2 ^ (Z.of_nat c + 1) - 1.
Proof.
  induction q0 as [|b q IH]; intros c low Hlow Hidx.
  - cbn [length] in *. rewrite val_msb_nil in *. rewrite Nat.add_0_r in *.
    cbn [count_true app]. change (Z.of_nat 0) with 0 in *.
    replace (low - (0 - 0)) with low by lia. replace (0 * 2 ^ (Z.of_nat c + 1) + low) with low in * by lia.
    split; [reflexivity|lia].
  - cbn [length] in *. rewrite val_msb_cons in *.
    replace (c + S (length q))%nat with (S (c + length q)) in * by lia.
    specialize (IH c).
    set (d := Z.of_nat c + 1) in *.
    pose proof (val_msb_bound q) as HV.
    assert (Hd : 0 < 2 ^ d) by (apply pow2_pos; lia).
    assert (HP : 2 ^ Z.of_nat (S (c + length q)) = 2 ^ Z.of_nat (length q) * 2 ^ d).
    { unfold d. rewrite <- Z.pow_add_r by lia. f_equal. lia. }
    set (L := 2 ^ Z.of_nat (length q)) in *.
    set (idx := (Z.b2z b * L + val_msb q) * 2 ^ d + low) in *.
    assert (Hnn : 0 <= (Z.b2z b * L + val_msb q) * 2 ^ d)
      by (apply Z.mul_nonneg_nonneg; [destruct b; cbn [Z.b2z]; lia|lia]).
    destruct (node_at_step (c + length q) idx) as [E R]; [split; [unfold idx; lia|exact Hidx]|].
    cbn zeta in E, R. rewrite HP in E, R.
    replace (Z.of_nat (c + length q) + 1) with (Z.of_nat (S (c + length q))) in R by lia.
    rewrite HP in R.
    destruct b; cbn [Z.b2z count_true] in *.
    + destruct (Z.leb_spec (L * 2 ^ d) idx) as [_|Hc]; [|unfold idx in Hc; nia].
      replace (idx - L * 2 ^ d) with (val_msb q * 2 ^ d + low) in * by (unfold idx; lia).
      destruct (IH low ltac:(lia)) as [IH1 IH2].
      { replace (Z.of_nat (c + length q) + 1) with (Z.of_nat (S (c + length q))) by lia. rewrite HP. lia. }
      rewrite E, IH1. split; [cbn [app]; do 3 f_equal; lia|lia].
    + destruct (Z.leb_spec (L * 2 ^ d) idx) as [Hc|_]; [unfold idx in Hc; nia|].
      replace (idx - 1) with (val_msb q * 2 ^ d + (low - 1)) in * by (unfold idx; lia).
      destruct (IH (low - 1) ltac:(lia)) as [IH1 IH2].
      { replace (Z.of_nat (c + length q) + 1) with (Z.of_nat (S (c + length q))) by lia. rewrite HP. lia. }
      rewrite E, IH1. split; [cbn [app]; do 3 f_equal; lia|lia].
Qed.
