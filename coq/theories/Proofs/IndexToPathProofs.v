(** Proofs for C05: IndexToPath inverts the full-tree PathToIndex.

    Route (DESIGN section 6, C05): the intermediate specification is the pure
    descent [node_at] of Spec/IndexToPathSpec.v.
      (a) table rows = pure descent for heights <= 3 (the whole domain, vm_compute);
          code loop + table = pure descent for every height ([loop_result]);
      (b) pure descent is the inverse of the pre-order index [full_rank]
          ([full_rank_node_at], [node_at_full_rank]), and the closed form of
          PathToIndex on a full tree is [full_rank] ([PathToIndex_full]);
      (c) the common-prefix shortcut = exactly [fixed] pure-descent steps
          ([node_at_fixed] at the level of numbers, [shortcut_spec] for the
          machine arithmetic). *)
From Coq Require Import ZArith List Lia Bool.
From Low Require Import Lib.MachInt Lib.Bits Lib.BitSeq Lib.Lex Lib.Bytes Lib.BitsExtra_tree
  Lib.BitsExtra_idx5 Spec.Bmtree Spec.IndexToPathSpec Model.BmtreePath Model.BmtreeIndex
  Model.BmtreeIndexToPath Proofs.BmtreePathProofs.
Import ListNotations.
Open Scope Z_scope.

(** * (b) pure descent and the pre-order index are inverse *)

Lemma node_at_length h : forall idx, (length (node_at h idx) <= h)%nat.
Proof.
  induction h as [|k IH]; intros idx; cbn [node_at]; [cbn; lia|].
  destruct (idx <=? 0); [cbn; lia|].
  destruct (idx <? 2 ^ Z.of_nat (S k)); cbn [length]; specialize (IH (idx - 1)) as H1;
    specialize (IH (idx - 2 ^ Z.of_nat (S k))) as H2; lia.
Qed.

Lemma node_at_0 h : node_at h 0 = [].
Proof. destruct h; reflexivity. Qed.

(** one step of the descent, with the range of the child index *)
Lemma node_at_step k idx : 0 < idx < 2 ^ (Z.of_nat (S k) + 1) - 1 ->
  let b := 2 ^ Z.of_nat (S k) <=? idx in
  let idx' := if b then idx - 2 ^ Z.of_nat (S k) else idx - 1 in
  node_at (S k) idx = b :: node_at k idx' /\ 0 <= idx' < 2 ^ (Z.of_nat k + 1) - 1.
Proof.
  intros H. cbn zeta. cbn [node_at].
  rewrite pow2_succ in H by lia. replace (Z.of_nat k + 1) with (Z.of_nat (S k)) by lia.
  destruct (Z.leb_spec idx 0); [lia|].
  destruct (Z.ltb_spec idx (2 ^ Z.of_nat (S k))), (Z.leb_spec (2 ^ Z.of_nat (S k)) idx); try lia;
    (split; [reflexivity|lia]).
Qed.

Lemma full_rank_node_at h : forall idx, 0 <= idx < 2 ^ (Z.of_nat h + 1) - 1 ->
  full_rank h (node_at h idx) = idx.
Proof.
  induction h as [|k IH]; intros idx H.
  - change (2 ^ (Z.of_nat 0 + 1) - 1) with 1 in H. cbn. lia.
  - destruct (Z.eq_dec idx 0) as [->|]; [reflexivity|].
    destruct (node_at_step k idx) as [E R]; [lia|]. rewrite E. cbn [full_rank].
    replace (S k - 1)%nat with k by lia. rewrite IH by exact R.
    destruct (2 ^ Z.of_nat (S k) <=? idx); lia.
Qed.

Lemma full_rank_bound : forall q h, (length q <= h)%nat -> 0 <= full_rank h q < 2 ^ (Z.of_nat h + 1) - 1.
Proof.
  induction q as [|b q IH]; intros h Hl.
  - cbn [full_rank]. pose proof (pow2_pos (Z.of_nat h)). rewrite pow2_succ by lia. lia.
  - cbn [length] in Hl. destruct h as [|k]; [lia|]. cbn [full_rank].
    replace (S k - 1)%nat with k by lia. specialize (IH k ltac:(lia)).
    rewrite (pow2_succ (Z.of_nat (S k))) by lia. replace (Z.of_nat k + 1) with (Z.of_nat (S k)) in IH by lia.
    destruct b; lia.
Qed.

Lemma node_at_full_rank : forall q h, (length q <= h)%nat -> node_at h (full_rank h q) = q.
Proof.
  induction q as [|b q IH]; intros h Hl; [apply node_at_0|].
  cbn [length] in Hl. destruct h as [|k]; [lia|].
  pose proof (full_rank_bound (b :: q) (S k) ltac:(cbn [length]; lia)) as HB.
  pose proof (full_rank_bound q k ltac:(lia)) as HB'.
  replace (Z.of_nat k + 1) with (Z.of_nat (S k)) in HB' by lia.
  cbn [full_rank] in *. replace (S k - 1)%nat with k in * by lia.
  destruct (node_at_step k (1 + (if b then 2 ^ Z.of_nat (S k) - 1 else 0) + full_rank k q)) as [E _];
    [destruct b; lia|].
  rewrite E. destruct b.
  - destruct (Z.leb_spec (2 ^ Z.of_nat (S k)) (1 + (2 ^ Z.of_nat (S k) - 1) + full_rank k q)); [|lia].
    f_equal. rewrite <- (IH k) at 2 by lia. f_equal. lia.
  - destruct (Z.leb_spec (2 ^ Z.of_nat (S k)) (1 + 0 + full_rank k q)); [lia|].
    f_equal. rewrite <- (IH k) at 2 by lia. f_equal. lia.
Qed.

(** * (b') the closed form of PathToIndex on a full tree is the pre-order index *)

Lemma full_rank_closed : forall q h, (length q <= h)%nat ->
  full_rank h q = 2 * valL h q + Z.of_nat (length q) - count_true q.
Proof.
  induction q as [|b q IH]; intros h Hl.
  - rewrite valL_nil. reflexivity.
  - cbn [length] in Hl. destruct h as [|k]; [lia|].
    rewrite valL_cons by lia. cbn [full_rank count_true length].
    replace (S k - 1)%nat with k by lia. rewrite IH by lia. rewrite pow2_S.
    destruct b; cbn [Z.b2z]; lia.
Qed.

Lemma popcount_valL h q : (length q <= h)%nat -> popcount (valL h q) = count_true q.
Proof.
  intros Hl. unfold valL.
  replace (Z.of_nat h - Z.of_nat (length q)) with (Z.of_nat (h - length q)) by lia.
  pose proof (val_msb_bound q). rewrite popcount_mul_pow2 by lia. apply popcount_val_msb.
Qed.

Lemma popcount_maskL h q : (length q <= h)%nat -> popcount (maskL h q) = Z.of_nat (length q).
Proof.
  intros Hl. unfold maskL, Mask.
  replace (Z.of_nat h - Z.of_nat (length q)) with (Z.of_nat (h - length q)) by lia.
  pose proof (pow2_pos (Z.of_nat (length q))).
  rewrite popcount_mul_pow2 by lia. apply popcount_ones.
Qed.

Lemma fullTreeIndex_enc h q : (h <= 30)%nat -> (length q <= h)%nat ->
  fullTreeIndex (enc h q) = full_rank h q.
Proof.
  intros Hh Hl. unfold fullTreeIndex.
  pose proof (enc_u64 h q ltac:(lia) Hl) as HU.
  pose proof (valL_lt h q Hl) as HV. pose proof (maskL_lt32 h q ltac:(lia) Hl) as HM.
  assert (H30 : 2 ^ Z.of_nat h <= 2 ^ 30) by (apply pow2_le; lia).
  rewrite shr64_div by lia. rewrite enc_div32 by lia.
  assert (Ex : Z.lxor (enc h q) 0xffffffff00000000
               = (2 ^ Z.of_nat 32 - 1 - valL h q) * 2 ^ Z.of_nat 32 + maskL h q).
  { change (2 ^ Z.of_nat 32) with (2 ^ 32).
    rewrite enc_split. change 0xffffffff00000000 with ((2 ^ 32 - 1) * 2 ^ 32 + 0).
    rewrite lxor_halves by lia. rewrite Z.lxor_0_r. rewrite lxor_ones_compl by lia. reflexivity. }
  rewrite Ex.
  assert (H32 : 2 ^ Z.of_nat 32 = 2 ^ 32) by reflexivity.
  rewrite popcount_concat by lia.
  rewrite popcount_compl by lia.
  rewrite popcount_valL, popcount_maskL by exact Hl.
  pose proof (count_true_nonneg q). pose proof (count_true_le_length q).
  rewrite (i32_id (valL h q)) by lia.
  unfold sshl32. change (1 <? 32) with true. cbn iota. change (2 ^ 1) with 2.
  rewrite (i32_id (valL h q * 2)) by lia.
  rewrite (i32_id (Z.of_nat 32 - count_true q + Z.of_nat (length q))) by lia.
  rewrite <- Z.add_opp_r, i32_add_l.
  rewrite full_rank_closed by exact Hl.
  pose proof (full_rank_bound q h Hl) as HB. rewrite full_rank_closed in HB by exact Hl.
  assert (2 ^ (Z.of_nat h + 1) <= 2 ^ 31) by (apply pow2_le; lia).
  rewrite i32_id by lia. lia.
Qed.

Lemma Height_full h : (h <= 30)%nat -> Height (2 ^ (Z.of_nat h + 1) - 1) = Z.of_nat h.
Proof.
  intros Hh.
  assert (F : forallb (fun k => Height (2 ^ (Z.of_nat k + 1) - 1) =? Z.of_nat k) (seq 0 31) = true)
    by (vm_compute; reflexivity).
  rewrite forallb_forall in F. apply Z.eqb_eq, F, in_seq. lia.
Qed.

Lemma PathToIndex_fullT h path : (h <= 30)%nat ->
  PathToIndex (fullT h) path = Some (fullTreeIndex path).
Proof.
  intros Hh. unfold PathToIndex, fullT. rewrite Height_full by exact Hh.
  assert (H31 : 2 ^ (Z.of_nat h + 1) <= 2 ^ 31) by (apply pow2_le; lia).
  pose proof (pow2_pos (Z.of_nat h + 1)).
  unfold tblMaskUpto, tbl.
  destruct (Z.leb_spec 0 (Z.of_nat h)); [|lia]. destruct (Z.ltb_spec (Z.of_nat h) 64); [|lia].
  cbn [andb]. unfold MaskUpto. rewrite u64_id by lia. rewrite Z.eqb_refl. reflexivity.
Qed.

Lemma PathToIndex_full h q : (h <= 30)%nat -> (length q <= h)%nat ->
  PathToIndex (fullT h) (enc h q) = Some (full_rank h q).
Proof. intros Hh Hl. rewrite PathToIndex_fullT by exact Hh. now rewrite fullTreeIndex_enc. Qed.

(** * (a) the descent loop and the table = pure descent *)

(** the machine state at remaining height c of a tree of height h, after the
    path bits of value A have been fixed: [mask] and [p2] (= path word * 2) *)
Definition maskAt (c : nat) : Z := c01 * 2 ^ Z.of_nat c.
Definition p2At (h c : nat) (A : Z) : Z :=
  (A * 2 ^ (Z.of_nat c + 1)) * 2 ^ 32 + (2 ^ Z.of_nat (h - c) - 1) * 2 ^ (Z.of_nat c + 1).

Lemma maskAt_split c : maskAt c = 2 ^ Z.of_nat c * 2 ^ 32 + 2 ^ Z.of_nat c.
Proof. unfold maskAt, c01. change 0x0100000001 with (2 ^ 32 + 1). lia. Qed.

Lemma mask15 c : (c <= 30)%nat -> (Z.land (maskAt c) 15 =? 0) = (4 <=? c)%nat.
Proof.
  intros Hc.
  assert (F : forallb (fun c => Bool.eqb (Z.land (maskAt c) 15 =? 0) (4 <=? c)%nat) (seq 0 31) = true)
    by (vm_compute; reflexivity).
  rewrite forallb_forall in F. apply eqb_prop, F, in_seq. lia.
Qed.

Lemma idxword_eq idx : 0 <= idx < 2 ^ 31 -> idxword idx = idx * 2 ^ 32 + (2 ^ 32 - 1).
Proof.
  intros H. unfold idxword. rewrite u64_id by lia. rewrite shl64_small by lia.
  change 0xffffffff with (2 ^ 32 - 1). apply lor_hi_lo; lia.
Qed.

Lemma pow2_le_30 c : (c <= 30)%nat -> 0 < 2 ^ Z.of_nat c <= 2 ^ 30.
Proof. intros. split; [apply pow2_pos; lia|apply pow2_le; lia]. Qed.

Lemma mb_eq idx c : 0 <= idx < 2 ^ 31 -> (c <= 30)%nat ->
  Z.land (idxword idx) (maskAt c)
  = (if Z.testbit idx (Z.of_nat c) then 2 ^ Z.of_nat c else 0) * 2 ^ 32 + 2 ^ Z.of_nat c.
Proof.
  intros Hi Hc. pose proof (pow2_le_30 c Hc).
  rewrite idxword_eq, maskAt_split by lia. rewrite land_halves by lia.
  rewrite land_bit_testbit by lia. f_equal.
  rewrite Z.land_comm. change (2 ^ 32 - 1) with (Z.ones 32). rewrite Z.land_ones by lia.
  apply Z.mod_small. lia.
Qed.

(** one iteration of the loop = one step of the pure descent *)
Lemma loop_step h c' A idx f : (h <= 30)%nat -> (3 <= c')%nat -> (S c' <= h)%nat ->
  0 < idx < 2 ^ (Z.of_nat (S c') + 1) - 1 ->
  let b := 2 ^ Z.of_nat (S c') <=? idx in
  descent_loop (S f) (p2At h (S c') A) idx (maskAt (S c'))
  = descent_loop f (p2At h c' (2 * A + Z.b2z b))
      (if b then idx - 2 ^ Z.of_nat (S c') else idx - 1) (maskAt c').
Proof.
  intros Hh Hc Hch Hi b.
  pose proof (pow2_le_30 (S c') ltac:(lia)) as HP.
  assert (Hi31 : 0 <= idx < 2 ^ 31).
  { rewrite pow2_succ in Hi by lia. lia. }
  cbn [descent_loop]. rewrite mask15 by lia.
  destruct (Nat.leb_spec 4 (S c')); [|lia]. destruct (Z.ltb_spec 0 idx); [|lia]. cbn [andb].
  rewrite mb_eq by lia. rewrite testbit_top by lia. fold b.
  set (bv := if b then 2 ^ Z.of_nat (S c') else 0).
  assert (Hbv : 0 <= bv < 2 ^ (Z.of_nat (S c') + 1)).
  { rewrite pow2_succ by lia. unfold bv. destruct b; lia. }
  rewrite shr64_div by lia. rewrite div_hi_lo by lia.
  rewrite (i32_id bv) by (unfold bv; destruct b; lia).
  f_equal.
  - (* p2 *)
    unfold p2At.
    replace (h - c')%nat with (S (h - S c')) by lia.
    rewrite (pow2_S (h - S c')).
    replace (Z.of_nat c' + 1) with (Z.of_nat (S c')) by lia.
    set (Q := 2 ^ Z.of_nat (h - S c')).
    set (P := 2 ^ Z.of_nat (S c')) in *.
    set (k := Z.of_nat (S c') + 1) in *.
    assert (HQ : 0 < Q) by (apply pow2_pos; lia).
    assert (Hk : 2 ^ k = 2 * P) by (apply pow2_succ; lia).
    assert (HQP : Q * P = 2 ^ Z.of_nat h).
    { unfold Q, P. rewrite <- Z.pow_add_r by lia. f_equal. lia. }
    pose proof (pow2_le_30 h Hh).
    rewrite lor_halves by nia.
    rewrite (lor_hi_lo A bv k) by lia.
    rewrite (lor_hi_lo (Q - 1) P k) by lia.
    rewrite Hk. unfold bv. destruct b; cbn [Z.b2z]; lia.
  - (* index *)
    unfold bv. destruct b eqn:Eb; unfold b in Eb.
    + apply Z.leb_le in Eb. destruct (Z.eqb_spec (2 ^ Z.of_nat (S c')) 0); [lia|]. apply i32_id. lia.
    + rewrite Z.eqb_refl. apply i32_id. lia.
  - (* mask *)
    unfold maskAt. rewrite shr64_div by lia. rewrite pow2_S.
    replace (c01 * (2 * 2 ^ Z.of_nat c')) with (c01 * 2 ^ Z.of_nat c' * 2 ^ 1) by (change (2 ^ 1) with 2; lia).
    apply Z.div_mul. lia.
Qed.

(** the table rows are the pure descent on the trees of height <= 3: the
    whole domain (1 + 3 + 7 + 15 entries) by computation *)
Definition table_row_ok (c i : nat) : bool :=
  implb (Z.of_nat i <? 2 ^ (Z.of_nat c + 1) - 1)
    (match idxToPath_at (Z.land (maskAt c) 15) (Z.of_nat i) with
     | Some t => t =? enc c (node_at c (Z.of_nat i))
     | None => false
     end).

Lemma table_rows c idx : (c <= 3)%nat -> 0 <= idx < 2 ^ (Z.of_nat c + 1) - 1 ->
  idxToPath_at (Z.land (maskAt c) 15) idx = Some (enc c (node_at c idx)).
Proof.
  intros Hc Hi.
  assert (F : forallb (fun c => forallb (table_row_ok c) (seq 0 15)) (seq 0 4) = true)
    by (vm_compute; reflexivity).
  rewrite forallb_forall in F. specialize (F c ltac:(apply in_seq; lia)).
  rewrite forallb_forall in F.
  assert (2 ^ (Z.of_nat c + 1) <= 2 ^ 4) by (apply pow2_le; lia).
  specialize (F (Z.to_nat idx) ltac:(apply in_seq; lia)).
  unfold table_row_ok in F. rewrite Z2Nat.id in F by lia.
  destruct (Z.ltb_spec idx (2 ^ (Z.of_nat c + 1) - 1)); [|lia]. cbn [implb] in F.
  destruct (idxToPath_at (Z.land (maskAt c) 15) idx); [|discriminate].
  apply Z.eqb_eq in F. now subst.
Qed.

(** the last statement: [(p2 >> 1) | table] is the word of the whole node *)
Lemma combine_words h c q0 q1 : (h <= 30)%nat -> (c <= h)%nat -> length q0 = (h - c)%nat ->
  (length q1 <= c)%nat ->
  Z.lor (shr64 (p2At h c (val_msb q0)) 1) (enc c q1) = enc h (q0 ++ q1).
Proof.
  intros Hh Hc H0 H1.
  pose proof (pow2_le_30 h Hh) as HPh. pose proof (pow2_le_30 c ltac:(lia)) as HPc.
  pose proof (val_msb_bound q0) as HA. rewrite H0 in HA.
  set (A := val_msb q0) in *.
  set (P := 2 ^ Z.of_nat c) in *. set (Q := 2 ^ Z.of_nat (h - c)) in *.
  assert (HQP : Q * P = 2 ^ Z.of_nat h).
  { unfold Q, P. rewrite <- Z.pow_add_r by lia. f_equal. lia. }
  assert (HQ : 0 < Q) by (apply pow2_pos; lia).
  assert (E : shr64 (p2At h c A) 1 = (A * P) * 2 ^ 32 + (Q - 1) * P).
  { rewrite shr64_div by lia. unfold p2At. rewrite pow2_succ by lia. fold P Q.
    replace (A * (2 * P) * 2 ^ 32 + (Q - 1) * (2 * P)) with ((A * P * 2 ^ 32 + (Q - 1) * P) * 2 ^ 1)
      by (change (2 ^ 1) with 2; lia).
    apply Z.div_mul. lia. }
  rewrite E, (enc_split c q1).
  pose proof (valL_lt c q1 H1) as HV. pose proof (maskL_bound c q1 H1) as HM. fold P in HV, HM.
  rewrite lor_halves by nia. unfold P.
  rewrite (lor_hi_lo A (valL c q1) (Z.of_nat c)) by (fold P; lia).
  rewrite (lor_hi_lo (Q - 1) (maskL c q1) (Z.of_nat c)) by (fold P; lia).
  fold P.
  rewrite enc_split.
  assert (Hl : (length (q0 ++ q1) <= h)%nat) by (rewrite app_length; lia).
  rewrite (maskL_eq h _ Hl), (maskL_eq c q1 H1). fold P.
  unfold valL. rewrite val_msb_app. fold A. rewrite app_length, H0.
  replace (Z.of_nat h - Z.of_nat (h - c + length q1)) with (Z.of_nat c - Z.of_nat (length q1)) by lia.
  assert (HP : P = 2 ^ (Z.of_nat c - Z.of_nat (length q1)) * 2 ^ Z.of_nat (length q1))
    by (apply pow2_split; lia).
  rewrite <- HQP. rewrite HP. ring.
Qed.

Lemma loop_exit fuel p2 idx mask : (Z.land mask 15 =? 0) && (0 <? idx) = false ->
  descent_loop fuel p2 idx mask = Some (p2, idx, mask).
Proof. intros H. destruct fuel; cbn [descent_loop]; rewrite H; reflexivity. Qed.

(** loop + table from any reachable state = pure descent from that state *)
Lemma loop_result h : (h <= 30)%nat -> forall c q0 idx fuel,
  (c <= h)%nat -> length q0 = (h - c)%nat -> 0 <= idx < 2 ^ (Z.of_nat c + 1) - 1 -> (c <= fuel)%nat ->
  exists p2' idx' mask' t,
    descent_loop fuel (p2At h c (val_msb q0)) idx (maskAt c) = Some (p2', idx', mask') /\
    idxToPath_at (Z.land mask' 15) idx' = Some t /\
    Z.lor (shr64 p2' 1) t = enc h (q0 ++ node_at c idx).
Proof.
  intros Hh. induction c as [|c' IH]; intros q0 idx fuel Hc H0 Hi Hf.
  - (* height 0: the table *)
    exists (p2At h 0 (val_msb q0)), idx, (maskAt 0), (enc 0 (node_at 0 idx)). split; [|split].
    + apply loop_exit. rewrite mask15 by lia. reflexivity.
    + apply table_rows; [lia|exact Hi].
    + apply combine_words; try lia. apply node_at_length.
  - destruct (Nat.leb_spec 4 (S c')) as [H4|H4]; [destruct (Z.ltb_spec 0 idx) as [Hp|Hp]|].
    + (* one iteration *)
      destruct fuel as [|f]; [lia|].
      rewrite loop_step by lia.
      destruct (node_at_step c' idx ltac:(lia)) as [E R]. cbn zeta in E, R.
      set (b := 2 ^ Z.of_nat (S c') <=? idx) in *.
      set (idx1 := if b then idx - 2 ^ Z.of_nat (S c') else idx - 1) in *.
      destruct (IH (q0 ++ [b]) idx1 f ltac:(lia) ltac:(rewrite app_length; cbn [length]; lia) R ltac:(lia))
        as (p2' & idx' & mask' & t & L1 & L2 & L3).
      rewrite val_msb_snoc in L1.
      exists p2', idx', mask', t. split; [exact L1|split; [exact L2|]].
      rewrite L3, E, <- app_assoc. reflexivity.
    + (* index 0 above the table: row 0 *)
      assert (idx = 0) by lia. subst idx.
      exists (p2At h (S c') (val_msb q0)), 0, (maskAt (S c')), 0. split; [|split].
      * apply loop_exit. apply andb_false_r.
      * assert (M := mask15 (S c') ltac:(lia)). destruct (Nat.leb_spec 4 (S c')); [|lia].
        apply Z.eqb_eq in M. rewrite M. reflexivity.
      * rewrite <- (enc_nil (S c')). rewrite node_at_0. apply combine_words; try lia. cbn; lia.
    + (* height <= 3: the table *)
      exists (p2At h (S c') (val_msb q0)), idx, (maskAt (S c')), (enc (S c') (node_at (S c') idx)).
      split; [|split].
      * apply loop_exit. rewrite mask15 by lia. destruct (Nat.leb_spec 4 (S c')); [lia|reflexivity].
      * apply table_rows; [lia|exact Hi].
      * apply combine_words; try lia. apply node_at_length.
Qed.

(** * (c) the common-prefix shortcut = [fixed] pure-descent steps *)

(** at the level of numbers: if the index is [val_msb q0 * 2^d + low] with
    [low >= |q0|] (so that the at most |q0| decrements of the left turns never
    borrow from the copied bits), the pure descent walks exactly along q0 *)
Lemma node_at_fixed : forall (q0 : list bool) (c : nat) (low : Z),
  Z.of_nat (length q0) <= low < 2 ^ (Z.of_nat c + 1) ->
  val_msb q0 * 2 ^ (Z.of_nat c + 1) + low < 2 ^ (Z.of_nat (c + length q0) + 1) - 1 ->
  node_at (c + length q0) (val_msb q0 * 2 ^ (Z.of_nat c + 1) + low)
    = q0 ++ node_at c (low - (Z.of_nat (length q0) - count_true q0)) /\
  0 <= low - (Z.of_nat (length q0) - count_true q0) < 2 ^ (Z.of_nat c + 1) - 1.
Proof.
  induction q0 as [|b q IH]; intros c low Hlow Hidx.
  - cbn [length] in *. rewrite val_msb_nil in *. rewrite Nat.add_0_r in *.
    cbn [count_true app]. change (Z.of_nat 0) with 0 in *.
    replace (low - (0 - 0)) with low by lia. replace (0 * 2 ^ (Z.of_nat c + 1) + low) with low in * by lia.
    split; [reflexivity|lia].
  - cbn [length] in *. rewrite val_msb_cons in *.
    replace (c + S (length q))%nat with (S (c + length q)) in * by lia.
    specialize (IH c).
    set (d := Z.of_nat c + 1) in *.
    pose proof (val_msb_bound q) as HV.
    assert (Hd : 0 < 2 ^ d) by (apply pow2_pos; lia).
    assert (HP : 2 ^ Z.of_nat (S (c + length q)) = 2 ^ Z.of_nat (length q) * 2 ^ d).
    { unfold d. rewrite <- Z.pow_add_r by lia. f_equal. lia. }
    set (L := 2 ^ Z.of_nat (length q)) in *.
    set (idx := (Z.b2z b * L + val_msb q) * 2 ^ d + low) in *.
    assert (Hnn : 0 <= (Z.b2z b * L + val_msb q) * 2 ^ d)
      by (apply Z.mul_nonneg_nonneg; [destruct b; cbn [Z.b2z]; lia|lia]).
    destruct (node_at_step (c + length q) idx) as [E R]; [split; [unfold idx; lia|exact Hidx]|].
    cbn zeta in E, R. rewrite HP in E, R.
    replace (Z.of_nat (c + length q) + 1) with (Z.of_nat (S (c + length q))) in R by lia.
    rewrite HP in R.
    destruct b; cbn [Z.b2z count_true] in *.
    + destruct (Z.leb_spec (L * 2 ^ d) idx) as [_|Hc]; [|unfold idx in Hc; nia].
      replace (idx - L * 2 ^ d) with (val_msb q * 2 ^ d + low) in * by (unfold idx; lia).
      destruct (IH low ltac:(lia)) as [IH1 IH2].
      { replace (Z.of_nat (c + length q) + 1) with (Z.of_nat (S (c + length q))) by lia. rewrite HP. lia. }
      rewrite E, IH1. split; [cbn [app]; do 3 f_equal; lia|lia].
    + destruct (Z.leb_spec (L * 2 ^ d) idx) as [Hc|_]; [unfold idx in Hc; nia|].
      replace (idx - 1) with (val_msb q * 2 ^ d + (low - 1)) in * by (unfold idx; lia).
      destruct (IH (low - 1) ltac:(lia)) as [IH1 IH2].
      { replace (Z.of_nat (c + length q) + 1) with (Z.of_nat (S (c + length q))) by lia. rewrite HP. lia. }
      rewrite E, IH1. split; [cbn [app]; do 3 f_equal; lia|lia].
Qed.

(** ** the machine arithmetic of the shortcut *)

(** [diffbits] and [fixed] as the code computes them *)
Definition diffbits_of (h idx : Z) : Z := i32 (32 - i32 (lz32 (u32 (Z.lxor (i32 (idx - h)) idx)))).
Definition fixed_of (h idx : Z) : Z := i32 (i32 (h + 1) - diffbits_of h idx).

Lemma shortcut_unfold h idx mask :
  shortcut h idx mask =
  if 4 <? h then
    if 0 <? fixed_of h idx then
      let m := u64 (shl64 mask 1 - shl64 c01 (uint_of_i32 (diffbits_of h idx))) in
      (Z.land (idxword idx) m,
       i32 (i32 (Z.land idx (i32 (not64 m)) - fixed_of h idx)
            + i32 (popcount (u32 (Z.land idx (i32 m))))),
       shr64 mask (uint_of_i32 (fixed_of h idx)))
    else (0, idx, mask)
  else (0, idx, mask).
Proof. unfold shortcut, fixed_of, diffbits_of. cbv zeta. reflexivity. Qed.

(** index < height: index - height is negative, the xor has bit 31, nothing is fixed *)
Lemma fixed_of_small h idx : 0 <= h <= 30 -> 0 <= idx < h -> (0 <? fixed_of h idx) = false.
Proof.
  intros Hh Hi.
  assert (F : forallb (fun h => forallb (fun i => negb (0 <? fixed_of (Z.of_nat h) (Z.of_nat i))) (seq 0 h))
                (seq 0 31) = true) by (vm_compute; reflexivity).
  rewrite forallb_forall in F. specialize (F (Z.to_nat h) ltac:(apply in_seq; lia)).
  rewrite forallb_forall in F. specialize (F (Z.to_nat idx) ltac:(apply in_seq; lia)).
  rewrite !Z2Nat.id in F by lia. now apply negb_true_iff in F.
Qed.

(** index >= height: diffbits is the bit length of (index - height) xor index *)
Lemma diffbits_of_eq h idx : 0 <= h <= 30 -> h <= idx < 2 ^ 31 ->
  diffbits_of h idx = bitlen (Z.lxor (idx - h) idx) /\ fixed_of h idx = h + 1 - bitlen (Z.lxor (idx - h) idx)
  /\ 0 <= Z.lxor (idx - h) idx < 2 ^ 31.
Proof.
  intros Hh Hi. unfold fixed_of, diffbits_of.
  rewrite (i32_id (idx - h)) by lia.
  pose proof (lxor_bound (idx - h) idx 31 ltac:(lia) ltac:(lia) ltac:(lia)) as HX.
  set (x := Z.lxor (idx - h) idx) in *.
  rewrite u32_id by lia. unfold lz32.
  pose proof (bitlen_nonneg x). pose proof (bitlen_le x 31 ltac:(lia) HX).
  rewrite (i32_id (32 - bitlen x)) by lia.
  replace (32 - (32 - bitlen x)) with (bitlen x) by lia.
  rewrite (i32_id (bitlen x)) by lia. rewrite (i32_id (h + 1)) by lia.
  rewrite i32_id by lia. auto.
Qed.

(** the mask of the fixed bits, in both halves *)
Lemma m_eq h d : (h <= 30)%nat -> 0 <= d <= Z.of_nat h ->
  u64 (shl64 (maskAt h) 1 - shl64 c01 (uint_of_i32 d))
  = (2 ^ (Z.of_nat h + 1) - 2 ^ d) * 2 ^ 32 + (2 ^ (Z.of_nat h + 1) - 2 ^ d).
Proof.
  intros Hh Hd. pose proof (pow2_le_30 h Hh).
  assert (0 < 2 ^ d <= 2 ^ Z.of_nat h) by (split; [apply pow2_pos|apply pow2_le]; lia).
  unfold uint_of_i32. rewrite (u64_id d) by lia.
  unfold maskAt, c01. change 0x0100000001 with (2 ^ 32 + 1).
  rewrite pow2_succ by lia.
  rewrite shl64_small by (change (2 ^ 1) with 2; lia).
  rewrite shl64_small by lia.
  change (2 ^ 1) with 2. rewrite u64_id by lia. lia.
Qed.

Lemma i32_word_lo ml : 0 <= ml < 2 ^ 31 -> i32 (ml * 2 ^ 32 + ml) = ml.
Proof.
  intros H. rewrite <- i32_u32. unfold u32. rewrite mod_hi_lo by lia. apply i32_id. lia.
Qed.

Lemma i32_not_word_lo ml : 0 <= ml < 2 ^ 31 -> i32 (not64 (ml * 2 ^ 32 + ml)) = -1 - ml.
Proof.
  intros H. unfold not64.
  replace (2 ^ 64 - 1 - (ml * 2 ^ 32 + ml)) with ((2 ^ 32 - 1 - ml) * 2 ^ 32 + (2 ^ 32 - 1 - ml)) by lia.
  rewrite <- i32_u32. unfold u32. rewrite mod_hi_lo by lia. rewrite i32_hi by lia. lia.
Qed.

Lemma p2_fixed_eq idx ml : 0 <= idx < 2 ^ 31 -> 0 <= ml < 2 ^ 31 ->
  Z.land (idxword idx) (ml * 2 ^ 32 + ml) = Z.land idx ml * 2 ^ 32 + ml.
Proof.
  intros Hi Hm. rewrite idxword_eq by lia. rewrite land_halves by lia. f_equal.
  rewrite Z.land_comm. change (2 ^ 32 - 1) with (Z.ones 32). rewrite Z.land_ones by lia.
  apply Z.mod_small. lia.
Qed.

(** what the shortcut must establish for the loop to take over *)
Definition sc_ok (h : nat) (idx : Z) (r : Z * Z * Z) : Prop :=
  exists c q0 idx', (c <= h)%nat /\ length q0 = (h - c)%nat /\
    0 <= idx' < 2 ^ (Z.of_nat c + 1) - 1 /\
    r = (p2At h c (val_msb q0), idx', maskAt c) /\
    node_at h idx = q0 ++ node_at c idx'.

Lemma sc_ok_none h idx : 0 <= idx < 2 ^ (Z.of_nat h + 1) - 1 -> sc_ok h idx (0, idx, maskAt h).
Proof.
  intros Hi. exists h, [], idx. repeat split; try lia.
  - cbn [length]. lia.
  - unfold p2At. rewrite val_msb_nil, Nat.sub_diag. change (2 ^ Z.of_nat 0) with 1.
    do 2 f_equal; lia.
Qed.

Lemma shortcut_spec h idx : (h <= 30)%nat -> 0 <= idx < 2 ^ (Z.of_nat h + 1) - 1 ->
  sc_ok h idx (shortcut (Z.of_nat h) idx (maskAt h)).
Proof.
  intros Hh Hi. rewrite shortcut_unfold.
  assert (H31 : 2 ^ (Z.of_nat h + 1) <= 2 ^ 31) by (apply pow2_le; lia).
  destruct (Z.ltb_spec 4 (Z.of_nat h)) as [H4|]; [|now apply sc_ok_none].
  destruct (Z.lt_ge_cases idx (Z.of_nat h)) as [Hs|Hs].
  { rewrite fixed_of_small by lia. now apply sc_ok_none. }
  destruct (diffbits_of_eq (Z.of_nat h) idx ltac:(lia) ltac:(lia)) as (ED & EF & HX).
  rewrite EF, ED.
  set (x := Z.lxor (idx - Z.of_nat h) idx) in *. set (d := bitlen x) in *.
  destruct (Z.ltb_spec 0 (Z.of_nat h + 1 - d)) as [Hf|]; [|now apply sc_ok_none].
  (* the shortcut is taken *)
  assert (Hx0 : x <> 0). { unfold x. intros E. apply Z.lxor_eq in E. lia. }
  assert (Hd1 : 1 <= d) by (apply bitlen_pos; lia).
  assert (Hxd : x < 2 ^ d) by (apply lt_pow2_bitlen; lia).
  assert (HA : (idx - Z.of_nat h) / 2 ^ d = idx / 2 ^ d)
    by (apply lxor_small_same_high; try lia; exact Hxd).
  set (c := Z.to_nat (d - 1)). set (k := (h - c)%nat).
  assert (Hc : Z.of_nat c + 1 = d) by (unfold c; lia).
  assert (Hk : Z.of_nat k = Z.of_nat h + 1 - d) by (unfold k, c; lia).
  assert (HD : 0 < 2 ^ d) by (apply pow2_pos; lia).
  assert (HKD : 2 ^ Z.of_nat k * 2 ^ d = 2 ^ (Z.of_nat h + 1)).
  { rewrite <- Z.pow_add_r by lia. f_equal. lia. }
  pose proof (Z.div_mod idx (2 ^ d) ltac:(lia)) as Edm.
  pose proof (Z.mod_pos_bound idx (2 ^ d) HD) as Hlow.
  pose proof (Z.div_mod (idx - Z.of_nat h) (2 ^ d) ltac:(lia)) as Edm'.
  pose proof (Z.mod_pos_bound (idx - Z.of_nat h) (2 ^ d) HD) as Hlow'.
  rewrite HA in Edm'.
  set (A := idx / 2 ^ d) in *. set (low := idx mod 2 ^ d) in *.
  assert (HlowH : Z.of_nat h <= low) by lia.
  assert (HA0 : 0 <= A) by (apply Z.div_pos; lia).
  assert (HAK : A < 2 ^ Z.of_nat k).
  { apply Z.div_lt_upper_bound; [lia|]. rewrite Z.mul_comm, HKD. lia. }
  set (q0 := rev (bits k A)).
  assert (Hq0 : length q0 = k) by (unfold q0; rewrite rev_length; apply bits_length).
  assert (HvA : val_msb q0 = A) by (apply val_msb_rev_bits; lia).
  set (ml := 2 ^ (Z.of_nat h + 1) - 2 ^ d).
  assert (Hml : 0 <= ml < 2 ^ 31).
  { unfold ml. assert (2 ^ d <= 2 ^ (Z.of_nat h + 1)) by (apply pow2_le; lia). lia. }
  rewrite m_eq by lia. fold ml. cbn zeta.
  rewrite i32_word_lo, i32_not_word_lo, p2_fixed_eq by lia.
  assert (EL1 : Z.land idx ml = A * 2 ^ d) by (unfold ml; apply land_pow2_diff; lia).
  assert (EL2 : Z.land idx (-1 - ml) = low) by (unfold ml; apply land_compl_pow2_diff; lia).
  rewrite !EL1, EL2.
  assert (HAD : 0 <= A * 2 ^ d <= idx) by nia.
  rewrite (u32_id (A * 2 ^ d)) by lia.
  replace (popcount (A * 2 ^ d)) with (count_true q0).
  2:{ rewrite <- Hc. replace (Z.of_nat c + 1) with (Z.of_nat (S c)) by lia.
      rewrite popcount_mul_pow2 by lia. rewrite <- HvA. symmetry. apply popcount_val_msb. }
  pose proof (count_true_nonneg q0). pose proof (count_true_le_length q0).
  destruct (node_at_fixed q0 c low) as [EN RN].
  { rewrite Hq0, Hc. lia. }
  { rewrite HvA, Hc, Hq0. replace (c + k)%nat with h by (unfold k, c; lia). lia. }
  rewrite HvA, Hc, Hq0 in EN. replace (c + k)%nat with h in EN by (unfold k, c; lia).
  replace (A * 2 ^ d + low) with idx in EN by lia.
  rewrite Hq0, Hc in RN.
  exists c, q0, (low - (Z.of_nat k - count_true q0)).
  split; [unfold k, c; lia|]. split; [exact Hq0|]. split; [rewrite Hc; exact RN|]. split; [|exact EN].
  f_equal; [f_equal|].
  - (* p2 *)
    unfold p2At. rewrite HvA, Hc. fold k. unfold ml. rewrite <- HKD. lia.
  - (* index *)
    rewrite (i32_id (low - _)) by lia. rewrite (i32_id (count_true q0)) by lia.
    rewrite i32_id by lia. lia.
  - (* mask *)
    unfold uint_of_i32. rewrite u64_id by lia. rewrite shr64_div by lia. rewrite <- Hk.
    unfold maskAt. replace (2 ^ Z.of_nat h) with (2 ^ Z.of_nat c * 2 ^ Z.of_nat k).
    2:{ rewrite <- Z.pow_add_r by lia. f_equal. unfold k, c. lia. }
    rewrite Z.mul_assoc. apply Z.div_mul. pose proof (pow2_pos (Z.of_nat k)). lia.
Qed.

(** * the main statements *)

Lemma mask_init h : (h <= 30)%nat -> shl64 c01 (uint_of_i32 (Z.of_nat h)) = maskAt h.
Proof.
  intros Hh. pose proof (pow2_le_30 h Hh). unfold uint_of_i32. rewrite u64_id by lia.
  unfold maskAt, c01. change 0x0100000001 with (2 ^ 32 + 1). apply shl64_small; lia.
Qed.

(** the model computes the word of the node the pure descent finds *)
Lemma IndexToPath_node_at h idx : (h <= 30)%nat -> 0 <= idx < 2 ^ (Z.of_nat h + 1) - 1 ->
  IndexToPath (Z.of_nat h) idx = Some (enc h (node_at h idx)).
Proof.
  intros Hh Hi. unfold IndexToPath. rewrite mask_init by exact Hh.
  destruct (shortcut_spec h idx Hh Hi) as (c & q0 & idx' & Hc & Hq & Hi' & Er & EN).
  rewrite Er.
  destruct (loop_result h Hh c q0 idx' 64 Hc Hq Hi' ltac:(lia)) as (p2' & idx'' & mask' & t & L1 & L2 & L3).
  rewrite L1, L2, L3, EN. reflexivity.
Qed.

(** C05, first form *)
Lemma IndexToPath_inverse h idx : (h <= 30)%nat -> 0 <= idx < 2 ^ (Z.of_nat h + 1) - 1 ->
  exists q, (length q <= h)%nat /\
    IndexToPath (Z.of_nat h) idx = Some (enc h q) /\
    PathToIndex (2 ^ (Z.of_nat h + 1) - 1) (enc h q) = Some idx.
Proof.
  intros Hh Hi. exists (node_at h idx). split; [apply node_at_length|]. split.
  - now apply IndexToPath_node_at.
  - change (2 ^ (Z.of_nat h + 1) - 1) with (fullT h).
    rewrite PathToIndex_full by (try lia; apply node_at_length).
    now rewrite full_rank_node_at.
Qed.

(** C05, second form: IndexToPath after PathToIndex is the identity on the nodes of the full tree *)
Lemma IndexToPath_PathToIndex h q : (h <= 30)%nat -> (length q <= h)%nat ->
  exists i, PathToIndex (2 ^ (Z.of_nat h + 1) - 1) (enc h q) = Some i /\
            0 <= i < 2 ^ (Z.of_nat h + 1) - 1 /\
            IndexToPath (Z.of_nat h) i = Some (enc h q).
Proof.
  intros Hh Hl. exists (full_rank h q). split; [|split].
  - change (2 ^ (Z.of_nat h + 1) - 1) with (fullT h). now apply PathToIndex_full.
  - now apply full_rank_bound.
  - rewrite IndexToPath_node_at by (try lia; now apply full_rank_bound).
    now rewrite node_at_full_rank.
Qed.

(** the loop and the table alone (shortcut skipped): the statement DESIGN names as the fallback *)
Lemma loop_table_only h idx : (h <= 30)%nat -> 0 <= idx < 2 ^ (Z.of_nat h + 1) - 1 ->
  match descent_loop 64 0 idx (maskAt h) with
  | Some (p2, i, m) =>
      match idxToPath_at (Z.land m 15) i with
      | Some t => Z.lor (shr64 p2 1) t = enc h (node_at h idx)
      | None => False
      end
  | None => False
  end.
Proof.
  intros Hh Hi.
  destruct (loop_result h Hh h [] idx 64 ltac:(lia) ltac:(cbn [length]; lia) Hi ltac:(lia))
    as (p2' & idx' & mask' & t & L1 & L2 & L3).
  replace (p2At h h (val_msb [])) with 0 in L1.
  2:{ unfold p2At. rewrite val_msb_nil, Nat.sub_diag. change (2 ^ Z.of_nat 0) with 1. lia. }
  rewrite L1, L2. exact L3.
Qed.

(** * the enumerated pre-order: [all_nodes] agrees with the recursive definitions *)

Lemma all_nodes_length h : Z.of_nat (length (all_nodes h)) = 2 ^ (Z.of_nat h + 1) - 1.
Proof.
  induction h as [|k IH]; [reflexivity|].
  cbn [all_nodes length]. rewrite app_length, !map_length.
  replace (Z.of_nat (S k) + 1) with ((Z.of_nat k + 1) + 1) by lia.
  rewrite (pow2_succ (Z.of_nat k + 1)) by lia. unfold node in *. lia.
Qed.

Lemma all_nodes_le h : forall r, In r (all_nodes h) -> (length r <= h)%nat.
Proof.
  induction h as [|k IH]; intros r Hr.
  - destruct Hr as [<-|[]]. cbn; lia.
  - cbn [all_nodes] in Hr. destruct Hr as [<-|Hr]; [cbn; lia|].
    apply in_app_or in Hr. destruct Hr as [Hr|Hr]; apply in_map_iff in Hr;
      destruct Hr as (r' & <- & Hr'); specialize (IH r' Hr'); cbn [length]; lia.
Qed.

Lemma nth_all_nodes h : forall idx, 0 <= idx < 2 ^ (Z.of_nat h + 1) - 1 ->
  nth (Z.to_nat idx) (all_nodes h) [] = node_at h idx.
Proof.
  induction h as [|k IH]; intros idx Hi.
  - change (2 ^ (Z.of_nat 0 + 1) - 1) with 1 in Hi. replace idx with 0 by lia. reflexivity.
  - destruct (Z.eq_dec idx 0) as [->|Hn]; [reflexivity|].
    destruct (node_at_step k idx ltac:(lia)) as [E R]. cbn zeta in E, R. rewrite E.
    pose proof (all_nodes_length k) as HL.
    replace (Z.of_nat k + 1) with (Z.of_nat (S k)) in * by lia.
    replace (Z.to_nat idx) with (S (Z.to_nat (idx - 1))) by lia.
    cbn [all_nodes nth].
    assert (Hlen : forall b, length (map (cons b) (all_nodes k)) = Z.to_nat (2 ^ Z.of_nat (S k) - 1)).
    { intros b. rewrite map_length. unfold node in *. lia. }
    destruct (Z.leb_spec (2 ^ Z.of_nat (S k)) idx).
    + rewrite app_nth2 by (rewrite Hlen; lia). rewrite Hlen.
      replace (Z.to_nat (idx - 1) - Z.to_nat (2 ^ Z.of_nat (S k) - 1))%nat
        with (Z.to_nat (idx - 2 ^ Z.of_nat (S k))) by lia.
      rewrite (nth_indep _ [] (true :: [])) by (rewrite Hlen; lia).
      rewrite map_nth. f_equal. apply IH. exact R.
    + rewrite app_nth1 by (rewrite Hlen; lia).
      rewrite (nth_indep _ [] (false :: [])) by (rewrite Hlen; lia).
      rewrite map_nth. f_equal. apply IH. exact R.
Qed.

Lemma filter_all {A} (f : A -> bool) l : (forall x, In x l -> f x = true) -> filter f l = l.
Proof.
  induction l as [|x l IH]; intros H; [reflexivity|]. cbn [filter].
  rewrite (H x (or_introl eq_refl)). f_equal. apply IH. intros y Hy. apply H. now right.
Qed.

Lemma filter_none {A} (f : A -> bool) l : (forall x, In x l -> f x = false) -> filter f l = [].
Proof.
  induction l as [|x l IH]; intros H; [reflexivity|]. cbn [filter].
  rewrite (H x (or_introl eq_refl)). apply IH. intros y Hy. apply H. now right.
Qed.

Lemma filter_map_comp {A B} (f : B -> bool) (g : A -> B) l :
  filter f (map g l) = map g (filter (fun x => f (g x)) l).
Proof.
  induction l as [|x l IH]; [reflexivity|]. cbn [map filter].
  destruct (f (g x)); cbn [map]; now rewrite IH.
Qed.

Lemma stored_nodes_full h : stored_nodes (fullT h) h = all_nodes h.
Proof.
  unfold stored_nodes. apply filter_all. intros r Hr. apply all_nodes_le in Hr.
  unfold stored, fullT. replace (2 ^ (Z.of_nat h + 1) - 1) with (2 ^ (Z.of_nat h + 1) - 2 ^ 0) by reflexivity.
  rewrite testbit_pow2_diff by lia.
  destruct (Z.leb_spec 0 (Z.of_nat (length r))), (Z.ltb_spec (Z.of_nat (length r)) (Z.of_nat h + 1)); try lia; reflexivity.
Qed.

Lemma count_before : forall h q, (length q <= h)%nat ->
  Z.of_nat (length (filter (fun r => pre_ltb r q) (all_nodes h))) = full_rank h q.
Proof.
  induction h as [|k IH]; intros q Hl.
  - destruct q; [reflexivity|cbn [length] in Hl; lia].
  - destruct q as [|b q].
    + rewrite filter_none; [reflexivity|]. intros r _. destruct r; reflexivity.
    + cbn [length] in Hl. cbn [all_nodes filter full_rank].
      change (pre_ltb [] (b :: q)) with true. cbn iota. cbn [length].
      rewrite filter_app, app_length, !filter_map_comp, !map_length.
      replace (S k - 1)%nat with k by lia.
      pose proof (all_nodes_length k) as HL. replace (Z.of_nat k + 1) with (Z.of_nat (S k)) in HL by lia.
      destruct b.
      * rewrite (filter_all (fun x => pre_ltb (false :: x) (true :: q))) by (intros; reflexivity).
        rewrite (filter_ext (fun x => pre_ltb (true :: x) (true :: q)) (fun r => pre_ltb r q)) by (intros; reflexivity).
        specialize (IH q ltac:(lia)). unfold node in *. lia.
      * rewrite (filter_none (fun x => pre_ltb (true :: x) (false :: q))) by (intros; reflexivity).
        rewrite (filter_ext (fun x => pre_ltb (false :: x) (false :: q)) (fun r => pre_ltb r q)) by (intros; reflexivity).
        specialize (IH q ltac:(lia)). cbn [length]. unfold node in *. lia.
Qed.

Lemma enum_rank_full_rank h q : (length q <= h)%nat -> enum_rank h q = full_rank h q.
Proof.
  intros Hl. unfold enum_rank, pre_rank. rewrite stored_nodes_full. now apply count_before.
Qed.

Lemma enum_node_at_eq h idx : 0 <= idx < 2 ^ (Z.of_nat h + 1) - 1 -> enum_node_at h idx = node_at h idx.
Proof. apply nth_all_nodes. Qed.

(** * the checker of the correspondence run is exactly the functional specification *)

Lemma dec_enc h q : (h <= 32)%nat -> (length q <= h)%nat -> dec h (enc h q) = q.
Proof.
  intros Hh Hl. unfold dec.
  change (enc h q mod 2 ^ 32) with (u32 (enc h q)). rewrite enc_mod32, enc_div32 by assumption.
  rewrite popcount_maskL by exact Hl. rewrite Nat2Z.id.
  unfold valL. rewrite Z.div_mul by (pose proof (pow2_pos (Z.of_nat h - Z.of_nat (length q))); lia).
  rewrite bits_val_msb. apply rev_involutive.
Qed.

Lemma c05_rank_eq h q idx : (length q <= h)%nat ->
  (if (h <=? enum_max)%nat then enum_rank h q =? idx else full_rank h q =? idx) = (full_rank h q =? idx).
Proof. intros Hl. destruct (h <=? enum_max)%nat; [now rewrite enum_rank_full_rank|reflexivity]. Qed.

Lemma check_exact h idx w : (h <= 30)%nat -> 0 <= idx < 2 ^ (Z.of_nat h + 1) - 1 ->
  check_index_to_path h idx w = true <-> w = enc h (node_at h idx).
Proof.
  intros Hh Hi. unfold check_index_to_path, wf_word. split.
  - intros H. apply andb_prop in H. destruct H as [H1 H2]. apply andb_prop in H1. destruct H1 as [Hl He].
    apply Nat.leb_le in Hl. apply Z.eqb_eq in He.
    rewrite c05_rank_eq in H2 by exact Hl. apply Z.eqb_eq in H2.
    rewrite <- He at 1. f_equal. rewrite <- H2. symmetry. now apply node_at_full_rank.
  - intros ->. pose proof (node_at_length h idx) as Hl.
    rewrite dec_enc by (try lia; exact Hl). rewrite c05_rank_eq by exact Hl.
    rewrite full_rank_node_at by exact Hi. rewrite !Z.eqb_refl.
    apply Nat.leb_le in Hl. rewrite Hl. reflexivity.
Qed.

Lemma spec_index_to_path_eq h idx : 0 <= idx < 2 ^ (Z.of_nat h + 1) - 1 ->
  spec_index_to_path h idx = enc h (node_at h idx).
Proof.
  intros Hi. unfold spec_index_to_path. destruct (h <=? enum_max)%nat; [|reflexivity].
  now rewrite enum_node_at_eq.
Qed.
