(** Equality of the definition generated from the Go source of bmtree.PathOf (coq/gen/Trans.v) and the model. *)
From Coq Require Import ZArith List Lia Bool.
From Low Require Import Lib.MachInt Lib.Bits Lib.BitSeq Lib.TransLib Proofs.TransEqLemmas.
From Low Require Model.FromStr32 Proofs.TransEq_bitmap_FromStr32.
From LowGen Require Trans.
Import ListNotations.
Open Scope Z_scope.

Lemma shl64_count_i32_neg x d : shl64 x (u64 (i32 d)) = if i32 d <? 0 then 0 else shl64 x (i32 d).
Proof.
  pose proof (i32_range d) as R.
  destruct (Z.ltb_spec (i32 d) 0) as [Hn|Hp].
  - assert (Hu : u64 (i32 d) = i32 d + 2 ^ 64).
    { unfold u64. rewrite <- (Z_mod_plus_full (i32 d) 1 (2 ^ 64)). apply Z.mod_small. lia. }
    rewrite Hu. unfold shl64. destruct (Z.ltb_spec (i32 d + 2 ^ 64) 64); [lia|reflexivity].
  - rewrite u64_id by lia. reflexivity.
Qed.

(** the generated NewPath is the checked NewPath of Model/FromStr32.v (array bound of Mask[length], Go's shift
    by a negative-converted count), for all arguments *)
Lemma Trans_NewPath_NewPathChk sb l h : Trans.bmtree_NewPath sb l h = FromStr32.NewPathChk sb l h.
Proof.
  unfold Trans.bmtree_NewPath, FromStr32.NewPathChk. cbv zeta.
  rewrite TransEq_bitmap_FromStr32.tblZ_Mask_MaskAt.
  destruct (FromStr32.MaskAt l) as [m|]; [|reflexivity].
  rewrite shl64_count_i32_neg. reflexivity.
Qed.

Lemma TransEq_bmtree_PathOf s frombit height : TransEq_bitmap_FromStr32.bytes s -> in_i32 frombit ->
  Trans.bmtree_PathOf s frombit height = FromStr32.PathOf s frombit height.
Proof.
  intros Hb Hf. unfold Trans.bmtree_PathOf, FromStr32.PathOf. cbv zeta.
  rewrite TransEq_bitmap_FromStr32.TransEq_bitmap_FromStr32 by assumption.
  destruct (FromStr32.FromStr32 s frombit (i32 (frombit + height))) as [[plen path]|]; [|reflexivity].
  cbn [fst snd]. rewrite Trans_NewPath_NewPathChk.
  destruct (FromStr32.NewPathChk path plen height); reflexivity.
Qed.
