(** Equality of the definition generated from the Go source of bitmap.PrevOne (coq/gen/Trans.v) and the model:
    a masked last word, then a backward loop with a break (recursion on fuel). *)
From Coq Require Import ZArith List Lia Bool.
From Low Require Import Lib.MachInt Lib.Bits Lib.BitSeq Lib.TransLib Proofs.TransEqLemmas.
From Low Require Model.BitmapNext.
From LowGen Require Trans.
Import ListNotations.
Open Scope Z_scope.

(** hypotheses under which no int32 operation of the code wraps: a non-negative start, a positive end; EVERY fuel *)
Lemma TransEq_bitmap_PrevOne_fuel fuel bm i e0 : words bm -> 0 <= i < 2 ^ 31 -> 0 < e0 < 2 ^ 31 ->
  Trans.bitmap_PrevOne fuel bm i e0 =
  let e := e0 - 1 in
  let wordIdx := Z.shiftr e 6 in
  match nthZ bm wordIdx with
  | None => None
  | Some w0 =>
      let word := Z.land w0 (MaskUpto (Z.land e 63)) in
      match (if word =? 0 then BitmapNext.PrevOne_loop fuel bm (Z.land e (-64) - 1) i
             else Some (Z.shiftl wordIdx 6 + 63 - lz64 word)) with
      | None => None
      | Some prv => Some (if prv <? i then -1 else prv)
      end
  end.
Proof.
  intros Hb Hi He. unfold Trans.bitmap_PrevOne. cbv zeta.
  rewrite (i32_id (e0 - 1)) by lia. set (e := e0 - 1) in *. assert (Hee : 0 <= e < 2 ^ 31 - 1) by (unfold e; lia).
  rewrite sar32_shiftr by lia.
  destruct (nthZ bm (Z.shiftr e 6)) as [w0|] eqn:E0; [|reflexivity].
  pose proof (word_of _ _ _ Hb E0) as Hw0.
  rewrite tblZ_in by (pose proof (land_63_range e); lia).
  set (word := Z.land w0 (MaskUpto (Z.land e 63))).
  assert (Hword : 0 <= word < 2 ^ 64) by (apply land_u_range; lia).
  destruct (word =? 0) eqn:Ez; cbn [negb].
  - pose proof (land_m64_range e) as Hm.
    rewrite (i32_id (Z.land e (-64) - 1)) by lia.
    match goal with |- ?K fuel _ = _ =>
      assert (L : forall n t, - 2 ^ 31 <= t < 2 ^ 31 ->
                K n t = match BitmapNext.PrevOne_loop n bm t i with
                        | None => None | Some prv => Some (if prv <? i then -1 else prv) end) end.
    { induction n as [|n IH]; intros t Ht; [reflexivity|].
      cbn [BitmapNext.PrevOne_loop]. cbv beta iota zeta fix.
      destruct (Z.geb_spec t i) as [Hge|Hlt].
      - rewrite sar32_shiftr by lia.
        destruct (nthZ bm (Z.shiftr t 6)) as [w|] eqn:Ew; [|reflexivity].
        pose proof (word_of _ _ _ Hb Ew) as Hw. pose proof (lz64_range w Hw) as Hlz.
        destruct (w =? 0); cbn [negb].
        + rewrite (i32_id (t - 64)) by lia. apply IH. lia.
        + rewrite (i32_id (lz64 w)) by lia. rewrite (i32_id (t - lz64 w)) by lia.
          destruct (t - lz64 w <? i); reflexivity.
      - destruct (-1 <? i); reflexivity. }
    apply L. lia.
  - pose proof (lz64_range word Hword) as Hlz.
    unfold sshl32. destruct (Z.ltb_spec 6 32); [|lia].
    rewrite Z.shiftl_mul_pow2 by lia.
    assert (Hq : e - 63 <= Z.shiftr e 6 * 2 ^ 6 <= e /\ Z.shiftr e 6 * 2 ^ 6 + 63 < 2 ^ 31).
    { rewrite Z.shiftr_div_pow2 by lia. change (2 ^ 6) with 64.
      pose proof (Z.div_mod e 64 ltac:(lia)). pose proof (Z.mod_pos_bound e 64 ltac:(lia)).
      assert (e / 64 < 2 ^ 25) by (apply Z.div_lt_upper_bound; lia). lia. }
    rewrite (i32_id (Z.shiftr e 6 * 2 ^ 6)) by lia.
    rewrite (i32_id (Z.shiftr e 6 * 2 ^ 6 + 63)) by lia.
    rewrite (i32_id (lz64 word)) by lia.
    rewrite i32_id by lia.
    destruct (Z.shiftr e 6 * 2 ^ 6 + 63 - lz64 word <? i); reflexivity.
Qed.

Lemma TransEq_bitmap_PrevOne bm i e0 : words bm -> 0 <= i < 2 ^ 31 -> 0 < e0 < 2 ^ 31 ->
  Trans.bitmap_PrevOne (S (length bm)) bm i e0 = BitmapNext.PrevOne bm i e0.
Proof.
  intros Hb Hi He. rewrite TransEq_bitmap_PrevOne_fuel by assumption.
  unfold BitmapNext.PrevOne. cbv zeta. reflexivity.
Qed.
