(** Proofs for the C02 widening: [selectU64Indexed w (indexSelectU64 w) k] is the position of the [k]-th
    1-bit of [w], for EVERY uint64 word and every [k < popcount w]; the second result is 0.  Also what the
    code does for [popcount w <= k <= 127] (outside the domain; model theorem only). *)
From Coq Require Import ZArith List Lia Bool ZifyBool Znumtheory.
From Low Require Import Lib.MachInt Lib.Bits Lib.BitSeq Lib.BitsExtra_c02 Lib.BitsExtra_tree Lib.BitsExtra_idx5
  Lib.BitsExtra_c02u Model.Select Model.SelectU64 Spec.SelectSpec Spec.SelectU64Spec
  Proofs.SelectProofs Proofs.SelectMain Proofs.SelectU64Index.
Import ListNotations.
Open Scope Z_scope.
Local Ltac Zify.zify_post_hook ::= Z.div_mod_to_equations.

(** * popcounts of the low bits, byte by byte *)
Lemma popcount_split_at w (n : nat) : 0 <= w ->
  popcount (w mod 2 ^ (Z.of_nat n + 8)) = popcount (w mod 2 ^ Z.of_nat n) + popcount ((w / 2 ^ Z.of_nat n) mod 2 ^ 8).
Proof.
  intros Hw. rewrite Z.pow_add_r by lia.
  rewrite Z.rem_mul_r by (try apply Z.pow_pos_nonneg; lia).
  replace (w mod 2 ^ Z.of_nat n + 2 ^ Z.of_nat n * ((w / 2 ^ Z.of_nat n) mod 2 ^ 8))
    with (((w / 2 ^ Z.of_nat n) mod 2 ^ 8) * 2 ^ Z.of_nat n + w mod 2 ^ Z.of_nat n) by ring.
  rewrite popcount_concat.
  - lia.
  - apply Z.mod_pos_bound. lia.
  - apply Z.mod_pos_bound. apply Z.pow_pos_nonneg; lia.
Qed.

Lemma popcount_mod_bits w (n : nat) : popcount (w mod 2 ^ Z.of_nat n) = count_true (bits n w).
Proof.
  rewrite (popcount_bits n) by (apply Z.mod_pos_bound; apply Z.pow_pos_nonneg; lia). now rewrite bits_mod.
Qed.

(** the [r]-th 1-bit of the byte at bit offset [n] is the [(number of 1-bits below n) + r]-th 1-bit of the word *)
Lemma ones_byte_at w (n r : nat) v : (n + 8 <= 64)%nat ->
  nth_error (ones (bits 8 (w / 2 ^ Z.of_nat n))) r = Some v ->
  nth_error (ones (bits 64 w)) (Z.to_nat (popcount (w mod 2 ^ Z.of_nat n)) + r) = Some (Z.of_nat n + v).
Proof.
  intros Hn Hr.
  replace 64%nat with (n + (8 + (64 - n - 8)))%nat by lia.
  rewrite !bits_app. unfold ones in *. rewrite !ones_from_app, !bits_length.
  assert (Hlen : length (ones_from 0 (bits n w)) = Z.to_nat (popcount (w mod 2 ^ Z.of_nat n))).
  { rewrite ones_from_length_nat. now rewrite popcount_mod_bits. }
  rewrite nth_error_app2 by lia. rewrite Hlen.
  replace (Z.to_nat (popcount (w mod 2 ^ Z.of_nat n)) + r - Z.to_nat (popcount (w mod 2 ^ Z.of_nat n)))%nat with r by lia.
  apply nth_error_app_Some.
  rewrite ones_from_shift, nth_error_map, Hr. cbn [option_map]. f_equal; try lia.
Qed.

(** * the steps of selectU64Indexed *)

(** [ithU8] when the bytes [j0 ..] of biggerBits carry 0x80 and the bytes below are 0 *)
Lemma ithU8_value (j0 : nat) : (j0 < 8)%nat ->
  Z.land (tz64 (H (repeat 0 j0 ++ repeat 128 (8 - j0)))) (-8) = 8 * Z.of_nat j0.
Proof. intros Hj. do 8 (destruct j0 as [|j0]; [reflexivity|]). lia. Qed.

(** [(index >> uint(ithU8 - 8)) & 0x7f]: the cumulative count below byte [j0] (0 for [j0 = 0]: the shift count wraps
    to 2^64 - 8 and the shift gives 0) *)
Lemma prev_count w (j0 : nat) : 0 <= w < 2 ^ 64 -> (j0 <= 8)%nat ->
  Z.land (shr64 (indexSelectU64 w) (u64 (8 * Z.of_nat j0 - 8))) 127 = popcount (w mod 2 ^ (8 * Z.of_nat j0)).
Proof.
  intros Hw Hj. destruct j0 as [|j].
  - change (u64 (8 * Z.of_nat 0 - 8)) with 18446744073709551608. unfold shr64.
    change (18446744073709551608 <? 64) with false. cbv iota. rewrite Z.land_0_l.
    change (2 ^ (8 * Z.of_nat 0)) with 1. now rewrite Z.mod_1_r.
  - replace (8 * Z.of_nat (S j) - 8) with (8 * Z.of_nat j) by lia.
    rewrite u64_id by (change (2 ^ 64) with 18446744073709551616; lia).
    rewrite shr64_div by lia.
    change 127 with (Z.ones 7). rewrite Z.land_ones by lia.
    rewrite (Zmod_div_mod (2 ^ 7) (2 ^ 8)) by (try lia; exists 2; reflexivity).
    rewrite indexSelectU64_field by (assumption || lia).
    unfold spec_index_field. rewrite rank1_bits64 by lia.
    replace (Z.of_nat (8 * (j + 1))) with (8 * Z.of_nat (S j)) by lia.
    set (c := popcount (w mod 2 ^ (8 * Z.of_nat (S j)))).
    assert (0 <= c <= 64).
    { unfold c. pose proof (cums_nth_le w j ltac:(lia) ltac:(lia)) as B. rewrite cums_nth in B by lia.
      replace (8 * (Z.of_nat j + 1)) with (8 * Z.of_nat (S j)) in B by lia. exact B. }
    change (2 ^ 7) with 128. lia.
Qed.

(** one case: biggerBits has its first 0x80 in byte [j0] *)
Lemma sel_case w k (j0 : nat) : 0 <= w < 2 ^ 64 -> (j0 < 8)%nat ->
  Z.land (u64 (indexSelectU64 w - u64 (u64 (k + 1) * ones_bytes))) high_bits = H (repeat 0 j0 ++ repeat 128 (8 - j0)) ->
  popcount (w mod 2 ^ (8 * Z.of_nat j0)) <= k < popcount (w mod 2 ^ (8 * Z.of_nat j0 + 8)) ->
  selectU64Indexed w (indexSelectU64 w) k = Some (spec_selectU64 w k).
Proof.
  intros Hw Hj HB Hk. unfold selectU64Indexed. cbv zeta. rewrite HB, ithU8_value by exact Hj.
  rewrite prev_count by (assumption || lia).
  set (n := (8 * j0)%nat).
  replace (8 * Z.of_nat j0) with (Z.of_nat n) in * by (subst n; lia).
  pose proof (popcount_split_at w n ltac:(lia)) as Hsplit. rewrite Hsplit in Hk.
  set (cprev := popcount (w mod 2 ^ Z.of_nat n)) in *.
  set (x := w / 2 ^ Z.of_nat n) in *.
  pose proof (popcount_nonneg (w mod 2 ^ Z.of_nat n)) as Hc0. fold cprev in Hc0.
  assert (Hx : 0 <= x) by (apply Z.div_pos; [lia|apply Z.pow_pos_nonneg; lia]).
  assert (Hpb : 0 <= popcount (x mod 2 ^ 8) <= 8).
  { apply popcount_byte_le. unfold byte. apply Z.mod_pos_bound. lia. }
  rewrite (u64_id (k - cprev)) by (change (2 ^ 64) with 18446744073709551616; lia).
  rewrite shr64_div by (subst n; lia). fold x.
  change 255 with (Z.ones 8). rewrite Z.land_ones by lia.
  rewrite Z.shiftl_mul_pow2 by lia. change (2 ^ 3) with 8.
  pose proof (Z.mod_pos_bound x (2 ^ 8) ltac:(lia)) as Hxm. change (2 ^ 8) with 256 in *.
  rewrite u64_id by (change (2 ^ 64) with 18446744073709551616; lia).
  set (r := Z.to_nat (k - cprev)).
  assert (Hr : (r < length (ones (bits 8 x)))%nat).
  { assert (E : Z.of_nat (length (ones (bits 8 x))) = popcount (x mod 256)).
    { rewrite ones_length. change 256 with (2 ^ Z.of_nat 8). now rewrite popcount_mod_bits. }
    subst r. lia. }
  destruct (nth_error_exists _ _ Hr) as [v Hv].
  replace (x mod 256 * 8 + (k - cprev)) with (8 * (x mod 256) + Z.of_nat r) by (subst r; lia).
  rewrite (select8Lookup_byte x r v Hx Hv).
  unfold spec_selectU64. do 2 f_equal.
  pose proof (ones_byte_at w n r v ltac:(subst n; lia) Hv) as Hat. fold cprev in Hat.
  replace (Z.to_nat cprev + r)%nat with (Z.to_nat k) in Hat by (subst r; lia).
  rewrite (nth_error_nth _ _ 0 Hat). lia.
Qed.

(** * biggerBits *)
Definition gt_flag (k c : Z) : Z := if k <? c then 128 else 0.

Lemma land_128 e : byte e -> Z.land e 128 = if 128 <=? e then 128 else 0.
Proof.
  intros He.
  pose proof (byte_forall (fun e => Z.land e 128 =? (if 128 <=? e then 128 else 0)) ltac:(vm_compute; reflexivity) e He) as E.
  now apply Z.eqb_eq in E.
Qed.

Lemma bigger_form c0 c1 c2 c3 c4 c5 c6 c7 k :
  0 <= c0 <= 64 -> 0 <= c1 <= 64 -> 0 <= c2 <= 64 -> 0 <= c3 <= 64 ->
  0 <= c4 <= 64 -> 0 <= c5 <= 64 -> 0 <= c6 <= 64 -> 0 <= c7 <= 64 -> 0 <= k <= 127 ->
  Z.land (u64 (H (map (Z.add 128) [c0; c1; c2; c3; c4; c5; c6; c7]) - u64 (u64 (k + 1) * ones_bytes))) high_bits =
  H (map (gt_flag k) [c0; c1; c2; c3; c4; c5; c6; c7]).
Proof.
  intros A0 A1 A2 A3 A4 A5 A6 A7 Hk.
  rewrite (u64_id (k + 1)) by (change (2 ^ 64) with 18446744073709551616; lia).
  rewrite (u64_id ((k + 1) * ones_bytes)) by (unfold ones_bytes; change (2 ^ 64) with 18446744073709551616; lia).
  set (es := map (fun c => 128 + c - (k + 1)) [c0; c1; c2; c3; c4; c5; c6; c7]).
  assert (E : H (map (Z.add 128) [c0; c1; c2; c3; c4; c5; c6; c7]) - (k + 1) * ones_bytes = H es).
  { unfold es, ones_bytes. cbn [map H fold_right]. ring. }
  rewrite E.
  assert (Hes : Forall byte es).
  { unfold es. cbn [map]. unfold byte. change (2 ^ 8) with 256. repeat constructor; lia. }
  rewrite u64_H by (exact Hes || reflexivity).
  rewrite high_bits_H. change (repeat 128 8) with (repeat 128 (length es)).
  rewrite H_land by (exact Hes || lia).
  f_equal. unfold es. rewrite map_map. apply map_ext_in. intros c Hc.
  assert (Hcr : 0 <= c <= 64) by (cbn [In] in Hc; intuition subst; assumption).
  rewrite land_128 by (unfold byte; change (2 ^ 8) with 256; lia).
  unfold gt_flag. destruct (Z.leb_spec 128 (128 + c - (k + 1))), (Z.ltb_spec k c); lia.
Qed.

Lemma bigger_of_cums w k : 0 <= w < 2 ^ 64 -> 0 <= k <= 127 ->
  Z.land (u64 (indexSelectU64 w - u64 (u64 (k + 1) * ones_bytes))) high_bits = H (map (gt_flag k) (cums w)).
Proof.
  intros Hw Hk. rewrite indexSelectU64_form by exact Hw.
  pose proof (cums_bound w ltac:(lia)) as Hb. pose proof (cums_length w) as Hlen. clear Hw.
  destruct (cums w) as [|c0 [|c1 [|c2 [|c3 [|c4 [|c5 [|c6 [|c7 [|? ?]]]]]]]]]; try discriminate Hlen.
  repeat match goal with X : Forall _ (_ :: _) |- _ => inversion X; clear X; subst end.
  apply bigger_form; assumption.
Qed.

(** * the theorem *)
(* no div/mod elimination from here on: the cumulative counts are atoms *)
Local Ltac Zify.zify_post_hook ::= idtac.

Lemma cums_explicit w : 0 <= w < 2 ^ 64 ->
  cums w = map (fun j => popcount (w mod 2 ^ (8 * Z.of_nat j + 8))) (seq 0 8).
Proof.
  intros Hw. pose proof (cums_length w) as Hlen.
  pose proof (cums_nth w 0 ltac:(lia) ltac:(lia)) as N0. pose proof (cums_nth w 1 ltac:(lia) ltac:(lia)) as N1.
  pose proof (cums_nth w 2 ltac:(lia) ltac:(lia)) as N2. pose proof (cums_nth w 3 ltac:(lia) ltac:(lia)) as N3.
  pose proof (cums_nth w 4 ltac:(lia) ltac:(lia)) as N4. pose proof (cums_nth w 5 ltac:(lia) ltac:(lia)) as N5.
  pose proof (cums_nth w 6 ltac:(lia) ltac:(lia)) as N6. pose proof (cums_nth w 7 ltac:(lia) ltac:(lia)) as N7.
  destruct (cums w) as [|c0 [|c1 [|c2 [|c3 [|c4 [|c5 [|c6 [|c7 [|? ?]]]]]]]]]; try discriminate Hlen.
  cbn [nth] in *. rewrite N0, N1, N2, N3, N4, N5, N6, N7. reflexivity.
Qed.

Lemma cum_mono w (n : nat) : 0 <= w ->
  popcount (w mod 2 ^ Z.of_nat n) <= popcount (w mod 2 ^ (Z.of_nat n + 8)).
Proof.
  intros Hw. rewrite popcount_split_at by exact Hw.
  pose proof (popcount_nonneg ((w / 2 ^ Z.of_nat n) mod 2 ^ 8)). lia.
Qed.

(** the first byte whose cumulative count exceeds [k] *)
Lemma dispatch k c0 c1 c2 c3 c4 c5 c6 c7 :
  0 <= c0 -> c0 <= c1 -> c1 <= c2 -> c2 <= c3 -> c3 <= c4 -> c4 <= c5 -> c5 <= c6 -> c6 <= c7 -> 0 <= k < c7 ->
  exists j0 : nat, (j0 < 8)%nat /\
    map (gt_flag k) [c0; c1; c2; c3; c4; c5; c6; c7] = repeat 0 j0 ++ repeat 128 (8 - j0) /\
    nth j0 [0; c0; c1; c2; c3; c4; c5; c6] 0 <= k < nth j0 [c0; c1; c2; c3; c4; c5; c6; c7] 0.
Proof.
  intros M0 M1 M2 M3 M4 M5 M6 M7 Hk.
  Ltac flags k := cbn [map repeat app Nat.sub]; unfold gt_flag;
    repeat match goal with |- context [k <? ?c] => destruct (Z.ltb_spec k c); try lia end; reflexivity.
  destruct (Z.ltb_spec k c0); [exists 0%nat; split; [lia|split; [flags k|cbn [nth]; lia]]|].
  destruct (Z.ltb_spec k c1); [exists 1%nat; split; [lia|split; [flags k|cbn [nth]; lia]]|].
  destruct (Z.ltb_spec k c2); [exists 2%nat; split; [lia|split; [flags k|cbn [nth]; lia]]|].
  destruct (Z.ltb_spec k c3); [exists 3%nat; split; [lia|split; [flags k|cbn [nth]; lia]]|].
  destruct (Z.ltb_spec k c4); [exists 4%nat; split; [lia|split; [flags k|cbn [nth]; lia]]|].
  destruct (Z.ltb_spec k c5); [exists 5%nat; split; [lia|split; [flags k|cbn [nth]; lia]]|].
  destruct (Z.ltb_spec k c6); [exists 6%nat; split; [lia|split; [flags k|cbn [nth]; lia]]|].
  exists 7%nat; split; [lia|split; [flags k|cbn [nth]; lia]].
Qed.

Theorem selectU64Indexed_spec w k : 0 <= w < 2 ^ 64 -> 0 <= k < popcount w ->
  selectU64Indexed w (indexSelectU64 w) k = Some (spec_selectU64 w k).
Proof.
  intros Hw Hk.
  pose proof (popcount_le_64 w Hw) as Hp64.
  assert (Hk126 : 0 <= k <= 127) by lia.
  pose proof (bigger_of_cums w k Hw Hk126) as HB.
  pose proof (cums_explicit w Hw) as Ecs. cbn [seq map] in Ecs. rewrite Ecs in HB. clear Ecs Hk126 Hp64.
  assert (Hw0 : 0 <= w) by lia.
  pose proof (popcount_nonneg (w mod 2 ^ (8 * Z.of_nat 0 + 8))) as M0.
  pose proof (cum_mono w 8 Hw0) as M1. pose proof (cum_mono w 16 Hw0) as M2. pose proof (cum_mono w 24 Hw0) as M3.
  pose proof (cum_mono w 32 Hw0) as M4. pose proof (cum_mono w 40 Hw0) as M5. pose proof (cum_mono w 48 Hw0) as M6.
  pose proof (cum_mono w 56 Hw0) as M7.
  assert (E7 : popcount w = popcount (w mod 2 ^ (8 * Z.of_nat 7 + 8))).
  { change (8 * Z.of_nat 7 + 8) with 64. now rewrite Z.mod_small by exact Hw. }
  rewrite E7 in Hk.
  destruct (dispatch k (popcount (w mod 2 ^ (8 * Z.of_nat 0 + 8))) (popcount (w mod 2 ^ (8 * Z.of_nat 1 + 8)))
              (popcount (w mod 2 ^ (8 * Z.of_nat 2 + 8))) (popcount (w mod 2 ^ (8 * Z.of_nat 3 + 8)))
              (popcount (w mod 2 ^ (8 * Z.of_nat 4 + 8))) (popcount (w mod 2 ^ (8 * Z.of_nat 5 + 8)))
              (popcount (w mod 2 ^ (8 * Z.of_nat 6 + 8))) (popcount (w mod 2 ^ (8 * Z.of_nat 7 + 8)))
              M0 M1 M2 M3 M4 M5 M6 M7 Hk) as (j0 & Hj0 & Hflags & Hlo).
  rewrite Hflags in HB. clear Hflags M0 M1 M2 M3 M4 M5 M6 M7 E7 Hk Hw0.
  destruct j0 as [|j0].
  { apply (sel_case w k 0 Hw Hj0 HB). cbn [nth] in Hlo.
    change (2 ^ (8 * Z.of_nat 0)) with 1. rewrite Z.mod_1_r. exact Hlo. }
  do 7 (destruct j0 as [|j0]; [apply (sel_case w k _ Hw Hj0 HB); cbn [nth] in Hlo; exact Hlo|]).
  lia.
Qed.

(** * outside the domain (model theorem only; never compared with the implementation): for [popcount w <= k <= 127]
      no byte of the index exceeds [k], biggerBits is 0, [ithU8 = 64], the word is shifted out completely and the
      table is read at the unrelated index [k - popcount w]: the result is [64 + select8Lookup[k - popcount w]],
      a position >= 64, i.e. never a position inside the word (72 for k - popcount w < 8).  For larger [k] the
      per-byte subtraction borrows across bytes / the table read panics; nothing is stated. *)
Lemma table_entries_small : forallb (fun v => (0 <=? v) && (v <=? 8)) select8Lookup = true.
Proof. vm_compute. reflexivity. Qed.

Lemma table_length : length select8Lookup = 2048%nat.
Proof. vm_compute. reflexivity. Qed.

Theorem selectU64Indexed_beyond w k : 0 <= w < 2 ^ 64 -> popcount w <= k <= 127 ->
  let v := nth (Z.to_nat (k - popcount w)) select8Lookup 0 in
  selectU64Indexed w (indexSelectU64 w) k = Some (64 + v, 0) /\ 0 <= v <= 8.
Proof.
  intros Hw Hk v.
  pose proof (popcount_nonneg w) as Hp0.
  assert (Hlt : (Z.to_nat (k - popcount w) < length select8Lookup)%nat) by (rewrite table_length; lia).
  assert (Hv : 0 <= v <= 8).
  { pose proof table_entries_small as T. rewrite forallb_forall in T.
    specialize (T v (nth_In _ _ Hlt)). lia. }
  split; [|exact Hv].
  assert (HB : Z.land (u64 (indexSelectU64 w - u64 (u64 (k + 1) * ones_bytes))) high_bits = 0).
  { rewrite bigger_of_cums by (exact Hw || lia).
    pose proof (cums_length w) as Hlen.
    assert (Hle : forall j, (j < 8)%nat -> nth j (cums w) 0 <= popcount w).
    { intros j Hj. rewrite cums_nth by lia.
      replace (8 * (Z.of_nat j + 1)) with (Z.of_nat (8 * (j + 1)) + 0) by lia.
      pose proof (rank1_bits64 w (8 * (j + 1)) ltac:(lia) ltac:(lia)) as R. rewrite Z.add_0_r, <- R.
      unfold rank1. rewrite (popcount_bits64 w Hw). apply count_true_firstn_le. }
    pose proof (Hle 0%nat ltac:(lia)). pose proof (Hle 1%nat ltac:(lia)). pose proof (Hle 2%nat ltac:(lia)).
    pose proof (Hle 3%nat ltac:(lia)). pose proof (Hle 4%nat ltac:(lia)). pose proof (Hle 5%nat ltac:(lia)).
    pose proof (Hle 6%nat ltac:(lia)). pose proof (Hle 7%nat ltac:(lia)). clear Hle.
    destruct (cums w) as [|c0 [|c1 [|c2 [|c3 [|c4 [|c5 [|c6 [|c7 [|? ?]]]]]]]]]; try discriminate Hlen.
    cbn [nth] in *. cbn [map]. unfold gt_flag.
    repeat match goal with |- context [k <? ?c] => destruct (Z.ltb_spec k c); try lia end. reflexivity. }
  unfold selectU64Indexed. cbv zeta. rewrite HB.
  change (Z.land (tz64 0) (-8)) with (8 * Z.of_nat 8).
  rewrite prev_count by (exact Hw || lia).
  change (8 * Z.of_nat 8) with 64. rewrite (Z.mod_small w) by exact Hw.
  unfold shr64 at 1. change (64 <? 64) with false. cbv iota.
  rewrite Z.land_0_l, Z.shiftl_0_l, Z.add_0_l.
  rewrite !(u64_id (k - popcount w)) by (change (2 ^ 64) with 18446744073709551616; lia).
  unfold nthZ. destruct (Z.ltb_spec (k - popcount w) 0); [lia|].
  rewrite (nth_error_nth_Some _ _ 0 Hlt). fold v. f_equal. f_equal. lia.
Qed.
