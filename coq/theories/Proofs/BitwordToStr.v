(** C08 (bitword), second part: ToStr packs the words MSB-first with zero
    padding (uint8 accumulator and byte shifts of the model included), and
    ToStr (FromStr s) = s; ToStrs / FromStrs are the element-wise maps. *)
From Coq Require Import ZArith List Bool Lia PeanoNat.
From Low Require Import Lib.MachInt Lib.Bits Lib.BitSeq Lib.Bytes Lib.Lex Lib.Val Lib.Pack_bw Lib.PackLemmas_bw
  Model.Bitword Spec.BitwordSpec Proofs.BitwordProofs.
Import ListNotations.
Open Scope Z_scope.

(** * words and their n bits *)
Definition word_in (n : nat) (x : Z) : Prop := 0 <= x < 2 ^ Z.of_nat n.

Lemma words_inb_in n ws : words_inb n ws = true -> words_in n ws.
Proof.
  unfold words_inb, words_in. rewrite forallb_forall, Forall_forall.
  intros H x Hx. specialize (H x Hx). lia.
Qed.

Lemma to_bits_length n x : length (to_bits n x) = n.
Proof. unfold to_bits. now rewrite rev_length, bits_length. Qed.

Lemma to_bits_S n x : to_bits (S n) x = to_bits n (Z.div2 x) ++ [Z.odd x].
Proof. unfold to_bits. rewrite bits_S. reflexivity. Qed.

Lemma val_msb_single b : val_msb [b] = Z.b2z b.
Proof. destruct b; reflexivity. Qed.

(** the n bits of x, read back, are x mod 2^n *)
Lemma val_msb_to_bits n : forall x, val_msb (to_bits n x) = x mod 2 ^ Z.of_nat n.
Proof.
  induction n as [|n IH]; intros x.
  - cbn. now rewrite Z.mod_1_r.
  - rewrite to_bits_S, val_msb_app, IH, val_msb_single. cbn [length].
    change (2 ^ Z.of_nat 1) with 2. rewrite Nat2Z.inj_succ, Z.pow_succ_r by lia.
    rewrite Z.rem_mul_r by lia.
    rewrite Z.div2_div, Zmod_odd. destruct (Z.odd x); cbn [Z.b2z]; lia.
Qed.

Lemma val_msb_to_bits_in n x : word_in n x -> val_msb (to_bits n x) = x.
Proof. intros H. rewrite val_msb_to_bits. apply Z.mod_small. exact H. Qed.

Lemma to_bits_0 n : to_bits n 0 = repeat false n.
Proof.
  induction n as [|n IH]; [reflexivity|].
  rewrite to_bits_S. change (Z.div2 0) with 0. rewrite IH. change (Z.odd 0) with false.
  change [false] with (repeat false 1). rewrite <- repeat_app. f_equal. lia.
Qed.

(** reading n bits and writing them back *)
Lemma to_bits_val_msb n : forall c, length c = n -> to_bits n (val_msb c) = c.
Proof.
  induction n as [|n IH]; intros c Hc.
  - destruct c; [reflexivity|discriminate].
  - destruct (exists_last (l := c)) as (c' & b & ->); [intros ->; discriminate|].
    rewrite app_length in Hc. cbn [length] in Hc.
    rewrite to_bits_S, val_msb_app, val_msb_single. cbn [length]. change (2 ^ Z.of_nat 1) with 2.
    assert (E2 : Z.div2 (val_msb c' * 2 + Z.b2z b) = val_msb c').
    { rewrite Z.div2_div. symmetry. apply (Z.div_unique _ _ _ (Z.b2z b)); destruct b; cbn [Z.b2z]; lia. }
    assert (Eo : Z.odd (val_msb c' * 2 + Z.b2z b) = b).
    { rewrite Z.add_comm, Z.mul_comm, Z.odd_add_mul_2. now destruct b. }
    rewrite E2, Eo, IH by lia. reflexivity.
Qed.

Lemma flat_map_to_bits_length n ws : length (flat_map (to_bits n) ws) = (n * length ws)%nat.
Proof.
  induction ws as [|x ws IH]; [cbn; lia|].
  cbn [flat_map length]. rewrite app_length, to_bits_length, IH. lia.
Qed.

Lemma flat_map_to_bits_zeros n k : flat_map (to_bits n) (repeat 0 k) = repeat false (n * k).
Proof.
  induction k as [|k IH]; [now rewrite Nat.mul_0_r|].
  cbn [repeat flat_map]. rewrite IH, to_bits_0, <- repeat_app. f_equal. lia.
Qed.

(** * byte shifts of the model *)
Lemma shl8_val b k p : 0 <= p -> 0 <= k -> p + k <= 8 -> 0 <= b < 2 ^ p -> shl8 b k = b * 2 ^ k.
Proof.
  intros Hp Hk Hpk Hb. unfold shl8.
  destruct (Z.leb_spec 0 k); [|lia]. destruct (Z.ltb_spec k 8); cbn [andb].
  - apply u8_id. split; [apply Z.mul_nonneg_nonneg; lia|].
    apply Z.lt_le_trans with (2 ^ p * 2 ^ k).
    + apply Z.mul_lt_mono_pos_r; lia.
    + rewrite <- Z.pow_add_r by lia. apply Z.pow_le_mono_r; lia.
  - assert (p = 0) by lia. subst p. change (2 ^ 0) with 1 in Hb. assert (b = 0) by lia. subst b. reflexivity.
Qed.

(** * one output byte of ToStr *)
Definition tostr_step (n m : Z) (bs : list Z) (i : Z) (acc : option Z) (j : Z) : option Z :=
  match acc with
  | None => None
  | Some b =>
      if i * m + j <? zlen bs then
        match nthZ bs (i * m + j) with
        | Some x => Some (u8 (shl8 b n + x))
        | None => None
        end
      else Some (shl8 b n)
  end.

Lemma ToStr_byte_fold w bs i :
  ToStr_byte w bs i = fold_left (tostr_step (width w) (byteCap w) bs i) (zrange (byteCap w)) (Some 0).
Proof. reflexivity. Qed.

(** the words that go into output byte 0, zero-padded to m words *)
Definition grp (m : nat) (bs : list Z) : list Z :=
  firstn m bs ++ repeat 0 (m - length (firstn m bs)).

Lemma grp_length m bs : length (grp m bs) = m.
Proof. unfold grp. rewrite app_length, repeat_length, firstn_length. lia. Qed.

Lemma grp_full m c l : length c = m -> grp m (c ++ l) = c.
Proof.
  intros H. unfold grp. rewrite firstn_app, H, Nat.sub_diag, firstn_O, app_nil_r.
  rewrite firstn_all2 by lia. rewrite H, Nat.sub_diag. apply app_nil_r.
Qed.

Lemma grp_short m c : (length c <= m)%nat -> grp m c = c ++ repeat 0 (m - length c).
Proof. intros H. unfold grp. now rewrite firstn_all2 by lia. Qed.

Lemma grp_nth_lt m bs t : (t < m)%nat -> (t < length bs)%nat -> nth_error (grp m bs) t = nth_error bs t.
Proof.
  intros Hm Hl. unfold grp. rewrite nth_error_app1 by (rewrite firstn_length; lia).
  rewrite <- (firstn_skipn m bs) at 2. rewrite nth_error_app1 by (rewrite firstn_length; lia). reflexivity.
Qed.

Lemma nth_error_repeat {A} (x : A) k t : (t < k)%nat -> nth_error (repeat x k) t = Some x.
Proof.
  revert t. induction k as [|k IH]; intros t H; [lia|].
  destruct t; [reflexivity|]. cbn [repeat nth_error]. apply IH. lia.
Qed.

Lemma grp_nth_ge m bs t : (t < m)%nat -> (length bs <= t)%nat -> nth_error (grp m bs) t = Some 0.
Proof.
  intros Hm Hl. unfold grp. rewrite firstn_all2 by lia.
  rewrite nth_error_app2 by lia. apply nth_error_repeat. lia.
Qed.

Lemma words_in_grp n m bs : words_in n bs -> words_in n (grp m bs).
Proof.
  intros H. unfold grp, words_in in *. apply Forall_app. split.
  - rewrite Forall_forall in *. intros x Hx. apply H.
    rewrite <- (firstn_skipn m bs). apply in_or_app. now left.
  - rewrite Forall_forall. intros x Hx. apply repeat_spec in Hx. subst.
    split; [lia|]. apply Z.pow_pos_nonneg; lia.
Qed.

(** * generic list facts *)
Lemma fold_left_ext_in {A B} (f g : A -> B -> A) l :
  (forall a x, In x l -> f a x = g a x) -> forall a, fold_left f l a = fold_left g l a.
Proof.
  induction l as [|x l IH]; intros H a; [reflexivity|].
  cbn [fold_left]. rewrite H by (left; reflexivity). apply IH. intros; apply H; now right.
Qed.

Lemma nthZ_app_shift {A} (c l : list A) k : 0 <= k -> nthZ (c ++ l) (zlen c + k) = nthZ l k.
Proof.
  intros Hk. unfold nthZ, zlen. destruct (Z.ltb_spec (Z.of_nat (length c) + k) 0); [lia|].
  destruct (Z.ltb_spec k 0); [lia|].
  rewrite nth_error_app2 by lia. f_equal. lia.
Qed.

Lemma zrange_cons k : 0 <= k -> zrange (1 + k) = 0 :: map (Z.add 1) (zrange k).
Proof.
  intros Hk. unfold zrange. replace (Z.to_nat (1 + k)) with (S (Z.to_nat k)) by lia.
  cbn [seq map]. f_equal. rewrite <- seq_shift, !map_map. apply map_ext. intros a. lia.
Qed.

Section ToStr.
  Variable n : nat.
  Hypothesis Hn : widthP n.
  Let w := newBW (Z.of_nat n).
  Let m := capn n.

  Lemma width_w : width w = Z.of_nat n.
  Proof. exact (proj1 (newBW_fields n Hn)). Qed.
  Lemma byteCap_w : byteCap w = Z.of_nat m.
  Proof. exact (byteCap_capn n Hn). Qed.
  Lemma nm8 : (n * m = 8)%nat.
  Proof. subst m. rewrite Nat.mul_comm. now apply capn_mul. Qed.
  Lemma m_pos : (0 < m)%nat.
  Proof. pose proof nm8. destruct m; lia. Qed.
  Lemma n_pos : (0 < n)%nat.
  Proof. pose proof nm8. destruct n; lia. Qed.

  (** the accumulator after t words is the value of their bits *)
  Lemma tostr_fold_prefix bs : words_in n bs -> forall t, (t <= m)%nat ->
    fold_left (tostr_step (Z.of_nat n) (Z.of_nat m) bs 0) (zrange (Z.of_nat t)) (Some 0) =
    Some (val_msb (flat_map (to_bits n) (firstn t (grp m bs)))).
  Proof.
    intros Hbs. induction t as [|t IH]; intros Ht; [reflexivity|].
    rewrite zrange_S, fold_left_app, IH by lia. cbn [fold_left].
    set (g := grp m bs).
    set (b := val_msb (flat_map (to_bits n) (firstn t g))).
    assert (Hb : 0 <= b < 2 ^ (Z.of_nat (n * t))).
    { subst b. pose proof (val_msb_range (flat_map (to_bits n) (firstn t g))) as R.
      rewrite flat_map_to_bits_length, firstn_length in R. unfold g in R. rewrite grp_length in R.
      replace (Init.Nat.min t m) with t in R by lia. exact R. }
    assert (Hsh : shl8 b (Z.of_nat n) = b * 2 ^ Z.of_nat n).
    { apply (shl8_val _ _ (Z.of_nat (n * t))); try lia. pose proof nm8. nia. }
    assert (Hg : forall x, nth_error g t = Some x -> word_in n x ->
                 val_msb (flat_map (to_bits n) (firstn (S t) g)) = b * 2 ^ Z.of_nat n + x).
    { intros x Hx Hin. rewrite (firstn_succ_nth _ _ _ Hx), flat_map_app, val_msb_app.
      cbn [flat_map]. rewrite app_nil_r, to_bits_length, val_msb_to_bits_in by exact Hin. reflexivity. }
    unfold tostr_step. rewrite Z.mul_0_l, Z.add_0_l, nthZ_of_nat.
    unfold zlen. destruct (Z.ltb_spec (Z.of_nat t) (Z.of_nat (length bs))) as [Hlt|Hge].
    - assert (Hnth : nth_error g t = nth_error bs t) by (apply grp_nth_lt; lia).
      destruct (nth_error bs t) as [x|] eqn:Ex; [|apply nth_error_None in Ex; lia].
      assert (Hin : word_in n x).
      { unfold words_in in Hbs. rewrite Forall_forall in Hbs. apply Hbs. eapply nth_error_In; eauto. }
      rewrite (Hg x Hnth Hin), Hsh. f_equal. apply u8_id.
      unfold word_in in Hin. split; [nia|].
      apply Z.lt_le_trans with (2 ^ Z.of_nat (n * t) * 2 ^ Z.of_nat n); [nia|].
      rewrite <- Z.pow_add_r by lia. change (2 ^ 8) with (2 ^ Z.of_nat 8). apply Z.pow_le_mono_r; [lia|].
      pose proof nm8. nia.
    - assert (Hnth : nth_error g t = Some 0) by (apply grp_nth_ge; lia).
      rewrite (Hg 0 Hnth), Hsh; [f_equal; lia|].
      split; [lia|]. apply Z.pow_pos_nonneg; lia.
  Qed.

  Lemma ToStr_byte_0 bs : words_in n bs ->
    ToStr_byte w bs 0 = Some (val_msb (flat_map (to_bits n) (grp m bs))).
  Proof.
    intros Hbs. rewrite ToStr_byte_fold, width_w, byteCap_w.
    rewrite (tostr_fold_prefix bs Hbs m) by lia.
    rewrite firstn_all2 by (rewrite grp_length; lia). reflexivity.
  Qed.

  (** byte i+1 of a list that starts with a full group is byte i of the rest *)
  Lemma ToStr_byte_shift c l i : length c = m -> 0 <= i ->
    ToStr_byte w (c ++ l) (1 + i) = ToStr_byte w l i.
  Proof.
    intros Hc Hi. rewrite !ToStr_byte_fold. apply fold_left_ext_in.
    intros acc j Hj. apply in_zrange in Hj. rewrite byteCap_w in *.
    unfold tostr_step. destruct acc as [b|]; [|reflexivity].
    replace ((1 + i) * Z.of_nat m + j) with (zlen c + (i * Z.of_nat m + j)) by (unfold zlen; rewrite Hc; lia).
    rewrite nthZ_app_shift by nia.
    unfold zlen at 2. rewrite app_length, Nat2Z.inj_add. fold (zlen c) (zlen l).
    destruct (Z.ltb_spec (zlen c + (i * Z.of_nat m + j)) (zlen c + zlen l));
      destruct (Z.ltb_spec (i * Z.of_nat m + j) (zlen l)); try lia; reflexivity.
  Qed.

  (** * the byte count of the outer loop *)
  Definition tostr_sz (bs : list Z) : Z := (zlen bs + byteCap w - 1) / byteCap w.

  Lemma tostr_sz_nil : tostr_sz [] = 0.
  Proof.
    unfold tostr_sz. rewrite byteCap_w. change (zlen (@nil Z)) with 0. pose proof m_pos.
    apply Z.div_small. lia.
  Qed.

  Lemma tostr_sz_short c : (0 < length c <= m)%nat -> tostr_sz c = 1.
  Proof.
    intros H. unfold tostr_sz, zlen. rewrite byteCap_w. symmetry.
    apply (Z.div_unique _ _ _ (Z.of_nat (length c) - 1)); lia.
  Qed.

  Lemma tostr_sz_block c l : length c = m -> tostr_sz (c ++ l) = 1 + tostr_sz l.
  Proof.
    intros H. unfold tostr_sz, zlen. rewrite byteCap_w, app_length, H, Nat2Z.inj_add. pose proof m_pos.
    replace (Z.of_nat m + Z.of_nat (length l) + Z.of_nat m - 1)
      with (1 * Z.of_nat m + (Z.of_nat (length l) + Z.of_nat m - 1)) by lia.
    rewrite Z.div_add_l by lia. reflexivity.
  Qed.

  Lemma tostr_sz_nonneg bs : 0 <= tostr_sz bs.
  Proof. unfold tostr_sz. rewrite byteCap_w. pose proof m_pos. apply Z.div_pos; unfold zlen; lia. Qed.

  Lemma ToStr_unfold bs : ToStr w bs = opt_all (map (ToStr_byte w bs) (zrange (tostr_sz bs))).
  Proof. reflexivity. Qed.

  Lemma words_in_app_l a b : words_in n (a ++ b) -> words_in n a.
  Proof. unfold words_in. rewrite Forall_app. tauto. Qed.
  Lemma words_in_app_r a b : words_in n (a ++ b) -> words_in n b.
  Proof. unfold words_in. rewrite Forall_app. tauto. Qed.

  (** * ToStr = pack of the words' bits *)
  Lemma ToStr_exact_w ws : words_in n ws -> ToStr w ws = Some (spec_ToStr n ws).
  Proof.
    pose proof nm8 as E8. pose proof m_pos as Hm. pose proof n_pos as Hnp.
    revert ws.
    apply (list_ind_block m (fun ws => words_in n ws -> ToStr w ws = Some (spec_ToStr n ws)) Hm);
      [ | intros c Hc | intros c l Hc Hl IH]; intros Hin.
    - rewrite ToStr_unfold, tostr_sz_nil. reflexivity.
    - rewrite ToStr_unfold, tostr_sz_short by exact Hc.
      change (zrange 1) with [0]. cbn [map opt_all]. rewrite ToStr_byte_0 by exact Hin.
      f_equal. unfold spec_ToStr. rewrite pack_short by (rewrite flat_map_to_bits_length; nia).
      f_equal. f_equal. rewrite grp_short by lia.
      rewrite flat_map_app, flat_map_to_bits_zeros, flat_map_to_bits_length. f_equal. f_equal. nia.
    - rewrite ToStr_unfold, tostr_sz_block by exact Hc.
      rewrite zrange_cons by apply tostr_sz_nonneg. cbn [map opt_all].
      rewrite ToStr_byte_0 by exact Hin. rewrite grp_full by exact Hc.
      rewrite map_map.
      rewrite (map_ext_in _ (ToStr_byte w l)).
      2:{ intros i Hi. apply in_zrange in Hi. apply ToStr_byte_shift; [exact Hc|lia]. }
      rewrite <- ToStr_unfold, IH by (eapply words_in_app_r; eauto).
      f_equal. unfold spec_ToStr. rewrite flat_map_app, pack_block; [reflexivity|].
      rewrite flat_map_to_bits_length. nia.
  Qed.

  (** * FromStr produces in-range words whose bits are the string's bits *)
  Lemma FromStr_byte_bits b : byte_ok b -> flat_map (to_bits n) (FromStr_byte w b) = byte_bits b.
  Proof.
    intros Hb.
    assert (T : forallb (fun n => forallb (fun b =>
               list_bool_eqb (flat_map (to_bits n) (FromStr_byte (newBW (Z.of_nat n)) b)) (byte_bits b))
               (zrange 256)) [1%nat; 2%nat; 4%nat; 8%nat] = true) by (vm_compute; reflexivity).
    apply list_bool_eqb_eq. rewrite forallb_forall in T.
    apply (forall_zrange _ _ (T n ltac:(destruct Hn as [ -> | [ -> | [ -> | -> ]]]; cbn; auto)) b Hb).
  Qed.

  Lemma FromStr_byte_in b : byte_ok b -> words_in n (FromStr_byte w b).
  Proof.
    intros Hb. apply words_inb_in.
    assert (T : forallb (fun n => forallb (fun b => words_inb n (FromStr_byte (newBW (Z.of_nat n)) b))
               (zrange 256)) [1%nat; 2%nat; 4%nat; 8%nat] = true) by (vm_compute; reflexivity).
    rewrite forallb_forall in T.
    apply (forall_zrange _ _ (T n ltac:(destruct Hn as [ -> | [ -> | [ -> | -> ]]]; cbn; auto)) b Hb).
  Qed.

  Lemma FromStr_words_in s : bytes_ok s -> words_in n (FromStr w s).
  Proof.
    intros Hs. induction Hs as [|b s Hb Hs IH]; [constructor|].
    cbn [FromStr flat_map]. apply Forall_app. split; [now apply FromStr_byte_in|exact IH].
  Qed.

  Lemma FromStr_bits s : bytes_ok s -> flat_map (to_bits n) (FromStr w s) = msb_bits s.
  Proof.
    intros Hs. induction Hs as [|b s Hb Hs IH]; [reflexivity|].
    cbn [FromStr flat_map]. rewrite flat_map_app. fold (FromStr w s). rewrite IH, FromStr_byte_bits by exact Hb.
    reflexivity.
  Qed.

  Lemma ToStr_FromStr_w s : bytes_ok s -> ToStr w (FromStr w s) = Some s.
  Proof.
    intros Hs. rewrite ToStr_exact_w by now apply FromStr_words_in.
    unfold spec_ToStr. rewrite FromStr_bits, pack_msb_bits by exact Hs. reflexivity.
  Qed.

  (** * element-wise conversions *)
  Lemma FromStrs_exact_w ss : Forall bytes_ok ss -> FromStrs w ss = spec_FromStrs n ss.
  Proof.
    intros H. unfold FromStrs, spec_FromStrs. apply map_ext_in. intros s Hs.
    rewrite Forall_forall in H. apply FromStr_exact; auto.
  Qed.

  Lemma ToStrs_exact_w wss : Forall (words_in n) wss -> ToStrs w wss = Some (spec_ToStrs n wss).
  Proof.
    intros H. unfold ToStrs, spec_ToStrs. induction H as [|ws wss Hws H IH]; [reflexivity|].
    cbn [map opt_all]. rewrite ToStr_exact_w by exact Hws. now rewrite IH.
  Qed.
End ToStr.

(** * statements without the section's abbreviations *)
Lemma ToStr_exact n ws : widthP n -> words_in n ws ->
  ToStr (newBW (Z.of_nat n)) ws = Some (spec_ToStr n ws).
Proof. intros Hn. now apply ToStr_exact_w. Qed.

Lemma ToStr_FromStr n s : widthP n -> bytes_ok s ->
  ToStr (newBW (Z.of_nat n)) (FromStr (newBW (Z.of_nat n)) s) = Some s.
Proof. intros Hn. now apply ToStr_FromStr_w. Qed.

Lemma FromStr_in_range n s : widthP n -> bytes_ok s -> words_in n (FromStr (newBW (Z.of_nat n)) s).
Proof. intros Hn. now apply FromStr_words_in. Qed.

Lemma FromStrs_exact n ss : widthP n -> Forall bytes_ok ss ->
  FromStrs (newBW (Z.of_nat n)) ss = spec_FromStrs n ss.
Proof. intros Hn. now apply FromStrs_exact_w. Qed.

Lemma ToStrs_exact n wss : widthP n -> Forall (words_in n) wss ->
  ToStrs (newBW (Z.of_nat n)) wss = Some (spec_ToStrs n wss).
Proof. intros Hn. now apply ToStrs_exact_w. Qed.

(** length of the packed string: ceil(|ws| * n / 8) *)
Lemma spec_ToStr_length n ws : widthP n ->
  zlen (spec_ToStr n ws) = (zlen ws * Z.of_nat n + 7) / 8.
Proof.
  intros Hn. unfold spec_ToStr, zlen.
  pose proof (pad8_length (flat_map (to_bits n) ws)) as H. rewrite pad8_length', flat_map_to_bits_length in H.
  pose proof (padn_lt (n * length ws)) as P.
  apply (Z.div_unique _ _ _ (7 - Z.of_nat (padn (n * length ws)))); lia.
Qed.
