(** Equality of the definition generated from the Go source of bitmap.FromStr32 (coq/gen/Trans.v) and the model. *)
From Coq Require Import ZArith List Lia Bool.
From Low Require Import Lib.MachInt Lib.Bits Lib.BitSeq Lib.TransLib Proofs.TransEqLemmas.
From Low Require Model.FromStr32.
From LowGen Require Trans.
Import ListNotations.
Open Scope Z_scope.

Lemma tblZ_Mask_MaskAt i : tblZ 65 Mask i = FromStr32.MaskAt i.
Proof.
  unfold tblZ, FromStr32.MaskAt.
  destruct (Z.leb_spec 0 i); destruct (Z.ltb_spec i 65); destruct (Z.leb_spec i 64); cbn [andb]; try reflexivity; lia.
Qed.

Definition bytes (s : list Z) : Prop := Forall (fun b => 0 <= b < 256) s.

Lemma byte_u64 s i c : bytes s -> nthZ s i = Some c -> u64 c = c.
Proof.
  intros Hb E. pose proof (nthZ_Forall _ _ _ _ Hb E) as H. cbv beta in H. apply u64_id. lia.
Qed.

(** the string is a list of bytes and [frombit] an int32 (the ranges of the Go types); [tobit] is arbitrary *)
Local Ltac fin := rewrite ?shr64_count_i32; reflexivity.

Lemma TransEq_bitmap_FromStr32 s frombit tobit : bytes s -> in_i32 frombit ->
  Trans.bitmap_FromStr32 s frombit tobit = FromStr32.FromStr32 s frombit tobit.
Proof.
  unfold in_i32. intros Hb Hf.
  unfold Trans.bitmap_FromStr32, FromStr32.FromStr32, FromStr32.gather. cbv zeta beta.
  unfold sshl64. destruct (Z.ltb_spec 3 64) as [_|]; [|lia]. change (2 ^ 3) with 8.
  rewrite i32_i64.
  assert (Hi : - 2 ^ 28 <= sar32 frombit 3 < 2 ^ 28).
  { unfold sar32. destruct (Z.ltb_spec 3 32); [|lia]. change (2 ^ 3) with 8.
    split; [apply Z.div_le_lower_bound|apply Z.div_lt_upper_bound]; lia. }
  set (i := sar32 frombit 3) in *.
  rewrite (i32_id (i + 1)) by lia.
  rewrite (i32_id (i + 1 + 1)) by lia.
  rewrite (i32_id (i + 1 + 1 + 1)) by lia.
  rewrite (i32_id (i + 1 + 1 + 1 + 1)) by lia.
  rewrite !tblZ_Mask_MaskAt.
  set (size := i32 (tobit - frombit)).
  set (blen0 := i32 (i32 (zlen s * 8) - frombit)).
  destruct (blen0 >? size);
  (match goal with |- context [if ?b <=? 0 then _ else _] => destruct (b <=? 0); [reflexivity|] end);
  (destruct (i32 (zlen s) >? sar32 (i32 (tobit + 7)) 3));
  (match goal with |- context [if i <? ?l then _ else _] => set (lim := l) end);
  (destruct (i <? lim); [|fin]);
  (destruct (nthZ s i) as [c0|] eqn:E0; [|fin]); rewrite (byte_u64 _ _ _ Hb E0);
  (destruct (i + 1 <? lim); [|fin]);
  (destruct (nthZ s (i + 1)) as [c1|] eqn:E1; [|fin]); rewrite (byte_u64 _ _ _ Hb E1);
  (destruct (i + 1 + 1 <? lim); [|fin]);
  (destruct (nthZ s (i + 1 + 1)) as [c2|] eqn:E2; [|fin]); rewrite (byte_u64 _ _ _ Hb E2);
  (destruct (i + 1 + 1 + 1 <? lim); [|fin]);
  (destruct (nthZ s (i + 1 + 1 + 1)) as [c3|] eqn:E3; [|fin]); rewrite (byte_u64 _ _ _ Hb E3);
  (destruct (i + 1 + 1 + 1 + 1 <? lim); [|fin]);
  (destruct (nthZ s (i + 1 + 1 + 1 + 1)) as [c4|] eqn:E4; [|fin]); rewrite (byte_u64 _ _ _ Hb E4);
  fin.
Qed.
