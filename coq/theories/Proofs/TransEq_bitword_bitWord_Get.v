(** Equality of the definition generated from the Go source of bitword.bitWord.Get (coq/gen/Trans.v) and the model. *)
From Coq Require Import ZArith List Lia Bool.
From Low Require Import Lib.MachInt Lib.Bits Lib.BitSeq Lib.TransLib Proofs.TransEqLemmas.
From LowGen Require Trans.
Import ListNotations.
Open Scope Z_scope.

From Low Require Model.Bitword.

(** the receiver is the model's record; the model (Model/Bitword.v) multiplies in unbounded Z, the code in int:
    hypotheses of C08's domain (a width of at most 8 bits, a word index whose bit position is far inside int) *)
Lemma TransEq_bitword_bitWord_Get w s ith :
  0 <= Bitword.width w <= 8 -> 0 <= ith -> Bitword.width w * ith < 2 ^ 62 ->
  Trans.bitword_bitWord_Get w s ith = Bitword.Get w s ith.
Proof.
  intros Hw Hi Hm. unfold Trans.bitword_bitWord_Get, Bitword.Get. cbv zeta.
  assert (0 <= Bitword.width w * ith) by nia.
  rewrite (i64_id (Bitword.width w * ith)) by lia.
  rewrite (i64_id (Bitword.width w * ith + Bitword.width w)) by lia.
  rewrite (i64_id (Bitword.width w * ith + Bitword.width w - 1)) by lia.
  rewrite sar64_shiftr by lia.
  destruct (nthZ s (Z.shiftr (Bitword.width w * ith) 3)) as [word|]; [|reflexivity].
  pose proof (land_7_range (Bitword.width w * ith + Bitword.width w - 1)) as H7.
  rewrite i64_id by lia. rewrite u64_id by lia.
  unfold shr8, Bitword.shr8.
  set (k := 7 - Z.land (Bitword.width w * ith + Bitword.width w - 1) 7) in *.
  destruct (Z.ltb_spec k 8); [|lia]. destruct (Z.leb_spec 0 k); [|lia]. cbn [andb].
  rewrite Z.shiftr_div_pow2 by lia. reflexivity.
Qed.
