(** C13 - the protocol operations (Run/C13.v, Run/NextWide.v) against the theorems:
    for EVERY argument list, each operation's model output is accepted by the operation's
    specification, or the arguments are rejected as malformed / out of domain ([VBad]).
    So the verdict MODELBUG cannot occur for a C13 case, and "the model satisfies the
    specification" holds for exactly the functions the driver evaluates (no gap between
    the theorems of Properties/C13.v and what ./check runs). *)
From Coq Require Import ZArith List Bool Lia String Sorted.
From Low Require Import Lib.MachInt Lib.Bits Lib.BitSeq Lib.Val
  Model.BitmapNext Model.BitmapNext32 Model.BitmapNextIter Model.BitmapNextReaders Model.BitmapOf
  Spec.NextSpec Spec.NextTotalSpec
  Proofs.NextProofs Proofs.NextTotal Proofs.NextLaws Proofs.NextCount Proofs.NextOf Proofs.NextSelect Proofs.NextSlice
  Proofs.OfInspect Run.NextWide Run.C13.
Import ListNotations.
Open Scope Z_scope.

Lemma c13_val_eqb_refl : forall v, val_eqb v v = true.
Proof.
  fix IH 1. intros [z|l| |]; simpl; try reflexivity.
  - apply Z.eqb_refl.
  - induction l as [|x l IHl]; [reflexivity|]. rewrite (IH x). simpl. exact IHl.
Qed.

Definition op_ok (d : opdef) : Prop :=
  forall a, op_spec d a (op_run d a) = true \/ op_run d a = VBad.

Ltac dom_props :=
  repeat match goal with
  | H : _ && _ = true |- _ => apply andb_true_iff in H; destruct H
  | H : (_ <=? _) = true |- _ => apply Z.leb_le in H
  | H : (_ <? _) = true |- _ => apply Z.ltb_lt in H
  end.

Lemma as_bm_ok v bm : as_bm v = Some bm -> words_ok bm /\ 64 * zlen bm < 2^31.
Proof.
  unfold as_bm. destruct (as_zss v) as [segs|]; [|discriminate].
  destruct (unrle segs) as [b|]; [|discriminate].
  destruct (words_okb b && (64 * zlen b <? 2 ^ 31)) eqn:E; [|discriminate].
  intros [= <-]. dom_props. split; [now apply words_okb_ok|assumption].
Qed.

(** ops written with [with_bm_i_e]: pointwise agreement on the domain is enough *)
Lemma with_bm_i_e_ok name dom (run spec : list Z -> Z -> Z -> val) :
  (forall bm i e, words_ok bm -> 64 * zlen bm < 2^31 -> dom bm i e = true -> spec bm i e = run bm i e) ->
  op_ok {| op_name := name; op_run := fun a => with_bm_i_e a dom run;
           op_spec := fun_spec (fun a => with_bm_i_e a dom spec) |}.
Proof.
  intros H a. cbn [op_run op_spec]. unfold fun_spec, with_bm_i_e.
  destruct a as [|x [|y [|z [|w t]]]]; try (right; reflexivity).
  destruct (as_bm x) as [bm|] eqn:E; [|right; reflexivity].
  destruct (as_z y) as [i|]; [|right; reflexivity].
  destruct (as_z z) as [e|]; [|right; reflexivity].
  destruct (dom bm i e) eqn:D; [|right; reflexivity].
  left. destruct (as_bm_ok _ _ E) as [Hok Hs]. rewrite (H bm i e Hok Hs D). apply c13_val_eqb_refl.
Qed.

Lemma next_dom_props bm i e : next_dom bm i e = true -> 0 <= i <= e /\ e <= 64 * zlen bm /\ i < 64 * zlen bm.
Proof. unfold next_dom. intros H. dom_props. lia. Qed.

Lemma prev_dom_props bm i e : prev_dom bm i e = true ->
  0 <= i <= e /\ e <= 64 * zlen bm /\ i < 64 * zlen bm /\ 1 <= e.
Proof. unfold prev_dom. intros H. dom_props. apply next_dom_props in H. lia. Qed.

Lemma iter_dom_props bm i e : iter_dom bm i e = true -> 0 <= i <= e /\ e <= 64 * zlen bm.
Proof. unfold iter_dom. intros H. dom_props. lia. Qed.

(** * the operations of the widening *)
Lemma ok_sparse_next : op_ok (nth 0 ops_C13_wide (Build_opdef "" (fun _ => VBad) (fun _ _ => false))).
Proof.
  apply with_bm_i_e_ok. intros bm i e Hok Hs D. apply next_dom_props in D.
  rewrite NextOne32_exact by (try assumption; lia). reflexivity.
Qed.

Lemma ok_sparse_prev : op_ok (nth 1 ops_C13_wide (Build_opdef "" (fun _ => VBad) (fun _ _ => false))).
Proof.
  apply with_bm_i_e_ok. intros bm i e Hok Hs D. apply prev_dom_props in D.
  rewrite PrevOne32_exact by (try assumption; lia). reflexivity.
Qed.

Lemma q_run_spec bm : words_ok bm -> 64 * zlen bm < 2^31 -> forall qs, forallb (q_dom bm) qs = true ->
  opt_all (map (q_run bm) qs) = Some (map (q_spec bm) qs).
Proof.
  intros Hok Hs. induction qs as [|q qs IH]; [reflexivity|]. cbn [forallb map opt_all]. intros H.
  apply andb_true_iff in H. destruct H as [Hq Hqs].
  assert (E : q_run bm q = Some (q_spec bm q)).
  { unfold q_dom, q_run, q_spec in *. destruct q as [|k [|i [|e [|]]]]; try discriminate.
    destruct (k =? 0).
    - apply next_dom_props in Hq. apply NextOne32_exact; try assumption; lia.
    - destruct (k =? 1); [|discriminate]. apply prev_dom_props in Hq. apply PrevOne32_exact; try assumption; lia. }
  rewrite E, (IH Hqs). reflexivity.
Qed.

Lemma ok_held : op_ok (nth 2 ops_C13_wide (Build_opdef "" (fun _ => VBad) (fun _ _ => false))).
Proof.
  intros a. cbn [nth ops_C13_wide op_run op_spec]. unfold fun_spec.
  destruct a as [|x [|y [|z t]]]; try (right; reflexivity).
  destruct (as_bm x) as [bm|] eqn:E; [|right; reflexivity].
  destruct (as_zss y) as [qs|]; [|right; reflexivity].
  destruct (forallb (q_dom bm) qs) eqn:D; [|right; reflexivity].
  left. destruct (as_bm_ok _ _ E) as [Hok Hs]. rewrite (q_run_spec bm Hok Hs qs D). apply c13_val_eqb_refl.
Qed.

Lemma ok_iter_next : op_ok (nth 3 ops_C13_wide (Build_opdef "" (fun _ => VBad) (fun _ _ => false))).
Proof.
  apply with_bm_i_e_ok. intros bm i e Hok Hs D. apply iter_dom_props in D.
  rewrite IterNext_exact by (try assumption; lia). reflexivity.
Qed.

Lemma ok_iter_prev : op_ok (nth 4 ops_C13_wide (Build_opdef "" (fun _ => VBad) (fun _ _ => false))).
Proof.
  apply with_bm_i_e_ok. intros bm i e Hok Hs D. apply iter_dom_props in D.
  rewrite IterPrev_exact by (try assumption; lia). reflexivity.
Qed.

Lemma ok_toarray : op_ok (nth 5 ops_C13_wide (Build_opdef "" (fun _ => VBad) (fun _ _ => false))).
Proof.
  intros a. cbn [nth ops_C13_wide op_run op_spec]. unfold fun_spec.
  destruct a as [|x [|y t]]; try (right; reflexivity).
  destruct (as_bm x) as [bm|] eqn:E; [|right; reflexivity].
  left. destruct (as_bm_ok _ _ E) as [Hok Hs].
  rewrite (IterNext_exact bm Hok), (IterPrev_exact bm Hok) by (unfold zlen; lia).
  rewrite ones_in_whole, ToArray_exact. apply c13_val_eqb_refl.
Qed.

Lemma ok_dual : op_ok (nth 6 ops_C13_wide (Build_opdef "" (fun _ => VBad) (fun _ _ => false))).
Proof.
  apply with_bm_i_e_ok. intros bm i e Hok Hs D. dom_props.
  match goal with H : next_dom _ _ _ = true |- _ => apply next_dom_props in H end.
  destruct (NextPrevDual_exact bm Hok i e ltac:(lia) ltac:(lia)) as [-> _]. reflexivity.
Qed.

Lemma ok_get1 : op_ok (nth 7 ops_C13_wide (Build_opdef "" (fun _ => VBad) (fun _ _ => false))).
Proof.
  apply with_bm_i_e_ok. intros bm i e Hok Hs D. dom_props.
  match goal with H : next_dom _ _ _ = true |- _ => apply next_dom_props in H end.
  rewrite (NextGet1_exact bm Hok i e) by lia. reflexivity.
Qed.

Lemma ok_count : op_ok (nth 8 ops_C13_wide (Build_opdef "" (fun _ => VBad) (fun _ _ => false))).
Proof.
  intros a. cbn [nth ops_C13_wide op_run op_spec]. unfold fun_spec.
  destruct a as [|x [|y [|z [|w [|v t]]]]]; try (right; reflexivity).
  destruct (as_bm x) as [bm|] eqn:E; [|right; reflexivity].
  destruct (as_bool y) as [tr|]; [|right; reflexivity].
  destruct (as_z z) as [i|]; [|right; reflexivity].
  destruct (as_z w) as [e|]; [|right; reflexivity].
  destruct (iter_dom bm i e && (e <? 64 * zlen bm)) eqn:D; [|right; reflexivity].
  left. destruct (as_bm_ok _ _ E) as [Hok Hs]. dom_props.
  match goal with H : iter_dom _ _ _ = true |- _ => apply iter_dom_props in H end.
  rewrite (WalkCount_exact bm Hok tr i e) by lia. apply c13_val_eqb_refl.
Qed.

Lemma ok_select : op_ok (nth 9 ops_C13_wide (Build_opdef "" (fun _ => VBad) (fun _ _ => false))).
Proof.
  intros a. cbn [nth ops_C13_wide op_run op_spec]. unfold fun_spec.
  destruct a as [|x [|y t]]; try (right; reflexivity).
  destruct (as_bm x) as [bm|] eqn:E; [|right; reflexivity].
  left. destruct (as_bm_ok _ _ E) as [Hok Hs].
  rewrite (WalkSelect_exact bm Hok). apply c13_val_eqb_refl.
Qed.

Lemma i32_okb_props x : i32_okb x = true -> in_i32 x.
Proof. unfold i32_okb, in_i32. intros H. dom_props. lia. Qed.

Lemma ok_any_next : op_ok (nth 10 ops_C13_wide (Build_opdef "" (fun _ => VBad) (fun _ _ => false))).
Proof.
  apply with_bm_i_e_ok. intros bm i e Hok Hs D. dom_props.
  rewrite NextOne32_any by (try assumption; now apply i32_okb_props). reflexivity.
Qed.

Lemma ok_any_prev : op_ok (nth 11 ops_C13_wide (Build_opdef "" (fun _ => VBad) (fun _ _ => false))).
Proof.
  apply with_bm_i_e_ok. intros bm i e Hok Hs D. dom_props.
  rewrite PrevOne32_any by (try assumption; now apply i32_okb_props). reflexivity.
Qed.

Lemma ascendingb_sorted : forall l prev, ascendingb prev l = true ->
  StronglySorted Z.lt l /\ Forall (fun x => prev < x) l.
Proof.
  induction l as [|x l IH]; intros prev H; [split; constructor|].
  cbn [ascendingb] in H. dom_props. destruct (IH x H0) as [Hs Hf]. split.
  - constructor; assumption.
  - constructor; [assumption|]. eapply Forall_impl; [|exact Hf]. cbv beta. intros; lia.
Qed.

Lemma ok_of_walk : op_ok (nth 12 ops_C13_wide (Build_opdef "" (fun _ => VBad) (fun _ _ => false))).
Proof.
  intros a. cbn [nth ops_C13_wide op_run op_spec]. unfold fun_spec.
  destruct a as [|x [|y [|z t]]]; try (right; reflexivity).
  destruct (as_zs x) as [ps|]; [|right; reflexivity].
  destruct (as_optz y) as [opt|]; [|right; reflexivity].
  destruct (ofwalk_dom ps opt) eqn:D; [|right; reflexivity].
  left. unfold ofwalk_dom in D. dom_props.
  match goal with H : ascendingb _ _ = true |- _ => apply ascendingb_sorted in H; destruct H as [Hs Hf] end.
  rewrite (OfWalk_exact ps opt Hs).
  - apply c13_val_eqb_refl.
  - intros p Hp. rewrite Forall_forall in Hf. specialize (Hf p Hp). lia.
Qed.

Lemma ok_slice_walk : op_ok (nth 13 ops_C13_wide (Build_opdef "" (fun _ => VBad) (fun _ _ => false))).
Proof.
  apply with_bm_i_e_ok. intros bm i e Hok Hs D. apply iter_dom_props in D.
  rewrite (SliceWalk_exact bm i e) by (try assumption; lia). reflexivity.
Qed.

(** * the core operations *)
Lemma opt_all_map_Some {A B} (f : A -> option B) (g : A -> B) l :
  (forall x, In x l -> f x = Some (g x)) -> opt_all (map f l) = Some (map g l).
Proof.
  induction l as [|a l IH]; intros H; [reflexivity|]. cbn [map opt_all].
  rewrite (H a (or_introl eq_refl)), IH; [reflexivity|]. intros x Hx. apply H. now right.
Qed.

Lemma in_zrange lo hi k : In k (zrange lo hi) -> lo <= k <= hi.
Proof.
  unfold zrange. intros H. apply in_map_iff in H. destruct H as (n & <- & Hn). apply in_seq in Hn. lia.
Qed.

Lemma ok_core_next : op_ok (nth 0 ops_C13_core (Build_opdef "" (fun _ => VBad) (fun _ _ => false))).
Proof.
  intros a. cbn [nth ops_C13_core op_run op_spec]. unfold fun_spec.
  destruct a as [|x [|y [|z [|w t]]]]; try (right; reflexivity).
  destruct (as_zs x) as [bm|]; [|right; reflexivity].
  destruct (as_z y) as [i|]; [|right; reflexivity].
  destruct (as_z z) as [e|]; [|right; reflexivity].
  destruct (words_okb bm && next_dom bm i e) eqn:D; [|right; reflexivity].
  left. dom_props. match goal with H : next_dom _ _ _ = true |- _ => apply next_dom_props in H end.
  rewrite (NextOne_exact bm) by (try (now apply words_okb_ok); lia). apply c13_val_eqb_refl.
Qed.

Lemma ok_core_prev : op_ok (nth 1 ops_C13_core (Build_opdef "" (fun _ => VBad) (fun _ _ => false))).
Proof.
  intros a. cbn [nth ops_C13_core op_run op_spec]. unfold fun_spec.
  destruct a as [|x [|y [|z [|w t]]]]; try (right; reflexivity).
  destruct (as_zs x) as [bm|]; [|right; reflexivity].
  destruct (as_z y) as [i|]; [|right; reflexivity].
  destruct (as_z z) as [e|]; [|right; reflexivity].
  destruct (words_okb bm && prev_dom bm i e) eqn:D; [|right; reflexivity].
  left. dom_props. match goal with H : prev_dom _ _ _ = true |- _ => apply prev_dom_props in H end.
  rewrite (PrevOne_exact bm) by (try (now apply words_okb_ok); lia). apply c13_val_eqb_refl.
Qed.

Lemma ok_core_ends : op_ok (nth 2 ops_C13_core (Build_opdef "" (fun _ => VBad) (fun _ _ => false))).
Proof.
  intros a. cbn [nth ops_C13_core op_run op_spec]. unfold fun_spec.
  destruct a as [|x [|y [|z t]]]; try (right; reflexivity).
  destruct (as_zs x) as [bm|]; [|right; reflexivity].
  destruct (as_z y) as [i|]; [|right; reflexivity].
  destruct (words_okb bm && next_dom bm i i) eqn:D; [|right; reflexivity].
  left. dom_props. match goal with H : next_dom _ _ _ = true |- _ => apply next_dom_props in H end.
  unfold vopts. rewrite (opt_all_map_Some _ (fun e => spec_NextOne bm i e)).
  - apply c13_val_eqb_refl.
  - intros e He. apply in_zrange in He. apply NextOne_exact; try (now apply words_okb_ok); lia.
Qed.

Lemma ok_core_starts : op_ok (nth 3 ops_C13_core (Build_opdef "" (fun _ => VBad) (fun _ _ => false))).
Proof.
  intros a. cbn [nth ops_C13_core op_run op_spec]. unfold fun_spec.
  destruct a as [|x [|y [|z t]]]; try (right; reflexivity).
  destruct (as_zs x) as [bm|]; [|right; reflexivity].
  destruct (as_z y) as [e|]; [|right; reflexivity].
  destruct (words_okb bm && (1 <=? e) && (e <=? 64 * zlen bm)) eqn:D; [|right; reflexivity].
  left. dom_props.
  unfold vopts. rewrite (opt_all_map_Some _ (fun i => spec_PrevOne bm i e)).
  - apply c13_val_eqb_refl.
  - intros i Hi. apply in_zrange in Hi. apply PrevOne_exact; try (now apply words_okb_ok); lia.
Qed.

(** * all of them *)
Theorem ops_C13_model_satisfies_spec : Forall op_ok ops_C13.
Proof.
  unfold ops_C13. apply Forall_app. split.
  - unfold ops_C13_core. repeat apply Forall_cons; [| | | |apply Forall_nil].
    + exact ok_core_next.
    + exact ok_core_prev.
    + exact ok_core_ends.
    + exact ok_core_starts.
  - unfold ops_C13_wide. repeat apply Forall_cons; [| | | | | | | | | | | | | |apply Forall_nil].
    + exact ok_sparse_next.
    + exact ok_sparse_prev.
    + exact ok_held.
    + exact ok_iter_next.
    + exact ok_iter_prev.
    + exact ok_toarray.
    + exact ok_dual.
    + exact ok_get1.
    + exact ok_count.
    + exact ok_select.
    + exact ok_any_next.
    + exact ok_any_prev.
    + exact ok_of_walk.
    + exact ok_slice_walk.
Qed.

(** in the words of the driver: a C13 case is never judged MODELBUG *)
Corollary C13_never_modelbug d args obs : In d ops_C13 -> fst (judge_op d args obs) <> J_MODELBUG.
Proof.
  intros Hd. pose proof ops_C13_model_satisfies_spec as H. rewrite Forall_forall in H.
  specialize (H d Hd args). unfold judge_op.
  destruct (op_run d args) eqn:E; try (cbn; discriminate);
  destruct H as [H|H]; try discriminate;
  destruct (negb (op_spec d args obs)); try (cbn; discriminate);
  match goal with |- context [val_eqb ?m obs] => destruct (val_eqb m obs) end; try (cbn; discriminate);
  rewrite H; cbn; discriminate.
Qed.
