(** Proofs for the extra check X01, part 2: the closure tree that ParseRange builds from the parsed groups
    evaluates to "one of the groups holds entirely" whenever no group is empty, and panics (nil function call)
    exactly as [lazy_or] says otherwise; IsCompatible and Check in terms of the parsed version and groups. *)
From Coq Require Import ZArith List Bool Lia.
From Low Require Import Lib.Lex Model.Semver Model.Vers Spec.VersSpec Proofs.SemverOrder.
Import ListNotations.
Open Scope Z_scope.

Definition group_apply (v : Version) (g : list (comparator * Version)) : bool :=
  forallb (fun cw => comp_apply (fst cw) v (snd cw)) g.

Lemma group_apply_holds v g : group_apply v g = group_holds v g.
Proof.
  unfold group_apply, group_holds. induction g as [|[c w] g IH]; cbn [forallb fst snd]; [reflexivity|].
  now rewrite comp_apply_sat, IH.
Qed.

(** * the AND loop *)
Lemma and_loop_some : forall g f, (forall v, exists b, call_rfn f v = Some b) ->
  exists f', and_loop g (Some f) = Some f' /\
             forall v b, call_rfn f v = Some b -> call_rfn f' v = Some (b && group_apply v g).
Proof.
  induction g as [|[c w] g IH]; intros f Hf.
  - exists f. split; [reflexivity|]. intros v b Hb. cbn [group_apply forallb]. now rewrite andb_true_r.
  - cbn [and_loop].
    destruct (IH (RAnd f (RCmp c w))) as (f' & Hf' & Hc).
    + intros v. destruct (Hf v) as [b Hb]. cbn [call_rfn]. rewrite Hb. destruct b; eauto.
    + exists f'. split; [assumption|]. intros v b Hb.
      rewrite (Hc v (b && comp_apply c v w)).
      * cbn [group_apply forallb fst snd]. now rewrite andb_assoc.
      * cbn [call_rfn]. rewrite Hb. destruct b; reflexivity.
Qed.

Lemma and_loop_nil : and_loop [] None = None.
Proof. reflexivity. Qed.

Lemma and_loop_nonempty g : g <> [] ->
  exists f, and_loop g None = Some f /\ forall v, call_rfn f v = Some (group_apply v g).
Proof.
  destruct g as [|[c w] g]; [congruence|]. intros _. cbn [and_loop].
  destruct (and_loop_some g (RCmp c w)) as (f' & Hf' & Hc).
  - intros v. cbn [call_rfn]. eauto.
  - exists f'. split; [assumption|]. intros v. rewrite (Hc v (comp_apply c v w)); reflexivity.
Qed.

(** * the OR loop *)
(** what the chain of OR closures does: groups are tried from the left; an empty group is a nil function *)
Fixpoint lazy_or (v : Version) (gs : groups) : option bool :=
  match gs with
  | [] => Some false
  | [] :: _ => None
  | g :: rest => if group_apply v g then Some true else lazy_or v rest
  end.

Definition or_result (r : option bool) (v : Version) (gs : groups) : option bool :=
  match r with Some false => lazy_or v gs | _ => r end.

Lemma or_fn_loop_some : forall gs f,
  exists f', or_fn_loop gs (Some f) = Some f' /\
             forall v, call_rfn f' v = or_result (call_rfn f v) v gs.
Proof.
  induction gs as [|g gs IH]; intros f.
  - exists f. split; [reflexivity|]. intros v. cbn [or_result lazy_or]. destruct (call_rfn f v) as [[|]|]; reflexivity.
  - cbn [or_fn_loop].
    destruct (IH (ROr f (and_loop g None))) as (f' & Hf' & Hc).
    exists f'. split; [assumption|]. intros v. rewrite Hc. cbn [call_rfn].
    destruct (call_rfn f v) as [[|]|] eqn:Ef; cbn [or_result]; try reflexivity.
    destruct g as [|cw g'].
    + cbn [and_loop lazy_or]. reflexivity.
    + destruct (and_loop_nonempty (cw :: g') ltac:(discriminate)) as (fa & Hfa & Hca).
      rewrite Hfa, Hca. cbn [lazy_or]. destruct (group_apply v (cw :: g')); reflexivity.
Qed.

Lemma or_fn_loop_lazy g gs : g <> [] ->
  exists f, or_fn_loop (g :: gs) None = Some f /\ forall v, call_rfn f v = lazy_or v (g :: gs).
Proof.
  intros Hg. cbn [or_fn_loop].
  destruct (and_loop_nonempty g Hg) as (fa & Hfa & Hca). rewrite Hfa.
  destruct (or_fn_loop_some gs fa) as (f' & Hf' & Hc).
  exists f'. split; [assumption|]. intros v. rewrite Hc, Hca.
  destruct g as [|cw g']; [congruence|]. cbn [lazy_or or_result].
  destruct (group_apply v (cw :: g')); reflexivity.
Qed.

Lemma lazy_or_wf v gs : groups_wf gs = true -> lazy_or v gs = Some (range_holds gs v).
Proof.
  induction gs as [|g gs IH]; intros Hw; [reflexivity|].
  cbn [groups_wf forallb] in Hw. apply andb_true_iff in Hw as [Hg Hw].
  destruct g as [|cw g']; [discriminate|].
  cbn [lazy_or range_holds existsb]. rewrite group_apply_holds.
  destruct (group_holds v (cw :: g')); [reflexivity|]. cbn [orb]. now apply IH.
Qed.

(** a malformed list of groups: the call panics unless a group before the first empty one holds *)
Lemma lazy_or_malformed v gs : groups_wf gs = false ->
  lazy_or v gs = None \/ lazy_or v gs = Some true.
Proof.
  induction gs as [|g gs IH]; intros Hw; [discriminate|].
  destruct g as [|cw g']; [left; reflexivity|].
  cbn [lazy_or]. destruct (group_apply v (cw :: g')); [right; reflexivity|].
  apply IH. cbn [groups_wf forallb] in Hw. exact Hw.
Qed.

Lemma call_range_wf gs v : gs <> [] -> groups_wf gs = true ->
  call_range (or_fn_loop gs None) v = Some (range_holds gs v).
Proof.
  intros Hne Hw. destruct gs as [|g gs]; [congruence|].
  assert (Hg : g <> []).
  { cbn [groups_wf forallb] in Hw. apply andb_true_iff in Hw as [Hg _]. destruct g; [discriminate|discriminate]. }
  destruct (or_fn_loop_lazy g gs Hg) as (f & Hf & Hc).
  rewrite Hf. cbn [call_range]. rewrite Hc. now apply lazy_or_wf.
Qed.

(** * the parser returns at least one group *)
Lemma res_map_all_length {A B} (f : A -> res B) l r : res_map_all f l = Ok r -> length r = length l.
Proof.
  revert r. induction l as [|x l IH]; intros r H; cbn [res_map_all] in H.
  - inversion H. reflexivity.
  - unfold bind in H. destruct (f x); try discriminate. destruct (res_map_all f l) eqn:E; try discriminate.
    inversion H. cbn [length]. f_equal. now apply IH.
Qed.

Lemma splitORParts_nonempty parts l : splitORParts parts = Ok l -> l <> [].
Proof.
  unfold splitORParts, bind. destruct (or_loop parts parts 0 0 []) as [[acc last]| |]; try discriminate.
  destruct (last =? Z.of_nat (length parts)); [discriminate|].
  intros H. inversion H. destruct acc; discriminate.
Qed.

Lemma range_groups_nonempty s gs : range_groups s = Ok gs -> gs <> [].
Proof.
  unfold range_groups, bind.
  destruct (splitORParts (splitAndTrim s)) as [orParts| |] eqn:E1; try discriminate.
  destruct (expandWildcardVersion orParts) as [ex| |] eqn:E2; try discriminate.
  intros H. apply res_map_all_length in H.
  unfold expandWildcardVersion in E2. apply res_map_all_length in E2.
  apply splitORParts_nonempty in E1.
  destruct gs; [|discriminate]. destruct ex; [|discriminate]. destruct orParts; [congruence|discriminate].
Qed.

(** * IsCompatible and Check in terms of the parsed version and groups *)
Lemma ParseRange_groups s : ParseRange s = (gs <- range_groups s ;; Ok (or_fn_loop gs None)).
Proof. reflexivity. Qed.

Lemma IsCompatible_invalid_version ver spec : Parse ver = None -> IsCompatible ver spec = Some false.
Proof. intros H. unfold IsCompatible. now rewrite H. Qed.

Lemma IsCompatible_invalid_range ver spec : range_groups (join or_sep spec) = Err -> IsCompatible ver spec = Some false.
Proof.
  intros H. unfold IsCompatible. destruct (Parse ver); [|reflexivity].
  unfold ParseRange, bind. now rewrite H.
Qed.

Lemma IsCompatible_valid ver spec v gs :
  Parse ver = Some v -> range_groups (join or_sep spec) = Ok gs -> groups_wf gs = true ->
  IsCompatible ver spec = Some (range_holds gs v).
Proof.
  intros Hv Hg Hw. unfold IsCompatible. rewrite Hv. unfold ParseRange, bind. rewrite Hg.
  apply call_range_wf; [now apply (range_groups_nonempty _ _ Hg)|assumption].
Qed.

Lemma IsCompatible_lazy ver spec v gs :
  Parse ver = Some v -> range_groups (join or_sep spec) = Ok gs ->
  match gs with g :: _ => g <> [] | [] => False end ->
  IsCompatible ver spec = lazy_or v gs.
Proof.
  intros Hv Hg Hh. unfold IsCompatible. rewrite Hv. unfold ParseRange, bind. rewrite Hg.
  destruct gs as [|g gs]; [contradiction|].
  destruct (or_fn_loop_lazy g gs Hh) as (f & Hf & Hc). rewrite Hf. cbn [call_range]. apply Hc.
Qed.

(** model = strict specification wherever the range parser does not panic and the groups are well formed *)
Lemma IsCompatible_exact ver spec :
  range_groups (join or_sep spec) <> Panic ->
  (forall gs, range_groups (join or_sep spec) = Ok gs -> groups_wf gs = true) ->
  IsCompatible ver spec = spec_IsCompatible ver spec.
Proof.
  intros Hnp Hwf. unfold spec_IsCompatible.
  destruct (Parse ver) as [v|] eqn:Ev; [|now apply IsCompatible_invalid_version].
  destruct (range_groups (join or_sep spec)) as [gs| |] eqn:Eg; [| |congruence].
  - rewrite (IsCompatible_valid ver spec v gs Ev Eg (Hwf gs eq_refl)), (Hwf gs eq_refl). reflexivity.
  - now apply IsCompatible_invalid_range.
Qed.

Lemma Check_valid dbg ver spec v gs :
  Parse ver = Some v -> range_groups (join or_sep spec) = Ok gs -> groups_wf gs = true ->
  Check dbg ver spec = Some (range_holds gs v).
Proof.
  intros Hv Hg Hw. unfold Check. rewrite Hv. rewrite andb_false_r. unfold ParseRange, bind. rewrite Hg.
  apply call_range_wf; [now apply (range_groups_nonempty _ _ Hg)|assumption].
Qed.

Lemma Check_debug_invalid ver spec :
  Parse ver = None \/ range_groups (join or_sep spec) = Err -> Check true ver spec = None.
Proof.
  intros [H|H]; unfold Check.
  - now rewrite H.
  - destruct (Parse ver); cbn [andb]; [|reflexivity]. unfold ParseRange, bind. now rewrite H.
Qed.

Lemma Check_release_invalid_range ver spec :
  range_groups (join or_sep spec) = Err -> Check false ver spec = None.
Proof. intros H. unfold Check. cbn [andb]. unfold ParseRange, bind. now rewrite H. Qed.

(** a release build goes on with the zero version 0.0.0 after a parse error (must is disabled) *)
Lemma Check_release_invalid_version ver spec gs :
  Parse ver = None -> range_groups (join or_sep spec) = Ok gs -> groups_wf gs = true ->
  Check false ver spec = Some (range_holds gs zero_version).
Proof.
  intros Hv Hg Hw. unfold Check. rewrite Hv. cbn [andb]. unfold ParseRange, bind. rewrite Hg.
  apply call_range_wf; [now apply (range_groups_nonempty _ _ Hg)|assumption].
Qed.

Lemma Check_debug_exact ver spec :
  range_groups (join or_sep spec) <> Panic ->
  (forall gs, range_groups (join or_sep spec) = Ok gs -> groups_wf gs = true) ->
  Check true ver spec = spec_Check ver spec.
Proof.
  intros Hnp Hwf. unfold spec_Check.
  destruct (Parse ver) as [v|] eqn:Ev; [|apply Check_debug_invalid; now left].
  destruct (range_groups (join or_sep spec)) as [gs| |] eqn:Eg; [| |congruence].
  - rewrite (Check_valid true ver spec v gs Ev Eg (Hwf gs eq_refl)), (Hwf gs eq_refl). reflexivity.
  - apply Check_debug_invalid. now right.
Qed.
