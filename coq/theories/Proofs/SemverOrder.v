(** Proofs for the extra check X01, part 1: [Compare] of the semver library IS the precedence order [prec] of the
    standard (Spec/VersSpec.v), [prec] is a total preorder (total, antisymmetric up to build metadata,
    transitive), and the six comparators mean what they say. *)
From Coq Require Import ZArith List Bool Lia.
From Low Require Import Lib.Lex Lib.LexLemmas_bw Model.Semver Model.Vers Spec.VersSpec.
Import ListNotations.
Open Scope Z_scope.

(** * total preorders given by a three-way comparison *)
Record ord_ok {A} (cmp : A -> A -> comparison) : Prop := {
  o_antisym : forall x y, cmp y x = CompOpp (cmp x y);
  o_ltrans : forall x y z, cmp x y = Lt -> cmp y z = Lt -> cmp x z = Lt;
  o_econg : forall x y, cmp x y = Eq -> forall z, cmp x z = cmp y z
}.

Lemma ord_refl {A} (cmp : A -> A -> comparison) (H : ord_ok cmp) x : cmp x x = Eq.
Proof. pose proof (o_antisym cmp H x x) as E. destruct (cmp x x); cbn in E; congruence. Qed.

Lemma ord_econg_r {A} (cmp : A -> A -> comparison) (H : ord_ok cmp) x y : cmp x y = Eq -> forall z, cmp z x = cmp z y.
Proof. intros E z. rewrite (o_antisym cmp H x z), (o_antisym cmp H y z). f_equal. now apply o_econg. Qed.

Lemma ord_gtrans {A} (cmp : A -> A -> comparison) (H : ord_ok cmp) x y z : cmp x y = Gt -> cmp y z = Gt -> cmp x z = Gt.
Proof.
  intros E1 E2. rewrite (o_antisym cmp H z x).
  assert (cmp z y = Lt) by (rewrite (o_antisym cmp H y z), E2; reflexivity).
  assert (cmp y x = Lt) by (rewrite (o_antisym cmp H x y), E1; reflexivity).
  now rewrite (o_ltrans cmp H z y x).
Qed.

Lemma ord_ok_Z : ord_ok Z.compare.
Proof.
  constructor.
  - intros x y. apply Z.compare_antisym.
  - intros x y z H1 H2. rewrite Z.compare_lt_iff in *. lia.
  - intros x y E z. apply Z.compare_eq in E. now subst.
Qed.

Lemma ord_ok_on {A B} (f : A -> B) cmp : ord_ok cmp -> ord_ok (fun x y => cmp (f x) (f y)).
Proof.
  intros H. constructor.
  - intros x y. apply (o_antisym cmp H).
  - intros x y z. apply (o_ltrans cmp H).
  - intros x y E z. now apply (o_econg cmp H).
Qed.

Lemma ord_ok_thenc {A} (c1 c2 : A -> A -> comparison) :
  ord_ok c1 -> ord_ok c2 -> ord_ok (fun x y => thenc (c1 x y) (c2 x y)).
Proof.
  intros H1 H2. constructor.
  - intros x y. rewrite (o_antisym c1 H1 x y), (o_antisym c2 H2 x y). destruct (c1 x y); reflexivity.
  - intros x y z. unfold thenc.
    intros Ha Hb. destruct (c1 x y) eqn:E1; try discriminate Ha; destruct (c1 y z) eqn:E2; try discriminate Hb.
    + rewrite (o_econg c1 H1 x y E1 z), E2. now apply (o_ltrans c2 H2 x y z).
    + now rewrite (o_econg c1 H1 x y E1 z), E2.
    + now rewrite <- (ord_econg_r c1 H1 y z E2 x), E1.
    + now rewrite (o_ltrans c1 H1 x y z E1 E2).
  - intros x y E z. unfold thenc in *. destruct (c1 x y) eqn:E1; try discriminate E.
    rewrite (o_econg c1 H1 x y E1 z). destruct (c1 y z); try reflexivity. now apply (o_econg c2 H2).
Qed.

Lemma ord_ok_lex {A} (cmp : A -> A -> comparison) : ord_ok cmp -> ord_ok (lex_cmp cmp).
Proof.
  intros H. constructor.
  - apply lex_cmp_antisym. apply (o_antisym cmp H).
  - induction x as [|a x IH]; intros [|b y] [|c z]; cbn [lex_cmp]; intros Ha Hb;
      try discriminate Ha; try discriminate Hb; try reflexivity.
    destruct (cmp a b) eqn:E1; try discriminate Ha; destruct (cmp b c) eqn:E2; try discriminate Hb.
    + rewrite (o_econg cmp H a b E1 c), E2. now apply (IH y z).
    + now rewrite (o_econg cmp H a b E1 c), E2.
    + now rewrite <- (ord_econg_r cmp H b c E2 a), E1.
    + now rewrite (o_ltrans cmp H a b c E1 E2).
  - induction x as [|a x IH]; intros [|b y]; cbn [lex_cmp]; intros E; try discriminate E; intros [|c z]; try reflexivity.
    cbn [lex_cmp]. destruct (cmp a b) eqn:E1; try discriminate E.
    rewrite (o_econg cmp H a b E1 c). destruct (cmp b c); try reflexivity. now apply IH.
Qed.

(** * identifiers, pre-release lists, versions *)
Lemma ord_ok_bytes : ord_ok bytes_cmp.
Proof. apply ord_ok_lex, ord_ok_Z. Qed.

Lemma ord_ok_ident : ord_ok ident_cmp.
Proof.
  constructor.
  - intros x y. unfold ident_cmp. destruct (pr_isnum x), (pr_isnum y); try reflexivity.
    + apply Z.compare_antisym.
    + apply (o_antisym _ ord_ok_bytes).
  - intros x y z. unfold ident_cmp. destruct (pr_isnum x), (pr_isnum y), (pr_isnum z); try discriminate; try reflexivity.
    + apply (o_ltrans _ ord_ok_Z).
    + apply (o_ltrans _ ord_ok_bytes).
  - intros x y. unfold ident_cmp. destruct (pr_isnum x), (pr_isnum y); try discriminate; intros E z; destruct (pr_isnum z); try reflexivity.
    + now apply (o_econg _ ord_ok_Z).
    + now apply (o_econg _ ord_ok_bytes).
Qed.

Lemma pre_cmp_alt a b :
  pre_cmp a b = match a, b with
                | [], [] => Eq | [], _ :: _ => Gt | _ :: _, [] => Lt
                | _ :: _, _ :: _ => lex_cmp ident_cmp a b end.
Proof. destruct a, b; reflexivity. Qed.

Lemma ord_ok_pre : ord_ok pre_cmp.
Proof.
  pose proof (ord_ok_lex _ ord_ok_ident) as HL.
  constructor.
  - intros [|a x] [|b y]; try reflexivity. rewrite !pre_cmp_alt. apply (o_antisym _ HL).
  - intros [|a x] [|b y] [|c z]; rewrite ?pre_cmp_alt; try discriminate; try reflexivity.
    apply (o_ltrans _ HL).
  - intros [|a x] [|b y]; rewrite ?pre_cmp_alt; try discriminate; intros E [|c z]; rewrite ?pre_cmp_alt; try reflexivity.
    now apply (o_econg _ HL).
Qed.

Lemma ord_ok_prec : ord_ok prec.
Proof.
  unfold prec.
  apply (ord_ok_thenc (fun v w => Z.compare (v_major v) (v_major w))); [apply (ord_ok_on v_major), ord_ok_Z|].
  apply (ord_ok_thenc (fun v w => Z.compare (v_minor v) (v_minor w))); [apply (ord_ok_on v_minor), ord_ok_Z|].
  apply (ord_ok_thenc (fun v w => Z.compare (v_patch v) (v_patch w))); [apply (ord_ok_on v_patch), ord_ok_Z|].
  apply (ord_ok_on v_pre), ord_ok_pre.
Qed.

(** * the library's comparisons are the specification's *)
Lemma str_eqb_cmp a : forall b, str_eqb a b = match bytes_cmp a b with Eq => true | _ => false end.
Proof.
  induction a as [|x a IH]; intros [|y b]; cbn [str_eqb bytes_cmp lex_cmp]; try reflexivity.
  fold (bytes_cmp a b). rewrite IH. rewrite Z.eqb_compare. destruct (x ?= y); reflexivity.
Qed.

Lemma PRCompare_spec v o : PRCompare v o = cmp_sign (ident_cmp v o).
Proof.
  unfold PRCompare, ident_cmp. destruct (pr_isnum v), (pr_isnum o); cbn [andb negb]; try reflexivity.
  - rewrite Z.eqb_compare, Z.gtb_ltb, Z.ltb_compare, (Z.compare_antisym (pr_num v) (pr_num o)).
    destruct (pr_num v ?= pr_num o); reflexivity.
  - rewrite str_eqb_cmp. unfold str_gtb. destruct (bytes_cmp (pr_str v) (pr_str o)); reflexivity.
Qed.

Lemma pre_loop_spec a : forall b, pre_loop a b = cmp_sign (lex_cmp ident_cmp a b).
Proof.
  induction a as [|x a IH]; intros [|y b]; cbn [pre_loop lex_cmp]; try reflexivity.
  rewrite PRCompare_spec. destruct (ident_cmp x y); cbn [cmp_sign Z.eqb]; [apply IH|reflexivity|reflexivity].
Qed.

Lemma Compare_spec v o : Compare v o = cmp_sign (prec v o).
Proof.
  unfold Compare, prec.
  rewrite !Z.eqb_compare, !Z.gtb_ltb, !Z.ltb_compare.
  rewrite (Z.compare_antisym (v_major v) (v_major o)), (Z.compare_antisym (v_minor v) (v_minor o)),
          (Z.compare_antisym (v_patch v) (v_patch o)).
  destruct (v_major v ?= v_major o); cbn [negb CompOpp thenc cmp_sign]; try reflexivity.
  destruct (v_minor v ?= v_minor o); cbn [negb CompOpp thenc cmp_sign]; try reflexivity.
  destruct (v_patch v ?= v_patch o); cbn [negb CompOpp thenc cmp_sign]; try reflexivity.
  destruct (v_pre v) as [|a x], (v_pre o) as [|b y]; try reflexivity.
  rewrite pre_loop_spec. reflexivity.
Qed.

(** Compare returns -1, 0 or 1 *)
Lemma Compare_range v o : Compare v o = -1 \/ Compare v o = 0 \/ Compare v o = 1.
Proof. rewrite Compare_spec. destruct (prec v o); cbn; auto. Qed.

Lemma comp_apply_sat c v w : comp_apply c v w = sat c v w.
Proof.
  unfold comp_apply, sat. rewrite Compare_spec. destruct c, (prec v w); reflexivity.
Qed.

(** * what [prec] = Eq means: equal up to build metadata (for identifiers in the canonical form the parser produces) *)
Definition canon_ident (p : PRVersion) : Prop := if pr_isnum p then pr_str p = [] else pr_num p = 0.

Lemma ident_cmp_eq a b : canon_ident a -> canon_ident b -> (ident_cmp a b = Eq <-> a = b).
Proof.
  destruct a as [sa na ia], b as [sb nb ib]. unfold canon_ident, ident_cmp. cbn [pr_isnum pr_str pr_num].
  destruct ia, ib; intros Ha Hb; subst; split; intros H; try discriminate; try (inversion H; fail).
  - apply Z.compare_eq in H. now subst.
  - inversion H. apply Z.compare_refl.
  - apply (lex_cmp_eq Z.compare) in H; [now subst|]. intros x y. split; [apply Z.compare_eq|intros ->; apply Z.compare_refl].
  - inversion H. apply (lex_cmp_refl Z.compare). apply Z.compare_refl.
Qed.

Lemma lex_ident_eq a : forall b, Forall canon_ident a -> Forall canon_ident b ->
  (lex_cmp ident_cmp a b = Eq <-> a = b).
Proof.
  induction a as [|x a IH]; intros [|y b] Ha Hb; cbn [lex_cmp]; try (split; congruence).
  inversion Ha; inversion Hb; subst.
  destruct (ident_cmp x y) eqn:E.
  - apply ident_cmp_eq in E; try assumption. subst. rewrite IH by assumption. split; congruence.
  - split; [discriminate|]. intros Heq. inversion Heq; subst. rewrite (ord_refl _ ord_ok_ident) in E. discriminate.
  - split; [discriminate|]. intros Heq. inversion Heq; subst. rewrite (ord_refl _ ord_ok_ident) in E. discriminate.
Qed.

Lemma prec_eq_iff v w : Forall canon_ident (v_pre v) -> Forall canon_ident (v_pre w) ->
  (prec v w = Eq <-> v_major v = v_major w /\ v_minor v = v_minor w /\ v_patch v = v_patch w /\ v_pre v = v_pre w).
Proof.
  intros Hv Hw. unfold prec, thenc.
  destruct (v_major v ?= v_major w) eqn:E1; [apply Z.compare_eq in E1| |];
    try (split; [discriminate|intros (H & _); rewrite H, Z.compare_refl in E1; discriminate]).
  destruct (v_minor v ?= v_minor w) eqn:E2; [apply Z.compare_eq in E2| |];
    try (split; [discriminate|intros (_ & H & _); rewrite H, Z.compare_refl in E2; discriminate]).
  destruct (v_patch v ?= v_patch w) eqn:E3; [apply Z.compare_eq in E3| |];
    try (split; [discriminate|intros (_ & _ & H & _); rewrite H, Z.compare_refl in E3; discriminate]).
  rewrite pre_cmp_alt.
  destruct (v_pre v) as [|a x] eqn:Ea, (v_pre w) as [|b y] eqn:Eb; try (split; [discriminate|intros (_ & _ & _ & H); discriminate]).
  - tauto.
  - rewrite (lex_ident_eq (a :: x) (b :: y) Hv Hw). tauto.
Qed.
