(** C13 widened, part (b) continued: NextOne / PrevOne against the other readers
    of the package - Get1 (get.go) and Rank64 (rank.go).
    - the bit at a position returned by NextOne / PrevOne reads 1 with Get1, every
      position skipped reads 0;
    - the number of rounds of a NextOne (or PrevOne) walk over [i, end) is
      Rank64(end) - Rank64(i). *)
From Coq Require Import ZArith List Lia Bool Sorted.
From Low Require Import Lib.MachInt Lib.Bits Lib.BitSeq Lib.BitsExtra_bm2
  Model.BitmapNext Model.BitmapNextIter Model.BitmapOf Model.Rank
  Spec.NextSpec Spec.OfSpec Spec.RankSpec
  Proofs.NextProofs Proofs.NextLaws Proofs.OfInspect Proofs.RankProofs.
Import ListNotations.
Open Scope Z_scope.

(** * the 1-bits of a range are the 1-bits of that stretch of the flattened bitmap *)
Lemma filter_ones_from_none f b l :
  (forall p, b <= p < b + Z.of_nat (length l) -> f p = false) -> filter f (ones_from b l) = [].
Proof.
  intros H. apply filter_none. intros q Hq. apply ones_from_lb in Hq. now apply H.
Qed.

Lemma filter_ones_from_all f b l :
  (forall p, b <= p < b + Z.of_nat (length l) -> f p = true) -> filter f (ones_from b l) = ones_from b l.
Proof.
  intros H. apply filter_all. intros q Hq. apply ones_from_lb in Hq. now apply H.
Qed.

Lemma ones_in_stretch_nat bs (i e : nat) : (i <= e <= length bs)%nat ->
  filter (in_rangeb (Z.of_nat i) (Z.of_nat e)) (ones bs) =
  ones_from (Z.of_nat i) (firstn (e - i) (skipn i bs)).
Proof.
  intros H. unfold ones.
  rewrite <- (firstn_skipn i bs) at 1.
  rewrite <- (firstn_skipn (e - i) (skipn i bs)) at 1.
  rewrite !ones_from_app, !filter_app.
  assert (L1 : length (firstn i bs) = i) by (rewrite firstn_length; lia).
  assert (L2 : length (firstn (e - i) (skipn i bs)) = (e - i)%nat)
    by (rewrite firstn_length, skipn_length; lia).
  rewrite L1, L2.
  rewrite filter_ones_from_none, filter_ones_from_all, filter_ones_from_none.
  - cbn [app]. rewrite app_nil_r. f_equal.
  - intros p Hp. unfold in_rangeb. destruct (Z.leb_spec (Z.of_nat i) p), (Z.ltb_spec p (Z.of_nat e)); try reflexivity; lia.
  - intros p Hp. rewrite L2 in Hp. unfold in_rangeb.
    destruct (Z.leb_spec (Z.of_nat i) p), (Z.ltb_spec p (Z.of_nat e)); try reflexivity; lia.
  - intros p Hp. rewrite L1 in Hp. unfold in_rangeb.
    destruct (Z.leb_spec (Z.of_nat i) p), (Z.ltb_spec p (Z.of_nat e)); try reflexivity; lia.
Qed.

Lemma firstn_add {A} (a b : nat) (l : list A) : firstn (a + b) l = firstn a l ++ firstn b (skipn a l).
Proof.
  revert l. induction a as [|a IH]; intros l; [reflexivity|].
  destruct l as [|x l]; [now rewrite !firstn_nil|]. cbn [Nat.add firstn skipn app]. now rewrite IH.
Qed.

Lemma count_true_stretch bs (i e : nat) : (i <= e)%nat ->
  count_true (firstn (e - i) (skipn i bs)) = rank1 bs e - rank1 bs i.
Proof.
  intros H. unfold rank1. replace e with (i + (e - i))%nat at 2 by lia.
  rewrite firstn_add, count_true_app. lia.
Qed.

Theorem ones_in_count bm i e : 0 <= i <= e -> e <= 64 * zlen bm ->
  zlen (ones_in bm i e) = rank1z (flat bm) e - rank1z (flat bm) i.
Proof.
  intros Hi He. unfold ones_in, rank1z, zlen in *.
  rewrite <- (Z2Nat.id i), <- (Z2Nat.id e) by lia.
  rewrite ones_in_stretch_nat by (rewrite flat_length; lia).
  rewrite ones_from_length, count_true_stretch by lia. now rewrite !Nat2Z.id.
Qed.

Section Count.
Variable bm : list Z.
Hypothesis Hok : words_ok bm.
Local Notation N := (64 * zlen bm).

(** * against Get1 *)
Theorem NextOne_Get1 i e r : 0 <= i <= e -> e <= N -> i < N ->
  NextOne bm i e = Some r -> r <> -1 ->
  i <= r < e /\ Get1 bm r = Some 1 /\ forall p, i <= p < r -> Get1 bm p = Some 0.
Proof.
  intros Hi He HiN. rewrite (NextOne_exact bm Hok) by lia. intros [= <-] Hr.
  destruct (spec_NextOne_cases bm i e) as [(_ & Hn & _)|(Hnr & Hn0 & Hnb & Hnlow)]; [contradiction|].
  set (r := spec_NextOne bm i e) in *. split; [exact Hnr|]. split.
  - rewrite Get1_exact by lia. unfold spec_Get1. now rewrite Hnb.
  - intros p Hp. rewrite Get1_exact by lia. unfold spec_Get1. now rewrite Hnlow by lia.
Qed.

Theorem PrevOne_Get1 i e r : 0 <= i <= e -> e <= N -> i < N -> 1 <= e ->
  PrevOne bm i e = Some r -> r <> -1 ->
  i <= r < e /\ Get1 bm r = Some 1 /\ forall p, r < p < e -> Get1 bm p = Some 0.
Proof.
  intros Hi He HiN He1. rewrite (PrevOne_exact bm Hok) by lia. intros [= <-] Hr.
  destruct (spec_PrevOne_cases bm i e) as [(_ & Hn & _)|(Hnr & Hn0 & Hnb & Hhigh)]; [contradiction|].
  set (r := spec_PrevOne bm i e) in *. split; [exact Hnr|]. split.
  - rewrite Get1_exact by lia. unfold spec_Get1. now rewrite Hnb.
  - intros p Hp. rewrite Get1_exact by lia. unfold spec_Get1. now rewrite Hhigh by lia.
Qed.

(** the result -1 means every position of the range reads 0 *)
Theorem NextOne_none_Get1 i e : 0 <= i <= e -> e <= N -> i < N ->
  NextOne bm i e = Some (-1) -> forall p, i <= p < e -> Get1 bm p = Some 0.
Proof.
  intros Hi He HiN. rewrite (NextOne_exact bm Hok) by lia. intros [= Hm] p Hp.
  destruct (spec_NextOne_cases bm i e) as [(_ & _ & Hnone)|(Hnr & Hn0 & _)]; [|cbv zeta in *; lia].
  rewrite Get1_exact by lia. unfold spec_Get1. now rewrite Hnone by lia.
Qed.

(** * against Rank64: the number of rounds of a walk *)
Theorem IterNext_count i e l : 0 <= i <= e -> e <= N ->
  IterNext bm i e = Some l -> zlen l = rank1z (flat bm) e - rank1z (flat bm) i.
Proof.
  intros Hi He. rewrite (IterNext_exact bm Hok) by lia. intros [= <-]. now apply ones_in_count.
Qed.

Theorem IterNext_count_Rank64 tr i e l ri bi re be : 0 <= i <= e -> e < N ->
  IterNext bm i e = Some l ->
  Rank64 bm (IndexRank64 bm tr) i = Some (ri, bi) -> Rank64 bm (IndexRank64 bm tr) e = Some (re, be) ->
  zlen l = re - ri.
Proof.
  intros Hi He Hl. rewrite !(Rank64_exact bm tr) by (try assumption; lia).
  unfold spec_Rank. intros [= <- _] [= <- _]. apply (IterNext_count i e l); try lia. exact Hl.
Qed.

Theorem IterPrev_count_Rank64 tr i e l ri bi re be : 0 <= i <= e -> e < N ->
  IterPrev bm i e = Some l ->
  Rank64 bm (IndexRank64 bm tr) i = Some (ri, bi) -> Rank64 bm (IndexRank64 bm tr) e = Some (re, be) ->
  zlen l = re - ri.
Proof.
  intros Hi He. rewrite (IterPrev_exact bm Hok) by lia. intros [= <-].
  rewrite !(Rank64_exact bm tr) by (try assumption; lia).
  unfold spec_Rank. intros [= <- _] [= <- _]. unfold zlen. rewrite rev_length.
  apply (ones_in_count bm i e); lia.
Qed.

End Count.

(** * the two bundles run by the harness (Model/BitmapNextReaders.v) *)
From Low Require Import Model.BitmapNextReaders.

Theorem NextGet1_exact bm : words_ok bm -> forall i e, 0 <= i < e -> e <= 64 * zlen bm ->
  let sn := spec_NextOne bm i e in
  let sp := spec_PrevOne bm i e in
  NextGet1 bm i e = Some [sn; if sn =? -1 then -1 else 1; sp; if sp =? -1 then -1 else 1].
Proof.
  intros Hok i e Hi He sn sp. unfold NextGet1.
  rewrite (NextOne_exact bm Hok i e), (PrevOne_exact bm Hok i e) by lia. fold sn sp.
  assert (Hn : (if sn <? 0 then Some (-1) else Get1 bm sn) = Some (if sn =? -1 then -1 else 1)).
  { destruct (spec_NextOne_cases bm i e) as [(_ & Hm & _)|(Hr & H0 & Hb & _)]; fold sn in Hm || fold sn in Hr, H0, Hb.
    - rewrite Hm. reflexivity.
    - destruct (Z.ltb_spec sn 0); [lia|]. destruct (Z.eqb_spec sn (-1)); [lia|].
      rewrite Get1_exact by lia. unfold spec_Get1. now rewrite Hb. }
  assert (Hp : (if sp <? 0 then Some (-1) else Get1 bm sp) = Some (if sp =? -1 then -1 else 1)).
  { destruct (spec_PrevOne_cases bm i e) as [(_ & Hm & _)|(Hr & H0 & Hb & _)]; fold sp in Hm || fold sp in Hr, H0, Hb.
    - rewrite Hm. reflexivity.
    - destruct (Z.ltb_spec sp 0); [lia|]. destruct (Z.eqb_spec sp (-1)); [lia|].
      rewrite Get1_exact by lia. unfold spec_Get1. now rewrite Hb. }
  rewrite Hn, Hp. reflexivity.
Qed.

Theorem WalkCount_exact bm : words_ok bm -> forall tr i e, 0 <= i <= e -> e < 64 * zlen bm ->
  let c := zlen (ones_in bm i e) in
  WalkCount bm tr i e = Some [c; c; c].
Proof.
  intros Hok tr i e Hi He c. unfold WalkCount.
  rewrite (IterNext_exact bm Hok), (IterPrev_exact bm Hok) by lia.
  rewrite !(Rank64_exact bm tr) by (try assumption; lia). unfold spec_Rank.
  unfold zlen at 2. rewrite rev_length. fold (zlen (ones_in bm i e)). fold c.
  rewrite <- (ones_in_count bm i e) by lia. reflexivity.
Qed.
