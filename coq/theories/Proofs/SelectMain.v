(** Proofs for C02, part 2: the main loops of Select32 and Select32R64
    (checkpoint lookup, masked first word, word skipping by popcount, the
    rank-index advance, in-word select, next-1 scan) and the corollaries
    "rank (select i) = i" and "the selected bit is 1". *)
From Coq Require Import ZArith List Lia Bool ZifyNat.
From Low Require Import Lib.MachInt Lib.Bits Lib.BitSeq Lib.BitsExtra_c02 Model.Rank Model.Select
  Spec.RankSpec Spec.SelectSpec Proofs.RankProofs Proofs.SelectProofs.
Import ListNotations.
Open Scope Z_scope.
Ltac Zify.zify_post_hook ::= Z.div_mod_to_equations.

(** * small list facts *)
Lemma nth_error_skipn_add {A} m : forall n (l : list A),
  nth_error (skipn m l) n = nth_error l (m + n).
Proof.
  induction m as [|m IH]; intros n l; [reflexivity|].
  destruct l as [|x l]; [now destruct n|]. rewrite skipn_cons. cbn [Nat.add nth_error]. apply IH.
Qed.

Lemma nth_error_app_Some {A} (l r : list A) n x :
  nth_error l n = Some x -> nth_error (l ++ r) n = Some x.
Proof. intros H. rewrite nth_error_app1; [exact H|]. apply nth_error_Some. congruence. Qed.

Lemma nth_error_nth_Some {A} (l : list A) n d :
  (n < length l)%nat -> nth_error l n = Some (nth n l d).
Proof.
  intros H. destruct (nth_error_exists l n H) as [x Hx]. rewrite Hx. f_equal.
  symmetry. now apply nth_error_nth.
Qed.

Lemma skipn_nil_length {A} n (l : list A) : skipn n l = [] -> (length l <= n)%nat.
Proof. intros H. pose proof (skipn_length n l) as E. rewrite H in E. cbn [length] in E. lia. Qed.

Lemma ones_eq bs : ones bs = ones_from 0 bs.
Proof. reflexivity. Qed.

Lemma clear_below_eq q w : Z.land w (not64 (Mask q)) = clear_below q w.
Proof. reflexivity. Qed.

Lemma shiftl_6 x : Z.shiftl x 6 = 64 * x.
Proof. rewrite Z.shiftl_mul_pow2 by lia. change (2 ^ 6) with 64. lia. Qed.

(** * the 1s still ahead: those of the current (possibly masked) word [w] standing
      at word index [k], followed by those of the words after [k] *)
Definition rest_ones (ws : list Z) (k : nat) (w : Z) : list Z :=
  ones_from (64 * Z.of_nat k) (bits 64 w ++ flat (skipn (S k) ws)).

Lemma rest_ones_split ws k w :
  rest_ones ws k w =
  ones_from (64 * Z.of_nat k) (bits 64 w) ++ ones_from (64 * Z.of_nat (S k)) (flat (skipn (S k) ws)).
Proof. unfold rest_ones. rewrite ones_from_app, bits_length. f_equal. f_equal. lia. Qed.

Lemma ones_from_bits64_length b w : 0 <= w < 2 ^ 64 ->
  Z.of_nat (length (ones_from b (bits 64 w))) = popcount w.
Proof. intros H. rewrite ones_from_length. symmetry. now apply popcount_bits64. Qed.

Lemma rest_ones_next ws k w : nth_error ws k = Some w ->
  ones_from (64 * Z.of_nat k) (flat (skipn k ws)) = rest_ones ws k w.
Proof. intros H. unfold rest_ones. rewrite (skipn_nth_cons _ _ _ H), flat_cons. reflexivity. Qed.

Lemma rest_ones_past ws k : (length ws <= k)%nat ->
  ones_from (64 * Z.of_nat k) (flat (skipn k ws)) = [].
Proof. intros H. rewrite skipn_all2 by exact H. reflexivity. Qed.

(** the 1s from bit position [p = 64k + q] on *)
Lemma rest_ones_at ws (p k q : nat) w :
  nth_error ws k = Some w -> (q < 64)%nat -> p = (64 * k + q)%nat ->
  ones_from (Z.of_nat p) (skipn p (flat ws)) = rest_ones ws k (clear_below (Z.of_nat q) w).
Proof.
  intros Hw Hq ->. rewrite (flat_split k ws w Hw).
  assert (Hk : length (flat (firstn k ws)) = (64 * k)%nat).
  { rewrite flat_length, firstn_length_le; [reflexivity|].
    apply Nat.lt_le_incl. apply nth_error_Some. congruence. }
  rewrite skipn_app_r by lia. rewrite Hk.
  replace (64 * k + q - 64 * k)%nat with q by lia.
  rewrite skipn_app_l by (rewrite bits_length; lia).
  unfold rest_ones. rewrite bits_clear_below by lia. rewrite <- app_assoc.
  rewrite ones_from_repeat_false. f_equal. lia.
Qed.

(** * the search state shared by both functions: the [i]-th 1 overall is the
      [f]-th 1 of [w] (at word [k]) followed by the remaining words *)
Definition sel_state (ws : list Z) (i k : nat) (w : Z) (f : nat) : Prop :=
  (k < length ws)%nat /\ 0 <= w < 2 ^ 64 /\
  forall j, nth_error (all_ones ws) (i + j) = nth_error (rest_ones ws k w) (f + j).

(** * the word-skipping loop of Select32 *)
Lemma Select32_skip_eq fuel ws wordI w f :
  Select32_skip fuel ws wordI w f =
  if popcount w <=? f then
    match fuel with
    | O => None
    | S fu => match nthZ ws (wordI + 1) with
              | None => None
              | Some w' => Select32_skip fu ws (wordI + 1) w' (f - popcount w)
              end
    end
  else Some (wordI, w, f).
Proof. destruct fuel; reflexivity. Qed.

Lemma Select32_skip_spec ws (i : nat) : words_ok ws -> (i < length (all_ones ws))%nat ->
  forall fuel k w (f : nat),
  (length ws <= k + 1 + fuel)%nat -> sel_state ws i k w f ->
  exists k' w' (f' : nat),
    Select32_skip fuel ws (Z.of_nat k) w (Z.of_nat f) = Some (Z.of_nat k', w', Z.of_nat f') /\
    sel_state ws i k' w' f' /\ Z.of_nat f' < popcount w'.
Proof.
  intros Hok Hi. induction fuel as [|fuel IH]; intros k w f Hfuel (Hk & Hw & Hst).
  all: rewrite Select32_skip_eq.
  all: destruct (Z.leb_spec (popcount w) (Z.of_nat f)) as [Hle|Hgt];
    [|exists k, w, f; repeat split; (assumption || lia)].
  all: pose proof (ones_from_bits64_length (64 * Z.of_nat k) w Hw) as Hlen.
  all: assert (Hnext : forall j, nth_error (all_ones ws) (i + j) =
         nth_error (ones_from (64 * Z.of_nat (S k)) (flat (skipn (S k) ws)))
                   (f - Z.to_nat (popcount w) + j)).
  1,3: intros j; rewrite Hst, rest_ones_split; rewrite nth_error_app2 by lia; f_equal; lia.
  all: assert (HSk : (S k < length ws)%nat).
  1,3: destruct (Nat.lt_ge_cases (S k) (length ws)) as [|Hge]; [assumption|]; exfalso;
       specialize (Hnext 0%nat); rewrite rest_ones_past in Hnext by exact Hge;
       rewrite Nat.add_0_r in Hnext;
       assert (nth_error (all_ones ws) i <> None) by (apply nth_error_Some; exact Hi);
       destruct (f - Z.to_nat (popcount w) + 0)%nat; cbn in Hnext; congruence.
  - lia.
  - destruct (nth_error_exists ws (S k) HSk) as [w' Hw'].
    replace (Z.of_nat k + 1) with (Z.of_nat (S k)) by lia. rewrite nthZ_of_nat, Hw'.
    pose proof (popcount_nonneg w).
    replace (Z.of_nat f - popcount w) with (Z.of_nat (f - Z.to_nat (popcount w))) by lia.
    apply IH; [lia|]. repeat split.
    + exact HSk.
    + eapply words_ok_nth; eauto.
    + eapply words_ok_nth; eauto.
    + intros j. rewrite Hnext. now rewrite (rest_ones_next ws (S k) w' Hw').
Qed.

(** * the in-word step *)
Lemma sel_in_word ws i k w f : sel_state ws i k w f -> Z.of_nat f < popcount w ->
  exists off, select_in_word w (Z.of_nat f) = Some off /\ 0 <= off < 64 /\
    nth_error (ones (bits 64 w)) f = Some off /\
    nth_error (all_ones ws) i = Some (64 * Z.of_nat k + off).
Proof.
  intros (Hk & Hw & Hst) Hf.
  pose proof (ones_from_bits64_length 0 w Hw) as Hlen.
  destruct (nth_error_exists (ones_from 0 (bits 64 w)) f ltac:(lia)) as [off Hoff].
  assert (Hoff' : nth_error (ones (bits 64 w)) f = Some off) by (rewrite ones_eq; exact Hoff).
  exists off. repeat split.
  - apply select_in_word_spec; [lia|exact Hoff'].
  - apply nth_error_In in Hoff. apply ones_from_lb in Hoff. lia.
  - apply nth_error_In in Hoff. apply ones_from_lb in Hoff. rewrite bits_length in Hoff. lia.
  - exact Hoff'.
  - specialize (Hst 0%nat). rewrite !Nat.add_0_r in Hst. rewrite Hst, rest_ones_split.
    apply nth_error_app_Some. rewrite ones_from_shift, nth_error_map.
    rewrite Hoff. reflexivity.
Qed.

(** * the next-1 scan over the following words *)
Lemma next_one_scan_eq fuel ws wordI l :
  next_one_scan fuel ws wordI l =
  if wordI <? l then
    match fuel with
    | O => None
    | S f => match nthZ ws wordI with
             | None => None
             | Some w => if negb (w =? 0) then Some (Z.shiftl wordI 6 + tz64 w)
                         else next_one_scan f ws (wordI + 1) l
             end
    end
  else Some (Z.shiftl l 6).
Proof. destruct fuel; reflexivity. Qed.

(** the scan returns the first 1 of the suffix, or [64 * len] when there is none *)
Lemma next_one_scan_spec ws : words_ok ws -> forall fuel k,
  (k <= length ws)%nat -> (length ws <= k + fuel)%nat ->
  next_one_scan fuel ws (Z.of_nat k) (zlen ws) =
  Some (hd (64 * zlen ws) (ones_from (64 * Z.of_nat k) (flat (skipn k ws)))).
Proof.
  intros Hok. induction fuel as [|fuel IH]; intros k Hk Hfuel.
  all: rewrite next_one_scan_eq; unfold zlen.
  all: destruct (Z.ltb_spec (Z.of_nat k) (Z.of_nat (length ws))) as [Hlt|Hge];
    [|rewrite rest_ones_past by lia; cbn [hd]; now rewrite shiftl_6].
  - lia.
  - destruct (nth_error_exists ws k ltac:(lia)) as [w Hw]. rewrite nthZ_of_nat, Hw.
    pose proof (words_ok_nth _ _ _ Hok Hw) as Hwr.
    rewrite (skipn_nth_cons _ _ _ Hw), flat_cons.
    destruct (Z.eqb_spec w 0) as [->|Hne]; cbn [negb].
    + rewrite bits_zero, ones_from_repeat_false.
      replace (Z.of_nat k + 1) with (Z.of_nat (S k)) by lia.
      fold (zlen ws). rewrite IH by lia. do 3 f_equal. lia.
    + rewrite ones_from_app.
      destruct (ones_from_tz (64 * Z.of_nat k) w ltac:(lia)) as [r Hr]. rewrite Hr.
      cbn [app hd]. now rewrite shiftl_6.
Qed.

(** * after the [i]-th 1 has been found at offset [off] of [w]: clear the bits up to
      and including [off]; the next 1 is the lowest remaining bit of the word, or the
      first 1 of the following words, or there is none *)
Definition next_spec (ws : list Z) (i : nat) : Z :=
  if Z.of_nat i + 1 <? zlen (all_ones ws) then nth (S i) (all_ones ws) 0 else 64 * zlen ws.

Lemma next_spec_Some ws i b : nth_error (all_ones ws) (S i) = Some b -> next_spec ws i = b.
Proof.
  intros H. unfold next_spec, zlen.
  assert (S i < length (all_ones ws))%nat by (apply nth_error_Some; congruence).
  destruct (Z.ltb_spec (Z.of_nat i + 1) (Z.of_nat (length (all_ones ws)))); [|lia].
  now apply nth_error_nth.
Qed.

Lemma next_spec_None ws i : nth_error (all_ones ws) (S i) = None -> next_spec ws i = 64 * zlen ws.
Proof.
  intros H. unfold next_spec, zlen. apply nth_error_None in H.
  destruct (Z.ltb_spec (Z.of_nat i + 1) (Z.of_nat (length (all_ones ws)))); [lia|reflexivity].
Qed.

Lemma sel_next ws i k w f off : words_ok ws -> sel_state ws i k w f ->
  nth_error (ones (bits 64 w)) f = Some off ->
  let w2 := clear_below (off + 1) w in
  if w2 =? 0 then next_one_scan (length ws) ws (Z.of_nat k + 1) (zlen ws) = Some (next_spec ws i)
  else 64 * Z.of_nat k + tz64 w2 = next_spec ws i.
Proof.
  intros Hok (Hk & Hw & Hst) Hoff w2. rewrite ones_eq in Hoff.
  destruct (ones_from_nth_rank _ _ _ _ Hoff) as (Hoff0 & Hcnt & Hbit).
  rewrite Z.sub_0_r in Hcnt, Hbit.
  set (q := Z.to_nat off) in *.
  assert (Hq : (q < 64)%nat).
  { assert (q < length (bits 64 w))%nat by (apply nth_error_Some; congruence).
    now rewrite bits_length in *. }
  assert (Ew2 : w2 = clear_below (Z.of_nat (S q)) w) by (unfold w2, q; f_equal; lia).
  set (b := 64 * Z.of_nat k).
  (* the 1s of the cleared word = the 1s of [w] after the first [f+1] *)
  assert (E : ones_from b (bits 64 w2) = skipn (S f) (ones_from b (bits 64 w))).
  { rewrite Ew2, ones_from_clear_below by lia. f_equal.
    rewrite (ones_from_firstn_succ b _ q Hbit). f_equal.
    rewrite (ones_from_length_indep b 0). exact Hcnt. }
  assert (Hlenf : (f < length (ones_from b (bits 64 w)))%nat).
  { rewrite (ones_from_length_indep b 0). apply nth_error_Some. congruence. }
  specialize (Hst 1%nat). replace (i + 1)%nat with (S i) in Hst by lia.
  replace (f + 1)%nat with (S f) in Hst by lia. rewrite rest_ones_split in Hst. fold b in Hst.
  pose proof (clear_below_word (off + 1) w Hw) as Hw2r. fold w2 in Hw2r.
  destruct (Z.eqb_spec w2 0) as [Ez|Hne].
  - (* no 1 left in this word *)
    rewrite Ez, bits_zero, ones_from_all_false in E. symmetry in E.
    apply skipn_nil_length in E.
    rewrite nth_error_app2 in Hst by lia.
    replace (S f - length (ones_from b (bits 64 w)))%nat with 0%nat in Hst by lia.
    replace (Z.of_nat k + 1) with (Z.of_nat (S k)) by lia.
    rewrite (next_one_scan_spec ws Hok) by lia. f_equal.
    destruct (ones_from (64 * Z.of_nat (S k)) (flat (skipn (S k) ws))) as [|x r]; cbn [hd].
    + symmetry. now apply next_spec_None.
    + symmetry. now apply next_spec_Some.
  - destruct (ones_from_tz b w2 ltac:(lia)) as [r Hr]. rewrite Hr in E.
    symmetry. apply next_spec_Some. rewrite Hst. apply nth_error_app_Some.
    replace (S f) with (S f + 0)%nat by lia. rewrite <- nth_error_skipn_add, <- E. reflexivity.
Qed.

(** * the checkpoint *)
Lemma zlen_all_ones ws : zlen (all_ones ws) = count_true (flat ws).
Proof. unfold zlen, all_ones. apply ones_length. Qed.

Lemma spec_IndexSelect32_nth ws (c : nat) : (32 * c < length (all_ones ws))%nat ->
  nth_error (spec_IndexSelect32 ws) c = Some (nth (32 * c) (all_ones ws) 0).
Proof.
  intros Hc. unfold spec_IndexSelect32. cbv zeta.
  rewrite nth_error_map, seq_nth_error by lia. reflexivity.
Qed.

Lemma spec_IndexSelect32_length ws :
  length (spec_IndexSelect32 ws) = ((length (all_ones ws) + 31) / 32)%nat.
Proof. unfold spec_IndexSelect32. cbv zeta. now rewrite map_length, seq_length. Qed.

(** facts about the [c]-th 1 at position [p] *)
Lemma all_ones_nth ws c p : nth_error (all_ones ws) c = Some p ->
  0 <= p /\ (Z.to_nat p < 64 * length ws)%nat /\
  rank1 (flat ws) (Z.to_nat p) = Z.of_nat c /\
  nth_error (flat ws) (Z.to_nat p) = Some true /\
  skipn c (all_ones ws) = ones_from p (skipn (Z.to_nat p) (flat ws)).
Proof.
  intros H. unfold all_ones, ones in *.
  destruct (ones_from_nth_rank _ _ _ _ H) as (H0 & Hc & Hb). rewrite Z.sub_0_r in Hc, Hb.
  assert (Hlt : (Z.to_nat p < length (flat ws))%nat) by (apply nth_error_Some; congruence).
  repeat split; try assumption.
  - now rewrite flat_length in Hlt.
  - unfold rank1. rewrite <- (ones_from_length 0). now rewrite Hc.
  - rewrite <- Hc. rewrite ones_from_skipn by lia. f_equal. lia.
Qed.

(** the state at the checkpoint [p] (the [c]-th 1), looking for the [c+f]-th 1 *)
Lemma checkpoint_state ws (c f : nat) p w :
  words_ok ws -> nth_error (all_ones ws) c = Some p ->
  nth_error ws (Z.to_nat (p / 64)) = Some w ->
  sel_state ws (c + f) (Z.to_nat (p / 64)) (clear_below (p mod 64) w) f.
Proof.
  intros Hok Hp Hw. destruct (all_ones_nth ws c p Hp) as (H0 & Hlt & _ & _ & Hskip).
  pose proof (words_ok_nth _ _ _ Hok Hw) as Hwr.
  repeat split.
  - apply nth_error_Some. congruence.
  - apply clear_below_word; exact Hwr.
  - apply clear_below_word; exact Hwr.
  - intros j.
    replace (p mod 64) with (Z.of_nat (Z.to_nat (p mod 64))) by lia.
    rewrite <- (rest_ones_at ws (Z.to_nat p) _ _ w Hw) by lia.
    rewrite Z2Nat.id by lia. rewrite <- Hskip. rewrite nth_error_skipn_add. f_equal. lia.
Qed.

(** * Select32 *)
Theorem Select32_exact ws i : words_ok ws -> 0 <= i < zlen (all_ones ws) ->
  Select32 ws (spec_IndexSelect32 ws) i = Some (spec_Select ws i).
Proof.
  intros Hok Hi. unfold zlen in Hi.
  set (n := length (all_ones ws)) in *.
  unfold Select32.
  destruct (Z.ltb_spec i 0) as [|_]; [lia|]. cbn [orb].
  rewrite Z.shiftr_div_pow2 by lia. change (2 ^ 5) with 32.
  change 31 with (Z.ones 5). rewrite Z.land_ones by lia. change (2 ^ 5) with 32.
  unfold zlen at 1. rewrite spec_IndexSelect32_length. fold n.
  destruct (Z.leb_spec (Z.of_nat ((n + 31) / 32)) (i / 32)) as [|_]; [lia|].
  set (c := Z.to_nat (i / 32)). set (f := Z.to_nat (i mod 32)).
  replace (i / 32) with (Z.of_nat c) by (subst c; lia).
  rewrite nthZ_of_nat, spec_IndexSelect32_nth by (fold n; subst c; lia).
  set (p := nth (32 * c) (all_ones ws) 0).
  assert (Hp : nth_error (all_ones ws) (32 * c) = Some p)
    by (apply nth_error_nth_Some; fold n; subst c; lia).
  destruct (all_ones_nth ws _ p Hp) as (Hp0 & Hplt & _ & _ & _).
  destruct (pos_split p Hp0) as (E1 & E2 & _ & Hq & Hk0). rewrite E1, E2.
  set (k := Z.to_nat (p / 64)).
  destruct (nth_error_exists ws k ltac:(subst k; lia)) as [w Hw].
  replace (p / 64) with (Z.of_nat k) by (subst k; lia). rewrite nthZ_of_nat, Hw.
  rewrite clear_below_eq.
  pose proof (checkpoint_state ws (32 * c) f p w Hok Hp Hw) as Hst. fold k in Hst.
  assert (Ei : Z.to_nat i = (32 * c + f)%nat) by (subst c f; lia).
  rewrite <- Ei in Hst.
  replace (i mod 32) with (Z.of_nat f) by (subst f; lia).
  destruct (Select32_skip_spec ws (Z.to_nat i) Hok ltac:(fold n; lia) (length ws) k _ f ltac:(lia) Hst)
    as (k' & w' & f' & Hskip & Hst' & Hf').
  rewrite Hskip.
  destruct (sel_in_word ws _ k' w' f' Hst' Hf') as (off & Hsiw & Hoff & Hnth & Ha).
  rewrite Hsiw. rewrite shiftl_6.
  assert (Ea63 : Z.land (off + 64 * Z.of_nat k') 63 = off).
  { change 63 with (Z.ones 6). rewrite Z.land_ones by lia. change (2 ^ 6) with 64. lia. }
  assert (Ea6 : Z.shiftr (off + 64 * Z.of_nat k') 6 = Z.of_nat k').
  { rewrite Z.shiftr_div_pow2 by lia. change (2 ^ 6) with 64. lia. }
  rewrite Ea63, Ea6, not64_MaskUpto.
  rewrite clear_below_eq.
  pose proof (sel_next ws _ k' w' f' off Hok Hst' Hnth) as Hnext. cbv zeta in Hnext.
  assert (Espec : spec_Select ws i = (64 * Z.of_nat k' + off, next_spec ws (Z.to_nat i))).
  { unfold spec_Select, next_spec. cbv zeta. f_equal.
    - now apply nth_error_nth.
    - rewrite Z2Nat.id by lia. replace (Z.to_nat (i + 1)) with (S (Z.to_nat i)) by lia. reflexivity. }
  rewrite Espec.
  destruct (clear_below (off + 1) w' =? 0); cbn [negb].
  - rewrite Hnext. do 2 f_equal. lia.
  - do 2 f_equal; lia.
Qed.

(** * Select32R64: the rank-index advance *)
Lemma Select32R64_advance_eq fuel ridx wordI i :
  Select32R64_advance fuel ridx wordI i =
  match nthZ ridx (wordI + 1) with
  | None => None
  | Some r => if r <=? i then
                match fuel with
                | O => None
                | S f => Select32R64_advance f ridx (wordI + 1) i
                end
              else Some wordI
  end.
Proof. destruct fuel; reflexivity. Qed.

Lemma spec_index64_nth_tr ws k : (k <= length ws)%nat ->
  nth_error (spec_IndexRank64 ws true) k = Some (rank1 (flat ws) (64 * k)).
Proof.
  intros Hk. destruct (Nat.eq_dec k (length ws)) as [->|Hne].
  - unfold spec_IndexRank64. rewrite nth_error_app2 by (rewrite map_length, seq_length; lia).
    rewrite map_length, seq_length, Nat.sub_diag. reflexivity.
  - apply spec_index64_nth. lia.
Qed.

Lemma rank1_mono l a b : (a <= b)%nat -> rank1 l a <= rank1 l b.
Proof.
  intros H. unfold rank1. replace (firstn a l) with (firstn a (firstn b l)).
  - apply count_true_firstn_le.
  - rewrite firstn_firstn. f_equal. lia.
Qed.

Lemma rank1_words_succ ws k w : words_ok ws -> nth_error ws k = Some w ->
  rank1 (flat ws) (64 * S k) = rank1 (flat ws) (64 * k) + popcount w.
Proof.
  intros Hok Hw. replace (64 * S k)%nat with (64 * k + 64)%nat by lia.
  rewrite (rank1_flat ws k w 64 Hw) by lia.
  rewrite (firstn_all2 (n:=64)) by (rewrite bits_length; lia).
  rewrite <- popcount_bits64 by (eapply words_ok_nth; eauto). reflexivity.
Qed.

Lemma rank1_words_all ws : rank1 (flat ws) (64 * length ws) = zlen (all_ones ws).
Proof. rewrite zlen_all_ones, rank1_flat_words, firstn_all. reflexivity. Qed.

Lemma advance_spec ws (i : Z) : words_ok ws -> i < zlen (all_ones ws) ->
  forall fuel k, (k < length ws)%nat -> (length ws <= k + 1 + fuel)%nat ->
  rank1 (flat ws) (64 * k) <= i ->
  exists k', Select32R64_advance fuel (spec_IndexRank64 ws true) (Z.of_nat k) i = Some (Z.of_nat k') /\
    (k' < length ws)%nat /\ rank1 (flat ws) (64 * k') <= i < rank1 (flat ws) (64 * S k').
Proof.
  intros Hok Hi. induction fuel as [|fuel IH]; intros k Hk Hfuel Hr.
  all: rewrite Select32R64_advance_eq.
  all: replace (Z.of_nat k + 1) with (Z.of_nat (S k)) by lia.
  all: rewrite nthZ_of_nat, spec_index64_nth_tr by lia.
  all: destruct (Z.leb_spec (rank1 (flat ws) (64 * S k)) i) as [Hle|Hgt];
    [|exists k; repeat split; (assumption || lia)].
  all: assert (HSk : (S k < length ws)%nat)
    by (destruct (Nat.eq_dec (S k) (length ws)) as [E|]; [rewrite E, rank1_words_all in Hle; lia|lia]).
  - lia.
  - apply IH; (lia || assumption).
Qed.

(** the state at the start of word [k] when the [i]-th 1 is not before it *)
Lemma rank_state ws (i : Z) k w : words_ok ws -> nth_error ws k = Some w ->
  rank1 (flat ws) (64 * k) <= i ->
  sel_state ws (Z.to_nat i) k w (Z.to_nat (i - rank1 (flat ws) (64 * k))).
Proof.
  intros Hok Hw Hr. pose proof (words_ok_nth _ _ _ Hok Hw) as Hwr.
  assert (Hlen : Z.of_nat (length (ones_from 0 (flat (firstn k ws)))) = rank1 (flat ws) (64 * k)).
  { rewrite ones_from_length, rank1_flat_words. reflexivity. }
  set (r := rank1 (flat ws) (64 * k)) in *.
  repeat split; try lia.
  - apply nth_error_Some. congruence.
  - intros j. unfold all_ones, ones. rewrite (flat_split k ws w Hw), ones_from_app.
    assert (Hk : length (flat (firstn k ws)) = (64 * k)%nat).
    { rewrite flat_length, firstn_length_le; [reflexivity|].
      apply Nat.lt_le_incl. apply nth_error_Some. congruence. }
    rewrite Hk.
    rewrite nth_error_app2 by lia. unfold rest_ones.
    replace (0 + Z.of_nat (64 * k)) with (64 * Z.of_nat k) by lia.
    f_equal. lia.
Qed.

Theorem Select32R64_exact ws i : words_ok ws -> 0 <= i < zlen (all_ones ws) ->
  Select32R64 ws (spec_IndexSelect32 ws) (spec_IndexRank64 ws true) i = Some (spec_Select ws i).
Proof.
  intros Hok Hi. pose proof Hi as Hi'. unfold zlen in Hi.
  set (n := length (all_ones ws)) in *.
  unfold Select32R64.
  rewrite Z.shiftr_div_pow2 by lia. change (2 ^ 5) with 32.
  set (c := Z.to_nat (i / 32)).
  replace (i / 32) with (Z.of_nat c) by (subst c; lia).
  rewrite nthZ_of_nat, spec_IndexSelect32_nth by (fold n; subst c; lia).
  set (p := nth (32 * c) (all_ones ws) 0).
  assert (Hp : nth_error (all_ones ws) (32 * c) = Some p)
    by (apply nth_error_nth_Some; fold n; subst c; lia).
  destruct (all_ones_nth ws _ p Hp) as (Hp0 & Hplt & Hrank & _ & _).
  destruct (pos_split p Hp0) as (E1 & _ & E3 & Hq & Hk0). rewrite E1.
  set (k := Z.to_nat (p / 64)).
  assert (Hk : (k < length ws)%nat) by (subst k; lia).
  assert (Hr0 : rank1 (flat ws) (64 * k) <= i).
  { transitivity (rank1 (flat ws) (Z.to_nat p)); [|rewrite Hrank; subst c; lia].
    apply rank1_mono. subst k; lia. }
  replace (p / 64) with (Z.of_nat k) by (subst k; lia).
  destruct (advance_spec ws i Hok ltac:(lia) (length ws) k Hk ltac:(lia) Hr0) as (k' & Hadv & Hk' & Hr').
  rewrite Hadv.
  destruct (nth_error_exists ws k' Hk') as [w Hw].
  rewrite !nthZ_of_nat, Hw, spec_index64_nth_tr by lia.
  cbv beta iota zeta.
  pose proof (rank_state ws i k' w Hok Hw ltac:(lia)) as Hst.
  assert (Hf : Z.of_nat (Z.to_nat (i - rank1 (flat ws) (64 * k'))) < popcount w).
  { rewrite (rank1_words_succ ws k' w Hok Hw) in Hr'. lia. }
  set (f := Z.to_nat (i - rank1 (flat ws) (64 * k'))) in *.
  replace (i - rank1 (flat ws) (64 * k')) with (Z.of_nat f) by (subst f; lia).
  destruct (sel_in_word ws _ k' w f Hst Hf) as (off & Hsiw & Hoff & Hnth & Ha).
  rewrite Hsiw, shiftl_6.
  assert (Ea63 : Z.land (off + 64 * Z.of_nat k') 63 = off).
  { change 63 with (Z.ones 6). rewrite Z.land_ones by lia. change (2 ^ 6) with 64. lia. }
  rewrite Ea63, RMaskUpto_not64, clear_below_eq.
  pose proof (sel_next ws _ k' w f off Hok Hst Hnth) as Hnext. cbv zeta in Hnext.
  assert (Espec : spec_Select ws i = (64 * Z.of_nat k' + off, next_spec ws (Z.to_nat i))).
  { unfold spec_Select, next_spec. cbv zeta. f_equal.
    - now apply nth_error_nth.
    - rewrite Z2Nat.id by lia. replace (Z.to_nat (i + 1)) with (S (Z.to_nat i)) by lia. reflexivity. }
  rewrite Espec.
  destruct (clear_below (off + 1) w =? 0); cbn [negb].
  - rewrite Hnext. do 2 f_equal. lia.
  - do 2 f_equal; lia.
Qed.

Theorem IndexSelect32R64_exact ws : words_ok ws ->
  IndexSelect32R64 ws = Some (spec_IndexSelect32R64 ws).
Proof.
  intros Hok. unfold IndexSelect32R64, spec_IndexSelect32R64.
  pose proof (IndexSelect32_exact ws) as H. unfold IndexSelect32 in H. rewrite H.
  now rewrite IndexRank64_exact.
Qed.

(** * with the indexes as the index builders return them *)
Theorem Select32_indexed ws sidx i : words_ok ws -> IndexSelect32 ws = Some sidx ->
  0 <= i < zlen (all_ones ws) ->
  Select32 ws sidx i = Some (spec_Select ws i).
Proof.
  intros Hok Hs Hi. rewrite IndexSelect32_exact in Hs. injection Hs as <-.
  now apply Select32_exact.
Qed.

Theorem Select32R64_indexed ws sidx ridx i : words_ok ws -> IndexSelect32R64 ws = Some (sidx, ridx) ->
  0 <= i < zlen (all_ones ws) ->
  Select32R64 ws sidx ridx i = Some (spec_Select ws i).
Proof.
  intros Hok Hs Hi. rewrite IndexSelect32R64_exact in Hs by exact Hok.
  unfold spec_IndexSelect32R64 in Hs. injection Hs as <- <-.
  now apply Select32R64_exact.
Qed.

(** * corollaries: select is inverse to rank, the selected bit is 1, and the second
      component is the position where the rank becomes [i + 1] *)
Lemma spec_Select_fst ws i : 0 <= i < zlen (all_ones ws) ->
  let a := fst (spec_Select ws i) in
  0 <= a < 64 * zlen ws /\ rank1z (flat ws) a = i /\ bitz (flat ws) a = true.
Proof.
  intros Hi a. unfold zlen in Hi.
  assert (Ha : nth_error (all_ones ws) (Z.to_nat i) = Some a)
    by (apply nth_error_nth_Some; lia).
  destruct (all_ones_nth ws _ a Ha) as (H0 & Hlt & Hr & Hb & _).
  unfold zlen, rank1z, bitz. repeat split; try lia.
  now apply nth_error_nth.
Qed.

Lemma spec_Select_snd ws i : 0 <= i < zlen (all_ones ws) ->
  let a := fst (spec_Select ws i) in
  let b := snd (spec_Select ws i) in
  a < b <= 64 * zlen ws /\ rank1z (flat ws) b = i + 1 /\
  (b < 64 * zlen ws -> bitz (flat ws) b = true).
Proof.
  intros Hi a b. destruct (spec_Select_fst ws i Hi) as (Ha & Hra & _). fold a in Ha, Hra.
  assert (Hb : 0 <= b <= 64 * zlen ws /\ rank1z (flat ws) b = i + 1 /\
               (b < 64 * zlen ws -> bitz (flat ws) b = true)).
  { unfold b, spec_Select. cbv zeta. cbn [snd]. unfold zlen in *.
    destruct (Z.ltb_spec (i + 1) (Z.of_nat (length (all_ones ws)))) as [Hlt|Hge].
    - assert (Hn : nth_error (all_ones ws) (Z.to_nat (i + 1)) = Some (nth (Z.to_nat (i + 1)) (all_ones ws) 0))
        by (apply nth_error_nth_Some; lia).
      destruct (all_ones_nth ws _ _ Hn) as (H0 & Hl & Hr & Hbit & _).
      unfold rank1z, bitz. repeat split; try lia. intros _. now apply nth_error_nth.
    - unfold rank1z. replace (Z.to_nat (64 * Z.of_nat (length ws))) with (64 * length ws)%nat by lia.
      rewrite rank1_words_all. unfold zlen. repeat split; lia. }
  destruct Hb as (Hb0 & Hrb & Hbb). repeat split; try assumption; try lia.
  destruct (Z.lt_ge_cases a b) as [|Hge]; [assumption|exfalso].
  unfold rank1z in *. pose proof (rank1_mono (flat ws) (Z.to_nat b) (Z.to_nat a) ltac:(lia)). lia.
Qed.

(** [Rank64] (the model of the library's own rank) applied to the result of [Select32] *)
Theorem Rank64_Select32 ws tr sidx i a b : words_ok ws -> IndexSelect32 ws = Some sidx ->
  0 <= i < zlen (all_ones ws) -> Select32 ws sidx i = Some (a, b) ->
  Rank64 ws (IndexRank64 ws tr) a = Some (i, 1).
Proof.
  intros Hok Hs Hi Hsel. rewrite (Select32_indexed ws sidx i Hok Hs Hi) in Hsel.
  injection Hsel as Ea Eb.
  pose proof (spec_Select_fst ws i Hi) as HF. unfold spec_Select in HF. cbv zeta in HF.
  cbn [fst] in HF. rewrite Ea in HF.
  destruct HF as (Ha & Hr & Hb).
  rewrite Rank64_exact by assumption. unfold spec_Rank. rewrite Hr, Hb. reflexivity.
Qed.

Theorem Rank64_Select32R64 ws tr sidx ridx i a b : words_ok ws ->
  IndexSelect32R64 ws = Some (sidx, ridx) ->
  0 <= i < zlen (all_ones ws) -> Select32R64 ws sidx ridx i = Some (a, b) ->
  Rank64 ws (IndexRank64 ws tr) a = Some (i, 1).
Proof.
  intros Hok Hs Hi Hsel. rewrite (Select32R64_indexed ws sidx ridx i Hok Hs Hi) in Hsel.
  injection Hsel as Ea Eb.
  pose proof (spec_Select_fst ws i Hi) as HF. unfold spec_Select in HF. cbv zeta in HF.
  cbn [fst] in HF. rewrite Ea in HF.
  destruct HF as (Ha & Hr & Hb).
  rewrite Rank64_exact by assumption. unfold spec_Rank. rewrite Hr, Hb. reflexivity.
Qed.

(** * the specification value is THE position with bit 1 and rank [i] (uniqueness), so the
      theorems above say what the property says, not merely "equal to some list function" *)
Lemma rank1_succ_set bs p : nth_error bs p = Some true -> rank1 bs (S p) = rank1 bs p + 1.
Proof.
  intros H. unfold rank1. rewrite (firstn_succ_nth p bs true H), count_true_app.
  cbn [count_true Z.b2z]. lia.
Qed.

Lemma rank1_set_unique bs p p' :
  nth_error bs p = Some true -> nth_error bs p' = Some true -> rank1 bs p = rank1 bs p' -> p = p'.
Proof.
  intros Hp Hp' E.
  destruct (Nat.lt_trichotomy p p') as [Hlt|[Heq|Hgt]]; [exfalso|exact Heq|exfalso].
  - pose proof (rank1_mono bs (S p) p' ltac:(lia)). rewrite rank1_succ_set in * by exact Hp. lia.
  - pose proof (rank1_mono bs (S p') p ltac:(lia)). rewrite rank1_succ_set in * by exact Hp'. lia.
Qed.

Lemma bitz_nth_error bs a : 0 <= a -> bitz bs a = true -> nth_error bs (Z.to_nat a) = Some true.
Proof.
  intros Ha Hb. unfold bitz in Hb.
  destruct (Nat.lt_ge_cases (Z.to_nat a) (length bs)) as [Hlt|Hge].
  - rewrite (nth_error_nth_Some bs _ false Hlt). now rewrite Hb.
  - rewrite nth_overflow in Hb by exact Hge. discriminate.
Qed.

Theorem spec_Select_unique ws i a : 0 <= a -> bitz (flat ws) a = true -> rank1z (flat ws) a = i ->
  0 <= i < zlen (all_ones ws) /\ fst (spec_Select ws i) = a.
Proof.
  intros Ha Hb Hr. pose proof (bitz_nth_error _ _ Ha Hb) as Hn. unfold rank1z in Hr.
  assert (Hi : 0 <= i < zlen (all_ones ws)).
  { pose proof (rank1_succ_set _ _ Hn) as Hs. rewrite Hr in Hs.
    rewrite zlen_all_ones. unfold rank1 in *.
    pose proof (count_true_firstn_le (flat ws) (S (Z.to_nat a))).
    pose proof (count_true_nonneg (firstn (Z.to_nat a) (flat ws))). lia. }
  split; [exact Hi|].
  destruct (spec_Select_fst ws i Hi) as (Ha0 & Hr0 & Hb0).
  pose proof (bitz_nth_error _ _ (proj1 Ha0) Hb0) as Hn0. unfold rank1z in Hr0.
  pose proof (rank1_set_unique _ _ _ Hn0 Hn ltac:(lia)). lia.
Qed.
