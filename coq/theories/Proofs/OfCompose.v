(** C12 widening: the constructors composed with the readers of C01 (Rank64/Rank128) and C13
    (NextOne/PrevOne).  A query on a bitmap whose 1-positions are [s] returns what the list [s]
    says; Of / OfMany / Builder produce such bitmaps. *)
From Coq Require Import ZArith List Lia Bool Sorted.
From Low Require Import Lib.MachInt Lib.Bits Lib.BitSeq Lib.BitsExtra_bm2 Lib.BitsExtra_bm12
  Model.BitmapUtil Model.BuilderOps Model.BitmapOf Spec.OfSpec Proofs.OfProofs Proofs.OfInspect
  Proofs.OfRoundTrip Proofs.BuilderProofs
  Model.Rank Spec.RankSpec Proofs.RankProofs Model.BitmapNext Spec.NextSpec Proofs.NextProofs
  Spec.OfQuerySpec.
Import ListNotations.
Open Scope Z_scope.

(** * rank = number of listed positions below *)
Lemma filter_below_none b n l :
  (forall p, In p l -> b + n <= p) -> filter (fun p => p <? b + n) l = [].
Proof.
  intros H. apply filter_none. intros q Hq. specialize (H q Hq). apply Z.ltb_ge. lia.
Qed.

Lemma rank1_ones_from bs : forall b n,
  count_true (firstn n bs) =
  Z.of_nat (length (filter (fun p => p <? b + Z.of_nat n) (ones_from b bs))).
Proof.
  induction bs as [|x bs IH]; intros b n.
  - rewrite firstn_nil. reflexivity.
  - destruct n as [|n].
    + cbn [firstn count_true]. rewrite filter_none; [reflexivity|].
      intros q Hq. apply ones_from_lb in Hq. apply Z.ltb_ge. lia.
    + cbn [firstn count_true ones_from].
      replace (b + Z.of_nat (S n)) with (b + 1 + Z.of_nat n) by lia.
      rewrite (IH (b + 1) n). destruct x; cbn [Z.b2z filter].
      * destruct (Z.ltb_spec b (b + 1 + Z.of_nat n)); [|lia]. cbn [length]. lia.
      * lia.
Qed.

Lemma rank1z_ones bs i : 0 <= i -> rank1z bs i = count_below (ones bs) i.
Proof.
  intros Hi. unfold rank1z, rank1, count_below, ones.
  rewrite (rank1_ones_from bs 0 (Z.to_nat i)). rewrite Z.add_0_l, Z2Nat.id by lia. reflexivity.
Qed.

Lemma bitz_member bs i : 0 <= i -> bitz bs i = member (ones bs) i.
Proof.
  intros Hi. unfold member.
  destruct (bitz bs i) eqn:E.
  - symmetry. apply existsb_exists. exists i. split; [|apply Z.eqb_refl].
    apply ones_In_bitz. split; assumption.
  - symmetry. apply not_true_is_false. intros H. apply existsb_exists in H.
    destruct H as (p & Hp & Hpi). apply Z.eqb_eq in Hpi. subst p.
    apply ones_In_bitz in Hp. destruct Hp as [_ Hp]. congruence.
Qed.

Lemma within_in_rangeb i e : within i e = in_rangeb i e.
Proof. reflexivity. Qed.

(** * any bitmap whose 1-positions are [s] *)
Theorem query_by_ones ws s :
  words_ok ws -> ones (flat ws) = s ->
  forall i e tr, 0 <= i <= e -> e <= 64 * zlen ws -> i < 64 * zlen ws -> 1 <= e ->
  Rank64 ws (IndexRank64 ws tr) i = Some (count_below s i, Z.b2z (member s i)) /\
  Rank128 ws (IndexRank128 ws) i = Some (count_below s i, Z.b2z (member s i)) /\
  NextOne ws i e = Some (first_within s i e) /\
  PrevOne ws i e = Some (last_within s i e).
Proof.
  intros Hok Hs i e tr Hie He Hi H1.
  rewrite Rank64_exact, Rank128_exact by (try assumption; lia).
  rewrite (NextOne_exact ws Hok i e), (PrevOne_exact ws Hok i e) by (try assumption; lia).
  unfold spec_Rank, spec_NextOne, spec_PrevOne, ones_in, first_within, last_within.
  rewrite rank1z_ones, bitz_member by lia. rewrite Hs. repeat split; reflexivity.
Qed.

(** * Of *)
Theorem Of_query ps opt i e tr :
  query_dom ps opt i e = true ->
  exists r, Of ps opt = Some r /\
    (Rank64 r (IndexRank64 r tr) i, Rank128 r (IndexRank128 r) i, NextOne r i e, PrevOne r i e) =
    (let '(a, b, c, d) := spec_query (usort ps) i e in (Some a, Some b, Some c, Some d)).
Proof.
  unfold query_dom, of_size. rewrite !andb_true_iff, !Z.leb_le, !Z.ltb_lt.
  intros [[[[[[Hs Hnn] H0] Hie] He] Hi] H1].
  destruct (Of_sorted ps opt Hs Hnn) as (r & E & Hok & Hlen & Hones).
  exists r. split; [exact E|]. rewrite <- Hlen in He, Hi.
  destruct (query_by_ones r (usort ps) Hok Hones i e tr ltac:(lia) He Hi H1) as (-> & -> & -> & ->).
  reflexivity.
Qed.

(** ascending positions: in terms of the list itself *)
Theorem Of_query_ascending ps opt :
  StronglySorted Z.lt ps -> (forall p, In p ps -> 0 <= p) ->
  exists r, Of ps opt = Some r /\ zlen r = words_for (of_bits ps opt) /\
  forall i e tr, 0 <= i <= e -> e <= 64 * zlen r -> i < 64 * zlen r -> 1 <= e ->
  Rank64 r (IndexRank64 r tr) i = Some (count_below ps i, Z.b2z (member ps i)) /\
  Rank128 r (IndexRank128 r) i = Some (count_below ps i, Z.b2z (member ps i)) /\
  NextOne r i e = Some (first_within ps i e) /\
  PrevOne r i e = Some (last_within ps i e).
Proof.
  intros Hs Hnn. destruct (Of_ascending ps opt Hs Hnn) as (r & E & Hok & Hlen & Hones).
  exists r. split; [exact E|]. split; [exact Hlen|].
  intros i e tr. now apply query_by_ones.
Qed.

(** * Builder: the same queries on Words after any history *)
Theorem Builder_query n ops :
  0 <= n -> forallb bop_dom ops = true ->
  exists b0 b, NewBuilder n = Some b0 /\ bfold b0 ops = Some b /\
  let s := usort (abits (fold_left astep ops abs0)) in
  forall i e tr, 0 <= i <= e -> e <= 64 * zlen (Words b) -> i < 64 * zlen (Words b) -> 1 <= e ->
  Rank64 (Words b) (IndexRank64 (Words b) tr) i = Some (count_below s i, Z.b2z (member s i)) /\
  Rank128 (Words b) (IndexRank128 (Words b)) i = Some (count_below s i, Z.b2z (member s i)) /\
  NextOne (Words b) i e = Some (first_within s i e) /\
  PrevOne (Words b) i e = Some (last_within s i e).
Proof.
  intros Hn Hdom. destruct (Builder_final n ops Hn Hdom) as (b0 & b & E0 & Eb & H).
  cbv zeta in H. destruct H as (_ & Hok & Hones & _).
  exists b0, b. split; [exact E0|]. split; [exact Eb|]. cbv zeta.
  intros i e tr. now apply query_by_ones.
Qed.

(** * membership through Get1 / SafeGet1 on a built bitmap *)
Lemma member_In s i : member s i = true <-> In i s.
Proof.
  unfold member. rewrite existsb_exists. split.
  - intros (p & Hp & E). apply Z.eqb_eq in E. now subst.
  - intros H. exists i. split; [exact H|apply Z.eqb_refl].
Qed.

Theorem SafeGet1_member ws s :
  ones (flat ws) = s -> forall i, SafeGet1 ws i = Some (Z.b2z (member s i)) /\
                                 (SafeGet ws i = Some 0 <-> ~ In i s).
Proof.
  intros Hs i. rewrite SafeGet1_total, SafeGet_total. unfold spec_SafeGet1, spec_SafeGet, spec_Get1, spec_Get.
  assert (Hnz : 2 ^ (i mod 64) <> 0) by (apply pow2_nonzero; apply Z.mod_pos_bound; lia).
  destruct (inside ws i) eqn:E.
  - apply inside_iff in E. rewrite bitz_member by lia. rewrite Hs.
    split; [reflexivity|]. rewrite <- member_In.
    destruct (member s i); split; intros H; congruence.
  - assert (Hni : ~ In i s).
    { intros Hin. rewrite <- Hs in Hin. apply ones_In_wbit in Hin. destruct Hin as [H0 Hb].
      apply wbit_lt in Hb; [|exact H0].
      assert (inside ws i = true) by (apply inside_iff; lia). congruence. }
    split; [|tauto].
    destruct (member s i) eqn:Em; [|reflexivity]. apply member_In in Em. contradiction.
Qed.

(** Of(ps, n) for ascending ps: SafeGet1 at ANY integer i says whether i is listed; Get/Get1 the same inside *)
Theorem Of_membership ps opt :
  StronglySorted Z.lt ps -> (forall p, In p ps -> 0 <= p) ->
  exists r, Of ps opt = Some r /\
    (forall i, SafeGet1 r i = Some (Z.b2z (member ps i)) /\ (SafeGet r i = Some 0 <-> ~ In i ps)) /\
    (forall i, 0 <= i < 64 * zlen r -> Get1 r i = Some (Z.b2z (member ps i)) /\ (Get r i = Some 0 <-> ~ In i ps)).
Proof.
  intros Hs Hnn. destruct (Of_ascending ps opt Hs Hnn) as (r & E & Hok & Hlen & Hones).
  exists r. split; [exact E|]. split.
  - intros i. now apply SafeGet1_member.
  - intros i Hi. destruct (SafeGet_inside r i Hi) as [<- <-]. now apply SafeGet1_member.
Qed.
