(** Proofs for C15 (TailBitmap): soundness of the executable checker.  If [check_history] accepts an
    observed history (of the real code, or of anything else), then that history satisfies the
    property in Prop form ([obs_ok], Spec/TailBitmapObs.v): every observed state satisfies [TInv] for
    the indices set so far, Offset and the end are monotone, every probe returned membership.  So a
    verdict OK of ./check is a statement about the property, not about a boolean function. *)
From Coq Require Import ZArith List Bool Lia.
From Low Require Import Lib.Bits Lib.BitSeq Spec.TailBitmapSpec Spec.TailBitmapInv.
From Low Require Import Spec.TailBitmapObs.
Import ListNotations.
Open Scope Z_scope.

Lemma s_memP_cons a b H j : memP ((a, b) :: H) j <-> (memP H j \/ a <= j < b).
Proof.
  unfold memP, memH. cbn [existsb fst snd]. fold (memH H j).
  rewrite orb_true_iff, andb_true_iff, Z.leb_le, Z.ltb_lt. tauto.
Qed.

Lemma s_member_iff o H j : member o H j = true <-> j < o \/ memP H j.
Proof. unfold member, memP. rewrite orb_true_iff, Z.ltb_lt. tauto. Qed.

Lemma memP_abs_step H p j : memP H j -> memP (abs_step H p) j.
Proof.
  intros A. destruct p; cbn [abs_step]; try exact A; apply s_memP_cons; left; exact A.
Qed.

Lemma s_zrange_In : forall n a j, In j (zrange a n) <-> a <= j < a + Z.of_nat n.
Proof.
  induction n as [|n IH]; intros a j; cbn [zrange In]; [lia|].
  rewrite IH. lia.
Qed.

Lemma s_nth_map_zrange {A} (f : Z -> A) d : forall N a n, (n < N)%nat ->
  nth n (map f (zrange a N)) d = f (a + Z.of_nat n).
Proof.
  induction N as [|N IH]; intros a n Hn; [lia|].
  cbn [zrange map]. destruct n as [|n]; cbn [nth].
  - f_equal. lia.
  - rewrite IH by lia. f_equal. lia.
Qed.

Lemma bools_eqb_eq : forall a b, bools_eqb a b = true -> a = b.
Proof.
  induction a as [|x a IH]; intros [|y b] E; cbn [bools_eqb] in E; try discriminate; [reflexivity|].
  apply andb_true_iff in E. destruct E as [E1 E2]. apply eqb_prop in E1. subst y.
  f_equal. apply IH. exact E2.
Qed.

Lemma zs_eqb_eq : forall a b, zs_eqb a b = true -> a = b.
Proof.
  induction a as [|x a IH]; intros [|y b] E; cbn [zs_eqb] in E; try discriminate; [reflexivity|].
  apply andb_true_iff in E. destruct E as [E1 E2]. apply Z.eqb_eq in E1. subst y.
  f_equal. apply IH. exact E2.
Qed.

(** [stored_ok] gives the bit clause of the invariant *)
Lemma stored_ok_bits o H off ws : o <= off -> stored_ok o H off ws = true ->
  forall j, off <= j < tb_end off ws -> (bitz (flat ws) (j - off) = true <-> memP H j).
Proof.
  intros Hge E j Hj. unfold stored_ok in E. apply bools_eqb_eq in E.
  unfold bitz. rewrite E. unfold tb_end, zlen in Hj.
  rewrite s_nth_map_zrange by lia.
  replace (off + Z.of_nat (Z.to_nat (j - off))) with j by lia.
  rewrite s_member_iff. split; [|tauto]. intros [A|A]; [lia|exact A].
Qed.

Lemma s_head_okb_iff ws : head_okb ws = true <-> head_okP ws.
Proof.
  unfold head_okb, head_okP, all_ones_word. destruct ws as [|w t].
  - split; [intros _ x t E; discriminate|reflexivity].
  - rewrite negb_true_iff, Z.eqb_neq. split.
    + intros Hne x t' E. inversion E; subst. exact Hne.
    + intros Hh. apply (Hh w t eq_refl).
Qed.

Lemma TInv_W o P off ws : TInv o P off ws -> TInvW o P off ws.
Proof. intros T. constructor; apply T. Qed.

Lemma TInvW_head o P off ws : TInvW o P off ws -> head_okP ws -> TInv o P off ws.
Proof. intros T Hh. constructor; try apply T. exact Hh. Qed.

(** one call *)
Lemma check_step_gen_sound (b : bool) o poff pws H p off ws r :
  TInvW o (memP H) poff pws -> words_ok ws ->
  check_step_gen b o (poff, pws) (abs_step H p) p (off, ws, r) = true ->
  TInvW o (memP (abs_step H p)) off ws /\
  (b = true -> head_okP ws) /\
  poff <= off /\ tb_end poff pws <= tb_end off ws /\
  (forall j, poff <= j < off -> memP (abs_step H p) j) /\
  result_ok o (abs_step H p) p r /\
  (p = PCompact -> tb_end off ws = tb_end poff pws).
Proof.
  intros T Hw E. unfold check_step_gen in E. cbv zeta in E.
  repeat (apply andb_true_iff in E; destruct E as [E ?]).
  rename H0 into Cop, H1 into Cst, H2 into Cend, H3 into Chd, H4 into Cpass, H5 into Cle.
  apply Z.eqb_eq in E. apply Z.leb_le in Cle. apply Z.leb_le in Cend.
  rewrite forallb_forall in Cpass.
  set (H' := abs_step H p) in *.
  assert (Hge : o <= off) by (pose proof (tw_ge _ _ _ _ T); lia).
  assert (Hpass : forall j, poff <= j < off -> memP H' j).
  { intros j Hj. assert (A : member o H' j = true) by (apply Cpass; apply s_zrange_In; lia).
    apply s_member_iff in A. destruct A as [A|A]; [|exact A].
    pose proof (tw_ge _ _ _ _ T). lia. }
  assert (Hend : forall j, memP H' j -> j < tb_end off ws).
  { intros j A. unfold tb_end.
    assert (Hold : memP H j -> j < off + 64 * zlen ws).
    { intros B. pose proof (tw_end _ _ _ _ T j B) as C. unfold tb_end in C. lia. }
    subst H'. destruct p as [idx| |k|k|f t|f t]; cbn [abs_step] in A; try (apply Hold; exact A).
    - apply s_memP_cons in A. destruct A as [A|A]; [apply Hold; exact A|].
      apply andb_true_iff in Cop. destruct Cop as [C _]. apply Z.ltb_lt in C. lia.
    - apply s_memP_cons in A. destruct A as [A|A]; [apply Hold; exact A|].
      apply andb_true_iff in Cop. destruct Cop as [C _]. apply orb_true_iff in C.
      destruct C as [C|C]; apply Z.leb_le in C; lia.
    - apply s_memP_cons in A. destruct A as [A|A]; [apply Hold; exact A|].
      apply andb_true_iff in Cop. destruct Cop as [C _]. apply orb_true_iff in C.
      destruct C as [C|C]; apply Z.leb_le in C; lia. }
  assert (Hbits : forall j, off <= j < tb_end off ws -> (bitz (flat ws) (j - off) = true <-> memP H' j)).
  { destruct (negb (changes_set p) && (off =? poff) && zs_eqb ws pws) eqn:D.
    - apply andb_true_iff in D. destruct D as [D D3]. apply andb_true_iff in D. destruct D as [D1 D2].
      apply Z.eqb_eq in D2. apply zs_eqb_eq in D3. subst off ws.
      assert (HH : H' = H).
      { subst H'. destruct p; cbn [changes_set negb] in D1; try discriminate; reflexivity. }
      rewrite HH. apply (tw_bits _ _ _ _ T).
    - apply (stored_ok_bits o H' off ws Hge Cst). }
  split; [|split; [|split; [exact Cle|split; [unfold tb_end; exact Cend|split; [exact Hpass|split]]]]].
  - constructor.
    + exact E.
    + exact Hge.
    + exact Hw.
    + intros j Hj. destruct (Z_lt_le_dec j poff) as [A|A].
      * destruct (tw_below _ _ _ _ T j A) as [B|B]; [left; exact B|right; apply memP_abs_step; exact B].
      * right. apply Hpass. lia.
    + exact Hbits.
    + exact Hend.
  - intros ->. cbn [negb orb] in Chd. apply s_head_okb_iff. exact Chd.
  - subst H'. destruct p as [idx| |k|k|f t|f t]; cbn [result_ok];
      try (apply andb_true_iff in Cop; destruct Cop as [_ C]); try (apply Z.eqb_eq in C; exact C).
    + apply Z.eqb_eq in Cop. exact Cop.
    + apply Z.eqb_eq in Cop. exact Cop.
  - intros ->. apply andb_true_iff in Cop. destruct Cop as [C _]. apply Z.eqb_eq in C.
    unfold tb_end. exact C.
Qed.

Lemma check_step_sound o poff pws H p off ws r :
  TInv o (memP H) poff pws -> words_ok ws ->
  check_step o (poff, pws) (abs_step H p) p (off, ws, r) = true ->
  TInv o (memP (abs_step H p)) off ws /\
  poff <= off /\ tb_end poff pws <= tb_end off ws /\
  (forall j, poff <= j < off -> memP (abs_step H p) j) /\
  result_ok o (abs_step H p) p r /\
  (p = PCompact -> tb_end off ws = tb_end poff pws).
Proof.
  intros T Hw E.
  destruct (check_step_gen_sound true o poff pws H p off ws r (TInv_W _ _ _ _ T) Hw E)
    as (A0 & Ah & A).
  split; [|exact A]. apply TInvW_head; [exact A0|apply Ah; reflexivity].
Qed.

Lemma check_run_sound o : forall ps obs H poff pws,
  TInv o (memP H) poff pws ->
  Forall (fun ob => words_ok (snd (fst ob))) obs ->
  check_run o (poff, pws) H ps obs = true ->
  obs_ok o (poff, pws) H ps obs.
Proof.
  induction ps as [|p t IH]; intros obs H poff pws T Hw E; destruct obs as [|[[off ws] r] obs'];
    cbn [check_run obs_ok] in *; try discriminate; [exact I|].
  apply andb_true_iff in E. destruct E as [E1 E2]. cbn [fst snd] in *.
  inversion Hw as [|x l Hw1 Hw2]; subst. cbn [fst snd] in Hw1.
  destruct (check_step_sound o poff pws H p off ws r T Hw1 E1) as (A1 & A2 & A3 & A4 & A5 & A6).
  repeat (split; [assumption|]).
  apply IH; assumption.
Qed.

Lemma s_memP_nil j : memP [] j <-> False.
Proof. unfold memP. cbn. split; [discriminate|tauto]. Qed.

Lemma TInv_new o : o mod 64 = 0 -> TInv o (memP []) o [].
Proof.
  intros Ho. constructor.
  - exact Ho.
  - lia.
  - constructor.
  - intros w t E. discriminate.
  - intros j Hj. left. exact Hj.
  - intros j Hj. unfold tb_end, zlen in Hj. cbn [length] in Hj. lia.
  - intros j Hj. apply s_memP_nil in Hj. contradiction.
Qed.

Lemma check_history_sound o ps obs : o mod 64 = 0 ->
  Forall (fun ob => words_ok (snd (fst ob))) obs ->
  check_history o ps obs = true -> obs_ok o (o, []) [] ps obs.
Proof.
  intros Ho Hw E. unfold check_history in E.
  apply check_run_sound; [apply TInv_new; exact Ho|exact Hw|exact E].
Qed.

(** * completeness: the checker rejects only histories that violate [obs_ok] *)

Lemma s_bools_eqb_refl : forall l, bools_eqb l l = true.
Proof.
  induction l as [|x t IH]; cbn [bools_eqb]; [reflexivity|].
  rewrite IH. destruct x; reflexivity.
Qed.

Lemma s_zrange_length : forall n a, length (zrange a n) = n.
Proof. induction n as [|n IH]; intros a; cbn [zrange length]; [reflexivity|]. now rewrite IH. Qed.

Lemma TInv_stored_ok o H off ws : TInvW o (memP H) off ws -> stored_ok o H off ws = true.
Proof.
  intros T. unfold stored_ok.
  assert (E : flat ws = map (member o H) (zrange off (64 * length ws))).
  { apply nth_ext with (d := false) (d' := false).
    - rewrite map_length, s_zrange_length, flat_length. reflexivity.
    - intros n Hn. rewrite flat_length in Hn. rewrite s_nth_map_zrange by exact Hn.
      assert (R : off <= off + Z.of_nat n < tb_end off ws) by (unfold tb_end, zlen; lia).
      pose proof (tw_bits _ _ _ _ T _ R) as B.
      replace (off + Z.of_nat n - off) with (Z.of_nat n) in B by lia.
      unfold bitz in B. rewrite Nat2Z.id in B.
      apply eq_true_iff_eq. rewrite B, s_member_iff.
      pose proof (tw_ge _ _ _ _ T). split; [tauto|]. intros [A|A]; [lia|exact A]. }
  rewrite <- E. apply s_bools_eqb_refl.
Qed.

Lemma s_if_same (c : bool) : (if c then true else true) = true.
Proof. destruct c; reflexivity. Qed.

Lemma check_step_gen_complete (b : bool) o poff pws H p off ws r :
  TInvW o (memP (abs_step H p)) off ws -> (b = true -> head_okP ws) ->
  poff <= off -> tb_end poff pws <= tb_end off ws ->
  (forall j, poff <= j < off -> memP (abs_step H p) j) ->
  result_ok o (abs_step H p) p r ->
  (p = PCompact -> tb_end off ws = tb_end poff pws) ->
  check_step_gen b o (poff, pws) (abs_step H p) p (off, ws, r) = true.
Proof.
  intros T Hh Hle Hend Hpass Hres Hcmp. unfold check_step_gen. cbv zeta.
  rewrite (proj2 (Z.eqb_eq _ _) (tw_align _ _ _ _ T)).
  rewrite (proj2 (Z.leb_le _ _) Hle).
  assert (C3 : forallb (member o (abs_step H p)) (zrange poff (Z.to_nat (off - poff))) = true).
  { apply forallb_forall. intros x Hx. apply s_zrange_In in Hx. apply s_member_iff. right.
    apply Hpass. lia. }
  rewrite C3.
  assert (C4 : negb b || head_okb ws = true).
  { destruct b; cbn [negb orb]; [|reflexivity]. apply s_head_okb_iff. apply Hh. reflexivity. }
  rewrite C4.
  unfold tb_end in Hend. rewrite (proj2 (Z.leb_le _ _) Hend).
  rewrite (TInv_stored_ok o _ off ws T), s_if_same. cbn [andb].
  pose proof (tw_end _ _ _ _ T) as We. unfold tb_end in We.
  destruct p as [idx| |j|j|f t|f t]; cbn [result_ok abs_step] in *.
  - subst r. rewrite Z.eqb_refl, andb_true_r. apply Z.ltb_lt. apply We.
    apply s_memP_cons. right. lia.
  - subst r. rewrite Z.eqb_refl, andb_true_r. apply Z.eqb_eq.
    specialize (Hcmp eq_refl). unfold tb_end in Hcmp. exact Hcmp.
  - subst r. unfold spec_Get. apply Z.eqb_refl.
  - subst r. unfold spec_Get1. apply Z.eqb_refl.
  - subst r. rewrite Z.eqb_refl, andb_true_r. apply orb_true_iff.
    destruct (Z_le_gt_dec t f) as [A|A]; [left; apply Z.leb_le; exact A|right].
    apply Z.leb_le. assert (t - 1 < off + 64 * zlen ws); [|lia].
    apply We. apply s_memP_cons. right. lia.
  - subst r. rewrite Z.eqb_refl, andb_true_r. apply orb_true_iff.
    destruct (Z_le_gt_dec t f) as [A|A]; [left; apply Z.leb_le; exact A|right].
    apply Z.leb_le. assert (t - 1 < off + 64 * zlen ws); [|lia].
    apply We. apply s_memP_cons. right. lia.
Qed.

Lemma check_step_complete o poff pws H p off ws r :
  TInv o (memP (abs_step H p)) off ws ->
  poff <= off -> tb_end poff pws <= tb_end off ws ->
  (forall j, poff <= j < off -> memP (abs_step H p) j) ->
  result_ok o (abs_step H p) p r ->
  (p = PCompact -> tb_end off ws = tb_end poff pws) ->
  check_step o (poff, pws) (abs_step H p) p (off, ws, r) = true.
Proof.
  intros T. apply check_step_gen_complete; [apply TInv_W; exact T|].
  intros _ w t E. apply (ti_head _ _ _ _ T w t E).
Qed.

Lemma check_run_complete o : forall ps obs H prev,
  obs_ok o prev H ps obs -> check_run o prev H ps obs = true.
Proof.
  induction ps as [|p t IH]; intros obs H [poff pws] O; destruct obs as [|[[off ws] r] obs'];
    cbn [check_run obs_ok] in *; try contradiction; [reflexivity|].
  cbn [fst snd] in *. destruct O as (A1 & A2 & A3 & A4 & A5 & A6 & A7).
  rewrite (check_step_complete o poff pws H p off ws r A1 A2 A3 A4 A5 A6). cbn [andb].
  apply IH. exact A7.
Qed.

(** the checker decides the Prop-level property of an observed history *)
Lemma check_history_iff o ps obs : o mod 64 = 0 ->
  Forall (fun ob => words_ok (snd (fst ob))) obs ->
  (check_history o ps obs = true <-> obs_ok o (o, []) [] ps obs).
Proof.
  intros Ho Hw. split.
  - apply check_history_sound; assumption.
  - intros O. unfold check_history. apply check_run_complete. exact O.
Qed.

(** * the same for histories that start from a struct literal *)

Lemma check_run_lit_iff o : forall ps obs (b : bool) (st : Prop) H poff pws,
  (b = true <-> st) ->
  TInvW o (memP H) poff pws ->
  Forall (fun ob => words_ok (snd (fst ob))) obs ->
  (check_run_lit b o (poff, pws) H ps obs = true <-> obs_ok_lit st o (poff, pws) H ps obs).
Proof.
  induction ps as [|p t IH]; intros obs b st H poff pws Hb T Hw; destruct obs as [|[[off ws] r] obs'];
    cbn [check_run_lit obs_ok_lit]; try (split; [discriminate|contradiction]); [tauto|].
  cbn [fst snd]. inversion Hw as [|x l Hw1 Hw2]; subst. cbn [fst snd] in Hw1.
  assert (Hnow : (b || touches_head poff p) = true <-> (st \/ touches_head poff p = true)).
  { rewrite orb_true_iff, Hb. tauto. }
  assert (Hnext : ((b || touches_head poff p) || head_okb ws) = true <->
                  ((st \/ touches_head poff p = true) \/ head_okP ws)).
  { rewrite orb_true_iff, Hnow, s_head_okb_iff. tauto. }
  rewrite andb_true_iff. split.
  - intros [E1 E2].
    destruct (check_step_gen_sound _ o poff pws H p off ws r T Hw1 E1) as (A0 & Ah & A1 & A2 & A3 & A4 & A5).
    split; [exact A0|]. split; [intros S; apply Ah; apply Hnow; exact S|].
    repeat (split; [assumption|]).
    apply (IH obs' _ _ _ off ws Hnext A0 Hw2). exact E2.
  - intros (A0 & Ah & A1 & A2 & A3 & A4 & A5 & A6). split.
    + apply check_step_gen_complete; try assumption. intros S. apply Ah. apply Hnow. exact S.
    + apply (IH obs' _ _ _ off ws Hnext A0 Hw2). exact A6.
Qed.
