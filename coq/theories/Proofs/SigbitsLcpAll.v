(** C17, adequacy of the specification vocabulary: [lcp_all ks] really is the
    longest common prefix of the keys [ks] -- it is a prefix of every key, and
    every common prefix of all keys is a prefix of it. *)
From Coq Require Import ZArith List Lia Bool.
From Low Require Import Lib.Lex Lib.LexExtra_sig Spec.SigbitsSpec.
Import ListNotations.

Definition is_prefix (p x : list Z) : Prop := firstn (length p) x = p.

Lemma is_prefix_length p x : is_prefix p x -> (length p <= length x)%nat.
Proof. unfold is_prefix. intros H. rewrite <- H at 1. rewrite firstn_length. lia. Qed.

Lemma is_prefix_app p x : is_prefix p x <-> exists r, x = p ++ r.
Proof.
  unfold is_prefix. split.
  - intros H. exists (skipn (length p) x). rewrite <- H at 1. symmetry. apply firstn_skipn.
  - intros [r ->]. rewrite firstn_app, Nat.sub_diag, firstn_all. cbn. apply app_nil_r.
Qed.

Lemma is_prefix_refl x : is_prefix x x.
Proof. apply firstn_all. Qed.

Lemma is_prefix_trans p q x : is_prefix p q -> is_prefix q x -> is_prefix p x.
Proof.
  rewrite !is_prefix_app. intros [r ->] [r' ->]. exists (r ++ r'). now rewrite app_assoc.
Qed.

Lemma lcp_bytes_prefix_l a b : is_prefix (lcp_bytes a b) a.
Proof. apply (lcp_firstn_l Z.eqb). Qed.

Lemma lcp_bytes_prefix_r a b : is_prefix (lcp_bytes a b) b.
Proof. apply (lcp_firstn_r Z.eqb Z_eqb_spec). Qed.

Lemma lcp_bytes_greatest : forall p a b, is_prefix p a -> is_prefix p b -> is_prefix p (lcp_bytes a b).
Proof.
  intros p a b. rewrite !is_prefix_app. intros [r ->] [r' ->].
  exists (lcp_bytes r r'). unfold lcp_bytes. apply (lcp_app_same Z.eqb Z_eqb_spec).
Qed.

Lemma fold_lcp_prefix : forall t acc,
  is_prefix (fold_left lcp_bytes t acc) acc /\
  forall k, In k t -> is_prefix (fold_left lcp_bytes t acc) k.
Proof.
  induction t as [|k t IH]; intros acc; cbn [fold_left].
  - split; [apply is_prefix_refl|intros k []].
  - destruct (IH (lcp_bytes acc k)) as [H1 H2]. split.
    + eapply is_prefix_trans; [exact H1|apply lcp_bytes_prefix_l].
    + intros k' [<-|Hk]; [|now apply H2].
      eapply is_prefix_trans; [exact H1|apply lcp_bytes_prefix_r].
Qed.

Lemma fold_lcp_greatest : forall t acc p, is_prefix p acc -> (forall k, In k t -> is_prefix p k) ->
  is_prefix p (fold_left lcp_bytes t acc).
Proof.
  induction t as [|k t IH]; intros acc p Ha Ht; cbn [fold_left]; [exact Ha|].
  apply IH.
  - apply lcp_bytes_greatest; [exact Ha|apply Ht; now left].
  - intros k' Hk'. apply Ht. now right.
Qed.

(** [lcp_all ks] is a prefix of every key of [ks] *)
Theorem lcp_all_common ks k : In k ks -> is_prefix (lcp_all ks) k.
Proof.
  destruct ks as [|k0 t]; [intros []|]. cbn [lcp_all].
  destruct (fold_lcp_prefix t k0) as [H1 H2]. intros [<-|Hk]; [exact H1|now apply H2].
Qed.

(** every common prefix of the keys is a prefix of [lcp_all ks]: it is the longest one *)
Theorem lcp_all_longest ks p : ks <> [] -> (forall k, In k ks -> is_prefix p k) ->
  is_prefix p (lcp_all ks) /\ (length p <= length (lcp_all ks))%nat.
Proof.
  intros Hne H. assert (Hp : is_prefix p (lcp_all ks)).
  { destruct ks as [|k0 t]; [congruence|]. cbn [lcp_all].
    apply fold_lcp_greatest; [apply H; now left|intros k Hk; apply H; now right]. }
  split; [exact Hp|now apply is_prefix_length].
Qed.

(** a single key is its own longest common prefix *)
Lemma lcp_all_single k : lcp_all [k] = k.
Proof. reflexivity. Qed.
