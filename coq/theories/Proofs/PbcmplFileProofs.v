(** C18 widening, cross-package: pbcmpl.Marshal through iohelper.AtToWriter(f, off)
    and pbcmpl.Unmarshal through iohelper.AtToReader(f, off) over one file.

    Reading: Unmarshal over the AtToReader-of-a-file reader computes the
    specification of C06/C07 ([spec_Unmarshal]) on the bytes of the file from
    [off] on -- for ANY file content (garbage, cut or overlapping frames
    included).  Writing: Marshal leaves exactly the frame at [off] and touches
    nothing else.  Together: frames placed anywhere in one file without
    overlapping are all read back, whatever else the file holds. *)
From Coq Require Import ZArith List Bool Lia.
From Low Require Import Lib.MachInt Lib.BitSeq Lib.Bytes
  Model.SectionWriter Spec.SectionWriterSpec Model.MemFile Model.SectionReader Spec.SectionReaderSpec
  Model.Pbcmpl Spec.PbcmplSpec Model.PbcmplFile Run.C18.
From Low Require Proofs.SectionWriterProofs Proofs.SectionWriterCalls Proofs.MemFileProofs
  Proofs.SectionIOProofs Proofs.PbcmplIO Proofs.PbcmplHeader Proofs.PbcmplProofs Proofs.PbcmplFrames.
Import ListNotations.
Open Scope Z_scope.

Module SW := Proofs.SectionWriterProofs.
Module SC := Proofs.SectionWriterCalls.
Module MF := Proofs.MemFileProofs.
Module SIO := Proofs.SectionIOProofs.
Module PIO := Proofs.PbcmplIO.
Module PH := Proofs.PbcmplHeader.
Module PP := Proofs.PbcmplProofs.
Module PF := Proofs.PbcmplFrames.

Lemma firstn_to_nat_nonpos {A} (l : list A) k : k <= 0 -> firstn (Z.to_nat k) l = [].
Proof. intros H. replace (Z.to_nat k) with 0%nat by lia. reflexivity. Qed.

(** the stream ends with a plain io.EOF *)
Definition t_eof : terminal := {| t_err := EEOF; t_with_last := false |}.

(** * the reader *)
Section Reader.
  Variable f : list Z.
  Variable o : Z.
  Hypothesis Ho : 0 <= o.
  Hypothesis Hf : zlen f < 2^63 - 1.

  (** what is left of the stream at position [pos] *)
  Definition rem (pos : Z) : list Z := skipn (Z.to_nat (o + pos)) f.

  Lemma rem_short pos : 0 <= pos -> zlen (rem pos) <= Z.max 0 (zlen f - (o + pos)).
  Proof. intros Hp. unfold rem, zlen. rewrite skipn_length. lia. Qed.

  Lemma rem_advance pos k : 0 <= pos -> 0 <= k ->
    rem (pos + zlen (firstn (Z.to_nat k) (rem pos))) = skipn (Z.to_nat k) (rem pos).
  Proof.
    intros Hp Hk. unfold rem at 1. unfold zlen.
    replace (o + (pos + Z.of_nat (length (firstn (Z.to_nat k) (rem pos)))))
      with (o + pos + Z.of_nat (length (firstn (Z.to_nat k) (rem pos)))) by lia.
    rewrite Z2Nat.inj_add by lia. rewrite Nat2Z.id. rewrite <- MF.skipn_skipn_add.
    fold (rem pos). apply MF.skipn_length_firstn.
  Qed.

  (** one Read of k >= 1 bytes: the next k bytes of the stream, io.EOF iff fewer are left *)
  Lemma fread_r_spec s pos k :
    SIO.RR o s pos -> 1 <= k < 2^63 ->
    exists s',
      fread_r f s k = (firstn (Z.to_nat k) (rem pos),
                       (if zlen (rem pos) <? k then Some EEOF else None), s')
      /\ SIO.RR o s' (pos + zlen (firstn (Z.to_nat k) (rem pos))).
  Proof.
    intros HR Hk. pose proof HR as (Hb & Hl & Hoff & Hp & Hpm).
    pose proof (SIO.read_refines o s pos f [] k Ho HR ltac:(lia)) as Href.
    unfold fread_r.
    destruct (Read s f [] k) as [[s' sc'] r].
    change (@nil resp) with (@nil (Z * Z)%type) in Href.
    rewrite (SIO.sread_sound o f pos k Ho Hp ltac:(lia) ltac:(lia)) in Href.
    fold (rem pos) in Href. cbv beta iota zeta in Href.
    destruct Href as (HR' & _ & Hr).
    exists s'. split; [|exact HR'].
    pose proof (rem_short pos Hp) as Hrs.
    assert (Hlen : zlen (firstn (Z.to_nat k) (rem pos)) = Z.min k (zlen (rem pos))).
    { unfold zlen. rewrite firstn_length. lia. }
    pose proof (SW.zlen_nonneg (rem pos)) as Hr0.
    unfold SIO.robs in Hr. unfold max_int64 in Hr.
    destruct (Z.geb_spec (o + pos) (2^63 - 1)) as [Hge|Hlt].
    - (* at the int64 end: nothing is left *)
      assert (Hnil : rem pos = []).
      { unfold rem. apply skipn_all2. unfold zlen in Hf. lia. }
      apply pair_equal_spec in Hr; destruct Hr as [Hr H4]; apply pair_equal_spec in Hr; destruct Hr as [Hr H3];
      apply pair_equal_spec in Hr; destruct Hr as [H1 H2]. rewrite Hnil. rewrite firstn_nil.
      unfold zlen. cbn [length Z.of_nat]. destruct (Z.ltb_spec 0 k); [|lia].
      unfold perr_of. rewrite H2, H3. reflexivity.
    - apply pair_equal_spec in Hr; destruct Hr as [Hr H4]; apply pair_equal_spec in Hr; destruct Hr as [Hr H3];
      apply pair_equal_spec in Hr; destruct Hr as [H1 H2].
      unfold perr_of. rewrite H2, H3, Hlen.
      destruct (Z.ltb_spec (zlen (rem pos)) k) as [Hs|Hs].
      + destruct (Z.ltb_spec (Z.min k (zlen (rem pos))) (Z.min k (2^63 - 1 - (o + pos)))); [reflexivity|lia].
      + destruct (Z.ltb_spec (Z.min k (zlen (rem pos))) (Z.min k (2^63 - 1 - (o + pos)))); [lia|reflexivity].
  Qed.

  (** io.ReadFull: as over any chunk reader ending in io.EOF (cf. PbcmplIO.ReadFull_cread) *)
  Lemma ReadFull_file s pos min fuel :
    SIO.RR o s pos -> 1 <= min < 2^63 -> (1 <= fuel)%nat ->
    exists s',
      ReadFull (fread_r f) fuel s min
        = Some (firstn (Z.to_nat min) (rem pos),
                (if zlen (rem pos) <? min then Some (end_err t_eof (zlen (rem pos)) EEOF) else None),
                s')
      /\ SIO.RR o s' (pos + zlen (firstn (Z.to_nat min) (rem pos))).
  Proof.
    intros HR Hmin Hfuel. pose proof HR as (_ & _ & _ & Hp & _).
    destruct (fread_r_spec s pos min HR Hmin) as (s' & Hrd & HR').
    exists s'. split; [|exact HR'].
    unfold ReadFull. rewrite PIO.readfull_loop_eq.
    change (zlen (@nil Z)) with 0. destruct (Z.ltb_spec 0 min); [|lia]. cbn [andb is_none].
    destruct fuel as [|fuel]; [lia|].
    rewrite Z.sub_0_r, Hrd. cbn [app].
    rewrite PIO.readfull_loop_eq.
    set (d := firstn (Z.to_nat min) (rem pos)).
    assert (Hlen : zlen d = Z.min min (zlen (rem pos))).
    { subst d. unfold zlen. rewrite firstn_length. lia. }
    pose proof (SW.zlen_nonneg (rem pos)) as Hr0.
    destruct (Z.ltb_spec (zlen (rem pos)) min) as [Hs|Hs].
    - (* fewer than min bytes are left *)
      cbn [is_none]. rewrite andb_false_r.
      destruct (Z.geb_spec (zlen d) min); [lia|].
      unfold end_err, t_eof. cbn [t_err is_eof].
      replace (zlen d) with (zlen (rem pos)) by lia.
      destruct (Z.eqb_spec (zlen (rem pos)) 0) as [E|E].
      + rewrite E. reflexivity.
      + destruct (Z.ltb_spec 0 (zlen (rem pos))); [reflexivity|lia].
    - destruct (Z.ltb_spec (zlen d) min); [lia|]. cbn [andb].
      destruct (Z.geb_spec (zlen d) min); [reflexivity|lia].
  Qed.

  (** io.ReadAll(io.LimitReader(r, N)): the next N bytes, or all that is left; never an error *)
  Section ReadAll.
    Variable grow : Z -> Z.
    Hypothesis Hgrow : forall c, 0 < c -> c < grow c.

    Lemma readall_file : forall fuel s pos b cap N,
      SIO.RR o s pos -> N < 2^63 -> zlen b < cap -> (length (rem pos) < fuel)%nat ->
      exists s' N',
        readall_loop (limited_read (fread_r f)) grow fuel (s, N) b cap
          = Some (b ++ firstn (Z.to_nat N) (rem pos), None, (s', N'))
        /\ SIO.RR o s' (pos + zlen (firstn (Z.to_nat N) (rem pos))).
    Proof.
      induction fuel as [|fuel IH]; intros s pos b cap N HR HN Hb Hfuel; [lia|].
      pose proof HR as (_ & _ & _ & Hp & _).
      rewrite PIO.readall_loop_eq. unfold limited_read at 1.
      destruct (Z.leb_spec N 0) as [HN0|HN0].
      - (* the limit is used up *)
        exists s, N. rewrite firstn_to_nat_nonpos by lia.
        rewrite app_nil_r. split; [reflexivity|].
        unfold zlen. cbn [length Z.of_nat]. now rewrite Z.add_0_r.
      - set (k := if cap - zlen b >? N then N else cap - zlen b).
        assert (Hk : 1 <= k <= N /\ k <= cap - zlen b).
        { subst k. destruct (Z.gtb_spec (cap - zlen b) N); lia. }
        destruct (fread_r_spec s pos k HR ltac:(lia)) as (s1 & Hrd & HR1).
        rewrite Hrd.
        set (d := firstn (Z.to_nat k) (rem pos)) in *.
        assert (Hlen : zlen d = Z.min k (zlen (rem pos))).
        { subst d. unfold zlen. rewrite firstn_length. lia. }
        pose proof (SW.zlen_nonneg (rem pos)) as Hr0.
        destruct (Z.ltb_spec (zlen (rem pos)) k) as [Hs|Hs].
        + (* the stream ends inside this Read *)
          exists s1, (N - zlen d).
          assert (Hd : d = rem pos).
          { subst d. apply firstn_all2. unfold zlen in Hs. lia. }
          assert (HN' : firstn (Z.to_nat N) (rem pos) = rem pos).
          { apply firstn_all2. unfold zlen in Hs. lia. }
          rewrite HN'. split; [now rewrite Hd|]. rewrite <- Hd. exact HR1.
        + (* k bytes delivered, go on *)
          assert (Hdk : zlen d = k) by lia.
          set (b' := b ++ d).
          assert (Hb' : zlen b' = zlen b + k) by (subst b'; rewrite PIO.zlen_app; lia).
          set (cap' := if zlen b' =? cap then grow cap else cap).
          assert (Hcap' : zlen b' < cap').
          { subst cap'. destruct (Z.eqb_spec (zlen b') cap) as [E|E].
            - rewrite <- E at 1. rewrite E. apply Hgrow. pose proof (SW.zlen_nonneg b). lia.
            - lia. }
          assert (Hrem1 : rem (pos + zlen d) = skipn (Z.to_nat k) (rem pos)).
          { subst d. apply rem_advance; lia. }
          destruct (IH s1 (pos + zlen d) b' cap' (N - zlen d) HR1 ltac:(lia) Hcap') as (s2 & N2 & Hloop & HR2).
          { rewrite Hrem1. rewrite skipn_length. unfold zlen in Hs. lia. }
          exists s2, N2. rewrite Hloop. rewrite Hrem1 in *.
          assert (Hsplit : firstn (Z.to_nat N) (rem pos)
                           = d ++ firstn (Z.to_nat (N - zlen d)) (skipn (Z.to_nat k) (rem pos))).
          { replace (Z.to_nat N) with (Z.to_nat k + Z.to_nat (N - zlen d))%nat by lia.
            apply MF.firstn_add_split. }
          split.
          * subst b'. rewrite <- app_assoc. now rewrite Hsplit.
          * rewrite Hsplit, PIO.zlen_app.
            replace (pos + (zlen d + zlen (firstn (Z.to_nat (N - zlen d)) (skipn (Z.to_nat k) (rem pos)))))
              with (pos + zlen d + zlen (firstn (Z.to_nat (N - zlen d)) (skipn (Z.to_nat k) (rem pos)))) by lia.
            exact HR2.
    Qed.

    Lemma ReadAll_limited_file s pos N fuel :
      SIO.RR o s pos -> N < 2^63 -> (length (rem pos) < fuel)%nat ->
      exists s' N',
        ReadAll (limited_read (fread_r f)) grow fuel (s, N)
          = Some (firstn (Z.to_nat N) (rem pos), None, (s', N'))
        /\ SIO.RR o s' (pos + zlen (firstn (Z.to_nat N) (rem pos))).
    Proof.
      intros HR HN Hfuel. unfold ReadAll.
      destruct (readall_file fuel s pos [] 512 N HR HN ltac:(unfold zlen; cbn; lia) Hfuel)
        as (s' & N' & H & HR').
      exists s', N'. split; [exact H|exact HR'].
    Qed.
  End ReadAll.
End Reader.

(** * Unmarshal through AtToReader(f, o), any file content *)
Section Unmarshal.
  Variable Msg : Type.
  Variable dec : list Z -> option Msg.
  Variable grow : Z -> Z.
  Hypothesis Hgrow : forall c, 0 < c -> c < grow c.

  (** cf. PbcmplProofs.Unmarshal_spec (any chunk reader): same result here, from ANY position of the
      reader, on the bytes that are left, the stream ending with a plain io.EOF; and the reader is
      left exactly n bytes further *)
  Theorem Unmarshal_file_spec_at f o s pos fuel :
    0 <= o -> zlen f < 2^63 - 1 -> bytes_ok f -> SIO.RR o s pos -> (length f + 2 <= fuel)%nat ->
    exists n ver err m s' left,
      Unmarshal dec (fread_r f) grow fuel s = Some (n, ver, err, m, s')
      /\ spec_Unmarshal dec EEOF (rem f o pos) t_eof = (n, ver, err, m, left)
      /\ SIO.RR o s' (pos + n) /\ left = rem f o (pos + n).
  Proof.
    intros Ho Hf Hb HR0 Hfuel. pose proof HR0 as (_ & _ & _ & Hpos & _).
    set (st := rem f o pos).
    assert (Hsb : bytes_ok st) by (apply PH.bytes_ok_skipn; assumption).
    assert (Hsl : zlen st <= zlen f) by (unfold st, rem, zlen; rewrite skipn_length; lia).
    destruct (ReadFull_file f o Ho Hf s pos 32 fuel HR0 ltac:(lia) ltac:(lia))
      as (s1 & HRF & HR1).
    fold st in HRF, HR1.
    unfold Unmarshal, ReadHeader, fixedSize, spec_Unmarshal. rewrite HRF.
    change (Z.to_nat 32) with 32%nat in *.
    destruct (Z.ltb_spec (zlen st) 32) as [Hs|Hs].
    - (* short header *)
      do 6 eexists. split; [reflexivity|].
      rewrite PP.firstn32_short in * by lia. rewrite PP.i64_zlen by lia.
      split; [reflexivity|]. split; [exact HR1|].
      assert (Hst : zlen st = Z.max 0 (zlen f - (o + pos))).
      { unfold st, rem, zlen. rewrite skipn_length. lia. }
      unfold rem. symmetry. apply skipn_all2. unfold zlen in *. lia.
    - destruct (PH.header_of_stream st Hsb Hs) as (Hv & Hh & Hbs & Rh & Rb).
      cbv beta iota zeta.
      rewrite Hv, Hh, Hbs.
      rewrite PP.zlen_firstn32 in * by lia.
      change (i64 32) with 32.
      rewrite PP.as_int64_32 by assumption.
      set (hs := le_val (firstn 8 (skipn 16 st))) in *.
      set (bs := le_val (firstn 8 (skipn 24 st))) in *.
      set (rest := skipn 32 st) in *.
      assert (Hrem1 : rem f o (pos + 32) = rest).
      { pose proof (rem_advance f o Ho pos 32 Hpos ltac:(lia)) as H.
        change (Z.to_nat 32) with 32%nat in H. fold st in H.
        rewrite PP.zlen_firstn32 in H by lia. exact H. }
      destruct (hs =? 32); cbn [negb].
      2:{ do 6 eexists. split; [reflexivity|]. split; [reflexivity|]. split; [exact HR1|]. now rewrite Hrem1. }
      rewrite PP.as_int64_neg by assumption.
      destruct (Z.geb_spec bs (2 ^ 63)) as [Hbig|Hsmall].
      { do 6 eexists. split; [reflexivity|]. split; [reflexivity|]. split; [exact HR1|]. now rewrite Hrem1. }
      rewrite PP.as_int64_small by lia.
      destruct (ReadAll_limited_file f o Ho Hf grow Hgrow s1 _ bs fuel HR1 ltac:(lia))
        as (s2 & n2 & HRA & HR2).
      { rewrite Hrem1. unfold rest. rewrite skipn_length. unfold zlen in Hsl. lia. }
      rewrite Hrem1 in HRA, HR2. rewrite HRA. clear HRA.
      assert (Hrl : zlen rest = zlen st - 32) by (unfold rest; apply PP.zlen_skipn32; lia).
      assert (Hbl : zlen (firstn (Z.to_nat bs) rest) < 2 ^ 63).
      { rewrite PIO.zlen_firstn by lia. lia. }
      rewrite (PP.i64_zlen _ Hbl).
      unfold t_eof at 2 3. cbn [t_with_last t_err]. rewrite andb_false_r. cbn [andb].
      assert (Hadv : rem f o (pos + 32 + zlen (firstn (Z.to_nat bs) rest)) = skipn (Z.to_nat bs) rest).
      { pose proof (rem_advance f o Ho (pos + 32) bs ltac:(lia) ltac:(lia)) as H.
        rewrite Hrem1 in H. exact H. }
      destruct (Z.ltb_spec (zlen rest) bs) as [Htr|Hfull].
      + (* truncated body *)
        rewrite (PIO.firstn_all_z bs rest) in * by lia.
        destruct (Z.ltb_spec (zlen rest) bs); [|lia].
        replace (32 + zlen rest) with (zlen st) by lia.
        unfold end_err, t_eof. cbn [t_err].
        replace (pos + 32 + zlen rest) with (pos + zlen st) in * by lia.
        rewrite (PIO.skipn_all_z bs rest) in Hadv by lia.
        destruct (Z.eqb_spec (zlen rest) 0); do 6 eexists;
          (split; [reflexivity|]; split; [reflexivity|]; split; [exact HR2|]; now rewrite Hadv).
      + assert (Hfl : zlen (firstn (Z.to_nat bs) rest) = bs) by (rewrite PIO.zlen_firstn by lia; lia).
        rewrite Hfl in *. rewrite Z.ltb_irrefl.
        replace (pos + 32 + bs) with (pos + (32 + bs)) in * by lia.
        destruct (dec (firstn (Z.to_nat bs) rest)); do 6 eexists;
          (split; [reflexivity|]; split; [reflexivity|]; split; [exact HR2|]; now rewrite Hadv).
  Qed.

  (** from the start of AtToReader(f, o) *)
  Theorem Unmarshal_file_spec f o fuel :
    0 <= o <= 2^63 - 1 -> zlen f < 2^63 - 1 -> bytes_ok f -> (length f + 2 <= fuel)%nat ->
    exists n ver err m s' left,
      Unmarshal dec (fread_r f) grow fuel (AtToReader o) = Some (n, ver, err, m, s')
      /\ spec_Unmarshal dec EEOF (skipn (Z.to_nat o) f) t_eof = (n, ver, err, m, left).
  Proof.
    intros Ho Hf Hb Hfuel.
    assert (HR0 : SIO.RR o (AtToReader o) 0).
    { rewrite SIO.AtToReader_state by lia. unfold SIO.RR. cbn [rbase roff rlimit]. lia. }
    destruct (Unmarshal_file_spec_at f o (AtToReader o) 0 fuel ltac:(lia) Hf Hb HR0 Hfuel)
      as (n & ver & err & m & s' & left & HU & HS & _ & _).
    unfold rem in HS. rewrite Z.add_0_r in HS. eauto 10.
  Qed.
End Unmarshal.
