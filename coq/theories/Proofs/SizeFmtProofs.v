(** Proofs about the text formatting of size.Stat (C20 widening, Model/SizeFmt.v):
    the printed average is the exact quotient to within half a unit of the
    third decimal plus the rounding of the float64 division; [%d] prints the
    number. *)
From Coq Require Import ZArith List Bool Lia.
From Low Require Import Model.SizeFmt.
Import ListNotations.
Open Scope Z_scope.

Lemma rhe_bound num den : 0 <= num -> 0 < den ->
  Z.abs (2 * rhe num den * den - 2 * num) <= den.
Proof.
  intros Hn Hd. unfold rhe.
  pose proof (Z.div_mod num den ltac:(lia)) as E.
  pose proof (Z.mod_pos_bound num den Hd) as B.
  set (q := num / den) in *. set (r := num mod den) in *.
  assert (Eq : forall q', 2 * q' * den - 2 * num = 2 * (q' - q) * den - 2 * r).
  { intros q'. rewrite E at 1. ring. }
  destruct (2 * r <? den) eqn:C1.
  - apply Z.ltb_lt in C1. rewrite Eq. replace (q - q) with 0 by ring. lia.
  - apply Z.ltb_ge in C1. destruct (den <? 2 * r) eqn:C2.
    + apply Z.ltb_lt in C2. rewrite Eq. replace (q + 1 - q) with 1 by ring. lia.
    + apply Z.ltb_ge in C2. destruct (Z.even q).
      * rewrite Eq. replace (q - q) with 0 by ring. lia.
      * rewrite Eq. replace (q + 1 - q) with 1 by ring. lia.
Qed.

Lemma rhe_0 den : 0 < den -> rhe 0 den = 0.
Proof.
  intros H. unfold rhe. rewrite Z.div_0_l, Z.mod_0_l by lia.
  replace (2 * 0 <? den) with true by (symmetry; apply Z.ltb_lt; lia). reflexivity.
Qed.

(** scale2 with both components written with [max] *)
Definition pa (e : Z) : Z := 2 ^ Z.max 0 (- e).
Definition pb (e : Z) : Z := 2 ^ Z.max 0 e.

Lemma scale2_eq num den e : scale2 num den e = (num * pa e, den * pb e).
Proof.
  unfold scale2, pa, pb. destruct (0 <=? e) eqn:C.
  - apply Z.leb_le in C. rewrite (Z.max_l 0 (- e)) by lia. rewrite (Z.max_r 0 e) by lia.
    rewrite Z.pow_0_r, Z.mul_1_r. reflexivity.
  - apply Z.leb_gt in C. rewrite (Z.max_r 0 (- e)) by lia. rewrite (Z.max_l 0 e) by lia.
    rewrite Z.pow_0_r, Z.mul_1_r. reflexivity.
Qed.

Lemma pa_pos e : 0 < pa e. Proof. unfold pa. apply Z.pow_pos_nonneg; lia. Qed.
Lemma pb_pos e : 0 < pb e. Proof. unfold pb. apply Z.pow_pos_nonneg; lia. Qed.

(** pa e1 * pa e2 * ... : exponents add *)
Lemma pow_bal x y z x' y' z' :
  0 <= x -> 0 <= y -> 0 <= z -> 0 <= x' -> 0 <= y' -> 0 <= z' ->
  x + y + z = x' + y' + z' ->
  2 ^ x * 2 ^ y * 2 ^ z = 2 ^ x' * 2 ^ y' * 2 ^ z'.
Proof.
  intros. rewrite <- !Z.pow_add_r by lia. f_equal. lia.
Qed.

(** the arithmetic core *)
Lemma avg_core (s n m T a b a' b' Un Ud : Z) :
  0 < s -> 0 < n -> 0 <= m -> 0 < a -> 0 < b -> 0 < a' -> 0 < b' -> 0 < Un -> 0 < Ud ->
  a * a' * Un = b * b' * Ud ->
  2 ^ 52 * (n * b) <= s * a ->
  Z.abs (2 * m * (n * b) - 2 * (s * a)) <= n * b ->
  Z.abs (2 * T * b' - 2 * (1000 * m * a')) <= b' ->
  Z.abs (2 * 2 ^ 53 * T * n * Un - 2000 * 2 ^ 53 * s * Ud) <= 2 ^ 53 * n * Un + 2000 * s * Ud.
Proof.
  intros Hs Hn Hm Ha Hb Ha' Hb' HUn HUd K R0 R1 R2.
  change (2 ^ 53) with (2 * 2 ^ 52). set (Q := 2 ^ 52) in *. assert (HQ : 0 < Q) by (unfold Q; lia).
  set (A := 2 * T * b' - 2 * (1000 * m * a')) in *.
  set (B := 2 * m * (n * b) - 2 * (s * a)) in *.
  set (E := 2 * (2 * Q) * T * n * Un - 2000 * (2 * Q) * s * Ud).
  set (c := b' * (n * b)). assert (Hc : 0 < c) by (unfold c; nia).
  assert (Hid : E * c = (2 * Q) * n * Un * (n * b) * A + 1000 * n * Un * a' * ((2 * Q) * B)).
  { assert (D : E * c - ((2 * Q) * n * Un * (n * b) * A + 1000 * n * Un * a' * ((2 * Q) * B))
                = 2000 * (2 * Q) * n * s * (a * a' * Un - b * b' * Ud)).
    { unfold E, c, A, B. ring. }
    rewrite K in D. rewrite Z.sub_diag, Z.mul_0_r in D. lia. }
  assert (HB : (2 * Q) * Z.abs B <= 2 * (s * a)).
  { assert (Q * Z.abs B <= Q * (n * b)) by (apply Z.mul_le_mono_nonneg_l; lia). lia. }
  assert (HX : Z.abs ((2 * Q) * n * Un * (n * b) * A) <= (2 * Q) * n * Un * (n * b) * b').
  { rewrite Z.abs_mul. rewrite (Z.abs_eq ((2 * Q) * n * Un * (n * b))) by nia.
    apply Z.mul_le_mono_nonneg_l; [nia|exact R2]. }
  assert (HY : Z.abs (1000 * n * Un * a' * ((2 * Q) * B)) <= 1000 * n * Un * a' * (2 * (s * a))).
  { rewrite Z.abs_mul. rewrite (Z.abs_eq (1000 * n * Un * a')) by nia.
    apply Z.mul_le_mono_nonneg_l; [nia|]. rewrite Z.abs_mul, (Z.abs_eq (2 * Q)) by lia. exact HB. }
  assert (HR : ((2 * Q) * n * Un + 2000 * s * Ud) * c
               = (2 * Q) * n * Un * (n * b) * b' + 1000 * n * Un * a' * (2 * (s * a))).
  { assert (D : ((2 * Q) * n * Un + 2000 * s * Ud) * c
                - ((2 * Q) * n * Un * (n * b) * b' + 1000 * n * Un * a' * (2 * (s * a)))
                = 2000 * n * s * (b * b' * Ud - a * a' * Un)).
    { unfold c. ring. }
    rewrite K in D. rewrite Z.sub_diag, Z.mul_0_r in D. lia. }
  apply (Z.mul_le_mono_pos_r _ _ c Hc).
  rewrite HR. rewrite <- (Z.abs_eq c) at 1 by lia. rewrite <- Z.abs_mul. fold E. rewrite Hid.
  eapply Z.le_trans; [apply Z.abs_triangle|]. lia.
Qed.

Lemma rhe_nonneg num den : 0 <= num -> 0 < den -> 0 <= rhe num den.
Proof.
  intros Hn Hd. unfold rhe. assert (0 <= num / den) by (apply Z.div_pos; lia).
  destruct (2 * (num mod den) <? den); [lia|]. destruct (den <? 2 * (num mod den)); [lia|].
  destruct (Z.even (num / den)); lia.
Qed.

(** normalisation reached by the second branch of fdiv *)
Lemma norm_low s n : 0 < s -> 0 < n ->
  let e := Z.log2 s - Z.log2 n - 53 in
  2 ^ 52 * (n * pb e) <= s * pa e.
Proof.
  intros Hs Hn e.
  pose proof (Z.log2_spec s Hs) as [Ls _]. pose proof (Z.log2_spec n Hn) as [_ Ln].
  pose proof (Z.log2_nonneg s) as Ps. pose proof (Z.log2_nonneg n) as Pn.
  set (ls := Z.log2 s) in *. set (ln := Z.log2 n) in *.
  unfold pa, pb. destruct (Z_le_dec 0 e) as [He|He].
  - rewrite (Z.max_r 0 e), (Z.max_l 0 (- e)) by lia. rewrite Z.pow_0_r, Z.mul_1_r.
    assert (P0 : 0 <= 2 ^ (52 + e)) by (apply Z.pow_nonneg; lia).
    assert (E1 : 2 ^ 52 * (n * 2 ^ e) = n * 2 ^ (52 + e)) by (rewrite Z.pow_add_r by lia; ring).
    assert (E2 : 2 ^ Z.succ ln * 2 ^ (52 + e) = 2 ^ ls).
    { rewrite <- Z.pow_add_r by lia. f_equal. unfold e. lia. }
    rewrite E1. apply Z.le_trans with (2 ^ ls); [|exact Ls]. rewrite <- E2.
    apply Z.mul_le_mono_nonneg_r; [exact P0|lia].
  - rewrite (Z.max_l 0 e), (Z.max_r 0 (- e)) by lia. rewrite Z.pow_0_r, Z.mul_1_r.
    apply Z.le_trans with (2 ^ 52 * 2 ^ Z.succ ln); [apply Z.mul_le_mono_nonneg_l; lia|].
    apply Z.le_trans with (2 ^ ls * 2 ^ (- e)); [|apply Z.mul_le_mono_nonneg_r; [apply Z.pow_nonneg; lia|exact Ls]].
    rewrite <- !Z.pow_add_r by lia. apply Z.pow_le_mono_r; [lia|]. unfold e. lia.
Qed.

Lemma fdiv_props s n : 0 < s -> 0 < n ->
  let '(m, e) := fdiv s n in
  0 <= m /\ 2 ^ 52 * (n * pb e) <= s * pa e /\
  Z.abs (2 * m * (n * pb e) - 2 * (s * pa e)) <= n * pb e.
Proof.
  intros Hs Hn. unfold fdiv.
  replace (s =? 0) with false by (symmetry; apply Z.eqb_neq; lia).
  set (e0 := Z.log2 s - Z.log2 n - 52).
  rewrite !scale2_eq.
  pose proof (pa_pos e0). pose proof (pb_pos e0). pose proof (pa_pos (e0 - 1)). pose proof (pb_pos (e0 - 1)).
  destruct (s * pa e0 / (n * pb e0) <? 2 ^ 52) eqn:C.
  - split; [apply rhe_nonneg; nia|]. split.
    + replace (e0 - 1) with (Z.log2 s - Z.log2 n - 53) by (unfold e0; lia). apply norm_low; assumption.
    + apply rhe_bound; nia.
  - apply Z.ltb_ge in C. split; [apply rhe_nonneg; nia|]. split.
    + apply Z.le_trans with ((n * pb e0) * (s * pa e0 / (n * pb e0))).
      * rewrite (Z.mul_comm (2 ^ 52)). apply Z.mul_le_mono_nonneg_l; [nia|exact C].
      * apply Z.mul_div_le. nia.
    + apply rhe_bound; nia.
Qed.

Definition unit_exp (k : option Z) : Z := match k with None => 0 | Some k => k end.
Definition unit_num (k : option Z) : Z := 2 ^ Z.max 0 (unit_exp k).
Definition unit_den (k : option Z) : Z := 2 ^ Z.max 0 (- unit_exp k).

(** The printed average T/1000 and the exact quotient x = s / (n * unit), unit = unit_num/unit_den = 2^k:
        | T/1000 - x |  <=  1/2000 + x / 2^53
    (half a unit of the third decimal, plus the rounding of the float64 division), multiplied out by
    2000 * 2^53 * n * unit_num. *)
Theorem avg_accuracy : forall s n k, 0 <= s -> 0 < n ->
  let T := avg_thousandths s n k in
  Z.abs (2 * 2 ^ 53 * T * n * unit_num k - 2000 * 2 ^ 53 * s * unit_den k)
  <= 2 ^ 53 * n * unit_num k + 2000 * s * unit_den k.
Proof.
  intros s n k Hs Hn T.
  assert (HUn : 0 < unit_num k) by (apply Z.pow_pos_nonneg; lia).
  assert (HUd : 0 < unit_den k) by (apply Z.pow_pos_nonneg; lia).
  destruct (Z.eq_dec s 0) as [->|Hs0].
  - (* s = 0: prints 0.000 *)
    assert (T = 0).
    { unfold T, avg_thousandths, fdiv. cbn [Z.eqb]. unfold thousandths. rewrite scale2_eq.
      rewrite !Z.mul_0_l, Z.mul_1_l. apply rhe_0. apply pb_pos. }
    rewrite H. rewrite !Z.mul_0_r, !Z.mul_0_l. cbn [Z.sub Z.abs Z.opp]. nia.
  - assert (Hs' : 0 < s) by lia.
    pose proof (fdiv_props s n Hs' Hn) as F.
    unfold T, avg_thousandths. destruct (fdiv s n) as [m e]. destruct F as [Hm [R0 R1]].
    set (e' := match k with None => e | Some k0 => e - k0 end).
    assert (He' : e' = e - unit_exp k) by (unfold e', unit_exp; destruct k; lia).
    unfold thousandths. rewrite scale2_eq.
    pose proof (pa_pos e). pose proof (pb_pos e). pose proof (pa_pos (- e')). pose proof (pb_pos (- e')).
    apply (avg_core s n m _ (pa e) (pb e) (pa (- e')) (pb (- e')) (unit_num k) (unit_den k)); try assumption.
    + unfold pa, pb, unit_num, unit_den. apply pow_bal; lia.
    + replace (2 * (1000 * m * pa (- e'))) with (2 * (m * 1000 * pa (- e'))) by ring.
      replace (2 * rhe (m * 1000 * pa (- e')) (1 * pb (- e')) * pb (- e'))
        with (2 * rhe (m * 1000 * pa (- e')) (1 * pb (- e')) * (1 * pb (- e'))) by ring.
      rewrite <- (Z.mul_1_l (pb (- e'))) at 3.
      apply rhe_bound; nia.
Qed.

(** * %d prints the number *)
Definition digits_value (l : list Z) : Z := fold_left (fun a d => 10 * a + (d - 48)) l 0.

Lemma dec_go_value : forall fuel n acc a0,
  0 <= n < 10 ^ Z.of_nat fuel -> (0 < fuel)%nat -> a0 = 0 ->
  fold_left (fun a d => 10 * a + (d - 48)) (dec_go fuel n acc) a0 =
  fold_left (fun a d => 10 * a + (d - 48)) acc n.
Proof.
  induction fuel as [|f IH]; intros n acc a0 Hn Hf ->; [lia|].
  cbn [dec_go]. destruct (n <? 10) eqn:C.
  - cbn [fold_left]. unfold digit. f_equal. lia.
  - apply Z.ltb_ge in C.
    assert (Hf' : (0 < f)%nat).
    { destruct f; [|lia]. cbn in Hn. lia. }
    rewrite IH; try lia.
    + cbn [fold_left]. unfold digit. f_equal.
      pose proof (Z.div_mod n 10 ltac:(lia)). lia.
    + split; [apply Z.div_pos; lia|].
      apply Z.div_lt_upper_bound; [lia|].
      rewrite Nat2Z.inj_succ, Z.pow_succ_r in Hn by lia. lia.
Qed.

Theorem dec_denotes : forall n, 0 <= n < 10 ^ 40 -> digits_value (dec n) = n.
Proof.
  intros n Hn. unfold dec, dec_nat, digits_value.
  replace (n <? 0) with false by (symmetry; apply Z.ltb_ge; lia).
  rewrite (dec_go_value 40 n [] 0); [reflexivity| |lia|reflexivity].
  exact Hn.
Qed.
