(** Proofs for C02, widened: the library's select composed with the library's rank
    (Rank64 / Rank128 of C01) in both directions. *)
From Coq Require Import ZArith List Lia Bool ZifyNat.
From Low Require Import Lib.MachInt Lib.Bits Lib.BitSeq Lib.BitsExtra_c02 Model.Rank Model.Select
  Spec.RankSpec Spec.SelectSpec Spec.SelectRankSpec Proofs.RankProofs Proofs.SelectProofs Proofs.SelectMain.
Import ListNotations.
Open Scope Z_scope.

(** * filtering a sorted list of 1-positions = skipping the 1s of a prefix *)
Lemma filter_none {A} (f : A -> bool) l : (forall x, In x l -> f x = false) -> filter f l = [].
Proof.
  induction l as [|x l IH]; intros H; [reflexivity|].
  cbn [filter]. rewrite (H x) by (now left). apply IH. intros y Hy. apply H. now right.
Qed.

Lemma filter_all {A} (f : A -> bool) l : (forall x, In x l -> f x = true) -> filter f l = l.
Proof.
  induction l as [|x l IH]; intros H; [reflexivity|].
  cbn [filter]. rewrite (H x) by (now left). f_equal. apply IH. intros y Hy. apply H. now right.
Qed.

Lemma ones_from_filter_ge b l q : (q <= length l)%nat ->
  filter (fun x => b + Z.of_nat q <=? x) (ones_from b l) =
  skipn (length (ones_from b (firstn q l))) (ones_from b l).
Proof.
  intros Hq. rewrite ones_from_skipn by exact Hq.
  rewrite <- (firstn_skipn q l) at 1. rewrite ones_from_app, filter_app.
  rewrite firstn_length_le by exact Hq.
  rewrite filter_none, filter_all; [reflexivity| |].
  - intros x Hx. apply ones_from_lb in Hx. lia.
  - intros x Hx. apply ones_from_lb in Hx. rewrite firstn_length_le in Hx by exact Hq. lia.
Qed.

Lemma all_ones_filter_ge ws p : 0 <= p <= 64 * zlen ws ->
  filter (fun q => p <=? q) (all_ones ws) = skipn (Z.to_nat (rank1z (flat ws) p)) (all_ones ws).
Proof.
  intros Hp. unfold all_ones, ones, rank1z, rank1, zlen in *.
  pose proof (ones_from_filter_ge 0 (flat ws) (Z.to_nat p)) as H.
  rewrite flat_length in H. specialize (H ltac:(lia)).
  replace (0 + Z.of_nat (Z.to_nat p)) with p in H by lia. rewrite H. f_equal.
  rewrite <- (ones_from_length 0). now rewrite Nat2Z.id.
Qed.

(** * select (rank p) = the first 1-bit at or after p *)
Theorem select_after_rank ws p : 0 <= p <= 64 * zlen ws ->
  rank1z (flat ws) p < zlen (all_ones ws) ->
  spec_Select ws (rank1z (flat ws) p) = spec_SelectFrom ws p.
Proof.
  intros Hp Hr. unfold spec_SelectFrom. rewrite all_ones_filter_ge by exact Hp.
  set (r := rank1z (flat ws) p) in *.
  assert (Hr0 : 0 <= r) by (unfold r, rank1z, rank1; apply count_true_nonneg).
  unfold spec_Select. cbv zeta. unfold zlen in *.
  pose proof (skipn_length (Z.to_nat r) (all_ones ws)) as Hlen.
  assert (Hn : forall j, nth j (skipn (Z.to_nat r) (all_ones ws)) 0 = nth (Z.to_nat r + j) (all_ones ws) 0)
    by (intros j; apply nth_skipn).
  destruct (skipn (Z.to_nat r) (all_ones ws)) as [|a [|b t]] eqn:E; cbn [length] in Hlen.
  - lia.
  - pose proof (Hn 0%nat) as H0. cbn [nth] in H0. rewrite Nat.add_0_r in H0. rewrite <- H0.
    destruct (Z.ltb_spec (r + 1) (Z.of_nat (length (all_ones ws)))); [lia|reflexivity].
  - pose proof (Hn 0%nat) as H0. pose proof (Hn 1%nat) as H1. cbn [nth] in H0, H1.
    rewrite Nat.add_0_r in H0. rewrite <- H0.
    destruct (Z.ltb_spec (r + 1) (Z.of_nat (length (all_ones ws)))); [|lia].
    replace (Z.to_nat (r + 1)) with (Z.to_nat r + 1)%nat by lia. now rewrite <- H1.
Qed.

(** and that value really is the least 1-position >= p *)
Theorem select_after_rank_least ws p : 0 <= p ->
  rank1z (flat ws) p < zlen (all_ones ws) ->
  let a := fst (spec_Select ws (rank1z (flat ws) p)) in
  p <= a < 64 * zlen ws /\ bitz (flat ws) a = true /\
  (forall q, p <= q < a -> bitz (flat ws) q = false) /\
  (bitz (flat ws) p = true -> a = p).
Proof.
  intros Hp Hr a.
  assert (Hr0 : 0 <= rank1z (flat ws) p) by (unfold rank1z, rank1; apply count_true_nonneg).
  destruct (spec_Select_fst ws _ (conj Hr0 Hr)) as (Ha & Hra & Hba). fold a in Ha, Hra, Hba.
  pose proof (bitz_nth_error _ _ (proj1 Ha) Hba) as Hna.
  unfold rank1z in *.
  assert (Hpa : p <= a).
  { destruct (Z.le_gt_cases p a) as [|Hlt]; [assumption|exfalso].
    pose proof (rank1_mono (flat ws) (S (Z.to_nat a)) (Z.to_nat p) ltac:(lia)).
    rewrite rank1_succ_set in * by exact Hna. lia. }
  assert (Hzero : forall q, p <= q < a -> bitz (flat ws) q = false).
  { intros q Hq. destruct (bitz (flat ws) q) eqn:Eb; [exfalso|reflexivity].
    pose proof (bitz_nth_error (flat ws) q ltac:(lia) Eb) as Hnq.
    pose proof (rank1_mono (flat ws) (S (Z.to_nat q)) (Z.to_nat a) ltac:(lia)).
    pose proof (rank1_mono (flat ws) (Z.to_nat p) (Z.to_nat q) ltac:(lia)).
    rewrite rank1_succ_set in * by exact Hnq. lia. }
  repeat split; try assumption; try lia.
  intros Hbp. destruct (Z.eq_dec a p) as [|Hne]; [assumption|exfalso].
  rewrite (Hzero p ltac:(lia)) in Hbp. discriminate.
Qed.

(** * the model composites *)
Theorem Select32_after_Rank64 ws tr sidx p r b : words_ok ws -> IndexSelect32 ws = Some sidx ->
  0 <= p < 64 * zlen ws -> Rank64 ws (IndexRank64 ws tr) p = Some (r, b) ->
  r < zlen (all_ones ws) ->
  Select32 ws sidx r = Some (spec_SelectFrom ws p).
Proof.
  intros Hok Hs Hp Hrk Hr. rewrite Rank64_exact in Hrk by assumption.
  unfold spec_Rank in Hrk. injection Hrk as Er _. subst r.
  assert (0 <= rank1z (flat ws) p) by (unfold rank1z, rank1; apply count_true_nonneg).
  rewrite (Select32_indexed ws sidx _ Hok Hs) by lia.
  f_equal. apply select_after_rank; lia.
Qed.

Theorem Select32R64_after_Rank128 ws sidx ridx p r b : words_ok ws ->
  IndexSelect32R64 ws = Some (sidx, ridx) ->
  0 <= p < 64 * zlen ws -> Rank128 ws (IndexRank128 ws) p = Some (r, b) ->
  r < zlen (all_ones ws) ->
  Select32R64 ws sidx ridx r = Some (spec_SelectFrom ws p).
Proof.
  intros Hok Hs Hp Hrk Hr. rewrite Rank128_exact in Hrk by assumption.
  unfold spec_Rank in Hrk. injection Hrk as Er _. subst r.
  assert (0 <= rank1z (flat ws) p) by (unfold rank1z, rank1; apply count_true_nonneg).
  rewrite (Select32R64_indexed ws sidx ridx _ Hok Hs) by lia.
  f_equal. apply select_after_rank; lia.
Qed.

Theorem Rank128_Select32 ws sidx i a b : words_ok ws -> IndexSelect32 ws = Some sidx ->
  0 <= i < zlen (all_ones ws) -> Select32 ws sidx i = Some (a, b) ->
  Rank128 ws (IndexRank128 ws) a = Some (i, 1).
Proof.
  intros Hok Hs Hi Hsel. rewrite (Select32_indexed ws sidx i Hok Hs Hi) in Hsel.
  injection Hsel as Ea Eb.
  pose proof (spec_Select_fst ws i Hi) as HF. unfold spec_Select in HF. cbv zeta in HF.
  cbn [fst] in HF. rewrite Ea in HF.
  destruct HF as (Ha & Hr & Hb).
  rewrite Rank128_exact by assumption. unfold spec_Rank. rewrite Hr, Hb. reflexivity.
Qed.

Theorem Rank128_Select32R64 ws sidx ridx i a b : words_ok ws ->
  IndexSelect32R64 ws = Some (sidx, ridx) ->
  0 <= i < zlen (all_ones ws) -> Select32R64 ws sidx ridx i = Some (a, b) ->
  Rank128 ws (IndexRank128 ws) a = Some (i, 1).
Proof.
  intros Hok Hs Hi Hsel. rewrite (Select32R64_indexed ws sidx ridx i Hok Hs Hi) in Hsel.
  injection Hsel as Ea Eb.
  pose proof (spec_Select_fst ws i Hi) as HF. unfold spec_Select in HF. cbv zeta in HF.
  cbn [fst] in HF. rewrite Ea in HF.
  destruct HF as (Ha & Hr & Hb).
  rewrite Rank128_exact by assumption. unfold spec_Rank. rewrite Hr, Hb. reflexivity.
Qed.

(** the domain test used by the protocol operations agrees with the hypothesis of the theorems *)
Lemma has_one_from_rank ws p : 0 <= p <= 64 * zlen ws ->
  has_one_from ws p = true <-> rank1z (flat ws) p < zlen (all_ones ws).
Proof.
  intros Hp. unfold has_one_from.
  assert (Hr0 : 0 <= rank1z (flat ws) p) by (unfold rank1z, rank1; apply count_true_nonneg).
  pose proof (all_ones_filter_ge ws p Hp) as HF.
  pose proof (skipn_length (Z.to_nat (rank1z (flat ws) p)) (all_ones ws)) as HL.
  rewrite <- HF in HL. unfold zlen. split.
  - intros H. apply existsb_exists in H. destruct H as (x & Hx & Hpx).
    assert (In x (filter (fun q => p <=? q) (all_ones ws))) by (apply filter_In; auto).
    destruct (filter (fun q => p <=? q) (all_ones ws)); [contradiction|]. cbn [length] in HL. lia.
  - intros H. destruct (filter (fun q => p <=? q) (all_ones ws)) as [|x t] eqn:E; cbn [length] in HL; [lia|].
    assert (Hin : In x (filter (fun q => p <=? q) (all_ones ws))) by (rewrite E; now left).
    apply filter_In in Hin. apply existsb_exists. exists x. exact Hin.
Qed.
