(** Equality of the definition generated from the Go source of bmtree.shiftMulti (coq/gen/Trans.v) and the model:
    a loop, translated as recursion on explicit fuel (the first argument of the generated definition). *)
From Coq Require Import ZArith List Lia Bool.
From Low Require Import Lib.MachInt Lib.Bits Lib.BitSeq Lib.TransLib Proofs.TransEqLemmas.
From Low Require Import Model.BmtreeIndex.
From LowGen Require Trans.
Import ListNotations.
Open Scope Z_scope.

(** for every fuel: the generated function is the model's prologue followed by the model's loop on the same fuel *)
Lemma TransEq_bmtree_shiftMulti_fuel fuel a b shift : in_u64 b ->
  Trans.bmtree_shiftMulti fuel a b shift =
  shiftMulti_loop fuel a (shr64 b (tz64 b)) (u64 (shift - tz64 b)) 0.
Proof.
  unfold in_u64. intros Hb. unfold Trans.bmtree_shiftMulti. cbv zeta.
  pose proof (tz64_range b Hb) as Ht.
  rewrite (u64_id (tz64 b)) by lia.
  match goal with |- ?K fuel ?x ?y ?z = _ =>
    assert (G : forall n b0 sh rst, 0 <= b0 < 2 ^ 64 -> K n b0 sh rst = shiftMulti_loop n a b0 sh rst) end.
  { induction n as [|n IH]; intros b0 sh rst Hb0; [reflexivity|].
    cbn [shiftMulti_loop]. cbv beta iota zeta fix.
    destruct (b0 =? 0) eqn:E; cbn [negb]; [reflexivity|].
    pose proof (u64_range (b0 - 1)) as Hr.
    pose proof (tz64_range (u64 (b0 - 1)) Hr) as Ht'.
    rewrite (u64_id (tz64 (u64 (b0 - 1)))) by lia.
    apply IH. apply shr64_range; lia. }
  apply G. apply shr64_range; lia.
Qed.

(** the model runs its loop on 65 units of fuel *)
Lemma TransEq_bmtree_shiftMulti a b shift : in_u64 b ->
  Trans.bmtree_shiftMulti 65 a b shift = shiftMulti a b shift.
Proof.
  intros Hb. rewrite TransEq_bmtree_shiftMulti_fuel by exact Hb.
  (* unfold first: comparing the two 65-fold unrollings by conversion does not terminate in practice *)
  unfold shiftMulti. cbv zeta. reflexivity.
Qed.
