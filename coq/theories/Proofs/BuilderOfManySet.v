(** C12: on the whole non-panic domain of OfMany (positions at or past a segment's size in any segment, so the
    shifted concatenation need not be ascending) OfMany and a Builder fed the same segments hold the same SET of
    bits: equal up to trailing zero words, Offset = the sum of the sizes. *)
From Coq Require Import ZArith List Lia Bool Sorted.
From Low Require Import Lib.MachInt Lib.Bits Lib.BitSeq Lib.BitsExtra_bm2 Lib.BitsExtra_bm12
  Model.BitmapUtil Model.BuilderOps Model.BitmapOf Spec.OfSpec Spec.OfQuerySpec Proofs.OfProofs Proofs.OfInspect
  Proofs.OfRoundTrip Proofs.BuilderProofs Proofs.OfTotal.
Import ListNotations.
Open Scope Z_scope.

(** two bitmaps with the same 1-positions are equal once their trailing zero words are removed *)
Lemma strip0_eq_of_ones a b : words_ok a -> words_ok b ->
  ones (flat a) = ones (flat b) -> strip0 a = strip0 b.
Proof.
  intros Ha Hb H. apply words_ext; try (now apply strip0_words_ok).
  - pose proof (stripped_length (strip0 a) (strip0_words_ok a Ha) (strip0_last a)) as La.
    pose proof (stripped_length (strip0 b) (strip0_words_ok b Hb) (strip0_last b)) as Lb.
    rewrite strip0_ones in La, Lb. rewrite H in La. unfold zlen in *. lia.
  - apply ones_flat_bits. now rewrite !strip0_ones.
Qed.

Theorem Builder_Extend_OfMany_set n subs sizes :
  0 <= n -> ofmany_dom2 subs sizes = true ->
  exists b0 b r, NewBuilder n = Some b0 /\ bfold b0 (extends subs sizes) = Some b /\
    OfMany subs sizes = Some r /\ spec_OfMany subs sizes r /\
    ones (flat (Words b)) = ones (flat r) /\ strip0 (Words b) = strip0 r /\ Offset b = total sizes.
Proof.
  intros Hn Hdom. destruct (OfMany_nonpanic subs sizes Hdom) as (r & Er & Hspec).
  unfold ofmany_dom2 in Hdom. rewrite !andb_true_iff in Hdom. destruct Hdom as [[[Hlen Hsz] Hsegs] _].
  apply Nat.eqb_eq in Hlen.
  assert (Hsizes : Forall (fun s => 0 <= s) sizes) by (apply Forall_forall; now apply nonnegb_In).
  assert (Hsubs : Forall (fun ps => sortedb ps = true /\ nonnegb ps = true) subs).
  { apply Forall_forall. intros ps Hps. apply (proj1 (forallb_forall _ _) Hsegs) in Hps.
    now apply andb_true_iff in Hps. }
  destruct (Builder_Extend_Of n subs sizes Hn Hlen Hsubs Hsizes) as (b0 & b & r0 & E0 & Eb & Hoff & Er0 & Hones & _).
  destruct (Builder_final n (extends subs sizes) Hn) as (b0' & b' & E0' & Eb' & H).
  { clear -Hsubs Hlen Hsizes. revert sizes Hlen Hsizes.
    induction Hsubs as [|e subs [He1 He2] Hsubs IH]; intros [|s st] Hlen Hsizes; try discriminate; [reflexivity|].
    unfold extends. cbn [combine map forallb bop_dom fst snd]. fold (extends subs st).
    inversion Hsizes; subst. rewrite He1, He2, IH; auto. cbn [andb]. lia. }
  rewrite E0 in E0'. injection E0' as <-. rewrite Eb in Eb'. injection Eb' as <-.
  cbv zeta in H. rewrite astep_extends in H by exact Hlen. cbn [abs0 abits aoff app] in H.
  destruct H as (_ & Hokb & Honesb & _).
  destruct Hspec as (Hokr & Hlenr & Honesr).
  assert (Heq : ones (flat (Words b)) = ones (flat r)) by congruence.
  exists b0, b, r. split; [exact E0|]. split; [exact Eb|]. split; [exact Er|].
  split; [repeat split; assumption|]. split; [exact Heq|]. split; [|exact Hoff].
  now apply strip0_eq_of_ones.
Qed.
