(** Equality of the definition generated from the Go source of bitmap.TailBitmap.Get (coq/gen/Trans.v) and the model. *)
From Coq Require Import ZArith List Lia Bool.
From Low Require Import Lib.MachInt Lib.Bits Lib.BitSeq Lib.TransLib Proofs.TransEqLemmas.
From LowGen Require Trans.
Import ListNotations.
Open Scope Z_scope.

From Low Require Model.TailBitmap Model.TailBitmapI64.

(** the receiver is the model's state record; against the int64 model (Model/TailBitmapI64.v), no hypothesis *)
Lemma TransEq_bitmap_TailBitmap_Get tb idx : Trans.bitmap_TailBitmap_Get tb idx = TailBitmapI64.Get64 tb idx.
Proof.
  unfold Trans.bitmap_TailBitmap_Get, TailBitmapI64.Get64. cbv zeta.
  destruct (idx <? TailBitmap.Offset tb).
  - rewrite tblZ_in by (pose proof (land_63_range idx); lia). reflexivity.
  - rewrite sar64_shiftr by lia.
    destruct (nthZ (TailBitmap.Words tb) (Z.shiftr (i64 (idx - TailBitmap.Offset tb)) 6)) as [w|]; [|reflexivity].
    rewrite tblZ_in by (pose proof (land_63_range (i64 (idx - TailBitmap.Offset tb))); lia). reflexivity.
Qed.

(** against the unbounded model (Model/TailBitmap.v) while idx - Offset fits int64 *)
Lemma TransEq_bitmap_TailBitmap_Get_unbounded tb idx : in_i64 (idx - TailBitmap.Offset tb) ->
  Trans.bitmap_TailBitmap_Get tb idx = TailBitmap.Get tb idx.
Proof.
  unfold in_i64. intros H. rewrite TransEq_bitmap_TailBitmap_Get. unfold TailBitmapI64.Get64, TailBitmap.Get. cbv zeta.
  rewrite i64_id by lia. reflexivity.
Qed.
