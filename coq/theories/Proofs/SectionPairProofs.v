(** Proofs for the widening of C18 to two section writers over one file, calls
    interleaved: refinement to two independent cursors; every call stays inside
    the section of the writer it is addressed to; in the file, a byte outside
    both sections never changes, and a byte outside the second section is
    exactly what the first writer's own calls made of it (non-interference). *)
From Coq Require Import ZArith List Bool Lia.
From Low Require Import Lib.MachInt Lib.BitSeq Model.SectionWriter Spec.SectionWriterSpec
  Model.MemFile Model.SectionPair Spec.SectionPairSpec Spec.SectionReaderSpec Run.C18
  Proofs.SectionWriterProofs Proofs.SectionWriterCalls Proofs.MemFileProofs Proofs.SectionIOProofs.
Import ListNotations.
Open Scope Z_scope.

Definition wcall_ok (wc : wcall) : Prop := call_ok (snd wc).

(** * one call from a represented state stays inside its section *)
Lemma step_within o n s pos sc c :
  sec_ok o n -> R o n s pos -> script_ok sc -> call_ok c ->
  out_within o (o + n) (snd (step s sc c)).
Proof.
  intros Hs HR Hsc Hc.
  pose proof (step_refines o n s pos sc c Hs HR Hsc Hc) as Hstep.
  pose proof HR as (_ & _ & _ & Hp & _).
  pose proof (astep_contained o n pos sc (to_acall c) Hp) as Hcont.
  destruct (step s sc c) as [[s' sc'] r].
  destruct (astep o n pos sc (to_acall c)) as [[pos' asc'] ar].
  destruct Hstep as (_ & _ & (_ & Hu) & _). cbn [snd] in *.
  unfold out_within. rewrite Hu. apply Forall_forall. intros [a bs] Hin.
  destruct (Hcont a bs Hin) as (H1 & H2 & _). cbn [fst snd]. lia.
Qed.

(** * refinement *)
Lemma run2_refines_from o1 n1 o2 n2 : sec_ok o1 n1 -> sec_ok o2 n2 ->
  forall wcs s1 s2 p1 p2 sc, R o1 n1 s1 p1 -> R o2 n2 s2 p2 -> script_ok sc -> Forall wcall_ok wcs ->
  map obs (run2 (s1, s2) sc wcs) = arun2 o1 n1 o2 n2 (p1, p2) sc (map to_wacall wcs).
Proof.
  intros Hs1 Hs2. induction wcs as [|[w c] wcs IH]; intros s1 s2 p1 p2 sc HR1 HR2 Hsc Hw; [reflexivity|].
  inversion Hw as [|? ? Hc Hw']; subst. unfold wcall_ok in Hc. cbn [snd] in Hc.
  cbn [run2 arun2 map]. unfold step2, astep2, to_wacall. cbn [fst snd].
  destruct (w =? 0).
  - pose proof (step_refines o1 n1 s1 p1 sc c Hs1 HR1 Hsc Hc) as Hstep.
    destruct (step s1 sc c) as [[s' sc'] r].
    destruct (astep o1 n1 p1 sc (to_acall c)) as [[p' asc'] ar].
    destruct Hstep as (HR' & -> & (Hr1 & Hr2) & Hsc'). cbn [map]. f_equal.
    + unfold obs. destruct ar; cbn [fst snd] in *. now subst.
    + now apply IH.
  - pose proof (step_refines o2 n2 s2 p2 sc c Hs2 HR2 Hsc Hc) as Hstep.
    destruct (step s2 sc c) as [[s' sc'] r].
    destruct (astep o2 n2 p2 sc (to_acall c)) as [[p' asc'] ar].
    destruct Hstep as (HR' & -> & (Hr1 & Hr2) & Hsc'). cbn [map]. f_equal.
    + unfold obs. destruct ar; cbn [fst snd] in *. now subst.
    + now apply IH.
Qed.

Theorem two_sections_refine o1 n1 o2 n2 sc wcs :
  sec_ok o1 n1 -> sec_ok o2 n2 -> script_ok sc -> Forall wcall_ok wcs ->
  map obs (run2 (NewSectionWriter o1 n1, NewSectionWriter o2 n2) sc wcs)
  = spec_two_sections o1 n1 o2 n2 sc (map to_wacall wcs).
Proof.
  intros Hs1 Hs2 Hsc Hw. unfold spec_two_sections.
  apply run2_refines_from; auto; now apply R_new.
Qed.

(** * containment, per writer *)
Definition within_own (o1 n1 o2 n2 : Z) (wc : wcall) (r : out) : Prop :=
  if fst wc =? 0 then out_within o1 (o1 + n1) r else out_within o2 (o2 + n2) r.

Lemma run2_within_from o1 n1 o2 n2 : sec_ok o1 n1 -> sec_ok o2 n2 ->
  forall wcs s1 s2 p1 p2 sc, R o1 n1 s1 p1 -> R o2 n2 s2 p2 -> script_ok sc -> Forall wcall_ok wcs ->
  Forall2 (within_own o1 n1 o2 n2) wcs (run2 (s1, s2) sc wcs).
Proof.
  intros Hs1 Hs2. induction wcs as [|[w c] wcs IH]; intros s1 s2 p1 p2 sc HR1 HR2 Hsc Hw;
    cbn [run2]; [constructor|].
  inversion Hw as [|? ? Hc Hw']; subst. unfold wcall_ok in Hc. cbn [snd] in Hc.
  unfold step2, within_own. cbn [fst snd].
  destruct (w =? 0) eqn:Hw0.
  - pose proof (step_within o1 n1 s1 p1 sc c Hs1 HR1 Hsc Hc) as Hin.
    pose proof (step_refines o1 n1 s1 p1 sc c Hs1 HR1 Hsc Hc) as Hstep.
    destruct (step s1 sc c) as [[s' sc'] r].
    destruct (astep o1 n1 p1 sc (to_acall c)) as [[p' asc'] ar].
    destruct Hstep as (HR' & _ & _ & Hsc'). cbn [snd] in Hin.
    constructor; [cbn [fst]; now rewrite Hw0|]. eapply IH; eauto.
  - pose proof (step_within o2 n2 s2 p2 sc c Hs2 HR2 Hsc Hc) as Hin.
    pose proof (step_refines o2 n2 s2 p2 sc c Hs2 HR2 Hsc Hc) as Hstep.
    destruct (step s2 sc c) as [[s' sc'] r].
    destruct (astep o2 n2 p2 sc (to_acall c)) as [[p' asc'] ar].
    destruct Hstep as (HR' & _ & _ & Hsc'). cbn [snd] in Hin.
    constructor; [cbn [fst]; now rewrite Hw0|]. eapply IH; eauto.
Qed.

Theorem two_sections_contained o1 n1 o2 n2 sc wcs :
  sec_ok o1 n1 -> sec_ok o2 n2 -> script_ok sc -> Forall wcall_ok wcs ->
  Forall2 (within_own o1 n1 o2 n2) wcs
    (run2 (NewSectionWriter o1 n1, NewSectionWriter o2 n2) sc wcs).
Proof.
  intros Hs1 Hs2 Hsc Hw. apply (run2_within_from o1 n1 o2 n2 Hs1 Hs2 wcs _ _ 0 0); auto; now apply R_new.
Qed.

(** * the file *)

(** the calls of [r] that reach the file start at offsets >= 0 and do not cover position i *)
Definition out_avoids (i : Z) (r : out) : Prop :=
  Forall (fun u => 0 <= fst u /\ (i < fst u \/ fst u + zlen (snd u) <= i)) (ucalls r).

Definition out_nonneg (r : out) : Prop := Forall (fun u => 0 <= fst u) (ucalls r).

Lemma within_avoids lo hi i r : 0 <= lo -> out_within lo hi r -> (i < lo \/ hi <= i) -> out_avoids i r.
Proof.
  intros Hlo Hw Hout. unfold out_within, out_avoids in *.
  eapply Forall_impl; [|exact Hw]. cbv beta. intros u (H1 & H2). lia.
Qed.

Lemma within_nonneg lo hi r : 0 <= lo -> out_within lo hi r -> out_nonneg r.
Proof.
  intros Hlo Hw. unfold out_within, out_nonneg in *.
  eapply Forall_impl; [|exact Hw]. cbv beta. intros u (H1 & H2). lia.
Qed.

Lemma apply_out_avoids i r : 0 <= i -> out_avoids i r ->
  forall f, byte_at (apply_out f r) i = byte_at f i.
Proof.
  intros Hi Hav. unfold apply_out, out_avoids in *.
  induction Hav as [|u us (Hu0 & Hu) _ IH]; intros f; [reflexivity|].
  cbn [fold_left]. rewrite IH. unfold apply_ucall.
  apply byte_at_write_at_outside; try lia.
  pose proof (zlen_firstn_le (snd u) (Z.to_nat (nth 0 (rets r) 0))). lia.
Qed.

(** what a call makes of byte i depends on the file only through byte i *)
Lemma apply_out_congr i r : 0 <= i -> out_nonneg r ->
  forall f g, byte_at f i = byte_at g i -> byte_at (apply_out f r) i = byte_at (apply_out g r) i.
Proof.
  intros Hi Hnn. unfold apply_out, out_nonneg in *.
  induction Hnn as [|u us Hu _ IH]; intros f g Hfg; [exact Hfg|].
  cbn [fold_left]. apply IH. unfold apply_ucall.
  rewrite !byte_at_write_at by lia.
  destruct ((fst u <=? i) && (i <? fst u + zlen (firstn (Z.to_nat (nth 0 (rets r) 0)) (snd u)))); auto.
Qed.

(** keep the results of the calls addressed to the first writer *)
Fixpoint outs_of_first (wcs : list wcall) (outs : list out) : list out :=
  match wcs, outs with
  | wc :: wcs', r :: outs' =>
      if fst wc =? 0 then r :: outs_of_first wcs' outs' else outs_of_first wcs' outs'
  | _, _ => []
  end.

Lemma file_after_first_only o1 n1 o2 n2 i : 0 <= o1 -> 0 <= o2 -> 0 <= i -> (i < o2 \/ o2 + n2 <= i) ->
  forall wcs outs, Forall2 (within_own o1 n1 o2 n2) wcs outs ->
  forall f g, byte_at f i = byte_at g i ->
  byte_at (file_after f outs) i = byte_at (file_after g (outs_of_first wcs outs)) i.
Proof.
  intros Ho1 Ho2 Hi Hout. induction 1 as [|wc r wcs outs Hown _ IH]; intros f g Hfg; [exact Hfg|].
  cbn [file_after fold_left outs_of_first]. fold (file_after (apply_out f r) outs).
  unfold within_own in Hown. destruct (fst wc =? 0).
  - cbn [file_after fold_left]. fold (file_after (apply_out g r) (outs_of_first wcs outs)).
    apply IH. apply apply_out_congr; auto. apply (within_nonneg o1 (o1 + n1)); auto.
  - apply IH. rewrite apply_out_avoids; auto. apply (within_avoids o2 (o2 + n2)); auto.
Qed.

Lemma file_after_avoid i : 0 <= i ->
  forall outs, Forall (out_avoids i) outs -> forall f, byte_at (file_after f outs) i = byte_at f i.
Proof.
  intros Hi. induction 1 as [|r outs Hr _ IH]; intros f; [reflexivity|].
  cbn [file_after fold_left]. fold (file_after (apply_out f r) outs).
  rewrite IH. now apply apply_out_avoids.
Qed.

Lemma within_own_avoid o1 n1 o2 n2 i : 0 <= o1 -> 0 <= o2 ->
  (i < o1 \/ o1 + n1 <= i) -> (i < o2 \/ o2 + n2 <= i) ->
  forall wcs outs, Forall2 (within_own o1 n1 o2 n2) wcs outs -> Forall (out_avoids i) outs.
Proof.
  intros Ho1 Ho2 H1 H2. induction 1 as [|wc r wcs outs Hown _ IH]; constructor; auto.
  unfold within_own in Hown.
  destruct (fst wc =? 0); [apply (within_avoids o1 (o1 + n1))|apply (within_avoids o2 (o2 + n2))]; auto.
Qed.

(** a byte outside both sections never changes *)
Theorem two_sections_file_confined o1 n1 o2 n2 sc wcs init i :
  sec_ok o1 n1 -> sec_ok o2 n2 -> script_ok sc -> Forall wcall_ok wcs ->
  0 <= i -> (i < o1 \/ o1 + n1 <= i) -> (i < o2 \/ o2 + n2 <= i) ->
  byte_at (file_after init (run2 (NewSectionWriter o1 n1, NewSectionWriter o2 n2) sc wcs)) i
  = byte_at init i.
Proof.
  intros Hs1 Hs2 Hsc Hw Hi H1 H2.
  apply file_after_avoid; auto.
  pose proof (two_sections_contained o1 n1 o2 n2 sc wcs Hs1 Hs2 Hsc Hw) as Hc.
  destruct Hs1 as (Ho1 & _). destruct Hs2 as (Ho2 & _).
  exact (within_own_avoid o1 n1 o2 n2 i Ho1 Ho2 H1 H2 wcs _ Hc).
Qed.

(** non-interference: outside the second section the file is exactly what the first writer's
    own calls (with the counts the underlying writer gave them) made of it *)
Theorem two_sections_first_alone o1 n1 o2 n2 sc wcs init i :
  sec_ok o1 n1 -> sec_ok o2 n2 -> script_ok sc -> Forall wcall_ok wcs ->
  0 <= i -> (i < o2 \/ o2 + n2 <= i) ->
  let outs := run2 (NewSectionWriter o1 n1, NewSectionWriter o2 n2) sc wcs in
  byte_at (file_after init outs) i = byte_at (file_after init (outs_of_first wcs outs)) i.
Proof.
  intros Hs1 Hs2 Hsc Hw Hi H2. cbv zeta.
  pose proof (two_sections_contained o1 n1 o2 n2 sc wcs Hs1 Hs2 Hsc Hw) as Hc.
  destruct Hs1 as (Ho1 & _). destruct Hs2 as (Ho2 & _).
  exact (file_after_first_only o1 n1 o2 n2 i Ho1 Ho2 Hi H2 wcs _ Hc init init eq_refl).
Qed.

(** the model's file is the specification's file *)
Theorem two_sections_file_refines o1 n1 o2 n2 sc wcs init :
  sec_ok o1 n1 -> sec_ok o2 n2 -> script_ok sc -> Forall wcall_ok wcs ->
  file_after init (run2 (NewSectionWriter o1 n1, NewSectionWriter o2 n2) sc wcs) =
  spec_file_after init (spec_two_sections o1 n1 o2 n2 sc (map to_wacall wcs)).
Proof.
  intros Hs1 Hs2 Hsc Hw. rewrite file_after_spec. f_equal. now apply two_sections_refine.
Qed.
