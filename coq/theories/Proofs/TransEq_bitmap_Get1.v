(** Equality of the definition generated from the Go source of bitmap.Get1 (coq/gen/Trans.v) and the model. *)
From Coq Require Import ZArith List Lia Bool.
From Low Require Import Lib.MachInt Lib.Bits Lib.BitSeq Lib.TransLib Proofs.TransEqLemmas.
From LowGen Require Trans.
Import ListNotations.
Open Scope Z_scope.

From Low Require Model.BitmapOf.

Lemma TransEq_bitmap_Get1 bm i : Trans.bitmap_Get1 bm i = BitmapOf.Get1 bm i.
Proof.
  unfold Trans.bitmap_Get1, BitmapOf.Get1. cbv zeta.
  rewrite sar32_shiftr by lia.
  destruct (nthZ bm (Z.shiftr i 6)) as [w|]; [|reflexivity].
  rewrite u64_id by (pose proof (land_63_range i); lia). reflexivity.
Qed.
