(** Proofs about the ORDER of map entries in the report of size.Stat (C20
    widening): Go hands out the keys of a map in random order; when the map is
    listed completely this only permutes the blocks of the report, and sorting
    the lines (what the operation size.Stat/sorted compares) removes the
    dependence. *)
From Coq Require Import ZArith List Bool Lia Permutation.
From Low Require Import Model.Size Model.SizeFmt Model.SizeStat Spec.SizeSpec Spec.SizeStatSpec Proofs.SizeProofs Proofs.SizeStatProofs.
Import ListNotations.
Open Scope Z_scope.
(** * The item indices of the enclosing path only matter through visibility *)
Definition extend (ids : list Z) (e : entry) : entry :=
  {| e_level := e_level e; e_idxs := e_idxs e ++ ids; e_label := e_label e; e_node := e_node e |}.

Lemma kids_elems_map (F : entry -> entry) g g' l :
  (forall x, In x l -> forall i lb, g' x i lb = map F (g x i lb)) ->
  forall i, kids_elems g' l i = map F (kids_elems g l i).
Proof.
  induction l as [|x t IH]; intros H i; cbn [kids_elems]; [reflexivity|].
  rewrite map_app, (H x (or_introl eq_refl)), IH; [reflexivity|].
  intros y Hy. apply H. right; exact Hy.
Qed.

Lemma kids_pairs_map (F : entry -> entry) g g' (l : list (list Z * value * lvalue)) :
  (forall e, In e l -> forall i lb, g' (snd e) i lb = map F (g (snd e) i lb)) ->
  forall i, kids_pairs g' l i = map F (kids_pairs g l i).
Proof.
  induction l as [|[[kt k] x] t IH]; intros H i; cbn [kids_pairs]; [reflexivity|].
  rewrite map_app, (H (kt, k, x) (or_introl eq_refl)), IH; [reflexivity|].
  intros y Hy. apply H. right; exact Hy.
Qed.

Lemma listing_extend ids : forall v level idxs label,
  listing v level (idxs ++ ids) label = map (extend ids) (listing v level idxs label).
Proof.
  induction v using lvalue_ind'; intros level idxs label; rewrite !listing_eq; cbn [map];
    f_equal; cbn [kids map]; try reflexivity.
  - apply kids_elems_map. intros x Hx i lb. rewrite Forall_forall in H.
    rewrite <- (H x Hx). reflexivity.
  - apply kids_elems_map. intros x Hx i lb. rewrite Forall_forall in H.
    rewrite <- (H x Hx). reflexivity.
  - apply kids_pairs_map. intros e He i lb. rewrite Forall_forall in H.
    rewrite <- (H e He). reflexivity.
  - apply IHv.
  - apply IHv.
  - induction fs as [|e fs IHf]; [reflexivity|].
    inversion H as [|? ? He Hf]; subst. cbn [flat_map]. rewrite map_app, <- He, IHf by exact Hf. reflexivity.
Qed.

Lemma visible_extend depth m ids e :
  path_ok m ids -> visible depth m (extend ids e) = visible depth m e.
Proof.
  unfold path_ok, visible, extend. cbn [e_level e_idxs]. intros H.
  rewrite forallb_app, H, andb_true_r. reflexivity.
Qed.

Lemma filter_map_comm {A B} (F : A -> B) (p : B -> bool) l :
  filter p (map F l) = map F (filter (fun x => p (F x)) l).
Proof.
  induction l as [|x t IH]; cbn [map filter]; [reflexivity|].
  destruct (p (F x)); cbn [map]; rewrite IH; reflexivity.
Qed.

Lemma rendered_listing_extend o depth m ids v level idxs label :
  path_ok m ids ->
  map (render o) (filter (visible depth m) (listing v level (idxs ++ ids) label)) =
  map (render o) (filter (visible depth m) (listing v level idxs label)).
Proof.
  intros P. rewrite listing_extend, filter_map_comm, map_map.
  rewrite (filter_ext _ (visible depth m)) by (intros e; apply visible_extend, P).
  apply map_ext. reflexivity.
Qed.

(** the rendered block of a map entry does not depend on its position, as long as it is below maxItem *)
Definition entry_block (o : sopt) (depth m : Z) (e : list Z * value * lvalue) : list (list Z) :=
  map (render o) (filter (visible depth m) (listing (snd e) 1 [] (fst (fst e) ++ s_colon))).

Lemma pairs_blocks o depth m : forall (kvs : list (list Z * value * lvalue)) i,
  i + Z.of_nat (length kvs) <= m ->
  map (render o) (filter (visible depth m) (kids_pairs (fun x i lb => listing x 1 [i] lb) kvs i)) =
  flat_map (entry_block o depth m) kvs.
Proof.
  induction kvs as [|[[kt k] x] t IH]; intros i Hi; cbn [kids_pairs flat_map]; [reflexivity|].
  cbn [length] in Hi. rewrite Nat2Z.inj_succ in Hi.
  rewrite filter_app, map_app, IH by lia. f_equal.
  unfold entry_block. cbn [fst snd].
  change [i] with ([] ++ [i]). apply rendered_listing_extend.
  unfold path_ok. cbn [forallb]. rewrite andb_true_r. apply Z.ltb_lt. lia.
Qed.

Lemma zsum_perm l l' : Permutation l l' -> zsum l = zsum l'.
Proof.
  induction 1 as [|x l l' _ IH|x y l|l l' l'' _ IH1 _ IH2].
  - reflexivity.
  - rewrite !zsum_cons. lia.
  - rewrite !zsum_cons. lia.
  - lia.
Qed.

Lemma spec_size_map_perm kvs kvs' : Permutation kvs kvs' -> spec_size (VMap kvs) = spec_size (VMap kvs').
Proof.
  intros P. rewrite !spec_size_map. unfold pair_sizes. f_equal.
  apply zsum_perm. apply Permutation_map. exact P.
Qed.

Lemma root_visible depth m label n : visible depth m (mk_entry 0 [] label n) = true.
Proof.
  unfold visible. cbn [e_level e_idxs mk_entry forallb]. rewrite andb_true_r.
  apply orb_true_intro. destruct (Z_lt_dec depth 0); [left|right]; cbn; lia.
Qed.

Lemma map_lines o depth m ty kvs :
  Z.of_nat (length kvs) <= m ->
  spec_lines (Some (LMap ty kvs)) depth m o =
  render o (mk_entry 0 [] [] (Some (LMap ty kvs))) :: flat_map (entry_block o depth m) kvs.
Proof.
  intros H. cbn [spec_lines]. rewrite listing_eq. cbn [filter]. rewrite root_visible. cbn [map kids].
  f_equal. apply pairs_blocks. lia.
Qed.

(** the order in which MapKeys() hands out the keys only permutes the blocks of the report *)
Theorem Stat_map_order : forall ty kvs kvs' depth maxItem o,
  Permutation kvs kvs' -> Z.of_nat (length kvs) <= maxItem ->
  Permutation (spec_lines (Some (LMap ty kvs)) depth maxItem o)
              (spec_lines (Some (LMap ty kvs')) depth maxItem o).
Proof.
  intros ty kvs kvs' depth m o P H.
  rewrite (map_lines o depth m ty kvs H).
  rewrite (map_lines o depth m ty kvs') by (rewrite <- (Permutation_length P); exact H).
  replace (render o (mk_entry 0 [] [] (Some (LMap ty kvs'))))
    with (render o (mk_entry 0 [] [] (Some (LMap ty kvs)))).
  - apply perm_skip. apply Permutation_flat_map. exact P.
  - unfold render. cbn [e_level e_label e_node mk_entry ty_of erase]. do 3 f_equal.
    apply spec_size_map_perm. apply Permutation_map. exact P.
Qed.

(** * Sorting the lines makes the comparison canonical *)
From Coq Require Import Sorted.

Definition le_line (a b : list Z) : Prop := bytes_leb a b = true.

Lemma bytes_leb_total : forall a b, bytes_leb a b = true \/ bytes_leb b a = true.
Proof.
  induction a as [|x a IH]; intros [|y b]; cbn [bytes_leb]; auto.
  destruct (x <? y) eqn:E1; [auto|]. destruct (y <? x) eqn:E2; [auto|]. apply IH.
Qed.

Lemma bytes_leb_antisym : forall a b, bytes_leb a b = true -> bytes_leb b a = true -> a = b.
Proof.
  induction a as [|x a IH]; intros [|y b]; cbn [bytes_leb]; try discriminate; auto.
  destruct (x <? y) eqn:E1; destruct (y <? x) eqn:E2; try discriminate; try lia.
  intros H1 H2. assert (x = y) by lia. subst. f_equal. apply IH; assumption.
Qed.

Lemma bytes_leb_trans : forall a b c, bytes_leb a b = true -> bytes_leb b c = true -> bytes_leb a c = true.
Proof.
  induction a as [|x a IH]; intros [|y b] [|z c]; cbn [bytes_leb]; try discriminate; auto.
  destruct (x <? y) eqn:E1; destruct (y <? x) eqn:E2;
  destruct (y <? z) eqn:E3; destruct (z <? y) eqn:E4;
  destruct (x <? z) eqn:E5; destruct (z <? x) eqn:E6; try discriminate; try lia; auto.
  apply IH.
Qed.

Lemma insert_line_perm s l : Permutation (insert_line s l) (s :: l).
Proof.
  induction l as [|h t IH]; cbn [insert_line]; [reflexivity|].
  destruct (bytes_leb s h); [reflexivity|].
  rewrite IH. apply perm_swap.
Qed.

Lemma sort_lines_perm l : Permutation (sort_lines l) l.
Proof.
  induction l as [|s l IH]; cbn [sort_lines fold_right]; [reflexivity|].
  fold (sort_lines l). rewrite insert_line_perm, IH. reflexivity.
Qed.

Lemma insert_line_sorted s l : StronglySorted le_line l -> StronglySorted le_line (insert_line s l).
Proof.
  induction 1 as [|h t Ht IH Hh]; cbn [insert_line]; [repeat constructor|].
  destruct (bytes_leb s h) eqn:E.
  - constructor; [constructor; assumption|].
    constructor; [exact E|]. eapply Forall_impl; [|exact Hh].
    intros x Hx. eapply bytes_leb_trans; eassumption.
  - constructor; [exact IH|].
    assert (Hhs : le_line h s) by (destruct (bytes_leb_total s h); [congruence|assumption]).
    eapply Permutation_Forall; [symmetry; apply insert_line_perm|].
    constructor; assumption.
Qed.

Lemma sort_lines_sorted l : StronglySorted le_line (sort_lines l).
Proof.
  induction l as [|s l IH]; cbn [sort_lines fold_right]; [constructor|].
  apply insert_line_sorted, IH.
Qed.

Lemma sorted_perm_eq : forall l l',
  StronglySorted le_line l -> StronglySorted le_line l' -> Permutation l l' -> l = l'.
Proof.
  induction l as [|a t IH]; intros l' S1 S2 P.
  - apply Permutation_nil in P. subst. reflexivity.
  - destruct l' as [|b t']; [apply Permutation_sym, Permutation_nil in P; discriminate|].
    inversion S1 as [|? ? St Ha]; subst. inversion S2 as [|? ? St' Hb]; subst.
    assert (a = b).
    { assert (In b (a :: t)) by (eapply Permutation_in; [symmetry; exact P|left; reflexivity]).
      assert (In a (b :: t')) by (eapply Permutation_in; [exact P|left; reflexivity]).
      rewrite Forall_forall in Ha, Hb.
      destruct H as [->|Hb']; [reflexivity|]. destruct H0 as [->|Ha']; [reflexivity|].
      apply bytes_leb_antisym; [apply Ha, Hb'|apply Hb, Ha']. }
    subst b. f_equal. apply IH; try assumption. eapply Permutation_cons_inv, P.
Qed.

Theorem sort_lines_canonical : forall l l', Permutation l l' -> sort_lines l = sort_lines l'.
Proof.
  intros l l' P. apply sorted_perm_eq; try apply sort_lines_sorted.
  rewrite !sort_lines_perm. exact P.
Qed.

(** what size.Stat/sorted compares does not depend on the order of MapKeys() *)
Theorem Stat_sorted_map_order : forall ty kvs kvs' depth maxItem o,
  Permutation kvs kvs' -> Z.of_nat (length kvs) <= maxItem ->
  sort_lines (spec_lines (Some (LMap ty kvs)) depth maxItem o) =
  sort_lines (spec_lines (Some (LMap ty kvs')) depth maxItem o).
Proof. intros. apply sort_lines_canonical, Stat_map_order; assumption. Qed.
