(** C18 widening, cross-package, part 3: SEVERAL pbcmpl frames placed in one
    file through iohelper.AtToWriter, at offsets that do not overlap, in any
    order, over any initial content: every Marshal returns (frame length, nil),
    every byte outside the frames keeps its value, and every frame is read back
    by Unmarshal through iohelper.AtToReader at its offset. *)
From Coq Require Import ZArith List Bool Lia.
From Low Require Import Lib.MachInt Lib.BitSeq Lib.Bytes
  Model.SectionWriter Model.MemFile Model.SectionReader
  Model.Pbcmpl Spec.PbcmplSpec Model.PbcmplFile.
From Low Require Proofs.SectionWriterProofs Proofs.MemFileProofs
  Proofs.PbcmplIO Proofs.PbcmplHeader Proofs.PbcmplFrames Proofs.PbcmplMarshal Proofs.PbcmplStream
  Proofs.PbcmplFileProofs Proofs.PbcmplFileRoundTrip.
Import ListNotations.
Open Scope Z_scope.

Module SW := Proofs.SectionWriterProofs.
Module MF := Proofs.MemFileProofs.
Module PIO := Proofs.PbcmplIO.
Module PF := Proofs.PbcmplFrames.
Module PM := Proofs.PbcmplMarshal.
Module PS := Proofs.PbcmplStream.
Module RT := Proofs.PbcmplFileRoundTrip.

(** * a file holds the bytes [fr] at offset [a] *)
Definition holds (g : list Z) (a : Z) (fr : list Z) : Prop :=
  a + zlen fr <= zlen g /\
  forall i, 0 <= i < zlen fr -> byte_at g (a + i) = nth (Z.to_nat i) fr 0.

Lemma holds_write_at f a fr : 0 <= a -> fr <> [] -> holds (write_at f a fr) a fr.
Proof.
  intros Ha Hne. split.
  - rewrite MF.zlen_write_at by assumption. lia.
  - intros i Hi. rewrite MF.byte_at_write_at by lia.
    destruct (Z.leb_spec a (a + i)); [|lia]. destruct (Z.ltb_spec (a + i) (a + zlen fr)); [|lia].
    cbn [andb]. f_equal. lia.
Qed.

Lemma holds_preserved g a fr b bs : 0 <= a -> 0 <= b ->
  holds g a fr -> (a + zlen fr <= b \/ b + zlen bs <= a) -> holds (write_at g b bs) a fr.
Proof.
  intros Ha Hb (Hlen & Hbytes) Hdis. split.
  - pose proof (MF.zlen_write_at_bounds g b bs Hb). lia.
  - intros i Hi. rewrite MF.byte_at_write_at_outside by lia. now apply Hbytes.
Qed.

Lemma holds_skipn g a fr : 0 <= a -> holds g a fr ->
  skipn (Z.to_nat a) g = fr ++ skipn (Z.to_nat (a + zlen fr)) g.
Proof.
  intros Ha (Hlen & Hbytes).
  rewrite <- (firstn_skipn (length fr) (skipn (Z.to_nat a) g)) at 1. f_equal.
  - apply (nth_ext _ _ 0 0).
    + rewrite firstn_length, skipn_length. unfold zlen in Hlen. lia.
    + intros i Hi. rewrite firstn_length, skipn_length in Hi.
      rewrite MF.nth_firstn_lt by lia. rewrite MF.nth_skipn_add.
      specialize (Hbytes (Z.of_nat i) ltac:(unfold zlen; lia)).
      unfold byte_at in Hbytes. rewrite Nat2Z.id in Hbytes. rewrite <- Hbytes. f_equal. lia.
  - rewrite MF.skipn_skipn_add. f_equal. unfold zlen. lia.
Qed.

(** * placements *)
Definition place_end (kind : Z) (p : placement) : Z :=
  fst p + 32 + zlen (k_enc kind (snd (snd p))).

Definition place_frame (kind : Z) (p : placement) : list Z :=
  frame (ver_of (fst (snd p))) (k_enc kind (snd (snd p))).

Definition place_ok (p : placement) : Prop := 0 <= fst p /\ PS.msg_wf (snd p).

(** the byte range [a, a+l) does not meet the frame of [p] *)
Definition clear_of (kind : Z) (a l : Z) (p : placement) : Prop :=
  a + l <= fst p \/ place_end kind p <= a.

Fixpoint pairwise_clear (kind : Z) (ps : list placement) : Prop :=
  match ps with
  | [] => True
  | p :: t => Forall (clear_of kind (fst p) (place_end kind p - fst p)) t /\ pairwise_clear kind t
  end.

Lemma zlen_place_frame kind p : place_ok p -> zlen (place_frame kind p) = place_end kind p - fst p.
Proof.
  intros (_ & Hm). unfold place_frame, place_end.
  rewrite PM.zlen_frame by apply (PS.msg_wf_ver _ Hm). lia.
Qed.

Lemma place_frame_nonempty kind p : place_ok p -> place_frame kind p <> [].
Proof.
  intros Hp E. pose proof (zlen_place_frame kind p Hp) as H. rewrite E in H.
  unfold place_end, zlen in H. cbn [length Z.of_nat] in H.
  pose proof (SW.zlen_nonneg (k_enc kind (snd (snd p)))). unfold zlen in *. lia.
Qed.

(** * marshalling all the placements *)
Lemma marshal_all_spec kind B : B < 2^63 - 1 ->
  forall ps f,
  Forall place_ok ps -> Forall (fun p => place_end kind p <= B) ps -> pairwise_clear kind ps ->
  bytes_ok f -> zlen f <= B ->
  exists rs f',
    marshal_all kind f ps = Some (rs, f')
    /\ rs = map (fun p => (place_end kind p - fst p, @None perr)) ps
    /\ bytes_ok f' /\ zlen f' <= B
    /\ Forall (fun p => holds f' (fst p) (place_frame kind p)) ps
    /\ (forall a fr, 0 <= a -> holds f a fr -> Forall (clear_of kind a (zlen fr)) ps -> holds f' a fr)
    /\ (forall i, 0 <= i -> Forall (clear_of kind i 1) ps -> byte_at f' i = byte_at f i).
Proof.
  intros HB. induction ps as [|p ps IH]; intros f Hok Hend Hclear Hfb Hfl.
  - exists [], f. cbn [marshal_all map]. split; [reflexivity|]. split; [reflexivity|].
    split; [exact Hfb|]. split; [exact Hfl|]. split; [constructor|]. split; [intros; assumption|reflexivity].
  - inversion Hok as [|? ? Hp Hok']; subst. inversion Hend as [|? ? He Hend']; subst.
    destruct Hclear as [Hcp Hclear'].
    destruct p as [off [ver pay]]. pose proof Hp as (Hoff & Hm). cbn [fst snd] in *.
    destruct (PS.msg_wf_ver _ Hm) as [Hv Hnul]. cbn [fst] in Hv, Hnul.
    destruct Hm as (_ & Hvb & Hpb & Hpl). cbn [fst snd] in Hvb, Hpb, Hpl.
    unfold place_end in He. cbn [fst snd] in He.
    cbn [marshal_all]. unfold MarshalAt.
    destruct (RT.Marshal_file (list Z) (k_enc kind) off f pay ver Hoff Hv ltac:(lia)) as (sw' & HM).
    rewrite HM.
    set (fr := frame (ver_of ver) (k_enc kind pay)) in *.
    assert (Hfrl : zlen fr = 32 + zlen (k_enc kind pay)) by (apply PM.zlen_frame; exact Hv).
    assert (Hfrb : bytes_ok fr) by (apply PF.frame_bytes; [exact Hvb|apply PS.k_enc_bytes; exact Hpb]).
    assert (Hne : fr <> []).
    { intros E. rewrite E in Hfrl. unfold zlen in Hfrl. cbn [length Z.of_nat] in Hfrl.
      pose proof (SW.zlen_nonneg (k_enc kind pay)). unfold zlen in *. lia. }
    set (f1 := write_at f off fr).
    assert (Hf1b : bytes_ok f1) by (apply RT.bytes_ok_write_at; assumption).
    assert (Hf1l : zlen f1 <= B).
    { pose proof (MF.zlen_write_at_bounds f off fr Hoff). unfold f1. lia. }
    destruct (IH f1 Hok' Hend' Hclear' Hf1b Hf1l) as (rs & f' & HMA & Hrs & Hb' & Hl' & Hall & Hkeep & Hout).
    rewrite HMA. exists ((32 + zlen (k_enc kind pay), None) :: rs), f'.
    split; [reflexivity|]. split.
    { cbn [map]. rewrite Hrs. f_equal. unfold place_end. cbn [fst snd]. f_equal. lia. }
    split; [exact Hb'|]. split; [exact Hl'|]. split; [|split].
    + constructor; [|exact Hall]. cbn [fst]. unfold place_frame. cbn [fst snd]. fold fr.
      apply Hkeep; [exact Hoff|apply holds_write_at; assumption|].
      unfold place_end in Hcp. cbn [fst snd] in Hcp.
      eapply Forall_impl; [|exact Hcp]. intros q Hq. unfold clear_of in *. lia.
    + intros a g Ha Hh Hcl. inversion Hcl as [|? ? Hc1 Hcl']; subst.
      apply Hkeep; [exact Ha| |exact Hcl'].
      apply holds_preserved; auto. unfold clear_of, place_end in Hc1. cbn [fst snd] in Hc1. lia.
    + intros i Hi Hcl. inversion Hcl as [|? ? Hc1 Hcl']; subst.
      rewrite Hout by assumption. unfold f1.
      apply MF.byte_at_write_at_outside; auto.
      unfold clear_of, place_end in Hc1. cbn [fst snd] in Hc1. lia.
Qed.

(** the frames of non-overlapping placements are all read back *)
Theorem marshal_all_unmarshal_each kind B ps f :
  kind = 0 \/ kind = 1 -> B < 2^63 - 1 ->
  Forall place_ok ps -> Forall (fun p => place_end kind p <= B) ps -> pairwise_clear kind ps ->
  bytes_ok f -> zlen f <= B ->
  exists rs f',
    marshal_all kind f ps = Some (rs, f')
    /\ rs = map (fun p => (place_end kind p - fst p, @None perr)) ps
    /\ (forall i, 0 <= i -> Forall (clear_of kind i 1) ps -> byte_at f' i = byte_at f i)
    /\ Forall (fun p => exists s',
         UnmarshalAt kind f' (fst p)
         = Some (place_end kind p - fst p, ver_of (fst (snd p)), None, Some (snd (snd p)), s')) ps.
Proof.
  intros Hkind HB Hok Hend Hclear Hfb Hfl.
  destruct (marshal_all_spec kind B HB ps f Hok Hend Hclear Hfb Hfl)
    as (rs & f' & HMA & Hrs & Hb' & Hl' & Hall & _ & Hout).
  exists rs, f'. split; [exact HMA|]. split; [exact Hrs|]. split; [exact Hout|].
  apply Forall_forall. intros p Hin.
  pose proof (proj1 (Forall_forall _ _) Hok p Hin) as Hp.
  pose proof (proj1 (Forall_forall _ _) Hall p Hin) as Hh.
  destruct p as [off [ver pay]]. pose proof Hp as (Hoff & Hm). cbn [fst snd] in *.
  destruct (PS.msg_wf_ver _ Hm) as [Hv Hnul]. cbn [fst] in Hv, Hnul.
  destruct Hm as (_ & _ & _ & Hpl). cbn [snd] in Hpl.
  unfold place_frame in Hh. cbn [fst snd] in Hh.
  pose proof (holds_skipn f' off _ Hoff Hh) as Hsk.
  unfold UnmarshalAt.
  destruct (RT.Unmarshal_file_frame (list Z) (k_enc kind) (k_dec kind) grow_default PS.grow_default_ok
              off f' pay (ver_of ver) _ Hoff Hv Hnul (PS.k_dec_enc kind pay Hkind ltac:(lia)) Hb' ltac:(lia) Hsk)
    as (s' & HU).
  exists s'. rewrite HU. unfold place_end. cbn [fst snd].
  replace (off + 32 + zlen (k_enc kind pay) - off) with (32 + zlen (k_enc kind pay)) by lia. reflexivity.
Qed.
