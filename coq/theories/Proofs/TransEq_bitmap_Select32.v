(** Equality of the definition generated from the Go source of bitmap.Select32 (coq/gen/Trans.v) and the model:
    a word-skipping loop (recursion on fuel) whose exit is the 32/16/8 halving of the in-word search (three nested
    joins, 8 paths), a read of select8Lookup, and a second loop (the scan for the next 1-bit, which can leave from
    inside its body).  The model (Model/Select.v) computes in unbounded Z and shares [select_in_word] with Select32R64;
    the code computes in int32. *)
From Coq Require Import ZArith List Lia Bool.
From Low Require Import Lib.MachInt Lib.Bits Lib.BitSeq Lib.TransLib Proofs.TransEqLemmas.
From Low Require Model.Select.
From LowGen Require Trans.
Import ListNotations.
Open Scope Z_scope.

Lemma s8_len : zlen Select.select8Lookup = 2048.
Proof. vm_compute. reflexivity. Qed.

Lemma s8_vals : Forall (fun v => 0 <= v <= 8) Select.select8Lookup.
Proof.
  apply Forall_forall. intros v Hin.
  assert (H : forallb (fun v => (0 <=? v) && (v <=? 8)) Select.select8Lookup = true) by (vm_compute; reflexivity).
  rewrite forallb_forall in H. specialize (H v Hin). apply andb_true_iff in H. destruct H as [A B].
  apply Z.leb_le in A. apply Z.leb_le in B. lia.
Qed.

Lemma s8_guard t : (if t <? 2048 then nthZ Select.select8Lookup t else None) = nthZ Select.select8Lookup t.
Proof.
  destruct (Z.ltb_spec t 2048); [reflexivity|]. symmetry. apply nthZ_None_ge. rewrite s8_len. lia.
Qed.

Lemma popcount_u16_range z : 0 <= popcount (u16 z) <= 16.
Proof. apply (popcount_range 16). unfold u16. apply Z.mod_pos_bound. lia. Qed.
Lemma popcount_u8_range z : 0 <= popcount (u8 z) <= 8.
Proof. apply (popcount_range 8). apply u8_range. Qed.

Lemma sshl32_6 x : 0 <= x < 2 ^ 25 -> sshl32 x 6 = x * 64.
Proof. intros H. unfold sshl32. destruct (Z.ltb_spec 6 32); [|lia]. change (2 ^ 6) with 64. apply i32_id. lia. Qed.
Lemma shiftl_6 x : Z.shiftl x 6 = x * 64.
Proof. rewrite Z.shiftl_mul_pow2 by lia. reflexivity. Qed.

(** the second loop of Select32 (the scan for the next 1-bit), as generated; [A] is the first result *)
Definition scanT (ws : list Z) (A : Z) : nat -> Z -> option (Z * Z) :=
  fix k18 (fuel18 : nat) (t93 : Z) {struct fuel18} : option (Z * Z) :=
    match fuel18 with
    | O => None
    | S f18 =>
        if t93 <? i32 (zlen ws)
        then match nthZ ws t93 with
             | Some t89 =>
                 if negb (t89 =? 0) then Some (A, i32 (sshl32 t93 6 + i32 (tz64 t89)))
                 else k18 f18 (i32 (t93 + 1))
             | None => None
             end
        else Some (A, sshl32 (i32 (zlen ws)) 6)
    end.

Lemma scanT_eq ws A : words ws -> zlen ws < 2 ^ 25 ->
  forall m t, 0 <= t -> zlen ws - t <= Z.of_nat m ->
  scanT ws A (S m) t = match Select.next_one_scan m ws t (zlen ws) with Some b => Some (A, b) | None => None end.
Proof.
  intros Hws Hl. assert (Hl0 : 0 <= zlen ws) by (unfold zlen; lia).
  induction m as [|m IH]; intros t Ht Hm.
  - cbn [scanT Select.next_one_scan]. rewrite (i32_id (zlen ws)) by lia.
    destruct (Z.ltb_spec t (zlen ws)); [cbn [Z.of_nat] in Hm; lia|].
    rewrite sshl32_6, shiftl_6 by lia. reflexivity.
  - remember (S m) as m' eqn:Em. cbn [scanT]. subst m'. cbn [Select.next_one_scan]. fold (scanT ws A).
    rewrite (i32_id (zlen ws)) by lia.
    destruct (Z.ltb_spec t (zlen ws)) as [Hlt|Hge].
    + destruct (nthZ ws t) as [w|] eqn:Ew; [|reflexivity].
      pose proof (word_of _ _ _ Hws Ew) as Hw. pose proof (tz64_range w Hw).
      destruct (w =? 0); cbn [negb].
      * rewrite (i32_id (t + 1)) by lia. apply IH; [lia|]. rewrite Nat2Z.inj_succ in Hm. lia.
      * rewrite sshl32_6, shiftl_6 by lia. rewrite (i32_id (tz64 w)) by lia. rewrite i32_id by lia. reflexivity.
    + rewrite sshl32_6, shiftl_6 by lia. reflexivity.
Qed.

(** what the model does once the offset [off] of the bit inside its word is known *)
Definition MF (ws : list Z) (wordI w off : Z) : option (Z * Z) :=
  let a := off + Z.shiftl wordI 6 in
  let w := Z.land w (not64 (MaskUpto (Z.land a 63))) in
  if negb (w =? 0) then Some (a, Z.shiftl wordI 6 + tz64 w)
  else
    match Select.next_one_scan (length ws) ws (Z.shiftr a 6 + 1) (zlen ws) with
    | Some b => Some (a, b)
    | None => None
    end.

(** ... and once the word that holds the bit is found *)
Definition MT (ws : list Z) (wordI w findIth : Z) : option (Z * Z) :=
  match Select.select_in_word w findIth with
  | None => None
  | Some off => MF ws wordI w off
  end.

(** the generated code after the table read, with the int32 arithmetic it contains *)
Lemma FIN ws fuel off wI w : words ws -> zlen ws < 2 ^ 25 -> fuel = S (length ws) ->
  0 <= off <= 100 -> 0 <= wI < zlen ws -> 0 <= w < 2 ^ 64 ->
  match tblZ 64 MaskUpto (Z.land (i32 (off + sshl32 wI 6)) 63) with
  | Some t70 =>
      if negb (Z.land w (not64 t70) =? 0)
      then Some (i32 (off + sshl32 wI 6), i32 (sshl32 wI 6 + i32 (tz64 (Z.land w (not64 t70)))))
      else scanT ws (i32 (off + sshl32 wI 6)) fuel (i32 (sar32 (i32 (off + sshl32 wI 6)) 6 + 1))
  | None => None
  end = MF ws wI w off.
Proof.
  intros Hws Hl Ef Hoff HwI Hw. unfold MF. cbv zeta.
  rewrite sshl32_6, shiftl_6 by lia. rewrite (i32_id (off + wI * 64)) by lia.
  set (a := off + wI * 64) in *.
  rewrite tblZ_in by (pose proof (land_63_range a); lia).
  set (w' := Z.land w (not64 (MaskUpto (Z.land a 63)))).
  assert (Hw' : 0 <= w' < 2 ^ 64) by (apply land_u_range; lia).
  pose proof (tz64_range w' Hw') as Htz.
  destruct (w' =? 0); cbn [negb].
  - rewrite sar32_shiftr by lia.
    assert (Hq : 0 <= Z.shiftr a 6 < 2 ^ 25 + 2).
    { rewrite Z.shiftr_div_pow2 by lia. change (2 ^ 6) with 64. unfold a.
      split; [apply Z.div_pos; lia|]. apply Z.div_lt_upper_bound; lia. }
    rewrite (i32_id (Z.shiftr a 6 + 1)) by lia.
    subst fuel. apply scanT_eq; try assumption; [lia|].
    unfold zlen. lia.
  - rewrite (i32_id (tz64 w')) by lia. rewrite i32_id by lia. reflexivity.
Qed.

Lemma land_255_range x : 0 <= Z.land x 255 < 256.
Proof. change 255 with (Z.ones 8). change 256 with (2 ^ 8). apply land_ones_range. lia. Qed.

(** one halving step of the in-word search: normalise the int arithmetic of the generated code and split on the test *)
Local Ltac halve o kt kf :=
  match goal with
  | |- context [popcount (o ?x) <=? ?g] =>
      let C := fresh "C" in
      rewrite ?(i64_id (g - popcount (o x))) by lia;
      destruct (Z.leb_spec (popcount (o x)) g) as [C|C]; [kt x|kf x]
  end.

Lemma shl64_3 y : 0 <= y < 256 -> shl64 y 3 = Z.shiftl y 3.
Proof. intros H. rewrite Z.shiftl_mul_pow2 by lia. apply shl64_small; lia. Qed.

(** a leaf of the in-word search: the table read, then FIN *)
Local Ltac leaf ws wI w Hws Hl Ef HwI Hw :=
  rewrite s8_guard;
  rewrite ?u64_id by lia;
  rewrite ?(shr64_shiftr _ 5) by lia;
  rewrite ?shl64_3 by apply land_255_range;
  match goal with |- context [nthZ Select.select8Lookup ?idx] =>
    let v := fresh "v" in let Ev := fresh "Ev" in let Hv := fresh "Hv" in
    destruct (nthZ Select.select8Lookup idx) as [v|] eqn:Ev; cbv beta iota; [|reflexivity];
    pose proof (nthZ_Forall _ _ _ _ s8_vals Ev) as Hv; cbv beta in Hv;
    rewrite (i32_id v) by lia;
    match goal with |- context [i32 (v + ?c)] => rewrite (i32_id (v + c)) by lia end;
    try match goal with |- context [i32 (v + ?c + 8)] => rewrite (i32_id (v + c + 8)) by lia end;
    match goal with |- context [Some (?A, i32 (sshl32 wI 6 + _))] => fold (scanT ws A) end;
    apply FIN; try assumption; lia
  end.

Lemma TransEq_bitmap_Select32 ws sidx i : words ws -> zlen ws < 2 ^ 25 -> zlen sidx < 2 ^ 31 ->
  Trans.bitmap_Select32 (S (length ws)) ws sidx i = Select.Select32 ws sidx i.
Proof.
  intros Hws Hl Hs. remember (S (length ws)) as fuel eqn:Ef.
  unfold Trans.bitmap_Select32, Select.Select32. cbv zeta beta.
  rewrite (i32_id (zlen sidx)) by (unfold zlen in *; lia).
  rewrite !(sar32_shiftr i) by lia.
  destruct (i <? 0); cbn [orb]; [reflexivity|].
  rewrite Z.geb_leb. destruct (zlen sidx <=? Z.shiftr i 5); [reflexivity|].
  destruct (nthZ sidx (Z.shiftr i 5)) as [base|]; [|reflexivity].
  rewrite !(sar32_shiftr base) by lia.
  destruct (nthZ ws (Z.shiftr base 6)) as [w0|] eqn:E0; [|reflexivity].
  rewrite tblZ_in by (pose proof (land_63_range base); lia).
  pose proof (nthZ_Some_range _ _ _ E0) as HwI. pose proof (word_of _ _ _ Hws E0) as Hw0.
  pose proof (land_ones_range i 5 ltac:(lia)) as Hf. change (Z.ones 5) with 31 in Hf. change (2 ^ 5) with 32 in Hf.
  rewrite (i64_id (Z.land i 31)) by lia.
  set (w1 := Z.land w0 (not64 (Mask (Z.land base 63)))).
  assert (Hw1 : 0 <= w1 < 2 ^ 64) by (apply land_u_range; lia).
  transitivity (match Select.Select32_skip (length ws) ws (Z.shiftr base 6) w1 (Z.land i 31) with
                | Some (wI, w, f) => MT ws wI w f | None => None end);
    [|destruct (Select.Select32_skip (length ws) ws (Z.shiftr base 6) w1 (Z.land i 31)) as [[[a b] c]|]; reflexivity].
  match goal with |- ?K fuel _ _ _ = _ => set (K4 := K) end.
  (* leaving the first loop: the in-word search and everything after it *)
  assert (EXIT : forall f wI w, 0 <= f < 32 -> 0 <= wI < zlen ws -> 0 <= w < 2 ^ 64 -> (popcount w <=? f) = false ->
                 K4 1%nat f wI w = MT ws wI w f).
  { intros f wI w Hf' HwI' Hw' Hc. unfold K4. cbv beta iota zeta fix. rewrite Hc.
    unfold MT, Select.select_in_word. cbv zeta.
    pose proof (popcount_u32_range w) as Ho1.
    halve u32
      ltac:(fun x => assert (Hx : 0 <= shr64 x 32 < 2 ^ 64) by (apply shr64_range; lia);
                     pose proof (popcount_u16_range (shr64 x 32)) as Ho2)
      ltac:(fun x => pose proof (popcount_u16_range x) as Ho2);
    change (Z.lor 0 32) with 32;
    (halve u16
      ltac:(fun x => assert (Hy : 0 <= shr64 x 16 < 2 ^ 64) by (apply shr64_range; lia);
                     pose proof (popcount_u8_range (shr64 x 16)) as Ho3)
      ltac:(fun x => pose proof (popcount_u8_range x) as Ho3));
    change (Z.lor 32 16) with 48; change (Z.lor 0 16) with 16;
    (halve u8 ltac:(fun x => idtac) ltac:(fun x => idtac); leaf ws wI w Hws Hl Ef HwI' Hw'). }
  assert (L1 : forall m f wI w, 0 <= f < 32 -> 0 <= wI < zlen ws -> 0 <= w < 2 ^ 64 ->
            K4 (S m) f wI w = match Select.Select32_skip m ws wI w f with
                              | Some (wI', w', f') => MT ws wI' w' f' | None => None end).
  { induction m as [|m IH]; intros f wI w Hf' HwI' Hw'.
    - destruct (popcount w <=? f) eqn:Hc.
      + unfold K4. cbv beta iota zeta fix. rewrite Hc. cbn [Select.Select32_skip]. rewrite Hc.
        destruct (nthZ ws (i32 (wI + 1))); reflexivity.
      + rewrite EXIT by assumption. cbn [Select.Select32_skip]. rewrite Hc. reflexivity.
    - destruct (popcount w <=? f) eqn:Hc.
      + remember (S m) as m' eqn:Em. unfold K4. cbv beta iota zeta fix. rewrite Hc. fold K4. subst m'.
        cbn [Select.Select32_skip]. rewrite Hc.
        rewrite (i32_id (wI + 1)) by lia.
        destruct (nthZ ws (wI + 1)) as [w'|] eqn:En; [|reflexivity].
        pose proof (popcount_u64_range w Hw'). apply Z.leb_le in Hc.
        rewrite (i64_id (f - popcount w)) by lia.
        apply IH; [lia| |exact (word_of _ _ _ Hws En)].
        pose proof (nthZ_Some_range _ _ _ En). lia.
      + transitivity (K4 1%nat f wI w).
        * unfold K4. cbv beta iota zeta fix. rewrite Hc. reflexivity.
        * rewrite EXIT by assumption. cbn [Select.Select32_skip]. rewrite Hc. reflexivity. }
  rewrite Ef. apply L1; [lia|lia|exact Hw1].
Qed.
