(** Proofs for C02: the results fit Go's int32 under the size hypothesis of DESIGN section 3
    ([64 * len(words) < 2^31]), and select is strictly increasing in [i]. *)
From Coq Require Import ZArith List Lia Bool ZifyNat.
From Low Require Import Lib.MachInt Lib.Bits Lib.BitSeq Lib.BitsExtra_c02 Model.Rank Model.Select
  Spec.RankSpec Spec.SelectSpec Proofs.RankProofs Proofs.SelectProofs Proofs.SelectMain.
Import ListNotations.
Open Scope Z_scope.

Lemma all_ones_count_le ws : zlen (all_ones ws) <= 64 * zlen ws.
Proof.
  rewrite zlen_all_ones. pose proof (count_true_le_length (flat ws)) as H.
  rewrite flat_length in H. unfold zlen. lia.
Qed.

Theorem spec_Select_int32 ws i : 64 * zlen ws < 2 ^ 31 -> 0 <= i < zlen (all_ones ws) ->
  0 <= fst (spec_Select ws i) < 2 ^ 31 /\ 0 <= snd (spec_Select ws i) < 2 ^ 31 /\ 0 <= i < 2 ^ 31.
Proof.
  intros Hsz Hi. pose proof (spec_Select_fst ws i Hi) as HF. pose proof (spec_Select_snd ws i Hi) as HS.
  cbv zeta in HF, HS. pose proof (all_ones_count_le ws). lia.
Qed.

Theorem spec_IndexSelect32_int32 ws x : 64 * zlen ws < 2 ^ 31 ->
  In x (spec_IndexSelect32 ws) -> 0 <= x < 2 ^ 31.
Proof.
  intros Hsz Hin. unfold spec_IndexSelect32 in Hin. cbv zeta in Hin.
  apply in_map_iff in Hin. destruct Hin as (k & <- & Hk). apply in_seq in Hk.
  assert (Hlt : (32 * k < length (all_ones ws))%nat) by lia.
  pose proof (nth_error_nth_Some (all_ones ws) (32 * k) 0 Hlt) as Hn.
  destruct (all_ones_nth ws _ _ Hn) as (H0 & Hl & _). unfold zlen in Hsz. lia.
Qed.

(** select is strictly increasing *)
Theorem spec_Select_increasing ws i j : 0 <= i -> i < j < zlen (all_ones ws) ->
  fst (spec_Select ws i) < fst (spec_Select ws j).
Proof.
  intros Hi Hj.
  destruct (spec_Select_fst ws i ltac:(lia)) as (Ha & Hra & Hba).
  destruct (spec_Select_fst ws j ltac:(lia)) as (Hb & Hrb & Hbb).
  destruct (Z.lt_ge_cases (fst (spec_Select ws i)) (fst (spec_Select ws j))) as [|Hge]; [assumption|exfalso].
  unfold rank1z in *.
  pose proof (rank1_mono (flat ws) (Z.to_nat (fst (spec_Select ws j))) (Z.to_nat (fst (spec_Select ws i))) ltac:(lia)).
  lia.
Qed.
