(** Equality of the definition generated from the Go source of bmtree.PathLen (coq/gen/Trans.v) and the model. *)
From Coq Require Import ZArith List Lia Bool.
From Low Require Import Lib.MachInt Lib.Bits Lib.BitSeq Lib.TransLib Proofs.TransEqLemmas.
From LowGen Require Trans.
Import ListNotations.
Open Scope Z_scope.

From Low Require Import Model.BmtreePath.

Lemma TransEq_bmtree_PathLen p : Trans.bmtree_PathLen p = PathLen p.
Proof.
  unfold Trans.bmtree_PathLen, PathLen. cbv zeta.
  pose proof (popcount_u32_range p). apply i32_id. lia.
Qed.
