(** C19 (widening) - schedule independence of threads with non-interfering footprints
    (each goroutine owns what it writes; what is shared is only read).  See Spec/Ownership.v. *)
From Coq Require Import List Arith Lia.
From Low Require Import Spec.Concurrency Spec.Ownership.
Import ListNotations.

Section Upd.
  Context {A : Type}.
  Fixpoint upd (j : nat) (x : A) (l : list A) {struct l} : list A :=
    match l with
    | [] => []
    | y :: t => match j with O => x :: t | S j' => y :: upd j' x t end
    end.

  Lemma nth_error_upd_eq : forall l j x y, nth_error l j = Some y -> nth_error (upd j x l) j = Some x.
  Proof. induction l as [|a l IH]; intros [|j] x y H; simpl in *; try discriminate; [reflexivity|eauto]. Qed.

  Lemma nth_error_upd_neq : forall l j i x, i <> j -> nth_error (upd j x l) i = nth_error l i.
  Proof.
    induction l as [|a l IH]; intros [|j] [|i] x H; simpl; try reflexivity; try congruence.
    apply IH. congruence.
  Qed.

  Lemma upd_length : forall l j x, length (upd j x l) = length l.
  Proof. induction l as [|a l IH]; intros [|j] x; simpl; auto. Qed.
End Upd.

Section OwnProofs.
  Variables loc val res : Type.
  Notation lmem := (loc -> val).
  Notation lop := (op lmem res).
  Notation lthread := (thread lmem res).
  Notation ltstate := (tstate lmem res).

  (** one step of thread [j], by cases on its state *)
  Lemma step_at_spec : forall (sts : list ltstate) j (m : lmem),
    match nth_error sts j with
    | Some (o :: rest, out) =>
        step_at j m sts = (fst (o m), upd j (rest, out ++ [snd (o m)]) sts)
    | _ => step_at j m sts = (m, sts)
    end.
  Proof.
    induction sts as [|st sts IH]; intros j m.
    - destruct j; reflexivity.
    - destruct j as [|j]; simpl.
      + destruct st as [[|o rest] out]; simpl; [reflexivity|]. destruct (o m); reflexivity.
      + specialize (IH j m). destruct (nth_error sts j) as [[[|o rest] out]|]; rewrite IH; reflexivity.
  Qed.

  Lemma run_sched_app : forall s1 s2 (c : config lmem res),
    run_sched (s1 ++ s2) c = run_sched s2 (run_sched s1 c).
  Proof. induction s1 as [|i s1 IH]; intros s2 c; simpl; [reflexivity|apply IH]. Qed.

  Lemma run_alone_snoc : forall (t : lthread) (o : lop) m,
    run_alone (t ++ [o]) m =
      (fst (o (fst (run_alone t m))), snd (run_alone t m) ++ [snd (o (fst (run_alone t m)))]).
  Proof.
    induction t as [|a t IH]; intros o m; simpl.
    - destruct (o m); reflexivity.
    - destruct (a m) as [m1 r]. rewrite (IH o m1). destruct (run_alone t m1) as [m2 rs]. reflexivity.
  Qed.

  Lemma skipn_cons_firstn : forall {A} k (t : list A) x rest, skipn k t = x :: rest ->
    firstn (S k) t = firstn k t ++ [x] /\ skipn (S k) t = rest /\ In x t.
  Proof.
    induction k as [|k IH]; intros t x rest H.
    - simpl in H. subst t. simpl. repeat split; auto.
    - destruct t as [|a t]; [discriminate|]. simpl in H. destruct (IH t x rest H) as (H1 & H2 & H3).
      repeat split.
      + change (firstn (S (S k)) (a :: t)) with (a :: firstn (S k) t). rewrite H1. reflexivity.
      + exact H2.
      + right. exact H3.
  Qed.

  Lemma skipn_nil_firstn : forall {A} k (t : list A), skipn k t = [] ->
    firstn (S k) t = firstn k t /\ skipn (S k) t = [].
  Proof.
    induction k as [|k IH]; intros t H.
    - simpl in H. subst t. split; reflexivity.
    - destruct t as [|a t]; [split; reflexivity|]. simpl in H. destruct (IH t H) as (H1 & H2). split.
      + change (firstn (S (S k)) (a :: t)) with (a :: firstn (S k) t). rewrite H1. reflexivity.
      + exact H2.
  Qed.

  Lemma run_alone_firstn : forall (t : lthread) (m : lmem) k,
    snd (run_alone (firstn k t) m) = firstn k (snd (run_alone t m)).
  Proof.
    induction t as [|o t IH]; intros m [|k]; simpl; try reflexivity.
    destruct (o m) as [m1 r]. specialize (IH m1 k).
    destruct (run_alone (firstn k t) m1) as [m2 rs]. destruct (run_alone t m1) as [m3 rs']. simpl in *.
    rewrite IH. reflexivity.
  Qed.

  Section Main.
    Variables (ts : list lthread) (fps : list (footprint loc)) (m0 : lmem).
    Hypothesis Hlen : length ts = length fps.
    Hypothesis Hresp : forall i t fp, nth_error ts i = Some t -> nth_error fps i = Some fp ->
      Forall (respects fp) t.
    Hypothesis Hni : non_interfering fps.

    (** the invariant after the schedule [s] *)
    Definition inv (s : list nat) (c : config lmem res) : Prop :=
      length (snd c) = length ts /\
      (forall i t fp, nth_error ts i = Some t -> nth_error fps i = Some fp ->
         let k := count_occ Nat.eq_dec s i in
         nth_error (snd c) i = Some (skipn k t, snd (run_alone (firstn k t) m0)) /\
         agree_on (fp_all fp) (fst c) (fst (run_alone (firstn k t) m0))) /\
      (forall l, unowned fps l -> fst c l = m0 l).

    Lemma inv_init : inv [] (init_config m0 ts).
    Proof.
      unfold inv, init_config. simpl. split; [apply map_length|]. split.
      - intros i t fp Hi _. split.
        + clear Hlen Hresp Hni. revert i Hi. induction ts as [|a l IH]; intros [|i] Hi; simpl in *; try discriminate.
          * inversion Hi; subst. reflexivity.
          * apply IH. exact Hi.
        + intros l _. reflexivity.
      - intros l _. reflexivity.
    Qed.

    Lemma count_snoc : forall s j i,
      count_occ Nat.eq_dec (s ++ [j]) i = count_occ Nat.eq_dec s i + (if Nat.eq_dec j i then 1 else 0).
    Proof. intros s j i. rewrite count_occ_app. simpl. destruct (Nat.eq_dec j i); reflexivity. Qed.

    Lemma inv_step : forall s j c, inv s c -> inv (s ++ [j]) (step_at j (fst c) (snd c)).
    Proof.
      intros s j [m sts] (HL & HT & HU). simpl fst in *. simpl snd in *.
      pose proof (step_at_spec sts j m) as Hs.
      destruct (nth_error sts j) as [[[|o rest] out]|] eqn:Ej.
      - (* thread j has finished *)
        rewrite Hs. unfold inv. simpl fst. simpl snd. split; [exact HL|]. split; [|exact HU].
        intros i t fp Hi Hf. rewrite count_snoc. destruct (Nat.eq_dec j i) as [->|Hne].
        + destruct (HT i t fp Hi Hf) as [H1 H2]. rewrite Ej in H1. inversion H1 as [[Hsk Hout]].
          symmetry in Hsk. destruct (skipn_nil_firstn _ _ Hsk) as [F1 F2].
          rewrite Nat.add_1_r. cbv zeta. rewrite F1, F2. split.
          * rewrite Ej, <- Hout. reflexivity.
          * exact H2.
        + rewrite Nat.add_0_r. apply (HT i t fp Hi Hf).
      - (* thread j executes o *)
        rewrite Hs. unfold inv. simpl fst. simpl snd.
        assert (Hjlt : j < length ts). { rewrite <- HL. apply nth_error_Some. rewrite Ej. discriminate. }
        destruct (nth_error ts j) as [tj|] eqn:Etj; [|apply nth_error_None in Etj; lia].
        destruct (nth_error fps j) as [fj|] eqn:Efj; [|apply nth_error_None in Efj; lia].
        destruct (HT j tj fj Etj Efj) as [Hst Hag]. rewrite Ej in Hst. inversion Hst as [[Hsk Hout]].
        symmetry in Hsk. destruct (skipn_cons_firstn _ _ _ _ Hsk) as (F1 & F2 & Hin).
        pose proof (Hresp j tj fj Etj Efj) as HR. rewrite Forall_forall in HR.
        destruct (HR o Hin) as [Hw Hd].
        split; [rewrite upd_length; exact HL|]. split.
        + intros i t fp Hi Hf. rewrite count_snoc. destruct (Nat.eq_dec j i) as [<-|Hne].
          * rewrite Etj in Hi. inversion Hi; subst t. rewrite Efj in Hf. inversion Hf; subst fp.
            rewrite Nat.add_1_r. cbv zeta. rewrite F1, F2, run_alone_snoc. simpl fst. simpl snd.
            destruct (Hd m _ Hag) as [Hr Hm]. split.
            -- rewrite (nth_error_upd_eq _ _ _ _ Ej). rewrite Hr. reflexivity.
            -- exact Hm.
          * rewrite Nat.add_0_r. destruct (HT i t fp Hi Hf) as [H1 H2]. split.
            -- rewrite nth_error_upd_neq by (intro; apply Hne; symmetry; assumption). exact H1.
            -- intros l Hl. rewrite Hw; [apply H2; exact Hl|].
               intro Hwl. apply (Hni j i fj fp Hne Efj Hf l Hwl Hl).
        + intros l Hl. rewrite Hw; [apply HU; exact Hl|]. apply Hl. eapply nth_error_In; eassumption.
      - (* no such thread *)
        rewrite Hs. unfold inv. simpl fst. simpl snd. split; [exact HL|]. split; [|exact HU].
        intros i t fp Hi Hf. rewrite count_snoc. destruct (Nat.eq_dec j i) as [->|Hne].
        + exfalso. apply nth_error_None in Ej. assert (i < length ts) by (apply nth_error_Some; rewrite Hi; discriminate). lia.
        + rewrite Nat.add_0_r. apply (HT i t fp Hi Hf).
    Qed.

    Lemma inv_run : forall s, inv s (run_sched s (init_config m0 ts)).
    Proof.
      induction s as [|j s IH] using rev_ind; [apply inv_init|].
      rewrite run_sched_app. simpl. apply inv_step. exact IH.
    Qed.
  End Main.

  (** THEOREM.  Threads whose operations respect pairwise non-interfering footprints: under EVERY schedule
      each thread obtains the results of its run alone on the initial memory (the first [k] of them after [k]
      steps), the locations of its footprint hold what its run alone leaves there, and a location nobody may
      write keeps its initial value. *)
  Theorem owned_schedule_independent :
    forall (ts : list lthread) (fps : list (footprint loc)) (m0 : lmem) (s : list nat),
    length ts = length fps ->
    (forall i t fp, nth_error ts i = Some t -> nth_error fps i = Some fp -> Forall (respects fp) t) ->
    non_interfering fps ->
    let c := run_sched s (init_config m0 ts) in
    (forall i t fp, nth_error ts i = Some t -> nth_error fps i = Some fp ->
       let k := count_occ Nat.eq_dec s i in
       nth_error (results c) i = Some (firstn k (snd (run_alone t m0))) /\
       agree_on (fp_all fp) (fst c) (fst (run_alone (firstn k t) m0))) /\
    (forall l, unowned fps l -> fst c l = m0 l).
  Proof.
    intros ts fps m0 s Hlen Hresp Hni c.
    destruct (inv_run ts fps m0 Hlen Hresp Hni s) as (HL & HT & HU). fold c in HL, HT, HU.
    split; [|exact HU].
    intros i t fp Hi Hf k. destruct (HT i t fp Hi Hf) as [H1 H2]. fold k in H1, H2. split; [|exact H2].
    unfold results.
    assert (E : nth_error (map snd (snd c)) i = option_map snd (nth_error (snd c) i)).
    { generalize (snd c). clear. intros l. revert i. induction l as [|a l IH]; intros [|i]; simpl; auto. }
    rewrite E, H1. simpl. f_equal.
    apply run_alone_firstn.
  Qed.
End OwnProofs.
