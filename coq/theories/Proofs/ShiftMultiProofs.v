(** shiftMulti (bmtree/partial_tree.go) computes the sum, over the set bits k of
    its second operand, of the first operand shifted right by (shift - k); the
    fuel of the model (65) suffices for every uint64.  Used by C03 (both operand
    orders) and reusable by C04. *)
From Coq Require Import ZArith List Lia Bool.
From Low Require Import Lib.MachInt Lib.Bits Lib.BitsExtra_tree Model.BmtreeIndex.
Import ListNotations.
Open Scope Z_scope.

(** the sum over the low [n] bits of [b]: bit k contributes [a >> (s - k)] *)
Fixpoint sumbits (n : nat) (a b s : Z) : Z :=
  match n with
  | O => 0
  | S n' => (if Z.odd b then a / 2 ^ s else 0) + sumbits n' a (b / 2) (s - 1)
  end.

Lemma sumbits_b_zero n : forall a s, sumbits n a 0 s = 0.
Proof. induction n as [|n IH]; intros a s; [reflexivity|]. cbn [sumbits]. change (0 / 2) with 0. rewrite IH. reflexivity. Qed.

Lemma sumbits_a_zero n : forall b s, sumbits n 0 b s = 0.
Proof.
  induction n as [|n IH]; intros b s; [reflexivity|]. cbn [sumbits]. rewrite IH.
  rewrite Zdiv_0_l. now destruct (Z.odd b).
Qed.

Lemma sumbits_nonneg n : forall a b s, 0 <= a -> 0 <= sumbits n a b s.
Proof.
  induction n as [|n IH]; intros a b s Ha; cbn [sumbits]; [lia|].
  specialize (IH a (b / 2) (s - 1) Ha).
  destruct (Z.odd b); [|lia].
  destruct (Z.lt_ge_cases s 0) as [Hs|Hs].
  - rewrite Z.pow_neg_r by lia. rewrite Zdiv_0_r. lia.
  - pose proof (pow2_pos s Hs). pose proof (Z.div_pos a (2 ^ s)). lia.
Qed.

(** bits above the width of [b] do not contribute *)
Lemma sumbits_small n : forall m a b s, (n <= m)%nat -> 0 <= b < 2 ^ Z.of_nat n ->
  sumbits m a b s = sumbits n a b s.
Proof.
  induction n as [|n IH]; intros m a b s Hm Hb.
  - change (2 ^ Z.of_nat 0) with 1 in Hb. replace b with 0 by lia. now rewrite !sumbits_b_zero.
  - destruct m as [|m]; [lia|]. cbn [sumbits]. f_equal. apply IH; [lia|].
    rewrite pow2_S in Hb. apply half_bound; lia.
Qed.

(** skipping [j] trailing zeros of [b] *)
Lemma sumbits_shift j : forall n a m s,
  sumbits (j + n) a (2 ^ Z.of_nat j * m) s = sumbits n a m (s - Z.of_nat j).
Proof.
  induction j as [|j IH]; intros n a m s.
  - cbn [plus]. change (2 ^ Z.of_nat 0) with 1. f_equal; lia.
  - cbn [plus sumbits]. rewrite pow2_S.
    replace (2 * 2 ^ Z.of_nat j * m) with (2 * (2 ^ Z.of_nat j * m)) by lia.
    rewrite Z.odd_mul, Z.odd_2. cbn [andb].
    replace (2 * (2 ^ Z.of_nat j * m) / 2) with (2 ^ Z.of_nat j * m)
      by (rewrite (Z.mul_comm 2), Z.div_mul by lia; reflexivity).
    rewrite IH. cbn [Z.add]. f_equal. lia.
Qed.

(** the top bit *)
Lemma sumbits_snoc n : forall a b s (c : bool), 0 <= b < 2 ^ Z.of_nat n ->
  sumbits (S n) a (b + Z.b2z c * 2 ^ Z.of_nat n) s =
  sumbits n a b s + (if c then a / 2 ^ (s - Z.of_nat n) else 0).
Proof.
  induction n as [|n IH]; intros a b s c Hb.
  - change (2 ^ Z.of_nat 0) with 1 in *. replace b with 0 by lia. cbn [sumbits].
    replace (0 + Z.b2z c * 1) with (Z.b2z c) by lia. rewrite Z.sub_0_r.
    destruct c; cbn [Z.b2z]; [change (Z.odd 1) with true|change (Z.odd 0) with false]; cbv iota; lia.
  - rewrite pow2_S in Hb.
    assert (Hh : 0 <= b / 2 < 2 ^ Z.of_nat n) by (apply half_bound; lia).
    change (sumbits (S (S n)) a (b + Z.b2z c * 2 ^ Z.of_nat (S n)) s) with
      ((if Z.odd (b + Z.b2z c * 2 ^ Z.of_nat (S n)) then a / 2 ^ s else 0) +
       sumbits (S n) a ((b + Z.b2z c * 2 ^ Z.of_nat (S n)) / 2) (s - 1)).
    rewrite pow2_S.
    replace (b + Z.b2z c * (2 * 2 ^ Z.of_nat n)) with (b + (Z.b2z c * 2 ^ Z.of_nat n) * 2) by lia.
    set (X := Z.b2z c * 2 ^ Z.of_nat n).
    replace (Z.odd (b + X * 2)) with (Z.odd b) by (rewrite (Z.mul_comm X 2); symmetry; apply Z.odd_add_mul_2).
    rewrite Z.div_add by lia. unfold X.
    rewrite IH by exact Hh. cbn [sumbits].
    replace (s - 1 - Z.of_nat n) with (s - Z.of_nat (S n)) by lia. lia.
Qed.

(** halving the shifted operand = one more shift, as long as no shift count is negative *)
Lemma sumbits_half n : forall a b s, Z.of_nat n <= s + 1 ->
  sumbits n a b (s + 1) = sumbits n (a / 2) b s.
Proof.
  induction n as [|n IH]; intros a b s Hn; [reflexivity|]. cbn [sumbits].
  rewrite Nat2Z.inj_succ in Hn.
  replace (s + 1 - 1) with ((s - 1) + 1) by lia. rewrite IH by lia.
  rewrite pow2_succ by lia. rewrite <- Z.div_div by (pose proof (pow2_pos s); lia). reflexivity.
Qed.

(** a high part of the shifted operand contributes itself times the selected weights *)
Lemma sumbits_add_hi n : forall c p b s, Z.of_nat n <= s + 1 -> 0 <= b < 2 ^ Z.of_nat n ->
  sumbits n (c * 2 ^ s + p) b s = c * b + sumbits n p b s.
Proof.
  induction n as [|n IH]; intros c p b s Hn Hb.
  - change (2 ^ Z.of_nat 0) with 1 in Hb. replace b with 0 by lia. cbn [sumbits]. lia.
  - rewrite Nat2Z.inj_succ in Hn. rewrite pow2_S in Hb.
    assert (Hh : 0 <= b / 2 < 2 ^ Z.of_nat n) by (apply half_bound; lia).
    pose proof (div2_decomp b) as Hd. cbn [sumbits].
    destruct n as [|n].
    + change (2 ^ Z.of_nat 0) with 1 in Hh. replace (b / 2) with 0 in * by lia. cbn [sumbits].
      rewrite Z.div_add_l by (pose proof (pow2_pos s); lia).
      destruct (Z.odd b); cbn [Z.b2z] in Hd; lia.
    + assert (1 <= s) by lia.
      replace (c * 2 ^ s + p) with ((2 * c) * 2 ^ (s - 1) + p) at 2
        by (rewrite (pow2_split s (s - 1)) by lia; replace (s - (s - 1)) with 1 by lia; change (2 ^ 1) with 2; lia).
      rewrite IH by lia.
      rewrite Z.div_add_l by (pose proof (pow2_pos s); lia).
      destruct (Z.odd b); cbn [Z.b2z] in Hd; lia.
Qed.

(** * the loop *)

Lemma shiftMulti_loop_zero fuel a s rst : shiftMulti_loop (S fuel) a 0 s rst = Some rst.
Proof. reflexivity. Qed.

Lemma u64_add_idemp x y : u64 (u64 x + y) = u64 (x + y).
Proof. unfold u64. apply Zplus_mod_idemp_l. Qed.

Lemma odd_succ_div t m : 1 <= t -> (2 ^ t * m + 1) / 2 ^ t = m.
Proof.
  intros Ht. assert (2 <= 2 ^ t).
  { replace t with ((t - 1) + 1) by lia. rewrite pow2_succ by lia. pose proof (pow2_pos (t - 1)). lia. }
  rewrite Z.mul_comm. apply div_hi_lo; lia.
Qed.

Lemma shiftMulti_loop_spec : forall fuel n a b s rst,
  (n < fuel)%nat -> (n <= 64)%nat -> Z.odd b = true -> 0 <= b < 2 ^ Z.of_nat n ->
  Z.of_nat n <= s + 1 -> s < 64 ->
  shiftMulti_loop fuel a b s rst = Some (u64 (rst + sumbits n a b s)).
Proof.
  induction fuel as [|f IH]; intros n a b s rst Hf Hn64 Hodd Hb Hns Hs; [lia|].
  assert (Hb1 : 1 <= b) by (destruct (Z.eq_dec b 0) as [->|]; [discriminate Hodd|lia]).
  destruct n as [|n]; [change (2 ^ Z.of_nat 0) with 1 in Hb; lia|].
  assert (H64 : 2 ^ Z.of_nat (S n) <= 2 ^ 64) by (apply pow2_le; lia).
  cbn [shiftMulti_loop].
  destruct (Z.eqb_spec b 0) as [|_]; [lia|].
  rewrite (shr64_div a s) by lia.
  rewrite (u64_id (b - 1)) by lia.
  destruct (Z.eq_dec b 1) as [->|Hne].
  - (* last bit: b - 1 = 0, TrailingZeros64 = 64, b >> 64 = 0 *)
    change (1 - 1) with 0. change (tz64 0) with 64. change (shr64 1 64) with 0.
    destruct f as [|f]; [lia|]. rewrite shiftMulti_loop_zero.
    cbn [sumbits]. change (Z.odd 1) with true. cbv iota. change (1 / 2) with 0.
    rewrite sumbits_b_zero. do 2 f_equal. lia.
  - destruct (tz_decomp 64 (b - 1)) as (y & Hy & Ht & E); [lia|]. fold (tz64 (b - 1)) in *.
    set (t := tz64 (b - 1)) in *.
    assert (Ht1 : 1 <= t).
    { destruct (Z.eq_dec t 0) as [Ht0|]; [|lia]. exfalso. rewrite Ht0 in E. change (2 ^ 0) with 1 in E.
      apply Z.odd_spec in Hodd. destruct Hodd as [m Hm]. lia. }
    assert (Htn : t < Z.of_nat (S n)) by (apply (tz_lt 64 (b - 1)); lia).
    assert (Eb : b = 2 ^ t * (2 * y + 1) + 1) by lia.
    rewrite (shr64_div b t) by lia.
    rewrite Eb at 1. rewrite odd_succ_div by exact Ht1.
    rewrite (u64_id (s - t)) by lia.
    set (n' := (S n - Z.to_nat t)%nat).
    assert (Hn' : Z.of_nat n' = Z.of_nat (S n) - t) by (unfold n'; lia).
    assert (Hb' : 0 <= 2 * y + 1 < 2 ^ Z.of_nat n').
    { split; [lia|]. rewrite Hn'. rewrite (pow2_split (Z.of_nat (S n)) t) in Hb by lia.
      pose proof (pow2_pos t Ht). pose proof (pow2_pos (Z.of_nat (S n) - t)). nia. }
    rewrite (IH n') ; try lia.
    + rewrite u64_add_idemp. do 2 f_equal.
      (* sumbits (S n) a b s = a >> s + sumbits n' a (2y+1) (s - t) *)
      cbn [sumbits]. rewrite Hodd.
      replace (b / 2) with (2 ^ Z.of_nat (Z.to_nat (t - 1)) * (2 * y + 1)).
      2:{ rewrite Z2Nat.id by lia. rewrite Eb.
          rewrite (pow2_split t (t - 1)) by lia. replace (t - (t - 1)) with 1 by lia. change (2 ^ 1) with 2.
          replace (2 * 2 ^ (t - 1) * (2 * y + 1) + 1) with (1 + (2 ^ (t - 1) * (2 * y + 1)) * 2) by lia.
          rewrite Z.div_add by lia. reflexivity. }
      replace n with (Z.to_nat (t - 1) + n')%nat by lia.
      rewrite sumbits_shift. rewrite Z2Nat.id by lia.
      replace (s - 1 - (t - 1)) with (s - t) by lia. lia.
    + rewrite Z.add_comm, Z.odd_add_mul_2. reflexivity.
Qed.

(** shiftMulti a b s = Σ_{k : bit k of b set} a >> (s - k), whenever every bit of b is at a position <= s < 64 *)
Lemma shiftMulti_spec a b s : 0 <= s < 64 -> 0 <= b < 2 ^ (s + 1) ->
  shiftMulti a b s = Some (u64 (sumbits (Z.to_nat (s + 1)) a b s)).
Proof.
  intros Hs Hb. unfold shiftMulti.
  destruct (Z.eq_dec b 0) as [->|Hne].
  - change (tz64 0) with 64. change (shr64 0 64) with 0. cbn [shiftMulti_loop Z.eqb].
    rewrite sumbits_b_zero. reflexivity.
  - destruct (tz_decomp 64 b) as (y & Hy & Ht & E); [lia|]. fold (tz64 b) in *.
    set (t := tz64 b) in *.
    assert (Htn : t < s + 1) by (apply (tz_lt 64 b); lia).
    rewrite (shr64_div b t) by lia.
    rewrite E at 1. rewrite Z.mul_comm, Z.div_mul by (pose proof (pow2_pos t Ht); lia).
    rewrite (u64_id (s - t)) by lia.
    set (n' := Z.to_nat (s + 1 - t)).
    assert (Hb' : 0 <= 2 * y + 1 < 2 ^ Z.of_nat n').
    { split; [lia|]. unfold n'. rewrite Z2Nat.id by lia. rewrite (pow2_split (s + 1) t) in Hb by lia.
      pose proof (pow2_pos t Ht). pose proof (pow2_pos (s + 1 - t)). nia. }
    rewrite (shiftMulti_loop_spec 65 n'); try (unfold n'; lia).
    + do 2 f_equal. cbn [Z.add].
      replace (Z.to_nat (s + 1)) with (Z.to_nat t + n')%nat by (unfold n'; lia).
      transitivity (sumbits (Z.to_nat t + n') a (2 ^ Z.of_nat (Z.to_nat t) * (2 * y + 1)) s).
      * rewrite sumbits_shift. rewrite Z2Nat.id by lia. reflexivity.
      * f_equal. rewrite Z2Nat.id by lia. symmetry. exact E.
    + rewrite Z.add_comm, Z.odd_add_mul_2. reflexivity.
    + exact Hb'.
Qed.

(** the fuel never runs out on a uint64 whose set bits are all at positions <= shift *)
Lemma shiftMulti_fuel a b s : 0 <= s < 64 -> 0 <= b < 2 ^ (s + 1) -> shiftMulti a b s <> None.
Proof. intros Hs Hb. rewrite shiftMulti_spec by assumption. discriminate. Qed.

(** the same sum written as a sum over the positions 0 .. n-1 (the form of DESIGN section 6:
    Σ_{k : bit k of b set} a >> (s - k)) *)
Definition zsum (l : list Z) : Z := fold_right Z.add 0 l.

Lemma sumbits_as_sum n : forall a b s,
  sumbits n a b s =
  zsum (map (fun k => if Z.testbit b (Z.of_nat k) then a / 2 ^ (s - Z.of_nat k) else 0) (seq 0 n)).
Proof.
  induction n as [|n IH]; intros a b s; [reflexivity|].
  cbn [sumbits seq map zsum fold_right]. rewrite Z.bit0_odd, Z.sub_0_r. f_equal.
  rewrite IH. rewrite <- seq_shift, map_map. unfold zsum. f_equal. apply map_ext. intros k.
  rewrite <- Z.div2_div, Z.div2_spec, Z.shiftr_spec by lia.
  replace (Z.of_nat k + 1) with (Z.of_nat (S k)) by lia.
  replace (s - 1 - Z.of_nat k) with (s - Z.of_nat (S k)) by lia. reflexivity.
Qed.

Lemma shiftMulti_sum a b s : 0 <= s < 64 -> 0 <= b < 2 ^ (s + 1) ->
  shiftMulti a b s =
  Some (u64 (zsum (map (fun k => if Z.testbit b (Z.of_nat k) then a / 2 ^ (s - Z.of_nat k) else 0)
                       (seq 0 (Z.to_nat (s + 1)))))).
Proof. intros Hs Hb. rewrite shiftMulti_spec by assumption. now rewrite sumbits_as_sum. Qed.
