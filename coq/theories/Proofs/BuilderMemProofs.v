(** C12, Builder histories over caller-supplied buffers and with roll-backs: the invariant of
    Proofs/BuilderProofs.v is carried through roll-backs and holds from any well-formed start. *)
From Coq Require Import ZArith List Lia Bool Sorted.
From Low Require Import Lib.MachInt Lib.Bits Lib.BitSeq Lib.BitsExtra_bm2 Lib.BitsExtra_bm12
  Model.BitmapUtil Model.BuilderOps Model.BitmapOf Model.BuilderMem Spec.OfSpec Spec.BuilderMemSpec
  Proofs.OfProofs Proofs.OfInspect Proofs.OfRoundTrip Proofs.BuilderProofs.
Import ListNotations.
Open Scope Z_scope.

Lemma wbit_firstn ws (k : nat) q : 0 <= q ->
  wbit (firstn k ws) q = wbit ws q && (q <? 64 * Z.of_nat k).
Proof.
  intros Hq. unfold wbit.
  assert (Hd : 0 <= q / 64) by (apply Z.div_pos; lia).
  pose proof (Z.div_mod q 64 ltac:(lia)). pose proof (Z.mod_pos_bound q 64 ltac:(lia)).
  destruct (Z.ltb_spec q (64 * Z.of_nat k)) as [Hlt|Hge].
  - rewrite andb_true_r. f_equal. symmetry.
    rewrite <- (firstn_skipn k ws) at 1.
    destruct (Nat.lt_ge_cases (Z.to_nat (q / 64)) (length (firstn k ws))) as [Hin|Hout].
    + now rewrite app_nth1.
    + (* firstn k ws is shorter than k: ws itself is that short *)
      rewrite firstn_length in Hout.
      assert (length ws <= Z.to_nat (q / 64))%nat by lia.
      rewrite (nth_overflow (firstn k ws)) by (rewrite firstn_length; lia).
      rewrite firstn_skipn. now rewrite nth_overflow.
  - rewrite andb_false_r. rewrite nth_overflow; [apply Z.bits_0|].
    rewrite firstn_length. lia.
Qed.

Lemma words_ok_firstn k ws : words_ok ws -> words_ok (firstn k ws).
Proof.
  intros H. unfold words_ok in *. rewrite <- (firstn_skipn k ws) in H. apply Forall_app in H. tauto.
Qed.

Theorem rollback_inv a b k :
  binv a b -> 0 <= k -> 64 * k <= aoff a ->
  exists b', rollback b k = Some b' /\ binv (amstep a (MRollback k)) b'.
Proof.
  intros [(Hoff & Hok & Hones) Hr] Hk Hle. unfold rollback.
  assert (Hkl : k <= zlen (Words b)) by lia.
  destruct (Z.leb_spec 0 k); [|lia]. destruct (Z.leb_spec k (zlen (Words b))); [|lia]. cbn [andb].
  eexists. split; [reflexivity|]. unfold binv, builder_ok. cbn [Words Offset amstep abits aoff].
  split; [split; [reflexivity|split; [now apply words_ok_firstn|]]|].
  - apply ones_usort_intro.
    + intros q Hq. apply filter_In in Hq. destruct Hq as [Hq _]. eapply abits_nonneg; eauto.
    + intros q Hq. rewrite wbit_firstn by exact Hq. rewrite Z2Nat.id by lia.
      rewrite andb_true_iff, (In_ones_usort _ _ q Hones Hq), filter_In. tauto.
  - unfold zlen. rewrite firstn_length. unfold zlen in Hkl. lia.
Qed.

Theorem mstep_inv a b o :
  binv a b -> mop_dom a o = true -> exists b', mstep b o = Some b' /\ binv (amstep a o) b'.
Proof.
  intros Hinv Hdom. destruct o as [o|k]; cbn [mop_dom mstep amstep] in *.
  - now apply bstep_inv.
  - apply andb_true_iff in Hdom. destruct Hdom as [H1 H2]. apply rollback_inv; [exact Hinv|lia|lia].
Qed.

Theorem mrun_inv ops : forall a b,
  binv a b -> mhist_dom a ops = true ->
  exists bs, mrun b ops = Some bs /\ Forall2 binv (amrun a ops) bs.
Proof.
  induction ops as [|o ops IH]; intros a b Hinv Hdom.
  - exists [b]. split; [reflexivity|]. constructor; [exact Hinv|constructor].
  - cbn [mhist_dom] in Hdom. apply andb_true_iff in Hdom. destruct Hdom as [Ho Hdom].
    destruct (mstep_inv a b o Hinv Ho) as (b' & E & Hinv').
    destruct (IH (amstep a o) b' Hinv' Hdom) as (bs & Ebs & Hall).
    exists (b :: bs). cbn [mrun amrun]. rewrite E, Ebs. split; [reflexivity|]. constructor; assumption.
Qed.

Lemma start_inv ws0 off0 : start_dom ws0 off0 = true ->
  binv (abs_of ws0 off0) {| Words := ws0; Offset := off0 |}.
Proof.
  unfold start_dom. rewrite !andb_true_iff, !Z.leb_le. intros [[Hok H0] H1].
  unfold binv, builder_ok, abs_of. cbn [Words Offset abits aoff].
  split; [split; [reflexivity|split; [now apply words_okb_ok|]]|lia].
  symmetry. apply usort_id. apply ones_sorted.
Qed.

(** from a builder literal over any well-formed buffer content, through any history of Extend / Set / roll-back:
    no panic, and after EVERY call Offset and the set of 1-bits of Words are those of the abstract machine —
    in particular nothing that was cut off by a roll-back, and nothing that lies beyond Words in the caller's
    buffer, ever reappears *)
Theorem Builder_mem_history ws0 off0 ops :
  start_dom ws0 off0 = true -> mhist_dom (abs_of ws0 off0) ops = true ->
  exists bs, mrun {| Words := ws0; Offset := off0 |} ops = Some bs /\
    Forall2 (fun a b => builder_ok a (Words b) (Offset b) /\ 0 <= Offset b <= 64 * zlen (Words b))
            (amrun (abs_of ws0 off0) ops) bs.
Proof.
  intros Hs Hd. destruct (mrun_inv ops _ _ (start_inv ws0 off0 Hs) Hd) as (bs & E & H).
  exists bs. split; [exact E|]. eapply Forall2_imp; [|exact H]. intros a b Hb. exact Hb.
Qed.
