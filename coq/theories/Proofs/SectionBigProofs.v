(** Proofs for the two extra drivers of Model/SectionBig.v (C18): the position-fault run
    refines the abstract machine driven the same way; two callers, A's WriteAt held inside
    the underlying writer while B's call runs: both behave as made from the same state,
    in whatever order they are thought to happen. *)
From Coq Require Import ZArith List Bool Lia.
From Low Require Import Lib.MachInt Lib.BitSeq Model.SectionWriter Spec.SectionWriterSpec
  Model.SectionBig Spec.SectionBigSpec Run.C18 Proofs.SectionWriterProofs Proofs.SectionWriterCalls.
Import ListNotations.
Open Scope Z_scope.

Lemma pf_resp_ok F e a len : script_ok (pf_resp F e a len).
Proof.
  unfold pf_resp, script_ok. destruct (F <? 0); [constructor|].
  destruct (a + len <=? F); constructor; [cbn [fst]; lia|constructor].
Qed.

Lemma step_pf_refines o n F e s pos c :
  sec_ok o n -> R o n s pos -> call_ok c ->
  let '(s', r) := step_pf F e s c in
  let '(pos', ar) := astep_pf o n F e pos (to_acall c) in
  R o n s' pos' /\ obs r = ar.
Proof.
  intros Hs HR Hc. unfold step_pf, astep_pf.
  change (@nil resp) with (@nil (Z * Z)%type).
  pose proof (step_refines o n s pos (@nil (Z * Z)%type) c Hs HR ltac:(constructor) Hc) as Hdry.
  unfold step_rel in Hdry.
  destruct (step s (@nil (Z * Z)%type) c) as [[s0 sc0] dry].
  destruct (astep o n pos (@nil (Z * Z)%type) (to_acall c)) as [[p0 asc0] adry].
  destruct Hdry as (_ & _ & (_ & Hu) & _). rewrite <- Hu.
  pose (sc := match ucalls dry with (a, bs) :: _ => pf_resp F e a (zlen bs) | [] => [] end).
  assert (Hsc : script_ok sc).
  { subst sc. destruct (ucalls dry) as [|[a bs] t]; [constructor|apply pf_resp_ok]. }
  change (let '(s'0, r0) := (let '(s'0, _, r0) := step s sc c in (s'0, r0)) in
          let '(pos'0, ar0) := (let '(pos'0, _, r0) := astep o n pos sc (to_acall c) in (pos'0, r0)) in
          R o n s'0 pos'0 /\ obs r0 = ar0).
  pose proof (step_refines o n s pos sc c Hs HR Hsc Hc) as Href. unfold step_rel in Href.
  destruct (step s sc c) as [[s' sc'] r].
  destruct (astep o n pos sc (to_acall c)) as [[pos' asc'] ar].
  destruct Href as (HR' & _ & Hr12 & _). destruct Hr12 as [Hr1 Hr2]. split; [exact HR'|].
  unfold obs. destruct ar; cbn [fst snd] in *. now subst.
Qed.

Lemma run_pf_refines_from o n F e : sec_ok o n ->
  forall cs s pos, R o n s pos -> Forall call_ok cs ->
  map obs (run_pf F e s cs) = arun_pf o n F e pos (map to_acall cs).
Proof.
  intros Hs. induction cs as [|c cs IH]; intros s pos HR Hcs; [reflexivity|].
  inversion Hcs as [|? ? Hc Hcs']; subst. cbn [run_pf arun_pf map].
  pose proof (step_pf_refines o n F e s pos c Hs HR Hc) as Hstep.
  destruct (step_pf F e s c) as [s' r].
  destruct (astep_pf o n F e pos (to_acall c)) as [pos' ar].
  destruct Hstep as [HR' Hr]. cbn [map]. rewrite Hr. f_equal. now apply IH.
Qed.

(** a writer that accepts bytes below an absolute offset and fails from there on: the section
    writer over it refines the cursor/length machine over it, for buffers of any length *)
Theorem run_pf_refines o n F e cs :
  sec_ok o n -> Forall call_ok cs ->
  map obs (run_pf F e (NewSectionWriter o n) cs) = arun_pf o n F e 0 (map to_acall cs).
Proof. intros Hs Hcs. apply run_pf_refines_from; auto. now apply R_new. Qed.

(** * two callers *)

(** WriteAt looks at the section window only, never at the cursor *)
Lemma WriteAt_window s s' sc p a : base s = base s' -> limit s = limit s' ->
  snd (WriteAt s sc p a) = snd (WriteAt s' sc p a) /\
  snd (fst (WriteAt s sc p a)) = snd (fst (WriteAt s' sc p a)).
Proof.
  intros Hb Hl. unfold WriteAt. rewrite Hb, Hl.
  destruct ((a <? 0) || (a >=? i64 (limit s' - base s'))); [split; reflexivity|].
  destruct (zlen p >? i64 (limit s' - i64 (a + base s'))).
  - destruct (under sc _) as [[k e] sc']. split; reflexivity.
  - destruct (under sc p) as [[k e] sc']. split; reflexivity.
Qed.

(** no call moves the window *)
Lemma step_window s sc c : base (fst (fst (step s sc c))) = base s /\ limit (fst (fst (step s sc c))) = limit s.
Proof.
  destruct c as [p|p a|d wh|]; cbn [step].
  - unfold Write. destruct (off s >=? limit s); [split; reflexivity|].
    destruct (if zlen p >? i64 (limit s - off s) then _ else _) as [p' err].
    destruct (under sc p') as [[k e] sc']. split; reflexivity.
  - rewrite (WriteAt_state s sc p a). split; reflexivity.
  - unfold Seek.
    destruct (if wh =? 0 then Some (i64 (d + base s)) else if wh =? 1 then Some (i64 (d + off s))
              else if wh =? 2 then Some (i64 (d + limit s)) else None) as [t|]; [|split; reflexivity].
    destruct (t <? base s); split; reflexivity.
  - split; reflexivity.
Qed.

(** A = WriteAt and B = any call on one writer: A's result is the same before B, after B, or
    (the model of the concurrent case) from the state both found; and A leaves the state to B
    untouched *)
Theorem writeat_order_independent s pA oA cB :
  let rA := snd (WriteAt s [] pA oA) in
  fst (fst (WriteAt s [] pA oA)) = s /\
  snd (WriteAt (fst (fst (step s [] cB))) [] pA oA) = rA.
Proof.
  cbv zeta. split; [apply WriteAt_state|].
  destruct (step_window s [] cB) as [Hb Hl].
  apply (WriteAt_window _ s [] pA oA Hb Hl).
Qed.

(** the two-caller model refines the abstract machine *)
Theorem concurrent_refines o n pos0 pA oA cB :
  sec_ok o n -> 0 <= pos0 -> o + pos0 <= 2^63 - 1 -> - 2^63 <= oA < 2^63 -> call_ok cB ->
  (let '(rA, rB) := concurrent o n pos0 pA oA cB in (obs rA, obs rB))
  = aconcurrent o n pos0 pA oA (to_acall cB).
Proof.
  intros Hs Hp0 Hp1 HoA HcB. pose proof Hs as (Ho & Hn & Hon). unfold concurrent, aconcurrent.
  change (@nil resp) with (@nil (Z * Z)%type).
  pose proof (seek_refines o n (NewSectionWriter o n) 0 (@nil (Z * Z)%type) pos0 0 Hs (R_new o n Hs) ltac:(constructor) ltac:(lia)) as Hseek.
  unfold step_rel in Hseek.
  destruct (Seek (NewSectionWriter o n) pos0 0) as [s r0]. cbn [fst].
  destruct (astep o n 0 (@nil (Z * Z)%type) (ASeek pos0 0)) as [[pos asc] ar0].
  destruct Hseek as (HR & _ & _ & _).
  pose proof (writeat_refines o n s pos (@nil (Z * Z)%type) pA oA Hs HR ltac:(constructor) HoA) as HA.
  unfold step_rel in HA.
  destruct (WriteAt s (@nil (Z * Z)%type) pA oA) as [[sA scA] rA].
  destruct (astep o n pos (@nil (Z * Z)%type) (AWriteAt pA oA)) as [[posA ascA] arA].
  destruct HA as (_ & _ & HA12 & _). destruct HA12 as [HA1 HA2].
  pose proof (step_refines o n s pos (@nil (Z * Z)%type) cB Hs HR ltac:(constructor) HcB) as HB.
  unfold step_rel in HB.
  destruct (step s (@nil (Z * Z)%type) cB) as [[sB scB] rB].
  destruct (astep o n pos (@nil (Z * Z)%type) (to_acall cB)) as [[posB ascB] arB].
  destruct HB as (_ & _ & HB12 & _). destruct HB12 as [HB1 HB2].
  unfold obs. destruct arA, arB. cbn [fst snd] in *. now subst.
Qed.
