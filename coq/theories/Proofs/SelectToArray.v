(** Proofs for C02, widened: the library's select against the library's ToArray (toarray.go,
    modelled in Model/BitmapOf.v): ToArray lists the 1-positions, and Select32 / Select32R64 with
    index [i] return its [i]-th and [i+1]-th elements.  (The C12 pipeline proves ToArray exact on
    its own; this file only needs "ToArray = the ascending list of 1-positions" and proves it from
    the model directly so that it does not depend on another pipeline's proof files.) *)
From Coq Require Import ZArith List Lia Bool ZifyNat.
From Low Require Import Lib.MachInt Lib.Bits Lib.BitSeq Lib.BitsExtra_c02 Model.Rank Model.Select Model.BitmapOf
  Spec.RankSpec Spec.SelectSpec Proofs.RankProofs Proofs.SelectProofs Proofs.SelectMain.
Import ListNotations.
Open Scope Z_scope.

Lemma c02_ToArray_loop_eq fuel words i l :
  ToArray_loop fuel words i l =
  if i <? l then
    match fuel with
    | O => None
    | S f =>
        match nthZ words (Z.shiftr i 6) with
        | None => None
        | Some w =>
            match ToArray_loop f words (i + 1) l with
            | None => None
            | Some rest => Some (if Z.land w (shl64 1 (Z.land i 63)) =? 0 then rest else i :: rest)
            end
        end
    end
  else Some [].
Proof. destruct fuel; reflexivity. Qed.

Lemma c02_ToArray_loop_spec ws : forall fuel (i : nat), (i + fuel = 64 * length ws)%nat ->
  ToArray_loop fuel ws (Z.of_nat i) (zlen ws * 64) =
  Some (ones_from (Z.of_nat i) (skipn i (flat ws))).
Proof.
  induction fuel as [|fuel IH]; intros i Hi; rewrite c02_ToArray_loop_eq; unfold zlen.
  - destruct (Z.ltb_spec (Z.of_nat i) (Z.of_nat (length ws) * 64)); [lia|].
    rewrite skipn_all2 by (rewrite flat_length; lia). reflexivity.
  - destruct (Z.ltb_spec (Z.of_nat i) (Z.of_nat (length ws) * 64)); [|lia].
    destruct (word_at ws i ltac:(lia)) as (w & _ & Hz & Hb & Hj). rewrite Hz.
    replace (Z.of_nat i + 1) with (Z.of_nat (S i)) by lia.
    fold (zlen ws). rewrite IH by lia.
    rewrite (skipn_nth_cons _ _ _ Hb). cbn [ones_from].
    replace (Z.of_nat i + 1) with (Z.of_nat (S i)) by lia.
    pose proof (test_bit_expr w (Z.land (Z.of_nat i) 63) Hj) as Ht.
    destruct (Z.testbit w (Z.land (Z.of_nat i) 63));
      destruct (Z.land w (shl64 1 (Z.land (Z.of_nat i) 63)) =? 0); cbn [negb] in Ht;
      (discriminate || reflexivity).
Qed.

Theorem c02_ToArray_all_ones ws : ToArray ws = Some (all_ones ws).
Proof.
  unfold ToArray. cbv zeta.
  rewrite (c02_ToArray_loop_spec ws _ 0%nat) by (unfold zlen; lia). reflexivity.
Qed.

(** Select32 / Select32R64 index into what ToArray returns *)
Theorem Select32_nth_ToArray ws sidx ta i : words_ok ws -> IndexSelect32 ws = Some sidx ->
  ToArray ws = Some ta -> 0 <= i < zlen ta ->
  Select32 ws sidx i =
  Some (nth (Z.to_nat i) ta 0, if i + 1 <? zlen ta then nth (Z.to_nat (i + 1)) ta 0 else 64 * zlen ws).
Proof.
  intros Hok Hs Hta Hi. rewrite c02_ToArray_all_ones in Hta. injection Hta as <-.
  now apply Select32_indexed.
Qed.

Theorem Select32R64_nth_ToArray ws sidx ridx ta i : words_ok ws ->
  IndexSelect32R64 ws = Some (sidx, ridx) -> ToArray ws = Some ta -> 0 <= i < zlen ta ->
  Select32R64 ws sidx ridx i =
  Some (nth (Z.to_nat i) ta 0, if i + 1 <? zlen ta then nth (Z.to_nat (i + 1)) ta 0 else 64 * zlen ws).
Proof.
  intros Hok Hs Hta Hi. rewrite c02_ToArray_all_ones in Hta. injection Hta as <-.
  now apply Select32R64_indexed.
Qed.

(** the select index is every 32nd element of ToArray *)
Theorem IndexSelect32_of_ToArray ws ta : ToArray ws = Some ta ->
  IndexSelect32 ws = Some (map (fun k => nth (32 * k) ta 0) (seq 0 ((length ta + 31) / 32))).
Proof.
  intros Hta. rewrite c02_ToArray_all_ones in Hta. injection Hta as <-.
  apply IndexSelect32_exact.
Qed.
