(** Equality of the definition generated from the Go source of bitmap.Get (coq/gen/Trans.v) and the model. *)
From Coq Require Import ZArith List Lia Bool.
From Low Require Import Lib.MachInt Lib.Bits Lib.BitSeq Lib.TransLib Proofs.TransEqLemmas.
From LowGen Require Trans.
Import ListNotations.
Open Scope Z_scope.

From Low Require Model.BitmapOf.

(** no hypothesis at all: [i>>6] on a negative int32 is negative on both sides and panics *)
Lemma TransEq_bitmap_Get bm i : Trans.bitmap_Get bm i = BitmapOf.Get bm i.
Proof.
  unfold Trans.bitmap_Get, BitmapOf.Get. cbv zeta.
  rewrite sar32_shiftr by lia.
  destruct (nthZ bm (Z.shiftr i 6)) as [w|]; [|reflexivity].
  rewrite tblZ_in by (pose proof (land_63_range i); lia). reflexivity.
Qed.
