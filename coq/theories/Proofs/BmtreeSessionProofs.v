(** C03: sessions.  A sequence of lookups on one level mask (PathToIndexLoose on
    any node, PathToIndex on nodes of a stored level), in either build: every
    step returns its own rank, whatever was asked before — the model functions
    are pure, so this is the per-step theorem mapped over the sequence; the
    session operation of the correspondence run checks the same of the
    implementation, where hidden state could couple consecutive calls. *)
From Coq Require Import ZArith List Lia Bool.
From Low Require Import Lib.MachInt Lib.Bits Lib.BitSeq Lib.Lex Lib.Bytes
  Spec.Bmtree Spec.IndexSpec Model.BmtreePath Model.BmtreeIndex
  Proofs.BmtreePathProofs Proofs.BmtreeRankSpec Proofs.BmtreeIndexProofs Proofs.BmtreeContractProofs.
Import ListNotations.
Open Scope Z_scope.

(** one lookup: (strict?, node) *)
Definition look := (bool * node)%type.

Definition look_run (dbg : bool) (T : Z) (h : nat) (s : look) : option (Z * Z + Z) :=
  if fst s
  then option_map inr ((if dbg then PathToIndex_debug else PathToIndex) T (enc h (snd s)))
  else option_map inl ((if dbg then PathToIndexLoose_debug else PathToIndexLoose) T (enc h (snd s))).

Definition look_spec (T : Z) (h : nat) (s : look) : Z * Z + Z :=
  if fst s then inr (pre_rank T h (snd s))
  else inl (pre_rank T h (snd s), Z.b2z (stored T (snd s))).

Definition look_ok (T : Z) (h : nat) (s : look) : Prop :=
  (length (snd s) <= h)%nat /\ (fst s = true -> stored T (snd s) = true).

Lemma look_run_spec (dbg : bool) T h s : 1 <= T < 2 ^ 31 -> Height T = Z.of_nat h -> look_ok T h s ->
  look_run dbg T h s = Some (look_spec T h s).
Proof.
  intros HT HH [Hq Hs]. unfold look_run, look_spec. destruct s as [[|] q]; cbn [fst snd] in *.
  - specialize (Hs eq_refl). destruct dbg.
    + rewrite (PathToIndex_debug_eq T h q HT HH Hq Hs), (PathToIndex_pre_rank T h q HT HH Hq). reflexivity.
    + rewrite (PathToIndex_pre_rank T h q HT HH Hq). reflexivity.
  - destruct dbg.
    + rewrite (PathToIndexLoose_debug_eq T h q HT HH Hq), (PathToIndexLoose_pre_rank T h q HT HH Hq). reflexivity.
    + rewrite (PathToIndexLoose_pre_rank T h q HT HH Hq). reflexivity.
Qed.

Lemma session_spec (dbg : bool) T h (steps : list look) : 1 <= T < 2 ^ 31 -> Height T = Z.of_nat h ->
  Forall (look_ok T h) steps ->
  map (look_run dbg T h) steps = map (fun s => Some (look_spec T h s)) steps.
Proof.
  intros HT HH Hok. apply map_ext_in. intros s Hs. rewrite Forall_forall in Hok.
  now apply look_run_spec; [| |apply Hok].
Qed.

(** in particular the pair that a debug-only post-condition comparing consecutive results must not
    reject: a node X of an absent level and its left-most descendant Y on a stored level have the SAME
    index when no level strictly between them is stored *)
Lemma absent_then_first_descendant T h q (k : nat) : 1 <= T < 2 ^ 31 -> Height T = Z.of_nat h ->
  (length q + k <= h)%nat ->
  (forall j, (j < k)%nat -> Z.testbit T (Z.of_nat (length q + j)) = false) ->
  pre_rank T h (q ++ repeat false k) = pre_rank T h q.
Proof.
  intros HT HH Hl Habs. pose proof (T_range_h T h HT HH) as Hr.
  rewrite !(rec_rank_pre_rank h T) by (try exact Hr; rewrite ?app_length, ?repeat_length; lia).
  clear Hr HT HH Hl. revert q Habs. induction k as [|k IH]; intros q Habs.
  - cbn [repeat]. now rewrite app_nil_r.
  - cbn [repeat]. replace (q ++ false :: repeat false k) with ((q ++ [false]) ++ repeat false k)
      by (rewrite <- app_assoc; reflexivity).
    rewrite IH.
    + (* one step: the level of q is absent and the turn is to the left *)
      assert (H0 : Z.testbit T (Z.of_nat (length q)) = false)
        by (specialize (Habs 0%nat ltac:(lia)); now rewrite Nat.add_0_r in Habs).
      clear IH Habs. revert T H0. induction q as [|b q IHq]; intros T H0.
      * cbn [app rec_rank length] in *. change (Z.of_nat 0) with 0 in H0. rewrite H0. reflexivity.
      * cbn [app rec_rank]. rewrite IHq; [reflexivity|].
        cbn [length] in H0. rewrite Nat2Z.inj_succ in H0.
        rewrite <- Z.div2_div, Z.div2_spec, Z.shiftr_spec by lia.
        replace (Z.of_nat (length q) + 1) with (Z.succ (Z.of_nat (length q))) by lia. exact H0.
    + intros j Hj. specialize (Habs (S j) ltac:(lia)). rewrite app_length. cbn [length].
      replace (length q + 1 + j)%nat with (length q + S j)%nat by lia. exact Habs.
Qed.
