(** Lemmas and proofs for C08 (bitword). *)
From Coq Require Import ZArith List Bool Lia.
From Low Require Import Lib.MachInt Lib.Bits Lib.BitSeq Lib.Bytes Lib.Val Lib.Pack_bw Model.Bitword Spec.BitwordSpec.
Import ListNotations.
Open Scope Z_scope.

Definition widthP (n : nat) : Prop := n = 1%nat \/ n = 2%nat \/ n = 4%nat \/ n = 8%nat.

Lemma newBW_fields n : widthP n ->
  width (newBW (Z.of_nat n)) = Z.of_nat n /\
  byteCap (newBW (Z.of_nat n)) = 8 / Z.of_nat n /\
  wordMask (newBW (Z.of_nat n)) = 2 ^ Z.of_nat n - 1.
Proof. intros [ -> | [ -> | [ -> | -> ]]]; vm_compute; auto. Qed.
