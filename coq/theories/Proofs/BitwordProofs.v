(** Lemmas and proofs for C08 (bitword). *)
From Coq Require Import ZArith List Bool Lia PeanoNat.
From Low Require Import Lib.MachInt Lib.Bits Lib.BitSeq Lib.Bytes Lib.Lex Lib.Val Lib.Pack_bw Lib.PackLemmas_bw
  Model.Bitword Spec.BitwordSpec.
Import ListNotations.
Open Scope Z_scope.

Definition widthP (n : nat) : Prop := n = 1%nat \/ n = 2%nat \/ n = 4%nat \/ n = 8%nat.
Ltac widths H := destruct H as [ -> | [ -> | [ -> | -> ]]].

Lemma newBW_fields n : widthP n ->
  width (newBW (Z.of_nat n)) = Z.of_nat n /\
  byteCap (newBW (Z.of_nat n)) = 8 / Z.of_nat n /\
  wordMask (newBW (Z.of_nat n)) = 2 ^ Z.of_nat n - 1.
Proof. intros H; widths H; vm_compute; auto. Qed.

(** words per byte, as nat *)
Definition capn (n : nat) : nat := (8 / n)%nat.

Lemma capn_mul n : widthP n -> (capn n * n = 8)%nat.
Proof. intros H; widths H; reflexivity. Qed.

Lemma byteCap_capn n : widthP n -> byteCap (newBW (Z.of_nat n)) = Z.of_nat (capn n).
Proof. intros H; widths H; reflexivity. Qed.

(** * one byte: the shifts and the mask cut the byte's bits into n-bit chunks (finite check) *)
Fixpoint zs_eqb (a b : list Z) : bool :=
  match a, b with
  | [], [] => true
  | x :: a', y :: b' => (x =? y) && zs_eqb a' b'
  | _, _ => false
  end.
Lemma zs_eqb_eq a : forall b, zs_eqb a b = true -> a = b.
Proof.
  induction a as [|x a IH]; intros [|y b]; cbn; try congruence.
  intros H. apply andb_prop in H as [H1 H2]. apply Z.eqb_eq in H1. subst. f_equal. auto.
Qed.

Lemma FromStr_byte_spec n b : widthP n -> byte_ok b ->
  FromStr_byte (newBW (Z.of_nat n)) b = map val_msb (chunks n (byte_bits b)).
Proof.
  intros Hn Hb.
  assert (T : forallb (fun n => forallb (fun b =>
             zs_eqb (FromStr_byte (newBW (Z.of_nat n)) b) (map val_msb (chunks n (byte_bits b))))
             (zrange 256)) [1%nat; 2%nat; 4%nat; 8%nat] = true) by (vm_compute; reflexivity).
  apply zs_eqb_eq. rewrite forallb_forall in T.
  apply (forall_zrange _ _ (T n ltac:(widths Hn; cbn; auto)) b Hb).
Qed.

Lemma FromStr_byte_length n b : widthP n -> length (FromStr_byte (newBW (Z.of_nat n)) b) = capn n.
Proof.
  intros Hn. unfold FromStr_byte. rewrite map_length, zrange_length, byteCap_capn by exact Hn. lia.
Qed.

(** * FromStr *)
Lemma FromStr_exact n s : widthP n -> bytes_ok s ->
  FromStr (newBW (Z.of_nat n)) s = spec_FromStr n s.
Proof.
  intros Hn Hs. unfold spec_FromStr. induction Hs as [|b s Hb Hs IH]; [widths Hn; reflexivity|].
  cbn [FromStr flat_map]. fold (FromStr (newBW (Z.of_nat n)) s). rewrite IH.
  rewrite msb_bits_cons.
  rewrite (chunks_app_mult n (capn n)).
  - rewrite map_app. f_equal. now apply FromStr_byte_spec.
  - widths Hn; lia.
  - rewrite byte_bits_length. symmetry. now apply capn_mul.
Qed.

Lemma FromStr_length_nat n s : widthP n ->
  length (FromStr (newBW (Z.of_nat n)) s) = (length s * capn n)%nat.
Proof.
  intros Hn. induction s as [|b s IH]; [reflexivity|].
  cbn [FromStr flat_map length]. rewrite app_length. fold (FromStr (newBW (Z.of_nat n)) s).
  rewrite IH, FromStr_byte_length by exact Hn. lia.
Qed.

Lemma FromStr_length n s : widthP n ->
  zlen (FromStr (newBW (Z.of_nat n)) s) = 8 * zlen s / Z.of_nat n.
Proof.
  intros Hn. unfold zlen. rewrite FromStr_length_nat by exact Hn.
  rewrite Nat2Z.inj_mul. set (k := Z.of_nat (length s)).
  widths Hn; cbn [capn Nat.div Nat.divmod fst Z.of_nat Pos.of_succ_nat Pos.succ];
    apply Z.div_unique_exact; lia.
Qed.

(** * indexing a flat_map of equal-length pieces *)
Lemma nth_error_nil' {A} k : nth_error (@nil A) k = None.
Proof. destruct k; reflexivity. Qed.

Lemma nth_error_flat_map_const {A B} (f : A -> list B) m (s : list A) :
  (forall x, length (f x) = m) ->
  forall q r, (r < m)%nat ->
  nth_error (flat_map f s) (q * m + r) =
  match nth_error s q with Some x => nth_error (f x) r | None => None end.
Proof.
  intros Hf. induction s as [|x s IH]; intros q r Hr.
  - cbn [flat_map]. now rewrite !nth_error_nil'.
  - cbn [flat_map]. destruct q as [|q].
    + cbn [Nat.mul Nat.add nth_error]. rewrite nth_error_app1 by (rewrite Hf; exact Hr). reflexivity.
    + cbn [nth_error]. rewrite nth_error_app2 by (rewrite Hf; cbn [Nat.mul]; lia).
      rewrite Hf. replace (S q * m + r - m)%nat with (q * m + r)%nat by (cbn [Nat.mul]; lia).
      now apply IH.
Qed.

Lemma zrange_nth_error n k : (k < Z.to_nat n)%nat -> nth_error (zrange n) k = Some (Z.of_nat k).
Proof.
  intros H. unfold zrange. rewrite nth_error_map, seq_nth_error by exact H. reflexivity.
Qed.

(** * Get *)
Lemma land7 x : Z.land x 7 = x mod 8.
Proof. change 7 with (Z.ones 3). now rewrite Z.land_ones by lia. Qed.

Lemma Get_FromStr n s i : widthP n -> 0 <= i < zlen s * Z.of_nat (capn n) ->
  Get (newBW (Z.of_nat n)) s i = nthZ (FromStr (newBW (Z.of_nat n)) s) i.
Proof.
  intros Hn Hi.
  set (m := capn n) in *.
  assert (Hm : (0 < m)%nat) by (subst m; widths Hn; cbn; lia).
  set (q := Z.to_nat (i / Z.of_nat m)). set (r := Z.to_nat (i mod Z.of_nat m)).
  assert (Ei : i = Z.of_nat (q * m + r)).
  { subst q r. rewrite Nat2Z.inj_add, Nat2Z.inj_mul, !Z2Nat.id.
    - rewrite Z.mul_comm. apply Z.div_mod. lia.
    - apply Z.mod_pos_bound. lia.
    - apply Z.div_pos; lia. }
  assert (Hr : (r < m)%nat).
  { subst r. pose proof (Z.mod_pos_bound i (Z.of_nat m) ltac:(lia)). lia. }
  assert (Hq : (q < length s)%nat).
  { unfold zlen in Hi. rewrite Ei in Hi. rewrite Nat2Z.inj_add, Nat2Z.inj_mul in Hi. nia. }
  rewrite Ei at 2. rewrite nthZ_of_nat.
  unfold FromStr. rewrite (nth_error_flat_map_const _ m) by (try exact Hr; intros; now apply FromStr_byte_length).
  unfold Get.
  destruct (newBW_fields n Hn) as (Ew & Ec & Ek). rewrite Ew.
  assert (Eq8 : Z.of_nat n * Z.of_nat m = 8) by (subst m; widths Hn; reflexivity).
  assert (Esh : Z.shiftr (Z.of_nat n * i) 3 = Z.of_nat q).
  { rewrite Z.shiftr_div_pow2 by lia. change (2 ^ 3) with 8.
    rewrite Ei, Nat2Z.inj_add, Nat2Z.inj_mul.
    symmetry. apply (Z.div_unique _ _ _ (Z.of_nat n * Z.of_nat r)); nia. }
  rewrite Esh, nthZ_of_nat.
  destruct (nth_error s q) as [b|] eqn:Eb; [|apply nth_error_None in Eb; lia].
  unfold FromStr_byte. rewrite nth_error_map, zrange_nth_error by (rewrite byteCap_capn by exact Hn; fold m; lia).
  cbn [option_map]. f_equal. f_equal. rewrite Ew. f_equal.
  rewrite land7.
  assert (Em : (Z.of_nat n * i + Z.of_nat n - 1) mod 8 = Z.of_nat n * Z.of_nat r + Z.of_nat n - 1).
  { rewrite Ei, Nat2Z.inj_add, Nat2Z.inj_mul. symmetry.
    apply (Z.mod_unique _ _ (Z.of_nat q)); nia. }
  rewrite Em. lia.
Qed.

Lemma Get_exact n s i : widthP n -> bytes_ok s -> 0 <= i < 8 * zlen s / Z.of_nat n ->
  Get (newBW (Z.of_nat n)) s i = spec_Get n s i.
Proof.
  intros Hn Hs Hi. unfold spec_Get. rewrite <- FromStr_exact by assumption.
  apply Get_FromStr; [exact Hn|].
  rewrite <- FromStr_length in Hi by exact Hn. unfold zlen in *. rewrite FromStr_length_nat in Hi by exact Hn. lia.
Qed.

Lemma Get_nth n s i : widthP n -> 0 <= i < 8 * zlen s / Z.of_nat n ->
  Get (newBW (Z.of_nat n)) s i = Some (nth (Z.to_nat i) (FromStr (newBW (Z.of_nat n)) s) 0).
Proof.
  intros Hn Hi.
  rewrite <- FromStr_length in Hi by exact Hn.
  rewrite Get_FromStr; [|exact Hn|unfold zlen in *; rewrite FromStr_length_nat in Hi by exact Hn; lia].
  unfold nthZ. destruct (Z.ltb_spec i 0); [lia|]. apply nth_error_nth'. unfold zlen in Hi. lia.
Qed.
