(** C09 widened: the canonical encodings are exactly the well-formed byte strings,
    [decB] inverts [encB]; so the C09 theorems hold for every well-formed input. *)
From Coq Require Import ZArith List Bool Lia PeanoNat.
From Low Require Import Lib.MachInt Lib.Bits Lib.BitSeq Lib.Bytes Lib.Lex Lib.Pack_bw
  Lib.PackLemmas_bw Lib.LexLemmas_bw Lib.PadLex_bw9 Model.Bitstr Spec.BitstrSpec Spec.BitstrDecodeSpec
  Proofs.BitstrProofs.
Import ListNotations.
Open Scope Z_scope.

(** * byte-level facts, by enumeration *)
Lemma is_mask_high k : (0 < k <= 8)%nat -> is_mask (256 - 2 ^ (8 - Z.of_nat k)) = true.
Proof.
  intros H.
  assert (T : forallb (fun k => (k =? 0) || is_mask (256 - 2 ^ (8 - k))) (zrange 9) = true) by (vm_compute; reflexivity).
  pose proof (forall_zrange _ _ T (Z.of_nat k) ltac:(lia)) as E. cbv beta in E.
  destruct (Z.eqb_spec (Z.of_nat k) 0); [lia|exact E].
Qed.

Lemma is_mask_inv m : is_mask m = true -> exists k, (0 < k <= 8)%nat /\ m = 256 - 2 ^ (8 - Z.of_nat k).
Proof.
  unfold is_mask. cbn [existsb]. rewrite !orb_true_iff, !Z.eqb_eq.
  intros [H|[H|[H|[H|[H|[H|[H|[H|H]]]]]]]]; try discriminate H; subst m.
  - exists 1%nat. split; [lia|reflexivity].
  - exists 2%nat. split; [lia|reflexivity].
  - exists 3%nat. split; [lia|reflexivity].
  - exists 4%nat. split; [lia|reflexivity].
  - exists 5%nat. split; [lia|reflexivity].
  - exists 6%nat. split; [lia|reflexivity].
  - exists 7%nat. split; [lia|reflexivity].
  - exists 8%nat. split; [lia|reflexivity].
Qed.

(** nothing outside the mask <-> masking changes nothing *)
Lemma land_outside_mask x k : byte_ok x -> (0 < k <= 8)%nat ->
  (Z.land x (255 - (256 - 2 ^ (8 - Z.of_nat k))) =? 0) = (Z.land x (256 - 2 ^ (8 - Z.of_nat k)) =? x).
Proof.
  intros Hx Hk.
  assert (T : forallb (fun k => forallb (fun x =>
      Bool.eqb (Z.land x (255 - (256 - 2 ^ (8 - k))) =? 0) (Z.land x (256 - 2 ^ (8 - k)) =? x))
      (zrange 256)) (zrange 9) = true) by (vm_compute; reflexivity).
  pose proof (forall_zrange _ _ (forall_zrange _ _ T (Z.of_nat k) ltac:(lia)) x Hx) as E.
  now apply eqb_prop in E.
Qed.

Lemma popcount_mask k : (0 < k <= 8)%nat -> popcount (256 - 2 ^ (8 - Z.of_nat k)) = Z.of_nat k.
Proof. intros H. rewrite popcount_high_mask by lia. lia. Qed.

(** * the two shapes of an encoding *)
Lemma encB_nil : encB [] = [255].
Proof. reflexivity. Qed.

Lemma encB_decomp b : b <> [] -> exists p c,
  bytes_ok p /\ (0 < length c <= 8)%nat /\ b = msb_bits p ++ c /\
  encB b = p ++ [val_msb (c ++ repeat false (8 - length c)); 256 - 2 ^ (8 - Z.of_nat (length c))].
Proof.
  intros Hne. destruct (pack_decomp b Hne) as (p & c & Hp & Hc & Eb & Epack & Epad).
  exists p, c. repeat split; try assumption; try lia.
  unfold encB. rewrite mask_eq, Epad, Epack, <- app_assoc. cbn [app].
  now replace (Z.of_nat (8 - length c)) with (8 - Z.of_nat (length c)) by lia.
Qed.

Lemma last2 {A} (p : list A) v m d : last (p ++ [v; m]) d = m.
Proof. change (p ++ [v; m]) with (p ++ [v] ++ [m]). rewrite app_assoc. apply last_last. Qed.

Lemma removelast2 {A} (p : list A) v m : removelast (p ++ [v; m]) = p ++ [v].
Proof. change (p ++ [v; m]) with (p ++ [v] ++ [m]). rewrite app_assoc. apply removelast_last. Qed.

(** decoding on the explicit shape *)
Lemma decB_shape p x k : (0 < k <= 8)%nat ->
  decB (p ++ [x; 256 - 2 ^ (8 - Z.of_nat k)]) = msb_bits p ++ firstn k (byte_bits x).
Proof.
  intros Hk. unfold decB. rewrite last2, removelast2, popcount_mask by exact Hk.
  rewrite zlen_app. change (zlen [x; 256 - 2 ^ (8 - Z.of_nat k)]) with 2.
  replace (Z.to_nat (8 * (zlen p + 2) - 16 + Z.of_nat k)) with (8 * length p + k)%nat by (unfold zlen; lia).
  rewrite msb_bits_app. cbn [msb_bits flat_map]. rewrite app_nil_r. fold (msb_bits p).
  rewrite firstn_app, msb_bits_length.
  rewrite (firstn_all2 (msb_bits p)) by (rewrite msb_bits_length; lia).
  f_equal. f_equal. lia.
Qed.

(** * decB inverts encB; encodings are well-formed *)
Lemma decB_encB b : decB (encB b) = b.
Proof.
  destruct (list_eq_dec Bool.bool_dec b []) as [->|Hne]; [reflexivity|].
  destruct (encB_decomp b Hne) as (p & c & Hp & Hc & Eb & Ee).
  rewrite Ee, decB_shape by exact Hc.
  rewrite byte_bits_val_msb by (rewrite app_length, repeat_length; lia).
  rewrite firstn_app, Nat.sub_diag, firstn_O, app_nil_r, firstn_all. now symmetry.
Qed.

Lemma bytes_ok_okb s : bytes_ok s -> bytes_okb s = true.
Proof.
  induction 1 as [|x s Hx Hs IH]; [reflexivity|]. cbn [bytes_okb forallb]. fold (bytes_okb s).
  rewrite IH, andb_true_r. unfold byte_okb, byte_ok in *. apply andb_true_intro. split; [apply Z.leb_le|apply Z.ltb_lt]; lia.
Qed.

Lemma mask_byte_ok k : (0 < k <= 8)%nat -> byte_ok (256 - 2 ^ (8 - Z.of_nat k)).
Proof.
  intros H. unfold byte_ok.
  assert (0 < 2 ^ (8 - Z.of_nat k)) by (apply Z.pow_pos_nonneg; lia).
  assert (2 ^ (8 - Z.of_nat k) <= 2 ^ 7) by (apply Z.pow_le_mono_r; lia).
  change (2 ^ 7) with 128 in *. lia.
Qed.

Lemma wf_shape p x k : bytes_ok p -> byte_ok x -> (0 < k <= 8)%nat ->
  wf_enc (p ++ [x; 256 - 2 ^ (8 - Z.of_nat k)]) = (Z.land x (256 - 2 ^ (8 - Z.of_nat k)) =? x).
Proof.
  intros Hp Hx Hk. unfold wf_enc.
  destruct (p ++ [x; 256 - 2 ^ (8 - Z.of_nat k)]) as [|e0 e'] eqn:E.
  { apply (f_equal (@length Z)) in E. rewrite app_length in E. cbn in E. lia. }
  rewrite <- E. clear E. cbv zeta. rewrite last2, removelast2.
  rewrite bytes_ok_okb by (apply Forall_app; split; [exact Hp|constructor; [exact Hx|constructor; [now apply mask_byte_ok|constructor]]]).
  rewrite is_mask_high by exact Hk. cbn [andb].
  destruct (p ++ [x]) as [|q0 q'] eqn:E.
  { apply (f_equal (@length Z)) in E. rewrite app_length in E. cbn in E. lia. }
  rewrite <- E. rewrite last_last. now apply land_outside_mask.
Qed.

Lemma wf_encB b : wf_enc (encB b) = true.
Proof.
  destruct (list_eq_dec Bool.bool_dec b []) as [->|Hne]; [reflexivity|].
  destruct (encB_decomp b Hne) as (p & c & Hp & Hc & Eb & Ee).
  assert (Hv : byte_ok (val_msb (c ++ repeat false (8 - length c))))
    by (apply val_msb8_byte_ok; rewrite app_length, repeat_length; lia).
  rewrite Ee, wf_shape by assumption. apply Z.eqb_eq.
  rewrite land_high_mask by assumption.
  rewrite byte_bits_val_msb by (rewrite app_length, repeat_length; lia).
  now rewrite firstn_app, Nat.sub_diag, firstn_O, app_nil_r, firstn_all.
Qed.

(** * every well-formed byte string is the encoding of its decoding *)
Lemma okb_app a b : bytes_okb (a ++ b) = bytes_okb a && bytes_okb b.
Proof. unfold bytes_okb. apply forallb_app. Qed.

Lemma list_snoc {A} (d : A) (l : list A) : l <> [] -> l = removelast l ++ [last l d].
Proof. intros H. now apply app_removelast_last. Qed.

Lemma encB_decB e : wf_enc e = true -> encB (decB e) = e.
Proof.
  intros W. unfold wf_enc in W. destruct e as [|e0 e']; [discriminate|].
  set (e := e0 :: e') in *. cbv zeta in W.
  assert (Ee : e = removelast e ++ [last e 0]) by (apply list_snoc; discriminate).
  set (m := last e 0) in *. set (p := removelast e) in *.
  apply andb_prop in W as [W W3]. apply andb_prop in W as [W1 W2].
  rewrite Ee, okb_app in W1. apply andb_prop in W1 as [Wp Wm].
  apply is_mask_inv in W2 as (k & Hk & Em).
  destruct p as [|p0 p'] eqn:Ep.
  - apply Z.eqb_eq in W3. rewrite Ee, W3. reflexivity.
  - assert (Eq : p = removelast p ++ [last p 0]) by (apply list_snoc; rewrite Ep; discriminate).
    rewrite <- Ep in *. clear Ep p0 p'.
    set (x := last p 0) in *. set (q := removelast p) in *.
    rewrite Eq, okb_app in Wp. apply andb_prop in Wp as [Wq Wx].
    apply bytes_okb_ok in Wq. apply bytes_okb_ok in Wx. inversion Wx as [|? ? Hx _]; subst.
    rewrite Ee, Eq, <- app_assoc. cbn [app]. rewrite Em.
    rewrite decB_shape by exact Hk. rewrite encB_shape by assumption.
    rewrite Em, land_outside_mask in W3 by assumption. apply Z.eqb_eq in W3. now rewrite W3.
Qed.

(** * the C09 theorems for arbitrary well-formed inputs *)
Lemma wf_iff e : wf_enc e = true <-> exists b, e = encB b.
Proof.
  split.
  - intros W. exists (decB e). symmetry. now apply encB_decB.
  - intros (b & ->). apply wf_encB.
Qed.

Lemma Len_wf e : wf_enc e = true -> Len e = Some (zlen (decB e)).
Proof. intros W. rewrite <- (encB_decB e W) at 1. apply Len_encB. Qed.

Lemma Cmp_wf e1 e2 : wf_enc e1 = true -> wf_enc e2 = true ->
  Cmp e1 e2 = Some (cmp_sign (bits_cmp (decB e1) (decB e2))).
Proof. intros W1 W2. rewrite <- (encB_decB e1 W1), <- (encB_decB e2 W2) at 1. apply Cmp_encB. Qed.

Lemma CmpUpto_wf a e : bytes_ok a -> wf_enc e = true ->
  CmpUpto a e = Some (cmp_sign (bits_cmp (upto a (decB e)) (decB e))).
Proof. intros Ha W. rewrite <- (encB_decB e W) at 1. now apply CmpUpto_encB. Qed.

Lemma New_wf s f t e : bytes_ok s -> 0 <= f <= t -> t <= 8 * zlen s ->
  New s f t = Some e -> wf_enc e = true /\ decB e = B s f t.
Proof.
  intros Hs H Ht E. rewrite New_encB in E by assumption. injection E as <-.
  split; [apply wf_encB|apply decB_encB].
Qed.
