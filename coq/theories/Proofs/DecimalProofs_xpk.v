(** Decimal rendering is inverted by decimal parsing (Lib/Decimal_xpk.v): strconv.ParseUint(strconv.FormatUint(n)) = n,
    the digits are digits, there are no leading zeros.  Used by the canonical-syntax theorems of the extra check X01. *)
From Coq Require Import ZArith List Bool Lia.
From Low Require Import Lib.Decimal_xpk.
Import ListNotations.
Open Scope Z_scope.

Lemma parse_digits_app : forall s acc c, is_digit c = true ->
  parse_digits acc (s ++ [c]) = match parse_digits acc s with Some x => Some (x * 10 + (c - 48)) | None => None end.
Proof.
  induction s as [|d s IH]; intros acc c Hc; cbn [app parse_digits].
  - now rewrite Hc.
  - destruct (is_digit d); [now apply IH|reflexivity].
Qed.

Lemma is_digit_of n : 0 <= n < 10 -> is_digit (48 + n) = true.
Proof. intros H. unfold is_digit. apply andb_true_iff. split; apply Z.leb_le; lia. Qed.

(** enough fuel: n < 10^(fuel+1) *)
Lemma dec_digits_rev_spec : forall fuel n, 0 <= n < 10 ^ Z.of_nat (S fuel) ->
  forallb is_digit (dec_digits_rev (S fuel) n) = true /\
  parse_digits 0 (rev (dec_digits_rev (S fuel) n)) = Some n /\
  dec_digits_rev (S fuel) n <> [] /\
  (0 < n -> last (dec_digits_rev (S fuel) n) 0 <> 48).
Proof.
  induction fuel as [|f IH]; intros n Hn.
  - assert (Hlt : n < 10) by (change (10 ^ Z.of_nat 1) with 10 in Hn; lia).
    cbn [dec_digits_rev]. destruct (Z.ltb_spec n 10) as [_|Hge]; [|lia].
    cbn [forallb rev app parse_digits last]. rewrite (is_digit_of n) by lia.
    repeat split; try discriminate; [f_equal; lia|lia].
  - remember (S f) as f1 eqn:Ef. cbn [dec_digits_rev]. destruct (Z.ltb_spec n 10) as [Hlt|Hge].
    + cbn [forallb rev app parse_digits last]. rewrite (is_digit_of n) by lia.
      repeat split; try discriminate; [f_equal; lia|lia].
    + assert (Hq : 0 <= n / 10 < 10 ^ Z.of_nat f1).
      { split; [apply Z.div_pos; lia|]. apply Z.div_lt_upper_bound; [lia|].
        rewrite Nat2Z.inj_succ, Z.pow_succ_r in Hn by lia. lia. }
      subst f1. destruct (IH (n / 10) Hq) as (Hd & Hp & Hne & Hl).
      assert (Hm : 0 <= n mod 10 < 10) by (apply Z.mod_pos_bound; lia).
      cbn [forallb rev]. rewrite (is_digit_of (n mod 10) Hm), Hd.
      repeat split; try discriminate.
      * rewrite parse_digits_app by (apply is_digit_of; exact Hm). rewrite Hp. f_equal.
        pose proof (Z.div_mod n 10 ltac:(lia)). lia.
      * intros _. destruct (dec_digits_rev (S f) (n / 10)) as [|d ds] eqn:E; [congruence|].
        change (last ((48 + n mod 10) :: d :: ds) 0) with (last (d :: ds) 0).
        apply Hl. apply Z.div_str_pos. lia.
Qed.

Lemma dec_fuel_ok n : 0 <= n -> n < 10 ^ Z.of_nat (S (Z.to_nat (Z.log2 n))).
Proof.
  intros Hn. rewrite Nat2Z.inj_succ, Z2Nat.id by apply Z.log2_nonneg.
  destruct (Z.eq_dec n 0) as [->|Hz]; [cbn; lia|].
  pose proof (Z.log2_spec n ltac:(lia)) as [_ Hu].
  apply Z.lt_le_trans with (2 ^ Z.succ (Z.log2 n)); [exact Hu|].
  apply Z.pow_le_mono_l. lia.
Qed.

Lemma dec_nonneg_digits n : 0 <= n -> forallb is_digit (dec_nonneg n) = true.
Proof.
  intros Hn. unfold dec_nonneg. rewrite forallb_forall. intros c Hc. apply in_rev in Hc.
  destruct (dec_digits_rev_spec _ n (conj Hn (dec_fuel_ok n Hn))) as (Hd & _).
  rewrite forallb_forall in Hd. now apply Hd.
Qed.

Lemma dec_nonneg_parse n : 0 <= n -> parse_digits 0 (dec_nonneg n) = Some n.
Proof. intros Hn. unfold dec_nonneg. apply (dec_digits_rev_spec _ n (conj Hn (dec_fuel_ok n Hn))). Qed.

Lemma dec_nonneg_nonempty n : 0 <= n -> dec_nonneg n <> [].
Proof.
  intros Hn. unfold dec_nonneg.
  destruct (dec_digits_rev_spec _ n (conj Hn (dec_fuel_ok n Hn))) as (_ & _ & Hne & _).
  intros E. apply Hne. apply (f_equal (@rev Z)) in E. rewrite rev_involutive in E. exact E.
Qed.

(** no leading zero: the first character is '0' only for n = 0, whose rendering is the single character "0" *)
Lemma dec_nonneg_head n : 0 <= n ->
  match dec_nonneg n with
  | [] => False
  | c :: t => is_digit c = true /\ (c = 48 -> t = [])
  end.
Proof.
  intros Hn. pose proof (dec_nonneg_digits n Hn) as Hd. pose proof (dec_nonneg_nonempty n Hn) as Hne.
  destruct (dec_nonneg n) as [|c t] eqn:E; [congruence|].
  cbn [forallb] in Hd. apply andb_true_iff in Hd as [Hc _]. split; [exact Hc|].
  intros ->. unfold dec_nonneg in E.
  destruct (Z.eq_dec n 0) as [->|Hz].
  - cbn in E. inversion E. reflexivity.
  - exfalso.
    destruct (dec_digits_rev_spec _ n (conj Hn (dec_fuel_ok n Hn))) as (_ & _ & Hne' & Hl).
    specialize (Hl ltac:(lia)). apply Hl.
    set (l := dec_digits_rev (S (Z.to_nat (Z.log2 n))) n) in *.
    assert (El : l = rev (48 :: t)) by (rewrite <- E; now rewrite rev_involutive).
    rewrite El. cbn [rev]. now rewrite last_last.
Qed.
