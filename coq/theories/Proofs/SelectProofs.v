(** Proofs for C02: select is exact and inverse to rank. *)
From Coq Require Import ZArith List Lia Bool ZifyNat.
From Low Require Import Lib.MachInt Lib.Bits Lib.BitSeq Lib.BitsExtra_c02 Model.Rank Model.Select Spec.RankSpec Spec.SelectSpec Proofs.RankProofs.
Import ListNotations.
Open Scope Z_scope.
Ltac Zify.zify_post_hook ::= Z.div_mod_to_equations.

Definition table_row_ok (b : nat) : bool :=
  forallb (fun j => match nth_error select8Lookup (8 * b + j) with
                    | Some v => v =? nth j (ones (bits 8 (Z.of_nat b))) 8
                    | None => false end) (seq 0 8).

Lemma table_all_ok : forallb table_row_ok (seq 0 256) = true.
Proof. vm_compute. reflexivity. Qed.

Lemma select8Lookup_spec (b j : nat) : (b < 256)%nat -> (j < 8)%nat ->
  nth_error select8Lookup (8 * b + j) = Some (nth j (ones (bits 8 (Z.of_nat b))) 8).
Proof.
  intros Hb Hj. pose proof table_all_ok as H. rewrite forallb_forall in H.
  specialize (H b). unfold table_row_ok in H. rewrite forallb_forall in H.
  specialize (H ltac:(apply in_seq; lia) j ltac:(apply in_seq; lia)).
  destruct (nth_error select8Lookup (8 * b + j)); [|discriminate].
  apply Z.eqb_eq in H. now subst.
Qed.

(** the table read as the code indexes it: [select8Lookup[8*B + j]] is the [j]-th 1 of byte [B] *)
Lemma select8Lookup_byte x (j : nat) v : 0 <= x ->
  nth_error (ones (bits 8 x)) j = Some v ->
  nthZ select8Lookup (8 * (x mod 256) + Z.of_nat j) = Some v.
Proof.
  intros Hx Hn.
  assert (Hj : (j < 8)%nat).
  { assert (j < length (ones (bits 8 x)))%nat by (apply nth_error_Some; congruence).
    pose proof (ones_length (bits 8 x)). pose proof (count_true_le_length (bits 8 x)).
    rewrite bits_length in *. lia. }
  pose proof (Z.mod_pos_bound x 256 ltac:(lia)) as Hb.
  replace (8 * (x mod 256) + Z.of_nat j) with (Z.of_nat (8 * Z.to_nat (x mod 256) + j)) by lia.
  rewrite nthZ_of_nat. rewrite select8Lookup_spec by lia. f_equal.
  rewrite Z2Nat.id by lia. change 256 with (2 ^ Z.of_nat 8). rewrite bits_mod.
  apply nth_error_nth. exact Hn.
Qed.

(** one halving step: the [k]-th 1 of a [2h]-bit window is in the low half iff
    the low half has more than [k] 1s *)
Lemma halve_step (h : nat) ww (k : nat) v : 0 <= ww ->
  nth_error (ones (bits (h + h) ww)) k = Some v ->
  let c := popcount (ww mod 2 ^ Z.of_nat h) in
  if c <=? Z.of_nat k
  then exists (k' : nat) v', nth_error (ones (bits h (ww / 2 ^ Z.of_nat h))) k' = Some v' /\
                  v = v' + Z.of_nat h /\ Z.of_nat k - c = Z.of_nat k'
  else nth_error (ones (bits h ww)) k = Some v.
Proof.
  intros Hw Hn c.
  assert (Hc : c = Z.of_nat (length (ones (bits h ww)))).
  { unfold c. rewrite (popcount_bits h) by (apply Z.mod_pos_bound; lia).
    rewrite bits_mod. now rewrite ones_length. }
  unfold ones in Hn. rewrite bits_app, ones_from_app, bits_length in Hn.
  fold (ones (bits h ww)) in Hn.
  destruct (Z.leb_spec c (Z.of_nat k)) as [Hle|Hgt].
  - rewrite nth_error_app2 in Hn by lia.
    rewrite ones_from_shift, nth_error_map in Hn.
    destruct (nth_error (ones_from 0 (bits h (ww / 2 ^ Z.of_nat h))) (k - length (ones (bits h ww)))) as [v'|] eqn:E;
      [|discriminate].
    cbn [option_map] in Hn. injection Hn as <-.
    exists (k - length (ones (bits h ww)))%nat, v'. repeat split; [exact E|lia|lia].
  - rewrite nth_error_app1 in Hn by lia. exact Hn.
Qed.

(** bit fiddling of the two table-index expressions *)
Lemma index_expr_hi ww : 0 <= ww ->
  Z.land (Z.shiftr ww 5) 2040 = 8 * ((ww / 2 ^ 8) mod 256).
Proof.
  intros Hw. change 2040 with (Z.shiftl (Z.ones 8) 3).
  transitivity (Z.shiftl (Z.land (Z.shiftr ww 8) (Z.ones 8)) 3).
  - apply Z.bits_inj'. intros n Hn. rewrite Z.land_spec, Z.shiftr_spec by lia.
    destruct (Z.ltb_spec n 3).
    + rewrite !Z.shiftl_spec_low by lia. apply andb_false_r.
    + rewrite !Z.shiftl_spec by lia. rewrite Z.land_spec, Z.shiftr_spec by lia.
      f_equal. f_equal. lia.
  - rewrite Z.land_ones, Z.shiftr_div_pow2, Z.shiftl_mul_pow2 by lia.
    change (2 ^ 3) with 8. change (2 ^ 8) with 256. lia.
Qed.

Lemma index_expr_lo ww : 0 <= ww -> Z.shiftl (Z.land ww 255) 3 = 8 * (ww mod 256).
Proof.
  intros Hw. change 255 with (Z.ones 8). rewrite Z.land_ones, Z.shiftl_mul_pow2 by lia.
  change (2 ^ 3) with 8. change (2 ^ 8) with 256. lia.
Qed.

Lemma lor_8_small B j : 0 <= B -> 0 <= j < 8 -> Z.lor (8 * B) j = 8 * B + j.
Proof.
  intros HB Hj. rewrite <- Z.lxor_lor, <- Z.add_nocarry_lxor; [reflexivity| |].
  all: replace (8 * B) with (Z.shiftl B 3) by (rewrite Z.shiftl_mul_pow2 by lia; change (2 ^ 3) with 8; lia).
  all: apply Z.bits_inj'; intros n Hn; rewrite Z.land_spec, Z.bits_0.
  all: destruct (Z.ltb_spec n 3); [rewrite Z.shiftl_spec_low by lia; reflexivity|].
  all: replace j with (Z.land j (Z.ones 3)) by (rewrite Z.land_ones by lia; apply Z.mod_small; change (2 ^ 3) with 8; lia).
  all: rewrite Z.land_spec, Z.testbit_ones by lia.
  all: destruct (Z.leb_spec 0 n), (Z.ltb_spec n 3); try lia; cbn; rewrite !andb_false_r; reflexivity.
Qed.

(** staged form of [select_in_word] (same term, cut at the halving steps) *)
Definition siw8 (ww f base : Z) : option Z :=
  let ones := popcount (u8 ww) in
  if ones <=? f then
    match nthZ select8Lookup (Z.lor (Z.land (Z.shiftr ww 5) 2040) (f - ones)) with
    | Some v => Some (v + base + 8)
    | None => None
    end
  else
    match nthZ select8Lookup (Z.lor (Z.shiftl (Z.land ww 255) 3) f) with
    | Some v => Some (v + base)
    | None => None
    end.

Definition siw16 (ww f base : Z) : option Z :=
  let ones := popcount (u16 ww) in
  let '(f, base, ww) :=
    if ones <=? f then (f - ones, Z.lor base 16, shr64 ww 16) else (f, base, ww) in
  siw8 ww f base.

Lemma select_in_word_staged w f :
  select_in_word w f =
  let ones := popcount (u32 w) in
  let '(f, base, ww) :=
    if ones <=? f then (f - ones, Z.lor 0 32, shr64 w 32) else (f, 0, w) in
  siw16 ww f base.
Proof. reflexivity. Qed.

Lemma siw8_spec ww (k : nat) v base : 0 <= ww ->
  nth_error (ones (bits 16 ww)) k = Some v ->
  siw8 ww (Z.of_nat k) base = Some (v + base).
Proof.
  intros Hw Hn. unfold siw8. cbv zeta.
  pose proof (halve_step 8 ww k v Hw Hn) as H. cbv zeta in H.
  unfold u8. change (2 ^ Z.of_nat 8) with (2 ^ 8) in H.
  destruct (popcount (ww mod 2 ^ 8) <=? Z.of_nat k).
  - destruct H as (k' & v' & Hn' & -> & ->).
    rewrite index_expr_hi by exact Hw.
    assert (Hk' : (k' < 8)%nat).
    { assert (k' < length (ones (bits 8 (ww / 2 ^ 8))))%nat by (apply nth_error_Some; congruence).
      pose proof (ones_length (bits 8 (ww / 2 ^ 8))). pose proof (count_true_le_length (bits 8 (ww / 2 ^ 8))).
      rewrite bits_length in *. lia. }
    rewrite lor_8_small by (try apply Z.mod_pos_bound; lia).
    rewrite (select8Lookup_byte _ _ v') by (try apply Z.div_pos; (lia || exact Hn')).
    f_equal. change (Z.of_nat 8) with 8. lia.
  - rewrite index_expr_lo by exact Hw.
    assert (Hk' : (k < 8)%nat).
    { assert (k < length (ones (bits 8 ww)))%nat by (apply nth_error_Some; congruence).
      pose proof (ones_length (bits 8 ww)). pose proof (count_true_le_length (bits 8 ww)).
      rewrite bits_length in *. lia. }
    rewrite lor_8_small by (try apply Z.mod_pos_bound; lia).
    rewrite (select8Lookup_byte _ _ v) by (lia || exact H). reflexivity.
Qed.

Lemma siw16_spec ww (k : nat) v base : 0 <= ww -> base = 0 \/ base = 32 ->
  nth_error (ones (bits 32 ww)) k = Some v ->
  siw16 ww (Z.of_nat k) base = Some (v + base).
Proof.
  intros Hw Hb Hn. unfold siw16. cbv zeta.
  pose proof (halve_step 16 ww k v Hw Hn) as H. cbv zeta in H.
  unfold u16. change (2 ^ Z.of_nat 16) with (2 ^ 16) in H.
  destruct (popcount (ww mod 2 ^ 16) <=? Z.of_nat k).
  - destruct H as (k' & v' & Hn' & -> & ->).
    rewrite shr64_div by lia.
    rewrite (siw8_spec _ _ v') by (try apply Z.div_pos; (lia || exact Hn')).
    change (Z.of_nat 16) with 16. destruct Hb as [-> | ->]; [change (Z.lor 0 16) with 16 | change (Z.lor 32 16) with 48]; f_equal; lia.
  - now apply siw8_spec.
Qed.

(** the in-word search is exact: the [k]-th 1 of any word *)
Lemma select_in_word_spec w (k : nat) v : 0 <= w ->
  nth_error (ones (bits 64 w)) k = Some v ->
  select_in_word w (Z.of_nat k) = Some v.
Proof.
  intros Hw Hn. rewrite select_in_word_staged. cbv zeta.
  pose proof (halve_step 32 w k v Hw Hn) as H. cbv zeta in H.
  unfold u32. change (2 ^ Z.of_nat 32) with (2 ^ 32) in H.
  destruct (popcount (w mod 2 ^ 32) <=? Z.of_nat k).
  - destruct H as (k' & v' & Hn' & -> & ->).
    rewrite shr64_div by lia.
    rewrite (siw16_spec _ _ v') by (try apply Z.div_pos; (lia || (right; reflexivity) || exact Hn')).
    f_equal.
  - rewrite (siw16_spec _ _ v) by (lia || (left; reflexivity) || exact H). f_equal. lia.
Qed.

(** * IndexSelect32 *)

(** every 32nd element, [r] elements to go before the next one is taken *)
Fixpoint pick32 (r : nat) (l : list Z) : list Z :=
  match l with
  | [] => []
  | x :: t => match r with O => x :: pick32 31 t | S r' => pick32 r' t end
  end.

Lemma pick32_skipn : forall r l, pick32 r l = pick32 0 (skipn r l).
Proof.
  induction r as [|r IH]; intros l; [reflexivity|].
  destruct l as [|x t]; [reflexivity|]. cbn [pick32]. rewrite skipn_cons. apply IH.
Qed.

Lemma nth_skipn {A} m : forall n (l : list A) d, nth n (skipn m l) d = nth (m + n) l d.
Proof.
  induction m as [|m IH]; intros n l d; [reflexivity|].
  destruct l as [|x l]; [cbn; now destruct n|]. rewrite skipn_cons. cbn [Nat.add nth]. apply IH.
Qed.

Lemma pick32_spec : forall m l, (length l <= m)%nat ->
  pick32 0 l = map (fun k => nth (32 * k) l 0) (seq 0 ((length l + 31) / 32)).
Proof.
  induction m as [|m IH]; intros l Hm.
  - destruct l; [reflexivity|cbn in Hm; lia].
  - destruct l as [|x t]; [reflexivity|].
    cbn [pick32]. rewrite pick32_skipn.
    assert (Hlen : length (skipn 31 t) = (length t - 31)%nat) by apply skipn_length.
    rewrite IH by (cbn [length] in Hm; lia).
    replace ((length (x :: t) + 31) / 32)%nat with (S ((length (skipn 31 t) + 31) / 32)).
    2:{ rewrite Hlen. cbn [length]. lia. }
    cbn [seq map]. f_equal.
    rewrite <- seq_shift, map_map. apply map_ext. intros k.
    rewrite nth_skipn. replace (32 * S k)%nat with (S (31 + 32 * k)) by lia. reflexivity.
Qed.

Lemma test_bit_expr w j : 0 <= j < 64 ->
  negb (Z.land w (shl64 1 j) =? 0) = Z.testbit w j.
Proof.
  intros Hj. rewrite shl64_small by (split; [lia|]; try lia;
    rewrite Z.mul_1_l; apply Z.pow_lt_mono_r; lia).
  rewrite Z.mul_1_l, land_bit_testbit by lia.
  assert (0 < 2 ^ j) by (apply Z.pow_pos_nonneg; lia).
  destruct (Z.testbit w j); [destruct (Z.eqb_spec (2 ^ j) 0); [lia|reflexivity]|reflexivity].
Qed.

Lemma word_at ws (i : nat) : (i < 64 * length ws)%nat ->
  exists w, nth_error ws (i / 64) = Some w /\
            nthZ ws (Z.shiftr (Z.of_nat i) 6) = Some w /\
            nth_error (flat ws) i = Some (Z.testbit w (Z.land (Z.of_nat i) 63)) /\
            0 <= Z.land (Z.of_nat i) 63 < 64.
Proof.
  intros Hi.
  destruct (nth_error_exists ws (i / 64) ltac:(lia)) as [w Hw]. exists w.
  destruct (pos_split (Z.of_nat i) ltac:(lia)) as (E1 & E2 & _ & E4 & _).
  rewrite E1, E2. repeat split; try lia.
  - exact Hw.
  - replace (Z.of_nat i / 64) with (Z.of_nat (i / 64)) by lia. now rewrite nthZ_of_nat.
  - replace i with (64 * (i / 64) + i mod 64)%nat at 1 by lia.
    rewrite (nth_error_flat ws _ w) by (exact Hw || lia). do 2 f_equal. lia.
Qed.

Lemma IndexSelect32_loop_spec ws : forall f (i : nat) ith (r : nat),
  (i + f = 64 * length ws)%nat -> (r < 32)%nat -> (ith + 1 + Z.of_nat r) mod 32 = 0 ->
  IndexSelect32_loop f ws (Z.of_nat i) ith =
  Some (pick32 r (ones_from (Z.of_nat i) (skipn i (flat ws)))).
Proof.
  induction f as [|f IH]; intros i ith r Hi Hr Hith.
  - cbn [IndexSelect32_loop]. rewrite skipn_all2 by (rewrite flat_length; lia). reflexivity.
  - cbn [IndexSelect32_loop].
    destruct (word_at ws i ltac:(lia)) as (w & _ & Hz & Hb & Hj). rewrite Hz.
    rewrite test_bit_expr by exact Hj.
    rewrite (skipn_nth_cons _ _ _ Hb). cbn [ones_from].
    replace (Z.of_nat i + 1) with (Z.of_nat (S i)) by lia.
    destruct (Z.testbit w (Z.land (Z.of_nat i) 63)).
    + change 31 with (Z.ones 5). rewrite Z.land_ones by lia. change (2 ^ 5) with 32.
      destruct r as [|r].
      * destruct (Z.eqb_spec ((ith + 1) mod 32) 0) as [_|Hne]; [|exfalso; lia].
        rewrite (IH (S i) (ith + 1) 31%nat) by lia. reflexivity.
      * destruct (Z.eqb_spec ((ith + 1) mod 32) 0) as [He|_]; [exfalso; lia|].
        rewrite (IH (S i) (ith + 1) r) by lia. reflexivity.
    + rewrite (IH (S i) ith r) by lia. reflexivity.
Qed.

Lemma IndexSelect32_pick ws : IndexSelect32 ws = Some (pick32 0 (all_ones ws)).
Proof.
  unfold IndexSelect32. rewrite (IndexSelect32_loop_spec ws _ 0%nat (-1) 0%nat) by (lia || reflexivity).
  reflexivity.
Qed.

Lemma IndexSelect32_exact ws : IndexSelect32 ws = Some (spec_IndexSelect32 ws).
Proof.
  rewrite IndexSelect32_pick. unfold spec_IndexSelect32. cbv zeta.
  now rewrite (pick32_spec (length (all_ones ws))) by lia.
Qed.
