(** Algebraic laws that follow from C14: the full range is the identity, a
    slice of a slice is a slice, Join at width 64 is the identity. *)
From Coq Require Import ZArith List Lia Bool.
From Low Require Import Lib.MachInt Lib.Bits Lib.BitSeq Lib.BitsExtra_bm2 Lib.BitsExtra_bm14
  Model.BitmapUtil Model.BitmapJoin Spec.JoinSpec Spec.SliceComposeSpec Proofs.JoinProofs.
Import ListNotations.
Open Scope Z_scope.

(** two bitmaps of the same length with the same bits are equal *)
Lemma tb_ext a b : words_ok a -> words_ok b -> zlen a = zlen b ->
  (forall q, 0 <= q < 64 * zlen a -> tb a q = tb b q) -> a = b.
Proof.
  intros Ha Hb Hl H. apply flat_inj; try assumption. apply flat_eq_by_tb.
  - rewrite flat_length. unfold zlen in Hl. lia.
  - intros n Hn. rewrite flat_length in Hn. rewrite nth_flat_tb. apply H. unfold zlen in *. lia.
Qed.

Lemma cdiv64_mul n : cdiv64 (64 * n) = n.
Proof.
  unfold cdiv64. replace (64 * n + 63) with (63 + n * 64) by lia.
  rewrite Z.div_add by lia. change (63 / 64) with 0. lia.
Qed.

Theorem Slice_full ws : words_ok ws -> Slice ws 0 (64 * zlen ws) = Some ws.
Proof.
  intros Hws. pose proof (zlen_nonneg ws) as HL.
  destruct (Slice_bits ws 0 (64 * zlen ws) Hws ltac:(lia) ltac:(lia)) as (r & E & O & L & T).
  rewrite E. f_equal. rewrite Z.sub_0_r, cdiv64_mul in L.
  apply tb_ext; try assumption. intros q Hq. rewrite T by lia. rewrite Z.sub_0_r.
  destruct (Z.ltb_spec q (64 * zlen ws)); [|lia]. reflexivity.
Qed.

Theorem Slice_Slice ws a b c d : words_ok ws -> 0 <= a <= b -> b <= 64 * zlen ws ->
  0 <= c <= d -> d <= b - a ->
  exists r1, Slice ws a b = Some r1 /\ Slice r1 c d = Slice ws (a + c) (a + d).
Proof.
  intros Hws Hab Hb Hcd Hd.
  destruct (Slice_bits ws a b Hws Hab Hb) as (r1 & E1 & O1 & L1 & T1).
  exists r1. split; [exact E1|].
  pose proof (cdiv64_bounds (b - a)) as Hc. rewrite <- L1 in Hc.
  destruct (Slice_bits r1 c d O1 Hcd ltac:(lia)) as (r2 & E2 & O2 & L2 & T2).
  destruct (Slice_bits ws (a + c) (a + d) Hws ltac:(lia) ltac:(lia)) as (r3 & E3 & O3 & L3 & T3).
  rewrite E2, E3. f_equal.
  apply tb_ext; try assumption.
  - rewrite L2, L3. f_equal. lia.
  - intros q Hq. rewrite T2, T3 by lia.
    replace (a + d - (a + c)) with (d - c) by lia.
    destruct (Z.ltb_spec q (d - c)); cbn [andb]; [|reflexivity].
    rewrite T1 by lia. destruct (Z.ltb_spec (c + q) (b - a)); [|lia]. cbn [andb]. f_equal. lia.
Qed.

Theorem Join_64 vs : words_ok vs -> Join vs 64 = Some vs.
Proof.
  intros Hvs. assert (Hw : width_ok 64) by (unfold width_ok; cbn [In]; tauto).
  destruct (Join_bits vs 64 Hw) as (r & E & O & L & T). rewrite E. f_equal.
  rewrite (Z.mul_comm (zlen vs)), cdiv64_mul in L.
  apply tb_ext; try assumption. intros q Hq. rewrite T by lia. unfold pbit, tb.
  destruct (Z.leb_spec 0 q); [|lia]. destruct (Z.ltb_spec q (zlen vs * 64)); [|lia]. reflexivity.
Qed.

(** * slicing a packed array at element boundaries = packing the sub-list *)
Lemma zlen_sublist vs k m : 0 <= k <= m -> m <= zlen vs -> zlen (sublist vs k m) = m - k.
Proof.
  intros Hk Hm. unfold sublist, zlen in *. rewrite firstn_length_le; [lia|]. rewrite skipn_length. lia.
Qed.

Lemma pbit_sublist vs w k m q : 0 < w -> 0 <= k <= m -> m <= zlen vs -> 0 <= q ->
  pbit (sublist vs k m) w q = (q <? (m - k) * w) && pbit vs w (k * w + q).
Proof.
  intros Hw Hk Hm Hq. unfold pbit. rewrite zlen_sublist by assumption.
  destruct (Z.leb_spec 0 q); [|lia]. cbn [andb].
  destruct (Z.ltb_spec q ((m - k) * w)) as [Hlt|Hge]; cbn [andb]; [|reflexivity].
  assert (Hd : (k * w + q) / w = k + q / w).
  { rewrite Z.add_comm, Z.div_add by lia. lia. }
  assert (Hmod : (k * w + q) mod w = q mod w).
  { rewrite Z.add_comm, Z.mod_add by lia. reflexivity. }
  assert (Hqw : 0 <= q / w < m - k).
  { split; [apply Z.div_pos; lia|apply Z.div_lt_upper_bound; nia]. }
  destruct (Z.leb_spec 0 (k * w + q)); [|nia].
  destruct (Z.ltb_spec (k * w + q) (zlen vs * w)); [|nia]. cbn [andb].
  rewrite Hd, Hmod. f_equal. unfold sublist.
  rewrite nth_firstn_lt by lia. rewrite nth_skipn. f_equal. lia.
Qed.

Theorem Join_Slice vs w k m : width_ok w -> 0 <= k <= m -> m <= zlen vs ->
  exists R, Join vs w = Some R /\ Slice R (k * w) (m * w) = Join (sublist vs k m) w.
Proof.
  intros Hw Hk Hm. pose proof (w_pos w Hw) as Hwp.
  destruct (Join_bits vs w Hw) as (R & E & O & L & T). exists R. split; [exact E|].
  pose proof (cdiv64_bounds (zlen vs * w)) as Hc. rewrite <- L in Hc.
  destruct (Slice_bits R (k * w) (m * w) O ltac:(nia) ltac:(nia)) as (r2 & E2 & O2 & L2 & T2).
  destruct (Join_bits (sublist vs k m) w Hw) as (r3 & E3 & O3 & L3 & T3).
  rewrite E2, E3. f_equal. rewrite zlen_sublist in L3 by assumption.
  apply tb_ext; try assumption.
  - rewrite L2, L3. f_equal. lia.
  - intros q Hq. rewrite T2, T3 by lia. rewrite pbit_sublist by lia. rewrite T by nia.
    f_equal. f_equal. lia.
Qed.
