(** C09 widened: call sequences and aliased arguments (Spec/BitstrSessionSpec.v,
    Model/BitstrSession.v). *)
From Coq Require Import ZArith List Bool Lia PeanoNat.
From Low Require Import Lib.MachInt Lib.Bits Lib.BitSeq Lib.Bytes Lib.Lex Lib.Pack_bw
  Lib.PackLemmas_bw Lib.LexLemmas_bw Lib.PadLex_bw9 Model.Bitstr Model.Bitstr32 Model.BitstrSession
  Spec.BitstrSpec Spec.BitstrSessionSpec Proofs.BitstrProofs Proofs.BitstrSearchProofs Proofs.Bitstr32Proofs.
Import ListNotations.
Open Scope Z_scope.

Lemma msb_bits_firstn k : forall s, msb_bits (firstn k s) = firstn (8 * k) (msb_bits s).
Proof.
  induction k as [|k IH]; intros [|x s]; try reflexivity.
  - cbn [firstn]. rewrite !msb_bits_cons.
    replace (8 * S k)%nat with (8 + 8 * k)%nat by lia.
    rewrite firstn_app, byte_bits_length.
    rewrite (firstn_all2 (byte_bits x)) by (rewrite byte_bits_length; lia).
    replace (8 + 8 * k - 8)%nat with (8 * k)%nat by lia. now rewrite IH.
Qed.

Lemma encB_bytes_ok b : bytes_ok (encB b).
Proof.
  unfold encB. apply Forall_app. split; [apply pack_bytes_ok|].
  constructor; [|constructor]. rewrite mask_eq. pose proof (padn_lt (length b)) as P. unfold byte_ok.
  assert (0 < 2 ^ Z.of_nat (padn (length b))) by (apply Z.pow_pos_nonneg; lia).
  assert (2 ^ Z.of_nat (padn (length b)) <= 2 ^ 7) by (apply Z.pow_le_mono_r; lia).
  change (2 ^ 7) with 128 in *. lia.
Qed.

Lemma bytes_ok_firstn k s : bytes_ok s -> bytes_ok (firstn k s).
Proof. intros H. rewrite <- (firstn_skipn k s) in H. now apply Forall_app in H as [H _]. Qed.

(** * a key that is a byte prefix of the encoding itself *)
Lemma CmpUpto_self_prefix b k : (k <= length (encB b))%nat ->
  CmpUpto (firstn k (encB b)) (encB b) = Some (self_prefix_spec b k).
Proof.
  intros Hk. rewrite CmpUpto_encB by (apply bytes_ok_firstn, encB_bytes_ok). f_equal.
  unfold self_prefix_spec.
  pose proof (pack_length8 b) as L8. pose proof (padn_lt (length b)) as P.
  destruct (Nat.ltb_spec k (length (pack b))) as [Hlt|Hge].
  - unfold encB. rewrite firstn_app. replace (k - length (pack b))%nat with 0%nat by lia.
    rewrite firstn_O, app_nil_r. unfold upto. rewrite msb_bits_firstn, msb_bits_pack. unfold pad8.
    rewrite firstn_app. replace (8 * k - length b)%nat with 0%nat by lia. rewrite firstn_O, app_nil_r.
    rewrite firstn_firstn. replace (Nat.min (length b) (8 * k)) with (8 * k)%nat by lia.
    rewrite <- (firstn_skipn (8 * k) b) at 2. rewrite bits_cmp_prefix; [reflexivity|].
    intros E. apply (f_equal (@length bool)) in E. rewrite skipn_length in E. cbn in E. lia.
  - unfold upto, encB. rewrite firstn_app. rewrite (firstn_all2 (pack b)) by lia.
    rewrite msb_bits_app, msb_bits_pack. unfold pad8. rewrite <- !app_assoc.
    rewrite firstn_app, Nat.sub_diag, firstn_O, app_nil_r, firstn_all. now rewrite bits_cmp_refl.
Qed.

Lemma opt_list_map_Some {A B} (f : A -> option B) (g : A -> B) l :
  (forall x, In x l -> f x = Some (g x)) -> opt_list (map f l) = Some (map g l).
Proof.
  induction l as [|x l IH]; intros H; [reflexivity|].
  cbn [map opt_list]. rewrite (H x) by (now left). rewrite IH by (intros y Hy; apply H; now right). reflexivity.
Qed.

Lemma alias_ok b : alias_run (encB b) = Some (alias_spec b).
Proof.
  unfold alias_run, alias_spec. apply opt_list_map_Some. intros k Hk. apply in_seq in Hk.
  apply CmpUpto_self_prefix. lia.
Qed.

(** * sessions: every step gives the specified values, whatever came before *)
Definition range_dom (r : range) : Prop :=
  let '(s, f, t) := r in bytes_ok s /\ 0 <= f <= t /\ t <= 8 * zlen s /\ t < 2 ^ 31.

Lemma session_ok rs : Forall range_dom rs -> forall prev,
  session_run (option_map encB prev) rs = Some (session_spec prev rs).
Proof.
  induction 1 as [|[[s f] t] rs Hr Hrs IH]; intros prev; [reflexivity|].
  destruct Hr as (Hs & Hft & Ht & H31).
  cbn [session_run session_spec range_bits]. rewrite New32_encB by assumption.
  assert (Lb : zlen (B s f t) < 2 ^ 31).
  { rewrite B_length by assumption. assert (0 <= 8 * (f / 8)) by (Z.div_mod_to_equations; lia). lia. }
  rewrite Len32_encB by exact Lb.
  change (Some (encB (B s f t))) with (option_map encB (Some (B s f t))). rewrite IH.
  destruct prev as [p|]; cbn [option_map]; now rewrite Cmp_encB.
Qed.
