(** C12: the int32 arithmetic of the Go code (Model/BitmapOf32.v) coincides with the unbounded
    arithmetic of Model/BitmapOf.v below explicit bounds.  This discharges the size hypothesis
    "no int32 overflow" of the C12 theorems: they hold of the wrapped model under these bounds. *)
From Coq Require Import ZArith List Lia Bool Sorted.
From Low Require Import Lib.MachInt Lib.Bits Lib.BitSeq Lib.BitsExtra_bm2 Lib.BitsExtra_bm12
  Model.BitmapUtil Model.BuilderOps Model.BitmapOf Model.BitmapOf32 Spec.OfSpec
  Proofs.OfProofs Proofs.OfInspect Proofs.OfRoundTrip Proofs.BuilderProofs.
Import ListNotations.
Open Scope Z_scope.

Definition MaxI32 : Z := 2^31 - 1.

Lemma i32_small x : - 2^31 <= x <= MaxI32 -> i32 x = x.
Proof. intros H. apply i32_id. unfold MaxI32 in H. lia. Qed.

(** * Of *)
Theorem Of32_eq ps opt :
  (ps <> [] -> - 2^31 <= last ps 0 + 1 <= MaxI32) -> of_bits ps opt + 63 <= MaxI32 ->
  Of32 ps opt = Of ps opt.
Proof.
  intros Hl Hn. unfold Of32, Of.
  assert (E : (match ps with [] => match opt with Some n => n | None => 0 end
               | _ :: _ => let mx := i32 (last ps 0 + 1) in
                           if match opt with Some n => n | None => 0 end <? mx then mx
                           else match opt with Some n => n | None => 0 end end) =
              (match ps with [] => match opt with Some n => n | None => 0 end
               | _ :: _ => let mx := last ps 0 + 1 in
                           if match opt with Some n => n | None => 0 end <? mx then mx
                           else match opt with Some n => n | None => 0 end end)).
  { destruct ps as [|a t]; [reflexivity|]. cbv zeta. rewrite i32_small by (apply Hl; discriminate). reflexivity. }
  cbv zeta in *. rewrite E. clear E.
  pose proof (Of_nbits ps opt) as Hb. cbv zeta in Hb. rewrite Hb.
  pose proof (of_bits_nonneg ps opt). rewrite i32_small by (unfold MaxI32 in *; lia). reflexivity.
Qed.

(** * OfMany *)
Fixpoint om_bounded (subs : list (list Z)) (sizes : list Z) (base : Z) : Prop :=
  match subs, sizes with
  | e :: t, s :: st =>
      - 2^31 <= base + s <= MaxI32 /\ Forall (fun idx => - 2^31 <= base + idx <= MaxI32) e /\
      om_bounded t st (base + s)
  | _, _ => True
  end.

Lemma OfMany32_loop_eq subs : forall sizes base r,
  om_bounded subs sizes base -> OfMany32_loop subs sizes base r = OfMany_loop subs sizes base r.
Proof.
  induction subs as [|e subs IH]; intros [|s st] base r H; try reflexivity.
  cbn [om_bounded] in H. destruct H as (Hs & He & Ht).
  cbn [OfMany32_loop OfMany_loop]. rewrite i32_small by exact Hs.
  replace (map (fun idx => i32 (base + idx)) e) with (map (fun idx => base + idx) e).
  - now apply IH.
  - apply map_ext_in. intros idx Hidx. symmetry. apply i32_small.
    eapply Forall_forall in He; eauto.
Qed.

Theorem OfMany32_eq subs sizes :
  length subs = length sizes -> om_bounded subs sizes 0 ->
  (shifted subs sizes 0 <> [] -> - 2^31 <= last (shifted subs sizes 0) 0 + 1 <= MaxI32) ->
  of_bits (shifted subs sizes 0) (Some (total sizes)) + 63 <= MaxI32 ->
  OfMany32 subs sizes = OfMany subs sizes.
Proof.
  intros Hlen Hb Hl Hn. unfold OfMany32, OfMany.
  rewrite OfMany32_loop_eq by exact Hb. rewrite OfMany_loop_spec by exact Hlen.
  cbn [app]. rewrite Z.add_0_l. now apply Of32_eq.
Qed.

(** a sufficient condition in the words of the property: non-negative sizes and positions, everything below
    2^31 - 64 *)
Lemma om_bounded_nonneg subs : forall sizes base,
  0 <= base -> Forall (fun s => 0 <= s) sizes -> Forall (Forall (fun p => 0 <= p)) subs ->
  base + total sizes <= MaxI32 ->
  (forall p, In p (shifted subs sizes base) -> p <= MaxI32) ->
  om_bounded subs sizes base.
Proof.
  induction subs as [|e subs IH]; intros [|s st] base Hb Hs Hp Ht Hsh; cbn [om_bounded]; try exact I.
  inversion Hs as [|? ? Hs0 Hst]; subst. inversion Hp as [|? ? He Hsubs]; subst.
  rewrite total_cons in Ht.
  assert (0 <= total st).
  { clear -Hst. induction Hst as [|x l Hx Hl IHl]; [cbn; lia|]. rewrite total_cons. lia. }
  split; [unfold MaxI32 in *; lia|]. split.
  - apply Forall_forall. intros idx Hidx.
    assert (0 <= idx) by (eapply Forall_forall in He; eauto).
    assert (base + idx <= MaxI32).
    { apply Hsh. cbn [shifted]. apply in_or_app. left. apply in_map_iff. exists idx. split; [reflexivity|exact Hidx]. }
    unfold MaxI32 in *. lia.
  - apply IH; try assumption; try lia.
    intros p Hin. apply Hsh. cbn [shifted]. apply in_or_app. now right.
Qed.

(** * ToArray *)
Lemma ToArray32_loop_eq ws l : l <= MaxI32 -> forall fuel i, 0 <= i ->
  ToArray32_loop fuel ws i l = ToArray_loop fuel ws i l.
Proof.
  intros Hl. induction fuel as [|fuel IH]; intros i Hi; [reflexivity|].
  cbn [ToArray32_loop ToArray_loop]. destruct (Z.ltb_spec i l) as [Hlt|Hge]; [|reflexivity].
  rewrite i32_small by (unfold MaxI32 in *; lia). rewrite IH by lia. reflexivity.
Qed.

Theorem ToArray32_eq ws : 64 * zlen ws <= MaxI32 -> ToArray32 ws = ToArray ws.
Proof.
  intros H. unfold ToArray32, ToArray. cbv zeta.
  assert (0 <= zlen ws) by (unfold zlen; lia).
  rewrite i32_small by (unfold MaxI32 in *; lia). apply ToArray32_loop_eq; lia.
Qed.

(** * Builder *)
Lemma Extend32_loop_eq off ps : forall ws,
  (forall p, In p ps -> - 2^31 <= off + p <= MaxI32) ->
  Extend32_loop ps off ws = Extend_loop ps off ws.
Proof.
  induction ps as [|i ps IH]; intros ws H; [reflexivity|].
  cbn [Extend32_loop Extend_loop]. cbv zeta. rewrite i32_small by (apply H; now left).
  destruct (or_at ws _ _) as [w1|]; [|reflexivity]. apply IH. intros p Hp. apply H. now right.
Qed.

(** one call stays inside int32: the new Offset, and the end position the code computes *)
Definition step_bounded (off : Z) (o : bop) : Prop :=
  match o with
  | BExtend ps size => off + size <= MaxI32 /\ (ps <> [] -> off + last ps 0 + 1 <= MaxI32)
  | BSet p v => p + 1 <= MaxI32
  end.

Lemma bstep32_eq b o :
  0 <= Offset b -> bop_dom o = true -> step_bounded (Offset b) o -> bstep32 b o = bstep b o.
Proof.
  intros Hoff Hdom Hb. destruct o as [ps size|p v]; cbn [bop_dom step_bounded bstep32 bstep] in *.
  - rewrite !andb_true_iff in Hdom. destruct Hdom as [[Hs Hnn] Hsize]. destruct Hb as [Hb1 Hb2].
    apply Z.leb_le in Hsize. unfold Extend32, Extend. cbv zeta.
    rewrite (i32_small (Offset b + size)) by (unfold MaxI32 in *; lia).
    assert (E : forall d, match ps with [] => d | _ :: _ =>
                  if last ps 0 >=? size then i32 (i32 (Offset b + last ps 0) + 1) else d end =
                match ps with [] => d | _ :: _ =>
                  if last ps 0 >=? size then Offset b + last ps 0 + 1 else d end).
    { intros d. destruct ps as [|x t]; [reflexivity|].
      assert (0 <= last (x :: t) 0).
      { apply (proj1 (nonnegb_In _) Hnn). apply last_In. discriminate. }
      specialize (Hb2 ltac:(discriminate)).
      rewrite (i32_small (Offset b + last (x :: t) 0)) by (unfold MaxI32 in *; lia).
      rewrite i32_small by (unfold MaxI32 in *; lia). reflexivity. }
    rewrite E. destruct (grow_to _ (Words b) _) as [w1|]; [|reflexivity].
    rewrite Extend32_loop_eq; [reflexivity|].
    intros p Hp. assert (0 <= p) by (now apply (proj1 (nonnegb_In _) Hnn)).
    pose proof (sortedb_last_max ps 0 Hs p Hp).
    assert (ps <> []) by (intros ->; destruct Hp). specialize (Hb2 H1). unfold MaxI32 in *. lia.
  - apply Z.leb_le in Hdom. unfold SetBit32, SetBit. cbv zeta.
    rewrite i32_small by (unfold MaxI32 in *; lia). reflexivity.
Qed.

(** a history stays inside int32: every call does, at the Offset of the abstract machine *)
Fixpoint hist_bounded (a : abs) (ops : list bop) : Prop :=
  match ops with
  | [] => True
  | o :: t => step_bounded (aoff a) o /\ hist_bounded (astep a o) t
  end.

Theorem bfold32_eq ops : forall a b,
  binv a b -> forallb bop_dom ops = true -> hist_bounded a ops -> bfold32 b ops = bfold b ops.
Proof.
  induction ops as [|o ops IH]; intros a b Hinv Hdom Hb; [reflexivity|].
  cbn [forallb] in Hdom. apply andb_true_iff in Hdom. destruct Hdom as [Ho Hdom].
  cbn [hist_bounded] in Hb. destruct Hb as [Hb1 Hb2].
  assert (Hoff : Offset b = aoff a) by (destruct Hinv as [(H & _) _]; exact H).
  assert (H0 : 0 <= Offset b) by (destruct Hinv as [_ H]; lia).
  cbn [bfold32 bfold]. rewrite bstep32_eq by (try assumption; now rewrite Hoff).
  destruct (bstep_inv a b o Hinv Ho) as (b' & E & Hinv'). rewrite E. now apply IH with (a := astep a o).
Qed.

(** hence every C12 theorem about a Builder history holds of the int32 code as long as the history is bounded *)
Theorem Builder32_final n ops :
  0 <= n -> forallb bop_dom ops = true -> hist_bounded abs0 ops ->
  exists b0 b, NewBuilder n = Some b0 /\ bfold32 b0 ops = Some b /\
    let a := fold_left astep ops abs0 in
    Offset b = aoff a /\ words_ok (Words b) /\ ones (flat (Words b)) = usort (abits a) /\
    0 <= Offset b <= 64 * zlen (Words b).
Proof.
  intros Hn Hdom Hb. destruct (NewBuilder_inv n Hn) as (b0 & E0 & Hinv0).
  destruct (bfold_inv ops abs0 b0 Hinv0 Hdom) as (b & Eb & [(Hoff & Hok & Hones) Hr]).
  exists b0, b. split; [exact E0|]. split; [rewrite (bfold32_eq ops abs0 b0 Hinv0 Hdom Hb); exact Eb|].
  cbv zeta. repeat split; try assumption; lia.
Qed.

(** * a sufficient condition in the words of the property: the final Offset and every position set fit in int32 *)
Lemma astep_off_mono a o : bop_dom o = true -> aoff a <= aoff (astep a o).
Proof.
  destruct o as [ps size|p v]; cbn [bop_dom astep aoff]; intros H.
  - rewrite !andb_true_iff in H. destruct H as [_ H]. apply Z.leb_le in H. lia.
  - lia.
Qed.

Lemma astep_bits_incl a o q : In q (abits a) -> In q (abits (astep a o)).
Proof.
  destruct o as [ps size|p v]; cbn [astep abits]; intros H.
  - apply in_or_app. now left.
  - destruct (Z.odd v); [apply in_or_app; now left|exact H].
Qed.

Lemma fold_off_mono ops : forall a, forallb bop_dom ops = true -> aoff a <= aoff (fold_left astep ops a).
Proof.
  induction ops as [|o ops IH]; intros a H; [cbn; lia|].
  cbn [forallb] in H. apply andb_true_iff in H. destruct H as [Ho H].
  cbn [fold_left]. pose proof (astep_off_mono a o Ho). specialize (IH (astep a o) H). lia.
Qed.

Lemma fold_bits_incl ops : forall a q, In q (abits a) -> In q (abits (fold_left astep ops a)).
Proof.
  induction ops as [|o ops IH]; intros a q H; [exact H|].
  cbn [fold_left]. apply IH. now apply astep_bits_incl.
Qed.

Theorem hist_bounded_final ops : forall a,
  forallb bop_dom ops = true ->
  aoff (fold_left astep ops a) <= MaxI32 ->
  (forall q, In q (abits (fold_left astep ops a)) -> q + 1 <= MaxI32) ->
  hist_bounded a ops.
Proof.
  induction ops as [|o ops IH]; intros a Hdom Hoff Hbits; [exact I|].
  cbn [forallb] in Hdom. apply andb_true_iff in Hdom. destruct Hdom as [Ho Hdom].
  cbn [fold_left] in Hoff, Hbits. cbn [hist_bounded]. split; [|now apply IH].
  pose proof (fold_off_mono ops (astep a o) Hdom) as Hmono.
  destruct o as [ps size|p v]; cbn [step_bounded].
  - change (aoff (astep a (BExtend ps size))) with (aoff a + size) in Hmono. split; [lia|]. intros Hne.
    assert (Hin : In (aoff a + last ps 0) (abits (astep a (BExtend ps size)))).
    { cbn [astep abits]. apply in_or_app. right. apply in_map. now apply last_In. }
    specialize (Hbits _ (fold_bits_incl ops _ _ Hin)). lia.
  - change (aoff (astep a (BSet p v))) with (Z.max (aoff a) (p + 1)) in Hmono. lia.
Qed.
