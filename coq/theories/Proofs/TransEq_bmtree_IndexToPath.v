(** Equality of the definition generated from the Go source of bmtree.IndexToPath (coq/gen/Trans.v) and the model:
    the common-prefix shortcut (two nested ifs), the descent loop (recursion on fuel, a join for the short-circuit
    [mask&15 == 0 && index > 0], a join for the if/else inside the body) and the table read idxToPath[mask&15][index]. *)
From Coq Require Import ZArith List Lia Bool.
From Low Require Import Lib.MachInt Lib.Bits Lib.BitSeq Lib.TransLib Proofs.TransEqLemmas.
From Low Require Import Model.BmtreeIndexToPath.
From LowGen Require Trans.
Import ListNotations.
Open Scope Z_scope.

(** what follows the loop *)
Definition tail (r : option (Z * Z * Z)) : option Z :=
  match r with
  | None => None
  | Some (p2, index, mask) =>
      match idxToPath_at (Z.land mask 15) index with
      | Some t => Some (Z.lor (shr64 p2 1) t)
      | None => None
      end
  end.

Lemma IndexToPath_tail th idx :
  IndexToPath th idx =
  let mask := shl64 c01 (uint_of_i32 th) in
  let '(p2, index, mask) := shortcut th idx mask in tail (descent_loop 64 p2 index mask).
Proof. unfold IndexToPath, tail. cbv zeta. destruct (shortcut th idx (shl64 c01 (uint_of_i32 th))) as [[p2 i] m]. reflexivity. Qed.

(** the generated function checks the fuel on entering the loop header, the model after the loop condition:
    fuel n+1 there is fuel n here.  No hypothesis. *)
Lemma TransEq_bmtree_IndexToPath_fuel n th idx :
  Trans.bmtree_IndexToPath (S n) th idx =
  let mask := shl64 c01 (uint_of_i32 th) in
  let '(p2, index, mask) := shortcut th idx mask in tail (descent_loop n p2 index mask).
Proof.
  remember (S n) as f eqn:Ef. unfold Trans.bmtree_IndexToPath. cbv zeta.
  match goal with |- context [?K f idx 0 _] =>
    assert (L : forall m i p2 mask, K (S m) i p2 mask = tail (descent_loop m p2 i mask)) end.
  { induction m as [|m IH]; intros i p2 mask.
    - cbv beta iota zeta fix. cbn [descent_loop]. rewrite Z.gtb_ltb. unfold tail, idxToPath_at.
      destruct (Z.land mask 15 =? 0); destruct (0 <? i); cbn [andb]; try reflexivity.
      + destruct (i32 (shr64 (Z.land (Z.lor (shl64 (u64 i) 32) 0xffffffff) mask) 32) =? 0); reflexivity.
      + destruct (nthZ idxToPath (Z.land mask 15)) as [r|]; [|reflexivity]. destruct (nthZ r i); reflexivity.
      + destruct (nthZ idxToPath (Z.land mask 15)) as [r|]; [|reflexivity]. destruct (nthZ r i); reflexivity.
      + destruct (nthZ idxToPath (Z.land mask 15)) as [r|]; [|reflexivity]. destruct (nthZ r i); reflexivity.
    - remember (S m) as m' eqn:Em. cbv beta iota zeta fix. subst m'. cbn [descent_loop]. rewrite Z.gtb_ltb.
      destruct (Z.land mask 15 =? 0); destruct (0 <? i); cbn [andb].
      + unfold idxword.
        destruct (i32 (shr64 (Z.land (Z.lor (shl64 (u64 i) 32) 0xffffffff) mask) 32) =? 0); apply IH.
      + unfold tail at 1, idxToPath_at.
        destruct (nthZ idxToPath (Z.land mask 15)) as [r|]; [|reflexivity]. destruct (nthZ r i); reflexivity.
      + unfold tail at 1, idxToPath_at.
        destruct (nthZ idxToPath (Z.land mask 15)) as [r|]; [|reflexivity]. destruct (nthZ r i); reflexivity.
      + unfold tail at 1, idxToPath_at.
        destruct (nthZ idxToPath (Z.land mask 15)) as [r|]; [|reflexivity]. destruct (nthZ r i); reflexivity. }
  unfold shortcut, uint_of_i32, idxword, c01. rewrite !Z.gtb_ltb.
  destruct (4 <? th); [|subst f; apply L].
  match goal with |- context [if 0 <? ?x then _ else _] => destruct (0 <? x) end; subst f; apply L.
Qed.

(** the model runs the descent on 64 units of fuel *)
Lemma TransEq_bmtree_IndexToPath th idx : Trans.bmtree_IndexToPath 65 th idx = IndexToPath th idx.
Proof. rewrite IndexToPath_tail. apply (TransEq_bmtree_IndexToPath_fuel 64). Qed.
