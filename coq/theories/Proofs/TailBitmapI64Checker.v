(** Proofs for C15: the protocol operation bitmap.TailBitmap/int64 (int64 model, offsets and indices
    near the ends of the int64 range).  On its domain the int64 protocol run equals the unbounded one,
    hence the checker accepts the int64 model's answers. *)
From Coq Require Import ZArith List Bool Lia.
From Low Require Import Lib.MachInt Lib.Bits Lib.BitSeq Model.TailBitmap Model.TailBitmapI64
  Spec.TailBitmapSpec Spec.TailBitmapInv Spec.TailBitmapObs
  Proofs.TailBitmapProofs Proofs.TailBitmapHist Proofs.TailBitmapChecker Proofs.TailBitmapI64Proofs Run.C15.
Import ListNotations.
Open Scope Z_scope.

Lemma i64b_iff j : i64b j = true <-> in_i64 j.
Proof. unfold i64b, in_i64. rewrite andb_true_iff, Z.leb_le, Z.ltb_lt. tauto. Qed.

Lemma set_up64_eq o0 : forall n s idx, near s -> o0 <= Offset s ->
  (forall j, idx <= j < idx + Z.of_nat n -> in_i64 j /\ j - o0 <= 2^61 - 64 /\ j <= 2^63 - 65) ->
  set_up64 n s idx = set_up n s idx /\
  (forall s', set_up n s idx = Some s' -> near s' /\ o0 <= Offset s').
Proof.
  induction n as [|n IH]; intros s idx Hs Ho Hr; cbn [set_up64 set_up].
  - split; [reflexivity|]. intros s' E. inversion E; subst. auto.
  - assert (Hi : near_set s idx).
    { destruct (Hr idx ltac:(lia)) as (A & B & C). unfold near_set. repeat split; try apply A; lia. }
    rewrite Set64_eq by assumption.
    destruct (Set_ s idx) as [s1|] eqn:ES; [|split; [reflexivity|discriminate]].
    destruct (near_Set s idx s1 Hs Hi ES) as [N1 M1].
    destruct (Hr idx ltac:(lia)) as (A & B & C). unfold in_i64 in A.
    rewrite i64_id by lia.
    apply IH; [exact N1|lia|]. intros j Hj. apply Hr. lia.
Qed.

Lemma set_down64_eq o0 : forall n s idx, near s -> o0 <= Offset s ->
  (forall j, idx - Z.of_nat n < j <= idx -> in_i64 j /\ - 2^63 < j /\ j - o0 <= 2^61 - 64 /\ j <= 2^63 - 65) ->
  set_down64 n s idx = set_down n s idx /\
  (forall s', set_down n s idx = Some s' -> near s' /\ o0 <= Offset s').
Proof.
  induction n as [|n IH]; intros s idx Hs Ho Hr; cbn [set_down64 set_down].
  - split; [reflexivity|]. intros s' E. inversion E; subst. auto.
  - assert (Hi : near_set s idx).
    { destruct (Hr idx ltac:(lia)) as (A & A' & B & C). unfold near_set. repeat split; try apply A; lia. }
    rewrite Set64_eq by assumption.
    destruct (Set_ s idx) as [s1|] eqn:ES; [|split; [reflexivity|discriminate]].
    destruct (near_Set s idx s1 Hs Hi ES) as [N1 M1].
    destruct (Hr idx ltac:(lia)) as (A & A' & B & C). unfold in_i64 in A.
    rewrite i64_id by lia.
    apply IH; [exact N1|lia|]. intros j Hj. apply Hr. lia.
Qed.

Lemma pstep64_eq s p : near s -> pop_in_domain64 s p = true ->
  pstep64 s p = pstep s p /\ (forall s' r, pstep s p = Some (s', r) -> near s').
Proof.
  intros Hs D. pose proof Hs as (Hr & Ho & Hd & Hl & He).
  destruct p as [idx| |j|j|f t|f t]; cbn [pstep64 pstep pop_in_domain64] in *.
  - apply andb_true_iff in D. destruct D as [D D3]. apply andb_true_iff in D. destruct D as [D1 D2].
    apply i64b_iff in D1. apply Z.ltb_lt in D2. apply Z.leb_le in D3.
    assert (Hp : near_op s (OSet idx)) by (cbn [near_op]; unfold near_set; repeat split; try apply D1; lia).
    destruct (step64_eq s _ Hs Hp) as [-> Hn]. split; [reflexivity|]. intros s' r E. apply (Hn s' r E).
  - destruct (step64_eq s OCompact Hs Logic.I) as [-> Hn]. split; [reflexivity|].
    intros s' r E. apply (Hn s' r E).
  - apply andb_true_iff in D. destruct D as [D1 D2]. apply i64b_iff in D1. apply Z.ltb_lt in D2.
    assert (Hp : near_op s (OGet j)) by (cbn [near_op]; unfold near_get; split; [exact D1|lia]).
    destruct (step64_eq s _ Hs Hp) as [-> Hn]. split; [reflexivity|]. intros s' r E. apply (Hn s' r E).
  - apply andb_true_iff in D. destruct D as [D1 D2]. apply i64b_iff in D1. apply Z.ltb_lt in D2.
    assert (Hp : near_op s (OGet1 j)) by (cbn [near_op]; unfold near_get; split; [exact D1|lia]).
    destruct (step64_eq s _ Hs Hp) as [-> Hn]. split; [reflexivity|]. intros s' r E. apply (Hn s' r E).
  - repeat (apply andb_true_iff in D; destruct D as [D ?]).
    apply Z.leb_le in D. apply Z.leb_le in H2. apply Z.leb_le in H1. apply Z.leb_le in H0. apply Z.ltb_lt in H.
    unfold in_i64 in Ho.
    destruct (set_up64_eq (Offset s) (Z.to_nat (t - f)) s f Hs ltac:(lia)) as [-> Hn].
    { intros j Hj. unfold in_i64. lia. }
    split; [reflexivity|]. intros s' r E.
    destruct (set_up (Z.to_nat (t - f)) s f) as [s1|] eqn:E1; [|discriminate].
    inversion E; subst. apply (Hn s' eq_refl).
  - repeat (apply andb_true_iff in D; destruct D as [D ?]).
    apply Z.leb_le in D. apply Z.leb_le in H2. apply Z.ltb_lt in H1. apply Z.leb_le in H0. apply Z.ltb_lt in H.
    unfold in_i64 in Ho.
    destruct (set_down64_eq (Offset s) (Z.to_nat (t - f)) s (t - 1) Hs ltac:(lia)) as [-> Hn].
    { intros j Hj. unfold in_i64. lia. }
    split; [reflexivity|]. intros s' r E.
    destruct (set_down (Z.to_nat (t - f)) s (t - 1)) as [s1|] eqn:E1; [|discriminate].
    inversion E; subst. apply (Hn s' eq_refl).
Qed.

Lemma run_proto64_prun : forall ps s l, near s -> run_proto64 s ps = OOk l -> prun s ps = Some l.
Proof.
  induction ps as [|p t IH]; intros s l Hs E; cbn [run_proto64 prun] in *.
  - inversion E; subst. reflexivity.
  - destruct (pop_in_domain64 s p) eqn:D; cbn [negb] in E; [|discriminate].
    destruct (pstep64_eq s p Hs D) as [Eq Hn]. rewrite Eq in E.
    destruct (pstep s p) as [[s1 r]|] eqn:E1; [|discriminate].
    destruct (run_proto64 s1 t) as [| |l1] eqn:E2; try discriminate.
    inversion E; subst l. rewrite (IH s1 l1 (Hn s1 r eq_refl) E2). reflexivity.
Qed.

Lemma model_history64_accepted o ps l : model_history64 o ps = OOk l -> check_history o ps l = true.
Proof.
  unfold model_history64. intros E.
  destruct (i64b o && (o mod 64 =? 0)) eqn:D; [|discriminate].
  apply andb_true_iff in D. destruct D as [D1 D2]. apply i64b_iff in D1. apply Z.eqb_eq in D2.
  apply (prun_accepted o ps l D2). apply run_proto64_prun; [|exact E].
  unfold near, NewTailBitmap, zlen, in_i64 in *. cbn [reclaimed Offset Words length]. lia.
Qed.
