(** Proofs for the extra check X01, part 7 (widening): the wildcard rules of the modelled range parser, as the
    table in range.go states them, for canonical wildcard comparators  <op>M.x  and  <op>M.m.x :
        >= M.x  is  >= M.0.0        >  M.x  is  >= (M+1).0.0      <  M.x  is  < M.0.0      <= M.x  is  < (M+1).0.0
        M.x, =M.x, ==M.x  is  >= M.0.0 < (M+1).0.0                != M.x, !M.x  is  < M.0.0 >= (M+1).0.0
    and the same one level down for M.m.x; and the quirk  M.x.x  =  >= M.0.0 < M.1.0 . *)
From Coq Require Import ZArith List Bool Lia.
From Low Require Import Lib.Decimal_xpk Proofs.DecimalProofs_xpk Model.Semver Model.Vers Spec.VersSpec Spec.VersPrint
  Proofs.SemverOrder Proofs.VersProofs Proofs.SemverNoPanic Proofs.SemverPrintParse Proofs.SemverRangeParse Proofs.SemverParseInv.
Import ListNotations.
Open Scope Z_scope.

Definition plain (a b c : Z) : Version := {| v_major := a; v_minor := b; v_patch := c; v_pre := []; v_build := [] |}.

Definition wild_expansion (c : comparator) (lo hi : Version) : list (comparator * Version) :=
  match c with
  | CGT => [(CGE, hi)]
  | CGE => [(CGE, lo)]
  | CLT => [(CLT, lo)]
  | CLE => [(CLT, hi)]
  | CEQ => [(CGE, lo); (CLT, hi)]
  | CNE => [(CLT, lo); (CGE, hi)]
  end.

(** * searching a multi-byte separator *)
Lemma split_first_skip sep0 sep : forall a rest, lacks sep0 a ->
  split_first (sep0 :: sep) (a ++ rest) =
  match split_first (sep0 :: sep) rest with Some (a', b) => Some (a ++ a', b) | None => None end.
Proof.
  induction a as [|x a IH]; intros rest Ha.
  - cbn [app]. destruct (split_first (sep0 :: sep) rest) as [[? ?]|]; reflexivity.
  - inversion Ha as [|? ? Hx Ha']; subst. cbn [app split_first prefixb].
    destruct (Z.eqb_spec sep0 x) as [E|_]; [congruence|]. cbn [andb].
    rewrite (IH rest Ha'). destruct (split_first (sep0 :: sep) rest) as [[? ?]|]; reflexivity.
Qed.

Lemma split_first_cons_ne sep x rest : prefixb sep (x :: rest) = false ->
  split_first sep (x :: rest) = match split_first sep rest with Some (a, b) => Some (x :: a, b) | None => None end.
Proof. intros H. cbn [split_first]. now rewrite H. Qed.

Lemma dec_lacks c n : 0 <= n -> is_digit c = false -> lacks c (dec_nonneg n).
Proof. intros Hn Hc. apply digits_lack; [assumption|now apply dec_nonneg_digits]. Qed.

Lemma dec_head n : 0 <= n -> exists d t, dec_nonneg n = d :: t /\ is_digit d = true.
Proof.
  intros Hn. pose proof (dec_nonneg_head n Hn) as H. destruct (dec_nonneg n) as [|d t]; [contradiction|].
  exists d, t. split; [reflexivity|apply H].
Qed.

(** * the pieces of expandWildcardVersion on  M.x  and  M.m.x *)
Definition dotx : str := [46; 120].

Lemma split_Mx M : 0 <= M -> split [46] (dec_nonneg M ++ dotx) = [dec_nonneg M; [120]].
Proof.
  intros HM. change (dec_nonneg M ++ dotx) with (join [46] [dec_nonneg M; [120]]).
  apply split_join; [discriminate|]. repeat constructor; try discriminate. now apply dec_lacks.
Qed.

Lemma split_Mmx M m : 0 <= M -> 0 <= m ->
  split [46] (dec_nonneg M ++ [46] ++ dec_nonneg m ++ dotx) = [dec_nonneg M; dec_nonneg m; [120]].
Proof.
  intros HM Hm. change (dec_nonneg M ++ [46] ++ dec_nonneg m ++ dotx) with (join [46] [dec_nonneg M; dec_nonneg m; [120]]).
  apply split_join; [discriminate|]. repeat constructor; try discriminate; now apply dec_lacks.
Qed.

Lemma split_three a b c : lacks 46 a -> lacks 46 b -> lacks 46 c ->
  split [46] (a ++ [46] ++ b ++ [46] ++ c) = [a; b; c].
Proof.
  intros. change (a ++ [46] ++ b ++ [46] ++ c) with (join [46] [a; b; c]). apply split_join; [discriminate|]. repeat constructor; assumption.
Qed.

Lemma flat_Mx M : 0 <= M -> createVersionFromWildcard (dec_nonneg M ++ dotx) = dec_nonneg M ++ [46; 48; 46; 48].
Proof.
  intros HM. unfold createVersionFromWildcard, replace_first.
  rewrite (split_first_skip 46 [120; 46; 120] (dec_nonneg M) dotx) by now apply dec_lacks.
  change (split_first [46; 120; 46; 120] dotx) with (@None (str * str)). cbv beta iota zeta.
  rewrite (split_first_skip 46 [120] (dec_nonneg M) dotx) by now apply dec_lacks.
  change (split_first [46; 120] dotx) with (Some (@nil Z, @nil Z)). cbv beta iota zeta. rewrite !app_nil_r.
  assert (E : split [46] (dec_nonneg M ++ [46; 48]) = [dec_nonneg M; [48]]).
  { change (dec_nonneg M ++ [46; 48]) with (join [46] [dec_nonneg M; [48]]). apply split_join; [discriminate|].
    repeat constructor; try discriminate. now apply dec_lacks. }
  rewrite E. cbn [length Nat.eqb]. now rewrite <- app_assoc.
Qed.

Lemma flat_Mmx M m : 0 <= M -> 0 <= m ->
  createVersionFromWildcard (dec_nonneg M ++ [46] ++ dec_nonneg m ++ dotx) = dec_nonneg M ++ [46] ++ dec_nonneg m ++ [46; 48].
Proof.
  intros HM Hm. unfold createVersionFromWildcard, replace_first.
  destruct (dec_head m Hm) as (d & t & Em & Hd).
  assert (Hd120 : (120 =? d) = false) by (apply Z.eqb_neq; intros <-; discriminate).
  (* ".x.x" does not occur *)
  rewrite (split_first_skip 46 [120; 46; 120] (dec_nonneg M) _) by now apply dec_lacks.
  assert (E1 : split_first [46; 120; 46; 120] ([46] ++ dec_nonneg m ++ dotx) = None).
  { cbn [app]. rewrite split_first_cons_ne.
    - rewrite (split_first_skip 46 [120; 46; 120] (dec_nonneg m) dotx) by now apply dec_lacks. reflexivity.
    - rewrite Em. cbn [app prefixb]. now rewrite Z.eqb_refl, Hd120. }
  rewrite E1. cbv beta iota zeta.
  (* the first ".x" is the last two characters *)
  rewrite (split_first_skip 46 [120] (dec_nonneg M) _) by now apply dec_lacks.
  assert (E2 : split_first [46; 120] ([46] ++ dec_nonneg m ++ dotx) = Some ([46] ++ dec_nonneg m, [])).
  { cbn [app]. rewrite split_first_cons_ne.
    - rewrite (split_first_skip 46 [120] (dec_nonneg m) dotx) by now apply dec_lacks.
      change (split_first [46; 120] dotx) with (Some (@nil Z, @nil Z)). cbv beta iota zeta. now rewrite app_nil_r.
    - rewrite Em. cbn [app prefixb]. now rewrite Z.eqb_refl, Hd120. }
  rewrite E2. cbv beta iota zeta. rewrite app_nil_r.
  assert (E : split [46] ((dec_nonneg M ++ [46] ++ dec_nonneg m) ++ [46; 48]) = [dec_nonneg M; dec_nonneg m; [48]]).
  { replace ((dec_nonneg M ++ [46] ++ dec_nonneg m) ++ [46; 48]) with (dec_nonneg M ++ [46] ++ dec_nonneg m ++ [46] ++ [48])
      by (now rewrite <- !app_assoc).
    apply split_three; try (now apply dec_lacks). repeat constructor; discriminate. }
  rewrite E. cbn [length Nat.eqb]. now rewrite <- !app_assoc.
Qed.

Lemma atoi_dec n : 0 <= n < 2 ^ 63 -> atoi (dec_nonneg n) = Some n.
Proof.
  intros [H0 H1]. destruct (dec_head n H0) as (d & t & E & Hd).
  assert (Hp : parse_digits 0 (d :: t) = Some n) by (rewrite <- E; now apply dec_nonneg_parse).
  unfold atoi. rewrite E.
  unfold is_digit in Hd. apply andb_true_iff in Hd as [Hd1 Hd2]. apply Z.leb_le in Hd1, Hd2.
  assert (Hc : d = 48 \/ d = 49 \/ d = 50 \/ d = 51 \/ d = 52 \/ d = 53 \/ d = 54 \/ d = 55 \/ d = 56 \/ d = 57) by lia.
  decompose [or] Hc; subst d; cbv beta iota; rewrite Hp;
    (destruct (Z.leb_spec (- 2 ^ 63) n); [|lia]); (destruct (Z.ltb_spec n (2 ^ 63)); [|lia]); reflexivity.
Qed.

Lemma i64wrap_id x : - 2 ^ 63 <= x < 2 ^ 63 -> i64wrap x = x.
Proof. intros H. unfold i64wrap. rewrite Z.mod_small; lia. Qed.

Lemma dec_of_Z_nonneg n : 0 <= n -> dec_of_Z n = dec_nonneg n.
Proof. intros H. unfold dec_of_Z. destruct (Z.ltb_spec n 0); [lia|reflexivity]. Qed.

Lemma inc0 M r : 0 <= M -> M + 1 < 2 ^ 63 -> lacks 46 r ->
  incrementPart 0 (dec_nonneg M ++ [46] ++ r ++ [46; 48]) = Ok (dec_nonneg (M + 1) ++ [46] ++ r ++ [46; 48]).
Proof.
  intros HM Hlt Hr. unfold incrementPart.
  assert (E : split [46] (dec_nonneg M ++ [46] ++ r ++ [46; 48]) = [dec_nonneg M; r; [48]]).
  { change (dec_nonneg M ++ [46] ++ r ++ [46; 48]) with (dec_nonneg M ++ [46] ++ r ++ [46] ++ [48]).
    apply split_three; [now apply dec_lacks|assumption|repeat constructor; discriminate]. }
  rewrite E. cbn [nth_error]. rewrite (atoi_dec M) by lia. cbn [set_nth_str].
  rewrite i64wrap_id by lia. rewrite dec_of_Z_nonneg by lia. reflexivity.
Qed.

Lemma inc1 M m : 0 <= M -> 0 <= m -> m + 1 < 2 ^ 63 ->
  incrementPart 1 (dec_nonneg M ++ [46] ++ dec_nonneg m ++ [46; 48]) = Ok (dec_nonneg M ++ [46] ++ dec_nonneg (m + 1) ++ [46; 48]).
Proof.
  intros HM Hm Hlt. unfold incrementPart.
  assert (E : split [46] (dec_nonneg M ++ [46] ++ dec_nonneg m ++ [46; 48]) = [dec_nonneg M; dec_nonneg m; [48]]).
  { change (dec_nonneg M ++ [46] ++ dec_nonneg m ++ [46; 48]) with (dec_nonneg M ++ [46] ++ dec_nonneg m ++ [46] ++ [48]).
    apply split_three; try (now apply dec_lacks). repeat constructor; discriminate. }
  rewrite E. cbn [nth_error]. rewrite (atoi_dec m) by lia. cbn [set_nth_str].
  rewrite i64wrap_id by lia. rewrite dec_of_Z_nonneg by lia. reflexivity.
Qed.

Lemma plain_string a b c : version_string (plain a b c) = dec_nonneg a ++ [46] ++ dec_nonneg b ++ [46] ++ dec_nonneg c.
Proof. unfold version_string, plain. cbn [v_major v_minor v_patch v_pre v_build]. now rewrite !app_nil_r. Qed.

Lemma plain_ok a b c : 0 <= a < 2 ^ 64 -> 0 <= b < 2 ^ 64 -> 0 <= c < 2 ^ 64 -> wf_version (plain a b c) = true /\ no_x (plain a b c) = true.
Proof.
  intros Ha Hb Hc. split; [|reflexivity]. unfold wf_version, plain. cbn [v_major v_minor v_patch v_pre v_build forallb].
  repeat (apply andb_true_iff; split); try reflexivity; try (apply Z.leb_le; lia); try (apply Z.ltb_lt; lia).
Qed.

(** the text of "<spelling><version>" parses to the comparator and the version *)
Lemma parse_ap_plain c s a b d : In s (op_spellings c) -> 0 <= a < 2 ^ 64 -> 0 <= b < 2 ^ 64 -> 0 <= d < 2 ^ 64 ->
  parse_ap (s ++ dec_nonneg a ++ [46] ++ dec_nonneg b ++ [46] ++ dec_nonneg d) = Ok (c, plain a b d).
Proof.
  intros Hs Ha Hb Hd. rewrite <- plain_string.
  destruct (plain_ok a b d Ha Hb Hd) as [Hw Hx].
  apply (parse_ap_comp c s (plain a b d)). unfold scomp_ok. rewrite Hw, Hx, !andb_true_r.
  apply existsb_exists. exists s. split; [assumption|]. clear. induction s as [|x s IH]; [reflexivity|]. cbn [str_eqb]. now rewrite Z.eqb_refl.
Qed.

(** * expandWildcardVersion on one wildcard comparator *)
Definition ge_op : str := [62; 61].
Definition lt_op : str := [60].

Definition wild_strings (c : comparator) (lo hi : str) : list str :=
  match c with
  | CGT => [ge_op ++ hi]
  | CGE => [ge_op ++ lo]
  | CLT => [lt_op ++ lo]
  | CLE => [lt_op ++ hi]
  | CEQ => [ge_op ++ lo; lt_op ++ hi]
  | CNE => [lt_op ++ lo; ge_op ++ hi]
  end.

Ltac eval_str_eqb :=
  repeat match goal with
         | |- context [str_eqb ?a ?b] =>
             let r := eval vm_compute in (str_eqb a b) in change (str_eqb a b) with r
         end.

Lemma contains_x_suffix a : contains_byte 120 (a ++ [120]) = true.
Proof. unfold contains_byte. rewrite existsb_app. cbn [existsb]. rewrite Z.eqb_refl. now rewrite orb_true_r. Qed.

Lemma splitComparator_spelling c s d t : In s (op_spellings c) -> is_digit d = true ->
  splitComparatorVersion (s ++ d :: t) = Some (s, d :: t).
Proof.
  intros Hs Hd. destruct (spelling_facts s c Hs) as (Hc & Ht & _).
  unfold splitComparatorVersion. rewrite cut_at_digit_app; [now rewrite Ht| |assumption].
  apply Forall_forall. intros b Hb. rewrite Forall_forall in Hc. specialize (Hc b Hb).
  unfold op_char in Hc. unfold is_digit.
  repeat (apply orb_true_iff in Hc as [Hc|Hc]); apply Z.eqb_eq in Hc; subst b; reflexivity.
Qed.

(** the generic step: a wildcard version with type [wt], flattened form [flat], incremented form [incd] *)
Lemma expand_one_wild c s v wt flat incd :
  In s (op_spellings c) ->
  (exists d t, v = d :: t /\ is_digit d = true) -> contains_byte 120 (s ++ v) = true ->
  getWildcardType v = wt -> (wt = 2 \/ wt = 3) -> createVersionFromWildcard v = flat ->
  (if wt =? 3 then incrementPart 1 flat else incrementPart 0 flat) = Ok incd ->
  expand_one (s ++ v) = Ok (wild_strings c flat incd).
Proof.
  intros Hs (d & t & -> & Hd) Hx Hwt Hw23 Hflat Hinc.
  unfold expand_one. rewrite Hx. cbn [negb].
  rewrite (splitComparator_spelling c s d t Hs Hd), Hwt, Hflat.
  assert (Hinc' : (if wt =? 3 then incrementPart 1 flat else if wt =? 2 then incrementPart 0 flat else Ok []) = Ok incd).
  { destruct Hw23 as [-> | ->]; exact Hinc. }
  destruct c; cbn [op_spellings In] in Hs;
    repeat (destruct Hs as [<-|Hs]; [eval_str_eqb; cbv beta iota; cbn [orb]; try rewrite Hinc'; reflexivity|]); destruct Hs.
Qed.

Lemma last_two (a : str) (x y : str) : last [a; x; y] [] = y /\ last [a; y] [] = y.
Proof. split; reflexivity. Qed.

Lemma expand_minor c s M : In s (op_spellings c) -> 0 <= M -> M + 1 < 2 ^ 63 ->
  expand_one (s ++ dec_nonneg M ++ dotx) =
  Ok (wild_strings c (dec_nonneg M ++ [46; 48; 46; 48]) (dec_nonneg (M + 1) ++ [46; 48; 46; 48])).
Proof.
  intros Hs HM Hlt.
  apply (expand_one_wild c s (dec_nonneg M ++ dotx) 2); try assumption.
  - destruct (dec_head M HM) as (d & t & E & Hd). rewrite E. exists d, (t ++ dotx). split; [reflexivity|assumption].
  - unfold dotx. replace (s ++ dec_nonneg M ++ [46; 120]) with ((s ++ dec_nonneg M ++ [46]) ++ [120]) by (now rewrite <- !app_assoc).
    apply contains_x_suffix.
  - unfold getWildcardType. rewrite (split_Mx M HM). reflexivity.
  - now left.
  - now apply flat_Mx.
  - cbn [Z.eqb]. pose proof (inc0 M [48] HM Hlt ltac:(repeat constructor; discriminate)) as H.
    cbn [app] in H. exact H.
Qed.

Lemma expand_patch c s M m : In s (op_spellings c) -> 0 <= M -> 0 <= m -> m + 1 < 2 ^ 63 ->
  expand_one (s ++ dec_nonneg M ++ [46] ++ dec_nonneg m ++ dotx) =
  Ok (wild_strings c (dec_nonneg M ++ [46] ++ dec_nonneg m ++ [46; 48]) (dec_nonneg M ++ [46] ++ dec_nonneg (m + 1) ++ [46; 48])).
Proof.
  intros Hs HM Hm Hlt.
  apply (expand_one_wild c s (dec_nonneg M ++ [46] ++ dec_nonneg m ++ dotx) 3); try assumption.
  - destruct (dec_head M HM) as (d & t & E & Hd). rewrite E. eexists d, _. split; [reflexivity|assumption].
  - unfold dotx. replace (s ++ dec_nonneg M ++ [46] ++ dec_nonneg m ++ [46; 120]) with ((s ++ dec_nonneg M ++ [46] ++ dec_nonneg m ++ [46]) ++ [120])
      by (now rewrite <- !app_assoc).
    apply contains_x_suffix.
  - unfold getWildcardType. rewrite (split_Mmx M m HM Hm). reflexivity.
  - now right.
  - now apply flat_Mmx.
  - cbn [Z.eqb]. now apply inc1.
Qed.

(** * a range consisting of one token *)
Lemma range_groups_single tok l g :
  tok_ok tok -> str_eqb tok or_token = false -> expand_one tok = Ok l -> res_map_all parse_ap l = Ok g ->
  range_groups tok = Ok [g].
Proof.
  intros Hok Hor Hex Hp. unfold range_groups.
  pose proof (splitAndTrim_tokens [tok] ltac:(discriminate) (Forall_cons _ Hok (Forall_nil _))) as Hs. cbn [join] in Hs. rewrite Hs.
  pose proof (splitORParts_toks [[tok]] ltac:(discriminate)) as Ho. cbn [toks] in Ho. rewrite Ho.
  2:{ repeat constructor; [discriminate|assumption]. }
  cbn [bind]. unfold expandWildcardVersion. cbn [res_map_all]. unfold bind at 2 3. rewrite Hex. cbn [bind concat]. rewrite app_nil_r.
  cbn [res_map_all]. unfold bind. rewrite Hp. reflexivity.
Qed.

Lemma wild_tok_ok s v : Forall (fun b => op_char b = true) s -> (exists d t, v = d :: t /\ is_digit d = true) ->
  lacks 32 v -> lacks 124 v -> exclude_from_split (last v 0) = false -> (2 <= length v)%nat ->
  tok_ok (s ++ v) /\ str_eqb (s ++ v) or_token = false.
Proof.
  intros Hs (d & t & -> & Hd) H32 H124 Hl Hlen.
  assert (Hs32 : lacks 32 s) by (apply Forall_forall; intros b Hb ->; rewrite Forall_forall in Hs; specialize (Hs 32 Hb); discriminate).
  assert (Hs124 : lacks 124 s) by (apply Forall_forall; intros b Hb ->; rewrite Forall_forall in Hs; specialize (Hs 124 Hb); discriminate).
  split.
  - constructor; [now apply lacks_app|rewrite app_length; lia|]. rewrite last_app_r by discriminate. exact Hl.
  - destruct (str_eqb (s ++ d :: t) or_token) eqn:E; [|reflexivity]. apply str_eqb_eq in E.
    pose proof (lacks_app 124 s (d :: t) Hs124 H124) as H. rewrite E in H. inversion H. congruence.
Qed.

Lemma dec_plain_string a b c : dec_nonneg a ++ [46] ++ dec_nonneg b ++ [46] ++ dec_nonneg c = version_string (plain a b c).
Proof. now rewrite plain_string. Qed.

Lemma parse_wild c (la ha : Z * Z * Z) :
  let '(l1, l2, l3) := la in let '(h1, h2, h3) := ha in
  0 <= l1 < 2 ^ 64 -> 0 <= l2 < 2 ^ 64 -> 0 <= l3 < 2 ^ 64 -> 0 <= h1 < 2 ^ 64 -> 0 <= h2 < 2 ^ 64 -> 0 <= h3 < 2 ^ 64 ->
  res_map_all parse_ap (wild_strings c (dec_nonneg l1 ++ [46] ++ dec_nonneg l2 ++ [46] ++ dec_nonneg l3)
                                       (dec_nonneg h1 ++ [46] ++ dec_nonneg h2 ++ [46] ++ dec_nonneg h3)) =
  Ok (wild_expansion c (plain l1 l2 l3) (plain h1 h2 h3)).
Proof.
  destruct la as [[l1 l2] l3], ha as [[h1 h2] h3]. intros.
  assert (Hge : In ge_op (op_spellings CGE)) by (left; reflexivity).
  assert (Hlt : In lt_op (op_spellings CLT)) by (left; reflexivity).
  destruct c; cbn [wild_strings wild_expansion res_map_all]; unfold bind;
    rewrite ?(parse_ap_plain CGE ge_op), ?(parse_ap_plain CLT lt_op) by assumption; reflexivity.
Qed.

(** * the wildcard rules *)
Theorem wildcard_minor c s M : In s (op_spellings c) -> 0 <= M -> M + 1 < 2 ^ 63 ->
  range_groups (s ++ dec_nonneg M ++ dotx) = Ok [wild_expansion c (plain M 0 0) (plain (M + 1) 0 0)].
Proof.
  intros Hs HM Hlt. destruct (spelling_facts s c Hs) as (Hc & _).
  assert (D0 : dec_nonneg 0 = [48]) by reflexivity.
  destruct (wild_tok_ok s (dec_nonneg M ++ dotx) Hc) as [Hok Hor].
  - destruct (dec_head M HM) as (d & t & E & Hd). rewrite E. exists d, (t ++ dotx). split; [reflexivity|assumption].
  - apply lacks_app; [now apply dec_lacks|repeat constructor; discriminate].
  - apply lacks_app; [now apply dec_lacks|repeat constructor; discriminate].
  - rewrite last_app_r by discriminate. reflexivity.
  - unfold dotx. rewrite app_length. cbn [length]. lia.
  - apply (range_groups_single _ _ _ Hok Hor (expand_minor c s M Hs HM Hlt)).
    pose proof (parse_wild c (M, 0, 0) (M + 1, 0, 0)) as H. cbv beta iota in H. rewrite D0 in H. cbn [app] in H |- *.
    apply H; lia.
Qed.

Theorem wildcard_patch c s M m : In s (op_spellings c) -> 0 <= M < 2 ^ 64 -> 0 <= m -> m + 1 < 2 ^ 63 ->
  range_groups (s ++ dec_nonneg M ++ [46] ++ dec_nonneg m ++ dotx) = Ok [wild_expansion c (plain M m 0) (plain M (m + 1) 0)].
Proof.
  intros Hs HM Hm Hlt. destruct (spelling_facts s c Hs) as (Hc & _).
  assert (D0 : dec_nonneg 0 = [48]) by reflexivity.
  destruct (wild_tok_ok s (dec_nonneg M ++ [46] ++ dec_nonneg m ++ dotx) Hc) as [Hok Hor].
  - destruct (dec_head M (proj1 HM)) as (d & t & E & Hd). rewrite E. eexists d, _. split; [reflexivity|assumption].
  - apply lacks_app; [apply dec_lacks; [lia|reflexivity]|]. apply lacks_app; [repeat constructor; discriminate|].
    apply lacks_app; [now apply dec_lacks|repeat constructor; discriminate].
  - apply lacks_app; [apply dec_lacks; [lia|reflexivity]|]. apply lacks_app; [repeat constructor; discriminate|].
    apply lacks_app; [now apply dec_lacks|repeat constructor; discriminate].
  - rewrite !app_assoc. rewrite last_app_r by discriminate. reflexivity.
  - unfold dotx. rewrite !app_length. cbn [length]. lia.
  - apply (range_groups_single _ _ _ Hok Hor (expand_patch c s M m Hs (proj1 HM) Hm Hlt)).
    pose proof (parse_wild c (M, m, 0) (M, m + 1, 0)) as H. cbv beta iota in H. rewrite D0 in H.
    replace (dec_nonneg M ++ [46] ++ dec_nonneg m ++ [46; 48]) with (dec_nonneg M ++ [46] ++ dec_nonneg m ++ [46] ++ [48]) by reflexivity.
    replace (dec_nonneg M ++ [46] ++ dec_nonneg (m + 1) ++ [46; 48]) with (dec_nonneg M ++ [46] ++ dec_nonneg (m + 1) ++ [46] ++ [48]) by reflexivity.
    apply H; lia.
Qed.

(** * the quirk:  M.x.x  is NOT  M.x : it is  >= M.0.0 < M.1.0  (a three-part wildcard increments the MINOR number) *)
Definition dotxx : str := [46; 120; 46; 120].

Lemma flat_Mxx M : 0 <= M -> createVersionFromWildcard (dec_nonneg M ++ dotxx) = dec_nonneg M ++ [46; 48; 46; 48].
Proof.
  intros HM. unfold createVersionFromWildcard, replace_first.
  rewrite (split_first_skip 46 [120; 46; 120] (dec_nonneg M) dotxx) by now apply dec_lacks.
  change (split_first [46; 120; 46; 120] dotxx) with (Some (@nil Z, @nil Z)). cbv beta iota zeta. rewrite !app_nil_r.
  rewrite (split_first_skip 46 [120] (dec_nonneg M) [46; 120]) by now apply dec_lacks.
  change (split_first [46; 120] [46; 120]) with (Some (@nil Z, @nil Z)). cbv beta iota zeta. rewrite !app_nil_r.
  assert (E : split [46] (dec_nonneg M ++ [46; 48]) = [dec_nonneg M; [48]]).
  { change (dec_nonneg M ++ [46; 48]) with (join [46] [dec_nonneg M; [48]]). apply split_join; [discriminate|].
    repeat constructor; try discriminate. now apply dec_lacks. }
  rewrite E. cbn [length Nat.eqb]. now rewrite <- app_assoc.
Qed.

Theorem wildcard_xx c s M : In s (op_spellings c) -> 0 <= M < 2 ^ 64 ->
  range_groups (s ++ dec_nonneg M ++ dotxx) = Ok [wild_expansion c (plain M 0 0) (plain M 1 0)].
Proof.
  intros Hs HM. destruct (spelling_facts s c Hs) as (Hc & _).
  assert (D0 : dec_nonneg 0 = [48]) by reflexivity. assert (D1 : dec_nonneg 1 = [49]) by reflexivity.
  assert (Hhead : exists d t, dec_nonneg M ++ dotxx = d :: t /\ is_digit d = true).
  { destruct (dec_head M (proj1 HM)) as (d & t & E & Hd). rewrite E. exists d, (t ++ dotxx). split; [reflexivity|assumption]. }
  destruct (wild_tok_ok s (dec_nonneg M ++ dotxx) Hc Hhead) as [Hok Hor].
  - apply lacks_app; [apply dec_lacks; [lia|reflexivity]|repeat constructor; discriminate].
  - apply lacks_app; [apply dec_lacks; [lia|reflexivity]|repeat constructor; discriminate].
  - rewrite last_app_r by discriminate. reflexivity.
  - unfold dotxx. rewrite app_length. cbn [length]. lia.
  - assert (Hex : expand_one (s ++ dec_nonneg M ++ dotxx) =
                  Ok (wild_strings c (dec_nonneg M ++ [46; 48; 46; 48]) (dec_nonneg M ++ [46; 49; 46; 48]))).
    { apply (expand_one_wild c s (dec_nonneg M ++ dotxx) 3); try assumption.
      - unfold dotxx. replace (s ++ dec_nonneg M ++ [46; 120; 46; 120]) with ((s ++ dec_nonneg M ++ [46; 120; 46]) ++ [120])
          by (now rewrite <- !app_assoc).
        apply contains_x_suffix.
      - unfold getWildcardType.
        assert (E : split [46] (dec_nonneg M ++ dotxx) = [dec_nonneg M; [120]; [120]]).
        { change (dec_nonneg M ++ dotxx) with (join [46] [dec_nonneg M; [120]; [120]]). apply split_join; [discriminate|].
          repeat constructor; try discriminate. apply dec_lacks; [lia|reflexivity]. }
        rewrite E. reflexivity.
      - now right.
      - apply flat_Mxx. lia.
      - cbn [Z.eqb]. pose proof (inc1 M 0 (proj1 HM) ltac:(lia) ltac:(lia)) as H. rewrite D0 in H. cbn [Z.add] in H. rewrite D1 in H.
        cbn [app] in H. exact H. }
    apply (range_groups_single _ _ _ Hok Hor Hex).
    pose proof (parse_wild c (M, 0, 0) (M, 1, 0)) as H. cbv beta iota in H. rewrite D0, D1 in H. cbn [app] in H |- *.
    apply H; lia.
Qed.

(** what the expansion means: for the bare wildcard  M.x  the range holds exactly for the versions from M.0.0 (inclusive)
    up to (M+1).0.0 (exclusive) in the precedence order *)
Lemma wild_eq_holds lo hi v :
  range_holds [wild_expansion CEQ lo hi] v = true <-> prec v lo <> Lt /\ prec v hi = Lt.
Proof.
  unfold range_holds, group_holds, wild_expansion. cbn [existsb forallb fst snd sat]. rewrite orb_false_r, andb_true_r, andb_true_iff.
  destruct (prec v lo), (prec v hi); split; intros [H1 H2]; try discriminate; try congruence; split; try reflexivity; try discriminate; try congruence.
Qed.
