(** C12, Builder: the exact number of words after any history, hence Words itself is determined
    (the unique word list of that length with those 1-bits). *)
From Coq Require Import ZArith List Lia Bool Sorted.
From Low Require Import Lib.MachInt Lib.Bits Lib.BitSeq Lib.BitsExtra_bm2 Lib.BitsExtra_bm12
  Model.BitmapUtil Model.BuilderOps Model.BitmapOf Spec.OfSpec Proofs.OfProofs Proofs.OfInspect
  Proofs.OfRoundTrip Proofs.BuilderProofs.
Import ListNotations.
Open Scope Z_scope.

(** the abstract machine extended with the word count: Extend grows to the words needed for
    max(Offset + size, Offset + last + 1 if last >= size), Set to the word of p; never shrinks *)
Definition alen_step (st : Z * abs) (o : bop) : Z * abs :=
  (match o with
   | BExtend ps size => Z.max (fst st) (words_for (extend_end (aoff (snd st)) ps size))
   | BSet p v => Z.max (fst st) (p / 64 + 1)
   end, astep (snd st) o).

Lemma alen_snd ops : forall st, snd (fold_left alen_step ops st) = fold_left astep ops (snd st).
Proof. induction ops as [|o ops IH]; intros st; [reflexivity|]. cbn [fold_left]. now rewrite IH. Qed.

Theorem bfold_len ops : forall a b,
  binv a b -> forallb bop_dom ops = true ->
  exists b', bfold b ops = Some b' /\ binv (fold_left astep ops a) b' /\
             zlen (Words b') = fst (fold_left alen_step ops (zlen (Words b), a)).
Proof.
  induction ops as [|o ops IH]; intros a b Hinv Hdom.
  - exists b. split; [reflexivity|]. split; [exact Hinv|reflexivity].
  - cbn [forallb] in Hdom. apply andb_true_iff in Hdom. destruct Hdom as [Ho Hdom].
    assert (Hstep : exists b1, bstep b o = Some b1 /\ binv (astep a o) b1 /\
                      (zlen (Words b1), astep a o) = alen_step (zlen (Words b), a) o).
    { destruct Hinv as [Hok Hr]. pose proof (proj1 Hok) as Hoff.
      destruct o as [ps size|p v]; cbn [bop_dom] in Ho.
      - rewrite !andb_true_iff in Ho. destruct Ho as [[Hs Hnn] Hsize].
        destruct (Extend_step a b ps size (conj Hok Hr) Hs Hnn ltac:(lia)) as (b1 & E & H & Hl).
        exists b1. split; [exact E|]. split; [exact H|].
        unfold alen_step. cbn [fst snd]. rewrite Hl, Hoff. reflexivity.
      - destruct (Set_step a b p v (conj Hok Hr) ltac:(lia)) as (b1 & E & H & Hl).
        exists b1. split; [exact E|]. split; [exact H|].
        unfold alen_step. cbn [fst snd]. now rewrite Hl. }
    destruct Hstep as (b1 & E & Hinv1 & Hl).
    destruct (IH (astep a o) b1 Hinv1 Hdom) as (b' & E' & Hinv' & Hl').
    exists b'. cbn [bfold fold_left]. rewrite E. split; [exact E'|]. split; [exact Hinv'|].
    rewrite Hl'. now rewrite Hl.
Qed.

(** from NewBuilder(n): the word count is the abstract one, and Words is THE word list of that length
    whose 1-bits are the positions set so far *)
Theorem Builder_words_exact n ops :
  0 <= n -> forallb bop_dom ops = true ->
  exists b0 b, NewBuilder n = Some b0 /\ bfold b0 ops = Some b /\
    let st := fold_left alen_step ops (0, abs0) in
    zlen (Words b) = fst st /\ Offset b = aoff (snd st) /\
    forall ws, words_ok ws -> zlen ws = fst st -> ones (flat ws) = usort (abits (snd st)) -> ws = Words b.
Proof.
  intros Hn Hdom. destruct (NewBuilder_inv n Hn) as (b0 & E0 & Hinv0).
  assert (Hz : zlen (Words b0) = 0).
  { unfold NewBuilder in E0. destruct (Z.shiftr n 6 <? 0); [discriminate|]. injection E0 as <-. reflexivity. }
  destruct (bfold_len ops abs0 b0 Hinv0 Hdom) as (b & Eb & [(Hoff & Hok & Hones) Hr] & Hl).
  rewrite Hz in Hl.
  exists b0, b. split; [exact E0|]. split; [exact Eb|]. cbv zeta. rewrite alen_snd. cbn [snd].
  split; [exact Hl|]. split; [exact Hoff|].
  intros ws Hwok Hwl Hwo. apply words_ext; try assumption.
  - unfold zlen in *. lia.
  - apply ones_flat_bits. congruence.
Qed.
