(** C17: ShardByPrefix returns a sharding accepted by [shard_ok] / described by
    [shard_spec], for every non-empty strictly ascending key list and every
    [maxSize >= 1] (no bound on the number or the length of the keys). *)
From Coq Require Import ZArith List Lia Bool.
From Low Require Import Lib.MachInt Lib.Bits Lib.BitSeq Lib.Lex Lib.Bytes Lib.LexExtra_sig
  Model.Sigbits Spec.SigbitsSpec Spec.ShardRouteSpec Spec.ShardSplitSpec
  Proofs.SigbitsFirstDiff Proofs.SigbitsShardChecker Proofs.SigbitsRuns.
Import ListNotations.
Open Scope Z_scope.

(** * [FirstDiffBits >> 3] is the length in bytes of the common prefix *)

Lemma c17_lcp_app_short {A} (eqb : A -> A -> bool) : forall p q u v,
  (length (lcp eqb p q) < length p)%nat -> (length (lcp eqb p q) < length q)%nat ->
  lcp eqb (p ++ u) (q ++ v) = lcp eqb p q.
Proof.
  induction p as [|x p IH]; intros [|y q] u v H1 H2; cbn [length lcp app] in *; try lia.
  destruct (eqb x y); [|reflexivity].
  cbn [length] in *. f_equal. apply IH; lia.
Qed.

Definition c17_bytes256 : list Z := map Z.of_nat (seq 0 256).

Lemma c17_byte_bits_table :
  forallb (fun x => forallb (fun y =>
     (x =? y) || (Z.of_nat (length (lcp_bits (byte_bits x) (byte_bits y))) <? 8)) c17_bytes256) c17_bytes256 = true.
Proof. vm_compute. reflexivity. Qed.

Lemma c17_in_bytes256 x : byte_ok x -> In x c17_bytes256.
Proof.
  intros H. unfold byte_ok in H. unfold c17_bytes256.
  replace x with (Z.of_nat (Z.to_nat x)) by lia. apply in_map. apply in_seq. lia.
Qed.

Lemma c17_byte_bits_differ x y : byte_ok x -> byte_ok y -> x <> y ->
  (length (lcp_bits (byte_bits x) (byte_bits y)) < 8)%nat.
Proof.
  intros Hx Hy Hne. pose proof c17_byte_bits_table as T.
  rewrite forallb_forall in T. specialize (T x (c17_in_bytes256 x Hx)).
  rewrite forallb_forall in T. specialize (T y (c17_in_bytes256 y Hy)).
  apply orb_true_iff in T. destruct T as [T|T]; [apply Z.eqb_eq in T; contradiction|].
  apply Z.ltb_lt in T. lia.
Qed.

Lemma first_diff_bit_div8 : forall a b, bytes_ok a -> bytes_ok b ->
  first_diff_bit a b / 8 = zlen (lcp_bytes a b).
Proof.
  induction a as [|x a IH]; intros b Ha Hb.
  - rewrite first_diff_bit_nil_l. reflexivity.
  - destruct b as [|y b].
    + rewrite first_diff_bit_nil_r. reflexivity.
    + inversion Ha as [|? ? Hx Ha']; subst. inversion Hb as [|? ? Hy Hb']; subst.
      unfold first_diff_bit. rewrite !msb_bits_cons.
      unfold lcp_bytes. cbn [lcp]. fold lcp_bytes.
      destruct (Z.eqb_spec x y) as [->|Hne].
      * unfold lcp_bits. rewrite (lcp_app_same Bool.eqb bool_eqb_spec). fold lcp_bits.
        unfold zlen. rewrite app_length, byte_bits_length. cbn [length].
        specialize (IH b Ha' Hb'). unfold first_diff_bit, zlen in IH.
        rewrite Nat2Z.inj_add, (Nat2Z.inj_succ (length (lcp_bytes a b))), <- IH.
        change (Z.of_nat 8) with (1 * 8). rewrite Z.add_comm, Z.div_add by lia. lia.
      * pose proof (c17_byte_bits_differ x y Hx Hy Hne) as Hlt.
        unfold lcp_bits in *. rewrite c17_lcp_app_short by (rewrite byte_bits_length; exact Hlt).
        unfold zlen. cbn [length]. apply Z.div_small. lia.
Qed.

Lemma sar32_first_diff_bit a b : bytes_ok a -> bytes_ok b ->
  sar32 (first_diff_bit a b) 3 = zlen (lcp_bytes a b).
Proof. intros Ha Hb. unfold sar32. change (3 <? 32) with true. cbn match. change (2 ^ 3) with 8. now apply first_diff_bit_div8. Qed.

(** * minimum of a list, folded from the left as the code does *)
Definition fmin (l : list nat) (a : nat) : nat := fold_left Nat.min l a.

Lemma fmin_cons x l a : fmin (x :: l) a = fmin l (Nat.min a x).
Proof. reflexivity. Qed.

Lemma fmin_snoc l x a : fmin (l ++ [x]) a = Nat.min (fmin l a) x.
Proof. unfold fmin. now rewrite fold_left_app. Qed.

Lemma fmin_le_acc l : forall a, (fmin l a <= a)%nat.
Proof. induction l as [|x l IH]; intros a; [cbn; lia|]. rewrite fmin_cons. specialize (IH (Nat.min a x)). lia. Qed.

Lemma fmin_le_in l : forall a x, In x l -> (fmin l a <= x)%nat.
Proof.
  induction l as [|y l IH]; intros a x Hx; [contradiction|]. rewrite fmin_cons.
  destruct Hx as [->|Hx]; [pose proof (fmin_le_acc l (Nat.min a x)); lia|now apply IH].
Qed.

Lemma fmin_ge l : forall a m, (m <= a)%nat -> (forall x, In x l -> (m <= x)%nat) -> (m <= fmin l a)%nat.
Proof.
  induction l as [|y l IH]; intros a m Ha H; [exact Ha|]. rewrite fmin_cons.
  apply IH; [specialize (H y (or_introl eq_refl)); lia|intros x Hx; apply H; now right].
Qed.

Lemma fmin_gt l : forall a m, (m < a)%nat -> (forall x, In x l -> (m < x)%nat) -> (m < fmin l a)%nat.
Proof. intros a m Ha H. apply (fmin_ge l a (S m)); [lia|intros x Hx; apply H in Hx; lia]. Qed.

Lemma fmin_attain l : forall a, fmin l a = a \/ In (fmin l a) l.
Proof.
  induction l as [|y l IH]; intros a; [now left|]. rewrite fmin_cons.
  destruct (IH (Nat.min a y)) as [H|H]; [|right; now right].
  rewrite H. destruct (Nat.min_spec a y) as [[_ ->]|[_ ->]]; [now left|right; now left].
Qed.

Lemma c17_skipn_nth {A} (d : A) : forall (l : list A) s, (s < length l)%nat ->
  skipn s l = nth s l d :: skipn (S s) l.
Proof.
  induction l as [|k ks IH]; intros s Hs; [cbn in Hs; lia|].
  destruct s as [|s]; [reflexivity|]. cbn [skipn nth]. apply IH. cbn [length] in Hs. lia.
Qed.

(** a truncation of a string is not above the string, nor above anything the string is below *)
Lemma c17_firstn_le : forall n (x : list Z), bytes_cmp (firstn n x) x <> Gt.
Proof.
  induction n as [|n IH]; intros x.
  - destruct x; cbn; discriminate.
  - destruct x as [|a x]; [cbn; discriminate|].
    cbn [firstn]. unfold bytes_cmp. cbn [lex_cmp]. rewrite Z.compare_refl. apply IH.
Qed.

Lemma c17_firstn_lt n (x y : list Z) : bytes_cmp x y = Lt -> bytes_cmp (firstn n x) y = Lt.
Proof.
  intros H. destruct (bytes_cmp (firstn n x) x) eqn:E.
  - apply (lex_cmp_eq Z.compare Z.compare_eq_iff) in E. now rewrite E.
  - exact (lex_lt_trans Z.compare Z.compare_eq_iff Z_cmp_lt_trans _ _ _ E H).
  - now apply c17_firstn_le in E.
Qed.

Lemma c17_bytes_cmp_antisym a b : bytes_cmp b a = CompOpp (bytes_cmp a b).
Proof. apply lex_cmp_antisym. intros x y. apply Z.compare_antisym. Qed.

(** * the keys, by position *)
Section Shard.
  Variable keys : list (list Z).
  Hypothesis Hok : keys_ok keys.
  Variable maxSize : Z.

  Definition K (i : nat) : list Z := nth i keys [].
  (** common-prefix length (bytes) of keys [i] and [i+1] *)
  Definition q (i : nat) : nat := length (lcp_bytes (K i) (K (S i))).
  Definition mlen (s n a : nat) : nat := fmin (map q (seq s n)) a.
  (** common-prefix length of [keys[s:e]] *)
  Definition M (s e : nat) : nat := mlen s (e - s - 1) (length (K s)).

  Let fd := spec_FirstDiffBits keys.

  Lemma K_ok i : bytes_ok (K i).
  Proof.
    unfold K. destruct (Nat.lt_ge_cases i (length keys)) as [H|H].
    - unfold keys_ok in Hok. rewrite Forall_forall in Hok. apply Hok. now apply nth_In.
    - rewrite nth_overflow by exact H. constructor.
  Qed.

  Lemma mlen_S s n a : mlen s (S n) a = mlen (S s) n (Nat.min a (q s)).
  Proof. reflexivity. Qed.

  Lemma mlen_snoc s n a : mlen s (S n) a = Nat.min (mlen s n a) (q (s + n)).
  Proof. unfold mlen. rewrite seq_S, map_app. cbn [map]. apply fmin_snoc. Qed.

  Lemma mlen_le_acc s n a : (mlen s n a <= a)%nat.
  Proof. apply fmin_le_acc. Qed.

  Lemma mlen_le_q s n a i : (s <= i < s + n)%nat -> (mlen s n a <= q i)%nat.
  Proof. intros Hi. apply fmin_le_in. apply in_map. apply in_seq. lia. Qed.

  Lemma mlen_ge s n a m : (m <= a)%nat -> (forall i, (s <= i < s + n)%nat -> (m <= q i)%nat) -> (m <= mlen s n a)%nat.
  Proof.
    intros Ha H. apply fmin_ge; [exact Ha|]. intros x Hx. apply in_map_iff in Hx.
    destruct Hx as (i & <- & Hi). apply in_seq in Hi. apply H. lia.
  Qed.

  Lemma mlen_gt s n a m : (m < a)%nat -> (forall i, (s <= i < s + n)%nat -> (m < q i)%nat) -> (m < mlen s n a)%nat.
  Proof.
    intros Ha H. apply fmin_gt; [exact Ha|]. intros x Hx. apply in_map_iff in Hx.
    destruct Hx as (i & <- & Hi). apply in_seq in Hi. apply H. lia.
  Qed.

  Lemma mlen_attain s n a : mlen s n a = a \/ exists i, (s <= i < s + n)%nat /\ q i = mlen s n a.
  Proof.
    destruct (fmin_attain (map q (seq s n)) a) as [H|H]; [now left|right].
    apply in_map_iff in H. destruct H as (i & Hq & Hi). apply in_seq in Hi. exists i. split; [lia|exact Hq].
  Qed.

  Lemma q_le_len i : (q i <= length (K i))%nat.
  Proof. apply (lcp_length_l Z.eqb). Qed.

  (** ** the longest common prefix of a range of keys *)
  Lemma skipn_K s : (s < length keys)%nat -> skipn s keys = K s :: skipn (S s) keys.
  Proof. apply c17_skipn_nth. Qed.

  Lemma fold_lcp_len : forall n s acc r, K s = acc ++ r -> (s + n < length keys)%nat ->
    length (fold_left lcp_bytes (firstn n (skipn (S s) keys)) acc) = mlen s n (length acc).
  Proof.
    induction n as [|n IH]; intros s acc r Hacc Hn; [reflexivity|].
    rewrite (skipn_K (S s)) by lia. cbn [firstn fold_left]. rewrite mlen_S.
    pose proof (lcp_firstn_r Z.eqb Z_eqb_spec acc (K (S s))) as Hp.
    rewrite (IH (S s) (lcp_bytes acc (K (S s))) (skipn (length (lcp_bytes acc (K (S s)))) (K (S s)))).
    - f_equal. unfold lcp_bytes. rewrite (lcp_of_prefix Z.eqb acc r (K (S s))). rewrite <- Hacc. reflexivity.
    - unfold lcp_bytes in *. rewrite <- (firstn_skipn (length (lcp Z.eqb acc (K (S s)))) (K (S s))) at 1.
      f_equal. exact Hp.
    - lia.
  Qed.

  Lemma lcp_all_sub s e : (s < e)%nat -> (e <= length keys)%nat ->
    length (lcp_all (sub_keys keys (Z.of_nat s) (Z.of_nat e))) = M s e.
  Proof.
    intros Hse He. unfold sub_keys.
    replace (Z.to_nat (Z.of_nat e - Z.of_nat s)) with (S (e - s - 1)) by lia.
    rewrite Nat2Z.id. rewrite (skipn_K s) by lia. cbn [firstn lcp_all].
    unfold M. apply (fold_lcp_len (e - s - 1) s (K s) []); [now rewrite app_nil_r|lia].
  Qed.

  (** ** reading the model's tables *)
  Lemma nthZ_keys s : (s < length keys)%nat -> nthZ keys (Z.of_nat s) = Some (K s).
  Proof. intros H. rewrite nthZ_of_nat. now apply nth_error_nth'. Qed.

  Lemma fd_length : length fd = (length keys - 1)%nat.
  Proof. unfold fd, spec_FirstDiffBits. now rewrite map_length, c17_adj_pairs_length. Qed.

  Lemma nthZ_fd i : (S i < length keys)%nat ->
    nthZ fd (Z.of_nat i) = Some (first_diff_bit (K i) (K (S i))).
  Proof.
    intros H. rewrite nthZ_of_nat. rewrite (nth_error_nth' fd 0) by (rewrite fd_length; lia).
    f_equal. unfold fd, spec_FirstDiffBits.
    rewrite (c17_map_nth _ ([], [])) by (rewrite c17_adj_pairs_length; lia).
    rewrite c17_adj_pairs_nth by exact H. reflexivity.
  Qed.

  Lemma idx_range_nat s e : idx_range (Z.of_nat s) (Z.of_nat e) = map Z.of_nat (seq s (e - s - 1)).
  Proof.
    unfold idx_range. replace (Z.to_nat (Z.of_nat e - 1 - Z.of_nat s)) with (e - s - 1)%nat by lia.
    replace (seq s (e - s - 1)) with (seq (0 + s) (e - s - 1)) by reflexivity. rewrite seq_add_map, map_map.
    apply map_ext. intros k. lia.
  Qed.

  (** ** the two scanning loops *)
  Lemma shard_min_ok : forall n s a, (s + n < length keys)%nat ->
    shard_min fd (map Z.of_nat (seq s n)) (Z.of_nat a) = Some (Z.of_nat (mlen s n a)).
  Proof.
    induction n as [|n IH]; intros s a Hn; [reflexivity|].
    cbn [seq map shard_min]. rewrite nthZ_fd by lia.
    rewrite sar32_first_diff_bit by apply K_ok. rewrite mlen_S. fold (q s).
    replace (if Z.of_nat a >? zlen (lcp_bytes (K s) (K (S s))) then zlen (lcp_bytes (K s) (K (S s))) else Z.of_nat a)
      with (Z.of_nat (Nat.min a (q s))).
    - apply IH. lia.
    - unfold q, zlen. destruct (Z.gtb_spec (Z.of_nat a) (Z.of_nat (length (lcp_bytes (K s) (K (S s)))))); lia.
  Qed.

  Definition split_ends (lam : nat) (is : list nat) : list nat :=
    map S (filter (fun i => Nat.eqb (q i) lam) is).

  Lemma shard_split_ok : forall is a E, (forall i, In i is -> (S i < length keys)%nat) ->
    shard_split fd (map Z.of_nat is) (Z.of_nat a) (map Z.of_nat E) =
    Some (Z.of_nat (fmin (map q is) a),
          map Z.of_nat ((if Nat.ltb (fmin (map q is) a) a then [] else E) ++ split_ends (fmin (map q is) a) is)).
  Proof.
    induction is as [|i is IH]; intros a E Hin.
    - cbn [map shard_split fmin fold_left split_ends filter]. rewrite Nat.ltb_irrefl, app_nil_r. reflexivity.
    - cbn [map shard_split]. rewrite nthZ_fd by (apply Hin; now left).
      rewrite sar32_first_diff_bit by apply K_ok.
      assert (Hin' : forall j, In j is -> (S j < length keys)%nat) by (intros j Hj; apply Hin; now right).
      change (zlen (lcp_bytes (K i) (K (S i)))) with (Z.of_nat (q i)).
      rewrite fmin_cons. unfold split_ends. cbn [filter].
      pose proof (fmin_le_acc (map q is) (Nat.min a (q i))) as Hle.
      destruct (Z.ltb_spec (Z.of_nat (q i)) (Z.of_nat a)) as [Hlt|Hge].
      + (* a shorter prefix: restart the split list *)
        replace (Nat.min a (q i)) with (q i) in * by lia.
        replace (Z.of_nat i + 1) with (Z.of_nat (S i)) by lia.
        change [Z.of_nat (S i)] with (map Z.of_nat [S i]).
        rewrite (IH (q i) [S i] Hin'). f_equal. f_equal. f_equal.
        destruct (Nat.ltb_spec (fmin (map q is) (q i)) a); [|lia].
        destruct (Nat.eqb_spec (q i) (fmin (map q is) (q i))) as [He|He].
        * rewrite <- He. rewrite Nat.ltb_irrefl. reflexivity.
        * destruct (Nat.ltb_spec (fmin (map q is) (q i)) (q i)); [reflexivity|lia].
      + destruct (Z.eqb_spec (Z.of_nat (q i)) (Z.of_nat a)) as [Heq|Hneq].
        * (* another split point at the same length *)
          replace (Nat.min a (q i)) with a in * by lia.
          replace (Z.of_nat i + 1) with (Z.of_nat (S i)) by lia.
          change [Z.of_nat (S i)] with (map Z.of_nat [S i]). rewrite <- map_app.
          rewrite (IH a (E ++ [S i]) Hin'). f_equal. f_equal. f_equal.
          destruct (Nat.ltb_spec (fmin (map q is) a) a) as [H1|H1].
          -- destruct (Nat.eqb_spec (q i) (fmin (map q is) a)); [lia|reflexivity].
          -- destruct (Nat.eqb_spec (q i) (fmin (map q is) a)); [|lia].
             rewrite <- app_assoc. reflexivity.
        * replace (Nat.min a (q i)) with a in * by lia.
          rewrite (IH a E Hin'). f_equal. f_equal. f_equal. f_equal.
          destruct (Nat.eqb_spec (q i) (fmin (map q is) a)); [lia|reflexivity].
  Qed.

  Lemma shard_split_top s e : (e <= length keys)%nat ->
    shard_split fd (idx_range (Z.of_nat s) (Z.of_nat e)) (zlen (K s)) [] =
    Some (Z.of_nat (M s e), map Z.of_nat (split_ends (M s e) (seq s (e - s - 1)))).
  Proof.
    intros He. rewrite idx_range_nat.
    assert (Hin : forall i, In i (seq s (e - s - 1)) -> (S i < length keys)%nat)
      by (intros i Hi; apply in_seq in Hi; lia).
    etransitivity; [exact (shard_split_ok (seq s (e - s - 1)) (length (K s)) [] Hin)|].
    unfold M, mlen. f_equal. f_equal. f_equal.
    destruct (Nat.ltb _ _); reflexivity.
  Qed.

  (** ** order of the keys *)
  Hypothesis Hasc : strict_asc keys.

  Lemma K_adj_lt i : (S i < length keys)%nat -> bytes_cmp (K i) (K (S i)) = Lt.
  Proof.
    intros H. apply (Hasc (K i, K (S i))). unfold K.
    rewrite <- (c17_adj_pairs_nth [] keys i H). apply nth_In. rewrite c17_adj_pairs_length. lia.
  Qed.

  (** keys [i] < [i+n+1], and their common prefix is the shortest of the adjacent ones between them *)
  Lemma lcp_range : forall n i, (S (i + n) < length keys)%nat ->
    bytes_cmp (K i) (K (S (i + n))) = Lt /\
    length (lcp_bytes (K i) (K (S (i + n)))) = mlen (S i) n (q i).
  Proof.
    induction n as [|n IH]; intros i H.
    - rewrite Nat.add_0_r in *. split; [now apply K_adj_lt|reflexivity].
    - destruct (IH i ltac:(lia)) as [Hlt Hlen].
      replace (i + S n)%nat with (S (i + n)) by lia.
      pose proof (K_adj_lt (S (i + n)) ltac:(lia)) as Hadj.
      split.
      + exact (lex_lt_trans Z.compare Z.compare_eq_iff Z_cmp_lt_trans _ _ _ Hlt Hadj).
      + unfold lcp_bytes.
        rewrite (lcp_sorted3 Z.compare Z.eqb Z_eqb_spec Z.compare_eq_iff Z_cmp_lt_trans _ _ _ Hlt Hadj).
        fold lcp_bytes. rewrite Hlen, mlen_snoc. reflexivity.
  Qed.

  (** ** what one call of [dfs] appends: shards (start, end, prefix length) *)
  Definition triple := (nat * nat * nat)%type.
  Definition tb (t : triple) : nat := fst (fst t).
  Definition te (t : triple) : nat := snd (fst t).
  Definition tl (t : triple) : nat := snd t.
  Definition pref (t : triple) : list Z := firstn (tl t) (K (tb t)).

  (** contiguous shards from [s] to [e], none empty, none larger than [maxSize],
      each with the common-prefix length of its keys *)
  Fixpoint chain (s e : nat) (ts : list triple) : Prop :=
    match ts with
    | [] => s = e
    | t :: r => tb t = s /\ (s < te t)%nat /\ Z.of_nat (te t) - Z.of_nat s <= maxSize /\
                tl t = M s (te t) /\ chain (te t) e r
    end.

  Fixpoint asc (l : list (list Z)) : Prop :=
    match l with
    | a :: ((b :: _) as t) => bytes_cmp a b = Lt /\ asc t
    | _ => True
    end.

  Definition app_st (st : shard_out) (ts : list triple) : shard_out :=
    (fst st ++ map (fun t => Z.of_nat (tl t)) ts, snd st ++ map (fun t => Z.of_nat (te t)) ts).

  Lemma app_st_app st t1 t2 : app_st (app_st st t1) t2 = app_st st (t1 ++ t2).
  Proof. unfold app_st. cbn [fst snd]. now rewrite !map_app, !app_assoc. Qed.

  Lemma chain_le : forall ts s e, chain s e ts -> (s <= e)%nat.
  Proof.
    induction ts as [|t r IH]; intros s e H; cbn [chain] in H; [lia|].
    destruct H as (_ & H1 & _ & _ & H2). apply IH in H2. lia.
  Qed.

  Lemma chain_app : forall t1 s m e t2, chain s m t1 -> chain m e t2 -> chain s e (t1 ++ t2).
  Proof.
    induction t1 as [|t r IH]; intros s m e t2 H1 H2; cbn [chain app] in *; [now subst|].
    destruct H1 as (A & B & C & D & E). repeat split; try assumption. eapply IH; eassumption.
  Qed.

  Lemma chain_last : forall ts s e t, chain s e (ts ++ [t]) ->
    (s <= tb t)%nat /\ (tb t < te t)%nat /\ te t = e /\ tl t = M (tb t) (te t).
  Proof.
    induction ts as [|t0 r IH]; intros s e t H; cbn [chain app] in H.
    - destruct H as (A & B & C & D & E). rewrite A. repeat split; try lia; assumption.
    - destruct H as (A & B & C & D & E). apply IH in E. destruct E as (E1 & E2 & E3 & E4).
      repeat split; try assumption; lia.
  Qed.

  Lemma chain_In : forall ts s e t, chain s e ts -> In t ts ->
    (s <= tb t)%nat /\ (tb t < te t)%nat /\ (te t <= e)%nat.
  Proof.
    induction ts as [|t0 r IH]; intros s e t H Hin; [contradiction|].
    cbn [chain] in H. destruct H as (A & B & C & D & E). pose proof (chain_le _ _ _ E) as Hle.
    destruct Hin as [<-|Hin]; [rewrite A; lia|].
    destruct (IH _ _ _ E Hin) as (E1 & E2 & E3). lia.
  Qed.

  (** every key of the range before a shard leaves that shard's prefix:
      its common prefix with the shard's first key is shorter than the shard's prefix *)
  Definition sep (s : nat) (ts : list triple) : Prop :=
    Forall (fun t => forall i, (s <= i < tb t)%nat ->
                     (length (lcp_bytes (K i) (K (tb t))) < tl t)%nat) ts.

  Lemma asc_cons2 a b t : asc (a :: b :: t) <-> bytes_cmp a b = Lt /\ asc (b :: t).
  Proof. reflexivity. Qed.

  Lemma asc_app : forall l1 x y l2, asc (l1 ++ [x]) -> asc (y :: l2) -> bytes_cmp x y = Lt ->
    asc ((l1 ++ [x]) ++ y :: l2).
  Proof.
    induction l1 as [|a l1 IH]; intros x y l2 H1 H2 Hxy.
    - cbn [app]. apply asc_cons2. now split.
    - destruct l1 as [|b l1].
      + cbn [app] in *. apply asc_cons2 in H1. destruct H1 as [Hab _].
        apply asc_cons2. split; [exact Hab|]. apply asc_cons2. now split.
      + cbn [app] in H1. apply asc_cons2 in H1. destruct H1 as [Hab H1].
        cbn [app]. apply asc_cons2. split; [exact Hab|]. apply (IH x y l2); assumption.
  Qed.

  Lemma strict_ascb_asc : forall l, asc l -> strict_ascb l = true.
  Proof.
    induction l as [|a l IH]; intros H; [reflexivity|].
    destruct l as [|b t]; [reflexivity|].
    apply asc_cons2 in H. destruct H as [Hab Ht]. unfold strict_ascb in *.
    rewrite c17_adj_pairs_cons2. cbn [forallb fst snd]. rewrite Hab. cbn [andb]. apply IH. exact Ht.
  Qed.

  (** ** ranges of keys, as lists *)
  Definition rng (a b : nat) : list (list Z) := firstn (b - a) (skipn a keys).
  Definition shard (t : triple) : list (list Z) := rng (tb t) (te t).
  Fixpoint ranges_of (a : nat) (ends : list nat) : list (list (list Z)) :=
    match ends with
    | [] => []
    | b :: r => rng a b :: ranges_of b r
    end.

  Lemma rng_sub_keys a b : sub_keys keys (Z.of_nat a) (Z.of_nat b) = rng a b.
  Proof.
    unfold sub_keys, rng. rewrite Nat2Z.id.
    now replace (Z.to_nat (Z.of_nat b - Z.of_nat a)) with (b - a)%nat by lia.
  Qed.

  Lemma rng_cons a b : (a < b)%nat -> (b <= length keys)%nat -> rng a b = K a :: rng (S a) b.
  Proof.
    intros Hab Hb. unfold rng. rewrite (skipn_K a) by lia.
    replace (b - a)%nat with (S (b - S a)) by lia. reflexivity.
  Qed.

  Lemma rng_one a : (a < length keys)%nat -> rng a (S a) = [K a].
  Proof.
    intros Ha. rewrite rng_cons by lia. unfold rng. now rewrite Nat.sub_diag.
  Qed.

  Lemma rng_length a b : (b <= length keys)%nat -> length (rng a b) = (b - a)%nat.
  Proof. intros Hb. unfold rng. rewrite firstn_length, skipn_length. lia. Qed.

  Lemma rng_app a b c : (a <= b)%nat -> (b <= c)%nat -> rng a b ++ rng b c = rng a c.
  Proof.
    intros Hab Hbc. unfold rng.
    replace (c - a)%nat with ((b - a) + (c - b))%nat by lia.
    rewrite <- (firstn_skipn (b - a) (firstn (b - a + (c - b)) (skipn a keys))).
    f_equal.
    - rewrite firstn_firstn. f_equal. lia.
    - rewrite skipn_firstn_comm. replace (b - a + (c - b) - (b - a))%nat with (c - b)%nat by lia.
      f_equal. rewrite skipn_add. f_equal. lia.
  Qed.

  (** ** the split: groups of a too large range *)
  Section Split.
    Variables (lam e F : nat).

    (** [groups a ends]: the ranges [a, ends0), [ends0, ends1), ..., [.., e) -- every adjacent
        common prefix inside a group is longer than [lam], the one across each boundary is [lam] *)
    Inductive groups : nat -> list nat -> Prop :=
    | g_last a : (a < e)%nat -> (e - a <= F)%nat ->
        (forall j, (a <= j)%nat -> (S j < e)%nat -> (lam < q j)%nat) -> groups a [e]
    | g_cons a i r : (a <= i)%nat -> (S i < e)%nat -> (S i - a <= F)%nat ->
        (forall j, (a <= j < i)%nat -> (lam < q j)%nat) -> q i = lam ->
        groups (S i) r -> groups a (S i :: r).

    Lemma groups_build s0 : (e - s0 <= S F)%nat -> forall n a a',
      (s0 <= a)%nat -> (a <= a')%nat -> S (a' + n) = e ->
      (forall j, (a <= j < a')%nat -> (lam < q j)%nat) ->
      (forall j, (a' <= j < a' + n)%nat -> (lam <= q j)%nat) ->
      ((s0 < a)%nat \/ exists j, (a' <= j < a' + n)%nat /\ q j = lam) ->
      groups a (split_ends lam (seq a' n) ++ [e]).
    Proof.
      intros HF. induction n as [|n IH]; intros a a' Hs0 Ha He Hin Hge Hex.
      - cbn [seq split_ends filter map app]. apply g_last; [lia| |intros j H1 H2; apply Hin; lia].
        destruct Hex as [H|(j & Hj & _)]; lia.
      - cbn [seq]. unfold split_ends. cbn [filter].
        destruct (Nat.eqb_spec (q a') lam) as [Heq|Hne].
        + cbn [map app]. apply g_cons; try lia; [exact Hin|].
          apply (IH (S a') (S a')); try lia.
          * intros j Hj. apply Hge. lia.
        + apply (IH a (S a')); try lia.
          * intros j Hj. destruct (Nat.eq_dec j a') as [->|Hj'].
            -- specialize (Hge a' ltac:(lia)). lia.
            -- apply Hin. lia.
          * intros j Hj. apply Hge. lia.
          * destruct Hex as [H|(j & Hj & Hq)]; [now left|right].
            exists j. split; [|exact Hq]. destruct (Nat.eq_dec j a') as [->|]; [contradiction|lia].
    Qed.

    Hypothesis He : (e <= length keys)%nat.

    Lemma same_next_K j : (lam <= q j)%nat -> same_next lam (K j) (K (S j)) = true <-> (lam < q j)%nat.
    Proof. intros H. now apply same_next_iff. Qed.

    (** a group is one run *)
    Lemma runs_single : forall n a, (a + S n = e)%nat ->
      (forall j, (a <= j)%nat -> (S j < e)%nat -> (lam < q j)%nat) ->
      runs lam (rng a e) = [rng a e].
    Proof.
      induction n as [|n IH]; intros a Ha Hin.
      - replace e with (S a) by lia. rewrite rng_one by lia. reflexivity.
      - rewrite (rng_cons a e) by lia.
        specialize (IH (S a) ltac:(lia) ltac:(intros j H1 H2; apply Hin; lia)).
        rewrite (rng_cons (S a) e) in * by lia.
        rewrite (runs_join _ _ _ _ _ _ IH); [reflexivity|].
        apply same_next_K; [specialize (Hin a ltac:(lia) ltac:(lia)); lia|apply Hin; lia].
    Qed.

    (** a boundary after key [i] cuts the first run off *)
    Lemma runs_prepend i : (S i < e)%nat -> q i = lam -> forall n a, (a + n = i)%nat ->
      (forall j, (a <= j < i)%nat -> (lam < q j)%nat) ->
      runs lam (rng a e) = rng a (S i) :: runs lam (rng (S i) e).
    Proof.
      intros Hie Hq. induction n as [|n IH]; intros a Ha Hin.
      - assert (a = i) by lia. subst a.
        rewrite (rng_cons i e), rng_one by lia.
        rewrite (rng_cons (S i) e) by lia.
        destruct (runs_hd lam (K (S i)) (rng (S (S i)) e)) as (g & gs & Hr). rewrite Hr.
        apply (runs_new _ _ _ _ _ _ Hr).
        destruct (same_next lam (K i) (K (S i))) eqn:E; [|reflexivity].
        apply same_next_K in E; lia.
      - rewrite (rng_cons a e) by lia.
        specialize (IH (S a) ltac:(lia) ltac:(intros j Hj; apply Hin; lia)).
        rewrite (rng_cons a (S i)), (rng_cons (S a) (S i)) in * by lia.
        rewrite (runs_join _ _ _ _ _ _ IH); [reflexivity|].
        apply same_next_K; [specialize (Hin a ltac:(lia)); lia|apply Hin; lia].
    Qed.

    Lemma runs_groups : forall a ends, groups a ends -> runs lam (rng a e) = ranges_of a ends.
    Proof.
      induction 1 as [a Hae HF Hin|a i r Hai Hie HF Hin Hq Hg IH].
      - cbn [ranges_of]. apply (runs_single (e - a - 1) a); [lia|exact Hin].
      - cbn [ranges_of]. rewrite <- IH. apply (runs_prepend i Hie Hq (i - a) a); [lia|exact Hin].
    Qed.

    Hypothesis IHdfs : forall a b, (a < b)%nat -> (b <= e)%nat -> (b - a <= F)%nat -> forall st,
      exists ts, dfs keys fd maxSize F (Z.of_nat a) (Z.of_nat b) st = Some (app_st st ts) /\
                 chain a b ts /\ Forall (fun t => (M a b <= tl t)%nat) ts /\ asc (map pref ts) /\ sep a ts /\
                 map shard ts = split_spec F maxSize (rng a b).

    Lemma dfs_each_ok : forall a ends, groups a ends -> (lam <= length (K a))%nat -> forall st,
      exists ts, dfs_each (dfs keys fd maxSize F) (map Z.of_nat ends) (Z.of_nat a) st = Some (app_st st ts) /\
                 chain a e ts /\ Forall (fun t => (lam <= tl t)%nat) ts /\
                 ((lam < length (K a))%nat -> Forall (fun t => (lam < tl t)%nat) ts) /\
                 asc (map pref ts) /\ sep a ts /\
                 map shard ts = flat_map (split_spec F maxSize) (ranges_of a ends).
    Proof.
      induction 1 as [a Hae HF Hin|a i r Hai Hie HF Hin Hq Hg IH]; intros Hlam st.
      - cbn [map dfs_each].
        destruct (IHdfs a e Hae ltac:(lia) HF st) as (ts & Hd & Hc & Hf & Ha & Hs & Hx).
        rewrite Hd. exists ts. split; [reflexivity|]. split; [exact Hc|].
        split; [|split; [|split; [exact Ha|split; [exact Hs|cbn [ranges_of flat_map]; now rewrite app_nil_r]]]].
        + eapply Forall_impl; [|exact Hf]. intros t Ht. cbn beta in Ht.
          assert (lam <= M a e)%nat; [|lia].
          apply mlen_ge; [exact Hlam|]. intros j Hj. specialize (Hin j ltac:(lia) ltac:(lia)). lia.
        + intros Hlt. eapply Forall_impl; [|exact Hf]. intros t Ht. cbn beta in Ht.
          assert (lam < M a e)%nat; [|lia].
          apply mlen_gt; [exact Hlt|]. intros j Hj. apply Hin; lia.
      - cbn [map dfs_each].
        destruct (IHdfs a (S i) ltac:(lia) ltac:(lia) HF st) as (ts1 & Hd1 & Hc1 & Hf1 & Ha1 & Hs1 & Hx1).
        rewrite Hd1.
        assert (Hadj : bytes_cmp (K i) (K (S i)) = Lt) by (apply K_adj_lt; lia).
        assert (Hlen : (lam < length (K (S i)))%nat).
        { pose proof (lex_lt_length Z.compare Z.eqb Z_eqb_spec Z.compare_eq_iff _ _ Hadj) as Hl.
          fold lcp_bytes in Hl. fold (q i) in Hl. lia. }
        destruct (IH ltac:(lia) (app_st st ts1)) as (ts2 & Hd2 & Hc2 & Hf2 & Hf2' & Ha2 & Hs2 & Hx2).
        rewrite Hd2, app_st_app. exists (ts1 ++ ts2). split; [reflexivity|].
        specialize (Hf2' Hlen).
        assert (HM : (lam <= M a (S i))%nat).
        { apply mlen_ge; [exact Hlam|]. intros j Hj. specialize (Hin j ltac:(lia)). lia. }
        assert (HM' : (lam < length (K a))%nat -> (lam < M a (S i))%nat).
        { intros Hlt. apply mlen_gt; [exact Hlt|]. intros j Hj. apply Hin; lia. }
        split; [eapply chain_app; eassumption|]. split; [|split; [|split; [|split]]].
        5: { cbn [ranges_of flat_map]. now rewrite map_app, Hx1, Hx2. }
        4: { (* keys of the first group against the shards of the later groups *)
          apply Forall_app. split; [exact Hs1|].
          unfold sep in *. rewrite Forall_forall in *. intros t Ht i0 Hi0.
          destruct (chain_In _ _ _ _ Hc2 Ht) as (T1 & T2 & T3).
          destruct (Nat.lt_ge_cases i i0) as [Hgt|Hle]; [apply (Hs2 t Ht); lia|].
          specialize (Hf2' t Ht). cbn beta in Hf2'.
          destruct (lcp_range (tb t - i0 - 1) i0) as [_ Hlcp]; [lia|].
          replace (S (i0 + (tb t - i0 - 1))) with (tb t) in Hlcp by lia.
          rewrite Hlcp.
          assert (mlen (S i0) (tb t - i0 - 1) (q i0) <= q i)%nat; [|lia].
          destruct (Nat.eq_dec i0 i) as [E|E]; [rewrite E; apply mlen_le_acc|].
          apply mlen_le_q. lia. }
        + apply Forall_app. split; [|exact Hf2].
          eapply Forall_impl; [|exact Hf1]. intros t Ht. cbn beta in Ht. lia.
        + intros Hlt. specialize (HM' Hlt). apply Forall_app. split; [|exact Hf2'].
          eapply Forall_impl; [|exact Hf1]. intros t Ht. cbn beta in Ht. lia.
        + (* the prefixes of the two parts, and across the boundary *)
          assert (Hne1 : ts1 <> []) by (intros ->; cbn [chain] in Hc1; lia).
          destruct (exists_last Hne1) as (ts1' & t1 & ->).
          destruct ts2 as [|t2 ts2']; [cbn [chain] in Hc2; lia|].
          rewrite !map_app. cbn [map]. rewrite map_app in Ha1. cbn [map] in Ha1.
          apply asc_app; [exact Ha1|exact Ha2|].
          pose proof (chain_last _ _ _ _ Hc1) as (L1 & L2 & L3 & L4).
          cbn [chain] in Hc2. destruct Hc2 as (Hb2 & _).
          apply Forall_inv in Hf2'.
          assert (Hf1t : (M a (S i) <= tl t1)%nat).
          { rewrite Forall_forall in Hf1. apply Hf1. apply in_or_app. right. now left. }
          unfold pref. rewrite Hb2.
          set (b0 := tb t1) in *.
          destruct (lcp_range (i - b0) b0) as [Hlt Hlcp]; [lia|].
          replace (S (b0 + (i - b0))) with (S i) in * by lia.
          assert (Hl : length (lcp_bytes (K b0) (K (S i))) = lam).
          { rewrite Hlcp. apply Nat.le_antisymm.
            - destruct (Nat.eq_dec b0 i) as [E|E].
              + rewrite E, Nat.sub_diag. cbn. lia.
              + pose proof (mlen_le_q (S b0) (i - b0) (q b0) i ltac:(lia)). lia.
            - apply mlen_ge.
              + destruct (Nat.eq_dec b0 i) as [E|E]; [rewrite E; lia|]. specialize (Hin b0 ltac:(lia)). lia.
              + intros j Hj. destruct (Nat.eq_dec j i) as [E|E]; [rewrite E; lia|]. specialize (Hin j ltac:(lia)). lia. }
          apply (lex_trunc_lt Z.compare Z.eqb Z_eqb_spec Z.compare_eq_iff); [exact Hlt| |].
          * fold lcp_bytes. rewrite Hl.
            destruct (Nat.lt_ge_cases lam (length (K a))) as [Hlt'|Hge'].
            -- left. specialize (HM' Hlt'). lia.
            -- right. pose proof (q_le_len a) as Hqa.
               assert (a = i).
               { destruct (Nat.eq_dec a i) as [E|E]; [exact E|]. specialize (Hin a ltac:(lia)). lia. }
               subst i. assert (b0 = a) by lia.
               rewrite L4, L3. rewrite H. unfold M. replace (S a - a - 1)%nat with 0%nat by lia.
               cbn. lia.
          * fold lcp_bytes. rewrite Hl. exact Hf2'.
    Qed.
  End Split.

  Hypothesis Hms : 1 <= maxSize.

  (** ** the recursion *)
  Lemma dfs_ok : forall fuel s e, (s < e)%nat -> (e <= length keys)%nat -> (e - s <= fuel)%nat -> forall st,
    exists ts, dfs keys fd maxSize fuel (Z.of_nat s) (Z.of_nat e) st = Some (app_st st ts) /\
               chain s e ts /\ Forall (fun t => (M s e <= tl t)%nat) ts /\ asc (map pref ts) /\ sep s ts /\
               map shard ts = split_spec fuel maxSize (rng s e).
  Proof.
    induction fuel as [|F IH]; intros s e Hse He Hf st; [lia|].
    cbn [dfs]. rewrite nthZ_keys by lia.
    destruct (Z.leb_spec (Z.of_nat e - Z.of_nat s) maxSize) as [Hsz|Hsz].
    - (* small enough: one shard *)
      rewrite idx_range_nat. unfold zlen. rewrite shard_min_ok by lia. fold (M s e).
      exists [(s, e, M s e)]. split; [reflexivity|]. split; [|split; [|split; [exact I|split]]].
      4: { cbn [split_spec]. unfold zlen. rewrite rng_length by exact He.
           destruct (Z.leb_spec (Z.of_nat (e - s)) maxSize); [reflexivity|lia]. }
      3: { constructor; [|constructor]. cbn [tb fst]. intros i Hi. lia. }
      + cbn [chain tb te tl fst snd]. repeat split; try lia.
      + constructor; [cbn [tl snd]; lia|constructor].
    - (* split *)
      rewrite shard_split_top by exact He.
      change [Z.of_nat e] with (map Z.of_nat [e]). rewrite <- map_app.
      assert (Hg : groups (M s e) e F s (split_ends (M s e) (seq s (e - s - 1)) ++ [e])).
      { apply (groups_build (M s e) e F s); try lia.
        - intros j Hj. apply mlen_le_q. lia.
        - right. unfold M. destruct (mlen_attain s (e - s - 1) (length (K s))) as [H|(j & Hj & Hq)].
          + exists s. split; [lia|]. pose proof (q_le_len s).
            pose proof (mlen_le_q s (e - s - 1) (length (K s)) s ltac:(lia)). lia.
          + exists j. split; [lia|exact Hq]. }
      destruct (dfs_each_ok (M s e) e F He) with (a := s) (ends := split_ends (M s e) (seq s (e - s - 1)) ++ [e]) (st := st)
        as (ts & Hd & Hc & Hfa & _ & Ha & Hs & Hx).
      + intros a b Hab Hbe HF st'. apply IH; lia.
      + exact Hg.
      + apply mlen_le_acc.
      + exists ts. repeat split; try assumption.
        rewrite Hx. cbn [split_spec]. unfold zlen. rewrite rng_length by exact He.
        destruct (Z.leb_spec (Z.of_nat (e - s)) maxSize); [lia|].
        rewrite <- (runs_groups (M s e) e F He _ _ Hg).
        rewrite <- rng_sub_keys, lcp_all_sub by lia. now rewrite rng_sub_keys.
  Qed.

  (** ** from the shard list to the checker *)
  Definition outL (ts : list triple) : list Z := map (fun t => Z.of_nat (tl t)) ts.
  Definition outB (s : nat) (ts : list triple) : list Z := Z.of_nat s :: map (fun t => Z.of_nat (te t)) ts.

  Lemma bounds_okb_cons2 b b' t lo hi ms :
    bounds_okb (b :: b' :: t) lo hi ms = (b =? lo) && (b <? b') && (b' - b <=? ms) && bounds_okb (b' :: t) b' hi ms.
  Proof. reflexivity. Qed.

  Lemma bounds_chain : forall ts s e, chain s e ts ->
    bounds_okb (outB s ts) (Z.of_nat s) (Z.of_nat e) maxSize = true.
  Proof.
    induction ts as [|t r IH]; intros s e H; cbn [chain] in H.
    - subst. unfold outB. cbn [map bounds_okb]. now rewrite Z.eqb_refl.
    - destruct H as (A & B & C & D & E). unfold outB. cbn [map].
      rewrite bounds_okb_cons2, Z.eqb_refl.
      rewrite (proj2 (Z.ltb_lt _ _)) by lia. rewrite (proj2 (Z.leb_le _ _)) by lia.
      cbn [andb]. exact (IH (te t) e E).
  Qed.

  Lemma lcps_chain : forall ts s e, chain s e ts -> (e <= length keys)%nat ->
    forallb (fun p => fst p =? zlen (lcp_all (snd p))) (combine (outL ts) (shards keys (outB s ts))) = true.
  Proof.
    induction ts as [|t r IH]; intros s e H He; [reflexivity|].
    cbn [chain] in H. destruct H as (A & B & C & D & E).
    unfold outL, outB, shards. cbn [map]. rewrite c17_adj_pairs_cons2. cbn [map combine forallb fst snd].
    apply andb_true_iff. split.
    - apply Z.eqb_eq. unfold zlen. pose proof (chain_le _ _ _ E).
      rewrite lcp_all_sub by lia. now rewrite D.
    - exact (IH (te t) e E He).
  Qed.

  Lemma prefs_chain : forall ts s e, chain s e ts ->
    shard_prefixes keys (outL ts) (outB s ts) = map pref ts.
  Proof.
    induction ts as [|t r IH]; intros s e H; [reflexivity|].
    cbn [chain] in H. destruct H as (A & B & C & D & E).
    unfold shard_prefixes, outL, outB in *. cbn [map combine fst snd]. f_equal.
    - unfold pref. now rewrite A, !Nat2Z.id.
    - exact (IH (te t) e E).
  Qed.

  Lemma ShardByPrefix_triples : keys <> [] ->
    exists ts, ShardByPrefix keys maxSize = Some (outL ts, outB 0 ts) /\
               chain 0 (length keys) ts /\ asc (map pref ts) /\ sep 0 ts /\
               map shard ts = split_spec (S (length keys)) maxSize keys.
  Proof.
    intros Hne. unfold ShardByPrefix. rewrite (FirstDiffBits_exact keys Hne Hok). fold fd.
    assert (Hlen : (0 < length keys)%nat) by (destruct keys; [congruence|cbn [length]; lia]).
    replace (zlen fd + 1) with (Z.of_nat (length keys)) by (unfold zlen; rewrite fd_length; lia).
    destruct (dfs_ok (S (length keys)) 0 (length keys) Hlen (le_n _) ltac:(lia) ([], [0]))
      as (ts & Hd & Hc & _ & Ha & Hsep & Hx).
    change (Z.of_nat 0) with 0 in Hd. rewrite Hd.
    exists ts. split; [reflexivity|]. repeat split; try assumption.
    rewrite Hx. f_equal. unfold rng. rewrite Nat.sub_0_r. cbn [skipn]. apply firstn_all.
  Qed.

  (** ** the output as a function of the keys *)
  Lemma chain_outL : forall ts s e, chain s e ts -> (e <= length keys)%nat ->
    outL ts = map (fun sh => zlen (lcp_all sh)) (map shard ts).
  Proof.
    induction ts as [|t r IH]; intros s e H He; [reflexivity|].
    cbn [chain] in H. destruct H as (A & B & C & D & E). pose proof (chain_le _ _ _ E).
    unfold outL in *. cbn [map]. f_equal; [|exact (IH _ _ E He)].
    unfold shard, zlen. rewrite A, <- rng_sub_keys, lcp_all_sub by lia. now rewrite D.
  Qed.

  Lemma chain_outB : forall ts s e, chain s e ts -> (e <= length keys)%nat ->
    outB s ts = bounds_of (Z.of_nat s) (map shard ts).
  Proof.
    induction ts as [|t r IH]; intros s e H He; [reflexivity|].
    cbn [chain] in H. destruct H as (A & B & C & D & E). pose proof (chain_le _ _ _ E).
    unfold outB in *. cbn [map bounds_of]. f_equal.
    replace (Z.of_nat s + zlen (shard t)) with (Z.of_nat (te t)).
    - exact (IH _ _ E He).
    - unfold shard, zlen. rewrite A, rng_length by lia. lia.
  Qed.

  Lemma chain_concat : forall ts s e, chain s e ts -> concat (map shard ts) = rng s e.
  Proof.
    induction ts as [|t r IH]; intros s e H; cbn [chain] in H.
    - subst. unfold rng. now rewrite Nat.sub_diag.
    - destruct H as (A & B & C & D & E). pose proof (chain_le _ _ _ E).
      cbn [map concat]. rewrite (IH _ _ E). unfold shard. rewrite A. apply rng_app; lia.
  Qed.

  Lemma triples_shard_ok ts : chain 0 (length keys) ts -> asc (map pref ts) ->
    shard_ok keys maxSize (outL ts) (outB 0 ts) = true.
  Proof.
    intros Hc Ha. unfold shard_ok.
    apply andb_true_iff; split; [apply andb_true_iff; split; [apply andb_true_iff; split|]|].
    - exact (bounds_chain ts 0%nat (length keys) Hc).
    - apply Z.eqb_eq. unfold zlen, outL, outB. cbn [length]. rewrite !map_length. lia.
    - exact (lcps_chain ts 0%nat (length keys) Hc (le_n _)).
    - apply strict_ascb_asc. rewrite (prefs_chain ts 0%nat (length keys) Hc). exact Ha.
  Qed.

  (** ** the prefixes as a routing table *)
  Lemma outB_nth : forall ts s e j, chain s e ts -> (j < length ts)%nat ->
    nth j (outB s ts) 0 = Z.of_nat (tb (nth j ts (0, 0, 0)%nat)).
  Proof.
    induction ts as [|t r IH]; intros s e j H Hj; [cbn in Hj; lia|].
    cbn [chain] in H. destruct H as (A & B & C & D & E).
    destruct j as [|j]; [cbn [outB nth]; now rewrite A|].
    unfold outB. cbn [map]. change (nth (S j) (Z.of_nat s :: Z.of_nat (te t) :: map (fun t0 => Z.of_nat (te t0)) r) 0)
      with (nth j (outB (te t) r) 0).
    cbn [nth]. apply (IH (te t) e j E). cbn [length] in Hj. lia.
  Qed.

  Lemma triples_route ts : chain 0 (length keys) ts -> sep 0 ts ->
    route_spec keys (outL ts) (outB 0 ts).
  Proof.
    intros Hc Hsep i j Hi Hj. unfold outL in Hj. rewrite map_length in Hj.
    unfold shard_prefix. rewrite (outB_nth ts 0%nat (length keys) j Hc Hj).
    unfold outL. rewrite (c17_map_nth _ (0, 0, 0)%nat) by exact Hj. cbn beta.
    set (t := nth j ts (0, 0, 0)%nat). rewrite !Nat2Z.id.
    assert (Ht : In t ts) by (apply nth_In; exact Hj).
    destruct (chain_In _ _ _ _ Hc Ht) as (T1 & T2 & T3).
    fold (K (tb t)). fold (K i).
    destruct (Nat.lt_ge_cases i (tb t)) as [Hlt|Hge].
    - (* a key before the shard is below the shard's prefix *)
      unfold sep in Hsep. rewrite Forall_forall in Hsep. specialize (Hsep t Ht i ltac:(lia)).
      destruct (lcp_range (tb t - i - 1) i) as [Hcmp _]; [lia|].
      replace (S (i + (tb t - i - 1))) with (tb t) in Hcmp by lia.
      assert (Hl : bytes_cmp (K i) (firstn (tl t) (K (tb t))) = Lt).
      { rewrite <- (firstn_all (K i)) at 1.
        apply (lex_trunc_lt Z.compare Z.eqb Z_eqb_spec Z.compare_eq_iff); [exact Hcmp|right; lia|exact Hsep]. }
      split; [|lia]. intros Hn. exfalso. apply Hn.
      rewrite c17_bytes_cmp_antisym. match goal with |- CompOpp ?c = Gt => replace c with Lt by (symmetry; exact Hl) end. reflexivity.
    - (* a key of the shard or after it is not below the shard's prefix *)
      split; [lia|]. intros _.
      destruct (Nat.eq_dec i (tb t)) as [->|Hne]; [apply c17_firstn_le|].
      destruct (lcp_range (i - tb t - 1) (tb t)) as [Hcmp _]; [lia|].
      replace (S (tb t + (i - tb t - 1))) with i in Hcmp by lia.
      pose proof (c17_firstn_lt (tl t) _ _ Hcmp) as Hl. intros Hg. apply (eq_trans (eq_sym Hl)) in Hg. discriminate.
  Qed.
End Shard.

(** * the property *)
Theorem ShardByPrefix_shard_ok keys maxSize :
  keys <> [] -> keys_ok keys -> strict_asc keys -> 1 <= maxSize ->
  exists L B, ShardByPrefix keys maxSize = Some (L, B) /\ shard_ok keys maxSize L B = true.
Proof.
  intros Hne Hok Hasc Hms.
  destruct (ShardByPrefix_triples keys Hok maxSize Hasc Hms Hne) as (ts & H & Hc & Ha & _ & _).
  eexists _, _. split; [exact H|]. now apply triples_shard_ok.
Qed.

(** the prefixes route every key of the list to its own shard *)
Theorem ShardByPrefix_route keys maxSize :
  keys <> [] -> keys_ok keys -> strict_asc keys -> 1 <= maxSize ->
  exists L B, ShardByPrefix keys maxSize = Some (L, B) /\ shard_spec keys maxSize L B /\ route_spec keys L B.
Proof.
  intros Hne Hok Hasc Hms.
  destruct (ShardByPrefix_triples keys Hok maxSize Hasc Hms Hne) as (ts & H & Hc & Ha & Hs & _).
  eexists _, _. split; [exact H|]. split.
  - apply shard_ok_sound. now apply triples_shard_ok.
  - now apply (triples_route keys maxSize Hasc).
Qed.

(** the output is the naive recursive split, and the split loses no key *)
Theorem ShardByPrefix_exact keys maxSize :
  keys <> [] -> keys_ok keys -> strict_asc keys -> 1 <= maxSize ->
  ShardByPrefix keys maxSize = Some (spec_ShardByPrefix keys maxSize) /\
  concat (split_spec (S (length keys)) maxSize keys) = keys.
Proof.
  intros Hne Hok Hasc Hms.
  destruct (ShardByPrefix_triples keys Hok maxSize Hasc Hms Hne) as (ts & H & Hc & _ & _ & Hx).
  unfold spec_ShardByPrefix. rewrite <- Hx. split.
  - rewrite H. f_equal. f_equal.
    + eapply chain_outL; [exact Hc|apply le_n].
    + change 0 with (Z.of_nat 0). eapply chain_outB; [exact Hc|apply le_n].
  - erewrite chain_concat by exact Hc. unfold rng.
    rewrite Nat.sub_0_r. cbn [skipn]. apply firstn_all.
Qed.

Theorem ShardByPrefix_correct keys maxSize :
  keys <> [] -> keys_ok keys -> strict_asc keys -> 1 <= maxSize ->
  exists L B, ShardByPrefix keys maxSize = Some (L, B) /\ shard_spec keys maxSize L B.
Proof.
  intros Hne Hok Hasc Hms.
  destruct (ShardByPrefix_shard_ok keys maxSize Hne Hok Hasc Hms) as (L & B & H1 & H2).
  exists L, B. split; [exact H1|]. now apply shard_ok_sound.
Qed.

(** ** "strictly ascending, hence pairwise distinct" *)
Lemma shard_spec_prefixes_lt keys maxSize L B : shard_spec keys maxSize L B ->
  forall n i, (S (i + n) < length L)%nat ->
  bytes_cmp (shard_prefix keys L B i) (shard_prefix keys L B (S (i + n))) = Lt.
Proof.
  intros (_ & _ & _ & _ & Hasc). induction n as [|n IH]; intros i Hi.
  - rewrite Nat.add_0_r in *. apply Hasc. exact Hi.
  - replace (i + S n)%nat with (S (i + n)) in * by lia.
    apply (lex_lt_trans Z.compare Z.compare_eq_iff Z_cmp_lt_trans _ (shard_prefix keys L B (S (i + n)))).
    + apply IH. lia.
    + apply Hasc. exact Hi.
Qed.

Theorem shard_spec_prefixes_distinct keys maxSize L B : shard_spec keys maxSize L B ->
  forall i j, (i < j < length L)%nat ->
  bytes_cmp (shard_prefix keys L B i) (shard_prefix keys L B j) = Lt /\
  shard_prefix keys L B i <> shard_prefix keys L B j.
Proof.
  intros H i j Hij.
  pose proof (shard_spec_prefixes_lt keys maxSize L B H (j - i - 1) i) as Hlt.
  replace (S (i + (j - i - 1))) with j in Hlt by lia. specialize (Hlt ltac:(lia)).
  split; [exact Hlt|].
  exact (lex_lt_neq Z.compare Z.compare_eq_iff _ _ Hlt).
Qed.
