(** Proofs for the C02 widening: [select32single] (the unexported single-result variant of Select32) returns the
    position of the [i]-th 1-bit for every valid [i], and its two sentinels outside: -1 for [i < 0], [64 * len]
    for [i >= number of 1-bits] — either by the early return (i>>5 beyond the index) or because the word loop
    runs off the end of the bitmap. *)
From Coq Require Import ZArith List Lia Bool ZifyNat.
From Low Require Import Lib.MachInt Lib.Bits Lib.BitSeq Lib.BitsExtra_c02 Model.Rank Model.Select Model.SelectU64
  Spec.RankSpec Spec.SelectSpec Spec.SelectU64Spec Proofs.RankProofs Proofs.SelectProofs Proofs.SelectMain.
Import ListNotations.
Open Scope Z_scope.
Local Ltac Zify.zify_post_hook ::= Z.div_mod_to_equations.

(** * the in-word search: three halvings, one table-index expression *)
Definition s8 (w f base : Z) : option Z :=
  let ones := popcount (Z.land w 255) in
  let '(f, base, w) :=
    if ones <=? f then (f - ones, base + 8, shr64 w 8) else (f, base, w) in
  match nthZ select8Lookup (u64 (Z.shiftl (Z.land w 255) 3 + f)) with
  | Some v => Some (base + v)
  | None => None
  end.

Definition s16 (w f base : Z) : option Z :=
  let ones := popcount (Z.land w 65535) in
  let '(f, base, w) :=
    if ones <=? f then (f - ones, base + 16, shr64 w 16) else (f, base, w) in
  s8 w f base.

Lemma single_in_word_staged w f base :
  single_in_word w f base =
  let ones := popcount (Z.land w 4294967295) in
  let '(f, base, w) :=
    if ones <=? f then (f - ones, base + 32, shr64 w 32) else (f, base, w) in
  s16 w f base.
Proof. reflexivity. Qed.

Lemma table_read w (k : nat) v : 0 <= w -> nth_error (ones (bits 8 w)) k = Some v ->
  nthZ select8Lookup (u64 (Z.shiftl (Z.land w 255) 3 + Z.of_nat k)) = Some v.
Proof.
  intros Hw Hn. rewrite index_expr_lo by exact Hw.
  assert (Hk : (k < 8)%nat).
  { assert (k < length (ones (bits 8 w)))%nat by (apply nth_error_Some; congruence).
    pose proof (ones_length (bits 8 w)). pose proof (count_true_le_length (bits 8 w)).
    rewrite bits_length in *. lia. }
  pose proof (Z.mod_pos_bound w 256 ltac:(lia)).
  rewrite u64_id by (change (2 ^ 64) with 18446744073709551616; lia).
  now apply select8Lookup_byte.
Qed.

Lemma s8_spec w (k : nat) v base : 0 <= w ->
  nth_error (ones (bits 16 w)) k = Some v -> s8 w (Z.of_nat k) base = Some (base + v).
Proof.
  intros Hw Hn. unfold s8. cbv zeta.
  pose proof (halve_step 8 w k v Hw Hn) as Hh. cbv zeta in Hh.
  replace (popcount (Z.land w 255)) with (popcount (w mod 2 ^ 8))
    by (change 255 with (Z.ones 8); now rewrite Z.land_ones by lia).
  change (2 ^ Z.of_nat 8) with (2 ^ 8) in Hh.
  destruct (popcount (w mod 2 ^ 8) <=? Z.of_nat k).
  - destruct Hh as (k' & v' & Hn' & -> & ->).
    rewrite shr64_div by lia.
    rewrite (table_read _ k' v') by (try apply Z.div_pos; (lia || exact Hn')).
    f_equal. change (Z.of_nat 8) with 8. lia.
  - rewrite (table_read _ k v) by (lia || exact Hh). reflexivity.
Qed.

Lemma s16_spec w (k : nat) v base : 0 <= w ->
  nth_error (ones (bits 32 w)) k = Some v -> s16 w (Z.of_nat k) base = Some (base + v).
Proof.
  intros Hw Hn. unfold s16. cbv zeta.
  pose proof (halve_step 16 w k v Hw Hn) as Hh. cbv zeta in Hh.
  change 65535 with (Z.ones 16). rewrite Z.land_ones by lia. change (2 ^ Z.of_nat 16) with (2 ^ 16) in Hh.
  destruct (popcount (w mod 2 ^ 16) <=? Z.of_nat k).
  - destruct Hh as (k' & v' & Hn' & -> & ->).
    rewrite shr64_div by lia.
    rewrite (s8_spec _ _ v') by (try apply Z.div_pos; (lia || exact Hn')).
    f_equal. change (Z.of_nat 16) with 16. lia.
  - now apply s8_spec.
Qed.

Lemma single_in_word_spec w (k : nat) v base : 0 <= w ->
  nth_error (ones (bits 64 w)) k = Some v -> single_in_word w (Z.of_nat k) base = Some (base + v).
Proof.
  intros Hw Hn. rewrite single_in_word_staged. cbv zeta.
  pose proof (halve_step 32 w k v Hw Hn) as Hh. cbv zeta in Hh.
  change 4294967295 with (Z.ones 32). rewrite Z.land_ones by lia. change (2 ^ Z.of_nat 32) with (2 ^ 32) in Hh.
  destruct (popcount (w mod 2 ^ 32) <=? Z.of_nat k).
  - destruct Hh as (k' & v' & Hn' & -> & ->).
    rewrite shr64_div by lia.
    rewrite (s16_spec _ _ v') by (try apply Z.div_pos; (lia || exact Hn')).
    f_equal. change (Z.of_nat 32) with 32. lia.
  - now apply s16_spec.
Qed.

(** * the word loop *)
Lemma single_loop_eq fuel ws l wordI base w f :
  select32single_loop fuel ws l wordI base w f =
  if f <? popcount w then single_in_word w f base
  else
    if l <=? wordI + 1 then Some (l * 64)
    else
      match fuel with
      | O => None
      | S fu =>
          match nthZ ws (wordI + 1) with
          | None => None
          | Some w' => select32single_loop fu ws l (wordI + 1) (base + 64) w' (f - popcount w)
          end
      end.
Proof. destruct fuel; reflexivity. Qed.

(** inside the domain: the loop finds the [i]-th 1-bit *)
Lemma single_loop_spec ws (i : nat) : words_ok ws -> (i < length (all_ones ws))%nat ->
  forall fuel k w (f : nat),
  (length ws <= k + 1 + fuel)%nat -> sel_state ws i k w f ->
  select32single_loop fuel ws (zlen ws) (Z.of_nat k) (64 * Z.of_nat k) w (Z.of_nat f) = Some (nth i (all_ones ws) 0).
Proof.
  intros Hok Hi. induction fuel as [|fuel IH]; intros k w f Hfuel Hst.
  all: rewrite single_loop_eq.
  all: destruct (Z.ltb_spec (Z.of_nat f) (popcount w)) as [Hlt|Hle].
  1,3: destruct (sel_in_word ws i k w f Hst Hlt) as (off & _ & _ & Hnth & Ha);
       destruct Hst as (_ & Hw & _);
       rewrite (single_in_word_spec w f off) by (lia || exact Hnth);
       f_equal; symmetry; now apply nth_error_nth.
  all: destruct Hst as (Hk & Hw & Hst).
  all: pose proof (ones_from_bits64_length (64 * Z.of_nat k) w Hw) as Hlen.
  all: assert (Hnext : forall j, nth_error (all_ones ws) (i + j) =
         nth_error (ones_from (64 * Z.of_nat (S k)) (flat (skipn (S k) ws)))
                   (f - Z.to_nat (popcount w) + j)).
  1,3: intros j; rewrite Hst, rest_ones_split; rewrite nth_error_app2 by lia; f_equal; lia.
  all: assert (HSk : (S k < length ws)%nat).
  1,3: destruct (Nat.lt_ge_cases (S k) (length ws)) as [|Hge]; [assumption|]; exfalso;
       specialize (Hnext 0%nat); rewrite rest_ones_past in Hnext by exact Hge;
       rewrite Nat.add_0_r in Hnext;
       assert (nth_error (all_ones ws) i <> None) by (apply nth_error_Some; exact Hi);
       destruct (f - Z.to_nat (popcount w) + 0)%nat; cbn in Hnext; congruence.
  all: unfold zlen at 1.
  all: destruct (Z.leb_spec (Z.of_nat (length ws)) (Z.of_nat k + 1)) as [|_]; [lia|].
  - lia.
  - destruct (nth_error_exists ws (S k) HSk) as [w' Hw'].
    replace (Z.of_nat k + 1) with (Z.of_nat (S k)) by lia. rewrite nthZ_of_nat, Hw'.
    pose proof (popcount_nonneg w).
    replace (Z.of_nat f - popcount w) with (Z.of_nat (f - Z.to_nat (popcount w))) by lia.
    replace (64 * Z.of_nat k + 64) with (64 * Z.of_nat (S k)) by lia.
    apply IH; [lia|]. repeat split.
    + exact HSk.
    + eapply words_ok_nth; eauto.
    + eapply words_ok_nth; eauto.
    + intros j. rewrite Hnext. now rewrite (rest_ones_next ws (S k) w' Hw').
Qed.

(** outside it ([i] at least the number of 1-bits): no more than [f] 1-bits are left, the loop runs off the end *)
Lemma single_loop_end ws : words_ok ws ->
  forall fuel k w f base, (k < length ws)%nat -> (length ws <= k + 1 + fuel)%nat -> 0 <= w < 2 ^ 64 ->
  Z.of_nat (length (rest_ones ws k w)) <= f ->
  select32single_loop fuel ws (zlen ws) (Z.of_nat k) base w f = Some (zlen ws * 64).
Proof.
  intros Hok. induction fuel as [|fuel IH]; intros k w f base Hk Hfuel Hw Hrest.
  all: rewrite single_loop_eq.
  all: pose proof (ones_from_bits64_length (64 * Z.of_nat k) w Hw) as Hlen.
  all: rewrite rest_ones_split, app_length in Hrest.
  all: destruct (Z.ltb_spec f (popcount w)) as [|_]; [lia|].
  all: unfold zlen at 1.
  all: destruct (Z.leb_spec (Z.of_nat (length ws)) (Z.of_nat k + 1)) as [|Hgt]; [reflexivity|].
  - lia.
  - destruct (nth_error_exists ws (S k) ltac:(lia)) as [w' Hw'].
    replace (Z.of_nat k + 1) with (Z.of_nat (S k)) by lia. rewrite nthZ_of_nat, Hw'.
    apply IH; [lia|lia|eapply words_ok_nth; eauto|].
    rewrite <- (rest_ones_next ws (S k) w' Hw'). lia.
Qed.

(** * the function *)
Theorem select32single_exact ws i : words_ok ws ->
  select32single ws (spec_IndexSelect32 ws) i = Some (spec_select32single ws i).
Proof.
  intros Hok. unfold select32single, spec_select32single.
  destruct (Z.ltb_spec i 0) as [|Hi0]; [reflexivity|].
  set (n := length (all_ones ws)). unfold zlen at 1 4. fold n.
  rewrite spec_IndexSelect32_length. fold n.
  rewrite Z.shiftr_div_pow2 by lia. change (2 ^ 5) with 32.
  destruct (Z.leb_spec (Z.of_nat ((n + 31) / 32)) (i / 32)) as [Hbeyond|Hin].
  { destruct (Z.ltb_spec i (Z.of_nat n)) as [|_]; [lia|]. f_equal. lia. }
  set (c := Z.to_nat (i / 32)).
  replace (i / 32) with (Z.of_nat c) by (subst c; lia).
  rewrite nthZ_of_nat, spec_IndexSelect32_nth by (fold n; subst c; lia).
  set (p := nth (32 * c) (all_ones ws) 0).
  assert (Hp : nth_error (all_ones ws) (32 * c) = Some p)
    by (apply nth_error_nth_Some; fold n; subst c; lia).
  change 31 with (Z.ones 5). rewrite Z.land_ones by lia. change (2 ^ 5) with 32.
  destruct (Z.eqb_spec (i mod 32) 0) as [Hz|Hnz].
  { assert (Ei : Z.to_nat i = (32 * c)%nat) by (subst c; lia).
    destruct (Z.ltb_spec i (Z.of_nat n)) as [_|]; [|subst c; lia].
    rewrite Ei. reflexivity. }
  destruct (all_ones_nth ws _ p Hp) as (Hp0 & Hplt & _ & _ & _).
  destruct (pos_split p Hp0) as (E1 & E2 & _ & Hq & Hk0). rewrite E1, E2.
  set (k := Z.to_nat (p / 64)).
  destruct (nth_error_exists ws k ltac:(subst k; lia)) as [w Hw].
  replace (p / 64) with (Z.of_nat k) by (subst k; lia). rewrite nthZ_of_nat, Hw.
  rewrite clear_below_eq, shiftl_6.
  set (f := Z.to_nat (i mod 32)).
  pose proof (checkpoint_state ws (32 * c) f p w Hok Hp Hw) as Hst. fold k in Hst.
  assert (Ei : Z.to_nat i = (32 * c + f)%nat) by (subst c f; lia).
  rewrite <- Ei in Hst.
  replace (i mod 32) with (Z.of_nat f) by (subst f; lia).
  fold (zlen ws).
  destruct (Z.ltb_spec i (Z.of_nat n)) as [Hlt|Hge].
  - rewrite (single_loop_spec ws (Z.to_nat i) Hok ltac:(fold n; lia) (length ws) k _ f ltac:(lia) Hst).
    reflexivity.
  - destruct Hst as (Hk & Hwr & Hst).
    rewrite (single_loop_end ws Hok (length ws) k _ (Z.of_nat f) _ Hk ltac:(lia) Hwr).
    + f_equal. lia.
    + specialize (Hst 0%nat). rewrite !Nat.add_0_r in Hst.
      assert (Hnone : nth_error (all_ones ws) (Z.to_nat i) = None) by (apply nth_error_None; fold n; lia).
      rewrite Hnone in Hst. symmetry in Hst. apply nth_error_None in Hst. lia.
Qed.

Theorem select32single_indexed ws sidx i : words_ok ws -> IndexSelect32 ws = Some sidx ->
  select32single ws sidx i = Some (spec_select32single ws i).
Proof.
  intros Hok Hs. rewrite IndexSelect32_exact in Hs. injection Hs as <-. now apply select32single_exact.
Qed.

(** inside the domain it is the first component of Select32 / of [spec_Select] *)
Theorem select32single_is_fst_Select32 ws sidx i : words_ok ws -> IndexSelect32 ws = Some sidx ->
  0 <= i < zlen (all_ones ws) ->
  select32single ws sidx i = option_map fst (Select32 ws sidx i) /\
  select32single ws sidx i = Some (fst (spec_Select ws i)).
Proof.
  intros Hok Hs Hi. rewrite (Select32_indexed ws sidx i Hok Hs Hi), (select32single_indexed ws sidx i Hok Hs).
  cbn [option_map]. unfold spec_select32single, spec_Select. cbv zeta. cbn [fst].
  destruct (Z.ltb_spec i 0); [lia|]. destruct (Z.ltb_spec i (zlen (all_ones ws))); [|lia]. split; reflexivity.
Qed.

(** the sentinels, stated on their own *)
Theorem select32single_sentinels ws sidx i : words_ok ws -> IndexSelect32 ws = Some sidx ->
  (i < 0 -> select32single ws sidx i = Some (-1)) /\
  (zlen (all_ones ws) <= i -> select32single ws sidx i = Some (64 * zlen ws)).
Proof.
  intros Hok Hs. rewrite (select32single_indexed ws sidx i Hok Hs). unfold spec_select32single. split; intros Hi.
  - destruct (Z.ltb_spec i 0); [reflexivity|lia].
  - pose proof (Zle_0_nat (length (all_ones ws))). unfold zlen in *.
    destruct (Z.ltb_spec i 0); [lia|]. destruct (Z.ltb_spec i (Z.of_nat (length (all_ones ws)))); [lia|reflexivity].
Qed.
