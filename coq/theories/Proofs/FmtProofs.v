(** Proofs for bitmap.Fmt (Model/BitmapFmt.v against Spec/FmtSpec.v). *)
From Coq Require Import ZArith List Lia Bool.
From Low Require Import Lib.MachInt Lib.Bits Lib.BitSeq Lib.Lex Lib.Bytes Lib.BitsExtra_tree
  Model.BitmapMask Model.BitmapFmt Spec.FmtSpec.
Import ListNotations.
Open Scope Z_scope.

Lemma strings_Join_intercalate l sep : strings_Join l sep = intercalate sep l.
Proof.
  induction l as [|x t IH]; [reflexivity|]. cbn [strings_Join intercalate].
  destruct t; [reflexivity|]. now rewrite IH.
Qed.

(** printing the reversed byte most-significant-first = its bits least-significant-first *)
Lemma fmt08b_rev8 c : fmt08b (rev8 c) = map bitchar (bits 8 c).
Proof.
  unfold fmt08b, rev8, byte_bits.
  pose proof (bits_val_msb (bits 8 c)) as H. rewrite bits_length in H. rewrite H, rev_involutive.
  reflexivity.
Qed.

Lemma bits8_byte x i : 0 <= i < 8 -> bits 8 (u8 (shr64 (u64 x) (i * 8))) = bits 8 (x / 2 ^ (8 * i)).
Proof.
  intros Hi. unfold u8. change (2 ^ 8) with (2 ^ Z.of_nat 8). rewrite bits_mod.
  rewrite shr64_div by lia. unfold u64. apply bits_ext. intros t Ht.
  rewrite !Z.div_pow2_bits by lia. replace (i * 8) with (8 * i) by lia.
  apply Z.mod_pow2_bits_low. lia.
Qed.

Lemma chunks_bits : forall k x,
  chunks 8 k (bits (8 * k) x) = map (fun i => bits 8 (x / 2 ^ (8 * Z.of_nat i))) (seq 0 k).
Proof.
  induction k as [|k IH]; intros x; [reflexivity|].
  replace (8 * S k)%nat with (8 + 8 * k)%nat by lia.
  cbn [chunks seq map]. rewrite bits_app.
  rewrite firstn_app, bits_length, Nat.sub_diag, firstn_O, app_nil_r.
  rewrite (firstn_all2 (n:=8)) by (rewrite bits_length; lia).
  rewrite skipn_app, bits_length, Nat.sub_diag. rewrite (skipn_all2 (n:=8)) by (rewrite bits_length; lia).
  cbn [skipn app]. rewrite IH. f_equal.
  - change (8 * Z.of_nat 0) with 0. now rewrite Z.div_1_r.
  - rewrite <- seq_shift, map_map. apply map_ext. intros i.
    rewrite Z.div_div by (try apply Z.pow_pos_nonneg; lia).
    rewrite <- Z.pow_add_r by lia. do 3 f_equal. lia.
Qed.

Lemma intSize_kind_bytes kind : intSize kind = option_map Z.of_nat (kind_bytes kind).
Proof.
  unfold intSize, kind_bytes.
  destruct ((kind =? 0) || (kind =? 1)); [reflexivity|].
  destruct ((kind =? 2) || (kind =? 3)); [reflexivity|].
  destruct ((kind =? 4) || (kind =? 5)); [reflexivity|].
  destruct ((kind =? 6) || (kind =? 7)); reflexivity.
Qed.

Lemma kind_bytes_le kind sz : kind_bytes kind = Some sz -> (sz <= 8)%nat.
Proof.
  unfold kind_bytes.
  destruct ((kind =? 0) || (kind =? 1)); [intros [= <-]; lia|].
  destruct ((kind =? 2) || (kind =? 3)); [intros [= <-]; lia|].
  destruct ((kind =? 4) || (kind =? 5)); [intros [= <-]; lia|].
  destruct ((kind =? 6) || (kind =? 7)); [intros [= <-]; lia|discriminate].
Qed.

Theorem intFmt_correct kind x :
  intFmt kind x = option_map (fun sz => spec_intFmt sz x) (kind_bytes kind).
Proof.
  unfold intFmt. rewrite intSize_kind_bytes.
  destruct (kind_bytes kind) as [sz|] eqn:E; [|reflexivity].
  cbn [option_map]. f_equal. apply kind_bytes_le in E.
  rewrite strings_Join_intercalate. unfold spec_intFmt. f_equal.
  rewrite chunks_bits, Nat2Z.id. unfold idx. rewrite !map_map.
  apply map_ext_in. intros i Hi. apply in_seq in Hi.
  rewrite fmt08b_rev8, bits8_byte by lia. reflexivity.
Qed.

Lemma all_fmt_correct kind sz vals : kind_bytes kind = Some sz ->
  all_fmt kind vals = Some (map (spec_intFmt sz) vals).
Proof.
  intros E. induction vals as [|x t IH]; [reflexivity|].
  cbn [all_fmt map]. rewrite intFmt_correct, E. cbn [option_map]. now rewrite IH.
Qed.

Theorem Fmt_correct kind is_slice vals : Fmt kind is_slice vals = spec_Fmt kind is_slice vals.
Proof.
  unfold Fmt, spec_Fmt. destruct (kind_bytes kind) as [sz|] eqn:E.
  - destruct is_slice.
    + rewrite (all_fmt_correct kind sz vals E). now rewrite strings_Join_intercalate.
    + destruct vals as [|x [|y t]]; try reflexivity. rewrite intFmt_correct, E. reflexivity.
  - destruct is_slice.
    + destruct vals as [|x t]; [reflexivity|]. cbn [all_fmt]. rewrite intFmt_correct, E. reflexivity.
    + destruct vals as [|x [|y t]]; try reflexivity. rewrite intFmt_correct, E. reflexivity.
Qed.

(** * a bitmap printed by Fmt shows [flat], digit for digit *)
Lemma filter_intercalate sep l :
  filter is_digit sep = [] -> filter is_digit (intercalate sep l) = concat (map (filter is_digit) l).
Proof.
  intros Hs. induction l as [|x t IH]; [reflexivity|].
  cbn [intercalate map concat]. destruct t as [|y t].
  - cbn [map concat]. now rewrite app_nil_r.
  - rewrite !filter_app, Hs, IH. reflexivity.
Qed.

Lemma filter_digits l : filter is_digit (map bitchar l) = map bitchar l.
Proof.
  induction l as [|b l IH]; [reflexivity|]. cbn [map filter]. rewrite IH. now destruct b.
Qed.

Lemma concat_chunks {A} n : forall k (l : list A), length l = (n * k)%nat -> concat (chunks n k l) = l.
Proof.
  induction k as [|k IH]; intros l Hl.
  - destruct l; [reflexivity|]. cbn [length] in Hl. lia.
  - cbn [chunks concat]. rewrite IH; [apply firstn_skipn|]. rewrite skipn_length. lia.
Qed.

Lemma digits_intFmt sz x : filter is_digit (spec_intFmt sz x) = map bitchar (bits (8 * sz) x).
Proof.
  unfold spec_intFmt. rewrite filter_intercalate by reflexivity.
  rewrite map_map. rewrite (map_ext _ (map bitchar)) by (intros; apply filter_digits).
  rewrite <- concat_map. f_equal. apply concat_chunks. rewrite bits_length. lia.
Qed.

Theorem Fmt_bitmap ws :
  exists s, Fmt 7 true ws = Some s /\ filter is_digit s = map bitchar (flat ws).
Proof.
  rewrite Fmt_correct. unfold spec_Fmt. cbn [kind_bytes Z.eqb orb].
  eexists. split; [reflexivity|].
  rewrite filter_intercalate by reflexivity. rewrite map_map.
  rewrite (map_ext _ (fun w => map bitchar (bits 64 w))) by (intros; apply digits_intFmt).
  unfold flat. rewrite flat_map_concat_map, concat_map, map_map. reflexivity.
Qed.
