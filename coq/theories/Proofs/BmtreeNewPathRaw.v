(** C10 widening: NewPath on ARBITRARY arguments.
    - in the documented range (0 <= length <= height <= 32) with ANY search word:
      the upper half is [searchingBits mod 2^32] as given — bits beyond the length are
      NOT cleared — and the lower half is the canonical mask;
    - in general, bit by bit ([newpath_spec]), including the panic of the table
      lookup and shift counts that are negative / >= 64 / wrap in int32. *)
From Coq Require Import ZArith List Lia Bool.
From Low Require Import Lib.MachInt Lib.Bits Lib.BitSeq Lib.Lex Lib.Bytes Lib.BitsExtra_tree
  Spec.Bmtree Spec.PathSpec Spec.PathWideSpec
  Model.BmtreePath Model.BmtreePathStr Model.BmtreeIndex Model.BmtreePathWide
  Proofs.BmtreePathProofs Proofs.BmtreeContractProofs.
Import ListNotations.
Open Scope Z_scope.

Lemma tblMask_in l : 0 <= l <= 64 -> tblMask l = Some (Mask l).
Proof.
  intros H. unfold tblMask, tbl.
  destruct (Z.leb_spec 0 l); destruct (Z.ltb_spec l 65); try lia; reflexivity.
Qed.

Lemma tblMask_out l : l < 0 \/ 64 < l -> tblMask l = None.
Proof.
  intros H. unfold tblMask, tbl.
  destruct (Z.leb_spec 0 l); destruct (Z.ltb_spec l 65); try lia; reflexivity.
Qed.

Lemma shl64_32 sb : shl64 sb 32 = (sb mod 2 ^ 32) * 2 ^ 32.
Proof.
  unfold shl64, u64. replace (32 <? 64) with true by reflexivity.
  change (2 ^ 64) with (2 ^ 32 * 2 ^ 32). apply Z.mul_mod_distr_r; lia.
Qed.

Lemma block_eq l d : 0 <= l -> 0 <= d -> Mask l * 2 ^ d = 2 ^ (l + d) - 2 ^ d.
Proof. intros Hl Hd. unfold Mask. rewrite Z.pow_add_r by lia. lia. Qed.

Lemma block_bound l d : 0 <= l -> 0 <= d -> 0 <= Mask l * 2 ^ d < 2 ^ (l + d).
Proof.
  intros Hl Hd. rewrite block_eq by assumption.
  pose proof (pow2_pos d Hd). pose proof (pow2_le d (l + d)). lia.
Qed.

Lemma shift_count_id x : 0 <= x < 2 ^ 31 -> u64 (i32 x) = x.
Proof. intros H. rewrite i32_id by lia. apply u64_id. lia. Qed.

(** * the documented range, any search word *)
Lemma NewPath_full_range sb l h : 0 <= l <= h -> h <= 32 ->
  NewPath_full sb l h = Some ((sb mod 2 ^ 32) * 2 ^ 32 + Mask l * 2 ^ (h - l)).
Proof.
  intros Hl Hh. unfold NewPath_full. rewrite tblMask_in by lia.
  rewrite shift_count_id by lia. rewrite shl64_32.
  pose proof (block_bound l (h - l) ltac:(lia) ltac:(lia)) as Hb.
  replace (l + (h - l)) with h in Hb by lia.
  pose proof (pow2_le h 32 ltac:(lia)).
  rewrite shl64_small by lia.
  rewrite lor_hi_lo by lia. reflexivity.
Qed.

(** on canonical arguments the total model is the core model *)
Lemma NewPath_full_enc h q : (h <= 32)%nat -> (length q <= h)%nat ->
  NewPath_full (valL h q) (Z.of_nat (length q)) (Z.of_nat h) = Some (enc h q).
Proof.
  intros Hh Hl. rewrite NewPath_full_range by lia.
  pose proof (valL_lt h q Hl). pose proof (pow2_le (Z.of_nat h) 32 ltac:(lia)).
  rewrite Z.mod_small by lia. reflexivity.
Qed.

(** * search bits beyond the length: kept in the word, invisible to the accessors *)
Lemma NewPath_full_noncanon h q e : (h <= 32)%nat -> (length q <= h)%nat ->
  0 <= e < 2 ^ (Z.of_nat h - Z.of_nat (length q)) ->
  NewPath_full (valL h q + e) (Z.of_nat (length q)) (Z.of_nat h) = Some (enc h q + e * 2 ^ 32).
Proof.
  intros Hh Hl He. rewrite NewPath_full_range by lia.
  pose proof (valL_bound h q Hl). pose proof (pow2_le (Z.of_nat h) 32 ltac:(lia)).
  rewrite Z.mod_small by lia. unfold enc. f_equal. lia.
Qed.

Lemma u32_add_hi w e : u32 (w + e * 2 ^ 32) = u32 w.
Proof. unfold u32. apply Z_mod_plus_full. Qed.

Lemma PathLen_noncanon h q e : (h <= 32)%nat -> (length q <= h)%nat ->
  PathLen (enc h q + e * 2 ^ 32) = Z.of_nat (length q).
Proof. intros Hh Hl. rewrite <- (PathLen_enc h q Hh Hl). unfold PathLen. now rewrite u32_add_hi. Qed.

Lemma PathHeight_noncanon h q e : (h <= 32)%nat -> (1 <= length q <= h)%nat ->
  PathHeight (enc h q + e * 2 ^ 32) = Z.of_nat h.
Proof. intros Hh Hl. rewrite <- (PathHeight_enc h q Hh Hl). unfold PathHeight. now rewrite u32_add_hi. Qed.

Lemma PathStr_noncanon h q e : (h <= 32)%nat -> (length q <= h)%nat ->
  0 <= e < 2 ^ (Z.of_nat h - Z.of_nat (length q)) ->
  PathStr (enc h q + e * 2 ^ 32) = node_str q.
Proof.
  intros Hh Hl He. unfold PathStr. rewrite PathLen_noncanon by assumption.
  destruct (Z.eqb_spec (Z.of_nat (length q)) 0) as [E|E].
  - destruct q; [reflexivity|cbn [length] in E; lia].
  - rewrite PathHeight_noncanon by lia.
    rewrite shr64_div by lia.
    set (d := Z.of_nat h - Z.of_nat (length q)) in *.
    assert (Hd : 0 <= d) by (unfold d; lia). pose proof (pow2_pos d Hd) as Hpd.
    assert (Hdiv : (enc h q + e * 2 ^ 32) / 2 ^ (32 + Z.of_nat h - Z.of_nat (length q)) = val_msb q).
    { replace (32 + Z.of_nat h - Z.of_nat (length q)) with (32 + d) by (unfold d; lia).
      rewrite Z.pow_add_r by lia. rewrite <- Z.div_div by lia.
      rewrite enc_split. replace (valL h q * 2 ^ 32 + maskL h q + e * 2 ^ 32) with ((valL h q + e) * 2 ^ 32 + maskL h q) by lia.
      rewrite div_hi_lo by (try lia; now apply maskL_lt32).
      unfold valL. fold d. apply div_hi_lo; lia. }
    rewrite Hdiv. rewrite fmt_0b_bits; [|lia|apply val_msb_bound].
    rewrite bits_val_msb, rev_involutive. reflexivity.
Qed.

Lemma zs_eqb_refl a : zs_eqb a a = true.
Proof. unfold zs_eqb. destruct (list_eq_dec Z.eq_dec a a); congruence. Qed.

(** the checker of [bmtree.NewPath/noncanon] accepts the model's observation *)
Lemma noncanon_ok_model h q e : (h <= 32)%nat -> (length q <= h)%nat ->
  0 <= e < 2 ^ (Z.of_nat h - Z.of_nat (length q)) ->
  let w := enc h q + e * 2 ^ 32 in
  noncanon_ok (Z.of_nat h) q e w (PathLen w) (PathHeight w) (PathStr w) = true.
Proof.
  intros Hh Hl He w. unfold w, noncanon_ok, zlen. rewrite Nat2Z.id.
  rewrite PathLen_noncanon, PathStr_noncanon by assumption.
  rewrite !Z.eqb_refl, zs_eqb_refl. cbn [andb]. rewrite andb_true_r.
  destruct (Z.leb_spec 1 (Z.of_nat (length q))); [|reflexivity].
  rewrite PathHeight_noncanon by lia. apply Z.eqb_refl.
Qed.

(** * the general statement, bit by bit *)
Lemma of_bitfun_bound n f : 0 <= of_bitfun n f < 2 ^ Z.of_nat n.
Proof.
  induction n as [|k IH]; cbn [of_bitfun]; [change (2 ^ Z.of_nat 0) with 1; lia|].
  rewrite pow2_S. pose proof (pow2_pos (Z.of_nat k) ltac:(lia)). destruct (f (Z.of_nat k)); lia.
Qed.

Lemma testbit_b2z b j : 0 <= j -> Z.testbit (Z.b2z b) j = b && (j =? 0).
Proof.
  intros Hj. destruct (Z.eqb_spec j 0) as [->|Hne].
  - rewrite Z.b2z_bit0. now rewrite andb_true_r.
  - rewrite andb_false_r. destruct b; cbn [Z.b2z]; [|apply Z.bits_0].
    apply (testbit_small 1 1); lia.
Qed.

Lemma testbit_of_bitfun n f i : 0 <= i -> Z.testbit (of_bitfun n f) i = (i <? Z.of_nat n) && f i.
Proof.
  intros Hi. induction n as [|k IH]; cbn [of_bitfun].
  - rewrite Z.bits_0. destruct (Z.ltb_spec i (Z.of_nat 0)); [lia|reflexivity].
  - replace (of_bitfun k f + (if f (Z.of_nat k) then 2 ^ Z.of_nat k else 0))
      with (Z.b2z (f (Z.of_nat k)) * 2 ^ Z.of_nat k + of_bitfun k f)
      by (destruct (f (Z.of_nat k)); cbn [Z.b2z]; lia).
    rewrite testbit_hi_lo by (try lia; apply of_bitfun_bound).
    destruct (Z.ltb_spec i (Z.of_nat k)).
    + rewrite IH. destruct (Z.ltb_spec i (Z.of_nat k)); [|lia].
      destruct (Z.ltb_spec i (Z.of_nat (S k))); [reflexivity|lia].
    + rewrite testbit_b2z by lia.
      destruct (Z.eqb_spec (i - Z.of_nat k) 0) as [E|E].
      * replace i with (Z.of_nat k) by lia. rewrite andb_true_r.
        destruct (Z.ltb_spec (Z.of_nat k) (Z.of_nat (S k))); [reflexivity|lia].
      * rewrite andb_false_r. destruct (Z.ltb_spec i (Z.of_nat (S k))); [lia|reflexivity].
Qed.

Lemma testbit_shl64 x n i : 0 <= n -> 0 <= i ->
  Z.testbit (shl64 x n) i = (i <? 64) && (n <? 64) && (n <=? i) && Z.testbit x (i - n).
Proof.
  intros Hn Hi. unfold shl64, u64.
  destruct (Z.ltb_spec n 64); [|rewrite Z.bits_0, andb_false_r; reflexivity].
  rewrite andb_true_r.
  destruct (Z.ltb_spec i 64).
  - rewrite Z.mod_pow2_bits_low by lia. cbn [andb].
    destruct (Z.leb_spec n i).
    + rewrite Z.mul_pow2_bits by lia. reflexivity.
    + rewrite Z.mul_pow2_bits_low by lia. reflexivity.
  - rewrite Z.mod_pow2_bits_high by lia. reflexivity.
Qed.

(** the shift count [uint(int32(height - length))]: the difference itself when it is a
    valid count, otherwise something >= 64 (negative differences and int32 wraps) *)
Lemma shift_count_cases x : - 2 ^ 31 - 64 <= x < 2 ^ 31 ->
  (0 <= x < 64 /\ u64 (i32 x) = x) \/ ((x < 0 \/ 64 <= x) /\ 64 <= u64 (i32 x)).
Proof.
  intros Hx. destruct (Z_lt_le_dec x 0) as [Hneg|Hpos].
  - right. split; [lia|].
    destruct (Z_lt_le_dec x (- 2 ^ 31)) as [Hw|Hn].
    + (* wraps to x + 2^32 >= 2^31 - ... *)
      assert (E : i32 x = x + 2 ^ 32).
      { unfold i32. rewrite <- (Z_mod_plus_full (x + 2 ^ 31) 1 (2 ^ 32)).
        rewrite Z.mod_small by lia. lia. }
      rewrite E. rewrite u64_id by lia. lia.
    + rewrite i32_id by lia. unfold u64.
      rewrite <- (Z_mod_plus_full x 1 (2 ^ 64)). rewrite Z.mod_small by lia. lia.
  - destruct (Z_lt_le_dec x 64) as [Hs|Hb].
    + left. split; [lia|]. apply shift_count_id. lia.
    + right. split; [lia|].
      rewrite shift_count_id by lia. exact Hb.
Qed.

Lemma NewPath_full_spec sb l h : 0 <= sb < 2 ^ 64 -> - 2 ^ 31 <= l < 2 ^ 31 -> - 2 ^ 31 <= h < 2 ^ 31 ->
  NewPath_full sb l h = newpath_spec sb l h.
Proof.
  intros Hsb Hl Hh. unfold NewPath_full, newpath_spec.
  destruct (Z.leb_spec 0 l) as [Hl0|Hl0]; [|rewrite tblMask_out by lia; reflexivity].
  destruct (Z.leb_spec l 64) as [Hl64|Hl64]; [|rewrite tblMask_out by lia; reflexivity].
  rewrite tblMask_in by lia. cbn [andb]. f_equal.
  pose proof (u64_range (i32 (h - l))) as Hc.
  apply Z.bits_inj'. intros i Hi.
  rewrite Z.lor_spec, !testbit_shl64 by lia.
  rewrite testbit_of_bitfun by lia. change (Z.of_nat 64) with 64.
  unfold newpath_bit. replace (32 <? 64) with true by reflexivity.
  destruct (Z.ltb_spec i 64) as [Hi64|Hi64]; [|reflexivity]. cbn [andb].
  f_equal.
  destruct (shift_count_cases (h - l) ltac:(lia)) as [[Hd ->]|[Hd Hbig]].
  - destruct (Z.leb_spec 0 (h - l)); [|lia]. destruct (Z.ltb_spec (h - l) 64); [|lia]. cbn [andb].
    destruct (Z.leb_spec (h - l) i); [|reflexivity]. cbn [andb].
    unfold Mask. rewrite testbit_pow2m1 by lia.
    destruct (Z.ltb_spec (i - (h - l)) l); destruct (Z.ltb_spec i h); lia || reflexivity.
  - destruct (Z.ltb_spec (u64 (i32 (h - l))) 64); [lia|]. cbn [andb].
    destruct (Z.leb_spec 0 (h - l)); destruct (Z.ltb_spec (h - l) 64); cbn [andb]; try reflexivity; lia.
Qed.

Lemma NewPath_full_panics sb l h : l < 0 \/ 64 < l -> NewPath_full sb l h = None.
Proof. intros H. unfold NewPath_full. now rewrite tblMask_out. Qed.
