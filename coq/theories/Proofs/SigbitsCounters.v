(** C16, widening: what users of CountPrefixes rely on.  The counters start at
    1, never decrease, are bounded by the number of keys and reach it; [m0] is
    the length of the common bit prefix of ALL keys of the range (the doc
    comment of CountPrefixes: "the index of the first bit where there is a
    different bit among all keys"); the single-key range. *)
From Coq Require Import ZArith List Lia Bool.
From Low Require Import Lib.MachInt Lib.Bits Lib.BitSeq Lib.Lex Lib.Bytes Lib.LexExtra_sig Lib.LexLemmas_bw
  Model.Sigbits Spec.SigbitsSpec Spec.SigbitsSpec16x Proofs.SigbitsFirstDiff Proofs.SigbitsCountPrefixes.
Import ListNotations.
Open Scope Z_scope.

(** * count_lt *)
Lemma count_lt_mono ds k k' : k <= k' -> count_lt k ds <= count_lt k' ds.
Proof.
  intros H. unfold count_lt. induction ds as [|d t IH]; cbn [count_if]; [lia|].
  destruct (Z.ltb_spec d k); destruct (Z.ltb_spec d k'); lia.
Qed.

Lemma count_lt_le_length ds k : count_lt k ds <= zlen ds.
Proof.
  unfold count_lt, zlen. induction ds as [|d t IH]; cbn [count_if length]; [lia|].
  destruct (d <? k); lia.
Qed.

Lemma count_lt_none ds k : (forall d, In d ds -> k <= d) -> count_lt k ds = 0.
Proof.
  unfold count_lt. induction ds as [|d t IH]; intros H; cbn [count_if]; [reflexivity|].
  rewrite IH by (intros x Hx; apply H; now right).
  specialize (H d (or_introl eq_refl)). destruct (Z.ltb_spec d k); lia.
Qed.

Lemma count_lt_all ds k : (forall d, In d ds -> d < k) -> count_lt k ds = zlen ds.
Proof.
  unfold count_lt, zlen. induction ds as [|d t IH]; intros H; cbn [count_if length]; [reflexivity|].
  rewrite IH by (intros x Hx; apply H; now right).
  specialize (H d (or_introl eq_refl)). destruct (Z.ltb_spec d k); lia.
Qed.

Lemma count_lt_some ds k d : In d ds -> d < k -> 1 <= count_lt k ds.
Proof.
  unfold count_lt. induction ds as [|x t IH]; intros Hin Hd; [destruct Hin|]. cbn [count_if].
  pose proof (count_if_nonneg (fun d0 => d0 <? k) t).
  destruct Hin as [->|Hin].
  - destruct (Z.ltb_spec d k); lia.
  - specialize (IH Hin Hd). destruct (x <? k); lia.
Qed.

(** * the counters *)
Section Counters.
  Variables (keys : list (list Z)) (s e m : Z).
  Hypothesis Hok : keys_ok keys.
  Hypothesis Hasc : strict_asc keys.
  Hypothesis Hs : 0 <= s.
  Hypothesis He : s + 2 <= e.
  Hypothesis Hl : e <= zlen keys.

  Let ds := spec_FirstDiffBits (sub_keys keys s e).
  Let m0 := fst (spec_CountPrefixes keys s e m).
  Let cs := snd (spec_CountPrefixes keys s e m).

  Lemma ds_length : zlen ds = e - s - 1.
  Proof.
    unfold ds. rewrite spec_FirstDiffBits_length, (sub_keys_length keys s e) by lia. lia.
  Qed.

  Lemma ds_ne : ds <> [].
  Proof. intros E. pose proof ds_length as L. rewrite E in L. unfold zlen in L. cbn [length] in L. lia. Qed.

  Lemma m0_eq : m0 = list_min ds.
  Proof. reflexivity. Qed.

  Lemma counters_nth i : (i < Z.to_nat m)%nat -> nth i cs 0 = 1 + count_lt (m0 + Z.of_nat i) ds.
  Proof.
    intros Hi. unfold cs, m0.
    rewrite (spec_CountPrefixes_counts keys s e m Hok Hasc Hs ltac:(lia) Hl). cbv zeta. cbn [fst snd].
    fold ds.
    set (f := fun i0 : nat => 1 + count_lt (list_min ds + Z.of_nat i0) ds).
    rewrite (nth_indep (map f (seq 0 (Z.to_nat m))) 0 (f 0%nat)) by (now rewrite map_length, seq_length).
    rewrite map_nth, seq_nth by exact Hi. reflexivity.
  Qed.

  (** all keys of the range share their first [m0] bits: one [m0]-bit prefix *)
  Lemma counters_first : 1 <= m -> nth 0 cs 0 = 1.
  Proof.
    intros Hm. rewrite counters_nth by lia. rewrite count_lt_none; [lia|].
    intros d Hd. rewrite m0_eq. pose proof (list_min_lower ds) as H. rewrite Forall_forall in H.
    specialize (H d Hd). lia.
  Qed.

  (** ... and not their first [m0+1] bits *)
  Lemma counters_second : 2 <= m -> 2 <= nth 1 cs 0.
  Proof.
    intros Hm. rewrite counters_nth by lia.
    pose proof (count_lt_some ds (m0 + Z.of_nat 1) (list_min ds) (list_min_In ds ds_ne)) as H.
    rewrite m0_eq in *. lia.
  Qed.

  Lemma counters_mono i j : (i <= j)%nat -> (j < Z.to_nat m)%nat -> nth i cs 0 <= nth j cs 0.
  Proof.
    intros Hij Hj. rewrite !counters_nth by lia.
    pose proof (count_lt_mono ds (m0 + Z.of_nat i) (m0 + Z.of_nat j) ltac:(lia)). lia.
  Qed.

  Lemma counters_bounds i : (i < Z.to_nat m)%nat -> 1 <= nth i cs 0 <= e - s.
  Proof.
    intros Hi. rewrite counters_nth by lia.
    pose proof (count_lt_le_length ds (m0 + Z.of_nat i)). rewrite ds_length in H.
    pose proof (count_if_nonneg (fun d => d <? m0 + Z.of_nat i) ds). fold (count_lt (m0 + Z.of_nat i) ds) in H0.
    lia.
  Qed.

  (** a width beyond every first difference separates all keys *)
  Lemma counters_saturate i : (i < Z.to_nat m)%nat ->
    (forall d, In d ds -> d < m0 + Z.of_nat i) -> nth i cs 0 = e - s.
  Proof.
    intros Hi H. rewrite counters_nth by lia. rewrite count_lt_all by exact H. rewrite ds_length. lia.
  Qed.

  (** one step of width adds exactly the pairs whose first difference is that bit *)
  Lemma counters_step i : (S i < Z.to_nat m)%nat ->
    nth (S i) cs 0 - nth i cs 0 = count_if (fun d => d =? m0 + Z.of_nat i) ds.
  Proof.
    intros Hi. rewrite !counters_nth by lia. unfold count_lt.
    induction ds as [|d t IH]; cbn [count_if]; [lia|].
    destruct (Z.ltb_spec d (m0 + Z.of_nat (S i))); destruct (Z.ltb_spec d (m0 + Z.of_nat i));
      destruct (Z.eqb_spec d (m0 + Z.of_nat i)); lia.
  Qed.
End Counters.

(** * m0 is the length of the common bit prefix of all keys of the range *)
Lemma fold_min_assoc t : forall x y, fold_left Z.min t (Z.min x y) = Z.min x (fold_left Z.min t y).
Proof.
  induction t as [|z t IH]; intros x y; cbn [fold_left]; [reflexivity|].
  rewrite <- Z.min_assoc. apply IH.
Qed.

Lemma list_min_cons x y t : list_min (x :: y :: t) = Z.min x (list_min (y :: t)).
Proof. unfold list_min. cbn [fold_left]. apply fold_min_assoc. Qed.

Lemma bits_lcpn_sorted3 x y z : bits_cmp x y = Lt -> bits_cmp y z = Lt ->
  lcpn x z = Z.min (lcpn x y) (lcpn y z).
Proof.
  intros H1 H2. unfold lcpn, zlen, lcp_bits.
  rewrite (lcp_sorted3 bool_cmp Bool.eqb bool_eqb_spec bool_cmp_eq bool_cmp_lt_trans x y z H1 H2). lia.
Qed.

Definition adj_lcps (bs : list (list bool)) : list Z := map (fun p => lcpn (fst p) (snd p)) (adj_pairs bs).

(** in a strictly ascending list the head shares at least the minimum adjacent common prefix with everyone *)
Lemma sorted_lcp_head_ge t : forall x, bsorted (x :: t) -> forall z, In z t ->
  list_min (adj_lcps (x :: t)) <= lcpn x z.
Proof.
  induction t as [|y t IH]; intros x Hs z Hz; [destruct Hz|].
  destruct (bsorted_cons2 x y t Hs) as [Hxy Hs'].
  unfold adj_lcps in *. rewrite adj_pairs_cons2. cbn [map fst snd].
  destruct Hz as [->|Hz].
  - destruct t as [|y' t']; [cbn; lia|].
    rewrite adj_pairs_cons2. cbn [map]. rewrite list_min_cons. lia.
  - specialize (IH y Hs' z Hz).
    pose proof (bsorted_head_lt t y Hs' z Hz) as Hyz.
    rewrite (bits_lcpn_sorted3 x y z Hxy Hyz).
    destruct t as [|y' t']; [destruct Hz|].
    rewrite adj_pairs_cons2 in *. cbn [map] in *. rewrite list_min_cons. lia.
Qed.

(** ... and the first and the last key share exactly that much *)
Lemma sorted_lcp_head_last t : forall x, bsorted (x :: t) -> t <> [] ->
  lcpn x (last t x) = list_min (adj_lcps (x :: t)).
Proof.
  induction t as [|y t IH]; intros x Hs Hne; [congruence|].
  destruct (bsorted_cons2 x y t Hs) as [Hxy Hs'].
  unfold adj_lcps in *. rewrite adj_pairs_cons2. cbn [map fst snd].
  destruct t as [|y' t']; [reflexivity|].
  assert (Hlast : last (y :: y' :: t') x = last (y' :: t') y).
  { change (last (y :: y' :: t') x) with (last (y' :: t') x).
    clear. revert y'. induction t' as [|u t' IH]; intros y'; [reflexivity|].
    change (last (y' :: u :: t') x) with (last (u :: t') x).
    change (last (y' :: u :: t') y) with (last (u :: t') y). apply IH. }
  rewrite Hlast.
  assert (Hin : In (last (y' :: t') y) (y' :: t')).
  { clear. revert y'. induction t' as [|u t' IH]; intros y'; [now left|].
    change (last (y' :: u :: t') y) with (last (u :: t') y). right. apply IH. }
  pose proof (bsorted_head_lt _ y Hs' _ Hin) as Hyl.
  rewrite (bits_lcpn_sorted3 x y _ Hxy Hyl).
  rewrite (IH y Hs' ltac:(discriminate)).
  rewrite adj_pairs_cons2. cbn [map]. rewrite list_min_cons. reflexivity.
Qed.

Lemma last_map_ne {A B} (f : A -> B) : forall l d d', l <> [] -> last (map f l) d' = f (last l d).
Proof.
  induction l as [|x l IH]; intros d d' Hne; [congruence|].
  destruct l as [|y l]; [reflexivity|].
  change (last (map f (x :: y :: l)) d') with (last (map f (y :: l)) d').
  change (last (x :: y :: l) d) with (last (y :: l) d). apply IH. discriminate.
Qed.

Lemma lcpn_trunc_eq x y k : k <= lcpn x y -> firstn (Z.to_nat k) x = firstn (Z.to_nat k) y.
Proof.
  intros H. apply (lcp_ge_trunc_eq Bool.eqb bool_eqb_spec). unfold lcpn, zlen, lcp_bits in H. lia.
Qed.

(** every two keys of the range agree on their first m0 bits, and an adjacent pair has its
    first difference exactly at bit m0; m0 is the first-difference bit of the first and last key *)
Theorem m0_common_prefix keys s e m :
  keys_ok keys -> strict_asc keys -> 0 <= s -> s + 2 <= e -> e <= zlen keys ->
  let ks := sub_keys keys s e in
  let m0 := fst (spec_CountPrefixes keys s e m) in
  (forall a b, In a ks -> In b ks ->
     firstn (Z.to_nat m0) (msb_bits a) = firstn (Z.to_nat m0) (msb_bits b)) /\
  (exists p, In p (adj_pairs ks) /\ first_diff_bit (fst p) (snd p) = m0) /\
  m0 = first_diff_bit (hd [] ks) (last ks []).
Proof.
  intros Hok Hasc Hs He Hl. cbv zeta. unfold spec_CountPrefixes. cbn [fst].
  set (ks := sub_keys keys s e).
  pose proof (sub_keys_length keys s e Hs ltac:(lia) Hl) as L. fold ks in L.
  assert (Hbs : bsorted (map msb_bits ks)) by (apply bsorted_msb; [now apply keys_ok_sub|now apply strict_asc_sub]).
  rewrite (spec_FirstDiffBits_bits ks). fold (adj_lcps (map msb_bits ks)).
  destruct ks as [|k0 [|k1 t]] eqn:Ek; unfold zlen in L; cbn [length] in L; try lia.
  cbn [map] in Hbs.
  set (B := msb_bits k0 :: msb_bits k1 :: map msb_bits t) in *.
  assert (Hhead : forall a, In a (k0 :: k1 :: t) ->
            firstn (Z.to_nat (list_min (adj_lcps B))) (msb_bits k0) =
            firstn (Z.to_nat (list_min (adj_lcps B))) (msb_bits a)).
  { intros a [<-|Ha]; [reflexivity|]. apply lcpn_trunc_eq.
    apply (sorted_lcp_head_ge _ _ Hbs). change (In (msb_bits a) (map msb_bits (k1 :: t))). now apply in_map. }
  split; [|split].
  - intros a b Ha Hb. change (map msb_bits (k0 :: k1 :: t)) with B.
    rewrite <- (Hhead a Ha), <- (Hhead b Hb). reflexivity.
  - change (map msb_bits (k0 :: k1 :: t)) with B.
    assert (Hne : adj_lcps B <> []) by (unfold adj_lcps, B; rewrite adj_pairs_cons2; discriminate).
    pose proof (list_min_In _ Hne) as Hin. unfold adj_lcps at 2 in Hin.
    unfold B in Hin. change (msb_bits k0 :: msb_bits k1 :: map msb_bits t) with (map msb_bits (k0 :: k1 :: t)) in Hin.
    rewrite adj_pairs_map, map_map in Hin. apply in_map_iff in Hin. destruct Hin as (p & Ep & Hp).
    exists p. split; [exact Hp|]. cbn [fst snd] in Ep. exact Ep.
  - change (map msb_bits (k0 :: k1 :: t)) with B. cbn [hd]. unfold B in *.
    rewrite <- (sorted_lcp_head_last _ _ Hbs ltac:(discriminate)).
    unfold first_diff_bit, lcpn. f_equal. f_equal.
    change (msb_bits k1 :: map msb_bits t) with (map msb_bits (k1 :: t)).
    change (last (k0 :: k1 :: t) []) with (last (k1 :: t) []).
    apply last_map_ne. discriminate.
Qed.

(** * a range of one key: no first difference, one prefix at every width *)
Lemma cp_sums_zeros n : forall last, cp_sums last (repeat 0 n) = repeat last (S n).
Proof.
  induction n as [|n IH]; intros last; [reflexivity|].
  cbn [repeat cp_sums]. rewrite Z.add_0_r, IH. reflexivity.
Qed.

Lemma countPrefixes_nil m : 1 <= m -> countPrefixes [] m = Some (2147483647, repeat 1 (Z.to_nat m)).
Proof.
  intros Hm. unfold countPrefixes. destruct (Z.ltb_spec (m - 1) 0); [lia|].
  cbn [cp_hist]. rewrite cp_sums_zeros. unfold cp_min. cbn [fold_left].
  replace (S (Z.to_nat (m - 1))) with (Z.to_nat m) by lia. reflexivity.
Qed.

Theorem CountPrefixes_single keys s m :
  keys_ok keys -> 0 <= s -> s < zlen keys -> 1 <= m ->
  exists sb, New keys = Some sb /\ CountPrefixes sb s (s + 1) m = Some (spec_CountPrefixes_single m).
Proof.
  intros Hok Hs Hl Hm.
  assert (Hne : keys <> []) by (intros ->; unfold zlen in Hl; cbn [length] in Hl; lia).
  exists {| sb_keys := keys; sb_sigbits := spec_FirstDiffBits keys |}.
  unfold New. rewrite (FirstDiffBits_exact keys Hne Hok). split; [reflexivity|].
  unfold CountPrefixes, sliceZ. cbn [sb_sigbits]. rewrite spec_FirstDiffBits_length.
  replace (s + 1 - 1) with s by lia.
  destruct (Z.leb_spec 0 s); [|lia]. destruct (Z.leb_spec s s); [|lia].
  destruct (Z.leb_spec s (Z.max 0 (zlen keys - 1))); [|lia]. cbn [andb].
  rewrite Z.sub_diag. cbn [Z.to_nat firstn]. now apply countPrefixes_nil.
Qed.

(** one key has one truncation at every width *)
Lemma count_trunc_single k b : count_trunc k [b] = 1.
Proof.
  rewrite count_trunc_cons. cbn [map].
  destruct (in_dec bits_eq_dec (firstn (Z.to_nat k) b) []) as [[]|_]. reflexivity.
Qed.

(** * get64Bits, stated on its own *)
Theorem get64Bits_exact s : bytes_ok s ->
  0 <= get64Bits s < 2 ^ 64 /\ msbn 64 (get64Bits s) = window false 64 (msb_bits s).
Proof. intros H. split; [now apply get64Bits_range|now apply msbn_get64Bits]. Qed.
