(** Proofs for the widened C05 statements: accessors on IndexToPath's result,
    order of the results, PathToIndexLoose on a full tree. *)
From Coq Require Import ZArith List Lia Bool.
From Low Require Import Lib.MachInt Lib.Bits Lib.BitSeq Lib.Lex Lib.Bytes Lib.BitsExtra_tree
  Lib.BitsExtra_idx5 Spec.Bmtree Spec.PathSpec Spec.IndexToPathSpec Spec.IndexToPathWideSpec
  Model.BmtreePath Model.BmtreePathStr Model.BmtreeIndex Model.BmtreeIndexToPath
  Proofs.BmtreePathProofs Proofs.IndexToPathProofs.
Import ListNotations.
Open Scope Z_scope.

(** * index order = pre-order *)
Lemma node_at_cmp h : forall i j,
  0 <= i < 2 ^ (Z.of_nat h + 1) - 1 -> 0 <= j < 2 ^ (Z.of_nat h + 1) - 1 ->
  bits_cmp (node_at h i) (node_at h j) = (i ?= j).
Proof.
  induction h as [|k IH]; intros i j Hi Hj.
  - change (2 ^ (Z.of_nat 0 + 1) - 1) with 1 in *. replace i with 0 by lia. replace j with 0 by lia. reflexivity.
  - destruct (Z.eq_dec i 0) as [->|Hi0]; destruct (Z.eq_dec j 0) as [->|Hj0].
    + reflexivity.
    + destruct (node_at_step k j ltac:(lia)) as [Ej _]. rewrite Ej, node_at_0.
      symmetry. apply Z.compare_lt_iff. lia.
    + destruct (node_at_step k i ltac:(lia)) as [Ei _]. rewrite Ei, node_at_0.
      symmetry. apply Z.compare_gt_iff. lia.
    + destruct (node_at_step k i ltac:(lia)) as [Ei Ri]. destruct (node_at_step k j ltac:(lia)) as [Ej Rj].
      cbn zeta in *. rewrite Ei, Ej. unfold bits_cmp. cbn [lex_cmp]. fold bits_cmp.
      destruct (Z.leb_spec (2 ^ Z.of_nat (S k)) i), (Z.leb_spec (2 ^ Z.of_nat (S k)) j); cbn [bool_cmp].
      * rewrite IH by assumption. destruct (Z.compare_spec i j), (Z.compare_spec (i - 2 ^ Z.of_nat (S k)) (j - 2 ^ Z.of_nat (S k))); try reflexivity; lia.
      * symmetry. apply Z.compare_gt_iff. lia.
      * symmetry. apply Z.compare_lt_iff. lia.
      * rewrite IH by assumption. destruct (Z.compare_spec i j), (Z.compare_spec (i - 1) (j - 1)); try reflexivity; lia.
Qed.

Lemma IndexToPath_compare h i j wi wj : (h <= 30)%nat ->
  0 <= i < 2 ^ (Z.of_nat h + 1) - 1 -> 0 <= j < 2 ^ (Z.of_nat h + 1) - 1 ->
  IndexToPath (Z.of_nat h) i = Some wi -> IndexToPath (Z.of_nat h) j = Some wj ->
  (wi ?= wj) = (i ?= j).
Proof.
  intros Hh Hi Hj Ei Ej. rewrite IndexToPath_node_at in Ei, Ej by assumption.
  injection Ei as <-. injection Ej as <-.
  rewrite enc_compare by (try lia; apply node_at_length). now apply node_at_cmp.
Qed.

Lemma IndexToPath_injective h i j w : (h <= 30)%nat ->
  0 <= i < 2 ^ (Z.of_nat h + 1) - 1 -> 0 <= j < 2 ^ (Z.of_nat h + 1) - 1 ->
  IndexToPath (Z.of_nat h) i = Some w -> IndexToPath (Z.of_nat h) j = Some w -> i = j.
Proof.
  intros Hh Hi Hj Ei Ej. apply Z.compare_eq_iff.
  rewrite <- (IndexToPath_compare h i j w w Hh Hi Hj Ei Ej). apply Z.compare_refl.
Qed.

(** * the accessors on the result *)
Lemma IndexToPath_fields h idx : (h <= 30)%nat -> 0 <= idx < 2 ^ (Z.of_nat h + 1) - 1 ->
  exists w, IndexToPath (Z.of_nat h) idx = Some w /\
    let q := node_at h idx in
    PathLen w = Z.of_nat (length q) /\
    (1 <= length q -> PathHeight w = Z.of_nat h)%nat /\
    (q = [] -> PathHeight w = 0) /\
    PathBits w = valL h q /\
    PathMask w = Mask (Z.of_nat (length q)) * 2 ^ (Z.of_nat h - Z.of_nat (length q)) /\
    PathStr w = node_str q.
Proof.
  intros Hh Hi. exists (enc h (node_at h idx)). split; [now apply IndexToPath_node_at|].
  cbn zeta. pose proof (node_at_length h idx) as Hl.
  repeat split.
  - apply PathLen_enc; lia.
  - intros H1. apply PathHeight_enc; lia.
  - intros ->. rewrite enc_nil. reflexivity.
  - apply PathBits_enc; lia.
  - apply PathMask_enc; lia.
  - apply PathStr_enc; lia.
Qed.

(** the functional specification evaluated by the correspondence run is what the lemma states *)
Lemma spec_node_eq h idx : 0 <= idx < 2 ^ (Z.of_nat h + 1) - 1 -> spec_node h idx = node_at h idx.
Proof. intros Hi. unfold spec_node. destruct (h <=? enum_max)%nat; [now apply enum_node_at_eq|reflexivity]. Qed.

Lemma spec_fields_model h idx : (h <= 30)%nat -> 0 <= idx < 2 ^ (Z.of_nat h + 1) - 1 ->
  exists w, IndexToPath (Z.of_nat h) idx = Some w /\
    spec_fields h idx = (PathLen w, PathHeight w, PathBits w, PathMask w, PathStr w).
Proof.
  intros Hh Hi. destruct (IndexToPath_fields h idx Hh Hi) as (w & Ew & F). cbn zeta in F.
  destruct F as (F1 & F2 & F3 & F4 & F5 & F6).
  exists w. split; [exact Ew|]. unfold spec_fields. rewrite spec_node_eq by exact Hi. unfold zlen.
  rewrite F1, F4, F5, F6. do 4 f_equal.
  destruct (Z.leb_spec 1 (Z.of_nat (length (node_at h idx)))).
  - symmetry. apply F2. lia.
  - symmetry. apply F3. destruct (node_at h idx); [reflexivity|cbn [length] in *; lia].
Qed.

(** * PathToIndexLoose on a full tree *)
Lemma PathToIndexLoose_full h q : (h <= 30)%nat -> (length q <= h)%nat ->
  PathToIndexLoose (fullT h) (enc h q) = Some (full_rank h q, 1).
Proof.
  intros Hh Hl. unfold PathToIndexLoose, fullT. rewrite Height_full by exact Hh.
  assert (H31 : 2 ^ (Z.of_nat h + 1) <= 2 ^ 31) by (apply pow2_le; lia).
  pose proof (pow2_pos (Z.of_nat h + 1)).
  unfold tblMaskUpto, tbl.
  destruct (Z.leb_spec 0 (Z.of_nat h)); [|lia]. destruct (Z.ltb_spec (Z.of_nat h) 64); [|lia].
  cbn [andb]. unfold MaskUpto. rewrite u64_id by lia. rewrite Z.eqb_refl.
  rewrite fullTreeIndex_enc by assumption.
  rewrite PathLen_enc by (try lia; exact Hl).
  unfold sar32. destruct (Z.ltb_spec (Z.of_nat (length q)) 32); [|lia].
  rewrite div_pow2_land_1 by lia.
  replace (2 ^ (Z.of_nat h + 1) - 1) with (2 ^ (Z.of_nat h + 1) - 2 ^ 0) by reflexivity.
  rewrite testbit_pow2_diff by lia.
  destruct (Z.leb_spec 0 (Z.of_nat (length q))), (Z.ltb_spec (Z.of_nat (length q)) (Z.of_nat h + 1)); try lia.
  reflexivity.
Qed.

Lemma spec_loose_full_eq h q : (length q <= h)%nat -> spec_loose_full h q = (full_rank h q, 1).
Proof.
  intros Hl. unfold spec_loose_full. destruct (h <=? enum_max)%nat; [|reflexivity].
  now rewrite enum_rank_full_rank.
Qed.

(** * IndexToPath enumerates the path words of the full tree, in pre-order *)
Lemma all_nodes_enum h :
  all_nodes h = map (fun i => node_at h (Z.of_nat i)) (seq 0 (length (all_nodes h))).
Proof.
  pose proof (all_nodes_length h) as HL.
  apply (nth_ext _ _ [] (node_at h (Z.of_nat 0))).
  - now rewrite map_length, seq_length.
  - intros n Hn. rewrite (map_nth (fun i => node_at h (Z.of_nat i))), seq_nth by exact Hn. cbn [plus].
    rewrite <- nth_all_nodes by (unfold node in *; lia). now rewrite Nat2Z.id.
Qed.

Lemma IndexToPath_enumerates h : (h <= 30)%nat ->
  map (fun i => IndexToPath (Z.of_nat h) (Z.of_nat i)) (seq 0 (length (all_nodes h)))
  = map (fun q => Some (enc h q)) (all_nodes h).
Proof.
  intros Hh. rewrite (all_nodes_enum h) at 2. rewrite map_map. apply map_ext_in.
  intros i Hi. apply in_seq in Hi. pose proof (all_nodes_length h) as HL.
  apply IndexToPath_node_at; [exact Hh|]. unfold node in *. lia.
Qed.

(** the same in the vocabulary of C04 ([stored_nodes] of the full level mask, indices 0 .. T-1):
    with C04_allpaths this says that AllPaths on a full tree lists IndexToPath h 0, 1, …, T-1 *)
Lemma IndexToPath_enumerates_stored h : (h <= 30)%nat ->
  map (fun i => IndexToPath (Z.of_nat h) (Z.of_nat i)) (seq 0 (Z.to_nat (fullT h)))
  = map (fun q => Some (enc h q)) (stored_nodes (fullT h) h).
Proof.
  intros Hh. rewrite stored_nodes_full. rewrite <- IndexToPath_enumerates by exact Hh.
  do 2 f_equal. pose proof (all_nodes_length h). unfold fullT. unfold node in *. lia.
Qed.

(** * a sequence of calls: every answer is the specification's, whatever was asked before
    (the model is a function; the correspondence ops with histories check that the code is one) *)
Lemma IndexToPath_session h l : (h <= 30)%nat ->
  Forall (fun i => 0 <= i < 2 ^ (Z.of_nat h + 1) - 1) l ->
  map (IndexToPath (Z.of_nat h)) l = map (fun i => Some (spec_index_to_path h i)) l.
Proof.
  intros Hh HF. apply map_ext_in. intros i Hi. rewrite Forall_forall in HF. specialize (HF i Hi).
  rewrite spec_index_to_path_eq by exact HF. now apply IndexToPath_node_at.
Qed.
