(** C01 widening (b): the indexes as running sums of the per-word bit counts, side by side. *)
From Coq Require Import ZArith List Lia Bool.
From Low Require Import Lib.MachInt Lib.Bits Lib.BitSeq
  Model.Rank Spec.RankSpec Spec.RankLawsSpec Proofs.RankProofs.
Import ListNotations.
Open Scope Z_scope.

Lemma psums_flat ws : forall acc,
  psums (map pop1 ws) acc = map (fun k => acc + count_true (flat (firstn k ws))) (seq 0 (S (length ws))).
Proof.
  induction ws as [|w t IH]; intros acc.
  - cbn. f_equal. lia.
  - cbn [map psums length]. rewrite IH.
    change (seq 0 (S (S (length t)))) with (0%nat :: seq 1 (S (length t))).
    cbn [map firstn]. f_equal; [cbn; lia|].
    rewrite <- seq_shift, map_map. apply map_ext. intros k.
    rewrite firstn_cons, flat_cons, count_true_app. unfold pop1. lia.
Qed.

Lemma list_ind2 {A} (P : list A -> Prop) :
  P [] -> (forall x, P [x]) -> (forall x y t, P t -> P (x :: y :: t)) -> forall l, P l.
Proof.
  intros H0 H1 H2 l. enough (P l /\ forall x, P (x :: l)) by tauto.
  induction l as [|y t [IH1 IH2]]; split; auto.
Qed.

Lemma evens_map f l : evens (map f l) = map f (evens l).
Proof.
  induction l as [|x|x y t IH] using list_ind2; [reflexivity|reflexivity|].
  cbn [map evens]. now rewrite IH.
Qed.

Lemma evens_seq : forall m s, evens (map Z.of_nat (seq s m)) =
  map (fun k => Z.of_nat (s + 2 * k)) (seq 0 ((m + 1) / 2)).
Proof.
  intros m. induction m as [m IH] using lt_wf_ind. intros s.
  destruct m as [|[|m]].
  - reflexivity.
  - cbn. f_equal. f_equal. lia.
  - cbn [seq map evens]. rewrite (IH m) by lia.
    replace ((S (S m) + 1) / 2)%nat with (S ((m + 1) / 2)).
    2:{ replace (S (S m) + 1)%nat with ((m + 1) + 1 * 2)%nat by lia. rewrite Nat.div_add by lia. lia. }
    cbn [seq map]. f_equal; [f_equal; lia|].
    rewrite <- seq_shift, map_map. apply map_ext. intros k. f_equal. lia.
Qed.

Lemma evens_map_seq (f : nat -> Z) m :
  evens (map f (seq 0 m)) = map (fun k => f (2 * k)%nat) (seq 0 ((m + 1) / 2)).
Proof.
  assert (E : map f (seq 0 m) = map (fun z => f (Z.to_nat z)) (map Z.of_nat (seq 0 m))).
  { rewrite map_map. apply map_ext. intros k. now rewrite Nat2Z.id. }
  rewrite E, evens_map, evens_seq, map_map. apply map_ext. intros k. f_equal. lia.
Qed.

(** the running sums are the bit-by-bit counts at the word boundaries *)
Theorem spec_indexes_rank ws :
  spec_indexes ws = (spec_IndexRank64 ws false, spec_IndexRank64 ws true, spec_IndexRank128 ws).
Proof.
  unfold spec_indexes. rewrite psums_flat.
  assert (E : map (fun k => 0 + count_true (flat (firstn k ws))) (seq 0 (S (length ws)))
            = map (fun k => rank1 (flat ws) (64 * k)) (seq 0 (S (length ws)))).
  { apply map_ext. intros k. now rewrite rank1_flat_words. }
  rewrite E. clear E. unfold spec_IndexRank64, spec_IndexRank128.
  assert (ES : map (fun k => rank1 (flat ws) (64 * k)) (seq 0 (S (length ws))) =
               map (fun k => rank1 (flat ws) (64 * k)) (seq 0 (length ws)) ++ [rank1 (flat ws) (64 * length ws)]).
  { rewrite seq_S, map_app. reflexivity. }
  f_equal; [f_equal|].
  - rewrite ES, removelast_last, app_nil_r. reflexivity.
  - exact ES.
  - rewrite evens_map_seq.
    replace ((S (length ws) + 1) / 2)%nat with (length ws / 2 + 1)%nat.
    2:{ replace (S (length ws) + 1)%nat with (length ws + 1 * 2)%nat by lia. now rewrite Nat.div_add by lia. }
    apply map_ext. intros k. f_equal. lia.
Qed.

(** the three indexes the code builds, side by side *)
Theorem index_all_exact ws : words_ok ws ->
  (IndexRank64 ws false, IndexRank64 ws true, IndexRank128 ws) = spec_indexes ws.
Proof.
  intros Hok. rewrite spec_indexes_rank, !IndexRank64_exact, IndexRank128_exact by exact Hok. reflexivity.
Qed.

(** how the indexes relate to each other *)
Theorem index_relations ws : words_ok ws ->
  IndexRank64 ws false = removelast (IndexRank64 ws true) /\
  IndexRank128 ws = evens (IndexRank64 ws true) /\
  IndexRank64 ws true = psums (map popcount ws) 0.
Proof.
  intros Hok. pose proof (index_all_exact ws Hok) as E. unfold spec_indexes in E.
  injection E as E1 E2 E3. rewrite E1, E2, E3. repeat split.
  f_equal. apply map_ext_in. intros w Hw. unfold pop1. symmetry. apply popcount_bits64.
  eapply Forall_forall in Hok; eauto.
Qed.
