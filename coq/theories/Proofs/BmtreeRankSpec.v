(** Spec-side lemmas for C03 (and reusable by C04/C05): structure of
    [all_nodes] / [stored_nodes], their size, sortedness w.r.t. [pre_lt], and
    the recursive form of the pre-order rank ([pre_rank = rec_rank]).
    Nothing here mentions the model of the Go code. *)
From Coq Require Import ZArith List Lia Bool Sorting.Sorted.
From Low Require Import Lib.Bits Lib.Lex Lib.Bytes Lib.BitsExtra_tree
  Spec.Bmtree Spec.IndexSpec.
Import ListNotations.
Open Scope Z_scope.

(** * generic list facts *)

Lemma filter_map_comm {A B} (f : B -> bool) (g : A -> B) l :
  filter f (map g l) = map g (filter (fun x => f (g x)) l).
Proof.
  induction l as [|x l IH]; [reflexivity|]. cbn [map filter].
  destruct (f (g x)); cbn [map]; now rewrite IH.
Qed.

Lemma filter_all_true {A} (f : A -> bool) l : (forall x, In x l -> f x = true) -> filter f l = l.
Proof.
  induction l as [|x l IH]; intros H; [reflexivity|]. cbn [filter].
  rewrite (H x) by (left; reflexivity). f_equal. apply IH. intros y Hy. apply H. now right.
Qed.

Lemma filter_all_false {A} (f : A -> bool) l : (forall x, In x l -> f x = false) -> filter f l = [].
Proof.
  induction l as [|x l IH]; intros H; [reflexivity|]. cbn [filter].
  rewrite (H x) by (left; reflexivity). apply IH. intros y Hy. apply H. now right.
Qed.

Lemma filter_length_le {A} (f : A -> bool) l : (length (filter f l) <= length l)%nat.
Proof. induction l as [|x l IH]; cbn [filter length]; [lia|]. destruct (f x); cbn [length]; lia. Qed.

(** if [f] implies [g] and some element satisfies [g] but not [f], [g] selects strictly more *)
Lemma filter_length_mono {A} (f g : A -> bool) l :
  (forall x, In x l -> f x = true -> g x = true) ->
  (length (filter f l) <= length (filter g l))%nat.
Proof.
  induction l as [|x l IH]; intros H; [cbn; lia|]. cbn [filter].
  assert (IH' : (length (filter f l) <= length (filter g l))%nat)
    by (apply IH; intros y Hy; apply H; now right).
  destruct (f x) eqn:Ef.
  - rewrite (H x (or_introl eq_refl) Ef). cbn [length]. lia.
  - destruct (g x); cbn [length]; lia.
Qed.

Lemma filter_length_strict {A} (f g : A -> bool) l q :
  (forall x, In x l -> f x = true -> g x = true) ->
  In q l -> f q = false -> g q = true ->
  (length (filter f l) < length (filter g l))%nat.
Proof.
  induction l as [|x l IH]; intros H Hq Hf Hg; [destruct Hq|]. cbn [filter].
  assert (Hmono : (length (filter f l) <= length (filter g l))%nat)
    by (apply filter_length_mono; intros y Hy; apply H; now right).
  destruct Hq as [->|Hq].
  - rewrite Hf, Hg. cbn [length]. lia.
  - assert (IH' : (length (filter f l) < length (filter g l))%nat)
      by (apply IH; auto; intros y Hy; apply H; now right).
    destruct (f x) eqn:Ef.
    + rewrite (H x (or_introl eq_refl) Ef). cbn [length]. lia.
    + destruct (g x); cbn [length]; lia.
Qed.

Lemma StronglySorted_app {A} (R : A -> A -> Prop) l1 l2 :
  StronglySorted R l1 -> StronglySorted R l2 ->
  (forall x y, In x l1 -> In y l2 -> R x y) -> StronglySorted R (l1 ++ l2).
Proof.
  induction l1 as [|a l1 IH]; intros H1 H2 H; [exact H2|]. cbn [app].
  apply StronglySorted_inv in H1. destruct H1 as [H1 Ha]. constructor.
  - apply IH; auto. intros x y Hx Hy. apply H; [now right|exact Hy].
  - apply Forall_app. split; [exact Ha|]. apply Forall_forall. intros y Hy. apply H; [now left|exact Hy].
Qed.

Lemma StronglySorted_map {A B} (R : A -> A -> Prop) (R' : B -> B -> Prop) (g : A -> B) l :
  (forall x y, R x y -> R' (g x) (g y)) -> StronglySorted R l -> StronglySorted R' (map g l).
Proof.
  intros Hg. induction 1 as [|a l Hs IH Ha]; cbn [map]; constructor; [exact IH|].
  apply Forall_forall. intros y Hy. apply in_map_iff in Hy. destruct Hy as (x & <- & Hx).
  apply Hg. rewrite Forall_forall in Ha. now apply Ha.
Qed.

Lemma StronglySorted_filter {A} (R : A -> A -> Prop) (f : A -> bool) l :
  StronglySorted R l -> StronglySorted R (filter f l).
Proof.
  induction 1 as [|a l Hs IH Ha]; cbn [filter]; [constructor|].
  destruct (f a); [|exact IH]. constructor; [exact IH|].
  apply Forall_forall. intros y Hy. apply filter_In in Hy. rewrite Forall_forall in Ha. now apply Ha.
Qed.

(** in a strictly sorted list the number of elements below the i-th one is i *)
Lemma sorted_rank_nth {A} (R : A -> A -> Prop) (ltb : A -> A -> bool) (d : A) :
  (forall x y, ltb x y = true <-> R x y) ->
  (forall x, ~ R x x) -> (forall x y, R x y -> ~ R y x) ->
  forall l, StronglySorted R l -> forall i, (i < length l)%nat ->
  length (filter (fun r => ltb r (nth i l d)) l) = i.
Proof.
  intros Hltb Hirr Hasym. induction 1 as [|a l Hs IH Ha]; intros i Hi; [cbn in Hi; lia|].
  rewrite Forall_forall in Ha. destruct i as [|i]; cbn [nth filter].
  - destruct (ltb a a) eqn:E; [apply Hltb in E; now apply Hirr in E|].
    rewrite filter_all_false; [reflexivity|]. intros y Hy.
    destruct (ltb y a) eqn:E'; [|reflexivity]. apply Hltb in E'. exfalso. exact (Hasym _ _ (Ha y Hy) E').
  - cbn [length] in Hi. assert (Hin : In (nth i l d) l) by (apply nth_In; lia).
    destruct (ltb a (nth i l d)) eqn:E.
    + cbn [length]. f_equal. apply IH. lia.
    + exfalso. assert (R a (nth i l d)) by now apply Ha. apply Hltb in H. congruence.
Qed.

(** * the pre-order *)

Lemma pre_ltb_iff' q r : pre_ltb q r = true <-> pre_lt q r.
Proof. unfold pre_ltb, pre_lt. destruct (bits_cmp q r); split; congruence. Qed.

Lemma pre_ltb_nil_r r : pre_ltb r [] = false.
Proof. now destruct r. Qed.

Lemma pre_ltb_nil_l b q : pre_ltb [] (b :: q) = true.
Proof. reflexivity. Qed.

Lemma pre_ltb_cons c r b q :
  pre_ltb (c :: r) (b :: q) =
  if Bool.eqb c b then pre_ltb r q else (negb c && b).
Proof. unfold pre_ltb, bits_cmp. cbn [lex_cmp]. now destruct c, b. Qed.

Lemma pre_lt_cons_iff c r q : pre_lt (c :: r) (c :: q) <-> pre_lt r q.
Proof. unfold pre_lt, bits_cmp. cbn [lex_cmp]. rewrite bool_cmp_refl. tauto. Qed.

Lemma pre_lt_false_true r q : pre_lt (false :: r) (true :: q).
Proof. reflexivity. Qed.

Lemma pre_lt_nil_cons b q : pre_lt [] (b :: q).
Proof. reflexivity. Qed.

Lemma pre_lt_irrefl q : ~ pre_lt q q.
Proof. unfold pre_lt, bits_cmp. rewrite lex_cmp_refl by apply bool_cmp_refl. discriminate. Qed.

Lemma pre_lt_trans : forall q r s, pre_lt q r -> pre_lt r s -> pre_lt q s.
Proof.
  unfold pre_lt, bits_cmp. induction q as [|a q IH]; intros [|b r] [|c s]; cbn [lex_cmp]; try congruence.
  destruct a, b, c; cbn [bool_cmp]; try congruence; apply IH.
Qed.

Lemma pre_lt_asym q r : pre_lt q r -> ~ pre_lt r q.
Proof. intros H H'. exact (pre_lt_irrefl q (pre_lt_trans _ _ _ H H')). Qed.

Lemma pre_lt_total q r : pre_lt q r \/ q = r \/ pre_lt r q.
Proof.
  revert r. induction q as [|a q IH]; intros [|b r].
  - right; left; reflexivity.
  - left; reflexivity.
  - right; right; reflexivity.
  - destruct a, b.
    + destruct (IH r) as [H|[->|H]]; [left; now apply pre_lt_cons_iff|right; left; reflexivity|right; right; now apply pre_lt_cons_iff].
    + right; right; reflexivity.
    + left; reflexivity.
    + destruct (IH r) as [H|[->|H]]; [left; now apply pre_lt_cons_iff|right; left; reflexivity|right; right; now apply pre_lt_cons_iff].
Qed.

(** * all_nodes *)

Lemma all_nodes_S k :
  all_nodes (S k) = [] :: map (cons false) (all_nodes k) ++ map (cons true) (all_nodes k).
Proof. reflexivity. Qed.

Lemma all_nodes_length_le h : forall q, In q (all_nodes h) -> (length q <= h)%nat.
Proof.
  induction h as [|k IH]; intros q Hq.
  - destruct Hq as [<-|[]]. cbn; lia.
  - rewrite all_nodes_S in Hq. destruct Hq as [<-|Hq]; [cbn; lia|].
    apply in_app_or in Hq. destruct Hq as [Hq|Hq]; apply in_map_iff in Hq;
      destruct Hq as (r & <- & Hr); apply IH in Hr; cbn [length]; lia.
Qed.

Lemma all_nodes_complete h : forall q, (length q <= h)%nat -> In q (all_nodes h).
Proof.
  induction h as [|k IH]; intros q Hq.
  - destruct q; [now left|cbn in Hq; lia].
  - rewrite all_nodes_S. destruct q as [|b q]; [now left|]. right. cbn [length] in Hq.
    apply in_or_app. destruct b; [right|left]; apply in_map; apply IH; lia.
Qed.

Lemma all_nodes_count h : Z.of_nat (length (all_nodes h)) = 2 ^ (Z.of_nat h + 1) - 1.
Proof.
  induction h as [|k IH]; [reflexivity|].
  rewrite all_nodes_S. cbn [length]. rewrite app_length, !map_length.
  unfold node in *. rewrite Nat2Z.inj_succ, Nat2Z.inj_add, IH.
  replace (Z.of_nat (S k) + 1) with ((Z.of_nat k + 1) + 1) by lia.
  rewrite (pow2_succ (Z.of_nat k + 1)) by lia. lia.
Qed.

Lemma all_nodes_sorted h : StronglySorted pre_lt (all_nodes h).
Proof.
  induction h as [|k IH]; [repeat constructor|].
  rewrite all_nodes_S. constructor.
  - apply StronglySorted_app.
    + eapply StronglySorted_map; [|exact IH]. intros x y. apply pre_lt_cons_iff.
    + eapply StronglySorted_map; [|exact IH]. intros x y. apply pre_lt_cons_iff.
    + intros x y Hx Hy. apply in_map_iff in Hx. apply in_map_iff in Hy.
      destruct Hx as (x' & <- & _). destruct Hy as (y' & <- & _). apply pre_lt_false_true.
  - apply Forall_forall. intros y Hy. apply in_app_or in Hy.
    destruct Hy as [Hy|Hy]; apply in_map_iff in Hy; destruct Hy as (y' & <- & _); apply pre_lt_nil_cons.
Qed.

(** * stored_nodes *)

Lemma stored_nil T : stored T [] = Z.testbit T 0.
Proof. reflexivity. Qed.

Lemma stored_cons T b q : stored T (b :: q) = stored (T / 2) q.
Proof.
  unfold stored. cbn [length]. rewrite Nat2Z.inj_succ.
  rewrite <- Z.div2_div, Z.div2_spec, Z.shiftr_spec by lia. f_equal.
Qed.

Lemma stored_nodes_S T k :
  stored_nodes T (S k) =
  (if Z.testbit T 0 then [[]] else []) ++
  map (cons false) (stored_nodes (T / 2) k) ++ map (cons true) (stored_nodes (T / 2) k).
Proof.
  unfold stored_nodes. rewrite all_nodes_S. cbn [filter]. rewrite stored_nil.
  rewrite filter_app, !filter_map_comm.
  rewrite (filter_ext (fun x => stored T (false :: x)) (stored (T / 2))) by (intros; apply stored_cons).
  rewrite (filter_ext (fun x => stored T (true :: x)) (stored (T / 2))) by (intros; apply stored_cons).
  now destruct (Z.testbit T 0).
Qed.

Lemma stored_nodes_0 T : stored_nodes T 0 = if Z.testbit T 0 then [[]] else [].
Proof. unfold stored_nodes. cbn [all_nodes filter]. now rewrite stored_nil. Qed.

Lemma stored_nodes_In T h q : In q (stored_nodes T h) <-> (length q <= h)%nat /\ stored T q = true.
Proof.
  unfold stored_nodes. rewrite filter_In. split; intros [H1 H2]; split; auto.
  - now apply all_nodes_length_le.
  - now apply all_nodes_complete.
Qed.

Lemma stored_nodes_sorted T h : StronglySorted pre_lt (stored_nodes T h).
Proof. apply StronglySorted_filter, all_nodes_sorted. Qed.

Lemma StronglySorted_NoDup {A} (R : A -> A -> Prop) l :
  (forall x, ~ R x x) -> StronglySorted R l -> NoDup l.
Proof.
  intros Hirr. induction 1 as [|a l Hs IH Ha]; constructor; [|exact IH].
  intros Hin. rewrite Forall_forall in Ha. exact (Hirr a (Ha a Hin)).
Qed.

Lemma stored_nodes_NoDup T h : NoDup (stored_nodes T h).
Proof. eapply StronglySorted_NoDup; [apply pre_lt_irrefl|apply stored_nodes_sorted]. Qed.

Lemma bit0_b2z T : Z.b2z (Z.testbit T 0) = T mod 2.
Proof. now rewrite Z.bit0_mod. Qed.

Lemma half_decomp T : T = 2 * (T / 2) + Z.b2z (Z.testbit T 0).
Proof. rewrite Z.bit0_odd. apply div2_decomp. Qed.

(** the number of stored nodes is the level mask itself: level l holds 2^l nodes *)
Lemma stored_nodes_count : forall h T, 0 <= T < 2 ^ (Z.of_nat h + 1) ->
  Z.of_nat (length (stored_nodes T h)) = T.
Proof.
  induction h as [|k IH]; intros T HT.
  - rewrite stored_nodes_0. change (2 ^ (Z.of_nat 0 + 1)) with 2 in HT.
    assert (T = 0 \/ T = 1) as [-> | ->] by lia; reflexivity.
  - rewrite stored_nodes_S, !app_length, !map_length.
    rewrite Nat2Z.inj_succ in HT. replace (Z.succ (Z.of_nat k) + 1) with ((Z.of_nat k + 1) + 1) in HT by lia.
    rewrite pow2_succ in HT by lia.
    rewrite !Nat2Z.inj_add, IH by (apply half_bound; lia).
    pose proof (half_decomp T) as Hd.
    destruct (Z.testbit T 0); cbn [length Z.b2z] in *; lia.
Qed.

(** * the recursive rank *)

Lemma pre_rank_nil T h : pre_rank T h [] = 0.
Proof.
  unfold pre_rank. rewrite filter_all_false; [reflexivity|]. intros; apply pre_ltb_nil_r.
Qed.

Lemma pre_rank_cons T k b q : 0 <= T < 2 ^ (Z.of_nat (S k) + 1) ->
  pre_rank T (S k) (b :: q) =
  Z.b2z (Z.testbit T 0) + (if b then T / 2 else 0) + pre_rank (T / 2) k q.
Proof.
  intros HT. unfold pre_rank. rewrite stored_nodes_S, !filter_app, !app_length, !filter_map_comm, !map_length.
  rewrite !Nat2Z.inj_add.
  assert (Hh : 0 <= T / 2 < 2 ^ (Z.of_nat k + 1)).
  { rewrite Nat2Z.inj_succ in HT. replace (Z.succ (Z.of_nat k) + 1) with ((Z.of_nat k + 1) + 1) in HT by lia.
    rewrite pow2_succ in HT by lia. apply half_bound; lia. }
  assert (E0 : Z.of_nat (length (filter (fun r => pre_ltb r (b :: q)) (if Z.testbit T 0 then [[]] else []))) =
               Z.b2z (Z.testbit T 0)) by (destruct (Z.testbit T 0); reflexivity).
  unfold node in *. rewrite E0.
  destruct b.
  - rewrite (filter_ext (fun x => pre_ltb (false :: x) (true :: q)) (fun _ => true)) by (intros; apply pre_ltb_cons).
    rewrite (filter_ext (fun x => pre_ltb (true :: x) (true :: q)) (fun r => pre_ltb r q)) by (intros; apply pre_ltb_cons).
    rewrite filter_all_true by reflexivity. rewrite stored_nodes_count by exact Hh. lia.
  - rewrite (filter_ext (fun x => pre_ltb (false :: x) (false :: q)) (fun r => pre_ltb r q)) by (intros; apply pre_ltb_cons).
    rewrite (filter_ext (fun x => pre_ltb (true :: x) (false :: q)) (fun _ => false)) by (intros; apply pre_ltb_cons).
    rewrite (filter_all_false (fun _ => false)) by reflexivity. cbn [length]. lia.
Qed.

(** the enumerated pre-order rank = the recursion on the path *)
Lemma rec_rank_pre_rank : forall h T q, (length q <= h)%nat -> 0 <= T < 2 ^ (Z.of_nat h + 1) ->
  pre_rank T h q = rec_rank T q.
Proof.
  induction h as [|k IH]; intros T q Hq HT.
  - destruct q; [|cbn in Hq; lia]. apply pre_rank_nil.
  - destruct q as [|b q]; [apply pre_rank_nil|]. cbn [length] in Hq.
    rewrite pre_rank_cons by exact HT. cbn [rec_rank]. rewrite IH; [reflexivity|lia|].
    rewrite Nat2Z.inj_succ in HT. replace (Z.succ (Z.of_nat k) + 1) with ((Z.of_nat k + 1) + 1) in HT by lia.
    rewrite pow2_succ in HT by lia. apply half_bound; lia.
Qed.

(** the checker's rank is the enumerated rank, whichever branch it takes *)
Lemma spec_rank_pre_rank h T q : (length q <= h)%nat -> 0 <= T < 2 ^ (Z.of_nat h + 1) ->
  spec_rank T h q = pre_rank T h q.
Proof.
  intros Hq HT. unfold spec_rank. destruct (h <=? 12)%nat; [reflexivity|].
  symmetry. now apply rec_rank_pre_rank.
Qed.

Lemma pre_rank_bounds T h q : 0 <= T < 2 ^ (Z.of_nat h + 1) -> 0 <= pre_rank T h q <= T.
Proof.
  intros HT. unfold pre_rank. pose proof (stored_nodes_count h T HT).
  pose proof (filter_length_le (fun r => pre_ltb r q) (stored_nodes T h)). unfold node in *. lia.
Qed.

(** a stored node is not counted by its own rank: rank < T *)
Lemma pre_rank_lt T h q : 0 <= T < 2 ^ (Z.of_nat h + 1) -> (length q <= h)%nat -> stored T q = true ->
  pre_rank T h q < T.
Proof.
  intros HT Hq Hs. unfold pre_rank. pose proof (stored_nodes_count h T HT) as Hc.
  enough (length (filter (fun r => pre_ltb r q) (stored_nodes T h)) < length (stored_nodes T h))%nat
    by (unfold node in *; lia).
  rewrite <- (filter_all_true (fun _ => true) (stored_nodes T h)) at 2 by reflexivity.
  apply (filter_length_strict _ _ _ q); auto.
  - apply stored_nodes_In; auto.
  - destruct (pre_ltb q q) eqn:E; [|reflexivity]. apply pre_ltb_iff' in E. now apply pre_lt_irrefl in E.
Qed.

(** * bijection and monotonicity of the rank on the stored nodes *)

Lemma pre_rank_nth T h i : (i < length (stored_nodes T h))%nat ->
  pre_rank T h (nth i (stored_nodes T h) []) = Z.of_nat i.
Proof.
  intros Hi. unfold pre_rank. f_equal.
  apply (sorted_rank_nth pre_lt pre_ltb []); auto.
  - apply pre_ltb_iff'.
  - apply pre_lt_irrefl.
  - apply pre_lt_asym.
  - apply stored_nodes_sorted.
Qed.

Lemma pre_rank_mono T h q r : (length q <= h)%nat -> stored T q = true -> pre_lt q r ->
  pre_rank T h q < pre_rank T h r.
Proof.
  intros Hq Hs Hlt. unfold pre_rank. apply Nat2Z.inj_lt.
  apply (filter_length_strict _ _ _ q).
  - intros x _ Hx. apply pre_ltb_iff' in Hx. apply pre_ltb_iff'. eapply pre_lt_trans; eauto.
  - apply stored_nodes_In; auto.
  - destruct (pre_ltb q q) eqn:E; [|reflexivity]. apply pre_ltb_iff' in E. now apply pre_lt_irrefl in E.
  - now apply pre_ltb_iff'.
Qed.

Lemma pre_rank_mono_iff T h q r : (length q <= h)%nat -> (length r <= h)%nat ->
  stored T q = true -> stored T r = true ->
  (pre_rank T h q < pre_rank T h r <-> pre_lt q r).
Proof.
  intros Hq Hr Hsq Hsr. split; [|now apply pre_rank_mono].
  intros Hlt. destruct (pre_lt_total q r) as [H|[->|H]]; [exact H|lia|].
  pose proof (pre_rank_mono T h r q Hr Hsr H). lia.
Qed.

Lemma pre_rank_inj T h q r : (length q <= h)%nat -> (length r <= h)%nat ->
  stored T q = true -> stored T r = true -> pre_rank T h q = pre_rank T h r -> q = r.
Proof.
  intros Hq Hr Hsq Hsr E. destruct (pre_lt_total q r) as [H|[->|H]]; [|reflexivity|].
  - pose proof (pre_rank_mono T h q r Hq Hsq H). lia.
  - pose proof (pre_rank_mono T h r q Hr Hsr H). lia.
Qed.
