(** Proofs for C12, part 2: [ToArray] lists exactly the 1-bits; [Get]/[Get1] read the bit in
    place / in bit 0; [SafeGet]/[SafeGet1] are total. *)
From Coq Require Import ZArith List Lia Bool Sorted.
From Low Require Import Lib.MachInt Lib.Bits Lib.BitSeq Lib.BitsExtra_bm2 Lib.BitsExtra_c02 Lib.BitsExtra_bm12
  Model.BitmapUtil Model.BuilderOps Model.BitmapOf Spec.OfSpec.
Import ListNotations.
Open Scope Z_scope.

(** the word read by [bm[i>>6]] for a position inside *)
Lemma word_read ws i :
  0 <= i < 64 * zlen ws ->
  exists w, nthZ ws (Z.shiftr i 6) = Some w /\ nth (Z.to_nat (i / 64)) ws 0 = w /\
            0 <= Z.land i 63 < 64 /\ Z.land i 63 = i mod 64.
Proof.
  intros Hi. rewrite shiftr6, land63.
  assert (Hk : 0 <= i / 64 < zlen ws).
  { split; [apply Z.div_pos; lia|apply Z.div_lt_upper_bound; lia]. }
  destruct (nthZ_in_range ws (i / 64) Hk) as [w Hw]. exists w. split; [exact Hw|].
  apply nthZ_Some in Hw. destruct Hw as [_ Hw]. split; [now apply nth_error_nth|].
  split; [apply Z.mod_pos_bound; lia|reflexivity].
Qed.

Lemma inside_iff ws i : inside ws i = true <-> 0 <= i < 64 * zlen ws.
Proof. unfold inside. rewrite andb_true_iff, Z.leb_le, Z.ltb_lt. tauto. Qed.

Lemma pow2_nonzero j : 0 <= j -> 2 ^ j <> 0.
Proof. intros Hj. pose proof (Z.pow_pos_nonneg 2 j ltac:(lia) Hj). lia. Qed.

(** * ToArray *)
Lemma ToArray_loop_spec ws : forall fuel i,
  0 <= i -> (Z.to_nat (64 * zlen ws - i) <= fuel)%nat ->
  ToArray_loop fuel ws i (64 * zlen ws) =
    Some (ones_from i (skipn (Z.to_nat i) (flat ws))).
Proof.
  induction fuel as [|fuel IH]; intros i Hi Hf.
  - cbn [ToArray_loop]. destruct (Z.ltb_spec i (64 * zlen ws)); [lia|].
    rewrite skipn_all2 by (rewrite flat_length; unfold zlen in *; lia). reflexivity.
  - cbn [ToArray_loop]. destruct (Z.ltb_spec i (64 * zlen ws)) as [Hlt|Hge].
    + destruct (word_read ws i (conj Hi Hlt)) as (w & -> & Hnth & Hj & Hj').
      rewrite IH by lia. f_equal.
      assert (Hb : nth_error (flat ws) (Z.to_nat i) = Some (wbit ws i)).
      { rewrite <- bitz_wbit by lia. unfold bitz. apply nth_error_nth'.
        rewrite flat_length. unfold zlen in Hlt. lia. }
      rewrite (skipn_nth_cons _ _ _ Hb). cbn [ones_from].
      replace (S (Z.to_nat i)) with (Z.to_nat (i + 1)) by lia.
      rewrite shl64_1 by exact Hj. rewrite land_bit_testbit by lia.
      unfold wbit. rewrite Hnth, <- Hj'.
      destruct (Z.testbit w (Z.land i 63)).
      * destruct (Z.eqb_spec (2 ^ Z.land i 63) 0) as [E|_]; [|reflexivity].
        exfalso. revert E. apply pow2_nonzero. lia.
      * reflexivity.
    + rewrite skipn_all2 by (rewrite flat_length; unfold zlen in *; lia). reflexivity.
Qed.

(** ToArray never panics and returns exactly the positions of the 1-bits, ascending *)
Theorem ToArray_exact ws : ToArray ws = Some (ones (flat ws)).
Proof.
  unfold ToArray. replace (zlen ws * 64) with (64 * zlen ws) by lia.
  rewrite ToArray_loop_spec by lia. reflexivity.
Qed.

(** * Get / Get1 *)
Theorem Get_exact ws i : 0 <= i < 64 * zlen ws -> Get ws i = Some (spec_Get ws i).
Proof.
  intros Hi. unfold Get, spec_Get. destruct (word_read ws i Hi) as (w & -> & Hnth & Hj & Hj').
  f_equal. unfold Bit. rewrite land_bit_testbit by lia.
  rewrite bitz_wbit by lia. unfold wbit. rewrite Hnth, Hj'. reflexivity.
Qed.

Theorem Get1_exact ws i : 0 <= i < 64 * zlen ws -> Get1 ws i = Some (spec_Get1 ws i).
Proof.
  intros Hi. unfold Get1, spec_Get1. destruct (word_read ws i Hi) as (w & -> & Hnth & Hj & Hj').
  f_equal. rewrite shr64_div by exact Hj. rewrite div_pow2_land_1 by lia.
  rewrite bitz_wbit by lia. unfold wbit. rewrite Hnth, Hj'. reflexivity.
Qed.

(** the value of [Get] is the single bit in place, the value of [Get1] is 0 or 1, and both say
    whether [i] is one of the positions [ToArray] lists *)
Lemma spec_Get_member ws i : 0 <= i ->
  (spec_Get ws i <> 0 <-> In i (ones (flat ws))) /\ (spec_Get1 ws i = 1 <-> In i (ones (flat ws))).
Proof.
  intros Hi. unfold spec_Get, spec_Get1. rewrite ones_In_bitz.
  assert (Hnz : 2 ^ (i mod 64) <> 0) by (apply pow2_nonzero; apply Z.mod_pos_bound; lia).
  destruct (bitz (flat ws) i); cbn [Z.b2z].
  - split; split; intros _; auto; lia.
  - split; split; intros H; try lia; try (destruct H; discriminate).
Qed.

(** * SafeGet / SafeGet1: total *)
Lemma outside_test ws i :
  (Z.shiftr i 6 <? 0) || (Z.shiftr i 6 >=? zlen ws) = negb (inside ws i).
Proof.
  rewrite shiftr6. unfold inside.
  pose proof (Z.div_mod i 64 ltac:(lia)). pose proof (Z.mod_pos_bound i 64 ltac:(lia)).
  destruct (Z.ltb_spec (i / 64) 0); destruct (Z.leb_spec 0 i); cbn [orb andb negb]; try lia; try reflexivity.
Qed.

Theorem SafeGet_total ws i : SafeGet ws i = Some (spec_SafeGet ws i).
Proof.
  unfold SafeGet, spec_SafeGet. cbv zeta. rewrite outside_test.
  destruct (inside ws i) eqn:E; cbn [negb]; [|reflexivity].
  apply inside_iff in E. apply (Get_exact ws i E).
Qed.

Theorem SafeGet1_total ws i : SafeGet1 ws i = Some (spec_SafeGet1 ws i).
Proof.
  unfold SafeGet1, spec_SafeGet1. cbv zeta. rewrite outside_test.
  destruct (inside ws i) eqn:E; cbn [negb]; [|reflexivity].
  apply inside_iff in E. apply (Get1_exact ws i E).
Qed.

(** outside (negative or >= 64 |bm|) the Safe variants return 0; inside they agree with Get/Get1 *)
Lemma SafeGet_outside ws i : ~ (0 <= i < 64 * zlen ws) ->
  SafeGet ws i = Some 0 /\ SafeGet1 ws i = Some 0.
Proof.
  intros H. rewrite SafeGet_total, SafeGet1_total. unfold spec_SafeGet, spec_SafeGet1.
  destruct (inside ws i) eqn:E; [apply inside_iff in E; contradiction|]. split; reflexivity.
Qed.

Lemma SafeGet_inside ws i : 0 <= i < 64 * zlen ws ->
  SafeGet ws i = Get ws i /\ SafeGet1 ws i = Get1 ws i.
Proof.
  intros H. rewrite SafeGet_total, SafeGet1_total, Get_exact, Get1_exact by exact H.
  unfold spec_SafeGet, spec_SafeGet1. rewrite (proj2 (inside_iff ws i) H). split; reflexivity.
Qed.
