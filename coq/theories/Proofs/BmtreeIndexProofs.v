(** Proofs for C03: PathToIndex / PathToIndexLoose (Model/BmtreeIndex.v, with
    their int32/uint64 wraps, the three cases, shiftMulti in both operand
    orders) return the pre-order rank among the stored nodes. *)
From Coq Require Import ZArith List Lia Bool Sorting.Sorted.
From Low Require Import Lib.MachInt Lib.Bits Lib.BitSeq Lib.Lex Lib.Bytes Lib.BitsExtra_tree
  Spec.Bmtree Spec.IndexSpec Model.BmtreePath Model.BmtreeIndex
  Proofs.BmtreePathProofs Proofs.BmtreeRankSpec Proofs.ShiftMultiProofs.
Import ListNotations.
Open Scope Z_scope.

(** * the recursive rank split into its two summands, as the code computes it *)

(** the part contributed by the right turns of the path: Σ_j q_j * (T >> (j+1)) *)
Fixpoint turn_sum (T : Z) (q : node) : Z :=
  match q with
  | [] => 0
  | b :: q' => (if b then T / 2 else 0) + turn_sum (T / 2) q'
  end.

Lemma mod_pow2_S T (l : nat) :
  T mod 2 ^ Z.of_nat (S l) = 2 * ((T / 2) mod 2 ^ Z.of_nat l) + Z.b2z (Z.testbit T 0).
Proof.
  rewrite pow2_S. rewrite Z.rem_mul_r by (pose proof (pow2_pos (Z.of_nat l)); lia).
  rewrite Z.bit0_mod. lia.
Qed.

Lemma turn_sum_nonneg : forall q T, 0 <= T -> 0 <= turn_sum T q.
Proof.
  induction q as [|b q IH]; intros T HT; cbn [turn_sum]; [lia|].
  assert (0 <= T / 2) by (apply Z.div_pos; lia). specialize (IH (T / 2) H). destruct b; lia.
Qed.

(** rank = right-turn part + number of stored levels above the node *)
Lemma rec_rank_split : forall q T, 0 <= T ->
  rec_rank T q = turn_sum T q + popcount (T mod 2 ^ Z.of_nat (length q)).
Proof.
  induction q as [|b q IH]; intros T HT.
  - cbn [rec_rank turn_sum length]. change (2 ^ Z.of_nat 0) with 1. rewrite Z.mod_1_r. reflexivity.
  - cbn [rec_rank turn_sum length]. rewrite mod_pow2_S.
    assert (0 <= T / 2) by (apply Z.div_pos; lia).
    rewrite popcount_double_plus by (apply Z.mod_pos_bound, pow2_pos; lia).
    rewrite IH by assumption. lia.
Qed.

(** PathToIndex's operand order: the level mask is shifted, the path selects *)
Lemma strict_sum : forall q h T, (length q <= h)%nat ->
  sumbits h T (valL h q) (Z.of_nat h) = turn_sum T q.
Proof.
  induction q as [|b q IH]; intros h T Hq.
  - rewrite valL_nil, sumbits_b_zero. reflexivity.
  - destruct h as [|k]; [cbn in Hq; lia|]. cbn [length] in Hq.
    rewrite valL_cons by lia. rewrite Z.add_comm.
    rewrite sumbits_snoc by (apply valL_lt; lia).
    replace (Z.of_nat (S k) - Z.of_nat k) with 1 by lia. change (2 ^ 1) with 2.
    replace (Z.of_nat (S k)) with (Z.of_nat k + 1) by lia.
    rewrite sumbits_half by lia. rewrite IH by lia. cbn [turn_sum]. lia.
Qed.

(** PathToIndexLoose's operand order: the path is shifted, the level mask selects *)
Lemma loose_sum : forall q h T, (length q <= h)%nat -> 0 <= T < 2 ^ (Z.of_nat h + 1) ->
  sumbits (S h) (valL h q) T (Z.of_nat h) = turn_sum T q.
Proof.
  induction q as [|b q IH]; intros h T Hq HT.
  - rewrite valL_nil, sumbits_a_zero. reflexivity.
  - destruct h as [|k]; [cbn in Hq; lia|]. cbn [length] in Hq.
    assert (Hh : 0 <= T / 2 < 2 ^ (Z.of_nat k + 1)).
    { replace (Z.of_nat (S k) + 1) with ((Z.of_nat k + 1) + 1) in HT by lia.
      rewrite pow2_succ in HT by lia. apply half_bound; lia. }
    change (sumbits (S (S k)) (valL (S k) (b :: q)) T (Z.of_nat (S k))) with
      ((if Z.odd T then valL (S k) (b :: q) / 2 ^ Z.of_nat (S k) else 0) +
       sumbits (S k) (valL (S k) (b :: q)) (T / 2) (Z.of_nat (S k) - 1)).
    rewrite (Z.div_small (valL (S k) (b :: q))) by (apply valL_lt; cbn [length]; lia).
    replace (Z.of_nat (S k) - 1) with (Z.of_nat k) by lia.
    rewrite valL_cons by lia.
    rewrite sumbits_add_hi by (rewrite ?Nat2Z.inj_succ, <- ?Z.add_1_r; lia).
    rewrite IH by (try lia; exact Hh). cbn [turn_sum].
    destruct (Z.odd T), b; cbn [Z.b2z]; lia.
Qed.

(** * the two closed forms *)

Lemma odd_half x : Z.testbit (2 * x + 1) 0 = true /\ (2 * x + 1) / 2 = x.
Proof.
  split.
  - rewrite Z.bit0_odd. rewrite Z.add_comm, Z.odd_add_mul_2. reflexivity.
  - rewrite Z.add_comm, Z.mul_comm, Z.div_add by lia. reflexivity.
Qed.

Lemma even_half x : Z.testbit (2 * x) 0 = false /\ (2 * x) / 2 = x.
Proof.
  split.
  - rewrite Z.bit0_odd. rewrite Z.odd_mul. reflexivity.
  - rewrite Z.mul_comm, Z.div_mul by lia. reflexivity.
Qed.

(** full tree: every level stored; rank = 2p + |q| - popcount p *)
Lemma full_rank : forall q h, (length q <= h)%nat ->
  rec_rank (2 ^ (Z.of_nat h + 1) - 1) q = 2 * valL h q + Z.of_nat (length q) - popcount (valL h q).
Proof.
  induction q as [|b q IH]; intros h Hq.
  - rewrite valL_nil. reflexivity.
  - destruct h as [|k]; [cbn in Hq; lia|]. cbn [length] in Hq. cbn [rec_rank].
    replace (Z.of_nat (S k) + 1) with ((Z.of_nat k + 1) + 1) by lia. rewrite pow2_succ by lia.
    replace (2 * 2 ^ (Z.of_nat k + 1) - 1) with (2 * (2 ^ (Z.of_nat k + 1) - 1) + 1) by lia.
    destruct (odd_half (2 ^ (Z.of_nat k + 1) - 1)) as [-> ->].
    rewrite IH by lia. rewrite valL_cons by lia.
    pose proof (valL_lt k q ltac:(lia)) as Hv.
    rewrite popcount_concat by (destruct b; cbn [Z.b2z]; lia). rewrite popcount_b2z.
    rewrite pow2_succ by lia. cbn [length]. destruct b; cbn [Z.b2z]; lia.
Qed.

(** leaf-only tree: rank = the path bits themselves *)
Lemma leaf_rank : forall q h, (length q <= h)%nat -> rec_rank (2 ^ Z.of_nat h) q = valL h q.
Proof.
  induction q as [|b q IH]; intros h Hq.
  - rewrite valL_nil. reflexivity.
  - destruct h as [|k]; [cbn in Hq; lia|]. cbn [length] in Hq. cbn [rec_rank].
    rewrite pow2_S. destruct (even_half (2 ^ Z.of_nat k)) as [-> ->].
    rewrite IH by lia. rewrite valL_cons by lia. destruct b; cbn [Z.b2z]; lia.
Qed.

(** * removing the machine-integer wraps *)

Lemma Height_spec T h : 1 <= T < 2 ^ 31 -> Height T = Z.of_nat h ->
  2 ^ Z.of_nat h <= T < 2 ^ (Z.of_nat h + 1) /\ (h <= 30)%nat.
Proof.
  intros HT HH. unfold Height in HH. rewrite u32_id in HH by lia.
  destruct T as [|p|p]; try lia. cbn [bitlen] in HH.
  assert (E : Z.log2 (Z.pos p) = Z.of_nat h) by lia.
  pose proof (Z.log2_spec (Z.pos p) ltac:(lia)) as Hs. rewrite E in Hs.
  replace (Z.succ (Z.of_nat h)) with (Z.of_nat h + 1) in Hs by lia.
  split; [exact Hs|].
  destruct (le_lt_dec h 30) as [|Hgt]; [assumption|exfalso].
  assert (2 ^ 31 <= 2 ^ Z.of_nat h) by (apply pow2_le; lia). lia.
Qed.

Lemma Height_pow2_range T h : 2 ^ Z.of_nat h <= T < 2 ^ (Z.of_nat h + 1) -> T < 2 ^ 31 ->
  Height T = Z.of_nat h.
Proof.
  intros HT H31. pose proof (pow2_pos (Z.of_nat h) ltac:(lia)).
  unfold Height. rewrite u32_id by lia.
  destruct T as [|p|p]; try lia. cbn [bitlen].
  rewrite (Z.log2_unique (Z.pos p) (Z.of_nat h)); [lia|lia|].
  replace (Z.succ (Z.of_nat h)) with (Z.of_nat h + 1) by lia. exact HT.
Qed.

Lemma tbl_some size f i : 0 <= i < size -> tbl size f i = Some (f i).
Proof.
  intros Hi. unfold tbl. destruct (Z.leb_spec 0 i); [|lia]. destruct (Z.ltb_spec i size); [|lia]. reflexivity.
Qed.

Lemma lnot_mod_pow2 p n : 0 <= n -> 0 <= p < 2 ^ n -> 2 ^ n - 1 - p = (Z.lnot p) mod 2 ^ n.
Proof.
  intros Hn Hp. unfold Z.lnot. apply (Z.mod_unique_pos _ _ (-1)); lia.
Qed.

Lemma testbit_compl p n m : 0 <= n -> 0 <= p < 2 ^ n -> 0 <= m ->
  Z.testbit (2 ^ n - 1 - p) m = (m <? n) && negb (Z.testbit p m).
Proof.
  intros Hn Hp Hm. rewrite (lnot_mod_pow2 p n) by assumption.
  destruct (Z.ltb_spec m n).
  - rewrite Z.mod_pow2_bits_low by lia. rewrite Z.lnot_spec by lia. reflexivity.
  - rewrite Z.mod_pow2_bits_high by lia. reflexivity.
Qed.

Lemma testbit_ones32 m : 0 <= m -> Z.testbit (2 ^ 32 - 1) m = (m <? 32).
Proof. intros Hm. change (2 ^ 32 - 1) with (Z.ones 32). apply Z.testbit_ones_nonneg; lia. Qed.

(** [path ^ 0xffffffff00000000] complements the upper half *)
Lemma lxor_upper p lo : 0 <= p < 2 ^ 32 -> 0 <= lo < 2 ^ 32 ->
  Z.lxor (p * 2 ^ 32 + lo) 0xffffffff00000000 = (2 ^ 32 - 1 - p) * 2 ^ 32 + lo.
Proof.
  intros Hp Hlo. change 0xffffffff00000000 with ((2 ^ 32 - 1) * 2 ^ 32 + 0).
  apply Z.bits_inj'. intros n Hn.
  rewrite Z.lxor_spec, !testbit_hi_lo by lia.
  destruct (Z.ltb_spec n 32).
  - rewrite Z.bits_0. apply xorb_false_r.
  - rewrite testbit_ones32, (testbit_compl p 32) by lia.
    destruct (Z.ltb_spec (n - 32) 32).
    + now destruct (Z.testbit p (n - 32)).
    + rewrite (testbit_small p 32) by lia. reflexivity.
Qed.

Lemma popcount_maskL h q : (h <= 32)%nat -> (length q <= h)%nat -> popcount (maskL h q) = Z.of_nat (length q).
Proof. intros Hh Hq. rewrite <- (enc_mod32 h q Hh Hq). apply (PathLen_enc h q Hh Hq). Qed.

Lemma pow2_30_lt h : (h <= 30)%nat -> 2 ^ Z.of_nat h <= 2 ^ 30.
Proof. intros. apply pow2_le; lia. Qed.

Lemma i32_eq_mod x : exists k, i32 x = x + k * 2 ^ 32.
Proof.
  exists (- ((x + 2 ^ 31) / 2 ^ 32)). unfold i32.
  pose proof (Z.div_mod (x + 2 ^ 31) (2 ^ 32) ltac:(lia)). lia.
Qed.

Lemma i32_add_idemp_l x y : i32 (i32 x + y) = i32 (x + y).
Proof.
  apply i32_congr. destruct (i32_eq_mod x) as [k ->].
  replace (x + k * 2 ^ 32 + y - (x + y)) with (k * 2 ^ 32) by lia. apply Z_mod_mult.
Qed.

(** the closed form of the full-tree branch: the inner additions may overflow
    int32 ("may overflow but ok"), only the final value is reduced *)
Lemma fullTreeIndex_enc h q : (h <= 30)%nat -> (length q <= h)%nat ->
  fullTreeIndex (enc h q) = i32 (2 * valL h q + Z.of_nat (length q) - popcount (valL h q)).
Proof.
  intros Hh Hq. unfold fullTreeIndex.
  pose proof (pow2_30_lt h Hh) as H30.
  pose proof (valL_lt h q Hq) as Hv.
  pose proof (maskL_lt32 h q ltac:(lia) Hq) as Hm.
  pose proof (PathBits_enc h q ltac:(lia) Hq) as Hpb. unfold PathBits in Hpb. rewrite Hpb.
  rewrite enc_split. rewrite lxor_upper by lia.
  rewrite (popcount_concat 32) by (change (Z.of_nat 32) with 32; lia).
  rewrite (popcount_compl 32) by (change (Z.of_nat 32) with 32; lia).
  rewrite popcount_maskL by (try lia; exact Hq).
  pose proof (popcount_bound 32 (valL h q) ltac:(change (Z.of_nat 32) with 32; lia)) as Hpc.
  change (Z.of_nat 32) with 32 in *.
  rewrite (i32_id (valL h q)) by lia.
  unfold sshl32. change (1 <? 32) with true. cbv iota. change (2 ^ 1) with 2.
  rewrite (i32_id (valL h q * 2)) by lia.
  rewrite (i32_id (32 - popcount (valL h q) + Z.of_nat (length q))) by lia.
  rewrite <- (Z.add_opp_r (i32 _) 32). rewrite i32_add_idemp_l. f_equal. lia.
Qed.

Lemma has_bit T (l : nat) : (l <= 30)%nat -> Z.land (sar32 T (Z.of_nat l)) 1 = Z.b2z (Z.testbit T (Z.of_nat l)).
Proof.
  intros Hl. unfold sar32. destruct (Z.ltb_spec (Z.of_nat l) 32); [|lia].
  apply div_pow2_land_1. lia.
Qed.

(** * the main results *)

Lemma T_range_h T h : 1 <= T < 2 ^ 31 -> Height T = Z.of_nat h -> 0 <= T < 2 ^ (Z.of_nat h + 1).
Proof.
  intros HT HH. destruct (Height_spec T h HT HH) as [Hr _].
  pose proof (pow2_pos (Z.of_nat h) ltac:(lia)). lia.
Qed.

Section Main.
  Variables (T : Z) (h : nat) (q : node).
  Hypothesis HT : 1 <= T < 2 ^ 31.
  Hypothesis HH : Height T = Z.of_nat h.
  Hypothesis Hq : (length q <= h)%nat.

  Let Hrange : 2 ^ Z.of_nat h <= T < 2 ^ (Z.of_nat h + 1) /\ (h <= 30)%nat := Height_spec T h HT HH.

  Lemma rec_rank_range : 0 <= rec_rank T q <= T.
  Proof.
    destruct Hrange as [Hr Hh]. pose proof (pow2_pos (Z.of_nat h) ltac:(lia)).
    rewrite <- (rec_rank_pre_rank h) by (try exact Hq; lia). apply pre_rank_bounds. lia.
  Qed.

  (** the general branch, PathToIndex's operand order *)
  Lemma general_strict :
    shiftMulti T (valL h q) (Z.of_nat h) = Some (turn_sum T q).
  Proof.
    destruct Hrange as [Hr Hh]. pose proof (valL_lt h q Hq) as Hv.
    rewrite shiftMulti_spec; [|lia|rewrite pow2_succ by lia; lia].
    replace (Z.to_nat (Z.of_nat h + 1)) with (S h) by lia.
    rewrite (sumbits_small h (S h)) by (try lia; exact Hv).
    rewrite strict_sum by exact Hq.
    pose proof (turn_sum_nonneg q T ltac:(lia)).
    pose proof rec_rank_range as Hrr. rewrite rec_rank_split in Hrr by lia.
    pose proof (popcount_nonneg (T mod 2 ^ Z.of_nat (length q))).
    rewrite u64_id by lia. reflexivity.
  Qed.

  (** the general branch, PathToIndexLoose's (swapped) operand order *)
  Lemma general_loose :
    shiftMulti (valL h q) T (Z.of_nat h) = Some (turn_sum T q).
  Proof.
    destruct Hrange as [Hr Hh]. pose proof (pow2_pos (Z.of_nat h) ltac:(lia)).
    rewrite shiftMulti_spec; [|lia|lia].
    replace (Z.to_nat (Z.of_nat h + 1)) with (S h) by lia.
    rewrite loose_sum by (try exact Hq; lia).
    pose proof (turn_sum_nonneg q T ltac:(lia)).
    pose proof rec_rank_range as Hrr. rewrite rec_rank_split in Hrr by lia.
    pose proof (popcount_nonneg (T mod 2 ^ Z.of_nat (length q))).
    rewrite u64_id by lia. reflexivity.
  Qed.

  Lemma general_index :
    i32 (u64 (turn_sum T q + popcount (Z.land T (Mask (Z.of_nat (length q)))))) = rec_rank T q.
  Proof.
    rewrite land_mask by lia. rewrite <- rec_rank_split by lia.
    pose proof rec_rank_range. rewrite u64_id by lia. apply i32_id. lia.
  Qed.

  (** the index computed by either function, by cases on the shape of T *)
  Lemma index_cases :
    (T = MaskUpto (Z.of_nat h) -> fullTreeIndex (enc h q) = rec_rank T q) /\
    (T = Bit (Z.of_nat h) -> i32 (shr64 (enc h q) 32) = rec_rank T q).
  Proof.
    destruct Hrange as [Hr Hh]. split; intros E.
    - rewrite fullTreeIndex_enc by assumption. rewrite <- full_rank by exact Hq.
      fold (MaskUpto (Z.of_nat h)). rewrite <- E. pose proof rec_rank_range. apply i32_id. lia.
    - pose proof (PathBits_enc h q ltac:(lia) Hq) as Hpb. unfold PathBits in Hpb. rewrite Hpb.
      rewrite E. unfold Bit. rewrite leaf_rank by exact Hq.
      pose proof (valL_lt h q Hq). pose proof (pow2_30_lt h Hh). apply i32_id. lia.
  Qed.

  Lemma PathToIndexLoose_rec :
    PathToIndexLoose T (enc h q) = Some (rec_rank T q, Z.b2z (stored T q)).
  Proof.
    destruct Hrange as [Hr Hh]. destruct index_cases as [Hfull Hleaf].
    unfold PathToIndexLoose. rewrite HH.
    rewrite (u64_id T) by lia. rewrite (u64_id (Z.of_nat h)) by lia.
    rewrite (PathLen_enc h q) by (try lia; exact Hq).
    rewrite has_bit by lia. fold (stored T q).
    unfold tblMaskUpto, tblBit, tblMask. rewrite !tbl_some by lia.
    destruct (Z.eqb_spec T (MaskUpto (Z.of_nat h))) as [E|_]; [now rewrite Hfull|].
    destruct (Z.eqb_spec T (Bit (Z.of_nat h))) as [E|_]; [now rewrite Hleaf|].
    pose proof (PathBits_enc h q ltac:(lia) Hq) as Hpb. unfold PathBits in Hpb. rewrite Hpb.
    rewrite general_loose, general_index. reflexivity.
  Qed.

  Lemma PathToIndex_rec :
    PathToIndex T (enc h q) = Some (rec_rank T q).
  Proof.
    destruct Hrange as [Hr Hh]. destruct index_cases as [Hfull Hleaf].
    unfold PathToIndex. rewrite HH.
    rewrite (u64_id T) by lia. rewrite (u64_id (Z.of_nat h)) by lia.
    rewrite (PathLen_enc h q) by (try lia; exact Hq).
    unfold tblMaskUpto, tblBit, tblMask. rewrite !tbl_some by lia.
    destruct (Z.eqb_spec T (MaskUpto (Z.of_nat h))) as [E|_]; [now rewrite Hfull|].
    destruct (Z.eqb_spec T (Bit (Z.of_nat h))) as [E|_]; [now rewrite Hleaf|].
    pose proof (PathBits_enc h q ltac:(lia) Hq) as Hpb. unfold PathBits in Hpb. rewrite Hpb.
    rewrite general_strict, general_index. reflexivity.
  Qed.

  (** C03_loose *)
  Lemma PathToIndexLoose_pre_rank :
    PathToIndexLoose T (enc h q) = Some (pre_rank T h q, Z.b2z (stored T q)).
  Proof. rewrite PathToIndexLoose_rec. rewrite rec_rank_pre_rank by (try exact Hq; apply T_range_h; assumption). reflexivity. Qed.

  (** C03_strict (the equation holds for every node; the property claims it for stored ones,
      which is where the debug build does not panic) *)
  Lemma PathToIndex_pre_rank :
    PathToIndex T (enc h q) = Some (pre_rank T h q).
  Proof. rewrite PathToIndex_rec. rewrite rec_rank_pre_rank by (try exact Hq; apply T_range_h; assumption). reflexivity. Qed.

  (** the closed forms equal the general sum: on a full / leaf-only mask the general branch
      would have returned the same value *)
  Lemma closed_forms_eq_general :
    (T = MaskUpto (Z.of_nat h) ->
       fullTreeIndex (enc h q) = turn_sum T q + popcount (Z.land T (Mask (Z.of_nat (length q))))) /\
    (T = Bit (Z.of_nat h) ->
       i32 (shr64 (enc h q) 32) = turn_sum T q + popcount (Z.land T (Mask (Z.of_nat (length q))))).
  Proof.
    destruct index_cases as [Hfull Hleaf].
    split; intros E; [rewrite (Hfull E)|rewrite (Hleaf E)];
      rewrite land_mask by lia; apply rec_rank_split; lia.
  Qed.
End Main.

(** C03_count *)
Lemma stored_nodes_count_T T h : 1 <= T < 2 ^ 31 -> Height T = Z.of_nat h ->
  Z.of_nat (length (stored_nodes T h)) = T.
Proof. intros HT HH. apply stored_nodes_count. exact (T_range_h T h HT HH). Qed.

(** C03_bijection *)
Lemma PathToIndex_nth T h i : 1 <= T < 2 ^ 31 -> Height T = Z.of_nat h -> 0 <= i < T ->
  PathToIndex T (enc h (nth (Z.to_nat i) (stored_nodes T h) [])) = Some i.
Proof.
  intros HT HH Hi. pose proof (stored_nodes_count_T T h HT HH) as Hc.
  assert (Hlt : (Z.to_nat i < length (stored_nodes T h))%nat) by lia.
  assert (Hin : In (nth (Z.to_nat i) (stored_nodes T h) []) (stored_nodes T h)) by (apply nth_In; exact Hlt).
  apply stored_nodes_In in Hin. destruct Hin as [Hl _].
  rewrite PathToIndex_pre_rank by assumption.
  rewrite pre_rank_nth by exact Hlt. f_equal. lia.
Qed.

Lemma PathToIndex_range T h q : 1 <= T < 2 ^ 31 -> Height T = Z.of_nat h -> (length q <= h)%nat ->
  stored T q = true -> exists i, PathToIndex T (enc h q) = Some i /\ 0 <= i < T.
Proof.
  intros HT HH Hq Hs. exists (pre_rank T h q). split; [now apply PathToIndex_pre_rank|].
  pose proof (T_range_h T h HT HH) as Hr.
  pose proof (pre_rank_bounds T h q Hr). pose proof (pre_rank_lt T h q Hr Hq Hs). lia.
Qed.

Lemma PathToIndex_mono T h q r i j : 1 <= T < 2 ^ 31 -> Height T = Z.of_nat h ->
  (length q <= h)%nat -> (length r <= h)%nat -> stored T q = true -> stored T r = true ->
  PathToIndex T (enc h q) = Some i -> PathToIndex T (enc h r) = Some j ->
  (i < j <-> pre_lt q r).
Proof.
  intros HT HH Hq Hr Hsq Hsr Ei Ej.
  rewrite PathToIndex_pre_rank in Ei, Ej by assumption.
  injection Ei as <-. injection Ej as <-. now apply pre_rank_mono_iff.
Qed.

Lemma PathToIndex_inj T h q r : 1 <= T < 2 ^ 31 -> Height T = Z.of_nat h ->
  (length q <= h)%nat -> (length r <= h)%nat -> stored T q = true -> stored T r = true ->
  PathToIndex T (enc h q) = PathToIndex T (enc h r) -> q = r.
Proof.
  intros HT HH Hq Hr Hsq Hsr E.
  rewrite !PathToIndex_pre_rank in E by assumption. injection E as E.
  now apply (pre_rank_inj T h).
Qed.

(** * cross-property corollaries (for C04 / C10 users): index vs numeric order of the path words *)

Lemma StronglySorted_map_in {A B} (R : A -> A -> Prop) (R' : B -> B -> Prop) (g : A -> B) l :
  (forall x y, In x l -> In y l -> R x y -> R' (g x) (g y)) -> StronglySorted R l -> StronglySorted R' (map g l).
Proof.
  intros Hg Hs. induction Hs as [|a l Hs IH Ha]; cbn [map]; constructor.
  - apply IH. intros x y Hx Hy. apply Hg; now right.
  - apply Forall_forall. intros y Hy. apply in_map_iff in Hy. destruct Hy as (x & <- & Hx).
    rewrite Forall_forall in Ha. apply Hg; [now left|now right|now apply Ha].
Qed.

(** the path words of the stored nodes, in the order of the enumeration, are strictly ascending *)
Lemma enc_stored_sorted T h : (h <= 32)%nat -> StronglySorted Z.lt (map (enc h) (stored_nodes T h)).
Proof.
  intros Hh. apply (StronglySorted_map_in pre_lt); [|apply stored_nodes_sorted].
  intros x y Hx Hy Hlt. apply stored_nodes_In in Hx. apply stored_nodes_In in Hy.
  apply enc_lt_iff; tauto.
Qed.

(** PathToIndex is strictly monotone w.r.t. the numeric order of the path words *)
Lemma PathToIndex_mono_word T h q r i j : 1 <= T < 2 ^ 31 -> Height T = Z.of_nat h ->
  (length q <= h)%nat -> (length r <= h)%nat -> stored T q = true -> stored T r = true ->
  PathToIndex T (enc h q) = Some i -> PathToIndex T (enc h r) = Some j ->
  (i < j <-> enc h q < enc h r).
Proof.
  intros HT HH Hq Hr Hsq Hsr Ei Ej. destruct (Height_spec T h HT HH) as [_ Hh].
  rewrite (PathToIndex_mono T h q r i j) by assumption.
  symmetry. apply enc_lt_iff; lia.
Qed.

(** the k-th path word of the enumeration has index k: PathToIndex maps the ascending list of
    stored path words onto 0, 1, ..., T-1 *)
Lemma PathToIndex_enum T h : 1 <= T < 2 ^ 31 -> Height T = Z.of_nat h ->
  map (PathToIndex T) (map (enc h) (stored_nodes T h)) =
  map (fun k => Some (Z.of_nat k)) (seq 0 (Z.to_nat T)).
Proof.
  intros HT HH. pose proof (stored_nodes_count_T T h HT HH) as Hc.
  apply (nth_ext _ _ None None).
  - rewrite !map_length, seq_length. lia.
  - intros n Hn. rewrite !map_length in Hn.
    rewrite (nth_indep _ None (PathToIndex T (enc h []))) by (rewrite !map_length; exact Hn).
    rewrite map_map, (map_nth (fun q => PathToIndex T (enc h q))).
    rewrite (nth_indep _ None ((fun k => Some (Z.of_nat k)) 0%nat)) by (rewrite map_length, seq_length; lia).
    rewrite (map_nth (fun k => Some (Z.of_nat k))). rewrite seq_nth by lia. cbn [plus].
    pose proof (PathToIndex_nth T h (Z.of_nat n) HT HH ltac:(lia)) as E.
    rewrite Nat2Z.id in E. exact E.
Qed.
