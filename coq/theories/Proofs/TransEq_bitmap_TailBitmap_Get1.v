(** Equality of the definition generated from the Go source of bitmap.TailBitmap.Get1 (coq/gen/Trans.v) and the model. *)
From Coq Require Import ZArith List Lia Bool.
From Low Require Import Lib.MachInt Lib.Bits Lib.BitSeq Lib.TransLib Proofs.TransEqLemmas.
From LowGen Require Trans.
Import ListNotations.
Open Scope Z_scope.

From Low Require Model.TailBitmap Model.TailBitmapI64.

Lemma TransEq_bitmap_TailBitmap_Get1 tb idx : Trans.bitmap_TailBitmap_Get1 tb idx = TailBitmapI64.Get1_64 tb idx.
Proof.
  unfold Trans.bitmap_TailBitmap_Get1, TailBitmapI64.Get1_64. cbv zeta.
  destruct (idx <? TailBitmap.Offset tb); [reflexivity|].
  rewrite sar64_shiftr by lia.
  destruct (nthZ (TailBitmap.Words tb) (Z.shiftr (i64 (idx - TailBitmap.Offset tb)) 6)) as [w|]; [|reflexivity].
  pose proof (land_63_range (i64 (idx - TailBitmap.Offset tb))).
  rewrite u64_id by lia. rewrite shr64_shiftr by lia. reflexivity.
Qed.

Lemma TransEq_bitmap_TailBitmap_Get1_unbounded tb idx : in_i64 (idx - TailBitmap.Offset tb) ->
  Trans.bitmap_TailBitmap_Get1 tb idx = TailBitmap.Get1 tb idx.
Proof.
  unfold in_i64. intros H. rewrite TransEq_bitmap_TailBitmap_Get1. unfold TailBitmapI64.Get1_64, TailBitmap.Get1. cbv zeta.
  rewrite i64_id by lia. reflexivity.
Qed.
