(** Proofs for C10: the path word [enc h q] built by NewPath, its fields, its
    rendering, and numeric order = pre-order.  Also the structural lemmas on
    [valL] / [enc] reused by C03 and C04. *)
From Coq Require Import ZArith List Lia Bool.
From Low Require Import Lib.MachInt Lib.Bits Lib.BitSeq Lib.Lex Lib.Bytes Lib.BitsExtra_tree
  Spec.Bmtree Spec.PathSpec Model.BmtreePath Model.BmtreePathStr.
Import ListNotations.
Open Scope Z_scope.

(** the mask half of the word *)
Definition maskL (h : nat) (q : node) : Z :=
  Mask (Z.of_nat (length q)) * 2 ^ (Z.of_nat h - Z.of_nat (length q)).

Lemma enc_split h q : enc h q = valL h q * 2 ^ 32 + maskL h q.
Proof. reflexivity. Qed.

Lemma valL_nil h : valL h [] = 0.
Proof. unfold valL. rewrite val_msb_nil. lia. Qed.

Lemma maskL_nil h : maskL h [] = 0.
Proof. unfold maskL, Mask. cbn [length]. change (2 ^ Z.of_nat 0) with 1. lia. Qed.

Lemma enc_nil h : enc h [] = 0.
Proof. rewrite enc_split, valL_nil, maskL_nil. lia. Qed.

Lemma valL_cons h b q : (length q <= h)%nat ->
  valL (S h) (b :: q) = Z.b2z b * 2 ^ Z.of_nat h + valL h q.
Proof.
  intros Hl. unfold valL. rewrite val_msb_cons. cbn [length].
  replace (Z.of_nat (S h) - Z.of_nat (S (length q))) with (Z.of_nat h - Z.of_nat (length q)) by lia.
  rewrite (pow2_split (Z.of_nat h) (Z.of_nat (length q))) by lia. lia.
Qed.

Lemma maskL_eq h q : (length q <= h)%nat ->
  maskL h q = 2 ^ Z.of_nat h - 2 ^ (Z.of_nat h - Z.of_nat (length q)).
Proof.
  intros Hl. unfold maskL, Mask.
  rewrite (pow2_split (Z.of_nat h) (Z.of_nat (length q))) by lia. lia.
Qed.

Lemma maskL_cons h b q : (length q <= h)%nat ->
  maskL (S h) (b :: q) = 2 ^ Z.of_nat h + maskL h q.
Proof.
  intros Hl. rewrite !maskL_eq by (cbn [length]; lia). cbn [length].
  replace (Z.of_nat (S h) - Z.of_nat (S (length q))) with (Z.of_nat h - Z.of_nat (length q)) by lia.
  rewrite pow2_S. lia.
Qed.

Lemma enc_cons h b q : (length q <= h)%nat ->
  enc (S h) (b :: q) = Z.b2z b * 2 ^ (Z.of_nat h + 32) + 2 ^ Z.of_nat h + enc h q.
Proof.
  intros Hl. rewrite !enc_split, valL_cons, maskL_cons by exact Hl.
  rewrite Z.pow_add_r by lia. lia.
Qed.

Lemma valL_bound h q : (length q <= h)%nat -> 0 <= valL h q <= 2 ^ Z.of_nat h - 2 ^ (Z.of_nat h - Z.of_nat (length q)).
Proof.
  intros Hl. unfold valL. pose proof (val_msb_bound q).
  pose proof (pow2_pos (Z.of_nat h - Z.of_nat (length q))).
  rewrite (pow2_split (Z.of_nat h) (Z.of_nat (length q))) by lia. nia.
Qed.

Lemma valL_lt h q : (length q <= h)%nat -> 0 <= valL h q < 2 ^ Z.of_nat h.
Proof.
  intros Hl. pose proof (valL_bound h q Hl). pose proof (pow2_pos (Z.of_nat h - Z.of_nat (length q))). lia.
Qed.

Lemma maskL_bound h q : (length q <= h)%nat -> 0 <= maskL h q < 2 ^ Z.of_nat h.
Proof.
  intros Hl. rewrite maskL_eq by exact Hl.
  pose proof (pow2_pos (Z.of_nat h - Z.of_nat (length q))).
  pose proof (pow2_le (Z.of_nat h - Z.of_nat (length q)) (Z.of_nat h)). lia.
Qed.

Lemma maskL_lt32 h q : (h <= 32)%nat -> (length q <= h)%nat -> 0 <= maskL h q < 2 ^ 32.
Proof.
  intros Hh Hl. pose proof (maskL_bound h q Hl). pose proof (pow2_le (Z.of_nat h) 32). lia.
Qed.

Lemma enc_bound h q : (h <= 32)%nat -> (length q <= h)%nat -> 0 <= enc h q < 2 ^ (Z.of_nat h + 32).
Proof.
  intros Hh Hl. rewrite enc_split. pose proof (valL_lt h q Hl). pose proof (maskL_lt32 h q Hh Hl).
  rewrite Z.pow_add_r by lia. nia.
Qed.

Lemma enc_u64 h q : (h <= 32)%nat -> (length q <= h)%nat -> 0 <= enc h q < 2 ^ 64.
Proof.
  intros Hh Hl. pose proof (enc_bound h q Hh Hl). pose proof (pow2_le (Z.of_nat h + 32) 64). lia.
Qed.

(** * NewPath builds [enc] *)
Lemma NewPath_enc h q : (h <= 32)%nat -> (length q <= h)%nat ->
  NewPath (valL h q) (Z.of_nat (length q)) (Z.of_nat h) = enc h q.
Proof.
  intros Hh Hl. unfold NewPath.
  pose proof (valL_lt h q Hl). pose proof (maskL_lt32 h q Hh Hl) as Hm.
  pose proof (pow2_le (Z.of_nat h) 32).
  rewrite shl64_small; [|lia|].
  2:{ change (2 ^ 64) with (2 ^ 32 * 2 ^ 32). nia. }
  rewrite shl64_small; [|lia|].
  2:{ fold (maskL h q). lia. }
  fold (maskL h q). rewrite lor_hi_lo by lia. symmetry. apply enc_split.
Qed.

(** * fields *)
Lemma enc_mod32 h q : (h <= 32)%nat -> (length q <= h)%nat -> u32 (enc h q) = maskL h q.
Proof. intros Hh Hl. unfold u32. rewrite enc_split. apply mod_hi_lo; [lia|]. now apply maskL_lt32. Qed.

Lemma enc_div32 h q : (h <= 32)%nat -> (length q <= h)%nat -> enc h q / 2 ^ 32 = valL h q.
Proof. intros Hh Hl. rewrite enc_split. apply div_hi_lo; [lia|]. now apply maskL_lt32. Qed.

Lemma PathLen_enc h q : (h <= 32)%nat -> (length q <= h)%nat -> PathLen (enc h q) = Z.of_nat (length q).
Proof.
  intros Hh Hl. unfold PathLen. rewrite enc_mod32 by assumption. unfold maskL, Mask.
  replace (Z.of_nat h - Z.of_nat (length q)) with (Z.of_nat (h - length q)) by lia.
  pose proof (pow2_pos (Z.of_nat (length q))).
  rewrite popcount_mul_pow2 by lia. apply popcount_ones.
Qed.

Lemma PathHeight_enc h q : (h <= 32)%nat -> (1 <= length q <= h)%nat -> PathHeight (enc h q) = Z.of_nat h.
Proof.
  intros Hh Hl. unfold PathHeight. rewrite enc_mod32 by lia. rewrite maskL_eq by lia.
  set (m := 2 ^ Z.of_nat h - 2 ^ (Z.of_nat h - Z.of_nat (length q))).
  assert (Hm : 2 ^ (Z.of_nat h - 1) <= m < 2 ^ (Z.of_nat h - 1 + 1)).
  { unfold m. replace (Z.of_nat h - 1 + 1) with (Z.of_nat h) by lia.
    pose proof (pow2_pos (Z.of_nat h - Z.of_nat (length q))).
    pose proof (pow2_le (Z.of_nat h - Z.of_nat (length q)) (Z.of_nat h - 1)).
    rewrite (pow2_split (Z.of_nat h) 1) by lia. change (2 ^ 1) with 2. lia. }
  pose proof (pow2_pos (Z.of_nat h - 1)).
  clearbody m. destruct m; cbn [bitlen]; try lia.
  rewrite (Z.log2_unique (Z.pos p) (Z.of_nat h - 1)) by lia. lia.
Qed.

Lemma PathBits_enc h q : (h <= 32)%nat -> (length q <= h)%nat -> PathBits (enc h q) = valL h q.
Proof. intros Hh Hl. unfold PathBits. rewrite shr64_div by lia. now apply enc_div32. Qed.

Lemma PathMask_enc h q : (h <= 32)%nat -> (length q <= h)%nat -> PathMask (enc h q) = maskL h q.
Proof.
  intros Hh Hl. unfold PathMask. change (2 ^ 32 - 1) with (Mask 32). rewrite land_mask by lia.
  now apply enc_mod32.
Qed.

(** PathBits / PathMask are the two halves of ANY uint64 word *)
Lemma PathBits_half w : PathBits w = w / 2 ^ 32.
Proof. unfold PathBits. apply shr64_div. lia. Qed.

Lemma PathMask_half w : PathMask w = w mod 2 ^ 32.
Proof. unfold PathMask. change (2 ^ 32 - 1) with (Mask 32). apply land_mask. lia. Qed.

(** * PathStr *)
Lemma bits_zero n : bits n 0 = repeat false n.
Proof.
  unfold bits. induction n as [|n IH]; [reflexivity|].
  rewrite seq_S, map_app, IH. cbn [map]. rewrite Z.bits_0.
  clear IH. induction n; cbn [repeat app]; [reflexivity|]. now rewrite IHn.
Qed.

Lemma bin_digits_spec : forall n fuel u, (1 <= n <= fuel)%nat -> 0 <= u < 2 ^ Z.of_nat n ->
  (length (bin_digits fuel u) <= n)%nat /\
  bin_digits fuel u ++ repeat 48 (n - length (bin_digits fuel u)) = map bitchar (bits n u).
Proof.
  induction n as [|n IH]; intros fuel u Hn Hu; [lia|].
  destruct fuel as [|f]; [lia|]. cbn [bin_digits].
  rewrite bits_S. cbn [map]. rewrite Z.div2_div.
  destruct (Z.ltb_spec u 2) as [Hlt|Hge].
  - cbn [length]. split; [lia|].
    replace (u / 2) with 0 by (symmetry; apply Z.div_small; lia).
    rewrite bits_zero. cbn [app]. replace (S n - 1)%nat with n by lia.
    f_equal.
    + assert (u = 0 \/ u = 1) as [-> | ->] by lia; reflexivity.
    + clear. induction n; cbn [repeat map]; [reflexivity|]. now rewrite IHn.
  - assert (Hn1 : (1 <= n)%nat).
    { destruct n; [|lia]. change (2 ^ Z.of_nat 1) with 2 in Hu. lia. }
    rewrite pow2_S in Hu.
    destruct (IH f (u / 2)) as [IH1 IH2]; [lia|apply half_bound; lia|].
    cbn [length]. split; [lia|].
    cbn [app]. replace (S n - S (length (bin_digits f (u / 2))))%nat with (n - length (bin_digits f (u / 2)))%nat by lia.
    rewrite IH2. f_equal. rewrite Zmod_odd. now destruct (Z.odd u).
Qed.

Lemma fmt_0b_bits n u : (1 <= n <= 64)%nat -> 0 <= u < 2 ^ Z.of_nat n ->
  fmt_0b (Z.of_nat n) u = map bitchar (rev (bits n u)).
Proof.
  intros Hn Hu. unfold fmt_0b, zlen.
  destruct (bin_digits_spec n 64 u) as [H1 H2]; [lia|exact Hu|].
  replace (Z.to_nat (Z.of_nat n - Z.of_nat (length (bin_digits 64 u)))) with (n - length (bin_digits 64 u))%nat by lia.
  rewrite H2. now rewrite map_rev.
Qed.

Lemma PathStr_enc h q : (h <= 32)%nat -> (length q <= h)%nat -> PathStr (enc h q) = node_str q.
Proof.
  intros Hh Hl. unfold PathStr. rewrite PathLen_enc by assumption.
  destruct (Z.eqb_spec (Z.of_nat (length q)) 0) as [E|E].
  - destruct q; [reflexivity|cbn [length] in E; lia].
  - rewrite PathHeight_enc by lia.
    rewrite shr64_div by lia.
    assert (Hd : enc h q / 2 ^ (32 + Z.of_nat h - Z.of_nat (length q)) = val_msb q).
    { rewrite enc_split. unfold valL.
      replace (val_msb q * 2 ^ (Z.of_nat h - Z.of_nat (length q)) * 2 ^ 32)
        with (val_msb q * 2 ^ (32 + Z.of_nat h - Z.of_nat (length q))).
      2:{ replace (32 + Z.of_nat h - Z.of_nat (length q)) with ((Z.of_nat h - Z.of_nat (length q)) + 32) by lia.
          rewrite Z.pow_add_r by lia. lia. }
      apply div_hi_lo; [lia|].
      pose proof (maskL_lt32 h q Hh Hl). pose proof (pow2_le 32 (32 + Z.of_nat h - Z.of_nat (length q))). lia. }
    rewrite Hd. rewrite fmt_0b_bits; [|lia|apply val_msb_bound].
    rewrite bits_val_msb, rev_involutive. reflexivity.
Qed.

(** * numeric order = pre-order *)
Lemma enc_compare : forall q1 h q2, (h <= 32)%nat -> (length q1 <= h)%nat -> (length q2 <= h)%nat ->
  (enc h q1 ?= enc h q2) = bits_cmp q1 q2.
Proof.
  unfold bits_cmp.
  induction q1 as [|b1 q1 IH]; intros h q2 Hh H1 H2.
  - destruct q2 as [|b2 q2]; cbn [lex_cmp].
    + apply Z.compare_refl.
    + rewrite enc_nil. destruct h as [|h]; [cbn [length] in H2; lia|].
      cbn [length] in H2. rewrite enc_cons by lia.
      pose proof (enc_bound h q2). pose proof (pow2_pos (Z.of_nat h)). pose proof (pow2_pos (Z.of_nat h + 32)).
      apply Z.compare_lt_iff. destruct b2; cbn [Z.b2z]; lia.
  - destruct h as [|h]; [cbn [length] in H1; lia|]. cbn [length] in H1.
    destruct q2 as [|b2 q2]; cbn [lex_cmp].
    + rewrite enc_nil, enc_cons by lia.
      pose proof (enc_bound h q1). pose proof (pow2_pos (Z.of_nat h)). pose proof (pow2_pos (Z.of_nat h + 32)).
      apply Z.compare_gt_iff. destruct b1; cbn [Z.b2z]; lia.
    + cbn [length] in H2. rewrite !enc_cons by lia.
      pose proof (enc_bound h q1). pose proof (enc_bound h q2).
      pose proof (pow2_pos (Z.of_nat h)). pose proof (pow2_pos (Z.of_nat h + 32)).
      destruct b1, b2; cbn [Z.b2z bool_cmp].
      * rewrite Z.add_compare_mono_l. apply IH; lia.
      * apply Z.compare_gt_iff. lia.
      * apply Z.compare_lt_iff. lia.
      * rewrite Z.add_compare_mono_l. apply IH; lia.
Qed.

Lemma enc_lt_iff h q1 q2 : (h <= 32)%nat -> (length q1 <= h)%nat -> (length q2 <= h)%nat ->
  enc h q1 < enc h q2 <-> pre_lt q1 q2.
Proof.
  intros Hh H1 H2. unfold pre_lt. rewrite <- (enc_compare q1 h q2) by assumption.
  symmetry. apply Z.compare_lt_iff.
Qed.

Lemma bits_cmp_eq q1 q2 : bits_cmp q1 q2 = Eq <-> q1 = q2.
Proof. apply lex_cmp_eq. apply bool_cmp_eq. Qed.

Lemma enc_inj h q1 q2 : (h <= 32)%nat -> (length q1 <= h)%nat -> (length q2 <= h)%nat ->
  enc h q1 = enc h q2 -> q1 = q2.
Proof.
  intros Hh H1 H2 E. apply bits_cmp_eq. rewrite <- (enc_compare q1 h q2) by assumption.
  now apply Z.compare_eq_iff.
Qed.

(** a node sorts before all its proper descendants *)
Lemma pre_lt_descendant q b r : pre_lt q (q ++ b :: r).
Proof.
  unfold pre_lt, bits_cmp. induction q as [|c q IH]; cbn [app lex_cmp]; [reflexivity|].
  now rewrite bool_cmp_refl.
Qed.

(** the whole left subtree of a node sorts before its whole right subtree *)
Lemma pre_lt_left_right q r1 r2 : pre_lt (q ++ false :: r1) (q ++ true :: r2).
Proof.
  unfold pre_lt, bits_cmp. induction q as [|c q IH]; cbn [app lex_cmp bool_cmp]; [reflexivity|].
  now rewrite bool_cmp_refl.
Qed.

Lemma pre_ltb_iff q r : pre_ltb q r = true <-> pre_lt q r.
Proof. unfold pre_ltb, pre_lt. destruct (bits_cmp q r); split; congruence. Qed.

(** the boolean checkers of Spec/PathSpec.v accept exactly what the theorems state *)
Lemma order_ok_iff q1 q2 w1 w2 : order_ok q1 q2 w1 w2 = true <-> (w1 ?= w2) = bits_cmp q1 q2.
Proof. unfold order_ok. destruct (w1 ?= w2), (bits_cmp q1 q2); split; congruence. Qed.

Lemma fields_ok_model h q : (h <= 32)%nat -> (length q <= h)%nat ->
  let w := NewPath (valL h q) (Z.of_nat (length q)) (Z.of_nat h) in
  fields_ok (Z.of_nat h) q w (PathLen w) (PathHeight w) (PathBits w) (PathMask w) (PathStr w) = true.
Proof.
  intros Hh Hl w. unfold w. rewrite NewPath_enc by assumption. unfold fields_ok, zlen.
  rewrite PathLen_enc, PathBits_half, PathMask_half, PathStr_enc by assumption.
  rewrite !Z.eqb_refl. cbn [andb].
  destruct (list_eq_dec Z.eq_dec (node_str q) (node_str q)); [|congruence].
  destruct (Z.leb_spec 1 (Z.of_nat (length q))); [|reflexivity].
  rewrite PathHeight_enc by lia. now rewrite Z.eqb_refl.
Qed.
