(** Proofs for the C02 widening: [indexSelectU64] packs, for EVERY uint64 word, the eight cumulative byte
    popcounts [0x80 + popcount (w mod 2^(8(j+1)))].  The SWAR popcount is followed stage by stage on the
    little-endian byte list of the word ([Lib/BitsExtra_c02u.v]); what happens inside one byte is checked on
    all 256 byte values; the wrapping multiplication by 0x0101010101010101 is plain arithmetic. *)
From Coq Require Import ZArith List Lia Bool ZifyBool.
From Low Require Import Lib.MachInt Lib.Bits Lib.BitSeq Lib.BitsExtra_tree Lib.BitsExtra_idx5 Lib.BitsExtra_c02u
  Model.SelectU64 Spec.SelectU64Spec.
Import ListNotations.
Open Scope Z_scope.
Local Ltac Zify.zify_post_hook ::= Z.div_mod_to_equations.

(** * what the three SWAR steps do inside one byte *)
Definition sw_a (b : Z) : Z := b - Z.land (Z.shiftr b 1) 85.
Definition sw_b (x : Z) : Z := Z.land x 51 + Z.land (Z.shiftr x 2) 51.
Definition sw_c (x : Z) : Z := Z.land (x + Z.shiftr x 4) 15.

Definition nib_ok (x : Z) : Prop := 0 <= x mod 16 <= 4 /\ 0 <= x / 16 <= 4.

Lemma sw_a_byte b : byte b -> byte (sw_a b).
Proof.
  intros Hb. pose proof (byte_forall (fun b => (0 <=? sw_a b) && (sw_a b <? 256)) ltac:(vm_compute; reflexivity) b Hb) as E.
  cbv beta in E. unfold byte. change (2 ^ 8) with 256. lia.
Qed.

Lemma sw_ba_nib b : byte b -> nib_ok (sw_b (sw_a b)).
Proof.
  intros Hb.
  pose proof (byte_forall (fun b => let x := sw_b (sw_a b) in
      (0 <=? x mod 16) && (x mod 16 <=? 4) && (0 <=? x / 16) && (x / 16 <=? 4))
    ltac:(vm_compute; reflexivity) b Hb) as E.
  cbv beta zeta in E. unfold nib_ok.
  apply andb_prop in E. destruct E as [E E4]. apply andb_prop in E. destruct E as [E E3].
  apply andb_prop in E. destruct E as [E1 E2].
  apply Z.leb_le in E1, E2, E3, E4. auto.
Qed.

Lemma sw_cba_pop b : byte b -> sw_c (sw_b (sw_a b)) = popcount b.
Proof.
  intros Hb.
  pose proof (byte_forall (fun b => sw_c (sw_b (sw_a b)) =? popcount b) ltac:(vm_compute; reflexivity) b Hb) as E.
  now apply Z.eqb_eq in E.
Qed.

Lemma popcount_byte_le b : byte b -> 0 <= popcount b <= 8.
Proof.
  intros Hb. pose proof (byte_forall (fun b => (0 <=? popcount b) && (popcount b <=? 8)) ltac:(vm_compute; reflexivity) b Hb) as E.
  cbv beta in E. lia.
Qed.

Lemma nib_ok_byte x : nib_ok x -> byte x.
Proof. unfold nib_ok, byte. change (2 ^ 8) with 256. intros Hx. lia. Qed.

(** * the masks in Horner form *)
Lemma mask01_H : mask01 = H (repeat 85 8). Proof. vm_compute. reflexivity. Qed.
Lemma mask0011_H : mask0011 = H (repeat 51 8). Proof. vm_compute. reflexivity. Qed.
Lemma mask00001111_H : mask00001111 = H (repeat 15 8). Proof. vm_compute. reflexivity. Qed.
Lemma high_bits_H : high_bits = H (repeat 128 8). Proof. vm_compute. reflexivity. Qed.
Lemma ones_bytes_H : ones_bytes = H (repeat 1 8). Proof. vm_compute. reflexivity. Qed.

Lemma u64_H l : Forall byte l -> length l = 8%nat -> u64 (H l) = H l.
Proof. intros Hl Hn. apply u64_id. pose proof (H_range l Hl) as R. rewrite Hn in R. exact R. Qed.

(** * stage 1: [a := w - ((w >> 1) & mask01)] *)
Lemma stage1 l : Forall byte l -> length l = 8%nat ->
  u64 (H l - Z.land (Z.shiftr (H l) 1) mask01) = H (map sw_a l).
Proof.
  intros Hl Hn. rewrite mask01_H, <- Hn, H_shr_land by (assumption || (change (2 ^ (8 - 1)) with 128; lia)).
  rewrite <- (map_id l) at 1. rewrite H_map_sub. fold sw_a.
  change (fun b : Z => b - Z.land (Z.shiftr b 1) 85) with sw_a.
  apply u64_H; [|now rewrite map_length].
  apply Forall_map_byte; [apply sw_a_byte|exact Hl].
Qed.

(** * stage 2: [b := (a & mask0011) + ((a >> 2) & mask0011)] *)
Lemma stage2 l : Forall byte l -> length l = 8%nat -> Forall nib_ok (map sw_b l) ->
  u64 (Z.land (H l) mask0011 + Z.land (Z.shiftr (H l) 2) mask0011) = H (map sw_b l).
Proof.
  intros Hl Hn Hnib. rewrite mask0011_H, <- Hn.
  rewrite H_land by (assumption || lia).
  rewrite H_shr_land by (assumption || (change (2 ^ (8 - 2)) with 64; lia)).
  rewrite H_map_add. change (fun b : Z => Z.land b 51 + Z.land (Z.shiftr b 2) 51) with sw_b.
  apply u64_H; [|now rewrite map_length].
  eapply Forall_impl; [|exact Hnib]. apply nib_ok_byte.
Qed.

(** * stage 3: [c := (b + (b >> 4)) & mask00001111]: the shift is NOT masked before the addition; the nibbles of
      [b] are at most 4, so neither the nibble sums nor the neighbouring byte's low nibble carry *)
Lemma H_mod16 l : Forall nib_ok l -> 0 <= (H l) mod 16 <= 4.
Proof.
  intros Hl. destruct Hl as [|x l Hx _].
  - cbn. lia.
  - rewrite H_cons. replace (H l * 2 ^ 8 + x) with (x + (H l * 16) * 16) by (change (2 ^ 8) with 256; ring).
    rewrite Z.mod_add by lia. apply Hx.
Qed.

Lemma stage3_raw l : Forall nib_ok l ->
  Z.land (H l + Z.shiftr (H l) 4) (H (repeat 15 (length l))) = H (map sw_c l).
Proof.
  induction 1 as [|x l Hx Hl IH].
  - reflexivity.
  - cbn [length repeat map]. rewrite !H_cons, <- IH.
    pose proof (H_mod16 l Hl) as HY. set (Y := H l) in *. clearbody Y.
    set (R := H (repeat 15 (length l))). clearbody R.
    rewrite !Z.shiftr_div_pow2 by lia. change (2 ^ 4) with 16. change (2 ^ 8) with 256.
    destruct Hx as [Hx1 Hx2].
    replace (Y * 256 + x + (Y * 256 + x) / 16)
      with ((Y + Y / 16) * 2 ^ 8 + (x + x / 16 + 16 * (Y mod 16))) by (change (2 ^ 8) with 256; lia).
    change 256 with (2 ^ 8).
    rewrite land_halves by (change (2 ^ 8) with 256; lia).
    f_equal. unfold sw_c. rewrite Z.shiftr_div_pow2 by lia. change (2 ^ 4) with 16.
    change 15 with (Z.ones 4). rewrite !Z.land_ones by lia. change (2 ^ 4) with 16. lia.
Qed.

Lemma H_le_rep m l : 0 <= m -> Forall (fun x => 0 <= x <= m) l -> 0 <= H l <= H (repeat m (length l)).
Proof.
  intros Hm. induction 1 as [|x l Hx _ IH]; [cbn; lia|].
  cbn [length repeat]. rewrite !H_cons. lia.
Qed.

Lemma stage3 l : Forall nib_ok l -> length l = 8%nat ->
  Z.land (u64 (H l + Z.shiftr (H l) 4)) mask00001111 = H (map sw_c l).
Proof.
  intros Hl Hn. rewrite mask00001111_H, <- Hn, <- stage3_raw by exact Hl. f_equal.
  apply u64_id.
  assert (Hb : 0 <= H l <= H (repeat 68 (length l))).
  { apply H_le_rep; [lia|]. eapply Forall_impl; [|exact Hl]. unfold nib_ok. intros a Ha. lia. }
  rewrite Hn in Hb. change (H (repeat 68 8)) with 4919131752989213764 in Hb.
  rewrite Z.shiftr_div_pow2 by lia. change (2 ^ 4) with 16. change (2 ^ 64) with 18446744073709551616. lia.
Qed.

(** * stage 4: [c *= 0x0101010101010101] (wraps): byte [j] becomes the sum of the bytes [0..j] *)
Lemma mul_ones_bytes p0 p1 p2 p3 p4 p5 p6 p7 :
  0 <= p0 <= 8 -> 0 <= p1 <= 8 -> 0 <= p2 <= 8 -> 0 <= p3 <= 8 ->
  0 <= p4 <= 8 -> 0 <= p5 <= 8 -> 0 <= p6 <= 8 -> 0 <= p7 <= 8 ->
  u64 (H [p0; p1; p2; p3; p4; p5; p6; p7] * ones_bytes) = H (psum 0 [p0; p1; p2; p3; p4; p5; p6; p7]).
Proof.
  intros A0 A1 A2 A3 A4 A5 A6 A7. unfold u64, ones_bytes. cbn [H fold_right psum]. symmetry.
  apply Z.mod_unique with
    (q := (p1 + p2 + p3 + p4 + p5 + p6 + p7)
          + (p2 + p3 + p4 + p5 + p6 + p7) * 2 ^ 8
          + (p3 + p4 + p5 + p6 + p7) * 2 ^ 16
          + (p4 + p5 + p6 + p7) * 2 ^ 24
          + (p5 + p6 + p7) * 2 ^ 32
          + (p6 + p7) * 2 ^ 40
          + p7 * 2 ^ 48).
  - left. change (2 ^ 8) with 256. change (2 ^ 64) with 18446744073709551616. lia.
  - ring.
Qed.

(** * the cumulative byte popcounts of a word *)
Definition cums (w : Z) : list Z := psum 0 (map popcount (bytes_of 8 w)).

Lemma cums_length w : length (cums w) = 8%nat.
Proof. unfold cums. now rewrite psum_length, map_length, bytes_of_length. Qed.

Lemma cums_nth w (j : nat) : 0 <= w -> (j < 8)%nat ->
  nth j (cums w) 0 = popcount (w mod 2 ^ (8 * (Z.of_nat j + 1))).
Proof. intros Hw Hj. unfold cums. rewrite psum_popcount_bytes by assumption. lia. Qed.

Lemma cums_nth_le w (j : nat) : 0 <= w -> (j < 8)%nat -> 0 <= nth j (cums w) 0 <= 64.
Proof.
  intros Hw Hj. rewrite cums_nth by assumption. split; [apply popcount_nonneg|].
  apply Z.le_trans with (popcount (w mod 2 ^ (8 * (Z.of_nat j + 1)) mod 2 ^ 64)).
  - rewrite (Z.mod_small (w mod _)); [lia|].
    pose proof (Z.mod_pos_bound w (2 ^ (8 * (Z.of_nat j + 1))) ltac:(apply Z.pow_pos_nonneg; lia)).
    assert (2 ^ (8 * (Z.of_nat j + 1)) <= 2 ^ 64) by (apply Z.pow_le_mono_r; lia). lia.
  - apply popcount_le_64. apply Z.mod_pos_bound. lia.
Qed.

Lemma Forall_nth_lt {A} (P : A -> Prop) l d : (forall j, (j < length l)%nat -> P (nth j l d)) -> Forall P l.
Proof.
  intros Hn. apply Forall_forall. intros x Hx. destruct (In_nth l x d Hx) as (j & Hj & <-). now apply Hn.
Qed.

Lemma cums_bound w : 0 <= w -> Forall (fun c => 0 <= c <= 64) (cums w).
Proof.
  intros Hw. apply (Forall_nth_lt _ _ 0). rewrite cums_length. intros j Hj. now apply cums_nth_le.
Qed.

(** * the whole function *)
Theorem indexSelectU64_form w : 0 <= w < 2 ^ 64 ->
  indexSelectU64 w = H (map (Z.add 128) (cums w)).
Proof.
  intros Hw. unfold indexSelectU64, cums. cbv zeta.
  set (l := bytes_of 8 w).
  assert (Hl : Forall byte l) by apply bytes_of_byte.
  assert (Hn : length l = 8%nat) by apply bytes_of_length.
  rewrite <- (H_bytes_of 8 w) by exact Hw. fold l.
  rewrite stage1 by assumption.
  assert (Hl1 : Forall byte (map sw_a l)) by (apply Forall_map_byte; [apply sw_a_byte|exact Hl]).
  assert (Hnib : Forall nib_ok (map sw_b (map sw_a l))).
  { rewrite map_map. apply Forall_forall. intros x Hx. apply in_map_iff in Hx. destruct Hx as (b & <- & Hb).
    apply sw_ba_nib. rewrite Forall_forall in Hl. now apply Hl. }
  rewrite stage2 by (rewrite ?map_length; assumption).
  rewrite stage3 by (rewrite ?map_length; assumption).
  assert (E : map sw_c (map sw_b (map sw_a l)) = map popcount l).
  { rewrite !map_map. apply map_ext_in. intros b Hb. apply sw_cba_pop. rewrite Forall_forall in Hl. now apply Hl. }
  rewrite E.
  assert (Hp : Forall (fun p => 0 <= p <= 8) (map popcount l)).
  { apply Forall_forall. intros x Hx. apply in_map_iff in Hx. destruct Hx as (b & <- & Hb).
    apply popcount_byte_le. rewrite Forall_forall in Hl. now apply Hl. }
  assert (Hlen : length (map popcount l) = 8%nat) by now rewrite map_length.
  destruct (map popcount l) as [|p0 [|p1 [|p2 [|p3 [|p4 [|p5 [|p6 [|p7 [|? ?]]]]]]]]]; try discriminate Hlen.
  repeat match goal with H : Forall _ (_ :: _) |- _ => inversion H; clear H; subst end.
  rewrite mul_ones_bytes by assumption.
  set (ps := psum 0 [p0; p1; p2; p3; p4; p5; p6; p7]).
  assert (Hps : Forall (fun c => 0 <= c < 128) ps).
  { unfold ps. cbn [psum]. repeat constructor; lia. }
  rewrite high_bits_H. change (repeat 128 8) with (repeat 128 (length ps)).
  rewrite H_lor; [| lia |].
  - f_equal. apply map_ext_in. intros c Hc. rewrite Forall_forall in Hps. specialize (Hps c Hc).
    rewrite Z.lor_comm. change 128 with (1 * 2 ^ 7). rewrite lor_hi_lo by lia. reflexivity.
  - eapply Forall_impl; [|exact Hps]. intros c Hc. cbv beta in Hc. unfold byte. change (2 ^ 8) with 256. lia.
Qed.

Lemma index_bytes w : 0 <= w -> Forall byte (map (Z.add 128) (cums w)).
Proof.
  intros Hw. pose proof (cums_bound w Hw) as Hb. apply Forall_forall. intros x Hx.
  apply in_map_iff in Hx. destruct Hx as (c & <- & Hc). rewrite Forall_forall in Hb. specialize (Hb c Hc).
  unfold byte. change (2 ^ 8) with 256. lia.
Qed.

Theorem indexSelectU64_range w : 0 <= w < 2 ^ 64 -> 0 <= indexSelectU64 w < 2 ^ 64.
Proof.
  intros Hw. rewrite indexSelectU64_form by exact Hw.
  pose proof (H_range _ (index_bytes w ltac:(lia))) as R. now rewrite map_length, cums_length in R.
Qed.

(** byte field [j] = 0x80 + the number of 1-bits among the lowest [8(j+1)] bits *)
Theorem indexSelectU64_field w (j : nat) : 0 <= w < 2 ^ 64 -> (j < 8)%nat ->
  (indexSelectU64 w / 2 ^ (8 * Z.of_nat j)) mod 2 ^ 8 = spec_index_field w j.
Proof.
  intros Hw Hj. rewrite indexSelectU64_form by exact Hw.
  rewrite H_nth by (apply index_bytes; lia).
  rewrite (nth_indep _ 0 (128 + 0)) by (rewrite map_length, cums_length; exact Hj).
  rewrite map_nth, cums_nth by lia.
  unfold spec_index_field. rewrite rank1_bits64 by lia. do 3 f_equal. lia.
Qed.

Theorem indexSelectU64_spec w : 0 <= w < 2 ^ 64 -> indexSelectU64 w = spec_indexSelectU64 w.
Proof.
  intros Hw. rewrite indexSelectU64_form by exact Hw.
  assert (F : forall j, (j < 8)%nat -> spec_index_field w j = nth j (map (Z.add 128) (cums w)) 0).
  { intros j Hj. rewrite <- H_nth by (apply index_bytes; lia).
    rewrite <- indexSelectU64_form by exact Hw. symmetry. now apply indexSelectU64_field. }
  unfold spec_indexSelectU64. cbn [seq fold_right].
  rewrite !F by lia.
  pose proof (cums_length w) as Hlen.
  destruct (cums w) as [|c0 [|c1 [|c2 [|c3 [|c4 [|c5 [|c6 [|c7 [|? ?]]]]]]]]]; try discriminate Hlen.
  cbn [map nth H fold_right]. change (Z.of_nat 0) with 0. change (Z.of_nat 1) with 1. change (Z.of_nat 2) with 2.
  change (Z.of_nat 3) with 3. change (Z.of_nat 4) with 4. change (Z.of_nat 5) with 5. change (Z.of_nat 6) with 6.
  change (Z.of_nat 7) with 7. ring.
Qed.
