(** Proofs for C13: NextOne / PrevOne return the first / last 1-bit of the range. *)
From Coq Require Import ZArith List Lia Bool Sorted.
From Low Require Import Lib.MachInt Lib.Bits Lib.BitSeq Lib.BitsExtra_bm2 Model.BitmapNext Spec.NextSpec.
Import ListNotations.
Open Scope Z_scope.

Local Ltac dm := Z.div_mod_to_equations; lia.

(** * the specification, characterised by single bits *)
Section SpecChar.
Variable bm : list Z.
Let B (p : Z) : bool := bitz (flat bm) p.

Lemma in_ones_in i e p : In p (ones_in bm i e) <-> i <= p < e /\ 0 <= p /\ B p = true.
Proof.
  unfold ones_in. rewrite filter_In, ones_In_bitz. unfold in_rangeb, B.
  rewrite andb_true_iff, Z.leb_le, Z.ltb_lt. tauto.
Qed.

Lemma spec_NextOne_none i e :
  0 <= i -> (forall p, i <= p < e -> B p = false) -> spec_NextOne bm i e = -1.
Proof.
  intros Hi H. unfold spec_NextOne, ones_in. rewrite filter_none; [reflexivity|].
  intros q Hq. apply ones_In_bitz in Hq. destruct Hq as [Hq0 Hq1].
  unfold in_rangeb. destruct (Z.leb_spec i q), (Z.ltb_spec q e); try reflexivity.
  fold (B q) in Hq1. rewrite H in Hq1 by lia. discriminate.
Qed.

Lemma spec_NextOne_found i e r :
  0 <= i -> i <= r < e -> B r = true -> (forall p, i <= p < r -> B p = false) ->
  spec_NextOne bm i e = r.
Proof.
  intros Hi Hr Hb Hlow. unfold spec_NextOne, ones_in.
  apply hd_filter_first.
  - apply ones_sorted.
  - apply ones_In_bitz. split; [lia|exact Hb].
  - unfold in_rangeb. destruct (Z.leb_spec i r), (Z.ltb_spec r e); try reflexivity; lia.
  - intros q Hq Hlt. apply ones_In_bitz in Hq. destruct Hq as [Hq0 Hq1].
    unfold in_rangeb. destruct (Z.leb_spec i q); [|reflexivity].
    fold (B q) in Hq1. rewrite Hlow in Hq1 by lia. discriminate.
Qed.

Lemma spec_PrevOne_none i e :
  0 <= i -> (forall p, i <= p < e -> B p = false) -> spec_PrevOne bm i e = -1.
Proof.
  intros Hi H. unfold spec_PrevOne, ones_in. rewrite filter_none; [reflexivity|].
  intros q Hq. apply ones_In_bitz in Hq. destruct Hq as [Hq0 Hq1].
  unfold in_rangeb. destruct (Z.leb_spec i q), (Z.ltb_spec q e); try reflexivity.
  fold (B q) in Hq1. rewrite H in Hq1 by lia. discriminate.
Qed.

Lemma spec_PrevOne_found i e r :
  0 <= i -> i <= r < e -> B r = true -> (forall p, r < p < e -> B p = false) ->
  spec_PrevOne bm i e = r.
Proof.
  intros Hi Hr Hb Hhigh. unfold spec_PrevOne, ones_in.
  apply last_filter_last.
  - apply ones_sorted.
  - apply ones_In_bitz. split; [lia|exact Hb].
  - unfold in_rangeb. destruct (Z.leb_spec i r), (Z.ltb_spec r e); try reflexivity; lia.
  - intros q Hq Hlt. apply ones_In_bitz in Hq. destruct Hq as [Hq0 Hq1].
    unfold in_rangeb. destruct (Z.ltb_spec q e); [|now rewrite andb_false_r].
    fold (B q) in Hq1. rewrite Hhigh in Hq1 by lia. discriminate.
Qed.

(** * the bits of one word *)
Hypothesis Hok : words_ok bm.

Lemma word_bits (k : nat) :
  (k < length bm)%nat ->
  exists w, nthZ bm (Z.of_nat k) = Some w /\ 0 <= w < 2^64 /\
            forall j, 0 <= j < 64 -> B (64 * Z.of_nat k + j) = Z.testbit w j.
Proof.
  intros Hk. destruct (nth_error bm k) as [w|] eqn:E; [|apply nth_error_None in E; lia].
  exists w. split; [now rewrite nthZ_of_nat|]. split; [eapply words_ok_nth_error; eauto|].
  intros j Hj. unfold B. now apply bitz_flat.
Qed.

(** every position of word [k] in terms of the word *)
Lemma word_bits_pos (k : nat) w p :
  (forall j, 0 <= j < 64 -> B (64 * Z.of_nat k + j) = Z.testbit w j) ->
  64 * Z.of_nat k <= p < 64 * Z.of_nat k + 64 -> B p = Z.testbit w (p - 64 * Z.of_nat k).
Proof. intros H Hp. rewrite <- H by lia. f_equal. lia. Qed.

(** * NextOne *)
Lemma NextOne_loop_spec e : e <= 64 * zlen bm ->
  forall fuel (k : nat), (k <= length bm)%nat -> (length bm - k < fuel)%nat ->
  exists n, NextOne_loop fuel bm (64 * Z.of_nat k) e = Some n /\
    ((n = -1 /\ forall p, 64 * Z.of_nat k <= p < e -> B p = false) \/
     (64 * Z.of_nat k <= n /\ B n = true /\ forall p, 64 * Z.of_nat k <= p < n -> B p = false)).
Proof.
  intros He. unfold zlen in He. induction fuel as [|fuel IH]; intros k Hk Hf; [lia|].
  cbn [NextOne_loop]. destruct (Z.ltb_spec (64 * Z.of_nat k) e) as [Hlt|Hge].
  2:{ exists (-1). split; [reflexivity|]. left. split; [reflexivity|]. intros; lia. }
  assert (Hkl : (k < length bm)%nat) by lia.
  destruct (word_bits k Hkl) as (w & Hw & Hwr & Hbits).
  rewrite shiftr6. replace (64 * Z.of_nat k / 64) with (Z.of_nat k) by dm. rewrite Hw.
  destruct (Z.eqb_spec w 0) as [Hz|Hnz].
  - destruct (IH (S k) ltac:(lia) ltac:(lia)) as (n & Hn & Hpost).
    replace (64 * Z.of_nat k + 64) with (64 * Z.of_nat (S k)) by lia.
    exists n. split; [exact Hn|].
    assert (Hzero : forall p, 64 * Z.of_nat k <= p < 64 * Z.of_nat (S k) -> B p = false).
    { intros p Hp. rewrite (word_bits_pos k w p Hbits) by lia. now apply zero_bits. }
    destruct Hpost as [[-> Hnone]|(Hle & Hb & Hlow)].
    + left. split; [reflexivity|]. intros p Hp.
      destruct (Z.lt_ge_cases p (64 * Z.of_nat (S k))); [apply Hzero|apply Hnone]; lia.
    + right. split; [lia|]. split; [exact Hb|]. intros p Hp.
      destruct (Z.lt_ge_cases p (64 * Z.of_nat (S k))); [apply Hzero|apply Hlow]; lia.
  - destruct (tz_spec 64 w ltac:(lia)) as (Ht0 & Ht1 & Ht2).
    pose proof (tz_lt 64 w 64 ltac:(lia) ltac:(lia)) as Ht3.
    exists (64 * Z.of_nat k + tz64 w). split; [reflexivity|]. right. unfold tz64.
    split; [lia|]. split.
    + rewrite Hbits by lia. exact Ht1.
    + intros p Hp. rewrite (word_bits_pos k w p Hbits) by lia. apply Ht2. lia.
Qed.

Theorem NextOne_exact i e :
  0 <= i <= e -> e <= 64 * zlen bm -> i < 64 * zlen bm ->
  NextOne bm i e = Some (spec_NextOne bm i e).
Proof.
  intros Hie He Hi. pose proof He as He'. unfold zlen in He, Hi.
  set (k := Z.to_nat (i / 64)).
  assert (Hk : Z.of_nat k = i / 64) by (subst k; dm).
  assert (Hkl : (k < length bm)%nat) by (subst k; dm).
  destruct (word_bits k Hkl) as (w & Hw & Hwr & Hbits).
  unfold NextOne. rewrite shiftr6, land63, <- Hk, Hw.
  set (j := i mod 64). assert (Hj : 0 <= j < 64) by (subst j; dm).
  assert (Hij : i = 64 * Z.of_nat k + j) by (subst j; dm).
  assert (Hmask : forall t, 0 <= t -> Z.testbit (Z.land w (RMask j)) t = Z.testbit w t && ((j <=? t) && (t <? 64))).
  { intros t Ht. apply testbit_land_RMask; lia. }
  destruct (Z.eqb_spec (Z.land w (RMask j)) 0) as [Hz|Hnz].
  - (* nothing at or above bit j of the first word: scan *)
    assert (Hzero : forall p, i <= p < 64 * Z.of_nat k + 64 -> B p = false).
    { intros p Hp. rewrite (word_bits_pos k w p Hbits) by lia.
      pose proof (zero_bits _ Hz (p - 64 * Z.of_nat k)) as H0. rewrite Hmask in H0 by lia.
      destruct (Z.leb_spec j (p - 64 * Z.of_nat k)), (Z.ltb_spec (p - 64 * Z.of_nat k) 64); try lia.
      now rewrite andb_true_r in H0. }
    rewrite land_m64.
    set (k' := Z.to_nat ((i + 63) / 64)).
    assert (Hk' : Z.of_nat k' = (i + 63) / 64) by (subst k'; dm).
    assert (Hk'r : Z.of_nat k <= Z.of_nat k' <= Z.of_nat k + 1 /\ i <= 64 * Z.of_nat k') by dm.
    rewrite <- Hk'.
    destruct (NextOne_loop_spec e He' (S (length bm)) k' ltac:(lia) ltac:(lia)) as (n & Hn & Hpost).
    rewrite Hn. f_equal.
    destruct Hpost as [[-> Hnone]|(Hle & Hb & Hlow)].
    + destruct (Z.geb_spec (-1) e); [lia|]. symmetry. apply spec_NextOne_none; [lia|].
      intros p Hp. destruct (Z.lt_ge_cases p (64 * Z.of_nat k')); [apply Hzero|apply Hnone]; lia.
    + assert (Hall : forall p, i <= p < n -> B p = false).
      { intros p Hp. destruct (Z.lt_ge_cases p (64 * Z.of_nat k')); [apply Hzero|apply Hlow]; lia. }
      destruct (Z.geb_spec n e); symmetry.
      * apply spec_NextOne_none; [lia|]. intros p Hp. apply Hall. lia.
      * apply spec_NextOne_found; try lia; assumption.
  - (* a 1-bit at or above bit j of the first word *)
    assert (Hpos : 0 < Z.land w (RMask j)).
    { assert (0 <= Z.land w (RMask j)) by (apply Z.land_nonneg; lia). lia. }
    destruct (tz_spec 64 _ Hpos) as (Ht0 & Ht1 & Ht2).
    set (t := tz64 (Z.land w (RMask j))) in *. fold t in Ht0, Ht1, Ht2. change (tz 64 _) with t in *.
    rewrite Hmask in Ht1 by lia.
    apply andb_true_iff in Ht1. destruct Ht1 as [Hwt Hrng].
    apply andb_true_iff in Hrng. destruct Hrng as [Hjt Ht64].
    apply Z.leb_le in Hjt. apply Z.ltb_lt in Ht64.
    rewrite shiftl6. f_equal.
    assert (Hb : B (64 * Z.of_nat k + t) = true) by (rewrite Hbits by lia; exact Hwt).
    assert (Hall : forall p, i <= p < 64 * Z.of_nat k + t -> B p = false).
    { intros p Hp. rewrite (word_bits_pos k w p Hbits) by lia.
      pose proof (Ht2 (p - 64 * Z.of_nat k) ltac:(lia)) as H0. rewrite Hmask in H0 by lia.
      destruct (Z.leb_spec j (p - 64 * Z.of_nat k)), (Z.ltb_spec (p - 64 * Z.of_nat k) 64); try lia.
      now rewrite andb_true_r in H0. }
    destruct (Z.geb_spec (64 * Z.of_nat k + t) e); symmetry.
    + apply spec_NextOne_none; [lia|]. intros p Hp. apply Hall. lia.
    + apply spec_NextOne_found; try lia; assumption.
Qed.

(** * PrevOne *)
Lemma PrevOne_loop_spec i : 0 <= i ->
  forall fuel (k : nat), (k <= length bm)%nat -> (k < fuel)%nat ->
  exists n, PrevOne_loop fuel bm (64 * Z.of_nat k - 1) i = Some n /\
    ((n = -1 /\ forall p, i <= p < 64 * Z.of_nat k -> B p = false) \/
     (0 <= n < 64 * Z.of_nat k /\ B n = true /\ forall p, n < p < 64 * Z.of_nat k -> B p = false)).
Proof.
  intros Hi. induction fuel as [|fuel IH]; intros k Hk Hf; [lia|].
  cbn [PrevOne_loop]. destruct (Z.geb_spec (64 * Z.of_nat k - 1) i) as [Hge|Hlt].
  2:{ exists (-1). split; [reflexivity|]. left. split; [reflexivity|]. intros; lia. }
  destruct k as [|k]; [lia|].
  assert (Hkl : (k < length bm)%nat) by lia.
  destruct (word_bits k Hkl) as (w & Hw & Hwr & Hbits).
  rewrite shiftr6. replace ((64 * Z.of_nat (S k) - 1) / 64) with (Z.of_nat k) by dm. rewrite Hw.
  destruct (Z.eqb_spec w 0) as [Hz|Hnz].
  - destruct (IH k ltac:(lia) ltac:(lia)) as (n & Hn & Hpost).
    replace (64 * Z.of_nat (S k) - 1 - 64) with (64 * Z.of_nat k - 1) by lia.
    exists n. split; [exact Hn|].
    assert (Hzero : forall p, 64 * Z.of_nat k <= p < 64 * Z.of_nat (S k) -> B p = false).
    { intros p Hp. rewrite (word_bits_pos k w p Hbits) by lia. now apply zero_bits. }
    destruct Hpost as [[-> Hnone]|(Hle & Hb & Hhigh)].
    + left. split; [reflexivity|]. intros p Hp.
      destruct (Z.lt_ge_cases p (64 * Z.of_nat k)); [apply Hnone|apply Hzero]; lia.
    + right. split; [lia|]. split; [exact Hb|]. intros p Hp.
      destruct (Z.lt_ge_cases p (64 * Z.of_nat k)); [apply Hhigh|apply Hzero]; lia.
  - destruct (bitlen_spec w ltac:(lia)) as (Hb1 & Hb2).
    pose proof (bitlen_pos w ltac:(lia)) as Hb3.
    pose proof (bitlen_le w 64 ltac:(lia) ltac:(lia)) as Hb4.
    exists (64 * Z.of_nat k + (bitlen w - 1)). split; [f_equal; unfold lz64; lia|]. right.
    split; [lia|]. split.
    + rewrite Hbits by lia. exact Hb1.
    + intros p Hp. rewrite (word_bits_pos k w p Hbits) by lia. apply Hb2. lia.
Qed.

Theorem PrevOne_exact i e :
  0 <= i <= e -> e <= 64 * zlen bm -> i < 64 * zlen bm -> 1 <= e ->
  PrevOne bm i e = Some (spec_PrevOne bm i e).
Proof.
  intros Hie He Hi He1. unfold zlen in He, Hi.
  set (k := Z.to_nat ((e - 1) / 64)).
  assert (Hk : Z.of_nat k = (e - 1) / 64) by (subst k; dm).
  assert (Hkl : (k < length bm)%nat) by (subst k; dm).
  destruct (word_bits k Hkl) as (w & Hw & Hwr & Hbits).
  unfold PrevOne. rewrite shiftr6, land63, <- Hk, Hw.
  set (j := (e - 1) mod 64). assert (Hj : 0 <= j < 64) by (subst j; dm).
  assert (Hej : e - 1 = 64 * Z.of_nat k + j) by (subst j; dm).
  assert (Hmask : forall t, 0 <= t -> Z.testbit (Z.land w (MaskUpto j)) t = Z.testbit w t && (t <=? j)).
  { intros t Ht. apply testbit_land_MaskUpto; lia. }
  destruct (Z.eqb_spec (Z.land w (MaskUpto j)) 0) as [Hz|Hnz].
  - assert (Hzero : forall p, 64 * Z.of_nat k <= p < e -> B p = false).
    { intros p Hp. rewrite (word_bits_pos k w p Hbits) by lia.
      pose proof (zero_bits _ Hz (p - 64 * Z.of_nat k)) as H0. rewrite Hmask in H0 by lia.
      destruct (Z.leb_spec (p - 64 * Z.of_nat k) j); try lia.
      now rewrite andb_true_r in H0. }
    rewrite land_m64. rewrite <- Hk.
    destruct (PrevOne_loop_spec i ltac:(lia) (S (length bm)) k ltac:(lia) ltac:(lia)) as (n & Hn & Hpost).
    rewrite Hn. f_equal.
    destruct Hpost as [[-> Hnone]|(Hle & Hb & Hhigh)].
    + destruct (Z.ltb_spec (-1) i); [|lia]. symmetry. apply spec_PrevOne_none; [lia|].
      intros p Hp. destruct (Z.lt_ge_cases p (64 * Z.of_nat k)); [apply Hnone|apply Hzero]; lia.
    + assert (Hall : forall p, n < p < e -> B p = false).
      { intros p Hp. destruct (Z.lt_ge_cases p (64 * Z.of_nat k)); [apply Hhigh|apply Hzero]; lia. }
      destruct (Z.ltb_spec n i); symmetry.
      * apply spec_PrevOne_none; [lia|]. intros p Hp. apply Hall. lia.
      * apply spec_PrevOne_found; try lia; assumption.
  - assert (Hpos : 0 < Z.land w (MaskUpto j)).
    { assert (0 <= Z.land w (MaskUpto j)) by (apply Z.land_nonneg; lia). lia. }
    destruct (bitlen_spec _ Hpos) as (Hb1 & Hb2).
    pose proof (bitlen_pos _ Hpos) as Hb3.
    set (t := bitlen (Z.land w (MaskUpto j)) - 1) in *.
    rewrite Hmask in Hb1 by lia.
    apply andb_true_iff in Hb1. destruct Hb1 as [Hwt Htj]. apply Z.leb_le in Htj.
    rewrite shiftl6. f_equal.
    replace (64 * Z.of_nat k + 63 - lz64 (Z.land w (MaskUpto j))) with (64 * Z.of_nat k + t)
      by (unfold lz64; subst t; lia).
    assert (Hb : B (64 * Z.of_nat k + t) = true) by (rewrite Hbits by lia; exact Hwt).
    assert (Hall : forall p, 64 * Z.of_nat k + t < p < e -> B p = false).
    { intros p Hp. rewrite (word_bits_pos k w p Hbits) by lia.
      pose proof (Hb2 (p - 64 * Z.of_nat k) ltac:(lia)) as H0. rewrite Hmask in H0 by lia.
      destruct (Z.leb_spec (p - 64 * Z.of_nat k) j); try lia.
      now rewrite andb_true_r in H0. }
    destruct (Z.ltb_spec (64 * Z.of_nat k + t) i); symmetry.
    + apply spec_PrevOne_none; [lia|]. intros p Hp. apply Hall. lia.
    + apply spec_PrevOne_found; try lia; assumption.
Qed.

End SpecChar.
