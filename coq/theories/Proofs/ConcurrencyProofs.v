(** C19 - schedule independence of read-only operations (see Spec/Concurrency.v). *)
From Coq Require Import List Arith Lia.
From Low Require Import Spec.Concurrency.
Import ListNotations.

Section ConcProofs.
  Variables mem res : Type.
  Notation op := (op mem res).
  Notation thread := (thread mem res).
  Notation tstate := (tstate mem res).

  (** what an operation returns on memory [m] *)
  Definition res_on (m : mem) (o : op) : res := snd (o m).

  Lemma run_alone_ro : forall (t : thread) m, Forall read_only t ->
    run_alone t m = (m, map (res_on m) t).
  Proof.
    induction t as [|o t IH]; intros m H; simpl; [reflexivity|].
    inversion H as [|? ? Ho Ht]; subst.
    unfold res_on at 1. pose proof (Ho m) as E.
    destruct (o m) as [m1 r]. simpl in E. subst m1.
    rewrite (IH m Ht). reflexivity.
  Qed.

  Lemma run_seq_ro : forall (ts : list thread) m, Forall (Forall read_only) ts ->
    run_seq ts m = (m, map (fun t : thread => map (res_on m) t) ts).
  Proof.
    induction ts as [|t ts IH]; intros m H; simpl; [reflexivity|].
    inversion H as [|? ? Ht Hts]; subst.
    rewrite (run_alone_ro t m Ht), (IH m Hts). reflexivity.
  Qed.

  (** a thread state after [c] more of its operations have run on the (unchanging) memory [m] *)
  Definition advance (m : mem) (c : nat) (st : tstate) : tstate :=
    (skipn c (fst st), snd st ++ map (res_on m) (firstn c (fst st))).

  Definition ro_state (st : tstate) : Prop := Forall read_only (fst st).

  Lemma advance_0 : forall m st, advance m 0 st = st.
  Proof. intros m [t out]. unfold advance. simpl. rewrite app_nil_r. reflexivity. Qed.

  Lemma advance_S : forall m c st, advance m c (advance m 1 st) = advance m (S c) st.
  Proof.
    intros m c [t out]. unfold advance. simpl fst. simpl snd.
    destruct t as [|o t].
    - simpl. rewrite skipn_nil, firstn_nil. simpl. rewrite !app_nil_r. reflexivity.
    - simpl. rewrite <- app_assoc. reflexivity.
  Qed.

  Lemma ro_state_advance : forall m c st, ro_state st -> ro_state (advance m c st).
  Proof.
    intros m c [t out] H. unfold ro_state, advance in *. simpl in *.
    rewrite <- (firstn_skipn c t) in H. apply Forall_app in H. tauto.
  Qed.

  Lemma step_at_ro : forall (sts : list tstate) j m, Forall ro_state sts ->
    fst (step_at j m sts) = m /\
    forall i, nth_error (snd (step_at j m sts)) i =
      if Nat.eqb i j then option_map (advance m 1) (nth_error sts i) else nth_error sts i.
  Proof.
    induction sts as [|st sts IH]; intros j m H.
    - simpl. split; [reflexivity|]. intros i. destruct (Nat.eqb i j); destruct i; reflexivity.
    - inversion H as [|? ? Hst Hsts]; subst. destruct j as [|j]; simpl.
      + destruct st as [[|o rest] out]; simpl.
        * split; [reflexivity|]. intros [|i]; simpl; [|reflexivity].
          unfold advance. simpl. rewrite app_nil_r. reflexivity.
        * unfold ro_state in Hst. simpl in Hst. inversion Hst as [|? ? Ho _]; subst.
          pose proof (Ho m) as E. destruct (o m) as [m1 r] eqn:Eo. simpl in E. subst m1. simpl.
          split; [reflexivity|]. intros [|i]; simpl; [|reflexivity].
          unfold advance, res_on. simpl. rewrite Eo. reflexivity.
      + destruct (IH j m Hsts) as [Hm Hn].
        destruct (step_at j m sts) as [m1 ts1]. simpl in *. split; [exact Hm|].
        intros [|i]; simpl; [reflexivity|]. apply Hn.
  Qed.

  Lemma step_at_ro_states : forall (sts : list tstate) j m, Forall ro_state sts ->
    Forall ro_state (snd (step_at j m sts)).
  Proof.
    induction sts as [|st sts IH]; intros j m H; simpl; [constructor|].
    inversion H as [|? ? Hst Hsts]; subst. destruct j as [|j].
    - destruct st as [[|o rest] out]; simpl.
      + constructor; assumption.
      + destruct (o m) as [m1 r]. simpl. constructor; [|assumption].
        unfold ro_state in *. simpl in *. inversion Hst; assumption.
    - specialize (IH j m Hsts). destruct (step_at j m sts) as [m1 ts1]. simpl in *.
      constructor; assumption.
  Qed.

  Lemma run_sched_ro : forall s (sts : list tstate) m, Forall ro_state sts ->
    fst (run_sched s (m, sts)) = m /\
    forall i, nth_error (snd (run_sched s (m, sts))) i =
              option_map (advance m (count_occ Nat.eq_dec s i)) (nth_error sts i).
  Proof.
    induction s as [|j s IH]; intros sts m H.
    - simpl. split; [reflexivity|]. intros i. destruct (nth_error sts i); simpl; [|reflexivity].
      rewrite advance_0. reflexivity.
    - simpl run_sched. simpl fst. simpl snd.
      destruct (step_at_ro sts j m H) as [Hm Hn].
      pose proof (step_at_ro_states sts j m H) as Hro.
      destruct (step_at j m sts) as [m1 sts1]. simpl in Hm, Hn, Hro. subst m1.
      destruct (IH sts1 m Hro) as [Hm2 Hn2]. split; [exact Hm2|].
      intros i. rewrite Hn2, Hn.
      destruct (Nat.eqb_spec i j) as [->|Hne].
      + rewrite count_occ_cons_eq by reflexivity.
        destruct (nth_error sts j); simpl; [|reflexivity]. rewrite advance_S. reflexivity.
      + rewrite count_occ_cons_neq by (intro; apply Hne; symmetry; assumption). reflexivity.
  Qed.

  Lemma nth_error_map' : forall {A B} (f : A -> B) l i,
    nth_error (map f l) i = option_map f (nth_error l i).
  Proof. induction l as [|x l IH]; intros [|i]; simpl; try reflexivity. apply IH. Qed.

  Lemma firstn_map' : forall {A B} (f : A -> B) n l, firstn n (map f l) = map f (firstn n l).
  Proof. induction n as [|n IH]; intros [|x l]; simpl; try reflexivity. rewrite IH. reflexivity. Qed.

  Lemma nth_error_ext' : forall {A} (l l' : list A),
    (forall i, nth_error l i = nth_error l' i) -> l = l'.
  Proof.
    induction l as [|x l IH]; intros [|y l'] H; try reflexivity.
    - specialize (H 0). discriminate.
    - specialize (H 0). discriminate.
    - pose proof (H 0) as H0. simpl in H0. inversion H0; subst. f_equal.
      apply IH. intros i. apply (H (S i)).
  Qed.

  Lemma Forall_nth_error : forall {A} (P : A -> Prop) l i x, Forall P l -> nth_error l i = Some x -> P x.
  Proof. intros A P l i x H E. rewrite Forall_forall in H. apply H. eapply nth_error_In; eassumption. Qed.

  (** MAIN THEOREM.  If every operation of every thread is read-only then, for EVERY schedule, the memory
      is unchanged and each thread has obtained exactly the first [k] results of its run alone on the
      initial memory, [k] = the number of steps the schedule gave it. *)
  Theorem schedule_independent : forall (ts : list thread) (m : mem) (s : list nat),
    Forall (Forall read_only) ts ->
    fst (run_sched s (init_config m ts)) = m /\
    forall i t, nth_error ts i = Some t ->
      nth_error (results (run_sched s (init_config m ts))) i =
        Some (firstn (count_occ Nat.eq_dec s i) (snd (run_alone t m))).
  Proof.
    intros ts m s H. unfold init_config.
    assert (Hro : Forall ro_state (map (fun t : thread => (t, @nil res)) ts)).
    { rewrite Forall_map. unfold ro_state. simpl. exact H. }
    destruct (run_sched_ro s _ m Hro) as [Hm Hn]. split; [exact Hm|].
    intros i t Hi. unfold results. rewrite nth_error_map', Hn, nth_error_map', Hi. simpl.
    unfold advance. simpl. rewrite (run_alone_ro t m (Forall_nth_error _ _ _ _ H Hi)). simpl.
    rewrite firstn_map'. reflexivity.
  Qed.

  (** a schedule that lets every thread finish returns, for every thread, the results of its run alone:
      the results of sequential execution *)
  Theorem complete_schedule_sequential : forall (ts : list thread) (m : mem) (s : list nat),
    Forall (Forall read_only) ts -> complete s ts ->
    fst (run_sched s (init_config m ts)) = m /\
    results (run_sched s (init_config m ts)) = snd (run_seq ts m).
  Proof.
    intros ts m s H Hc. destruct (schedule_independent ts m s H) as [Hm Hn]. split; [exact Hm|].
    rewrite (run_seq_ro ts m H). simpl.
    apply nth_error_ext'. intros i. rewrite nth_error_map'.
    destruct (nth_error ts i) as [t|] eqn:Hi; simpl.
    - rewrite (Hn i t Hi), (run_alone_ro t m (Forall_nth_error _ _ _ _ H Hi)). simpl.
      rewrite firstn_all2; [reflexivity|]. rewrite map_length. apply (Hc i t Hi).
    - apply nth_error_None. apply nth_error_None in Hi.
      unfold results. rewrite map_length.
      destruct (run_sched_ro s (map (fun t : thread => (t, @nil res)) ts) m) as [_ Hn2].
      { rewrite Forall_map. exact H. }
      unfold init_config.
      destruct (le_lt_dec (length (snd (run_sched s (m, map (fun t : thread => (t, @nil res)) ts)))) i) as [Hle|Hlt]; [exact Hle|].
      exfalso. apply nth_error_Some in Hlt. apply Hlt. rewrite Hn2, nth_error_map'.
      apply nth_error_None in Hi. rewrite Hi. reflexivity.
  Qed.

  (** any two complete schedules agree (with each other and with sequential execution) *)
  Corollary complete_schedules_agree : forall (ts : list thread) (m : mem) (s1 s2 : list nat),
    Forall (Forall read_only) ts -> complete s1 ts -> complete s2 ts ->
    results (run_sched s1 (init_config m ts)) = results (run_sched s2 (init_config m ts)).
  Proof.
    intros ts m s1 s2 H H1 H2.
    rewrite (proj2 (complete_schedule_sequential ts m s1 H H1)).
    rewrite (proj2 (complete_schedule_sequential ts m s2 H H2)). reflexivity.
  Qed.

  Lemma pure_op_read_only : forall f : mem -> res, read_only (pure_op f).
  Proof. intros f m. reflexivity. Qed.

  (** INSTANCE: threads made of Gallina functions of the memory - the shape of every model function of
      this development: the arguments and tables are the memory, the function returns a value.  For
      every pool of such threads, every schedule leaves the memory alone and gives every thread the
      values the functions have on the initial memory. *)
  Theorem pure_threads_schedule_independent :
    forall (fs : list (list (mem -> res))) (m : mem) (s : list nat),
    let ts := map (map pure_op) fs in
    fst (run_sched s (init_config m ts)) = m /\
    forall i f, nth_error fs i = Some f ->
      nth_error (results (run_sched s (init_config m ts))) i =
        Some (firstn (count_occ Nat.eq_dec s i) (map (fun g => g m) f)).
  Proof.
    intros fs m s ts.
    assert (H : Forall (Forall read_only) ts).
    { unfold ts. rewrite Forall_map. apply Forall_forall. intros f _. rewrite Forall_map.
      apply Forall_forall. intros g _. apply pure_op_read_only. }
    destruct (schedule_independent ts m s H) as [Hm Hn]. split; [exact Hm|].
    intros i f Hi.
    assert (Ht : nth_error ts i = Some (map pure_op f)).
    { unfold ts. rewrite nth_error_map', Hi. reflexivity. }
    rewrite (Hn i _ Ht). do 2 f_equal.
    rewrite run_alone_ro.
    - simpl. rewrite map_map. reflexivity.
    - rewrite Forall_map. apply Forall_forall. intros g _. apply pure_op_read_only.
  Qed.
End ConcProofs.

(** determinism in the arguments and tables: read-only operations whose results depend only on the
    locations in [R] return the same results, under every schedule, from any two memories that agree on [R] *)
Section FootprintProofs.
  Variables loc val res : Type.
  Notation lmem := (loc -> val).

  Theorem results_depend_only_on_footprint :
    forall (R : loc -> Prop) (ts : list (thread lmem res)) (m m' : lmem) (s : list nat),
    Forall (Forall read_only) ts ->
    Forall (Forall (depends_only_on R)) ts ->
    agree_on R m m' ->
    results (run_sched s (init_config m ts)) = results (run_sched s (init_config m' ts)).
  Proof.
    intros R ts m m' s Hro Hdep Hag.
    destruct (schedule_independent _ _ ts m s Hro) as [_ Hn].
    destruct (schedule_independent _ _ ts m' s Hro) as [_ Hn'].
    apply nth_error_ext'. intros i.
    destruct (nth_error ts i) as [t|] eqn:Hi.
    - rewrite (Hn i t Hi), (Hn' i t Hi). do 2 f_equal.
      rewrite (run_alone_ro _ _ t m), (run_alone_ro _ _ t m')
        by (eapply Forall_nth_error; eassumption). simpl.
      apply map_ext_in. intros o Ho. unfold res_on.
      assert (Hd : Forall (depends_only_on R) t) by (eapply Forall_nth_error; eassumption).
      rewrite Forall_forall in Hd. apply (Hd o Ho m m' Hag).
    - (* no such thread: both result lists are too short *)
      assert (L : forall mm, nth_error (results (run_sched s (init_config mm ts))) i = None).
      { intros mm. unfold results, init_config. rewrite nth_error_map'.
        destruct (run_sched_ro _ _ s (map (fun t : thread lmem res => (t, @nil res)) ts) mm) as [_ Hn2].
        { rewrite Forall_map. exact Hro. }
        rewrite Hn2, nth_error_map', Hi. reflexivity. }
      rewrite (L m), (L m'). reflexivity.
  Qed.
End FootprintProofs.
