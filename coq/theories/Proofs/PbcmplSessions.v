(** The session / bufio operations of C06 and C07 at the level of the protocol values:
    the value computed from the model is the value computed from the specification. *)
From Coq Require Import ZArith List Bool Lia.
From Low Require Import Lib.BitSeq Lib.Bytes Lib.Val
  Model.Pbcmpl Model.PbcmplWalk Spec.PbcmplSpec Spec.PbcmplWalkSpec
  Run.PbcmplOps Run.PbcmplWalkOps Run.PbcmplSessionOps Run.C06
  Proofs.PbcmplIO Proofs.PbcmplHeader Proofs.PbcmplProofs Proofs.PbcmplMarshal
  Proofs.PbcmplFrames Proofs.PbcmplStream Proofs.PbcmplHistory Proofs.PbcmplWalk Proofs.PbcmplOpsC06.
Import ListNotations.
Open Scope Z_scope.

Lemma cut_wire_bytes cut w : bytes_ok w -> bytes_ok (cut_wire cut w).
Proof. intros. unfold cut_wire. destruct (cut <? 0); [assumption|apply bytes_ok_firstn; assumption]. Qed.

Lemma cut_wire_len cut w : zlen (cut_wire cut w) <= zlen w.
Proof.
  unfold cut_wire. destruct (Z.ltb_spec cut 0); [lia|]. rewrite zlen_firstn by lia. lia.
Qed.

(** one connection of pbcmpl.Roundtrip/session: cut or not, it reports what the
    specification says for the bytes that were delivered; nothing depends on the
    connections before it (the model has no state to carry over) *)
Theorem conn_model_spec kind c :
  kind = 0 \/ kind = 1 ->
  let '(ms, pat, wl, cut) := c in
  Forall msg_wf ms -> all_pos pat = true -> zlen (wire_of (k_enc kind) ms) < 2 ^ 63 ->
  conn_model kind c
    = v_stream_spec kind EEOF (cut_wire cut (wire_of (k_enc kind) ms)) (term_of 0 wl).
Proof.
  intros Hkind. destruct c as [[[ms pat] wl] cut]. intros Hwf Hpat Hlen.
  unfold conn_model. rewrite (model_wire_wf kind Hkind ms Hwf).
  apply v_stream_model_spec; try assumption.
  - apply cut_wire_bytes. apply (wire_bytes kind); assumption.
  - pose proof (cut_wire_len cut (wire_of (k_enc kind) ms)). lia.
Qed.

(** pbcmpl.Unmarshal/bufio *)
Theorem v_bufstream_model_spec kind s pat t :
  bytes_ok s -> all_pos pat = true -> zlen s < 2 ^ 63 ->
  v_bufstream_model kind (chunks_of pat s, t) = v_bufstream_spec kind EEOF s t.
Proof.
  intros Hb Hpat Hlen. destruct (chunks_of_ok pat s Hpat) as [Hc Hok].
  destruct (c_Stream_spec kind (chunks_of pat s) t Hok) as (steps & cs' & HC & Hok' & HS).
  { rewrite Hc. exact Hb. } { rewrite Hc. exact Hlen. }
  unfold v_bufstream_model, v_bufstream_spec. rewrite HC. rewrite Hc in HS. rewrite HS. reflexivity.
Qed.

(** pbcmpl.Walk/bufio: the steps of the walk and the headers held until the end *)
Theorem walk_bufio_spec kind ms pat :
  kind = 0 \/ kind = 1 ->
  Forall msg_wf ms -> forallb (walk_body_ok kind) ms = true -> all_pos pat = true ->
  zlen (wire_of (k_enc kind) ms) < 2 ^ 63 ->
  match model_wire kind ms with
  | None => VPanic
  | Some wire =>
      match c_Walk (chunks_of pat wire, term_of 0 false) with
      | None => VPanic
      | Some (steps, _) => v_walkheld steps
      end
  end = v_walkheld (frames_walk (k_enc kind) ms).
Proof.
  intros Hkind Hwf Hbody Hpat Hlen. rewrite (model_wire_wf kind Hkind ms Hwf).
  destruct (chunks_of_ok pat (wire_of (k_enc kind) ms) Hpat) as [Hc Hok].
  rewrite (c_Walk_frames (k_enc kind) (term_of 0 false) eq_refl ms _); try assumption.
  - reflexivity.
  - apply Forall_forall. intros m Hin. rewrite Forall_forall in Hwf. rewrite forallb_forall in Hbody.
    destruct (msg_wf_ver m (Hwf m Hin)) as [Hv Hnul]. split; [exact Hv|]. split; [exact Hnul|].
    apply Z.leb_le. apply (Hbody m Hin).
  - apply wire_bytes; assumption.
Qed.

(** pbcmpl.Marshal/session: every call of the history, whatever came before it *)
Theorem marshal_session_spec kind (cs : list ((option (list Z) * list Z) * list (Z * bool))) :
  Forall (fun c => zlen (k_enc kind (snd (fst c))) < 2 ^ 63 - 32
                   /\ script_ok (snd c) [32; zlen (k_enc kind (snd (fst c)))] = true) cs ->
  map (fun c => v_marshal_model kind (snd c) (fst c)) cs
    = map (fun c => v_marshal_spec kind (snd c) (fst c)) cs.
Proof.
  intros H. apply map_ext_in. intros c Hin. rewrite Forall_forall in H.
  destruct (H c Hin) as [H1 H2]. apply v_marshal_model_spec; assumption.
Qed.
