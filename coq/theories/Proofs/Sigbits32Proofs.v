(** The int32-explicit model (Model/Sigbits32.v) agrees with the unbounded one
    (Model/Sigbits.v) under Go's own size limits; hence the C16 theorems hold
    of it. *)
From Coq Require Import ZArith List Lia Bool.
From Low Require Import Lib.MachInt Lib.Bits Lib.BitSeq Lib.Lex Lib.Bytes Lib.LexExtra_sig
  Model.Sigbits Model.Sigbits32 Spec.SigbitsSpec
  Proofs.SigbitsFirstDiff Proofs.SigbitsCountPrefixes Proofs.SigbitsOrder.
Import ListNotations.
Open Scope Z_scope.

Definition omap {A B} (f : A -> B) (o : option A) : option B :=
  match o with Some x => Some (f x) | None => None end.

Lemma i32_small x : 0 <= x <= 2147483647 -> i32 x = x.
Proof. intros H. apply i32_id. lia. Qed.

(** * firstdiff.go *)
Lemma sfd_loop32_omap fuel : forall a b la lb minl i,
  sfd_loop32 fuel a b la lb minl i = omap i32 (sfd_loop fuel a b la lb minl i).
Proof.
  induction fuel as [|fuel IH]; intros; [reflexivity|].
  cbn [sfd_loop32 sfd_loop].
  destruct ((i <? la) && (i <? lb)); [|reflexivity].
  destruct (lz64 _ <? 64); [|apply IH].
  destruct (_ <? minl); reflexivity.
Qed.

Lemma sFirstDiffBit32_exact a b : bytes_ok a -> bytes_ok b -> 8 * zlen a <= 2147483647 ->
  sFirstDiffBit32 a b = Some (first_diff_bit a b).
Proof.
  intros Ha Hb H32. unfold sFirstDiffBit32. rewrite sfd_loop32_omap.
  fold (sFirstDiffBit a b). rewrite (sFirstDiffBit_exact a b Ha Hb). cbn [omap].
  rewrite i32_small; [reflexivity|].
  pose proof (first_diff_bit_le_l a b). pose proof (first_diff_bit_nonneg a b). lia.
Qed.

Lemma fdb_loop32_exact keys : keys_ok keys -> keys_i32 keys ->
  fdb_loop32 keys = Some (spec_FirstDiffBits keys).
Proof.
  unfold spec_FirstDiffBits. induction keys as [|a keys IH]; intros H H32; [reflexivity|].
  destruct keys as [|b t]; [reflexivity|].
  inversion H as [|? ? Ha Ht]; subst. inversion Ht as [|? ? Hb _]; subst.
  inversion H32 as [|? ? Ha32 Ht32]; subst.
  change (fdb_loop32 (a :: b :: t)) with
    (match sFirstDiffBit32 a b, fdb_loop32 (b :: t) with
     | Some d, Some ds => Some (d :: ds) | _, _ => None end).
  rewrite adj_pairs_cons2. cbn [map fst snd].
  rewrite (sFirstDiffBit32_exact a b Ha Hb Ha32). rewrite (IH Ht Ht32). reflexivity.
Qed.

Theorem FirstDiffBits32_exact keys :
  keys <> [] -> keys_ok keys -> keys_i32 keys -> FirstDiffBits32 keys = Some (spec_FirstDiffBits keys).
Proof.
  intros Hne H H32. unfold FirstDiffBits32.
  destruct keys as [|a t]; [congruence|].
  unfold zlen. cbn [length].
  destruct (Z.ltb_spec (Z.of_nat (S (length t)) - 1) 0); [lia|].
  now apply fdb_loop32_exact.
Qed.

(** * countprefixes.go *)
Definition bounded (B : Z) (l : list Z) : Prop := Forall (fun c => 0 <= c <= B) l.

Lemma incr_at32_eq B : forall l n, bounded B l -> B < 2147483647 ->
  incr_at32 l n = incr_at l n /\
  forall l', incr_at l n = Some l' -> bounded (B + 1) l'.
Proof.
  induction l as [|x t IH]; intros n Hb HB; [split; [reflexivity|discriminate]|].
  inversion Hb as [|? ? Hx Ht]; subst.
  destruct n as [|n]; cbn [incr_at32 incr_at].
  - rewrite i32_small by lia. split; [reflexivity|].
    intros l' E. injection E as <-. constructor; [lia|].
    eapply Forall_impl; [|exact Ht]. cbn beta. intros; lia.
  - destruct (IH n Ht HB) as [E1 E2]. rewrite E1. split; [reflexivity|].
    destruct (incr_at t n) as [t'|]; [|discriminate].
    intros l' E. injection E as <-. constructor; [lia|]. now apply E2.
Qed.

Lemma cp_hist32_eq ds : forall mn m counts B,
  Forall (fun d => mn <= d <= mn + 2147483647) ds -> 1 <= m <= 2147483647 ->
  bounded B counts -> B + zlen ds <= 2147483647 ->
  cp_hist32 ds mn m counts = cp_hist ds mn m counts.
Proof.
  induction ds as [|d t IH]; intros mn m counts B Hd Hm Hb HB; [reflexivity|].
  inversion Hd as [|? ? Hd0 Ht]; subst.
  cbn [cp_hist32 cp_hist].
  rewrite (i32_small (d - mn)) by lia. rewrite (i32_small (m - 1)) by lia.
  unfold zlen in HB. cbn [length] in HB.
  destruct (d - mn <? m - 1).
  - unfold incr_atZ32, incr_atZ. destruct (d - mn <? 0); [reflexivity|].
    destruct (incr_at32_eq B counts (Z.to_nat (d - mn)) Hb ltac:(lia)) as [E1 E2].
    rewrite E1. destruct (incr_at counts (Z.to_nat (d - mn))) as [c1|]; [|reflexivity].
    apply (IH mn m c1 (B + 1)); auto. unfold zlen. lia.
  - apply (IH mn m counts B); auto. unfold zlen. lia.
Qed.

Lemma cp_sums32_eq counts : forall last, 0 <= last -> Forall (fun c => 0 <= c) counts ->
  last + sumz counts <= 2147483647 -> cp_sums32 last counts = cp_sums last counts.
Proof.
  induction counts as [|c t IH]; intros last Hl Hc Hs; [reflexivity|].
  inversion Hc as [|? ? Hc0 Ht]; subst. cbn [sumz] in Hs.
  assert (0 <= sumz t) by (clear -Ht; induction Ht; cbn [sumz]; lia).
  cbn [cp_sums32 cp_sums]. rewrite i32_small by lia. f_equal. apply IH; auto; lia.
Qed.

Lemma count_if_le_length f ds : count_if f ds <= zlen ds.
Proof.
  unfold zlen. induction ds as [|d t IH]; cbn [count_if length]; [lia|]. destruct (f d); lia.
Qed.

(** both versions of countPrefixes agree on non-negative int32 differences *)
Theorem countPrefixes32_eq ds m :
  ds <> [] -> Forall (fun d => 0 <= d <= 2147483647) ds -> zlen ds < 2147483647 -> 1 <= m <= 2147483647 ->
  countPrefixes32 ds m = countPrefixes ds m.
Proof.
  intros Hne Hd Hlen Hm. unfold countPrefixes32, countPrefixes.
  rewrite (i32_small (m - 1)) by lia.
  destruct (Z.ltb_spec (m - 1) 0); [lia|]. destruct (Z.ltb_spec m 0); [lia|].
  assert (Hhd : hd 0 ds <= 2147483647).
  { destruct ds as [|x t]; [congruence|]. inversion Hd; subst. cbn [hd]. lia. }
  rewrite (cp_min_list_min ds Hne Hhd).
  set (mn := list_min ds).
  pose proof (list_min_lower ds) as Hlow. fold mn in Hlow.
  assert (Hmn : 0 <= mn).
  { pose proof (list_min_In ds Hne) as Hin. rewrite Forall_forall in Hd. specialize (Hd _ Hin). fold mn in Hd. lia. }
  assert (Hd' : Forall (fun d => mn <= d <= mn + 2147483647) ds).
  { rewrite Forall_forall in *. intros d Hin. specialize (Hd d Hin). specialize (Hlow d Hin). cbn beta in *. lia. }
  rewrite (cp_hist32_eq ds mn m (repeat 0 (Z.to_nat (m - 1))) 0 Hd' Hm).
  2:{ unfold bounded. rewrite Forall_forall. intros c Hc. apply repeat_spec in Hc. lia. }
  2:{ lia. }
  destruct (cp_hist_ok ds mn m (repeat 0 (Z.to_nat (m - 1))) Hlow ltac:(rewrite repeat_length; lia))
    as (c & E & L & N).
  rewrite E. f_equal. f_equal.
  assert (Nn : forall j, (j < length c)%nat -> nth j c 0 = count_if (fun d => d - mn =? Z.of_nat j) ds).
  { intros j Hj. rewrite N by lia. rewrite nth_repeat_0. lia. }
  apply cp_sums32_eq; [lia| |].
  - rewrite Forall_forall. intros x Hx. destruct (In_nth c x 0 Hx) as (j & Hj & <-).
    rewrite Nn by exact Hj. apply count_if_nonneg.
  - pose proof (sumz_hist ds mn c Hlow Nn (length c) ltac:(lia)) as Hsum.
    rewrite firstn_all in Hsum. rewrite Hsum.
    pose proof (count_if_le_length (fun d => d - mn <? Z.of_nat (length c)) ds). lia.
Qed.

(** the C16 theorem for the int32-explicit model *)
Theorem CountPrefixes32_exact keys s e m :
  keys_ok keys -> strict_asc keys -> keys_i32 keys -> zlen keys <= 2147483647 ->
  0 <= s -> s + 2 <= e -> e <= zlen keys -> 1 <= m <= 2147483647 ->
  exists sb, New32 keys = Some sb /\ CountPrefixes32 sb s e m = Some (spec_CountPrefixes keys s e m).
Proof.
  intros Hok Hasc H32 Hn Hs He Hl Hm.
  assert (Hne : keys <> []) by (intros ->; unfold zlen in Hl; cbn [length] in Hl; lia).
  exists {| sb_keys := keys; sb_sigbits := spec_FirstDiffBits keys |}.
  unfold New32. rewrite (FirstDiffBits32_exact keys Hne Hok H32). split; [reflexivity|].
  unfold CountPrefixes32. cbn [sb_sigbits]. rewrite (i32_small (e - 1)) by lia.
  rewrite (sliceZ_firstdiffs keys s e Hs ltac:(lia) Hl).
  rewrite countPrefixes32_eq.
  - apply countPrefixes_sub_exact; auto; lia.
  - intros E. pose proof (spec_FirstDiffBits_length (sub_keys keys s e)) as L.
    rewrite (sub_keys_length keys s e) in L by lia. rewrite E in L. unfold zlen in L. cbn [length] in L. lia.
  - apply FirstDiffBits_fit_int32. now apply keys_i32_sub.
  - rewrite spec_FirstDiffBits_length, (sub_keys_length keys s e) by lia. lia.
  - exact Hm.
Qed.
