(** C04 widening across C11, C03, C12: the way a trie node is written and read back.
    keys --PathsOf--> path words --PathToIndex--> bit positions --Of--> bitmap --Decode--> path words.
    For sorted keys that share their first [from] bits and whose path lengths are stored levels of
    T, nothing panics and Decode returns exactly PathsOf(keys, dedup). *)
From Coq Require Import ZArith List Lia Bool Sorting.Sorted.
From Low Require Import Lib.MachInt Lib.Bits Lib.BitSeq Lib.Lex Lib.Bytes Lib.BitsExtra_tree
  Lib.SortedZ_tree4 Spec.Bmtree Spec.AllPathsSpec Spec.OfSpec Spec.FromStr32Spec
  Model.BmtreePath Model.BmtreeIndex Model.BmtreeAllPaths Model.BitmapOf Model.FromStr32
  Proofs.BmtreePathProofs Proofs.BmtreeRankSpec Proofs.BmtreeIndexProofs Proofs.OfProofs
  Proofs.BmtreeAllPathsProofs Proofs.BmtreeDecodeProofs Proofs.FromStr32Proofs Proofs.FromStr32Order.
Import ListNotations.
Open Scope Z_scope.

(** a strictly ascending list of stored words is the word list of a sub-list of the stored nodes *)
Lemma words_to_nodes T h : (h <= 32)%nat -> forall ps,
  StronglySorted Z.lt ps -> (forall x, In x ps -> In x (stored_words T h)) ->
  exists ss, ps = map (enc h) ss /\ sub_nodes T h ss.
Proof.
  intros Hh. induction ps as [|x ps IH]; intros Hs Hin.
  - exists []. split; [reflexivity|]. split; [constructor|intros ? []].
  - inversion Hs as [|? ? Hs' Hx]; subst.
    destruct (IH Hs' (fun y Hy => Hin y (or_intror Hy))) as (ss & -> & Hss & Hst).
    destruct (proj1 (stored_words_members T h x) (Hin x (or_introl eq_refl))) as (q & Hlq & Hsq & ->).
    exists (q :: ss). split; [reflexivity|]. split.
    + constructor; [exact Hss|]. apply Forall_forall. intros r Hr.
      apply (enc_lt_iff h q r Hh Hlq); [apply Hst, Hr|].
      exact (proj1 (Forall_forall _ _) Hx (enc h r) (in_map _ _ _ Hr)).
    + intros r [<-|Hr]; [split; assumption|now apply Hst].
Qed.

(** the round trip for a list of words *)
Lemma roundtrip_words T ps : 1 <= T < 2 ^ 31 ->
  StronglySorted Z.lt ps -> (forall x, In x ps -> In x (stored_words T (Z.to_nat (Height T)))) ->
  exists idxs bm, map (PathToIndex T) ps = map Some idxs /\ Of idxs None = Some bm /\ Decode T bm = Some ps.
Proof.
  intros HT Hs Hin. pose proof (Height_range T HT) as Hh.
  destruct (words_to_nodes T (Z.to_nat (Height T)) ltac:(lia) ps Hs Hin) as (ss & -> & Hsub).
  destruct (roundtrip_total T ss HT Hsub) as (idxs & bm & E & EOf & ED).
  exists idxs, bm. rewrite map_map. auto.
Qed.

(** the path of a key is the word of a node of length clamp(8|s| - from, 0, h) *)
Lemma PathOf_stored T s from : 1 <= T < 2 ^ 31 ->
  bytes_ok s -> 8 * zlen s < 2 ^ 31 -> 0 <= from -> from + Height T + 7 < 2 ^ 31 ->
  Z.testbit T (clamp (8 * zlen s - from) 0 (Height T)) = true ->
  exists x, PathOf s from (Height T) = Some x /\ In x (stored_words T (Z.to_nat (Height T))).
Proof.
  intros HT Hb Hl Hf Hov Hbit. pose proof (Height_range T HT) as Hh.
  rewrite PathOf_naive by (try assumption; lia). eexists. split; [reflexivity|].
  apply stored_words_members. eexists. split; [|split; [|reflexivity]].
  - rewrite firstn_length. unfold clamp. lia.
  - unfold stored. rewrite firstn_length, skipn_length, msb_bits_length.
    replace (Z.of_nat (Nat.min (Z.to_nat (clamp (8 * zlen s - from) 0 (Height T)))
                               (8 * length s - Z.to_nat from)))
      with (clamp (8 * zlen s - from) 0 (Height T)); [exact Hbit|].
    unfold clamp, zlen in *. lia.
Qed.

Lemma keys_roundtrip T keys from p : 1 <= T < 2 ^ 31 ->
  Forall (fun s => bytes_ok s /\ 8 * zlen s < 2 ^ 31) keys ->
  0 <= from -> from + Height T + 7 < 2 ^ 31 ->
  Forall (fun s => firstn (Z.to_nat from) (msb_bits s) = p) keys ->
  Sorted (fun a b => bytes_cmp a b <> Gt) keys ->
  (forall s, In s keys -> Z.testbit T (clamp (8 * zlen s - from) 0 (Height T)) = true) ->
  exists ps idxs bm,
    PathsOf keys from (Height T) true = Some ps /\
    map (PathToIndex T) ps = map Some idxs /\
    Of idxs None = Some bm /\
    Decode T bm = Some ps.
Proof.
  intros HT Hk Hf Hov Hp Hs Hlev. pose proof (Height_range T HT) as Hh.
  destruct (PathsOf_sorted keys from (Height T) p Hk Hf ltac:(lia) Hov Hp Hs) as (ps & E & Sps & Hmem).
  destruct (roundtrip_words T ps HT Sps) as (idxs & bm & Ei & EOf & ED).
  - intros x Hx. apply Hmem in Hx. destruct Hx as (s & Hs' & Ex).
    pose proof (proj1 (Forall_forall _ _) Hk s Hs') as (Hb & Hl).
    destruct (PathOf_stored T s from HT Hb Hl Hf Hov (Hlev s Hs')) as (x' & Ex' & Hin).
    rewrite Ex in Ex'. injection Ex' as <-. exact Hin.
  - exists ps, idxs, bm. auto.
Qed.
