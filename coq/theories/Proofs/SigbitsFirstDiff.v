(** C16, first half: sFirstDiffBit / FirstDiffBits compute the length of the
    longest common prefix of the keys' bit strings. *)
From Coq Require Import ZArith List Lia Bool.
From Low Require Import Lib.MachInt Lib.Bits Lib.BitSeq Lib.Lex Lib.Bytes Lib.LexExtra_sig
  Model.Sigbits Spec.SigbitsSpec.
Import ListNotations.
Open Scope Z_scope.

(** * bits of a word, most significant first *)
Definition msbn (n : nat) (X : Z) : list bool := rev (bits n X).

Lemma bits_snoc n X : bits (S n) X = bits n X ++ [Z.testbit X (Z.of_nat n)].
Proof. unfold bits. rewrite seq_S, map_app. reflexivity. Qed.

Lemma msbn_S n X : msbn (S n) X = Z.testbit X (Z.of_nat n) :: msbn n X.
Proof. unfold msbn. rewrite bits_snoc, rev_app_distr. reflexivity. Qed.

Lemma msbn_mod n X : msbn n (X mod 2 ^ Z.of_nat n) = msbn n X.
Proof. unfold msbn. now rewrite bits_mod. Qed.

Lemma testbit_high X n j : 0 <= X < 2 ^ n -> 0 <= n <= j -> Z.testbit X j = false.
Proof.
  intros HX Hj. rewrite <- (Z.mod_small X (2 ^ n)) by lia.
  apply Z.mod_pow2_bits_high. lia.
Qed.

Lemma lxor_lt_pow2 X Y n : 0 <= n -> 0 <= X < 2 ^ n -> 0 <= Y < 2 ^ n -> 0 <= Z.lxor X Y < 2 ^ n.
Proof.
  intros Hn HX HY.
  assert (H0 : 0 <= Z.lxor X Y) by (apply Z.lxor_nonneg; lia).
  split; [exact H0|].
  destruct (Z.eq_dec n 0) as [->|Hn0].
  { change (2 ^ 0) with 1 in *. assert (X = 0) by lia. assert (Y = 0) by lia. subst. cbn. lia. }
  destruct (Z.eq_dec (Z.lxor X Y) 0) as [->|Hne]; [lia|].
  apply Z.log2_lt_pow2; [lia|].
  pose proof (Z.log2_lxor X Y ltac:(lia) ltac:(lia)) as Hl.
  assert (Z.log2 X < n).
  { destruct (Z.eq_dec X 0) as [->|]; [change (Z.log2 0) with 0; lia|apply Z.log2_lt_pow2; lia]. }
  assert (Z.log2 Y < n).
  { destruct (Z.eq_dec Y 0) as [->|]; [change (Z.log2 0) with 0; lia|apply Z.log2_lt_pow2; lia]. }
  lia.
Qed.

Lemma lxor_same_top X Y n :
  0 <= n -> 0 <= X < 2 ^ (n + 1) -> 0 <= Y < 2 ^ (n + 1) ->
  Z.testbit X n = Z.testbit Y n ->
  Z.lxor X Y = Z.lxor (X mod 2 ^ n) (Y mod 2 ^ n).
Proof.
  intros Hn HX HY Ht. apply Z.bits_inj'. intros i Hi. rewrite !Z.lxor_spec.
  destruct (Z.lt_ge_cases i n) as [Hlt|Hge].
  - now rewrite !Z.mod_pow2_bits_low by lia.
  - rewrite !Z.mod_pow2_bits_high by lia.
    destruct (Z.eq_dec i n) as [->|Hne].
    + rewrite Ht. now destruct (Z.testbit Y n).
    + rewrite (testbit_high X (n + 1) i), (testbit_high Y (n + 1) i) by lia. reflexivity.
Qed.

Lemma bitlen_top W n : 0 <= n -> 0 <= W < 2 ^ (n + 1) -> Z.testbit W n = true -> bitlen W = n + 1.
Proof.
  intros Hn HW Ht.
  assert (0 < W). { destruct (Z.eq_dec W 0) as [->|]; [now rewrite Z.bits_0 in Ht|lia]. }
  pose proof (bitlen_le W (n + 1) ltac:(lia) HW).
  destruct (bitlen_spec W H) as [_ Hhi].
  destruct (Z.lt_ge_cases n (bitlen W)); [lia|].
  rewrite Hhi in Ht by lia. discriminate.
Qed.

(** leading zeros of the xor = length of the common prefix of the two bit strings *)
Lemma lz_lxor n : forall X Y, 0 <= X < 2 ^ Z.of_nat n -> 0 <= Y < 2 ^ Z.of_nat n ->
  Z.of_nat n - bitlen (Z.lxor X Y) = zlen (lcp_bits (msbn n X) (msbn n Y)).
Proof.
  induction n as [|n IH]; intros X Y HX HY.
  - change (2 ^ Z.of_nat 0) with 1 in *. assert (X = 0) by lia. assert (Y = 0) by lia. subst. reflexivity.
  - rewrite !msbn_S. unfold lcp_bits. cbn [lcp]. fold lcp_bits.
    replace (Z.of_nat (S n)) with (Z.of_nat n + 1) in * by lia.
    destruct (Bool.eqb (Z.testbit X (Z.of_nat n)) (Z.testbit Y (Z.of_nat n))) eqn:E.
    + apply (proj1 (bool_eqb_spec _ _)) in E.
      rewrite (lxor_same_top X Y (Z.of_nat n)) by (try lia; exact E).
      rewrite <- (msbn_mod n X), <- (msbn_mod n Y).
      unfold zlen. cbn [length]. rewrite Nat2Z.inj_succ.
      specialize (IH (X mod 2 ^ Z.of_nat n) (Y mod 2 ^ Z.of_nat n)
                     ltac:(apply Z.mod_pos_bound; lia) ltac:(apply Z.mod_pos_bound; lia)).
      unfold zlen in IH. lia.
    + rewrite (bitlen_top (Z.lxor X Y) (Z.of_nat n)); [unfold zlen; cbn [length]; lia|lia|apply lxor_lt_pow2; lia|].
      rewrite Z.lxor_spec. destruct (Z.testbit X (Z.of_nat n)), (Z.testbit Y (Z.of_nat n)); cbn in *; congruence.
Qed.

(** * get64Bits is the big-endian window of the key's bit string *)
Definition horner (l : list Z) : Z := fold_left (fun acc b => acc * 256 + b) l 0.

Lemma horner_snoc l b : horner (l ++ [b]) = horner l * 256 + b.
Proof. unfold horner. now rewrite fold_left_app. Qed.

Lemma bytes_ok_app a b : bytes_ok (a ++ b) <-> bytes_ok a /\ bytes_ok b.
Proof. unfold bytes_ok. apply Forall_app. Qed.

Lemma horner_bound l : bytes_ok l -> 0 <= horner l < 2 ^ (8 * zlen l).
Proof.
  induction l as [|b l IH] using rev_ind; intros H.
  - cbn. lia.
  - apply bytes_ok_app in H. destruct H as [Hl Hb]. inversion Hb as [|? ? Hb0 _]; subst.
    unfold byte_ok in Hb0. specialize (IH Hl). rewrite horner_snoc.
    unfold zlen in *. rewrite app_length, Nat2Z.inj_add. cbn [length].
    replace (8 * (Z.of_nat (length l) + Z.of_nat 1)) with (8 * Z.of_nat (length l) + 8) by lia.
    rewrite Z.pow_add_r by lia. change (2 ^ 8) with 256. nia.
Qed.

Lemma msbn_horner l : bytes_ok l -> msbn (8 * length l) (horner l) = msb_bits l.
Proof.
  induction l as [|b l IH] using rev_ind; intros H.
  - reflexivity.
  - apply bytes_ok_app in H. destruct H as [Hl Hb]. inversion Hb as [|? ? Hb0 _]; subst.
    unfold byte_ok in Hb0.
    rewrite app_length. cbn [length]. replace (8 * (length l + 1))%nat with (8 + 8 * length l)%nat by lia.
    unfold msbn. rewrite bits_app, rev_app_distr. rewrite horner_snoc.
    change (2 ^ Z.of_nat 8) with 256.
    rewrite msb_bits_app. f_equal.
    + replace ((horner l * 256 + b) / 256) with (horner l).
      * apply IH. exact Hl.
      * apply Z.div_unique with b; lia.
    + cbn [msb_bits flat_map]. rewrite app_nil_r. unfold byte_bits. f_equal.
      rewrite <- (bits_mod 8 (horner l * 256 + b)). change (2 ^ Z.of_nat 8) with 256.
      f_equal. symmetry. apply Z.mod_unique with (horner l); lia.
Qed.

Lemma be64_horner s : be64 s = horner (pad8 s).
Proof.
  unfold be64, pad8, horner.
  do 8 (destruct s as [|? s]; [cbn [nth app repeat firstn fold_left]; ring|]).
  cbn [nth app repeat firstn fold_left]. ring.
Qed.

Lemma pad8_idem s : pad8 (pad8 s) = pad8 s.
Proof.
  unfold pad8.
  do 8 (destruct s as [|? s]; [reflexivity|]). reflexivity.
Qed.

Lemma get64Bits_horner s : get64Bits s = horner (pad8 s).
Proof.
  unfold get64Bits. destruct (8 <=? zlen s).
  - apply be64_horner.
  - rewrite be64_horner. now rewrite pad8_idem.
Qed.

Lemma pad8_length s : length (pad8 s) = 8%nat.
Proof. unfold pad8. rewrite firstn_length, app_length, repeat_length. lia. Qed.

Lemma Forall_firstn {A} (P : A -> Prop) n : forall l, Forall P l -> Forall P (firstn n l).
Proof.
  induction n as [|n IH]; intros l H; [constructor|].
  destruct H; cbn; constructor; auto.
Qed.

Lemma Forall_skipn {A} (P : A -> Prop) n : forall l, Forall P l -> Forall P (skipn n l).
Proof.
  induction n as [|n IH]; intros l H; [exact H|].
  destruct H; cbn; [constructor|auto].
Qed.

Lemma bytes_ok_pad8 s : bytes_ok s -> bytes_ok (pad8 s).
Proof.
  intros H. unfold pad8. apply Forall_firstn. apply Forall_app. split; [exact H|].
  repeat constructor; unfold byte_ok; lia.
Qed.

Lemma msb_bits_cons b s : msb_bits (b :: s) = byte_bits b ++ msb_bits s.
Proof. reflexivity. Qed.

Lemma msb_bits_firstn n : forall l, msb_bits (firstn n l) = firstn (8 * n) (msb_bits l).
Proof.
  induction n as [|n IH]; intros l; [reflexivity|].
  destruct l as [|b l]; [now rewrite !firstn_nil|].
  cbn [firstn]. rewrite !msb_bits_cons.
  replace (8 * S n)%nat with (8 + 8 * n)%nat by lia.
  rewrite firstn_app, byte_bits_length.
  rewrite (firstn_all2 (n:=8 + 8 * n) (byte_bits b)) by (rewrite byte_bits_length; lia).
  f_equal. replace (8 + 8 * n - 8)%nat with (8 * n)%nat by lia. apply IH.
Qed.

Lemma msb_bits_skipn n : forall l, msb_bits (skipn n l) = skipn (8 * n) (msb_bits l).
Proof.
  induction n as [|n IH]; intros l; [reflexivity|].
  destruct l as [|b l]; [now rewrite !skipn_nil|].
  cbn [skipn]. rewrite msb_bits_cons.
  replace (8 * S n)%nat with (8 + 8 * n)%nat by lia.
  rewrite skipn_app, byte_bits_length.
  rewrite (skipn_all2 (n:=8 + 8 * n) (byte_bits b)) by (rewrite byte_bits_length; lia).
  cbn [app]. replace (8 + 8 * n - 8)%nat with (8 * n)%nat by lia. apply IH.
Qed.

Lemma msb_bits_pad8 s : msb_bits (pad8 s) = window false 64 (msb_bits s).
Proof.
  unfold pad8, window. rewrite msb_bits_firstn, msb_bits_app. reflexivity.
Qed.

Lemma msbn_get64Bits s : bytes_ok s -> msbn 64 (get64Bits s) = window false 64 (msb_bits s).
Proof.
  intros H. rewrite get64Bits_horner, <- msb_bits_pad8.
  rewrite <- (msbn_horner (pad8 s)) by (now apply bytes_ok_pad8).
  now rewrite pad8_length.
Qed.

Lemma get64Bits_range s : bytes_ok s -> 0 <= get64Bits s < 2 ^ 64.
Proof.
  intros H. rewrite get64Bits_horner.
  pose proof (horner_bound (pad8 s) (bytes_ok_pad8 s H)) as Hb.
  unfold zlen in Hb. rewrite pad8_length in Hb. exact Hb.
Qed.

(** the test the loop makes on one pair of chunks *)
Lemma lz64_chunks a b : bytes_ok a -> bytes_ok b ->
  lz64 (Z.lxor (get64Bits a) (get64Bits b)) =
  zlen (lcp_bits (window false 64 (msb_bits a)) (window false 64 (msb_bits b))).
Proof.
  intros Ha Hb. unfold lz64.
  rewrite <- (msbn_get64Bits a Ha), <- (msbn_get64Bits b Hb).
  apply (lz_lxor 64); apply get64Bits_range; assumption.
Qed.

(** * the chunk loop *)
Lemma skipn_add {A} n : forall m (l : list A), skipn m (skipn n l) = skipn (n + m) l.
Proof.
  induction n as [|n IH]; intros m l; [reflexivity|].
  destruct l as [|x l]; [now rewrite !skipn_nil|]. cbn. apply IH.
Qed.

Lemma first_diff_bit_nil_l b : first_diff_bit [] b = 0.
Proof. reflexivity. Qed.

Lemma first_diff_bit_nil_r a : first_diff_bit a [] = 0.
Proof. unfold first_diff_bit, lcp_bits. cbn [msb_bits flat_map]. now rewrite (lcp_nil_r Bool.eqb). Qed.

Lemma sfd_loop_ok fuel : forall (i : nat) a b,
  bytes_ok a -> bytes_ok b ->
  (i < length a)%nat -> (i < length b)%nat ->
  Z.of_nat (length a) - Z.of_nat i + 8 <= 8 * Z.of_nat fuel ->
  sfd_loop fuel a b (zlen a) (zlen b)
           (if zlen a * 8 >? zlen b * 8 then zlen b * 8 else zlen a * 8) (Z.of_nat i)
  = Some (8 * Z.of_nat i + first_diff_bit (skipn i a) (skipn i b)).
Proof.
  induction fuel as [|fuel IH]; intros i a b Ha Hb Hia Hib Hf; [lia|].
  cbn [sfd_loop]. unfold zlen at 1 2.
  destruct (Z.ltb_spec (Z.of_nat i) (Z.of_nat (length a))); [|lia].
  destruct (Z.ltb_spec (Z.of_nat i) (Z.of_nat (length b))); [|lia].
  cbn [andb]. rewrite Nat2Z.id.
  set (a' := skipn i a). set (b' := skipn i b).
  assert (Ha' : bytes_ok a') by (apply Forall_skipn; exact Ha).
  assert (Hb' : bytes_ok b') by (apply Forall_skipn; exact Hb).
  assert (Hla : length a' = (length a - i)%nat) by (apply skipn_length).
  assert (Hlb : length b' = (length b - i)%nat) by (apply skipn_length).
  rewrite (lz64_chunks a' b' Ha' Hb').
  set (U := msb_bits a'). set (V := msb_bits b').
  assert (HlU : length U = (8 * length a')%nat) by apply msb_bits_length.
  assert (HlV : length V = (8 * length b')%nat) by apply msb_bits_length.
  pose proof (lcp_length_l Bool.eqb (window false 64 U) (window false 64 V)) as Hp.
  rewrite window_length in Hp.
  unfold first_diff_bit. fold U V. unfold lcp_bits, zlen in *.
  set (p := length (lcp Bool.eqb (window false 64 U) (window false 64 V))) in *.
  destruct (Z.ltb_spec (Z.of_nat p) 64) as [Hlt|Hge].
  - (* a difference inside this pair of chunks *)
    rewrite (lcp_window_lt Bool.eqb false 64 U V) by (fold p; lia). fold p.
    rewrite HlU, HlV, Hla, Hlb.
    destruct (Z.gtb_spec (Z.of_nat (length a) * 8) (Z.of_nat (length b) * 8));
      match goal with |- (if ?c then _ else _) = _ => destruct c eqn:E end;
      try apply Z.ltb_lt in E; try apply Z.ltb_ge in E; f_equal; lia.
  - assert (Hp64 : p = 64%nat) by lia.
    destruct (le_lt_dec (length a') 8) as [Hsa|Hsa]; [|destruct (le_lt_dec (length b') 8) as [Hsb|Hsb]].
    + (* a ends inside this chunk: the next test of the loop condition fails *)
      destruct fuel as [|fuel]; [lia|]. cbn [sfd_loop].
      destruct (Z.ltb_spec (Z.of_nat i + 8) (Z.of_nat (length a))); [lia|]. cbn [andb].
      rewrite (lcp_window_eq_short Bool.eqb false 64 U V) by (fold p; lia).
      rewrite HlU, HlV, Hla, Hlb.
      destruct (Z.gtb_spec (Z.of_nat (length a) * 8) (Z.of_nat (length b) * 8)); f_equal; lia.
    + destruct fuel as [|fuel]; [lia|]. cbn [sfd_loop].
      destruct (Z.ltb_spec (Z.of_nat i + 8) (Z.of_nat (length b))); [lia|]. rewrite andb_false_r.
      rewrite (lcp_window_eq_short Bool.eqb false 64 U V) by (fold p; lia).
      rewrite HlU, HlV, Hla, Hlb.
      destruct (Z.gtb_spec (Z.of_nat (length a) * 8) (Z.of_nat (length b) * 8)); f_equal; lia.
    + (* both keys go on: next chunk *)
      replace (Z.of_nat i + 8) with (Z.of_nat (i + 8)) by lia.
      specialize (IH (i + 8)%nat a b Ha Hb ltac:(lia) ltac:(lia) ltac:(lia)).
      unfold zlen in IH. rewrite IH. f_equal.
      rewrite (lcp_window_eq_long Bool.eqb false 64 U V) by (fold p; lia).
      unfold U, V. change 64%nat with (8 * 8)%nat. rewrite <- !msb_bits_skipn.
      unfold a', b'. rewrite !skipn_add. unfold first_diff_bit, lcp_bits, zlen. lia.
Qed.

Lemma sFirstDiffBit_exact a b : bytes_ok a -> bytes_ok b ->
  sFirstDiffBit a b = Some (first_diff_bit a b).
Proof.
  intros Ha Hb. unfold sFirstDiffBit.
  destruct a as [|x a].
  { cbn [sfd_loop length]. rewrite first_diff_bit_nil_l. unfold zlen. cbn [length].
    change (0 <? Z.of_nat 0) with false. cbn [andb].
    destruct (Z.gtb_spec (Z.of_nat 0 * 8) (Z.of_nat (length b) * 8)); f_equal; lia. }
  destruct b as [|y b].
  { cbn [sfd_loop]. rewrite first_diff_bit_nil_r.
    unfold zlen. cbn [length]. change (0 <? Z.of_nat 0) with false. rewrite andb_false_r.
    destruct (Z.gtb_spec (Z.of_nat (S (length a)) * 8) (Z.of_nat 0 * 8)); f_equal; lia. }
  pose proof (sfd_loop_ok (S (length (x :: a))) 0 (x :: a) (y :: b) Ha Hb) as H.
  cbn [skipn] in H. change (Z.of_nat 0) with 0 in H. rewrite Z.mul_0_r, Z.add_0_l in H.
  apply H; cbn [length]; lia.
Qed.

(** * FirstDiffBits *)
Lemma adj_pairs_cons2 {A} (a b : A) t : adj_pairs (a :: b :: t) = (a, b) :: adj_pairs (b :: t).
Proof. reflexivity. Qed.

Lemma fdb_loop_cons2 a b t :
  fdb_loop (a :: b :: t) =
  match sFirstDiffBit a b, fdb_loop (b :: t) with
  | Some d, Some ds => Some (d :: ds)
  | _, _ => None
  end.
Proof. reflexivity. Qed.

Lemma fdb_loop_exact keys : keys_ok keys -> fdb_loop keys = Some (spec_FirstDiffBits keys).
Proof.
  unfold spec_FirstDiffBits. induction keys as [|a keys IH]; intros H; [reflexivity|].
  destruct keys as [|b t]; [reflexivity|].
  inversion H as [|? ? Ha Ht]; subst. inversion Ht as [|? ? Hb _]; subst.
  rewrite fdb_loop_cons2, adj_pairs_cons2. cbn [map fst snd].
  rewrite (sFirstDiffBit_exact a b Ha Hb). rewrite (IH Ht). reflexivity.
Qed.

Theorem FirstDiffBits_exact keys :
  keys <> [] -> keys_ok keys -> FirstDiffBits keys = Some (spec_FirstDiffBits keys).
Proof.
  intros Hne H. unfold FirstDiffBits.
  destruct keys as [|a t]; [congruence|].
  unfold zlen. cbn [length].
  destruct (Z.ltb_spec (Z.of_nat (S (length t)) - 1) 0); [lia|].
  now apply fdb_loop_exact.
Qed.
