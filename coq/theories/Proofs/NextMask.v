(** C13's anchor in bitmap/mask.go: the two table reads of next.go, [RMask[i & 63]] and
    [MaskUpto[end & 63]], never panic and return the closed forms (Lib/Bits.v) that
    Model/BitmapNext.v writes for them.  From the table model and proof of the C14
    pipeline (Model/BitmapMask.v, Proofs/GetwProofs.v). *)
From Coq Require Import ZArith List Lia Bool.
From Low Require Import Lib.MachInt Lib.Bits Lib.BitSeq Lib.BitsExtra_bm2 Model.BitmapMask Spec.MaskSpec Proofs.GetwProofs.
Import ListNotations.
Open Scope Z_scope.

Theorem next_mask_reads x :
  nthZ (tRMask initMasks) (Z.land x 63) = Some (RMask (Z.land x 63)) /\
  nthZ (tMaskUpto initMasks) (Z.land x 63) = Some (MaskUpto (Z.land x 63)).
Proof.
  set (j := Z.land x 63).
  assert (Hj : 0 <= j < 64) by (subst j; rewrite land63; apply Z.mod_pos_bound; lia).
  pose proof (mask_tables_correct j) as H. unfold mask_lookups, spec_mask_lookups, in_tab in H.
  destruct (Z.leb_spec 0 j) as [_|?]; [|lia]. destruct (Z.ltb_spec j 65) as [_|?]; [|lia]. destruct (Z.ltb_spec j 64) as [_|?]; [|lia].
  cbn [andb] in H. injection H as _ Hr Hm _ _ _. split; assumption.
Qed.
