(** Equality of the definition generated from the Go source of iohelper.SectionWriter.Seek (coq/gen/Trans.v) and the model. *)
From Coq Require Import ZArith List Lia Bool.
From Low Require Import Lib.MachInt Lib.Bits Lib.BitSeq Lib.TransLib Proofs.TransEqLemmas.
From LowGen Require Trans.
Import ListNotations.
Open Scope Z_scope.

From Low Require Model.SectionWriter.

(** The receiver is the state record of Model/SectionWriter.v (fields base, off, limit; the field [w] is not
    touched by Seek); the generated definition returns (state after, (int64 result, error code)); the model
    returns (state after, mkOut [result; error code] []) - no call reaches the underlying writer. *)
Definition seek_out (r : SectionWriter.sw * (Z * Z)) : SectionWriter.sw * SectionWriter.out :=
  (fst r, SectionWriter.mkOut [fst (snd r); snd (snd r)] []).

Lemma TransEq_iohelper_SectionWriter_Seek s offset whence :
  seek_out (Trans.iohelper_SectionWriter_Seek s offset whence) = SectionWriter.Seek s offset whence.
Proof.
  unfold Trans.iohelper_SectionWriter_Seek, SectionWriter.Seek, seek_out. cbv zeta beta.
  destruct (whence =? 0).
  - destruct (i64 (offset + SectionWriter.base s) <? SectionWriter.base s); reflexivity.
  - destruct (whence =? 1).
    + destruct (i64 (offset + SectionWriter.off s) <? SectionWriter.base s); reflexivity.
    + destruct (whence =? 2).
      * destruct (i64 (offset + SectionWriter.limit s) <? SectionWriter.base s); reflexivity.
      * reflexivity.
Qed.

(** the other direction of the same statement: the generated function IS the model's, componentwise *)
Lemma TransEq_iohelper_SectionWriter_Seek_components s offset whence :
  Trans.iohelper_SectionWriter_Seek s offset whence =
  (fst (SectionWriter.Seek s offset whence),
   (nth 0 (SectionWriter.rets (snd (SectionWriter.Seek s offset whence))) 0,
    nth 1 (SectionWriter.rets (snd (SectionWriter.Seek s offset whence))) 0)).
Proof.
  rewrite <- TransEq_iohelper_SectionWriter_Seek. unfold seek_out. cbn [fst snd SectionWriter.rets nth].
  destruct (Trans.iohelper_SectionWriter_Seek s offset whence) as [s' [n e]]. reflexivity.
Qed.
