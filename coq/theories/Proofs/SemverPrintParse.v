(** Proofs for the extra check X01, part 4 (widening): on CANONICAL syntax the modelled parsers of the semver library
    invert the printer of Spec/VersPrint.v:  Parse (version_string v) = Some v  for every well-formed structured
    version.  (Part 5, SemverRangeParse.v, does the same for ranges.) *)
From Coq Require Import ZArith List Bool Lia.
From Low Require Import Lib.Decimal_xpk Proofs.DecimalProofs_xpk Model.Semver Model.Vers Spec.VersSpec Spec.VersPrint.
Import ListNotations.
Open Scope Z_scope.

(** * cutting at a byte that does not occur before *)
Definition lacks (c : Z) (s : str) : Prop := Forall (fun b => b <> c) s.

Lemma split_first_byte c : forall a b, lacks c a -> split_first [c] (a ++ c :: b) = Some (a, b).
Proof.
  induction a as [|x a IH]; intros b Ha.
  - cbn [app split_first prefixb]. rewrite Z.eqb_refl. destruct b; reflexivity.
  - inversion Ha as [|? ? Hx Ha']; subst. cbn [app split_first prefixb].
    destruct (Z.eqb_spec c x) as [E|_]; [congruence|]. cbn [andb]. now rewrite (IH b Ha').
Qed.

Lemma split_first_none c : forall s, lacks c s -> split_first [c] s = None.
Proof.
  induction s as [|x s IH]; intros Hs; [reflexivity|].
  inversion Hs as [|? ? Hx Hs']; subst. cbn [split_first prefixb].
  destruct (Z.eqb_spec c x) as [E|_]; [congruence|]. cbn [andb]. now rewrite (IH Hs').
Qed.

Lemma lacks_app c a b : lacks c a -> lacks c b -> lacks c (a ++ b).
Proof. intros. apply Forall_app. now split. Qed.

(** Split inverts Join on pieces without the separator *)
Lemma split_fuel_join : forall (l : list str) (fuel : nat), l <> [] -> Forall (lacks 46) l -> Nat.lt (length (join [46] l)) fuel ->
  split_fuel fuel [46] (join [46] l) = l.
Proof.
  induction l as [|x l IH]; intros fuel Hne Hl Hf; [congruence|].
  inversion Hl as [|? ? Hx Hl']; subst.
  destruct fuel as [|f]; [lia|].
  destruct l as [|y l'].
  - cbn [join split_fuel]. now rewrite (split_first_none 46 x Hx).
  - change (join [46] (x :: y :: l')) with (x ++ [46] ++ join [46] (y :: l')) in *.
    cbn [split_fuel]. cbn [app]. rewrite (split_first_byte 46 x _ Hx). f_equal.
    apply IH; [discriminate|assumption|].
    rewrite app_length in Hf. cbn [app length] in Hf. lia.
Qed.

Lemma split_join l : l <> [] -> Forall (lacks 46) l -> split [46] (join [46] l) = l.
Proof. intros. unfold split. apply split_fuel_join; auto. Qed.

(** * which bytes occur in the pieces *)
Lemma digits_lack c s : is_digit c = false -> forallb is_digit s = true -> lacks c s.
Proof.
  intros Hc Hs. apply Forall_forall. intros b Hb -> . rewrite forallb_forall in Hs. rewrite (Hs c Hb) in Hc. discriminate.
Qed.

Lemma alnum_lack c s : is_alphanum c = false -> only_alphanum s = true -> lacks c s.
Proof.
  intros Hc Hs. apply Forall_forall. intros b Hb -> . unfold only_alphanum in Hs. rewrite forallb_forall in Hs.
  rewrite (Hs c Hb) in Hc. discriminate.
Qed.

Lemma digit_is_alphanum c : is_digit c = true -> is_alphanum c = true.
Proof. intros H. unfold is_alphanum. rewrite H. apply orb_true_r. Qed.

Lemma digits_alnum s : forallb is_digit s = true -> only_alphanum s = true.
Proof.
  unfold only_alphanum. rewrite !forallb_forall. intros H c Hc. apply digit_is_alphanum. now apply H.
Qed.

(** * numeric components *)
Lemma hasLeadingZeroes_dec n : 0 <= n -> hasLeadingZeroes (dec_nonneg n) = false.
Proof.
  intros Hn. pose proof (dec_nonneg_head n Hn) as H. unfold hasLeadingZeroes.
  destruct (dec_nonneg n) as [|c [|d t]]; try reflexivity.
  destruct H as [_ H]. destruct (Z.eqb_spec c 48) as [E|]; [specialize (H E); discriminate|reflexivity].
Qed.

Lemma parse_uint_dec n : 0 <= n < 2 ^ 64 -> parse_uint (dec_nonneg n) = Some n.
Proof.
  intros [Hn Hlt]. unfold parse_uint. pose proof (dec_nonneg_nonempty n Hn).
  destruct (dec_nonneg n) eqn:E; [congruence|]. rewrite <- E, (dec_nonneg_parse n Hn).
  destruct (Z.ltb_spec n (2 ^ 64)); [reflexivity|lia].
Qed.

Lemma parse_component_dec n : 0 <= n < 2 ^ 64 -> parse_component (dec_nonneg n) = Some n.
Proof.
  intros Hn. unfold parse_component, only_numbers.
  rewrite (dec_nonneg_digits n (proj1 Hn)), (hasLeadingZeroes_dec n (proj1 Hn)). cbn [negb].
  now apply parse_uint_dec.
Qed.

(** * identifiers and build strings *)
Lemma wf_ident_spec p : wf_ident p = true ->
  NewPRVersion (ident_string p) = Some p /\ only_alphanum (ident_string p) = true /\ ident_string p <> [].
Proof.
  destruct p as [s n isn]. unfold wf_ident, ident_string. cbn [pr_isnum pr_str pr_num].
  destruct isn.
  - intros H. apply andb_true_iff in H as [H H3]. apply andb_true_iff in H as [H1 H2].
    destruct s; [|discriminate]. apply Z.leb_le in H2. apply Z.ltb_lt in H3.
    pose proof (dec_nonneg_digits n H2) as Hd. pose proof (dec_nonneg_nonempty n H2) as Hne.
    repeat split; [|now apply digits_alnum|assumption].
    unfold NewPRVersion. destruct (dec_nonneg n) eqn:E; [congruence|]. rewrite <- E in *.
    unfold only_numbers. rewrite Hd, (hasLeadingZeroes_dec n H2), (parse_uint_dec n (conj H2 H3)). reflexivity.
  - intros H. apply andb_true_iff in H as [H H4]. apply andb_true_iff in H as [H H3]. apply andb_true_iff in H as [H1 H2].
    apply Z.eqb_eq in H1. subst n. destruct s as [|c s]; [discriminate|].
    repeat split; [|assumption|discriminate].
    unfold NewPRVersion. apply negb_true_iff in H3. rewrite H3, H2. reflexivity.
Qed.

Lemma opt_map_all_idents pre : forallb wf_ident pre = true ->
  opt_map_all NewPRVersion (map ident_string pre) = Some pre.
Proof.
  induction pre as [|p pre IH]; intros H; [reflexivity|].
  cbn [forallb] in H. apply andb_true_iff in H as [Hp H].
  cbn [map opt_map_all]. destruct (wf_ident_spec p Hp) as (E & _). rewrite E, (IH H). reflexivity.
Qed.

Lemma opt_map_all_builds bld : forallb wf_build bld = true -> opt_map_all check_build bld = Some bld.
Proof.
  induction bld as [|b bld IH]; intros H; [reflexivity|].
  cbn [forallb] in H. apply andb_true_iff in H as [Hb H].
  cbn [opt_map_all]. rewrite (IH H). unfold wf_build in Hb. apply andb_true_iff in Hb as [H1 H2].
  unfold check_build. destruct b; [discriminate|]. now rewrite H1.
Qed.

Lemma idents_lack c pre : is_alphanum c = false -> forallb wf_ident pre = true ->
  Forall (lacks c) (map ident_string pre).
Proof.
  intros Hc H. apply Forall_forall. intros s Hs. apply in_map_iff in Hs as (p & <- & Hp).
  rewrite forallb_forall in H. destruct (wf_ident_spec p (H p Hp)) as (_ & Ha & _). now apply alnum_lack.
Qed.

Lemma builds_lack c bld : is_alphanum c = false -> forallb wf_build bld = true -> Forall (lacks c) bld.
Proof.
  intros Hc H. apply Forall_forall. intros s Hs. rewrite forallb_forall in H. specialize (H s Hs).
  unfold wf_build in H. apply andb_true_iff in H as [H _]. now apply alnum_lack.
Qed.

Lemma join_lacks c sep l : lacks c sep -> Forall (lacks c) l -> lacks c (join sep l).
Proof.
  intros Hs. induction l as [|x l IH]; intros Hl; [constructor|].
  inversion Hl; subst. destruct l as [|y l']; [assumption|].
  change (join sep (x :: y :: l')) with (x ++ sep ++ join sep (y :: l')).
  apply lacks_app; [assumption|]. apply lacks_app; [assumption|]. now apply IH.
Qed.

(** * Parse inverts version_string *)
Definition pre_part (v : Version) : str := match v_pre v with [] => [] | l => [45] ++ join [46] (map ident_string l) end.
Definition build_part (v : Version) : str := match v_build v with [] => [] | l => [43] ++ join [46] l end.

Lemma version_string_parts v :
  version_string v = dec_nonneg (v_major v) ++ 46 :: (dec_nonneg (v_minor v) ++ 46 :: (dec_nonneg (v_patch v) ++ pre_part v ++ build_part v)).
Proof. reflexivity. Qed.

Lemma wf_version_unfold v : wf_version v = true ->
  0 <= v_major v < 2 ^ 64 /\ 0 <= v_minor v < 2 ^ 64 /\ 0 <= v_patch v < 2 ^ 64 /\
  forallb wf_ident (v_pre v) = true /\ forallb wf_build (v_build v) = true.
Proof.
  unfold wf_version. intros H. apply andb_true_iff in H as [H Hb]. apply andb_true_iff in H as [Hn Hp].
  cbn [forallb] in Hn. rewrite !andb_true_iff, !Z.leb_le, !Z.ltb_lt in Hn. intuition.
Qed.

Lemma pre_part_lacks_plus v : forallb wf_ident (v_pre v) = true -> lacks 43 (pre_part v).
Proof.
  intros H. unfold pre_part. destruct (v_pre v) as [|p l] eqn:E; [constructor|].
  apply lacks_app; [repeat constructor; discriminate|].
  apply join_lacks; [repeat constructor; discriminate|]. rewrite <- E in *. now apply idents_lack.
Qed.

Lemma Parse_print v : wf_version v = true -> Parse (version_string v) = Some v.
Proof.
  intros Hw. apply wf_version_unfold in Hw as (Hma & Hmi & Hpa & Hpre & Hbld).
  rewrite version_string_parts. unfold Parse.
  pose proof (dec_nonneg_nonempty (v_major v) (proj1 Hma)) as Hne.
  match goal with |- (if Nat.eqb (length ?S) 0 then _ else _) = _ =>
    assert (Hlen : Nat.eqb (length S) 0 = false) end.
  { rewrite app_length. destruct (dec_nonneg (v_major v)); [congruence|reflexivity]. }
  rewrite Hlen. clear Hlen.
  assert (D : forall n, 0 <= n -> lacks 46 (dec_nonneg n)) by (intros n Hn; apply digits_lack; [reflexivity|now apply dec_nonneg_digits]).
  cbn [splitN]. rewrite (split_first_byte 46 _ _ (D _ (proj1 Hma))), (split_first_byte 46 _ _ (D _ (proj1 Hmi))).
  rewrite (parse_component_dec _ Hma), (parse_component_dec _ Hmi).
  set (P := dec_nonneg (v_patch v)).
  assert (HP43 : lacks 43 P) by (apply digits_lack; [reflexivity|now apply dec_nonneg_digits]).
  assert (HP45 : lacks 45 P) by (apply digits_lack; [reflexivity|now apply dec_nonneg_digits]).
  pose proof (pre_part_lacks_plus v Hpre) as Hpp.
  assert (HBl : Forall (lacks 46) (v_build v)) by (apply builds_lack; [reflexivity|assumption]).
  assert (HPl : Forall (lacks 46) (map ident_string (v_pre v))) by (apply idents_lack; [reflexivity|assumption]).
  (* the build part *)
  assert (Hcut43 : cut_byte 43 (P ++ pre_part v ++ build_part v) =
                   match v_build v with [] => None | l => Some (P ++ pre_part v, join [46] l) end).
  { unfold cut_byte, build_part. destruct (v_build v) as [|b l].
    - rewrite app_nil_r. apply split_first_none. now apply lacks_app.
    - rewrite app_assoc. cbn [app]. apply split_first_byte. now apply lacks_app. }
  rewrite Hcut43.
  assert (Hsplitb : match v_build v with [] => True | l => split [46] (join [46] l) = l end).
  { destruct (v_build v) as [|b l]; [exact I|]. apply split_join; [discriminate|assumption]. }
  (* the pre-release part *)
  assert (Hcut45 : cut_byte 45 (P ++ pre_part v) =
                   match v_pre v with [] => None | l => Some (P, join [46] (map ident_string l)) end).
  { unfold cut_byte, pre_part. destruct (v_pre v) as [|p l].
    - rewrite app_nil_r. now apply split_first_none.
    - cbn [app]. now apply split_first_byte. }
  assert (Hsplitp : match v_pre v with [] => True | l => split [46] (join [46] (map ident_string l)) = map ident_string l end).
  { destruct (v_pre v) as [|p l]; [exact I|]. apply split_join; [discriminate|assumption]. }
  assert (Hfin : forall prerelease build, prerelease = map ident_string (v_pre v) -> build = v_build v ->
            match parse_component P with
            | Some patch =>
                match opt_map_all NewPRVersion prerelease, opt_map_all check_build build with
                | Some pre, Some bld => Some {| v_major := v_major v; v_minor := v_minor v; v_patch := patch; v_pre := pre; v_build := bld |}
                | _, _ => None
                end
            | None => None
            end = Some v).
  { intros ? ? -> ->. unfold P. rewrite (parse_component_dec _ Hpa), (opt_map_all_idents _ Hpre), (opt_map_all_builds _ Hbld).
    destruct v; reflexivity. }
  assert (Hpp0 : v_pre v = [] -> pre_part v = []) by (intros E; unfold pre_part; now rewrite E).
  assert (Hbp0 : v_build v = [] -> build_part v = []) by (intros E; unfold build_part; now rewrite E).
  destruct (v_build v) as [|b bl] eqn:Eb.
  - (* no build metadata *)
    rewrite (Hbp0 eq_refl), app_nil_r in *.
    rewrite Hcut45. destruct (v_pre v) as [|p pl] eqn:Ep.
    + rewrite (Hpp0 eq_refl), app_nil_r. apply Hfin; reflexivity.
    + rewrite Hsplitp. apply Hfin; reflexivity.
  - rewrite Hsplitb. rewrite Hcut45. destruct (v_pre v) as [|p pl] eqn:Ep.
    + rewrite (Hpp0 eq_refl), app_nil_r. apply Hfin; reflexivity.
    + rewrite Hsplitp. apply Hfin; reflexivity.
Qed.
