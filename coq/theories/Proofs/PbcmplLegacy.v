(** C07: the defect repaired by /repo commit 815cf27.  Against the pre-fix
    Unmarshal (Model/LegacyPbcmpl.v) "never panics" is false: a 32-byte header
    whose body-size field is 2^63 reaches make([]byte, negative). *)
From Coq Require Import ZArith List Bool Lia.
From Low Require Import Lib.MachInt Lib.BitSeq Lib.Bytes
  Model.Pbcmpl Model.LegacyPbcmpl Spec.PbcmplSpec Proofs.PbcmplIO.
Import ListNotations.
Open Scope Z_scope.

(** the witness: version "1.0.0", header size 32, body size 2^63, nothing else *)
Definition corrupt_bsize_header : list Z := frame_header default_ver (2 ^ 63).

Lemma corrupt_bsize_header_ok :
  bytes_okb corrupt_bsize_header = true /\ zlen corrupt_bsize_header = 32.
Proof. vm_compute. split; reflexivity. Qed.

Theorem legacy_total_refuted :
  exists cs t,
    chunks_ok cs /\ bytes_ok (concat cs) /\
    legacy_c_Unmarshal 0 (cs, t) = None /\
    c_Unmarshal 0 (cs, t)
      = Some (32, default_ver, Some EInvalidBodySize, None, ([], t)).
Proof.
  exists [corrupt_bsize_header], {| t_err := EEOF; t_with_last := false |}.
  split; [|split; [|split]].
  - unfold chunks_ok. cbn [last]. discriminate.
  - apply bytes_okb_ok. vm_compute. reflexivity.
  - vm_compute. reflexivity.
  - vm_compute. reflexivity.
Qed.
