(** C18: "the returned count equals the bytes passed through", for every call
    of every call sequence: a Write / WriteAt makes at most one call to the
    underlying writer and returns exactly the number of bytes that writer
    accepted of it (0 when nothing reached it); Seek and Size never reach the
    writer.  Also the generic lifting of a per-call fact to whole sequences. *)
From Coq Require Import ZArith List Bool Lia.
From Low Require Import Lib.MachInt Lib.BitSeq Model.SectionWriter Spec.SectionWriterSpec Run.C18
  Proofs.SectionWriterProofs Proofs.SectionWriterCalls Proofs.SectionIOProofs.
Import ListNotations.
Open Scope Z_scope.

(** a fact that holds of every call made from a state representing some cursor
    holds of every call of every sequence *)
Lemma run_Forall2 o n (P : call -> out -> Prop) : sec_ok o n ->
  (forall s pos sc c, R o n s pos -> script_ok sc -> call_ok c -> P c (snd (step s sc c))) ->
  forall cs s pos sc, R o n s pos -> script_ok sc -> Forall call_ok cs ->
  Forall2 P cs (run s sc cs).
Proof.
  intros Hs HP. induction cs as [|c cs IH]; intros s pos sc HR Hsc Hcs; cbn [run]; [constructor|].
  inversion Hcs as [|? ? Hc Hcs']; subst.
  pose proof (HP s pos sc c HR Hsc Hc) as Hp.
  pose proof (step_refines o n s pos sc c Hs HR Hsc Hc) as Hstep.
  destruct (step s sc c) as [[s' sc'] r]. cbn [snd] in Hp.
  destruct (astep o n pos sc (to_acall c)) as [[pos' asc'] ar].
  destruct Hstep as (HR' & _ & _ & Hsc').
  constructor; [exact Hp|]. eapply IH; eauto.
Qed.

(** bytes of the call [u] that a writer answering [cnt] accepted *)
Definition accepted (cnt : Z) (u : ucall) : Z := zlen (firstn (Z.to_nat cnt) (snd u)).

Definition count_is_bytes (c : call) (r : out) : Prop :=
  match c with
  | CWrite _ | CWriteAt _ _ =>
      (length (ucalls r) <= 1)%nat /\
      ret_cnt r = zsum (map (accepted (ret_cnt r)) (ucalls r))
  | CSeek _ _ | CSize => ucalls r = []
  end.

Lemma step_count_is_bytes o n s pos sc c :
  sec_ok o n -> R o n s pos -> script_ok sc -> call_ok c ->
  count_is_bytes c (snd (step s sc c)).
Proof.
  intros Hs HR Hsc Hc. destruct c as [p|p a|d wh|]; cbn [step count_is_bytes call_ok] in *.
  - pose proof (write_accounting_R o n s pos sc p Hs HR Hsc) as HA.
    unfold write_accounting in HA.
    destruct (Write s sc p) as [[s' sc'] r]. cbn [snd].
    destruct HA as [(_ & _ & _ & Hr & Hu)|(_ & HA)].
    + rewrite Hu. unfold ret_cnt. rewrite Hr. cbn. split; [lia|reflexivity].
    + cbv zeta in HA.
      destruct (under sc _) as [[cnt e] rest].
      destruct HA as (Hu & _ & _ & _ & _ & Hc' & Hr).
      rewrite Hu. unfold ret_cnt. rewrite Hr. cbn [nth map zsum length]. split; [lia|].
      unfold accepted. cbn [snd]. rewrite firstn_firstn.
      pose proof (zlen_nonneg p).
      rewrite Nat.min_l by lia. rewrite zlen_firstn by lia. lia.
  - pose proof (writeat_accounting_R o n s pos sc p a Hs HR Hsc Hc) as HA.
    unfold writeat_accounting in HA.
    destruct (WriteAt s sc p a) as [[s' sc'] r]. cbn [snd].
    destruct HA as (_ & [(_ & _ & Hr & Hu)|(_ & HA)]).
    + rewrite Hu. unfold ret_cnt. rewrite Hr. cbn. split; [lia|reflexivity].
    + cbv zeta in HA.
      destruct (under sc _) as [[cnt e] rest].
      destruct HA as (Hu & _ & Hc' & Hr).
      rewrite Hu. unfold ret_cnt. rewrite Hr. cbn [nth map zsum length]. split; [lia|].
      unfold accepted. cbn [snd]. rewrite firstn_firstn.
      pose proof (zlen_nonneg p).
      rewrite Nat.min_l by lia. rewrite zlen_firstn by lia. lia.
  - unfold Seek.
    destruct (if wh =? 0 then Some (i64 (d + base s)) else if wh =? 1 then Some (i64 (d + off s))
              else if wh =? 2 then Some (i64 (d + limit s)) else None) as [t|]; [|reflexivity].
    destruct (t <? base s); reflexivity.
  - reflexivity.
Qed.

Theorem section_count_is_bytes o n sc cs :
  sec_ok o n -> script_ok sc -> Forall call_ok cs ->
  Forall2 count_is_bytes cs (run (NewSectionWriter o n) sc cs).
Proof.
  intros Hs Hsc Hcs.
  apply (run_Forall2 o n count_is_bytes Hs) with (pos := 0); auto.
  - intros s pos sc' c HR Hsc' Hc. now apply (step_count_is_bytes o n s pos).
  - now apply R_new.
Qed.
