(** The checker of C04's correspondence run on tall trees ([spec_allpaths_win]:
    the enumeration with the sub-trees outside [from, to) pruned) returns
    exactly the specification ([spec_allpaths]: the filter of the whole
    enumerated pre-order), so what ./check evaluates is the specification. *)
From Coq Require Import ZArith List Lia Bool.
From Low Require Import Lib.Bits Lib.BitSeq Lib.Lex Lib.Bytes Lib.BitsExtra_tree Lib.SortedZ_tree4
  Spec.Bmtree Spec.AllPathsSpec Proofs.BmtreePathProofs Proofs.BmtreeAllPathsProofs.
Import ListNotations.
Open Scope Z_scope.

Lemma bits_cmp_app_l r a b : bits_cmp (r ++ a) (r ++ b) = bits_cmp a b.
Proof.
  unfold bits_cmp. induction r as [|c r IH]; cbn [app lex_cmp]; [reflexivity|].
  now rewrite bool_cmp_refl.
Qed.

Lemma bits_cmp_nil_l s : bits_cmp [] s <> Gt.
Proof. destruct s; cbn; discriminate. Qed.

Lemma bits_cmp_le_ones : forall s k, (length s <= k)%nat -> bits_cmp s (repeat true k) <> Gt.
Proof.
  unfold bits_cmp. induction s as [|b s IH]; intros k Hk.
  - apply bits_cmp_nil_l.
  - destruct k as [|k]; [cbn [length] in Hk; lia|]. cbn [repeat lex_cmp length] in *.
    destruct b; cbn [bool_cmp]; [apply IH; lia|discriminate].
Qed.

(** the words of the sub-tree of [r] lie between the word of [r] and the word of its right-most leaf *)
Lemma enc_subtree_range H r s k : (H <= 32)%nat -> (length r + k <= H)%nat -> (length s <= k)%nat ->
  enc H r <= enc H (r ++ s) <= enc H (r ++ repeat true k).
Proof.
  intros HH Hr Hs. split; unfold Z.le; rewrite enc_compare;
    try lia; rewrite ?app_length, ?repeat_length; try lia.
  - rewrite <- (app_nil_r r) at 1. rewrite bits_cmp_app_l. apply bits_cmp_nil_l.
  - rewrite bits_cmp_app_l. now apply bits_cmp_le_ones.
Qed.

Definition subtree (k : nat) (r : node) : list node := map (app r) (all_nodes k).

Lemma subtree_0 r : subtree 0 r = [r].
Proof. unfold subtree. cbn [all_nodes map]. now rewrite app_nil_r. Qed.

Lemma subtree_S k r : subtree (S k) r = r :: subtree k (r ++ [false]) ++ subtree k (r ++ [true]).
Proof.
  unfold subtree. cbn [all_nodes map]. rewrite app_nil_r, map_app, !map_map. f_equal.
  f_equal; apply map_ext; intros s; now rewrite <- app_assoc.
Qed.

Lemma subtree_In k r q : In q (subtree k r) -> exists s, q = r ++ s /\ (length s <= k)%nat.
Proof.
  unfold subtree. rewrite in_map_iff. intros (s & <- & Hs). exists s. split; [reflexivity|].
  now apply all_nodes_length.
Qed.

Lemma win_nodes_spec : forall k H r from to, (H <= 32)%nat -> (length r + k <= H)%nat ->
  win_nodes k H r from to = filter (fun q => in_window from to (enc H q)) (subtree k r).
Proof.
  induction k as [|k IH]; intros H r from to HH Hr.
  - cbn [win_nodes]. rewrite subtree_0. cbn [filter repeat]. rewrite !app_nil_r. unfold in_window.
    destruct (enc H r <? from) eqn:E1; cbn [orb].
    + apply Z.ltb_lt in E1. replace (from <=? enc H r) with false by (symmetry; apply Z.leb_gt; lia). reflexivity.
    + apply Z.ltb_ge in E1. replace (from <=? enc H r) with true by (symmetry; apply Z.leb_le; lia).
      destruct (to <=? enc H r) eqn:E2; cbn [andb].
      * apply Z.leb_le in E2. replace (enc H r <? to) with false by (symmetry; apply Z.ltb_ge; lia). reflexivity.
      * apply Z.leb_gt in E2. replace (enc H r <? to) with true by (symmetry; apply Z.ltb_lt; lia). reflexivity.
  - cbn [win_nodes].
    destruct ((enc H (r ++ repeat true (S k)) <? from) || (to <=? enc H r)) eqn:Ep.
    + symmetry. apply filter_none. intros q Hq. apply subtree_In in Hq. destruct Hq as (s & -> & Hs).
      pose proof (enc_subtree_range H r s (S k) HH Hr Hs) as Hrange.
      unfold in_window. apply orb_true_iff in Ep. destruct Ep as [Ep|Ep].
      * apply Z.ltb_lt in Ep. replace (from <=? enc H (r ++ s)) with false by (symmetry; apply Z.leb_gt; lia). reflexivity.
      * apply Z.leb_le in Ep. replace (enc H (r ++ s) <? to) with false by (symmetry; apply Z.ltb_ge; lia).
        apply andb_false_r.
    + apply orb_false_iff in Ep. destruct Ep as (_ & Ep). apply Z.leb_gt in Ep.
      rewrite subtree_S. cbn [filter]. rewrite filter_app.
      rewrite <- !IH by (try assumption; rewrite app_length; cbn [length]; lia).
      unfold in_window at 1. replace (enc H r <? to) with true by (symmetry; apply Z.ltb_lt; lia).
      rewrite andb_true_r. destruct (from <=? enc H r); reflexivity.
Qed.

Lemma filter_comm {A} (f g : A -> bool) l : filter f (filter g l) = filter g (filter f l).
Proof.
  induction l as [|a l IH]; cbn [filter]; [reflexivity|].
  destruct (g a) eqn:Eg, (f a) eqn:Ef; cbn [filter]; rewrite ?Eg, ?Ef, IH; reflexivity.
Qed.

Lemma spec_allpaths_win_eq T h from to : (h <= 32)%nat ->
  spec_allpaths_win T h from to = spec_allpaths T h from to.
Proof.
  intros Hh. unfold spec_allpaths_win, spec_allpaths, stored_words, stored_nodes.
  rewrite win_nodes_spec by (cbn [length]; lia).
  unfold subtree. rewrite (map_ext (app []) (fun s => s)) by reflexivity. rewrite map_id.
  rewrite filter_map_comm. f_equal. apply filter_comm.
Qed.

(** what the correspondence run evaluates is the specification, for every height Go allows *)
Lemma check_allpaths_eq T h from to : (h <= 32)%nat ->
  check_allpaths T h from to = spec_allpaths T h from to.
Proof.
  intros Hh. unfold check_allpaths. destruct (h <=? 10)%nat; [reflexivity|].
  now apply spec_allpaths_win_eq.
Qed.
