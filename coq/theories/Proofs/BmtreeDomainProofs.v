(** C03 widening: the contracts of the [-tags debug] build characterise the
    domain of PathToIndex / PathToIndexLoose on RAW arguments: they hold iff the
    level mask is in [1, 2^31) and the word is the path word of a node of the
    tree — or the word has an empty mask half under non-zero search bits (the
    gap of pathCheck's early return, [gap_word]). *)
From Coq Require Import ZArith List Lia Bool.
From Low Require Import Lib.MachInt Lib.Bits Lib.BitSeq Lib.Lex Lib.Bytes Lib.BitsExtra_tree
  Spec.Bmtree Spec.IndexSpec Spec.ContractSpec Model.BmtreePath Model.BmtreeIndex
  Proofs.BmtreePathProofs Proofs.BmtreeRankSpec Proofs.ShiftMultiProofs Proofs.BmtreeIndexProofs
  Proofs.BmtreeContractProofs.
Import ListNotations.
Open Scope Z_scope.

(** * the decoder *)

Lemma node_of_length l x : length (node_of l x) = l.
Proof. unfold node_of. now rewrite rev_length, bits_length. Qed.

Lemma val_msb_node_of : forall l x, val_msb (node_of l x) = x mod 2 ^ Z.of_nat l.
Proof.
  unfold node_of. induction l as [|n IH]; intros x.
  - cbn [bits rev]. change (2 ^ Z.of_nat 0) with 1. now rewrite Z.mod_1_r.
  - rewrite bits_S. cbn [rev]. rewrite val_msb_snoc, Z.div2_div, IH.
    rewrite mod_pow2_S, Z.bit0_odd. reflexivity.
Qed.

Lemma node_of_val_msb q : node_of (length q) (val_msb q) = q.
Proof. unfold node_of. rewrite bits_val_msb. apply rev_involutive. Qed.

Lemma decode_enc h q : (h <= 32)%nat -> (length q <= h)%nat -> decode_word h (enc h q) = Some q.
Proof.
  intros Hh Hq. unfold decode_word.
  pose proof (enc_mod32 h q Hh Hq) as Em. unfold u32 in Em. rewrite Em.
  rewrite (enc_div32 h q Hh Hq). rewrite (popcount_maskL h q Hh Hq), Nat2Z.id.
  set (d := Z.of_nat h - Z.of_nat (length q)).
  destruct (Nat.leb_spec (length q) h) as [_|]; [|lia].
  unfold maskL at 1. fold d. rewrite Z.eqb_refl.
  unfold valL. fold d. rewrite Z_mod_mult, Z.eqb_refl.
  pose proof (valL_lt h q Hq) as Hv. unfold valL in Hv. fold d in Hv.
  destruct (Z.ltb_spec (val_msb q * 2 ^ d) (2 ^ Z.of_nat h)); [|lia]. cbn [andb].
  rewrite Z.div_mul by (pose proof (pow2_pos d ltac:(unfold d; lia)); lia).
  now rewrite node_of_val_msb.
Qed.

Lemma decode_sound h w q : 0 <= w -> decode_word h w = Some q -> (length q <= h)%nat /\ w = enc h q.
Proof.
  intros Hw. unfold decode_word.
  set (m := w mod 2 ^ 32). set (p := w / 2 ^ 32). set (l := Z.to_nat (popcount m)).
  set (d := Z.of_nat h - Z.of_nat l).
  destruct (Nat.leb_spec l h) as [Hl|]; [|discriminate].
  destruct (Z.eqb_spec m (Mask (Z.of_nat l) * 2 ^ d)) as [Em|]; [|discriminate].
  destruct (Z.eqb_spec (p mod 2 ^ d) 0) as [Ep|]; [|discriminate].
  destruct (Z.ltb_spec p (2 ^ Z.of_nat h)) as [Hp|]; [|discriminate].
  cbn [andb]. intros E. injection E as <-. rewrite node_of_length. split; [exact Hl|].
  assert (Hd : 0 <= d) by (unfold d; lia). pose proof (pow2_pos d Hd) as Hd2.
  assert (Hp0 : 0 <= p) by (unfold p; apply Z.div_pos; lia).
  pose proof (Z.div_mod p (2 ^ d) ltac:(lia)) as Hdm. rewrite Ep in Hdm.
  assert (Hq : 0 <= p / 2 ^ d < 2 ^ Z.of_nat l).
  { split; [apply Z.div_pos; lia|]. apply Z.div_lt_upper_bound; [lia|].
    replace (2 ^ d * 2 ^ Z.of_nat l) with (2 ^ Z.of_nat h); [exact Hp|].
    unfold d. rewrite <- Z.pow_add_r by lia. f_equal. lia. }
  unfold enc, valL. rewrite node_of_length, val_msb_node_of. fold d.
  rewrite Z.mod_small by exact Hq. rewrite <- Em.
  replace (p / 2 ^ d * 2 ^ d) with p by lia.
  unfold p, m. pose proof (Z.div_mod w (2 ^ 32) ltac:(lia)). lia.
Qed.

Lemma decode_word_iff h w q : (h <= 32)%nat -> 0 <= w ->
  decode_word h w = Some q <-> (length q <= h)%nat /\ w = enc h q.
Proof.
  intros Hh Hw. split; [now apply decode_sound|]. intros [Hq ->]. now apply decode_enc.
Qed.

(** * arithmetic helpers *)

Lemma bits_above_false_lt x k : 0 <= x -> 0 <= k ->
  (forall n, k <= n -> Z.testbit x n = false) -> x < 2 ^ k.
Proof.
  intros Hx Hk H. destruct (Z.eq_dec x 0) as [->|Hne]; [apply pow2_pos; lia|].
  apply Z.log2_lt_pow2; [lia|]. destruct (Z.lt_ge_cases (Z.log2 x) k) as [|Hge]; [assumption|].
  specialize (H (Z.log2 x) Hge). rewrite (Z.bit_log2 x) in H by lia. discriminate.
Qed.

Lemma pos_pop_pos p : 1 <= pos_pop p.
Proof. induction p; cbn [pos_pop]; lia. Qed.

Lemma popcount_zero y : 0 <= y -> popcount y = 0 -> y = 0.
Proof. intros Hy H. destruct y as [|p|p]; [reflexivity| |lia]. cbn [popcount] in H. pose proof (pos_pop_pos p). lia. Qed.

Lemma bitlen_pos x : 0 < x -> bitlen x = Z.log2 x + 1.
Proof. intros Hx. destruct x; try lia. reflexivity. Qed.

Lemma bitlen_bound x : 0 < x -> 2 ^ (bitlen x - 1) <= x < 2 ^ bitlen x.
Proof.
  intros Hx. rewrite bitlen_pos by exact Hx. pose proof (Z.log2_spec x Hx).
  replace (Z.log2 x + 1 - 1) with (Z.log2 x) by lia. replace (Z.log2 x + 1) with (Z.succ (Z.log2 x)) by lia. exact H.
Qed.

(** a positive number whose popcount equals its bit length is all ones *)
Lemma all_ones_of_popcount x : 0 < x -> popcount x = bitlen x -> x = 2 ^ bitlen x - 1.
Proof.
  intros Hx E. pose proof (bitlen_bound x Hx) as Hb. pose proof (bitlen_nonneg x) as Hn.
  set (n := Z.to_nat (bitlen x)). assert (En : Z.of_nat n = bitlen x) by (unfold n; lia).
  rewrite <- En in *.
  pose proof (popcount_compl n x ltac:(lia)) as Hc. rewrite E in Hc.
  assert (2 ^ Z.of_nat n - 1 - x = 0) by (apply popcount_zero; lia). lia.
Qed.

Lemma bitlen_mul_pow2 x d : 0 < x -> 0 <= d -> bitlen (x * 2 ^ d) = bitlen x + d.
Proof.
  intros Hx Hd. pose proof (pow2_pos d Hd).
  rewrite !bitlen_pos by nia. rewrite Z.log2_mul_pow2 by lia. lia.
Qed.

(** [m | (m - 1)] fills the trailing zeros: for m = m' * 2^d with m' odd it is m + 2^d - 1 *)
Lemma lor_pred_odd y d : 0 <= y -> 0 <= d ->
  Z.lor ((2 * y + 1) * 2 ^ d) ((2 * y + 1) * 2 ^ d - 1) = (2 * y + 1) * 2 ^ d + (2 ^ d - 1).
Proof.
  intros Hy Hd. pose proof (pow2_pos d Hd).
  replace ((2 * y + 1) * 2 ^ d - 1) with ((2 * y) * 2 ^ d + (2 ^ d - 1)) by lia.
  replace ((2 * y + 1) * 2 ^ d) with ((2 * y + 1) * 2 ^ d + 0) at 1 by lia.
  apply Z.bits_inj'. intros n Hn.
  rewrite Z.lor_spec, !testbit_hi_lo by lia.
  destruct (Z.ltb_spec n d); [now rewrite Z.bits_0|].
  destruct (Z.eq_dec (n - d) 0) as [->|Hne].
  - rewrite Z.testbit_odd_0. reflexivity.
  - replace (n - d) with (Z.succ (n - d - 1)) by lia.
    rewrite Z.testbit_odd_succ, Z.testbit_even_succ by lia. apply orb_diag.
Qed.

(** * from the contracts to the shape of the arguments *)

Lemma sizeCheck_inv T : - 2 ^ 31 <= T < 2 ^ 31 -> bitmapSizeCheck T = true -> 1 <= T < 2 ^ 31.
Proof.
  intros HT H. unfold bitmapSizeCheck in H. apply andb_prop in H. destruct H as [H1 H2].
  apply Z.leb_le in H1. destruct (Z.eqb_spec T 0) as [|Hne]; [discriminate|].
  destruct (Z.lt_ge_cases T 0) as [Hneg|]; [exfalso|lia].
  assert (Eu : u32 T = T + 2 ^ 32).
  { unfold u32. symmetry. apply (Z.mod_unique_pos _ _ (-1)); lia. }
  rewrite Eu in H1. rewrite bitlen_pos in H1 by lia.
  assert (31 <= Z.log2 (T + 2 ^ 32)) by (apply Z.log2_le_pow2; lia). lia.
Qed.

Lemma word_split w : 0 <= w < 2 ^ 64 ->
  w = (w / 2 ^ 32) * 2 ^ 32 + u32 w /\ 0 <= w / 2 ^ 32 < 2 ^ 32 /\ 0 <= u32 w < 2 ^ 32.
Proof.
  intros Hw. unfold u32. pose proof (Z.div_mod w (2 ^ 32) ltac:(lia)).
  pose proof (Z.mod_pos_bound w (2 ^ 32) ltac:(lia)).
  assert (0 <= w / 2 ^ 32) by (apply Z.div_pos; lia).
  assert (w / 2 ^ 32 < 2 ^ 32) by (apply Z.div_lt_upper_bound; lia).
  repeat split; lia.
Qed.

Lemma testbit_c_30 : forall n, 30 <= n < 32 -> Z.testbit (3 * 2 ^ 30) n = true.
Proof. intros n Hn. assert (n = 30 \/ n = 31) as [-> | ->] by lia; reflexivity. Qed.

(** "path only has at most 30 bits", read backwards *)
Lemma land_top2_inv p m : 0 <= p < 2 ^ 32 -> 0 <= m < 2 ^ 32 ->
  Z.land (p * 2 ^ 32 + m) 0xc0000000c0000000 = 0 -> p < 2 ^ 30 /\ m < 2 ^ 30.
Proof.
  intros Hp Hm H. change 0xc0000000c0000000 with ((3 * 2 ^ 30) * 2 ^ 32 + 3 * 2 ^ 30) in H.
  assert (Hb : forall n, 0 <= n -> Z.testbit (p * 2 ^ 32 + m) n && Z.testbit (3 * 2 ^ 30 * 2 ^ 32 + 3 * 2 ^ 30) n = false).
  { intros n Hn. rewrite <- Z.land_spec, H. apply Z.bits_0. }
  split; apply bits_above_false_lt; try lia; intros n Hn.
  - destruct (Z.lt_ge_cases n 32); [|apply (testbit_small p 32); lia].
    specialize (Hb (n + 32) ltac:(lia)). rewrite !testbit_hi_lo in Hb by lia.
    destruct (Z.ltb_spec (n + 32) 32); [lia|]. replace (n + 32 - 32) with n in Hb by lia.
    rewrite testbit_c_30 in Hb by lia. now rewrite andb_true_r in Hb.
  - destruct (Z.lt_ge_cases n 32); [|apply (testbit_small m 32); lia].
    specialize (Hb n ltac:(lia)). rewrite !testbit_hi_lo in Hb by lia.
    destruct (Z.ltb_spec n 32); [|lia].
    rewrite testbit_c_30 in Hb by lia. now rewrite andb_true_r in Hb.
Qed.

(** the shape pathCheck forces on a word with a non-empty mask half *)
Lemma pathCheck_inv w : 0 <= w < 2 ^ 64 -> pathCheck w = true ->
  w / 2 ^ 32 < 2 ^ 30 /\ u32 w < 2 ^ 30 /\
  (u32 w = 0 \/
   exists l d : nat, (1 <= l)%nat /\ Z.of_nat l + Z.of_nat d = bitlen (u32 w) /\
     u32 w = (2 ^ Z.of_nat l - 1) * 2 ^ Z.of_nat d /\
     (w / 2 ^ 32) mod 2 ^ Z.of_nat d = 0 /\ w / 2 ^ 32 < 2 ^ (Z.of_nat l + Z.of_nat d)).
Proof.
  intros Hw H. destruct (word_split w Hw) as (Ew & Hp & Hm).
  set (p := w / 2 ^ 32) in *. set (m := u32 w) in *.
  unfold pathCheck in H. apply andb_prop in H. destruct H as [H1 H2].
  apply Z.eqb_eq in H1. rewrite Ew in H1.
  destruct (land_top2_inv p m Hp Hm H1) as [Hp30 Hm30].
  split; [exact Hp30|]. split; [exact Hm30|].
  fold m in H2. destruct (Z.eqb_spec m 0) as [E0|Hne]; [now left|right].
  apply andb_prop in H2. destruct H2 as [H2 H3].
  apply Z.eqb_eq in H2. apply Z.eqb_eq in H3.
  (* extended = m | (m - 1) *)
  rewrite (u64_id (w - 1)) in H2 by lia. rewrite u32_lor in H2. fold m in H2.
  replace (u32 (w - 1)) with (m - 1) in H2.
  2:{ rewrite Ew. replace (p * 2 ^ 32 + m - 1) with (p * 2 ^ 32 + (m - 1)) by lia.
      unfold u32. rewrite mod_hi_lo by lia. reflexivity. }
  destruct (tz_decomp 64 m ltac:(lia)) as (y & Hy & Ht & Em). set (t := tz 64 m) in *.
  set (d := Z.to_nat t). assert (Ed : Z.of_nat d = t) by (unfold d; lia).
  pose proof (pow2_pos t Ht) as Hpt.
  replace m with ((2 * y + 1) * 2 ^ t) in H2 by lia.
  rewrite lor_pred_odd in H2 by lia.
  rewrite <- Ed in H2.
  rewrite popcount_concat in H2 by (rewrite ?Ed; lia).
  rewrite popcount_ones in H2. rewrite Ed in H2.
  rewrite bitlen_mul_pow2 in H2 by lia.
  assert (Eo : 2 * y + 1 = 2 ^ bitlen (2 * y + 1) - 1) by (apply all_ones_of_popcount; lia).
  pose proof (bitlen_bound (2 * y + 1) ltac:(lia)) as Hbl.
  pose proof (bitlen_nonneg (2 * y + 1)) as Hbn.
  assert (Hl1 : 1 <= bitlen (2 * y + 1)).
  { destruct (Z.eq_dec (bitlen (2 * y + 1)) 0) as [E|]; [|lia]. rewrite E in Eo. change (2 ^ 0) with 1 in Eo. lia. }
  set (l := Z.to_nat (bitlen (2 * y + 1))). assert (El : Z.of_nat l = bitlen (2 * y + 1)) by (unfold l; lia).
  assert (Em' : m = (2 ^ Z.of_nat l - 1) * 2 ^ Z.of_nat d) by (rewrite El, Ed, <- Eo; lia).
  assert (Ebl : Z.of_nat l + Z.of_nat d = bitlen m).
  { rewrite Em at 1. replace (2 ^ t * (2 * y + 1)) with ((2 * y + 1) * 2 ^ t) by lia.
    rewrite bitlen_mul_pow2 by lia. lia. }
  assert (Hld : Z.of_nat l + Z.of_nat d <= 30).
  { rewrite Ebl. apply bitlen_le; lia. }
  exists l, d. split; [lia|]. split; [exact Ebl|]. split; [exact Em'|].
  (* ^pmask & pbits = 0 *)
  rewrite (shr64_div w 32) in H3 by lia. fold p in H3. rewrite (u32_id p) in H3 by lia. unfold not32 in H3.
  assert (Hb : forall n, 0 <= n -> Z.testbit m n = false -> n < 32 -> Z.testbit p n = false).
  { intros n Hn Hmn Hn32.
    assert (Hz : Z.testbit (Z.land (2 ^ 32 - 1 - m) p) n = false) by (rewrite H3; apply Z.bits_0).
    rewrite Z.land_spec, testbit_compl in Hz by lia. rewrite Hmn in Hz.
    destruct (Z.ltb_spec n 32); [|lia]. exact Hz. }
  assert (Hmbit : forall n, 0 <= n -> Z.testbit m n = (Z.of_nat d <=? n) && (n <? Z.of_nat l + Z.of_nat d)).
  { intros n Hn. rewrite Em'. destruct (Z.leb_spec (Z.of_nat d) n).
    - rewrite Z.mul_pow2_bits by lia. rewrite testbit_pow2m1 by lia. cbn [andb].
      destruct (Z.ltb_spec (n - Z.of_nat d) (Z.of_nat l)); destruct (Z.ltb_spec n (Z.of_nat l + Z.of_nat d)); lia || reflexivity.
    - rewrite Z.mul_pow2_bits_low by lia. reflexivity. }
  split.
  - apply Z.bits_inj'. intros n Hn. rewrite Z.bits_0.
    destruct (Z.lt_ge_cases n (Z.of_nat d)).
    + rewrite Z.mod_pow2_bits_low by lia. apply Hb; [lia| |lia].
      rewrite Hmbit by lia. destruct (Z.leb_spec (Z.of_nat d) n); [lia|reflexivity].
    + apply Z.mod_pow2_bits_high. lia.
  - apply bits_above_false_lt; [lia|lia|]. intros n Hn.
    destruct (Z.lt_ge_cases n 32); [|apply (testbit_small p 32); lia].
    apply Hb; [lia| |lia]. rewrite Hmbit by lia.
    destruct (Z.ltb_spec n (Z.of_nat l + Z.of_nat d)); [lia|]. apply andb_false_r.
Qed.

Lemma Height_log2 T : 1 <= T < 2 ^ 31 -> Height T = Z.log2 T.
Proof. intros HT. unfold Height. rewrite u32_id by lia. rewrite bitlen_pos by lia. lia. Qed.

Lemma decode_zero h : decode_word h 0 = Some [].
Proof.
  unfold decode_word. change (0 mod 2 ^ 32) with 0. change (0 / 2 ^ 32) with 0.
  change (Z.to_nat (popcount 0)) with 0%nat. cbn [Nat.leb Z.of_nat].
  rewrite Z.sub_0_r. unfold Mask. change (2 ^ 0 - 1) with 0. cbn [Z.mul Z.eqb].
  rewrite Zmod_0_l. cbn [Z.eqb andb].
  destruct (Z.ltb_spec 0 (2 ^ Z.of_nat h)) as [|Hge]; [|pose proof (pow2_pos (Z.of_nat h)); lia].
  rewrite Zdiv_0_l. reflexivity.
Qed.

(** * the characterisation *)

Section Domain.
  Variables (T w : Z).
  Hypothesis HT : - 2 ^ 31 <= T < 2 ^ 31.
  Hypothesis Hw : 0 <= w < 2 ^ 64.
  Let h := Z.to_nat (Z.log2 T).

  Lemma contracts_loose_inv :
    contracts_PathToIndexLoose T w = true ->
    valid_mask T = true /\ (decode_word h w <> None \/ gap_word w = true).
  Proof.
    intros H. unfold contracts_PathToIndexLoose in H.
    apply andb_prop in H. destruct H as [H Heq]. apply andb_prop in H. destruct H as [Hsz Hpc].
    pose proof (sizeCheck_inv T HT Hsz) as HT1.
    split; [unfold valid_mask; destruct (Z.leb_spec 1 T); destruct (Z.ltb_spec T (2 ^ 31)); lia || reflexivity|].
    destruct (pathCheck_inv w Hw Hpc) as (Hp30 & Hm30 & Hshape).
    destruct (word_split w Hw) as (Ew & Hp & Hm).
    destruct Hshape as [E0|(l & d & Hl & Ebl & Em & Epm & Hpl)].
    - (* empty mask half: the root, or the gap *)
      destruct (Z.eq_dec (w / 2 ^ 32) 0) as [Ep0|Hpne].
      + left. replace w with 0 by lia. rewrite decode_zero. discriminate.
      + right. unfold gap_word. unfold u32 in E0. rewrite E0. cbn [Z.eqb andb].
        destruct (Z.eqb_spec (w / 2 ^ 32) 0); [lia|].
        destruct (Z.ltb_spec (w / 2 ^ 32) (2 ^ 30)); [reflexivity|lia].
    - left.
      (* the height contract gives h = l + d *)
      unfold bitmapPathMustHaveEqualHeight in Heq. apply andb_prop in Heq. destruct Heq as [_ Heq].
      assert (Hmne : u32 w <> 0).
      { rewrite Em. pose proof (pow2_pos (Z.of_nat d) ltac:(lia)).
        assert (2 <= 2 ^ Z.of_nat l).
        { replace (Z.of_nat l) with ((Z.of_nat l - 1) + 1) by lia. rewrite pow2_succ by lia.
          pose proof (pow2_pos (Z.of_nat l - 1)). lia. }
        nia. }
      destruct (Z.eqb_spec (u32 w) 0) as [|_]; [contradiction|].
      apply Z.eqb_eq in Heq. unfold PathHeight in Heq. rewrite Height_log2 in Heq by exact HT1.
      assert (Eh : Z.of_nat h = Z.of_nat l + Z.of_nat d).
      { unfold h. pose proof (Z.log2_nonneg T). lia. }
      unfold decode_word. unfold u32 in Em. rewrite Em.
      rewrite popcount_mul_pow2 by (pose proof (pow2_pos (Z.of_nat l)); lia).
      rewrite popcount_ones, Nat2Z.id.
      replace (Z.of_nat h - Z.of_nat l) with (Z.of_nat d) by lia.
      destruct (Nat.leb_spec l h); [|lia]. unfold Mask. rewrite Z.eqb_refl.
      rewrite Epm. cbn [Z.eqb andb]. rewrite Eh.
      destruct (Z.ltb_spec (w / 2 ^ 32) (2 ^ (Z.of_nat l + Z.of_nat d))); [|lia]. discriminate.
  Qed.

  Lemma contracts_loose_of_domain :
    valid_mask T = true -> (decode_word h w <> None \/ gap_word w = true) ->
    contracts_PathToIndexLoose T w = true.
  Proof.
    intros Hv Hd. unfold valid_mask in Hv. apply andb_prop in Hv. destruct Hv as [Hv1 Hv2].
    apply Z.leb_le in Hv1. apply Z.ltb_lt in Hv2.
    assert (HT1 : 1 <= T < 2 ^ 31) by lia.
    assert (HH : Height T = Z.of_nat h) by (rewrite Height_log2 by exact HT1; unfold h; pose proof (Z.log2_nonneg T); lia).
    destruct (Height_spec T h HT1 HH) as [_ Hh].
    destruct Hd as [Hd|Hg].
    - destruct (decode_word h w) as [q|] eqn:E; [|contradiction].
      apply decode_sound in E; [|lia]. destruct E as [Hq ->].
      now apply (contracts_loose_ok T h q).
    - unfold gap_word in Hg. apply andb_prop in Hg. destruct Hg as [Hg Hp30]. apply andb_prop in Hg. destruct Hg as [Hm0 _].
      apply Z.eqb_eq in Hm0. apply Z.ltb_lt in Hp30.
      destruct (word_split w Hw) as (Ew & Hp & Hm). unfold u32 in *.
      assert (Hpc : pathCheck w = true).
      { unfold pathCheck. rewrite Ew at 1. unfold u32. rewrite Hm0. rewrite land_top2 by lia. reflexivity. }
      unfold contracts_PathToIndexLoose, bitmapPathMustHaveEqualHeight.
      rewrite (bitmapSizeCheck_ok T h HT1 HH), Hpc. unfold u32. rewrite Hm0. reflexivity.
  Qed.

  (** C03_contracts_domain *)
  Lemma contracts_loose_domain :
    contracts_PathToIndexLoose T w = true <->
    valid_mask T = true /\ (decode_word h w <> None \/ gap_word w = true).
  Proof. split; [apply contracts_loose_inv|intros [H1 H2]; now apply contracts_loose_of_domain]. Qed.
End Domain.

(** * the raw-argument operations of the correspondence run (Run/C03.v, debug build):
    the expectation of Spec/ContractSpec.v accepts the model's output on every raw input *)

Lemma contracts_strict_split T w :
  contracts_PathToIndex T w = contracts_PathToIndexLoose T w && bitmapMustHaveLevel T (PathLen w).
Proof. reflexivity. Qed.

Lemma pairZ_refl (a : Z * Z) : (fst a =? fst a) && (snd a =? snd a) = true.
Proof. now rewrite !Z.eqb_refl. Qed.

Section RawChecker.
  Variables (T w : Z).
  Hypothesis HT : - 2 ^ 31 <= T < 2 ^ 31.
  Hypothesis Hw : 0 <= w < 2 ^ 64.

  Lemma raw_loose_accepts (eqb : Z * Z -> Z * Z -> bool) : (forall a, eqb a a = true) ->
    expect_accepts eqb (raw_loose_expect T w) (PathToIndexLoose_debug T w) = true.
  Proof.
    intros Hrefl. unfold raw_loose_expect.
    pose proof (contracts_loose_domain T w HT Hw) as Hdom. cbv zeta in Hdom.
    destruct (valid_mask T) eqn:Hv.
    2:{ unfold PathToIndexLoose_debug. destruct (contracts_PathToIndexLoose T w); [|reflexivity].
        destruct (proj1 Hdom eq_refl) as [H _]. discriminate. }
    assert (HT1 : 1 <= T < 2 ^ 31).
    { unfold valid_mask in Hv. apply andb_prop in Hv. destruct Hv as [H1 H2]. apply Z.leb_le in H1. apply Z.ltb_lt in H2. lia. }
    set (h := Z.to_nat (Z.log2 T)) in *.
    assert (HH : Height T = Z.of_nat h) by (rewrite Height_log2 by exact HT1; unfold h; pose proof (Z.log2_nonneg T); lia).
    destruct (decode_word h w) as [q|] eqn:E.
    - apply decode_sound in E; [|lia]. destruct E as [Hq ->].
      rewrite (PathToIndexLoose_debug_eq T h q HT1 HH Hq), (PathToIndexLoose_pre_rank T h q HT1 HH Hq).
      unfold spec_loose. rewrite spec_rank_pre_rank by (try exact Hq; apply T_range_h; assumption).
      cbn [expect_accepts]. apply Hrefl.
    - destruct (gap_word w) eqn:G; [reflexivity|].
      unfold PathToIndexLoose_debug. destruct (contracts_PathToIndexLoose T w); [|reflexivity].
      destruct (proj1 Hdom eq_refl) as [_ [H|H]]; [now elim H|discriminate].
  Qed.

  Lemma raw_strict_accepts :
    expect_accepts Z.eqb (raw_strict_expect T w) (PathToIndex_debug T w) = true.
  Proof.
    unfold raw_strict_expect.
    pose proof (contracts_loose_domain T w HT Hw) as Hdom. cbv zeta in Hdom.
    destruct (valid_mask T) eqn:Hv.
    2:{ unfold PathToIndex_debug. rewrite contracts_strict_split.
        destruct (contracts_PathToIndexLoose T w); [|reflexivity].
        destruct (proj1 Hdom eq_refl) as [H _]. discriminate. }
    assert (HT1 : 1 <= T < 2 ^ 31).
    { unfold valid_mask in Hv. apply andb_prop in Hv. destruct Hv as [H1 H2]. apply Z.leb_le in H1. apply Z.ltb_lt in H2. lia. }
    set (h := Z.to_nat (Z.log2 T)) in *.
    assert (HH : Height T = Z.of_nat h) by (rewrite Height_log2 by exact HT1; unfold h; pose proof (Z.log2_nonneg T); lia).
    destruct (decode_word h w) as [q|] eqn:E.
    - apply decode_sound in E; [|lia]. destruct E as [Hq ->].
      destruct (stored T q) eqn:Hs.
      + rewrite (PathToIndex_debug_eq T h q HT1 HH Hq Hs), (PathToIndex_pre_rank T h q HT1 HH Hq).
        rewrite spec_rank_pre_rank by (try exact Hq; apply T_range_h; assumption).
        cbn [expect_accepts]. apply Z.eqb_refl.
      + rewrite (PathToIndex_debug_absent T h q HT1 HH Hq Hs). reflexivity.
    - destruct (gap_word w) eqn:G; [reflexivity|].
      unfold PathToIndex_debug. rewrite contracts_strict_split.
      destruct (contracts_PathToIndexLoose T w); [|reflexivity].
      destruct (proj1 Hdom eq_refl) as [_ [H|H]]; [now elim H|discriminate].
  Qed.
End RawChecker.

(** the intended contract "a contract fires on every word that is not a path word" is FALSE
    of the code as it is: a witness inside the gap (replayed on the implementation:
    PathToIndexLoose(0xf, 0x800000000) = (15, 1) in the -tags debug build, no panic) *)
Lemma contracts_gap_witness :
  exists T w, - 2 ^ 31 <= T < 2 ^ 31 /\ 0 <= w < 2 ^ 64 /\
    contracts_PathToIndexLoose T w = true /\
    (forall q, (length q <= Z.to_nat (Height T))%nat -> w <> enc (Z.to_nat (Height T)) q) /\
    PathToIndexLoose_debug T w = Some (15, 1) /\ ~ (15 < T).
Proof.
  exists 0xf, 0x800000000. split; [lia|]. split; [lia|]. split; [vm_compute; reflexivity|].
  split; [|split; [vm_compute; reflexivity|lia]].
  intros q Hq E. change (Z.to_nat (Height 15)) with 3%nat in *.
  assert (D : decode_word 3 0x800000000 = Some q) by (apply decode_word_iff; [lia|lia|split; assumption]).
  vm_compute in D. discriminate.
Qed.

Lemma C03_raw_loose_stmt T w (eqb : Z * Z -> Z * Z -> bool) : - 2 ^ 31 <= T < 2 ^ 31 -> 0 <= w < 2 ^ 64 ->
  (forall a, eqb a a = true) ->
  expect_accepts eqb (raw_loose_expect T w) (PathToIndexLoose_debug T w) = true.
Proof. intros HT Hw. exact (raw_loose_accepts T w HT Hw eqb). Qed.
