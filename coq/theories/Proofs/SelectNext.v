(** Proofs for C02, widened: the library's select against the library's NextOne (C13's model):
    NextOne from any position = select of the rank there; the second component of a select
    result = NextOne from just after the first. *)
From Coq Require Import ZArith List Lia Bool ZifyNat.
From Low Require Import Lib.MachInt Lib.Bits Lib.BitSeq Lib.BitsExtra_c02 Model.Rank Model.Select Model.BitmapNext
  Spec.RankSpec Spec.SelectSpec Spec.NextSpec Proofs.RankProofs Proofs.SelectProofs Proofs.SelectMain
  Proofs.SelectRank Proofs.NextProofs.
Import ListNotations.
Open Scope Z_scope.

Lemma rank1z_nonneg bs p : 0 <= rank1z bs p.
Proof. unfold rank1z, rank1. apply count_true_nonneg. Qed.

Lemma rank1z_le_total ws p : rank1z (flat ws) p <= zlen (all_ones ws).
Proof. rewrite zlen_all_ones. unfold rank1z, rank1. apply count_true_firstn_le. Qed.

(** no 1-bit at or after [p] when the rank at [p] is already the total *)
Lemma no_one_after ws p q : 0 <= p <= q -> zlen (all_ones ws) <= rank1z (flat ws) p ->
  bitz (flat ws) q = false.
Proof.
  intros Hpq Hr. destruct (bitz (flat ws) q) eqn:Eb; [exfalso|reflexivity].
  pose proof (bitz_nth_error (flat ws) q ltac:(lia) Eb) as Hn.
  pose proof (rank1_succ_set _ _ Hn) as Hs.
  pose proof (rank1_mono (flat ws) (Z.to_nat p) (Z.to_nat q) ltac:(lia)).
  pose proof (rank1z_le_total ws (q + 1)) as Ht. unfold rank1z in *.
  replace (Z.to_nat (q + 1)) with (S (Z.to_nat q)) in Ht by lia. lia.
Qed.

Theorem NextOne_select_of_rank ws p : words_ok ws -> 0 <= p < 64 * zlen ws ->
  NextOne ws p (64 * zlen ws) =
  Some (if rank1z (flat ws) p <? zlen (all_ones ws)
        then fst (spec_Select ws (rank1z (flat ws) p)) else -1).
Proof.
  intros Hok Hp. rewrite NextOne_exact by (assumption || lia). f_equal.
  destruct (Z.ltb_spec (rank1z (flat ws) p) (zlen (all_ones ws))) as [Hlt|Hge].
  - destruct (select_after_rank_least ws p ltac:(lia) Hlt) as (Ha & Hb & Hz & _).
    apply spec_NextOne_found; (assumption || lia).
  - apply spec_NextOne_none; [lia|]. intros q Hq. apply (no_one_after ws p q); lia.
Qed.

Theorem NextOne_after_select ws i : words_ok ws -> 0 <= i < zlen (all_ones ws) ->
  let a := fst (spec_Select ws i) in
  a + 1 < 64 * zlen ws ->
  NextOne ws (a + 1) (64 * zlen ws) =
  Some (if i + 1 <? zlen (all_ones ws) then snd (spec_Select ws i) else -1).
Proof.
  intros Hok Hi a Ha1.
  destruct (spec_Select_fst ws i Hi) as (Ha & Hr & Hb). fold a in Ha, Hr, Hb.
  rewrite NextOne_select_of_rank by (assumption || lia).
  assert (Er : rank1z (flat ws) (a + 1) = i + 1).
  { pose proof (bitz_nth_error (flat ws) a ltac:(lia) Hb) as Hn.
    unfold rank1z in *. replace (Z.to_nat (a + 1)) with (S (Z.to_nat a)) by lia.
    rewrite rank1_succ_set by exact Hn. lia. }
  rewrite Er. f_equal.
  destruct (Z.ltb_spec (i + 1) (zlen (all_ones ws))) as [Hlt|Hge]; [|reflexivity].
  unfold spec_Select. cbv zeta. cbn [fst snd].
  destruct (Z.ltb_spec (i + 1) (zlen (all_ones ws))); [reflexivity|lia].
Qed.

(** the model composites, with the indexes as built *)
Theorem Select32_then_NextOne ws sidx i a b : words_ok ws -> IndexSelect32 ws = Some sidx ->
  0 <= i < zlen (all_ones ws) -> Select32 ws sidx i = Some (a, b) -> a + 1 < 64 * zlen ws ->
  NextOne ws (a + 1) (64 * zlen ws) = Some (if b <? 64 * zlen ws then b else -1).
Proof.
  intros Hok Hs Hi Hsel Ha1. rewrite (Select32_indexed ws sidx i Hok Hs Hi) in Hsel.
  assert (E : spec_Select ws i = (a, b)) by congruence. clear Hsel.
  pose proof (NextOne_after_select ws i Hok Hi) as HN. cbv zeta in HN.
  pose proof (spec_Select_snd ws i Hi) as HS. cbv zeta in HS.
  rewrite E in HN, HS. cbn [fst snd] in HN, HS. rewrite HN by exact Ha1. f_equal.
  assert (Eb : snd (spec_Select ws i) = b) by (now rewrite E).
  unfold spec_Select in Eb. cbv zeta in Eb. cbn [snd] in Eb.
  destruct (Z.ltb_spec (i + 1) (zlen (all_ones ws))) as [Hlt|Hge].
  - destruct (Z.ltb_spec b (64 * zlen ws)) as [|Hbe]; [reflexivity|].
    (* b = nth (i+1): a real 1-position, hence < 64*len *)
    exfalso. destruct HS as (_ & Hrb & _).
    assert (Hn : nth_error (all_ones ws) (Z.to_nat (i + 1)) = Some b).
    { rewrite <- Eb. apply nth_error_nth_Some. unfold zlen in Hlt. lia. }
    destruct (all_ones_nth ws _ b Hn) as (_ & Hlt' & _). unfold zlen in Hbe. lia.
  - subst b. destruct (Z.ltb_spec (64 * zlen ws) (64 * zlen ws)); [lia|reflexivity].
Qed.

Theorem Select32R64_then_NextOne ws sidx ridx i a b : words_ok ws -> IndexSelect32R64 ws = Some (sidx, ridx) ->
  0 <= i < zlen (all_ones ws) -> Select32R64 ws sidx ridx i = Some (a, b) -> a + 1 < 64 * zlen ws ->
  NextOne ws (a + 1) (64 * zlen ws) = Some (if b <? 64 * zlen ws then b else -1).
Proof.
  intros Hok Hs Hi Hsel Ha1. rewrite (Select32R64_indexed ws sidx ridx i Hok Hs Hi) in Hsel.
  assert (E : spec_Select ws i = (a, b)) by congruence. clear Hsel.
  pose proof (NextOne_after_select ws i Hok Hi) as HN. cbv zeta in HN.
  pose proof (spec_Select_snd ws i Hi) as HS. cbv zeta in HS.
  rewrite E in HN, HS. cbn [fst snd] in HN, HS. rewrite HN by exact Ha1. f_equal.
  assert (Eb : snd (spec_Select ws i) = b) by (now rewrite E).
  unfold spec_Select in Eb. cbv zeta in Eb. cbn [snd] in Eb.
  destruct (Z.ltb_spec (i + 1) (zlen (all_ones ws))) as [Hlt|Hge].
  - destruct (Z.ltb_spec b (64 * zlen ws)) as [|Hbe]; [reflexivity|].
    (* b = nth (i+1): a real 1-position, hence < 64*len *)
    exfalso. destruct HS as (_ & Hrb & _).
    assert (Hn : nth_error (all_ones ws) (Z.to_nat (i + 1)) = Some b).
    { rewrite <- Eb. apply nth_error_nth_Some. unfold zlen in Hlt. lia. }
    destruct (all_ones_nth ws _ b Hn) as (_ & Hlt' & _). unfold zlen in Hbe. lia.
  - subst b. destruct (Z.ltb_spec (64 * zlen ws) (64 * zlen ws)); [lia|reflexivity].
Qed.

(** NextOne over the whole tail of the bitmap = the library's select of the library's rank *)
Theorem NextOne_is_Select32_of_Rank64 ws tr sidx p r b a c : words_ok ws ->
  IndexSelect32 ws = Some sidx -> 0 <= p < 64 * zlen ws ->
  Rank64 ws (IndexRank64 ws tr) p = Some (r, b) -> r < zlen (all_ones ws) ->
  Select32 ws sidx r = Some (a, c) ->
  NextOne ws p (64 * zlen ws) = Some a.
Proof.
  intros Hok Hs Hp Hrk Hr Hsel. rewrite Rank64_exact in Hrk by assumption.
  assert (Er : r = rank1z (flat ws) p) by (unfold spec_Rank in Hrk; congruence). subst r.
  pose proof (rank1z_nonneg (flat ws) p).
  rewrite (Select32_indexed ws sidx _ Hok Hs) in Hsel by lia.
  assert (E : spec_Select ws (rank1z (flat ws) p) = (a, c)) by congruence.
  rewrite NextOne_select_of_rank by assumption.
  destruct (Z.ltb_spec (rank1z (flat ws) p) (zlen (all_ones ws))); [|lia].
  now rewrite E.
Qed.

(** and when no 1-bit is at or after p (rank p = n) NextOne reports -1 *)
Theorem NextOne_none_iff_rank_total ws tr p r b : words_ok ws -> 0 <= p < 64 * zlen ws ->
  Rank64 ws (IndexRank64 ws tr) p = Some (r, b) -> zlen (all_ones ws) <= r ->
  NextOne ws p (64 * zlen ws) = Some (-1).
Proof.
  intros Hok Hp Hrk Hr. rewrite Rank64_exact in Hrk by assumption.
  assert (Er : r = rank1z (flat ws) p) by (unfold spec_Rank in Hrk; congruence). subst r.
  rewrite NextOne_select_of_rank by assumption.
  destruct (Z.ltb_spec (rank1z (flat ws) p) (zlen (all_ones ws))); [lia|reflexivity].
Qed.
