(** C13 widened: the NextOne walk against select.go - the [k]-th 1-bit a walk of the
    whole bitmap visits is what Select32 / Select32R64 return for [k] (and the
    second component is the next one visited, or [64 * len] after the last). *)
From Coq Require Import ZArith List Lia Bool.
From Low Require Import Lib.Bits Lib.BitSeq Model.BitmapNext Model.BitmapNextIter Model.BitmapOf
  Model.Rank Model.Select Proofs.NextLaws Proofs.SelectToArray.
Import ListNotations.
Open Scope Z_scope.

Theorem Select32_nth_walk ws sidx l k : words_ok ws -> IndexSelect32 ws = Some sidx ->
  IterNext ws 0 (64 * zlen ws) = Some l -> 0 <= k < zlen l ->
  Select32 ws sidx k =
  Some (nth (Z.to_nat k) l 0, if k + 1 <? zlen l then nth (Z.to_nat (k + 1)) l 0 else 64 * zlen ws).
Proof.
  intros Hok Hs Hl Hk. rewrite (IterNext_ToArray ws Hok) in Hl.
  now apply (Select32_nth_ToArray ws sidx l k).
Qed.

Theorem Select32R64_nth_walk ws sidx ridx l k : words_ok ws -> IndexSelect32R64 ws = Some (sidx, ridx) ->
  IterNext ws 0 (64 * zlen ws) = Some l -> 0 <= k < zlen l ->
  Select32R64 ws sidx ridx k =
  Some (nth (Z.to_nat k) l 0, if k + 1 <? zlen l then nth (Z.to_nat (k + 1)) l 0 else 64 * zlen ws).
Proof.
  intros Hok Hs Hl Hk. rewrite (IterNext_ToArray ws Hok) in Hl.
  now apply (Select32R64_nth_ToArray ws sidx ridx l k).
Qed.

(** * the bundle the harness runs ([bitmap.Next/Select32]) *)
From Low Require Import Model.BitmapGetw32 Model.BitmapNextReaders Spec.NextSpec Spec.SelectSpec Proofs.SelectMain Proofs.SelectProofs.

Lemma all_some_map_Some {A B} (f : A -> B) l : all_some (map (fun x => Some (f x)) l) = Some (map f l).
Proof. induction l as [|a l IH]; [reflexivity|]. cbn [map all_some]. now rewrite IH. Qed.

Theorem WalkSelect_exact ws : words_ok ws ->
  let o := ones (flat ws) in
  WalkSelect ws = Some (o, sel_pairs o (64 * zlen ws), sel_pairs o (64 * zlen ws)).
Proof.
  intros Hok o. unfold WalkSelect.
  assert (Hl : IterNext ws 0 (64 * zlen ws) = Some o).
  { rewrite (IterNext_exact ws Hok) by (unfold zlen; lia). now rewrite ones_in_whole. }
  rewrite Hl.
  destruct (IndexSelect32 ws) as [sidx|] eqn:E1.
  2:{ pose proof (IndexSelect32_exact ws) as H. rewrite E1 in H. discriminate. }
  rewrite (IndexSelect32R64_exact ws Hok).
  destruct (spec_IndexSelect32R64 ws) as [sidx2 ridx] eqn:E2.
  assert (H2 : IndexSelect32R64 ws = Some (sidx2, ridx)) by (rewrite (IndexSelect32R64_exact ws Hok); now f_equal).
  set (ks := map Z.of_nat (seq 0 (length o))).
  assert (Hks : forall k, In k ks -> 0 <= k < zlen o).
  { intros k Hk. subst ks. apply in_map_iff in Hk. destruct Hk as (n & <- & Hn). apply in_seq in Hn.
    unfold zlen. lia. }
  rewrite (map_ext_in (Select32 ws sidx) (fun k => Some (nth (Z.to_nat k) o 0, if k + 1 <? zlen o then nth (Z.to_nat (k + 1)) o 0 else 64 * zlen ws))).
  2:{ intros k Hk. apply (Select32_nth_walk ws sidx o k Hok E1 Hl). now apply Hks. }
  rewrite (map_ext_in (Select32R64 ws sidx2 ridx) (fun k => Some (nth (Z.to_nat k) o 0, if k + 1 <? zlen o then nth (Z.to_nat (k + 1)) o 0 else 64 * zlen ws))).
  2:{ intros k Hk. apply (Select32R64_nth_walk ws sidx2 ridx o k Hok H2 Hl). now apply Hks. }
  rewrite !all_some_map_Some. reflexivity.
Qed.
